(* C08 round 3 (seeded z2) - the register bookkeeping of SCALAR parameters.

   TotalProofs.v models a parameter list with the scalars already sorted into PInt / PSse / PX87, the
   same constructor on the c2mir side and on the psABI side: the code that does the sorting in c2mir
   (the scalar branch of target_add_arg_proto / target_add_call_arg_op, through get_mir_type) was not
   in the model, so a change of that branch could not contradict any theorem.  Here the parameters are
   C types.  c2mir side: get_mir_type, then
       if (type == MIR_T_F || type == MIR_T_D) n_fregs++; else if (type != MIR_T_LD) n_iregs++;
   psABI side: the class of the scalar by SysVClassify.sv_merge_into (INTEGER: next general register,
   SSE: next vector register, X87: memory, no register).  Definitions first, then the proofs.       *)
From Coq Require Import ZArith List Bool Lia.
From MirV Require Import C08.CLayout C08.SysVLayout C08.CClassify C08.SysVClassify C08.LayoutProofs
  C08.ClassifyProofs C08.TotalProofs.
Import ListNotations.
Local Open Scope Z_scope.

(* ------------------------------------------------------------------ c2mir *)

(* scalar_type_p: arithmetic types, enums, pointers *)
Definition scalar_ty (t : ty) : bool :=
  match t with TBasic _ | TPtr | TEnum _ _ => true | _ => false end.

(* floating_type_p *)
Definition floating_ty (t : ty) : bool :=
  match t with TBasic KFloat | TBasic KDouble | TBasic KLDouble => true | _ => false end.

(* the MIR types get_mir_type can answer for a scalar: an integer type of 1, 2, 4 or 8 bytes (I8..I64,
   U8..U64: the signedness plays no role in passing), F, D, LD *)
Inductive smir := SInt (bytes : Z) | SF | SD | SLD.

(* c2mir.c get_mir_type: by raw_type_size and floating_type_p *)
Definition get_mir_type (t : ty) : smir :=
  let size := raw_size (c2m_layout t) in
  if floating_ty t then (if size =? 4 then SF else if size =? 8 then SD else SLD)
  else SInt (if size =? 1 then 1 else if size =? 2 then 2 else if size =? 4 then 4 else 8).

Definition smir_eqb (a b : smir) : bool :=
  match a, b with
  | SInt x, SInt y => x =? y | SF, SF | SD, SD | SLD, SLD => true | _, _ => false
  end.

(* the scalar branch of target_add_arg_proto and of target_add_call_arg_op, as written there *)
Definition c2m_scalar_regs (m : smir) (st : Z * Z) : Z * Z :=
  let '(ni, nf) := st in
  if smir_eqb m SF || smir_eqb m SD then (ni, nf + 1)
  else if negb (smir_eqb m SLD) then (ni + 1, nf)
  else (ni, nf).

(* a parameter as declared: a scalar type or a struct/union by value *)
Inductive cparam := CScalar (t : ty) | CAgg (t : ty).

Definition c2m_cparam (st : Z * Z) (p : cparam) : option Z * (Z * Z) :=
  match p with
  | CScalar t => (None, c2m_scalar_regs (get_mir_type t) st)
  | CAgg t => let '(k, ni', nf') := pass_aggregate_arg t (fst st) (snd st) in (Some k, (ni', nf'))
  end.

(* n_iregs / n_fregs after a parameter list *)
Definition c2m_counters_from (st : Z * Z) (ps : list cparam) : Z * Z :=
  fold_left (fun s p => snd (c2m_cparam s p)) ps st.

Fixpoint c2m_cparams (st : Z * Z) (ps : list cparam) : list (option Z) :=
  match ps with
  | [] => []
  | p :: r => let '(o, st') := c2m_cparam st p in o :: c2m_cparams st' r
  end.

(* the whole signature: MIR block type of every aggregate parameter (None for scalars) *)
Definition c2m_csignature (r : result) (ps : list cparam) : list (option Z) := c2m_cparams (c2m_start r) ps.
Definition c2m_counters (r : result) (ps : list cparam) : Z * Z := c2m_counters_from (c2m_start r) ps.

(* ------------------------------------------------------------------ psABI 3.2.3 *)

(* the class of a scalar: the first eightbyte of its classification *)
Definition sysv_scalar_class (t : ty) : sclass :=
  match sv_merge_into t 0 (NO_CLASS, NO_CLASS) with Some e => fst e | None => MEMORY end.

(* "If the class is INTEGER, the next available register of %rdi.. is used; SSE: the next available
   vector register; [X87, MEMORY]: pass the argument on the stack"; no register left: the stack *)
Definition sv_scalar_regs (c : sclass) (st : Z * Z) : Z * Z :=
  let '(ni, nf) := st in
  match c with
  | INTEGER => (if ni <? 6 then ni + 1 else ni, nf)
  | SSE => (ni, if nf <? 8 then nf + 1 else nf)
  | _ => (ni, nf)
  end.

Definition sv_cparam (st : Z * Z) (p : cparam) : option (option (list place)) * (Z * Z) :=
  match p with
  | CScalar t => (None, sv_scalar_regs (sysv_scalar_class t) st)
  | CAgg t => let '(pl, ni', nf') := sysv_pass_arg t (fst st) (snd st) in (Some pl, (ni', nf'))
  end.

(* registers assigned after a parameter list *)
Definition sv_counters_from (st : Z * Z) (ps : list cparam) : Z * Z :=
  fold_left (fun s p => snd (sv_cparam s p)) ps st.

Fixpoint sv_cparams (st : Z * Z) (ps : list cparam) : list (option (option (list place))) :=
  match ps with
  | [] => []
  | p :: r => let '(o, st') := sv_cparam st p in o :: sv_cparams st' r
  end.

Definition sv_csignature (r : result) (ps : list cparam) := sv_cparams (sv_start r) ps.
Definition sv_counters (r : result) (ps : list cparam) : Z * Z := sv_counters_from (sv_start r) ps.

Definition cparam_ok (p : cparam) : Prop :=
  match p with
  | CScalar t => scalar_ty t = true
  | CAgg t => wf_ty t = true /\ is_agg t = true /\ no_pad t = true
  end.

(* ------------------------------------------------------------------ proofs *)

(* which counter a scalar bumps, in TotalProofs' vocabulary *)
Definition c2m_kind (t : ty) : param :=
  let m := get_mir_type t in
  if smir_eqb m SF || smir_eqb m SD then PSse else if negb (smir_eqb m SLD) then PInt else PX87.
Definition sv_kind (t : ty) : param :=
  match sysv_scalar_class t with INTEGER => PInt | SSE => PSse | _ => PX87 end.

Lemma int_mir_not_fp z : smir_eqb (SInt z) SF || smir_eqb (SInt z) SD = false /\ smir_eqb (SInt z) SLD = false.
Proof. split; reflexivity. Qed.

(* every scalar type: the counter c2mir bumps is the register class of the psABI *)
Lemma scalar_kind_eq t : scalar_ty t = true -> c2m_kind t = sv_kind t.
Proof.
  destruct t as [k| |lo hi|n el|el|u ms]; cbn [scalar_ty]; try discriminate; intros _.
  - destruct k; reflexivity.
  - reflexivity.
  - unfold c2m_kind, sv_kind, get_mir_type. cbn [floating_ty]. cbv iota.
    destruct (int_mir_not_fp (if raw_size (c2m_layout (TEnum lo hi)) =? 1 then 1
      else if raw_size (c2m_layout (TEnum lo hi)) =? 2 then 2
      else if raw_size (c2m_layout (TEnum lo hi)) =? 4 then 4 else 8)) as [-> ->].
    reflexivity.
Qed.

Lemma c2m_regs_kind t st : c2m_scalar_regs (get_mir_type t) st = snd (c2m_param st (c2m_kind t)).
Proof.
  destruct st as [ni nf]. unfold c2m_scalar_regs, c2m_kind.
  destruct (smir_eqb (get_mir_type t) SF || smir_eqb (get_mir_type t) SD); [reflexivity|].
  destruct (negb (smir_eqb (get_mir_type t) SLD)); reflexivity.
Qed.

Lemma sv_regs_kind t st : sv_scalar_regs (sysv_scalar_class t) st = snd (sv_param st (sv_kind t)).
Proof.
  destruct st as [ni nf]. unfold sv_scalar_regs, sv_kind.
  destruct (sysv_scalar_class t); reflexivity.
Qed.

(* one parameter: same block type, and the counters stay equal up to saturation at 6 / 8 *)
Lemma cparam_step_sat c s p : cparam_ok p -> sat c s ->
  fst (c2m_cparam c p) = option_map blk_of_places (fst (sv_cparam s p)) /\
  sat (snd (c2m_cparam c p)) (snd (sv_cparam s p)).
Proof.
  intros Hok Hs. destruct p as [t|t].
  - cbn [c2m_cparam sv_cparam fst snd]. split; [reflexivity|].
    rewrite c2m_regs_kind, sv_regs_kind, (scalar_kind_eq t Hok).
    pose proof (param_step_sat c s (sv_kind t)) as H.
    assert (Hp : param_ok (sv_kind t)) by (unfold sv_kind; destruct (sysv_scalar_class t); exact I).
    specialize (H Hp Hs).
    destruct (c2m_param c (sv_kind t)) as [oc c'], (sv_param s (sv_kind t)) as [os s'].
    exact (proj2 H).
  - pose proof (param_step_sat c s (PAgg t) Hok Hs) as H.
    destruct c as [ci cf], s as [si sf]. cbn [c2m_cparam sv_cparam c2m_param sv_param fst snd] in *.
    destruct (pass_aggregate_arg t ci cf) as [[k ni'] nf'].
    destruct (sysv_pass_arg t si sf) as [[pl i2] f2]. exact H.
Qed.

Lemma counters_sat ps : Forall cparam_ok ps -> forall c s, sat c s ->
  sat (c2m_counters_from c ps) (sv_counters_from s ps).
Proof.
  induction ps as [|p r IH]; intros HF c s Hs; [exact Hs|].
  inversion HF as [|? ? Hp Hr]; subst. unfold c2m_counters_from, sv_counters_from. cbn [fold_left].
  apply IH; [assumption|]. exact (proj2 (cparam_step_sat c s p Hp Hs)).
Qed.

Lemma cparams_sat ps : Forall cparam_ok ps -> forall c s, sat c s ->
  c2m_cparams c ps = map (option_map blk_of_places) (sv_cparams s ps).
Proof.
  induction ps as [|p r IH]; intros HF c s Hs; [reflexivity|].
  inversion HF as [|? ? Hp Hr]; subst. cbn [c2m_cparams sv_cparams].
  pose proof (cparam_step_sat c s p Hp Hs) as [H1 H2].
  destruct (c2m_cparam c p) as [oc c'], (sv_cparam s p) as [os s']. cbn [fst snd] in *. subst oc.
  cbn [map]. f_equal. apply IH; assumption.
Qed.

Lemma start_sat r : result_ok r -> sat (c2m_start r) (sv_start r).
Proof.
  intros Hr. destruct r as [|t]; cbn [c2m_start sv_start]; [unfold sat; cbn; lia|].
  destruct Hr as [Hwf Hagg]. pose proof (ret_memory_iff_lemma t Hwf Hagg) as H.
  destruct (process_ret_type t), (sysv_return t); unfold sat; cbn; try lia;
    exfalso; destruct H as [H1 H2]; try (specialize (H1 eq_refl); discriminate);
    try (specialize (H2 eq_refl); discriminate).
Qed.

(* The counters of c2mir after EVERY prefix of the parameter list are the psABI's register usage:
   assigned general registers = min (n_iregs, 6), assigned vector registers = min (n_fregs, 8). *)
Theorem counters_eq_sysv_lemma : forall r ps n,
  result_ok r -> Forall cparam_ok ps ->
  let c := c2m_counters r (firstn n ps) in
  let s := sv_counters r (firstn n ps) in
  0 <= fst c /\ 0 <= snd c /\ fst s = Z.min (fst c) 6 /\ snd s = Z.min (snd c) 8.
Proof.
  intros r ps n Hr Hps. cbv zeta.
  assert (HF : Forall cparam_ok (firstn n ps)).
  { clear Hr. revert n. induction Hps as [|p l Hp Hl IH]; intros [|n]; cbn [firstn]; constructor; auto. }
  exact (counters_sat (firstn n ps) HF _ _ (start_sat r Hr)).
Qed.

(* ... hence every aggregate parameter, wherever it stands among scalars of any class, gets the MIR
   block type that encodes the psABI's assignment *)
Theorem csignature_eq_sysv_lemma : forall r ps,
  result_ok r -> Forall cparam_ok ps ->
  c2m_csignature r ps = map (option_map blk_of_places) (sv_csignature r ps).
Proof.
  intros r ps Hr Hps. unfold c2m_csignature, sv_csignature. apply cparams_sat; [exact Hps|].
  apply start_sat. exact Hr.
Qed.

(* one scalar, spelled out: the counter c2mir bumps is the register file the psABI takes from *)
Theorem scalar_regs_eq_sysv_lemma : forall t ni nf, scalar_ty t = true ->
  c2m_scalar_regs (get_mir_type t) (ni, nf) =
  match sysv_scalar_class t with
  | INTEGER => (ni + 1, nf) | SSE => (ni, nf + 1) | _ => (ni, nf)
  end.
Proof.
  intros t ni nf Hs. rewrite c2m_regs_kind, (scalar_kind_eq t Hs). unfold sv_kind.
  destruct (sysv_scalar_class t); reflexivity.
Qed.

(* long double: class X87, and c2mir counts no register for it *)
Lemma ldouble_no_register_lemma : forall st,
  sysv_scalar_class (TBasic KLDouble) = X87 /\ c2m_scalar_regs (get_mir_type (TBasic KLDouble)) st = st.
Proof. intros [ni nf]. split; reflexivity. Qed.

(* non-vacuity, on the boundary: f (long double, double x 7, struct {double}, struct {double}):
   seven vector registers are taken (the long double takes none), the first struct still gets %xmm7,
   the second goes to the stack; with a second long double in front nothing changes *)
Definition sd : ty := TAgg false [ (MNamed, TBasic KDouble) ].
Definition sig_ld_params : list cparam :=
  CScalar (TBasic KLDouble) :: repeat (CScalar (TBasic KDouble)) 7 ++ [ CAgg sd; CAgg sd ].

Example sig_ld_ok :
  Forall cparam_ok sig_ld_params /\
  c2m_csignature RScalar sig_ld_params = repeat None 8 ++ [Some 2; Some 0] /\
  c2m_counters RScalar (firstn 8 sig_ld_params) = (0, 7) /\
  c2m_counters RScalar sig_ld_params = (0, 8) /\
  c2m_csignature RScalar (CScalar (TBasic KLDouble) :: sig_ld_params) = repeat None 9 ++ [Some 2; Some 0].
Proof.
  split; [|split; [|split; [|split]]].
  - repeat constructor; vm_compute; auto.
  - vm_compute. reflexivity.
  - vm_compute. reflexivity.
  - vm_compute. reflexivity.
  - vm_compute. reflexivity.
Qed.

(* C08 — layout_members_disjoint_in_bounds: the members of a struct occupy pairwise disjoint bit
   ranges, in declaration order, inside the object; the members of a union lie inside the object.
   Proved for the psABI model from its running position and carried over to c2mir's layout by
   layout_eq_sysv. *)
From Coq Require Import ZArith List Bool Lia ZifyBool.
From MirV Require Import C08.CLayout C08.SysVLayout C08.WalkProofs C08.StepProofs C08.MemberProofs
  C08.AggProofs C08.LayoutProofs C08.ClassifyProofs.
Import ListNotations.
Local Open Scope Z_scope.
Ltac Zify.zify_post_hook ::= Z.div_mod_to_equations.

(* the bits a member occupies, from its record (offset, bit offset, width) and its size in bytes;
   None for zero-width bit-fields *)
Definition mrange (mk : mkind) (flex : bool) (sz : Z) (r : mrec) : option (Z * Z) :=
  match mk with
  | MBits w _ => if w =? 0 then None else Some (8 * m_off r + m_bit r, 8 * m_off r + m_bit r + w)
  | _ => Some (8 * m_off r, 8 * (m_off r + (if flex then 0 else sz)))
  end.

Fixpoint ranges (size_of : ty -> Z) (ms : list (mkind * ty)) (rs : list mrec) : list (Z * Z) :=
  match ms, rs with
  | (mk, t) :: ms', r :: rs' =>
      match mrange mk (is_flex t) (size_of t) r with
      | Some x => x :: ranges size_of ms' rs'
      | None => ranges size_of ms' rs'
      end
  | _, _ => []
  end.

(* each range starts where the previous one ended or later, and all end by [hi] *)
Fixpoint chain (lo hi : Z) (l : list (Z * Z)) : Prop :=
  match l with
  | [] => lo <= hi
  | (a, b) :: r => lo <= a /\ a <= b /\ chain b hi r
  end.

Lemma chain_weaken lo lo' hi l : lo <= lo' -> chain lo' hi l -> chain lo hi l.
Proof.
  destruct l as [|[a b] r]; cbn; [lia|]. intros H (H1 & H2 & H3). repeat split; auto; lia.
Qed.

Definition sv_sz (t : ty) : Z := sv_size (sysv_layout t).

Lemma struct_step_range mk t s :
  member_ok mk (sv_sz t) (sv_align (sysv_layout t)) -> 0 <= pos s ->
  let s' := sv_struct_step mk t (sysv_layout t) s in
  exists r, smems s' = smems s ++ [r] /\ pos s <= pos s' /\
    match mrange mk (is_flex t) (sv_sz t) r with
    | Some (a, b) => pos s <= a /\ a <= b /\ b <= pos s'
    | None => True
    end.
Proof.
  unfold sv_sz. intros (Hpos & Ha & Hmod & Hmk) Hp. cbv zeta.
  destruct mk as [|w named|]; unfold sv_struct_step, mrange.
  - eexists; split; [reflexivity|]. cbn [pos m_off m_bit]. rewrite sv_is_flex_eq.
    pose proof (align_up_mult (bytes_of_bits (pos s)) (sv_align (sysv_layout t)) Ha ltac:(unfold bytes_of_bits; lia)) as [_ H].
    unfold bytes_of_bits in *. destruct (is_flex t); lia.
  - destruct Hmk as (Hsa & Ha8 & Hw & Hn). rewrite Hsa in *.
    destruct (w =? 0) eqn:E.
    + eexists; split; [reflexivity|]. cbn [pos]. split; [|exact I]. unfold align_up. split_a Ha; lia.
    + eexists; split; [reflexivity|]. cbn [pos m_off m_bit].
      set (a := sv_align (sysv_layout t)) in *.
      destruct (pos s mod (8 * a) + w <=? 8 * a) eqn:E2; unfold align_up; split_a Ha; lia.
  - eexists; split; [reflexivity|]. cbn [pos m_off m_bit]. rewrite sv_is_flex_eq.
    pose proof (align_up_mult (bytes_of_bits (pos s)) (sv_align (sysv_layout t)) Ha ltac:(unfold bytes_of_bits; lia)) as [_ H].
    unfold bytes_of_bits in *. destruct (is_flex t); lia.
Qed.

Lemma struct_fold_ranges ms :
  Forall (fun '(mk, t) => member_ok mk (sv_sz t) (sv_align (sysv_layout t))) ms ->
  forall s, 0 <= pos s ->
  let s' := fold_left (sstep false) (sm sysv_layout ms) s in
  exists rs, smems s' = smems s ++ rs /\ pos s <= pos s' /\ chain (pos s) (pos s') (ranges sv_sz ms rs).
Proof.
  induction ms as [|[mk t] r IH]; intros Hg s Hp; cbv zeta.
  - exists []. cbn. rewrite app_nil_r. repeat split; lia.
  - inversion Hg as [|? ? Hm Hr]; subst.
    change (sm sysv_layout ((mk, t) :: r)) with ((mk, t, sysv_layout t) :: sm sysv_layout r).
    cbn [fold_left sstep].
    destruct (struct_step_range mk t s Hm Hp) as (r1 & E1 & Hle & Hrange).
    set (s1 := sv_struct_step mk t (sysv_layout t) s) in *.
    destruct (IH Hr s1 ltac:(lia)) as (rs & E2 & Hle2 & Hch).
    exists (r1 :: rs). rewrite E2, E1, <- app_assoc. split; [reflexivity|]. split; [lia|].
    cbn [ranges]. destruct (mrange mk (is_flex t) (sv_sz t) r1) as [[a b]|].
    + cbn [chain]. destruct Hrange as (H1 & H2 & H3). repeat split; try lia.
      apply (chain_weaken b (pos s1)); [lia | exact Hch].
    + apply (chain_weaken (pos s) (pos s1)); [lia | exact Hch].
Qed.

(* struct: disjoint, ordered, inside [0, 8 * sizeof) *)
Theorem struct_members_disjoint_in_bounds_sysv : forall ms,
  wf_ty (TAgg false ms) = true ->
  chain 0 (8 * sv_sz (TAgg false ms)) (ranges sv_sz ms (sv_mems (sysv_layout (TAgg false ms)))).
Proof.
  intros ms Hwf.
  assert (HF : Forall (fun m => wf_ty (snd m) = true -> good (snd m)) ms)
    by (apply Forall_forall; intros m _ Hm; apply layout_good; exact Hm).
  destruct (wf_members_good false ms HF Hwf) as (Hg & _ & _).
  assert (Hok : Forall (fun '(mk, t) => member_ok mk (sv_sz t) (sv_align (sysv_layout t))) ms).
  { eapply Forall_impl; [|exact Hg]. intros [mk t] (_ & _ & _ & H & _). exact H. }
  destruct (struct_fold_ranges ms Hok (mksv 0 1 [] []) ltac:(cbn; lia)) as (rs & E & Hle & Hch).
  unfold sv_sz at 1. rewrite sysv_layout_agg. unfold sv_agg_layout. cbn [sv_size sv_mems].
  fold (sstep false). set (sv' := fold_left (sstep false) (sm sysv_layout ms) (mksv 0 1 [] [])) in *.
  cbn [smems pos app] in E, Hch, Hle. rewrite E.
  destruct (sv_fold_mono sysv_layout false ms Hok (mksv 0 1 [] []) ltac:(cbn; lia) ltac:(cbn; unfold pow2a; lia))
    as (_ & Hp2 & _).
  fold sv' in Hp2.
  assert (Hend : pos sv' <= 8 * align_up (bytes_of_bits (pos sv')) (salign sv')).
  { pose proof (align_up_mult (bytes_of_bits (pos sv')) (salign sv') Hp2 ltac:(unfold bytes_of_bits; lia)) as [_ H].
    unfold bytes_of_bits in *. lia. }
  clear E. revert Hch. generalize (ranges sv_sz ms rs). generalize 0.
  intros lo l. revert lo. induction l as [|[a b] l IHl]; intros lo; cbn [chain].
  - lia.
  - intros (H1 & H2 & H3). repeat split; auto.
Qed.

(* the same for c2mir's own records and sizes *)
Definition c2m_sz (t : ty) : Z := type_size (c2m_layout t).

Lemma mrange_norm mk fl sz r : m_width r <> 0 \/ (exists w n, mk = MBits w n /\ w = 0) ->
  mrange mk fl sz (norm r) = mrange mk fl sz r.
Proof.
  intros [H | (w & n & -> & ->)].
  - unfold norm. replace (m_width r =? 0) with false by lia. reflexivity.
  - reflexivity.
Qed.

Lemma ranges_eq ms : Forall (fun m => c2m_sz (snd m) = sv_sz (snd m)) ms ->
  forall rs, Forall2 shape ms (map norm rs) ->
  ranges c2m_sz ms rs = ranges sv_sz ms (map norm rs).
Proof.
  induction ms as [|[mk t] r IH]; intros HF rs Hsh.
  - destruct rs; reflexivity.
  - destruct rs as [|r1 rs]; [inversion Hsh|].
    inversion HF as [|? ? H1 H2]; subst. cbn [map] in Hsh. inversion Hsh as [|? ? ? ? Sh1 Sh2]; subst.
    destruct (norm_shape _ _ Sh1) as (Hrel & Hnorm). unfold mrel in Hrel. cbn [fst snd] in *.
    cbn [ranges map]. rewrite H1, (IH H2 rs Sh2).
    assert (E : mrange mk (is_flex t) (sv_sz t) (norm r1) = mrange mk (is_flex t) (sv_sz t) r1).
    { destruct mk as [|w named|].
      - rewrite Hnorm by lia. reflexivity.
      - destruct (w =? 0) eqn:Ew.
        + unfold mrange. rewrite Ew. reflexivity.
        + rewrite Hnorm by lia. reflexivity.
      - rewrite Hnorm by lia. reflexivity. }
    rewrite E. reflexivity.
Qed.

Theorem layout_members_disjoint_in_bounds_lemma : forall ms,
  wf_ty (TAgg false ms) = true ->
  chain 0 (8 * c2m_sz (TAgg false ms))
        (ranges c2m_sz ms (mems (c2m_layout (TAgg false ms)))).
Proof.
  intros ms Hwf.
  pose proof (struct_members_disjoint_in_bounds_sysv ms Hwf) as H.
  pose proof (layout_good _ Hwf) as G.
  unfold c2m_sz at 1. rewrite (g_size _ G). fold (sv_sz (TAgg false ms)).
  rewrite <- (g_mems _ G) in H.
  rewrite (ranges_eq ms); [exact H | | apply agg_shape; exact Hwf].
  pose proof (wf_agg_members false ms Hwf) as Hw.
  rewrite Forall_forall in *. intros m Hm.
  unfold c2m_sz, sv_sz. apply (g_size _ (layout_good _ (Hw m Hm))).
Qed.

(* C08 — the parameter-classification rules of the System V x86-64 psABI (section 3.2.3), written
   independently of c2mir: the aggregate is flattened into its scalar fields (with the offsets of
   the psABI layout, SysVLayout.v), every eightbyte gets the merge of the classes of the fields
   lying in it, then the post-merger clean-up.  No vector types exist in C as c2mir accepts it, so
   SSEUP and COMPLEX_X87 never arise.                                                            *)
From Coq Require Import ZArith List Bool.
From MirV Require Import C08.CLayout C08.SysVLayout.
Import ListNotations.
Local Open Scope Z_scope.

Inductive sclass := NO_CLASS | INTEGER | SSE | X87 | X87UP | MEMORY.

Definition sclass_eqb (a b : sclass) : bool :=
  match a, b with
  | NO_CLASS, NO_CLASS | INTEGER, INTEGER | SSE, SSE | X87, X87 | X87UP, X87UP | MEMORY, MEMORY => true
  | _, _ => false
  end.

(* "When two classes are merged": rules (a)-(f) of step 4 *)
Definition merge (a b : sclass) : sclass :=
  if sclass_eqb a b then a                                   (* (a) *)
  else match a, b with
  | NO_CLASS, x | x, NO_CLASS => x                           (* (b) *)
  | MEMORY, _ | _, MEMORY => MEMORY                          (* (c) *)
  | INTEGER, _ | _, INTEGER => INTEGER                       (* (d) *)
  | X87, _ | _, X87 | X87UP, _ | _, X87UP => MEMORY          (* (e) *)
  | _, _ => SSE                                              (* (f) *)
  end.

(* classes of the (at most two) eightbytes of the argument being classified *)
Definition ebs := (sclass * sclass)%type.
Definition merge_at (q : Z) (c : sclass) (e : ebs) : ebs :=
  if q =? 0 then (merge c (fst e), snd e) else if q =? 1 then (fst e, merge c (snd e)) else e.
Definition merge2 (r e : ebs) : ebs := (merge (fst r) (fst e), merge (snd r) (snd e)).

(* a bit-field is INTEGER in every eightbyte it touches (gcc classify_argument: "for (i = first;
   i < last + 1; i++) classes[i] = merge_classes (X86_64_INTEGER_CLASS, classes[i])"); it is at most
   64 bits wide, so that is the eightbyte of its first bit and, if different, of its last bit.  Only
   an unnamed bit-field of an under-aligned member aggregate can touch two. *)
Definition merge_span (bit w : Z) (e : ebs) : ebs :=
  let q0 := bit / 64 in
  let q1 := (bit + w - 1) / 64 in
  let e1 := merge_at q0 INTEGER e in
  if q1 =? q0 then e1 else merge_at q1 INTEGER e1.

(* step 5, post merger cleanup (no SSEUP can arise): (a) MEMORY anywhere => MEMORY,
   (b) X87UP not preceded by X87 => MEMORY *)
Definition cleanup (e : ebs) : option ebs :=
  let '(c0, c1) := e in
  if sclass_eqb c0 MEMORY || sclass_eqb c1 MEMORY then None
  else if sclass_eqb c0 X87UP then None
  else if sclass_eqb c1 X87UP && negb (sclass_eqb c0 X87) then None
  else Some e.

(* Step 4: "each field of an object is classified recursively so that always two fields are
   considered": fold the fields of one aggregate level in declaration order.  The elements of an
   array member are fields of the enclosing level; a struct/union member is classified on its own
   (including its own clean-up) and merged as a whole.  [base] = byte offset of the object inside
   the argument; [acc] = the classes accumulated so far at the enclosing level. *)
(* the fields of one struct/union level, folded in declaration order (rec = sv_merge_into) *)
Definition sv_level (rec : ty -> Z -> ebs -> option ebs) (base : Z) :=
  fix level (ms : list (mkind * ty)) (rs : list mrec) (e : ebs) : option ebs :=
    match ms, rs with
    | (mk, mt) :: ms', r :: rs' =>
        match mk with
        | MBits w _ =>
            (* bit-fields are INTEGER; zero-width bit-fields are ignored *)
            level ms' rs' (if w =? 0 then e else merge_span ((base + m_off r) * 8 + m_bit r) w e)
        | _ => match rec mt (base + m_off r) e with
               | None => None
               | Some e' => level ms' rs' e'
               end
        end
    | _, _ => Some e
    end.

Fixpoint sv_merge_into (t : ty) (base : Z) (acc : ebs) : option ebs :=
  match t with
  | TBasic KFloat | TBasic KDouble => Some (merge_at (base / 8) SSE acc)
  | TBasic KLDouble => Some (merge_at (base / 8 + 1) X87UP (merge_at (base / 8) X87 acc))
  | TBasic _ | TPtr | TEnum _ _ => Some (merge_at (base / 8) INTEGER acc)
  | TFlex _ => Some acc
  | TArr n el =>
      let sz := sv_size (sysv_layout el) in
      if sz =? 0 then Some acc
      else fold_left (fun a i => match a with
                                 | None => None
                                 | Some e => sv_merge_into el (base + Z.of_nat i * sz) e
                                 end) (seq 0 (Z.to_nat n)) (Some acc)
  | TAgg u ms =>
      match sv_level sv_merge_into base ms (sv_mems (sysv_layout t)) (NO_CLASS, NO_CLASS) with
      | None => None
      | Some e => match cleanup e with None => None | Some e => Some (merge2 e acc) end
      end
  end.

(* None = MEMORY; Some l = classes of the eightbytes *)
Definition sysv_classify (t : ty) : option (list sclass) :=
  let size := sv_size (sysv_layout t) in
  let n := (size + 7) / 8 in
  (* step 1 with post-merger (c): more than two eightbytes and no SSEUP anywhere => MEMORY *)
  if (2 <? n) || (n =? 0) then None
  else match sv_merge_into t 0 (NO_CLASS, NO_CLASS) with
       | None => None
       | Some e =>
           let l := firstn (Z.to_nat n) [fst e; snd e] in
           match cleanup (fst e, if n =? 1 then NO_CLASS else snd e) with
           | None => None
           | Some _ => Some l
           end
       end.

(* --- passing (3.2.3 "Passing") and returning ("Returning of Values") of a classified aggregate --- *)

(* where one eightbyte of an argument travels *)
Inductive place := InInt | InSse | InNone (* an eightbyte of padding only travels nowhere *).

(* None = on the stack (memory).  n_int / n_sse = registers already used by earlier arguments. *)
Definition sysv_pass_arg (t : ty) (n_int n_sse : Z) : option (list place) * Z * Z :=
  match sysv_classify t with
  | None => (None, n_int, n_sse)
  | Some l =>
      if existsb (fun c => match c with X87 | X87UP => true | _ => false end) l
      then (None, n_int, n_sse)           (* X87 class arguments are passed in memory *)
      else
        let ni := Z.of_nat (length (filter (sclass_eqb INTEGER) l)) in
        let ns := Z.of_nat (length (filter (sclass_eqb SSE) l)) in
        (* "if there are no registers available for any eightbyte of an argument, the whole
           argument is passed on the stack" (the counters may exceed 6 / 8: they also count the
           scalar arguments that went to the stack) *)
        if (negb (ni =? 0) && (6 <? n_int + ni)) || (negb (ns =? 0) && (8 <? n_sse + ns))
        then (None, n_int, n_sse)
        else (Some (map (fun c => match c with SSE => InSse | NO_CLASS => InNone | _ => InInt end) l), n_int + ni, n_sse + ns)
  end.

Inductive rplace := RInt | RSse | RX87.

(* None = memory (hidden pointer in %rdi, returned in %rax) *)
Definition sysv_return (t : ty) : option (list rplace) :=
  match sysv_classify t with
  | None => None
  | Some l =>
      Some (flat_map (fun c => match c with
                               | INTEGER => [RInt] | SSE => [RSse] | X87 => [RX87]
                               | _ => [] end) l)
  end.

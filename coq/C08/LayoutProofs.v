(* C08 — layout_eq_sysv: c2mir's layout model (CLayout.v) computes, for every well-formed
   declaration, exactly the psABI layout (SysVLayout.v): size, alignment, the offset and size of
   every named member, the storage unit and bit position of every bit-field. *)
From Coq Require Import ZArith List Bool Lia ZifyBool.
From MirV Require Import C08.CLayout C08.SysVLayout C08.WalkProofs C08.StepProofs C08.MemberProofs C08.AggProofs.
Import ListNotations.
Local Open Scope Z_scope.
Ltac Zify.zify_post_hook ::= Z.div_mod_to_equations.

(* ------------------------------------------------------------------ scalars and enums *)

Lemma basic_size_eq k : basic_type_size k = sv_scalar_size k.
Proof. destruct k; reflexivity. Qed.

Lemma enum_size_eq lo hi :
  basic_type_size (enum_basic_type lo hi) = sv_enum_size lo hi.
Proof.
  unfold enum_basic_type, sv_enum_size.
  repeat match goal with
  | |- context [if ?c then _ else _] => let E := fresh "E" in destruct c eqn:E
  end; try reflexivity; lia.
Qed.

(* ------------------------------------------------------------------ well-formed declarations *)

Definition int_kind (k : bkind) : bool :=
  match k with KFloat | KDouble | KLDouble => false | _ => true end.

(* size in bytes of a type a bit-field may be declared with (0 = not allowed) *)
Definition bf_size (t : ty) : Z :=
  match t with
  | TBasic k => if int_kind k then sv_scalar_size k else 0
  | TEnum lo hi => sv_enum_size lo hi
  | _ => 0
  end.

Definition is_agg (t : ty) : bool := match t with TAgg _ _ => true | _ => false end.

Definition mk_ok (mk : mkind) (t : ty) : bool :=
  match mk with
  | MNamed => true
  | MBits w named =>
      (0 <? bf_size t) && (0 <=? w) && (w <=? 8 * bf_size t) && (negb (w =? 0) || negb named)
  | MAnon => is_agg t
  end.

(* a member that occupies storage *)
Definition sized_member (m : mkind * ty) : bool :=
  match m with
  | (MBits w _, _) => 0 <? w
  | (_, t) => negb (is_flex t)
  end.

(* C11 declarations c2mir accepts, natural alignment only: array lengths positive, bit-fields of an
   integer/_Bool/enum type no wider than the type, zero-width bit-fields unnamed, anonymous members
   are structs/unions, a flexible array member only as the last named member of a struct, every
   struct/union has a member that occupies storage. *)
Fixpoint wf_ty (t : ty) : bool :=
  match t with
  | TBasic _ | TPtr | TEnum _ _ => true
  | TArr n el => (0 <? n) && negb (is_flex el) && wf_ty el
  | TFlex el => negb (is_flex el) && wf_ty el
  | TAgg u ms =>
      (fix go (ms : list (mkind * ty)) : bool :=
         match ms with
         | [] => true
         | (mk, mt) :: r =>
             mk_ok mk mt
             && (negb (is_flex mt) || match mk with MNamed => true | _ => false end)
             && wf_ty mt && go r
         end) ms
      && (if u then no_flex ms else flex_only_last ms)
      && existsb sized_member ms
  end.

(* induction over types through the member lists *)
Lemma ty_ind' (P : ty -> Prop) :
  (forall k, P (TBasic k)) -> P TPtr -> (forall lo hi, P (TEnum lo hi)) ->
  (forall n el, P el -> P (TArr n el)) -> (forall el, P el -> P (TFlex el)) ->
  (forall u ms, Forall (fun m => P (snd m)) ms -> P (TAgg u ms)) ->
  forall t, P t.
Proof.
  intros Hb Hp He Ha Hf Hg.
  fix IH 1. intros [k| |lo hi|n el|el|u ms].
  - apply Hb.
  - apply Hp.
  - apply He.
  - apply Ha, IH.
  - apply Hf, IH.
  - apply Hg. induction ms as [|[mk mt] r IHr]; constructor; [apply IH | exact IHr].
Qed.

(* ------------------------------------------------------------------ the statement *)

Record good (t : ty) : Prop := {
  g_size : type_size (c2m_layout t) = sv_size (sysv_layout t);
  g_align : align (c2m_layout t) = sv_align (sysv_layout t);
  g_leaves : leaves (c2m_layout t) = sv_leaves (sysv_layout t);
  g_mems : map norm (mems (c2m_layout t)) = sv_mems (sysv_layout t);
  g_pos : 0 < sv_size (sysv_layout t);
  g_pow2 : pow2a (sv_align (sysv_layout t));
  g_mod : sv_size (sysv_layout t) mod sv_align (sysv_layout t) = 0 }.

Lemma pow2a_max a b : pow2a a -> pow2a b -> pow2a (Z.max a b).
Proof. unfold pow2a. lia. Qed.

Lemma round_mult sz a n : pow2a a -> 0 <= sz -> sz mod a = 0 -> 0 <= n ->
  round_size (sz * n) a = sz * n /\ (sz * n) mod a = 0.
Proof.
  intros Ha Hs Hm Hn. unfold round_size.
  assert (exists k, sz = a * k /\ 0 <= k) as (k & -> & Hk) by (exists (sz / a); split_a Ha; lia).
  replace (a * k * n) with (a * (k * n)) by lia.
  assert (0 <= k * n) by (apply Z.mul_nonneg_nonneg; lia).
  remember (k * n) as m. split_a Ha; lia.
Qed.

Lemma good_scalar sz : pow2a sz ->
  forall t, c2m_layout t = mklay sz sz [] [] -> sysv_layout t = mksvl sz sz [] [] -> good t.
Proof.
  intros Hp t Hc Hs. constructor; rewrite ?Hc, ?Hs; cbn; try reflexivity; auto.
  - unfold type_size. cbn. unfold round_size. split_a Hp; cbn; lia.
  - split_a Hp; lia.
  - split_a Hp; reflexivity.
Qed.

Lemma pow2a_scalar k : pow2a (sv_scalar_size k).
Proof. unfold pow2a. destruct k; cbn; lia. Qed.

Lemma pow2a_enum lo hi : pow2a (sv_enum_size lo hi).
Proof. unfold pow2a, sv_enum_size. destruct (_ || _); lia. Qed.

(* ------------------------------------------------------------------ the psABI side alone: sizes are positive *)

Lemma sv_struct_step_mono mk t sl s :
  member_ok mk (sv_size sl) (sv_align sl) -> 0 <= pos s -> pow2a (salign s) ->
  let s' := sv_struct_step mk t sl s in
  pos s <= pos s' /\ pow2a (salign s') /\ (sized_member (mk, t) = true -> 0 < pos s').
Proof.
  intros (Hpos & Ha & Hmod & Hmk) Hp Hal. cbv zeta.
  destruct mk as [|w named|]; unfold sv_struct_step, sized_member.
  - cbn [pos salign]. rewrite sv_is_flex_eq.
    pose proof (align_up_mult (bytes_of_bits (pos s)) (sv_align sl) Ha ltac:(unfold bytes_of_bits; lia)) as [_ H].
    unfold bytes_of_bits in *. repeat split.
    + destruct (is_flex t); lia.
    + apply pow2a_max; auto.
    + intros Hs. destruct (is_flex t); [discriminate|]. lia.
  - destruct Hmk as (Hsa & Ha8 & Hw & Hn). rewrite Hsa in *.
    destruct (w =? 0) eqn:E; cbn [pos salign].
    + repeat split; auto.
      * unfold align_up. split_a Ha; lia.
      * intros Hs. lia.
    + assert (pos s <= (if pos s mod (8 * sv_align sl) + w <=? 8 * sv_align sl then pos s
                        else align_up (pos s) (8 * sv_align sl))).
      { destruct (_ <=? _); [lia|]. unfold align_up. split_a Ha; lia. }
      repeat split.
      * lia.
      * destruct named; auto. apply pow2a_max; auto.
      * intros _. lia.
  - cbn [pos salign]. rewrite sv_is_flex_eq.
    pose proof (align_up_mult (bytes_of_bits (pos s)) (sv_align sl) Ha ltac:(unfold bytes_of_bits; lia)) as [_ H].
    unfold bytes_of_bits in *. repeat split.
    + destruct (is_flex t); lia.
    + apply pow2a_max; auto.
    + intros Hs. destruct (is_flex t); [discriminate|]. lia.
Qed.

Lemma sv_union_step_mono mk t sl s :
  member_ok mk (sv_size sl) (sv_align sl) -> 0 <= pos s -> pow2a (salign s) ->
  let s' := sv_union_step mk t sl s in
  pos s <= pos s' /\ pow2a (salign s') /\ (sized_member (mk, t) = true -> 0 < pos s').
Proof.
  intros (Hpos & Ha & Hmod & Hmk) Hp Hal. cbv zeta.
  destruct mk as [|w named|]; unfold sv_union_step, sized_member.
  - cbn [pos salign]. rewrite sv_is_flex_eq. repeat split.
    + lia.
    + apply pow2a_max; auto.
    + intros Hs. destruct (is_flex t); [discriminate|]. lia.
  - destruct Hmk as (Hsa & Ha8 & Hw & Hn).
    destruct (w =? 0) eqn:E; cbn [pos salign].
    + repeat split; auto; try lia.
    + repeat split; try lia. destruct named; auto. apply pow2a_max; auto.
  - cbn [pos salign]. rewrite sv_is_flex_eq. repeat split.
    + lia.
    + apply pow2a_max; auto.
    + intros Hs. destruct (is_flex t); [discriminate|]. lia.
Qed.

Lemma sv_fold_mono (S : ty -> svlay) u ms :
  Forall (fun '(mk, t) => member_ok mk (sv_size (S t)) (sv_align (S t))) ms ->
  forall s, 0 <= pos s -> pow2a (salign s) ->
  let s' := fold_left (sstep u) (sm S ms) s in
  pos s <= pos s' /\ pow2a (salign s') /\ (existsb sized_member ms = true -> 0 < pos s').
Proof.
  induction ms as [|[mk t] r IH]; intros Hg s Hp Hal; cbv zeta.
  - cbn. split; [lia | split; [auto | discriminate]].
  - inversion Hg as [|? ? Hm Hr]; subst.
    change (sm S ((mk, t) :: r)) with ((mk, t, S t) :: sm S r).
    cbn [fold_left sstep existsb].
    set (s1 := (if u then sv_union_step else sv_struct_step) mk t (S t) s).
    assert (H1 : pos s <= pos s1 /\ pow2a (salign s1) /\ (sized_member (mk, t) = true -> 0 < pos s1)).
    { unfold s1. destruct u; [apply sv_union_step_mono | apply sv_struct_step_mono]; auto. }
    destruct H1 as (H1 & H2 & H3).
    destruct (IH Hr s1 ltac:(lia) H2) as (H4 & H5 & H6).
    split; [lia | split; [exact H5|]].
    intros Hs. apply orb_prop in Hs as [Hs|Hs].
    + specialize (H3 Hs). lia.
    + apply H6, Hs.
Qed.

(* ------------------------------------------------------------------ structs and unions *)

Lemma c2m_layout_agg u ms : c2m_layout (TAgg u ms) = agg_layout u (cm c2m_layout ms).
Proof.
  cbn [c2m_layout]. f_equal. unfold cm.
  induction ms as [|[mk mt] r IH]; [reflexivity|]. cbn [map]. f_equal. exact IH.
Qed.

Lemma sysv_layout_agg u ms : sysv_layout (TAgg u ms) = sv_agg_layout u (sm sysv_layout ms).
Proof.
  cbn [sysv_layout]. f_equal. unfold sm.
  induction ms as [|[mk mt] r IH]; [reflexivity|]. cbn [map]. f_equal. exact IH.
Qed.

Lemma inv_init : Inv init_fstate 0.
Proof. constructor; cbn; try lia; try (unfold bytes_of_bits; cbn; lia). Qed.

Lemma uinv_init : UInv init_fstate 0.
Proof. constructor; cbn; try lia; auto. Qed.

Lemma good_agg (u : bool) ms :
  Forall (mgood c2m_layout sysv_layout) ms ->
  (if u then no_flex ms else flex_only_last ms) = true ->
  existsb sized_member ms = true ->
  good (TAgg u ms).
Proof.
  intros Hg Hfl Hsz.
  assert (Hok : Forall (fun '(mk, t) => member_ok mk (sv_size (sysv_layout t)) (sv_align (sysv_layout t))) ms).
  { eapply Forall_impl; [|exact Hg]. intros [mk t] (_ & _ & _ & H & _). exact H. }
  destruct (sv_fold_mono sysv_layout u ms Hok (mksv 0 1 [] []) ltac:(cbn; lia) ltac:(cbn; unfold pow2a; lia))
    as (Hp1 & Hp2 & Hp3).
  specialize (Hp3 Hsz). cbn [pos] in Hp1.
  pose proof (align_fold c2m_layout sysv_layout u ms Hg 1 0 [] []) as Hal.
  destruct (fold_left (cstep u) (cm c2m_layout ms) (init_fstate, [], [])) as [[s' ls'] rs'] eqn:E.
  set (sv' := fold_left (sstep u) (sm sysv_layout ms) (mksv 0 1 [] [])) in *.
  assert (Hc : c2m_layout (TAgg u ms) = mklay (used s') (max_align (cm c2m_layout ms)) ls' rs').
  { rewrite c2m_layout_agg. unfold agg_layout. fold (cstep u). rewrite E. reflexivity. }
  assert (Hs : sysv_layout (TAgg u ms)
               = mksvl (align_up (bytes_of_bits (pos sv')) (salign sv')) (salign sv') (sleaves sv') (smems sv')).
  { rewrite sysv_layout_agg. reflexivity. }
  assert (H : used s' = bytes_of_bits (pos sv') /\ ls' = sleaves sv' /\ map norm rs' = smems sv').
  { destruct u.
    - exact (union_fold c2m_layout sysv_layout ms Hg Hfl init_fstate [] [] 0 1 uinv_init s' ls' rs' E).
    - exact (struct_fold c2m_layout sysv_layout ms Hg Hfl init_fstate [] [] 0 1 inv_init s' ls' rs' E). }
  destruct H as (Hu & Hl & Hr).
  assert (Hma : max_align (cm c2m_layout ms) = salign sv') by exact Hal.
  assert (Hbb : 0 < bytes_of_bits (pos sv')) by (unfold bytes_of_bits; lia).
  destruct (align_up_mult (bytes_of_bits (pos sv')) (salign sv') Hp2 ltac:(lia)) as [Hm1 Hm2].
  constructor; rewrite ?Hc, ?Hs; cbn [raw_size align leaves mems sv_size sv_align sv_leaves sv_mems].
  - unfold type_size. cbn [raw_size align]. rewrite Hma, Hu.
    replace (salign sv' =? 0) with false by (split_a Hp2; lia). reflexivity.
  - exact Hma.
  - exact Hl.
  - exact Hr.
  - lia.
  - exact Hp2.
  - unfold align_up in *. split_a Hp2; lia.
Qed.

(* ------------------------------------------------------------------ the theorem *)

Lemma bf_size_layout t : 0 < bf_size t ->
  sv_size (sysv_layout t) = bf_size t /\ sv_align (sysv_layout t) = bf_size t /\ bf_size t <= 8.
Proof.
  destruct t as [k| |lo hi|n el|el|u ms]; cbn [bf_size]; try lia.
  - destruct k; cbn; lia.
  - cbn. unfold sv_enum_size. destruct (_ || _); lia.
Qed.

Lemma mk_ok_member_ok mk t :
  good t -> mk_ok mk t = true ->
  member_ok mk (sv_size (sysv_layout t)) (sv_align (sysv_layout t)).
Proof.
  intros G Hmk. unfold member_ok.
  split; [apply (g_pos _ G)|]. split; [apply (g_pow2 _ G)|]. split; [apply (g_mod _ G)|].
  destruct mk as [|w named|]; auto.
  cbn [mk_ok] in Hmk.
  apply andb_prop in Hmk as [Hmk H4]. apply andb_prop in Hmk as [Hmk H3].
  apply andb_prop in Hmk as [H1 H2].
  destruct (bf_size_layout t ltac:(lia)) as (E1 & E2 & E3).
  rewrite E1, E2. repeat split; try lia.
  intros ->. cbn in H4. destruct named; [discriminate|reflexivity].
Qed.

Lemma wf_members_good u ms :
  Forall (fun m => wf_ty (snd m) = true -> good (snd m)) ms ->
  wf_ty (TAgg u ms) = true ->
  Forall (mgood c2m_layout sysv_layout) ms
  /\ (if u then no_flex ms else flex_only_last ms) = true
  /\ existsb sized_member ms = true.
Proof.
  intros HF Hwf. cbn [wf_ty] in Hwf.
  apply andb_prop in Hwf as [Hwf Hs]. apply andb_prop in Hwf as [Hgo Hfl].
  split; [|split; assumption].
  clear Hfl Hs. induction ms as [|[mk mt] r IH]; constructor.
  - inversion HF as [|? ? H1 H2]; subst. cbn [snd] in H1.
    apply andb_prop in Hgo as [Hgo _]. apply andb_prop in Hgo as [Hgo Hw].
    apply andb_prop in Hgo as [Hmk Hflex].
    specialize (H1 Hw). unfold mgood.
    split; [apply (g_size _ H1)|]. split; [apply (g_align _ H1)|]. split; [apply (g_leaves _ H1)|].
    split; [apply mk_ok_member_ok; assumption|].
    intros Hf. rewrite Hf in Hflex. cbn in Hflex. destruct mk; try discriminate. reflexivity.
  - inversion HF as [|? ? H1 H2]; subst. apply IH; auto.
    apply andb_prop in Hgo as [_ Hgo]. exact Hgo.
Qed.

Theorem layout_good : forall t, wf_ty t = true -> good t.
Proof.
  induction t as [k| |lo hi|n el IH|el IH|u ms IH] using ty_ind'; intros Hwf.
  - apply (good_scalar (sv_scalar_size k) (pow2a_scalar k)); destruct k; reflexivity.
  - apply (good_scalar 8); [unfold pow2a; lia | reflexivity | reflexivity].
  - apply (good_scalar (sv_enum_size lo hi) (pow2a_enum lo hi)).
    + cbn [c2m_layout]. unfold basic_type_align. rewrite enum_size_eq. reflexivity.
    + reflexivity.
  - cbn [wf_ty] in Hwf. apply andb_prop in Hwf as [Hwf Hw]. apply andb_prop in Hwf as [Hn Hfl].
    specialize (IH Hw). destruct IH as [G1 G2 G3 G4 G5 G6 G7].
    destruct (round_mult (sv_size (sysv_layout el)) (sv_align (sysv_layout el)) n G6 ltac:(lia) G7 ltac:(lia))
      as [R1 R2].
    constructor; cbn [c2m_layout sysv_layout raw_size align leaves mems sv_size sv_align sv_leaves sv_mems map].
    + unfold type_size at 1. cbn [raw_size align]. rewrite G1, G2.
      replace (sv_align (sysv_layout el) =? 0) with false by (split_a G6; lia). exact R1.
    + exact G2.
    + exact G3.
    + reflexivity.
    + apply Z.mul_pos_pos; lia.
    + exact G6.
    + exact R2.
  - cbn [wf_ty] in Hwf. apply andb_prop in Hwf as [Hfl Hw].
    specialize (IH Hw). destruct IH as [G1 G2 G3 G4 G5 G6 G7].
    destruct (round_mult (sv_size (sysv_layout el)) (sv_align (sysv_layout el)) 1 G6 ltac:(lia) G7 ltac:(lia))
      as [R1 R2].
    constructor; cbn [c2m_layout sysv_layout raw_size align leaves mems sv_size sv_align sv_leaves sv_mems map].
    + unfold type_size at 1. cbn [raw_size align]. rewrite G1, G2.
      replace (sv_align (sysv_layout el) =? 0) with false by (split_a G6; lia).
      rewrite R1. lia.
    + exact G2.
    + reflexivity.
    + reflexivity.
    + exact G5.
    + exact G6.
    + exact G7.
  - destruct (wf_members_good u ms IH Hwf) as (H1 & H2 & H3).
    apply good_agg; assumption.
Qed.

(* the statement in the words of DESIGN: sizeof, _Alignof, every member's byte offset / size and
   every bit-field's storage unit, bit offset and width agree with the psABI *)
Theorem layout_eq_sysv_lemma : forall t, wf_ty t = true ->
  type_size (c2m_layout t) = sv_size (sysv_layout t) /\
  align (c2m_layout t) = sv_align (sysv_layout t) /\
  leaves (c2m_layout t) = sv_leaves (sysv_layout t) /\
  map norm (mems (c2m_layout t)) = sv_mems (sysv_layout t).
Proof.
  intros t H. destruct (layout_good t H) as [G1 G2 G3 G4 _ _ _]. auto.
Qed.

(* C08 — proofs relating c2mir's layout model (CLayout.v) to the psABI rules (SysVLayout.v). *)
From Coq Require Import ZArith List Bool Lia.
From MirV Require Import C08.CLayout C08.SysVLayout.
Import ListNotations.
Local Open Scope Z_scope.

(* ------------------------------------------------------------------ scalars and enums *)

Lemma basic_size_eq k : basic_type_size k = sv_scalar_size k.
Proof. destruct k; reflexivity. Qed.

Lemma enum_size_eq lo hi :
  basic_type_size (enum_basic_type lo hi) = sv_enum_size lo hi.
Proof.
  unfold enum_basic_type, sv_enum_size.
  repeat match goal with
  | |- context [if ?c then _ else _] => let E := fresh "E" in destruct c eqn:E
  end; try reflexivity; lia.
Qed.

(* C08 — model of c2mir's data layout (c2mir/c2mir.c: basic_type_size, basic_type_align,
   aux_set_type_align, type_size, update_field_layout, update_members_offset, set_type_layout)
   for the x86-64 SysV target (c2mir/x86_64/cx86_64.h: LP64 sizes, long double 16).

   Definitions only; transcribed function by function.  All arithmetic is on Z: the C code uses
   mir_size_t / int with casts; the model is faithful as long as every size stays below 2^28
   bytes (no wrap of the (int) casts of bit counts), which [small_ty] states.                    *)
From Coq Require Import ZArith List Bool.
Import ListNotations.
Local Open Scope Z_scope.

(* ------------------------------------------------------------------ types of C declarations *)

Inductive bkind :=
| KBool | KChar | KSChar | KUChar | KShort | KUShort | KInt | KUInt
| KLong | KULong | KLLong | KULLong | KFloat | KDouble | KLDouble.

(* kind of a struct/union member *)
Inductive mkind :=
| MNamed                        (* T name;                                  *)
| MBits (w : Z) (named : bool)  (* T name : w;  /  T : w;  (w may be 0)     *)
| MAnon.                        (* struct { ... };  /  union { ... };  C11  *)

Inductive ty :=
| TBasic (k : bkind)
| TPtr
| TEnum (lo hi : Z)             (* enum whose least / greatest enumerator values are lo <= 0 <= hi *)
| TArr (n : Z) (el : ty)        (* T[n], n > 0 *)
| TFlex (el : ty)               (* T[]  (flexible array member) *)
| TAgg (is_union : bool) (ms : list (mkind * ty)).

(* ------------------------------------------------------------------ cx86_64.h + basic_type_size *)

Definition basic_type_size (k : bkind) : Z :=
  match k with
  | KBool | KChar | KSChar | KUChar => 1
  | KShort | KUShort => 2
  | KInt | KUInt | KFloat => 4
  | KLong | KULong | KLLong | KULLong | KDouble => 8
  | KLDouble => 16
  end.

(* MIR_LDOUBLE_ALIGN is not defined for x86-64, so the alignment is the size *)
Definition basic_type_align (k : bkind) : Z := basic_type_size k.

(* c2mir.c N_ENUM: the basic type of an enum from min_val / max_val of its constants *)
Definition enum_basic_type (lo hi : Z) : bkind :=
  if (hi <=? 2147483647) && (-2147483648 <=? lo) then KInt
  else if (hi <=? 4294967295) && (0 <=? lo) then KUInt
  else if (hi <=? 9223372036854775807) && (-9223372036854775808 <=? lo) then KLong
  else if (hi <=? 18446744073709551615) && (0 <=? lo) then KULong
  else if (lo <? 0) || (hi <=? 9223372036854775807) then KLLong else KULLong.

Definition round_size (size round : Z) : Z := (size + round - 1) / round * round.

(* ------------------------------------------------------------------ result of laying a type out *)

(* one probe-able place: a named member (l_bit = -1, l_sz = its size in bytes) or a named
   bit-field (l_off = byte offset of its storage unit, l_bit = bit offset in the unit, l_sz = width) *)
Record leaf := mkleaf { l_off : Z; l_bit : Z; l_sz : Z }.

(* what set_type_layout stores in a member's decl: offset (relative to the enclosing aggregate),
   bit_offset (-1 for non-bit-fields) and width (-1 for non-bit-fields) *)
Record mrec := mkmrec { m_off : Z; m_bit : Z; m_width : Z }.

Record lay := mklay { raw_size : Z; align : Z; leaves : list leaf; mems : list mrec }.

(* type_size: raw size rounded up to the alignment *)
Definition type_size (l : lay) : Z :=
  if align l =? 0 then raw_size l else round_size (raw_size l) (align l).

Definition shift_leaf (d : Z) (l : leaf) : leaf := mkleaf (l_off l + d) (l_bit l) (l_sz l).
Definition shift_leaves (d : Z) (ls : list leaf) : list leaf := map (shift_leaf d) ls.

(* ------------------------------------------------------------------ update_field_layout *)

(* the five variables update_field_layout reads and writes, plus [used] = used_size of
   set_type_layout (greatest end of the bytes really occupied so far) *)
Record fstate := mkfs {
  bf_p : bool; overall : Z; offset : Z; bound_bit : Z; prev_size : Z; used : Z }.

Definition init_fstate : fstate := mkfs false 0 0 0 0 0.

Section Walk.
  (* parameters of one call *)
  Variables (bf : bool) (prev_off prev_sz fsize falign bits : Z).

  (* The loop `for (;; start_offset = curr_offset)`.  On entry to an iteration
     start_offset = curr_offset = falign * k.  Returns (start_offset, bound_bit) at the break. *)
  Fixpoint walk (k : nat) (bound : Z) : Z * Z :=
    match k with
    | O =>   (* curr_offset < field_type_align *)
        (0, if 0 <=? bits
            then (if bf then bound + prev_off * 8 else bound) + bits
            else bound)
    | S k' =>
        let start := falign * Z.of_nat k in
        let curr := falign * Z.of_nat k' in
        if negb bf then                                    (* previous is a regular field *)
          if curr <? prev_off + prev_sz then
            if 0 <=? bits then
              let b1 := (prev_off + prev_sz - curr) * 8 in
              if b1 + bits <=? fsize * 8 then walk k' b1   (* continue *)
              else (start, if start <? prev_off + prev_sz
                           then bits + (prev_off + prev_sz - start) * 8 else bits)
            else (start, bound)
          else walk k' bound
        else if bits <? 0 then                             (* bit-field then regular field *)
          if curr <? prev_off + (bound + 7) / 8 then (start, bound) else walk k' bound
        else                                               (* bit-field then bit-field *)
          if (curr + fsize) * 8 <? prev_off * 8 + bound + bits then
            (start, if prev_off * 8 + bound <=? start * 8 then bits
                    else prev_off * 8 + bound + bits - start * 8)
          else walk k' bound
    end.
End Walk.

Definition update_field_layout (s : fstate) (fsize falign bits : Z) : fstate :=
  let start0 := (overall s + falign - 1) / falign * falign in
  let bound0 := if (start0 <? falign) && (0 <=? bits) then 0 else bound_bit s in
  let '(start, bound) :=
    walk (bf_p s) (offset s) (prev_size s) fsize falign bits (Z.to_nat (start0 / falign)) bound0 in
  mkfs (0 <=? bits)
       (if overall s <? start + fsize then start + fsize else overall s)
       start bound (prev_size s) (used s).

(* ------------------------------------------------------------------ set_type_layout *)

Definition is_flex (t : ty) : bool := match t with TFlex _ => true | _ => false end.

Definition member_bits (mk : mkind) : Z := match mk with MBits w _ => w | _ => -1 end.

(* alignment contribution of a member (aux_set_type_align): unnamed bit-fields are skipped *)
Definition counts_for_align (mk : mkind) : bool :=
  match mk with MBits _ false => false | _ => true end.

(* the body of the member loop for one member whose own layout is [ml] *)
Definition member_step (is_union : bool) (mk : mkind) (t : ty) (ml : lay)
  (acc : fstate * list leaf * list mrec) : fstate * list leaf * list mrec :=
  let '(s, ls, rs) := acc in
  let member_size := type_size ml in
  if member_size =? 0 then (s, ls, rs ++ [mkmrec 0 (-1) (-1)])   (* `continue`: decl left untouched *)
  else
    let bits := member_bits mk in
    if (bits =? 0) && (is_union || (overall s =? 0)) then (s, ls, rs ++ [mkmrec 0 0 0])
    else
      let s1 := update_field_layout s member_size (align ml) bits in
      let off := offset s1 in
      let bit_offset := if bits <? 0 then -1 else bound_bit s1 - bits in
      let e0 := off + (if bits <=? 0 then member_size else (bound_bit s1 + 7) / 8) in
      let e := if is_flex t then off else e0 in
      let used' := if used s1 <? e then e else used s1 in
      let bf' := if bits =? 0 then false else bf_p s1 in
      let s2 :=
        if is_union
        then mkfs false (overall s1) 0 0 0 used'
        else mkfs bf' (overall s1) off (bound_bit s1) member_size used' in
      let new_leaves :=
        match mk with
        | MNamed => mkleaf off (-1) member_size :: shift_leaves off (leaves ml)
        | MBits w true => [mkleaf off bit_offset w]
        | MBits w false => []
        | MAnon => shift_leaves off (leaves ml)     (* update_members_offset *)
        end in
      (s2, ls ++ new_leaves, rs ++ [mkmrec off bit_offset bits]).

Definition max_align (mls : list (mkind * ty * lay)) : Z :=
  fold_left (fun a '(mk, _, ml) => if counts_for_align mk then Z.max a (align ml) else a) mls 1.

(* the struct/union case of set_type_layout + aux_set_type_align, given the members' own layouts *)
Definition agg_layout (u : bool) (mls : list (mkind * ty * lay)) : lay :=
  let '(s, ls, rs) :=
    fold_left (fun acc '(mk, mt, ml) => member_step u mk mt ml acc) mls (init_fstate, [], []) in
  mklay (used s) (max_align mls) ls rs.

Fixpoint c2m_layout (t : ty) : lay :=
  match t with
  | TBasic k => mklay (basic_type_size k) (basic_type_align k) [] []
  | TPtr => mklay 8 8 [] []
  | TEnum lo hi => let k := enum_basic_type lo hi in mklay (basic_type_size k) (basic_type_align k) [] []
  | TArr n el => let l := c2m_layout el in mklay (type_size l * n) (align l) (leaves l) []
  | TFlex el => let l := c2m_layout el in mklay (type_size l * 1) (align l) [] []
  | TAgg u ms =>
      agg_layout u ((fix members (ms : list (mkind * ty)) : list (mkind * ty * lay) :=
                       match ms with
                       | [] => []
                       | (mk, mt) :: r => (mk, mt, c2m_layout mt) :: members r
                       end) ms)
  end.

Definition c2m_sizeof (t : ty) : Z := type_size (c2m_layout t).
Definition c2m_alignof (t : ty) : Z := align (c2m_layout t).

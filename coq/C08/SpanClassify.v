(* C08 (audit round 2) — bit-fields that extend over an eightbyte boundary, and the rule c2mir had
   before /repo 21222098 (fixes/C08-9).

   A named bit-field never crosses an eightbyte of the classified argument (its storage unit is
   aligned, and so is every aggregate containing it).  An UNNAMED bit-field does not raise the
   alignment of its struct, so inside a member aggregate placed at an offset that is not a multiple
   of its unit it can: struct { int i; struct { char c; long : 40; } s; float f; } has the unnamed
   bit-field in bytes 5..9.  gcc gives INTEGER to every eightbyte the bit-field touches
   (SysVClassify.merge_span), and so does the repaired classify_fields (CClassify.qmerge_span): the
   C08 classification theorems are about these.

   Kept here: the OLD rule ([classify_arg_head]: INTEGER only for the eightbyte of the first bit),
   the executable test [straddles] for such a bit-field, the proof that the old rule is the repaired
   one wherever no bit-field straddles, and the witness on which it deviated from gcc.           *)
From Coq Require Import ZArith List Bool Lia ZifyBool.
From MirV Require Import C08.CLayout C08.SysVLayout C08.CClassify C08.SysVClassify
  C08.WalkProofs C08.StepProofs C08.MemberProofs C08.AggProofs C08.LayoutProofs C08.ClassifyProofs
  C08.TotalProofs.
Import ListNotations.
Local Open Scope Z_scope.

(* classify_fields before the fix: qword = (member_offset * 8 + bit_offset) / 64 only *)
Definition cf_members_head (rec : ty -> Z -> qtypes -> option qtypes) (offset : Z) :=
  fix go (ms : list (mkind * ty)) (rs : list mrec) (sub : qtypes) : option qtypes :=
    match ms, rs with
    | (mk, mt) :: ms', r :: rs' =>
        let member_offset := m_off r + offset in
        if m_bit r <? 0 then
          match rec mt member_offset sub with
          | None => None
          | Some sub' => go ms' rs' sub'
          end
        else if m_width r =? 0 then go ms' rs' sub
        else go ms' rs' (qmerge ((member_offset * 8 + m_bit r) / 64) CInt sub)
    | _, _ => Some sub
    end.

Fixpoint classify_fields_head (t : ty) (offset : Z) (ts : qtypes) : option qtypes :=
  match t with
  | TBasic KLDouble => Some (qmerge (offset / 8 + 1) CX87up (qmerge (offset / 8) CX87 ts))
  | TBasic k => Some (qmerge (offset / 8) (if is_fp k then CSse else CInt) ts)
  | TPtr | TEnum _ _ => Some (qmerge (offset / 8) CInt ts)
  | TFlex _ => Some ts
  | TArr n el =>
      let el_size := type_size (c2m_layout el) in
      if el_size =? 0 then Some ts
      else fold_left (fun acc i => match acc with
                                   | None => None
                                   | Some ts => classify_fields_head el (offset + Z.of_nat i * el_size) ts
                                   end)
                     (seq 0 (Z.to_nat n)) (Some ts)
  | TAgg u ms =>
      match cf_members_head classify_fields_head offset ms (mems (c2m_layout t)) (CNo, CNo) with
      | None => None
      | Some sub => level_cleanup sub ts
      end
  end.

Definition classify_arg_head (t : ty) : option (list cls) :=
  let size := type_size (c2m_layout t) in
  let n_qwords := (size + 7) / 8 in
  if is_aggregate t then
    if (2 <? n_qwords) || (n_qwords =? 0) then None
    else
      match classify_fields_head t 0 (CNo, CNo) with
      | None => None
      | Some ts =>
          let l := firstn (Z.to_nat n_qwords) [fst ts; snd ts] in
          if existsb (cls_eqb CMem) l then None
          else match l with
          | CX87up :: _ => None
          | [c0; CX87up] => if cls_eqb c0 CX87 then Some l else None
          | _ => Some (map (fun c => if cls_eqb c CNo then CInt else c) l)
          end
      end
  else classify_arg t.

(* does some bit-field of [t], laid at byte [offset] of the argument, touch two eightbytes?
   (walks c2mir's own member records exactly as classify_fields does) *)
Definition straddles_level (rec : ty -> Z -> bool) (offset : Z) :=
  fix go (ms : list (mkind * ty)) (rs : list mrec) : bool :=
    match ms, rs with
    | (mk, mt) :: ms', r :: rs' =>
        let member_offset := m_off r + offset in
        if m_bit r <? 0 then rec mt member_offset || go ms' rs'
        else if m_width r =? 0 then go ms' rs'
        else negb ((member_offset * 8 + m_bit r + m_width r - 1) / 64 =? (member_offset * 8 + m_bit r) / 64)
             || go ms' rs'
    | _, _ => false
    end.

Fixpoint straddles (t : ty) (offset : Z) : bool :=
  match t with
  | TArr n el =>
      let el_size := type_size (c2m_layout el) in
      if el_size =? 0 then false
      else existsb (fun i => straddles el (offset + Z.of_nat i * el_size)) (seq 0 (Z.to_nat n))
  | TAgg u ms => straddles_level straddles offset ms (mems (c2m_layout t))
  | _ => false
  end.

Definition no_straddle (t : ty) : bool := negb (straddles t 0).

Lemma qmerge_span_same bit w ts : (bit + w - 1) / 64 = bit / 64 -> qmerge_span bit w ts = qmerge (bit / 64) CInt ts.
Proof. intros H. unfold qmerge_span. rewrite H, Z.eqb_refl. reflexivity. Qed.

Lemma members_head_eq (rh rc : ty -> Z -> qtypes -> option qtypes) (st : ty -> Z -> bool) off ms :
  Forall (fun m => forall o ts, st (snd m) o = false -> rh (snd m) o ts = rc (snd m) o ts) ms ->
  forall rs sub, straddles_level st off ms rs = false ->
  cf_members_head rh off ms rs sub = cf_members rc off ms rs sub.
Proof.
  induction ms as [|[mk mt] r IH]; intros HF rs sub Hs; [destruct rs; reflexivity|].
  destruct rs as [|r1 rs]; [reflexivity|].
  inversion HF as [|? ? H1 H2]; subst. cbn [snd] in H1.
  cbn [cf_members_head cf_members straddles_level] in *.
  destruct (m_bit r1 <? 0).
  - apply orb_false_elim in Hs as [Hs1 Hs2]. rewrite (H1 _ sub Hs1).
    destruct (rc mt (m_off r1 + off) sub); [apply IH; assumption | reflexivity].
  - destruct (m_width r1 =? 0); [apply IH; assumption|].
    apply orb_false_elim in Hs as [Hs1 Hs2].
    rewrite qmerge_span_same by lia. apply IH; assumption.
Qed.

Lemma classify_fields_head_eq : forall t off ts, straddles t off = false ->
  classify_fields_head t off ts = classify_fields t off ts.
Proof.
  induction t as [k| |lo hi|n el IH|el IH|u ms IH] using ty_ind'; intros off ts Hs; try reflexivity.
  - cbn [classify_fields_head classify_fields straddles] in *.
    destruct (type_size (c2m_layout el) =? 0); [reflexivity|].
    revert Hs. generalize (seq 0 (Z.to_nat n)). intros l. generalize (Some ts).
    induction l as [|i l IHl]; intros a Hs; [reflexivity|].
    cbn [existsb] in Hs. apply orb_false_elim in Hs as [Hs1 Hs2].
    cbn [fold_left]. rewrite <- IHl by exact Hs2. f_equal.
    destruct a as [e|]; [apply IH; exact Hs1 | reflexivity].
  - cbn [classify_fields_head classify_fields straddles] in *.
    rewrite (members_head_eq classify_fields_head classify_fields straddles off ms); [reflexivity| |exact Hs].
    eapply Forall_impl; [|exact IH]. intros m Hm o e Ho. apply Hm. exact Ho.
Qed.

(* where no bit-field straddles (every declaration without an unnamed bit-field in an under-aligned
   member aggregate) the code before the fix classified exactly as the repaired code does ... *)
Theorem classify_head_eq_lemma : forall t, no_straddle t = true -> classify_arg_head t = classify_arg t.
Proof.
  intros t H. unfold no_straddle in H. apply negb_true_iff in H.
  unfold classify_arg_head. destruct (is_aggregate t) eqn:E; [|reflexivity].
  unfold classify_arg. rewrite E, (classify_fields_head_eq t 0 _ H). reflexivity.
Qed.

(* ... hence as gcc does *)
Theorem classify_head_eq_gcc_partial_lemma : forall t,
  wf_ty t = true -> is_agg t = true -> no_straddle t = true ->
  option_map (map tr) (classify_arg_head t) = option_map (map pad_int) (sysv_classify t).
Proof.
  intros t Hwf Hagg Hs. rewrite (classify_head_eq_lemma t Hs).
  apply classify_eq_sysv_total_lemma; assumption.
Qed.

(* the witness: struct { int i; struct { char c; long : 40; } s; float f; } - gcc and the repaired
   c2mir INTEGER, INTEGER (%rdi, %rsi); the old rule INTEGER, SSE (%rdi, %xmm0); no padding
   eightbyte involved *)
Definition straddle_witness : ty :=
  TAgg false [ (MNamed, TBasic KInt);
               (MNamed, TAgg false [ (MNamed, TBasic KChar); (MBits 40 false, TBasic KLong) ]);
               (MNamed, TBasic KFloat) ].

Lemma classify_head_refuted_lemma :
  wf_ty straddle_witness = true /\ is_agg straddle_witness = true /\ no_pad straddle_witness = true /\
  no_straddle straddle_witness = false /\
  option_map (map tr) (classify_arg_head straddle_witness) = Some [INTEGER; SSE] /\
  option_map (map tr) (classify_arg straddle_witness) = Some [INTEGER; INTEGER] /\
  sysv_classify straddle_witness = Some [INTEGER; INTEGER].
Proof. vm_compute. auto 10. Qed.

(* C08 (audit round 2) — gcc's treatment of a bit-field that extends over an eightbyte boundary.

   A named bit-field never crosses an eightbyte of the classified argument (its storage unit is
   aligned, and so is every aggregate containing it).  An UNNAMED bit-field does not raise the
   alignment of its struct, so inside a member aggregate placed at an offset that is not a multiple
   of its unit it can: struct { int i; struct { char c; long : 40; } s; float f; } has the unnamed
   bit-field in bytes 5..9.  gcc (classify_argument: "for (i = first eightbyte; i < last + 1; i++)
   classes[i] = merge (INTEGER, classes[i])") gives INTEGER to every eightbyte the bit-field
   touches; SysVClassify.sv_level and c2mir's classify_fields only to the one holding its first bit.

   [sysv_classify_g] is the gcc-faithful specification; [straddles] the executable test for such a
   bit-field; without one the two specifications coincide, so every C08 classification theorem
   holds against [sysv_classify_g] under the extra guard [no_straddle]; with one, c2mir (as audited)
   deviates: [classify_gcc_refuted] (fixes/C08-9.patch).                                           *)
From Coq Require Import ZArith List Bool Lia ZifyBool.
From MirV Require Import C08.CLayout C08.SysVLayout C08.CClassify C08.SysVClassify
  C08.WalkProofs C08.StepProofs C08.MemberProofs C08.AggProofs C08.LayoutProofs C08.ClassifyProofs
  C08.TotalProofs.
Import ListNotations.
Local Open Scope Z_scope.

(* INTEGER for the eightbyte of the first bit and, if different, the eightbyte of the last bit
   (a bit-field is at most 64 bits wide: it touches at most two) *)
Definition merge_span (bit w : Z) (e : ebs) : ebs :=
  let q0 := bit / 64 in
  let q1 := (bit + w - 1) / 64 in
  let e1 := merge_at q0 INTEGER e in
  if q1 =? q0 then e1 else merge_at q1 INTEGER e1.

Definition sv_level_g (rec : ty -> Z -> ebs -> option ebs) (base : Z) :=
  fix level (ms : list (mkind * ty)) (rs : list mrec) (e : ebs) : option ebs :=
    match ms, rs with
    | (mk, mt) :: ms', r :: rs' =>
        match mk with
        | MBits w _ =>
            level ms' rs' (if w =? 0 then e else merge_span ((base + m_off r) * 8 + m_bit r) w e)
        | _ => match rec mt (base + m_off r) e with
               | None => None
               | Some e' => level ms' rs' e'
               end
        end
    | _, _ => Some e
    end.

Fixpoint sv_merge_into_g (t : ty) (base : Z) (acc : ebs) : option ebs :=
  match t with
  | TBasic KFloat | TBasic KDouble => Some (merge_at (base / 8) SSE acc)
  | TBasic KLDouble => Some (merge_at (base / 8 + 1) X87UP (merge_at (base / 8) X87 acc))
  | TBasic _ | TPtr | TEnum _ _ => Some (merge_at (base / 8) INTEGER acc)
  | TFlex _ => Some acc
  | TArr n el =>
      let sz := sv_size (sysv_layout el) in
      if sz =? 0 then Some acc
      else fold_left (fun a i => match a with
                                 | None => None
                                 | Some e => sv_merge_into_g el (base + Z.of_nat i * sz) e
                                 end) (seq 0 (Z.to_nat n)) (Some acc)
  | TAgg u ms =>
      match sv_level_g sv_merge_into_g base ms (sv_mems (sysv_layout t)) (NO_CLASS, NO_CLASS) with
      | None => None
      | Some e => match cleanup e with None => None | Some e => Some (merge2 e acc) end
      end
  end.

Definition sysv_classify_g (t : ty) : option (list sclass) :=
  let size := sv_size (sysv_layout t) in
  let n := (size + 7) / 8 in
  if (2 <? n) || (n =? 0) then None
  else match sv_merge_into_g t 0 (NO_CLASS, NO_CLASS) with
       | None => None
       | Some e =>
           let l := firstn (Z.to_nat n) [fst e; snd e] in
           match cleanup (fst e, if n =? 1 then NO_CLASS else snd e) with
           | None => None
           | Some _ => Some l
           end
       end.

(* does some bit-field of [t], laid at byte [base] of the argument, touch two eightbytes? *)
Definition straddles_level (rec : ty -> Z -> bool) (base : Z) :=
  fix level (ms : list (mkind * ty)) (rs : list mrec) : bool :=
    match ms, rs with
    | (mk, mt) :: ms', r :: rs' =>
        match mk with
        | MBits w _ =>
            (negb (w =? 0) &&
             negb (((base + m_off r) * 8 + m_bit r + w - 1) / 64 =? ((base + m_off r) * 8 + m_bit r) / 64))
            || level ms' rs'
        | _ => rec mt (base + m_off r) || level ms' rs'
        end
    | _, _ => false
    end.

Fixpoint straddles (t : ty) (base : Z) : bool :=
  match t with
  | TArr n el =>
      let sz := sv_size (sysv_layout el) in
      if sz =? 0 then false
      else existsb (fun i => straddles el (base + Z.of_nat i * sz)) (seq 0 (Z.to_nat n))
  | TAgg u ms => straddles_level straddles base ms (sv_mems (sysv_layout t))
  | _ => false
  end.

Definition no_straddle (t : ty) : bool := negb (straddles t 0).

Lemma merge_span_same bit w e : (bit + w - 1) / 64 = bit / 64 -> merge_span bit w e = merge_at (bit / 64) INTEGER e.
Proof. intros H. unfold merge_span. rewrite H, Z.eqb_refl. reflexivity. Qed.

Lemma level_g_eq (rg r_ : ty -> Z -> ebs -> option ebs) (st : ty -> Z -> bool) base ms :
  Forall (fun m => forall b e, st (snd m) b = false -> rg (snd m) b e = r_ (snd m) b e) ms ->
  forall rs e, straddles_level st base ms rs = false ->
  sv_level_g rg base ms rs e = sv_level r_ base ms rs e.
Proof.
  induction ms as [|[mk mt] r IH]; intros HF rs e Hs; [destruct rs; reflexivity|].
  destruct rs as [|r1 rs]; [reflexivity|].
  inversion HF as [|? ? H1 H2]; subst. cbn [snd] in H1.
  cbn [sv_level_g sv_level straddles_level] in *.
  destruct mk as [|w named|].
  - apply orb_false_elim in Hs as [Hs1 Hs2]. rewrite (H1 _ e Hs1).
    destruct (r_ mt (base + m_off r1) e); [apply IH; assumption | reflexivity].
  - apply orb_false_elim in Hs as [Hs1 Hs2].
    destruct (w =? 0) eqn:E; [apply IH; assumption|].
    cbn [negb andb] in Hs1. rewrite merge_span_same by lia. apply IH; assumption.
  - apply orb_false_elim in Hs as [Hs1 Hs2]. rewrite (H1 _ e Hs1).
    destruct (r_ mt (base + m_off r1) e); [apply IH; assumption | reflexivity].
Qed.

Lemma merge_into_g_eq : forall t base acc, straddles t base = false ->
  sv_merge_into_g t base acc = sv_merge_into t base acc.
Proof.
  induction t as [k| |lo hi|n el IH|el IH|u ms IH] using ty_ind'; intros base acc Hs; try reflexivity.
  - cbn [sv_merge_into_g sv_merge_into straddles] in *.
    destruct (sv_size (sysv_layout el) =? 0); [reflexivity|].
    revert Hs. generalize (seq 0 (Z.to_nat n)). intros l. generalize (Some acc).
    induction l as [|i l IHl]; intros a Hs; [reflexivity|].
    cbn [existsb] in Hs. apply orb_false_elim in Hs as [Hs1 Hs2].
    cbn [fold_left]. rewrite <- IHl by exact Hs2. f_equal.
    destruct a as [e|]; [apply IH; exact Hs1 | reflexivity].
  - cbn [sv_merge_into_g sv_merge_into straddles] in *.
    rewrite (level_g_eq sv_merge_into_g sv_merge_into straddles base ms); [reflexivity| |exact Hs].
    eapply Forall_impl; [|exact IH]. intros m Hm b e Hb. apply Hm. exact Hb.
Qed.

(* without a straddling bit-field the gcc-faithful specification is the one the C08 theorems use *)
Theorem sysv_classify_g_eq_lemma : forall t, no_straddle t = true -> sysv_classify_g t = sysv_classify t.
Proof.
  intros t H. unfold no_straddle in H. apply negb_true_iff in H.
  unfold sysv_classify_g, sysv_classify. rewrite (merge_into_g_eq t 0 _ H). reflexivity.
Qed.

(* ... so c2mir's classification is gcc's for every well-formed struct/union without a straddling
   (unnamed) bit-field, padding eightbytes turned into INTEGER *)
Theorem classify_eq_gcc_partial_lemma : forall t,
  wf_ty t = true -> is_agg t = true -> no_straddle t = true ->
  option_map (map tr) (classify_arg t) = option_map (map pad_int) (sysv_classify_g t).
Proof.
  intros t Hwf Hagg Hs. rewrite (sysv_classify_g_eq_lemma t Hs).
  apply classify_eq_sysv_total_lemma; assumption.
Qed.

(* the tree as audited: struct { int i; struct { char c; long : 40; } s; float f; } - gcc INTEGER,
   INTEGER (%rdi, %rsi); c2mir INTEGER, SSE (%rdi, %xmm0); no padding eightbyte involved *)
Definition straddle_witness : ty :=
  TAgg false [ (MNamed, TBasic KInt);
               (MNamed, TAgg false [ (MNamed, TBasic KChar); (MBits 40 false, TBasic KLong) ]);
               (MNamed, TBasic KFloat) ].

Lemma classify_gcc_refuted_lemma :
  wf_ty straddle_witness = true /\ is_agg straddle_witness = true /\ no_pad straddle_witness = true /\
  no_straddle straddle_witness = false /\
  option_map (map tr) (classify_arg straddle_witness) = Some [INTEGER; SSE] /\
  sysv_classify_g straddle_witness = Some [INTEGER; INTEGER].
Proof. vm_compute. auto 10. Qed.


(* C08 round 3: the accesses that move a struct/union returned in registers (update_last_qword_type,
   process_ret_type, target_add_ret_ops / target_gen_post_call_res_code) transfer every byte of it. *)
From Coq Require Import ZArith List Bool Lia.
From MirV Require Import C08.CLayout C08.CClassify C08.StepProofs C08.LayoutProofs C08.ClassifyProofs.
Import ListNotations.
Local Open Scope Z_scope.
Ltac Zify.zify_post_hook ::= Z.div_mod_to_equations.

(* shape of classify_arg's answer for a struct/union: one class per eightbyte, never MEMORY / NO_CLASS,
   X87UP only behind X87 *)
Lemma classify_arg_shape t cl : wf_ty t = true -> is_agg t = true -> classify_arg t = Some cl ->
  ((type_size (c2m_layout t) + 7) / 8 = 1 /\
   exists a, cl = [a] /\ (a = CInt \/ a = CSse \/ a = CX87)) \/
  ((type_size (c2m_layout t) + 7) / 8 = 2 /\
   exists a b, cl = [a; b] /\ ((a = CX87 /\ b = CX87up) \/
                               ((a = CInt \/ a = CSse \/ a = CX87) /\ (b = CInt \/ b = CSse \/ b = CX87)))).
Proof.
  intros Hwf Hagg. pose proof (layout_good t Hwf) as G.
  assert (Hsz : 0 < type_size (c2m_layout t)) by (rewrite (g_size _ G); apply (g_pos _ G)).
  destruct t as [k| |lo hi|n el|el|u ms]; try discriminate.
  unfold classify_arg. cbn [is_aggregate].
  remember ((type_size (c2m_layout (TAgg u ms)) + 7) / 8) as n eqn:En0.
  destruct ((2 <? n) || (n =? 0)) eqn:En; [discriminate|].
  destruct (classify_fields (TAgg u ms) 0 (CNo, CNo)) as [[a b]|]; [|discriminate].
  cbn [fst snd].
  assert (Hn' : n = 1 \/ n = 2) by lia.
  destruct Hn' as [Hn | Hn]; rewrite Hn;
    [change (Z.to_nat 1) with 1%nat | change (Z.to_nat 2) with 2%nat]; cbn [firstn].
  - destruct a; cbn; intros H; try discriminate; injection H as <-; left; (split; [reflexivity|]);
      eexists; (split; [reflexivity|]); tauto.
  - destruct a, b; cbn; intros H; try discriminate; injection H as <-; right; (split; [reflexivity|]);
      do 2 eexists; (split; [reflexivity|]); tauto.
Qed.

(* update_last_qword_type on a single INTEGER / SSE eightbyte: the access is the least power of two
   that is >= sizeof (I8, I16, I32 / F up to 4 bytes; the whole eightbyte for 5..8), the class stays *)
Definition pow2_cover (size : Z) : Z :=
  if size <=? 1 then 1 else if size <=? 2 then 2 else if size <=? 4 then 4 else 8.
(* an SSE eightbyte of at most 4 bytes is a float *)
Definition access_bytes (int_class : bool) (size : Z) : Z :=
  if int_class then pow2_cover size else if size <=? 4 then 4 else 8.

Lemma ulq_single size c : 1 <= size <= 8 -> c = CInt \/ c = CSse ->
  exists m, update_last_qword_type size [mtype_of_cls c] = [m] /\
            mbytes m = access_bytes (is_int_mtype m) size /\ size <= mbytes m <= 8 /\
            is_int_mtype m = is_int_mtype (mtype_of_cls c) /\ m <> MX87UP /\ m <> MLD.
Proof.
  intros Hs Hc. unfold update_last_qword_type.
  destruct (size mod 8 =? 0) eqn:E0; destruct (size mod 8 <=? 4) eqn:E4;
    destruct (size mod 8 <=? 1) eqn:E1; destruct (size mod 8 <=? 2) eqn:E2;
    try (exfalso; lia);
    destruct Hc as [-> | ->]; cbn; eexists; (split; [reflexivity|]); unfold access_bytes, pow2_cover; cbn;
    destruct (size <=? 1) eqn:F1; destruct (size <=? 2) eqn:F2; destruct (size <=? 4) eqn:F4;
    try (exfalso; lia); repeat split; try reflexivity; try discriminate; lia.
Qed.

Lemma ulq_ld size : update_last_qword_type size [MLD] = [MLD].
Proof.
  unfold update_last_qword_type.
  destruct (size mod 8 =? 0); [reflexivity|]. destruct (size mod 8 <=? 4); reflexivity.
Qed.

(* every byte of a struct/union returned in registers is transferred by one of the accesses *)
Theorem ret_bytes_cover_lemma : forall t ps,
  wf_ty t = true -> is_agg t = true -> ret_pieces t = Some ps ->
  forall b, 0 <= b < type_size (c2m_layout t) ->
  exists o m, In (o, m) ps /\ o <= b < o + mbytes m.
Proof.
  intros t ps Hwf Hagg Hp b Hb.
  unfold ret_pieces, process_ret_type in Hp.
  destruct (classify_arg t) as [cl|] eqn:E; [|discriminate].
  cbn [option_map] in Hp. injection Hp as <-.
  destruct (classify_arg_shape t cl Hwf Hagg E) as [(Hn & a & -> & Ha) | (Hn & a & c & -> & Hac)].
  - assert (Hs : 1 <= type_size (c2m_layout t) <= 8) by lia.
    cbn [map]. destruct Ha as [-> | [-> | ->]].
    + destruct (ulq_single _ CInt Hs (or_introl eq_refl)) as (m & -> & _ & Hm & _ & Hx & _).
      exists 0, m. destruct m; try congruence; cbn in *; (split; [left; reflexivity | lia]).
    + destruct (ulq_single _ CSse Hs (or_intror eq_refl)) as (m & -> & _ & Hm & _ & Hx & _).
      exists 0, m. destruct m; try congruence; cbn in *; (split; [left; reflexivity | lia]).
    + cbn [mtype_of_cls]. rewrite ulq_ld. exists 0, MLD. cbn. split; [left; reflexivity | lia].
  - assert (Hs : 9 <= type_size (c2m_layout t) <= 16) by lia.
    cbn [map update_last_qword_type].
    destruct Hac as [(-> & ->) | (Ha & Hc)].
    + cbn. exists 0, MLD. cbn. split; [left; reflexivity | lia].
    + assert (H8 : b < 8 \/ 8 <= b) by lia.
      destruct Ha as [-> | [-> | ->]], Hc as [-> | [-> | ->]]; cbn;
        (destruct H8; [eexists 0, _; split; [left; reflexivity | cbn; lia]
                      | eexists 8, _; split; [right; left; reflexivity | cbn; lia]]).
Qed.

(* the access type of a single-piece return, per sizeof: INTEGER - the least power of two >= sizeof
   (I8, I16, I32, I64); SSE - F up to 4 bytes, else D *)
Theorem ret_tail_access_lemma : forall t m,
  wf_ty t = true -> is_agg t = true -> process_ret_type t = Some [m] -> m <> MLD ->
  mbytes m = access_bytes (is_int_mtype m) (type_size (c2m_layout t)).
Proof.
  intros t m Hwf Hagg Hp Hld. unfold process_ret_type in Hp.
  destruct (classify_arg t) as [cl|] eqn:E; [|discriminate].
  injection Hp as Hp.
  destruct (classify_arg_shape t cl Hwf Hagg E) as [(Hn & a & -> & Ha) | (Hn & a & c & -> & Hac)].
  - assert (Hs : 1 <= type_size (c2m_layout t) <= 8) by lia.
    cbn [map] in Hp. destruct Ha as [-> | [-> | ->]].
    + destruct (ulq_single _ CInt Hs (or_introl eq_refl)) as (m' & Hu & Hm & _ & _ & Hx & _).
      rewrite Hu in Hp. destruct m'; try congruence; cbn in Hp; injection Hp as <-; exact Hm.
    + destruct (ulq_single _ CSse Hs (or_intror eq_refl)) as (m' & Hu & Hm & _ & _ & Hx & _).
      rewrite Hu in Hp. destruct m'; try congruence; cbn in Hp; injection Hp as <-; exact Hm.
    + cbn [mtype_of_cls] in Hp. rewrite ulq_ld in Hp. cbn in Hp. congruence.
  - cbn [map update_last_qword_type] in Hp.
    destruct Hac as [(-> & ->) | (Ha & Hc)].
    + cbn in Hp. congruence.
    + destruct Ha as [-> | [-> | ->]], Hc as [-> | [-> | ->]]; cbn in Hp; discriminate.
Qed.

(* no access starts outside the aggregate's eightbytes or reaches beyond them (an access may still reach
   beyond sizeof - up to 7 bytes: 3 bytes travel as I32, 5..7 and the second eightbyte of 9..15 as 8 bytes) *)
Theorem ret_pieces_within_lemma : forall t ps o m,
  wf_ty t = true -> is_agg t = true -> ret_pieces t = Some ps -> In (o, m) ps -> m <> MLD ->
  0 <= o /\ o + mbytes m <= 8 * ((type_size (c2m_layout t) + 7) / 8).
Proof.
  intros t ps o m Hwf Hagg Hp Hin Hld.
  unfold ret_pieces, process_ret_type in Hp.
  destruct (classify_arg t) as [cl|] eqn:E; [|discriminate].
  cbn [option_map] in Hp. injection Hp as <-.
  destruct (classify_arg_shape t cl Hwf Hagg E) as [(Hn & a & -> & Ha) | (Hn & a & c & -> & Hac)]; rewrite Hn.
  - assert (Hs : 1 <= type_size (c2m_layout t) <= 8) by lia.
    cbn [map] in Hin. destruct Ha as [-> | [-> | ->]].
    + destruct (ulq_single _ CInt Hs (or_introl eq_refl)) as (m' & Hu & _ & Hm & _ & Hx & _).
      rewrite Hu in Hin.
      destruct m'; try congruence; cbn in Hin; destruct Hin as [Hin | []]; injection Hin as <- <-; cbn in *; lia.
    + destruct (ulq_single _ CSse Hs (or_intror eq_refl)) as (m' & Hu & _ & Hm & _ & Hx & _).
      rewrite Hu in Hin.
      destruct m'; try congruence; cbn in Hin; destruct Hin as [Hin | []]; injection Hin as <- <-; cbn in *; lia.
    + cbn [mtype_of_cls] in Hin. rewrite ulq_ld in Hin. cbn in Hin. destruct Hin as [Hin | []]. congruence.
  - cbn [map update_last_qword_type] in Hin.
    destruct Hac as [(-> & ->) | (Ha & Hc)].
    + cbn in Hin. destruct Hin as [Hin | []]. congruence.
    + destruct Ha as [-> | [-> | ->]], Hc as [-> | [-> | ->]]; cbn in Hin;
        destruct Hin as [Hin | [Hin | []]]; injection Hin as <- <-; try congruence; cbn; lia.
Qed.

(* non-vacuity / boundary: struct { char c[3]; } travels as one I32 (not I16), struct { char c[5]; } as I64,
   struct { float f[3]; } as D, D *)
Definition c08_char3 : ty := TAgg false [ (MNamed, TArr 3 (TBasic KChar)) ].
Definition c08_char5 : ty := TAgg false [ (MNamed, TArr 5 (TBasic KChar)) ].
Definition c08_float3 : ty := TAgg false [ (MNamed, TArr 3 (TBasic KFloat)) ].
Lemma ret_pieces_examples :
  wf_ty c08_char3 = true /\ is_agg c08_char3 = true /\
  ret_pieces c08_char3 = Some [(0, MI32)] /\ ret_pieces c08_char5 = Some [(0, MI64)] /\
  ret_pieces c08_float3 = Some [(0, MD); (8, MD)].
Proof. vm_compute. auto 10. Qed.

(* C08 (audit round 2) — the classification theorems without the [no_pad] guard, the exact
   characterisation of c2mir's deviation from the psABI, and the statement for whole function
   signatures (all by-value parameter positions + the hidden result pointer) against the psABI's
   own register accounting (saturating counters: at most 6 INTEGER and 8 SSE registers).          *)
From Coq Require Import ZArith List Bool Lia ZifyBool.
From MirV Require Import C08.CLayout C08.SysVLayout C08.CClassify C08.SysVClassify
  C08.WalkProofs C08.StepProofs C08.MemberProofs C08.AggProofs C08.LayoutProofs C08.ClassifyProofs.
Import ListNotations.
Local Open Scope Z_scope.
Ltac Zify.zify_post_hook ::= Z.div_mod_to_equations.

(* ------------------------------------------------------------------ classification, all types *)

(* c2mir's one deviation: an eightbyte of padding only (NO_CLASS) is given class INTEGER *)
Definition pad_int (c : sclass) : sclass := match c with NO_CLASS => INTEGER | _ => c end.

Theorem classify_eq_sysv_total_lemma : forall t,
  wf_ty t = true -> is_agg t = true ->
  option_map (map tr) (classify_arg t) = option_map (map pad_int) (sysv_classify t).
Proof.
  intros t Hwf Hagg.
  pose proof (classify_fields_ok t Hwf 0 (CNo, CNo)) as Hcf.
  change (tr2 (CNo, CNo)) with (NO_CLASS, NO_CLASS) in Hcf.
  pose proof (layout_good t Hwf) as G.
  unfold classify_arg, sysv_classify in *.
  rewrite (g_size _ G).
  destruct t as [k| |lo hi|n el|el|u ms]; try discriminate. cbn [is_aggregate].
  set (sz := sv_size (sysv_layout (TAgg u ms))) in *.
  assert (Hsz : 0 < sz) by apply (g_pos _ G).
  destruct ((2 <? (sz + 7) / 8) || ((sz + 7) / 8 =? 0)) eqn:En; [reflexivity|].
  assert (Hn : (sz + 7) / 8 = 1 \/ (sz + 7) / 8 = 2) by lia.
  rewrite <- Hcf in *. clear Hcf.
  destruct (classify_fields (TAgg u ms) 0 (CNo, CNo)) as [[a b]|]; cbn [option_map] in *; [|reflexivity].
  unfold tr2 in *. cbn [fst snd] in *.
  destruct Hn as [Hn|Hn]; rewrite Hn in *; cbn [Z.eqb Z.to_nat Pos.to_nat Pos.iter_op Nat.add firstn] in *.
  - destruct a; cbn in *; reflexivity.
  - destruct a, b; cbn in *; reflexivity.
Qed.

Lemma map_pad_int_id l : map pad_int l = l <-> existsb (sclass_eqb NO_CLASS) l = false.
Proof.
  induction l as [|c l IH]; cbn [map existsb]; [tauto|].
  split.
  - intros H. injection H as H1 H2. apply IH in H2. rewrite H2. destruct c; cbn in *; congruence.
  - intros H. apply orb_false_elim in H as [H1 H2]. apply IH in H2. rewrite H2.
    destruct c; cbn in *; congruence.
Qed.

(* the deviation, both ways: c2mir's classes differ from the psABI's exactly on the aggregates one of
   whose (at most two) eightbytes has class NO_CLASS in the psABI *)
Theorem classify_deviation_iff_lemma : forall t,
  wf_ty t = true -> is_agg t = true ->
  (option_map (map tr) (classify_arg t) = sysv_classify t <-> no_pad t = true).
Proof.
  intros t Hwf Hagg. rewrite (classify_eq_sysv_total_lemma t Hwf Hagg). unfold no_pad.
  destruct (sysv_classify t) as [l|]; cbn [option_map]; [|tauto].
  split.
  - intros H. injection H as H. apply map_pad_int_id in H. rewrite H. reflexivity.
  - intros H. f_equal. apply map_pad_int_id. destruct (existsb _ l); [discriminate|reflexivity].
Qed.

(* where it deviates, the deviation is: same number of eightbytes, INTEGER for the padding one *)
Lemma length_map_pad l : length (map pad_int l) = length l.
Proof. apply map_length. Qed.

(* ------------------------------------------------------------------ passing / returning, all types *)

(* the psABI's passing and returning rules as functions of the classes of the eightbytes *)
Definition sysv_pass_of (cl : option (list sclass)) (n_int n_sse : Z) : option (list place) * Z * Z :=
  match cl with
  | None => (None, n_int, n_sse)
  | Some l =>
      if existsb (fun c => match c with X87 | X87UP => true | _ => false end) l
      then (None, n_int, n_sse)
      else
        let ni := Z.of_nat (length (filter (sclass_eqb INTEGER) l)) in
        let ns := Z.of_nat (length (filter (sclass_eqb SSE) l)) in
        if (negb (ni =? 0) && (6 <? n_int + ni)) || (negb (ns =? 0) && (8 <? n_sse + ns))
        then (None, n_int, n_sse)
        else (Some (map (fun c => match c with SSE => InSse | NO_CLASS => InNone | _ => InInt end) l), n_int + ni, n_sse + ns)
  end.

Definition sysv_return_of (cl : option (list sclass)) : option (list rplace) :=
  match cl with
  | None => None
  | Some l => Some (flat_map (fun c => match c with
                                       | INTEGER => [RInt] | SSE => [RSse] | X87 => [RX87]
                                       | _ => [] end) l)
  end.

Lemma sysv_pass_arg_of t ni nf : sysv_pass_arg t ni nf = sysv_pass_of (sysv_classify t) ni nf.
Proof. reflexivity. Qed.
Lemma sysv_return_of_eq t : sysv_return t = sysv_return_of (sysv_classify t).
Proof. reflexivity. Qed.

(* the classes c2mir works with: the psABI's, padding eightbytes turned into INTEGER *)
Definition c2m_classes (t : ty) : option (list sclass) := option_map (map pad_int) (sysv_classify t).

Lemma classify_arg_no_cno t cl : wf_ty t = true -> is_agg t = true -> classify_arg t = Some cl ->
  existsb (cls_eqb CNo) cl = false /\ existsb (cls_eqb CMem) cl = false.
Proof.
  intros Hwf Hagg E.
  pose proof (classify_arg_len t cl Hwf Hagg E) as Hlen.
  destruct t as [k| |lo hi|n el|el|u ms]; try discriminate.
  unfold classify_arg in E. cbn [is_aggregate] in E.
  destruct (_ || _); [discriminate|].
  destruct (classify_fields _ _ _) as [[a b]|]; [|discriminate].
  destruct (existsb (cls_eqb CMem) _) eqn:Em; [discriminate|].
  destruct Hlen as [(x & ->) | (x & y & ->)].
  - destruct x; cbn; auto; exfalso; revert E Em;
      destruct (firstn _ _) as [|c0 [|c1 r]]; try discriminate;
      try (destruct c0; discriminate);
      destruct c0, c1; destruct r; cbn; intros; discriminate.
  - destruct x, y; cbn; auto; exfalso; revert E Em;
      destruct (firstn _ _) as [|c0 [|c1 r]]; try discriminate;
      try (destruct c0; discriminate);
      destruct c0, c1; destruct r; cbn; intros; discriminate.
Qed.

Theorem blk_type_total_lemma : forall t ni nf,
  wf_ty t = true -> is_agg t = true ->
  pass_aggregate_arg t ni nf =
    (let '(pl, i2, f2) := sysv_pass_of (c2m_classes t) ni nf in (blk_of_places pl, i2, f2)).
Proof.
  intros t ni nf Hwf Hagg.
  pose proof (classify_eq_sysv_total_lemma t Hwf Hagg) as Hc.
  unfold pass_aggregate_arg, c2m_classes. rewrite <- Hc.
  destruct (classify_arg t) as [cl|] eqn:E; cbn [option_map]; [|reflexivity].
  pose proof (classify_arg_len t cl Hwf Hagg E) as Hlen.
  destruct (classify_arg_no_cno t cl Hwf Hagg E) as [Hno Hmem].
  exact (pass_cases (type_size (c2m_layout t)) cl ni nf Hlen Hno Hmem).
Qed.

Theorem ret_total_lemma : forall t,
  wf_ty t = true -> is_agg t = true ->
  option_map (map rplace_of) (process_ret_type t) = sysv_return_of (c2m_classes t).
Proof.
  intros t Hwf Hagg.
  pose proof (classify_eq_sysv_total_lemma t Hwf Hagg) as Hc.
  unfold process_ret_type, c2m_classes. rewrite <- Hc.
  destruct (classify_arg t) as [cl|] eqn:E; cbn [option_map sysv_return_of]; [|reflexivity].
  pose proof (classify_arg_len t cl Hwf Hagg E) as Hlen.
  destruct (classify_arg_no_cno t cl Hwf Hagg E) as [Hno Hmem].
  f_equal. exact (ret_cases (type_size (c2m_layout t)) cl Hlen Hno Hmem).
Qed.

(* a result goes through the hidden pointer in c2mir exactly when the psABI says MEMORY - for every
   aggregate, padding eightbytes or not *)
Theorem ret_memory_iff_lemma : forall t,
  wf_ty t = true -> is_agg t = true ->
  (process_ret_type t = None <-> sysv_return t = None).
Proof.
  intros t Hwf Hagg. pose proof (ret_total_lemma t Hwf Hagg) as H.
  unfold c2m_classes in H. rewrite sysv_return_of_eq.
  destruct (process_ret_type t), (sysv_classify t); cbn in *; split; intros; congruence.
Qed.

(* ------------------------------------------------------------------ whole signatures *)

(* a parameter: a scalar of class INTEGER (integers, _Bool, enums, pointers), SSE (float, double),
   X87 (long double: always on the stack, uses no register), or a struct/union by value *)
Inductive param := PInt | PSse | PX87 | PAgg (t : ty).
(* the result: void or a scalar (no hidden pointer), or a struct/union *)
Inductive result := RScalar | RAgg (t : ty).

(* c2mir: target_add_res_proto / target_add_call_res_op (a result returned by address takes the
   first integer register), then target_add_arg_proto / target_add_call_arg_op per parameter; the
   counters n_iregs / n_fregs are plain ints that keep counting after the registers are used up *)
Definition c2m_start (r : result) : Z * Z :=
  match r with
  | RAgg t => match process_ret_type t with None => (1, 0) | Some _ => (0, 0) end
  | RScalar => (0, 0)
  end.

Definition c2m_param (st : Z * Z) (p : param) : option Z * (Z * Z) :=
  let '(ni, nf) := st in
  match p with
  | PInt => (None, (ni + 1, nf))
  | PSse => (None, (ni, nf + 1))
  | PX87 => (None, (ni, nf))
  | PAgg t => let '(k, ni', nf') := pass_aggregate_arg t ni nf in (Some k, (ni', nf'))
  end.

(* the MIR block type of every aggregate parameter, in order (None for scalars) *)
Fixpoint c2m_params (st : Z * Z) (ps : list param) : list (option Z) :=
  match ps with
  | [] => []
  | p :: r => let '(o, st') := c2m_param st p in o :: c2m_params st' r
  end.

Definition c2m_signature (r : result) (ps : list param) : list (option Z) := c2m_params (c2m_start r) ps.

(* psABI 3.2.3: the state is the number of INTEGER (<= 6) and SSE (<= 8) registers already assigned;
   a scalar takes the next register of its class if one is left, else the stack; an aggregate gets
   registers for all its eightbytes or goes to the stack whole; a MEMORY-class result takes %rdi *)
Definition sv_start (r : result) : Z * Z :=
  match r with
  | RAgg t => match sysv_return t with None => (1, 0) | Some _ => (0, 0) end
  | RScalar => (0, 0)
  end.

Definition sv_param (st : Z * Z) (p : param) : option (option (list place)) * (Z * Z) :=
  let '(ni, nf) := st in
  match p with
  | PInt => (None, (if ni <? 6 then ni + 1 else ni, nf))
  | PSse => (None, (ni, if nf <? 8 then nf + 1 else nf))
  | PX87 => (None, (ni, nf))
  | PAgg t => let '(pl, ni', nf') := sysv_pass_arg t ni nf in (Some pl, (ni', nf'))
  end.

Fixpoint sv_params (st : Z * Z) (ps : list param) : list (option (option (list place))) :=
  match ps with
  | [] => []
  | p :: r => let '(o, st') := sv_param st p in o :: sv_params st' r
  end.

Definition sv_signature (r : result) (ps : list param) := sv_params (sv_start r) ps.

Definition param_ok (p : param) : Prop :=
  match p with PAgg t => wf_ty t = true /\ is_agg t = true /\ no_pad t = true | _ => True end.
Definition result_ok (r : result) : Prop :=
  match r with RAgg t => wf_ty t = true /\ is_agg t = true | RScalar => True end.

(* c2mir's counters and the psABI's: equal up to saturation *)
Definition sat (c s : Z * Z) : Prop :=
  0 <= fst c /\ 0 <= snd c /\ fst s = Z.min (fst c) 6 /\ snd s = Z.min (snd c) 8.

(* sysv_pass_arg sees its counters only through their saturated values *)
Lemma sysv_pass_of_sat cl ci cf : 0 <= ci -> 0 <= cf ->
  sysv_pass_of cl (Z.min ci 6) (Z.min cf 8) =
  (let '(pl, i2, f2) := sysv_pass_of cl ci cf in (pl, Z.min i2 6, Z.min f2 8)) /\
  (let '(pl, i2, f2) := sysv_pass_of cl ci cf in 0 <= i2 /\ 0 <= f2).
Proof.
  intros Hi Hf. unfold sysv_pass_of.
  destruct cl as [l|]; [|split; [reflexivity|lia]].
  destruct (existsb _ l); [split; [reflexivity|lia]|].
  set (a := Z.of_nat (length (filter (sclass_eqb INTEGER) l))).
  set (b := Z.of_nat (length (filter (sclass_eqb SSE) l))).
  assert (Ha : 0 <= a) by (unfold a; lia). assert (Hb : 0 <= b) by (unfold b; lia).
  destruct ((negb (a =? 0) && (6 <? ci + a)) || (negb (b =? 0) && (8 <? cf + b))) eqn:E1;
  destruct ((negb (a =? 0) && (6 <? Z.min ci 6 + a)) || (negb (b =? 0) && (8 <? Z.min cf 8 + b))) eqn:E2.
  - split; [reflexivity|lia].
  - exfalso. lia.
  - exfalso. lia.
  - split; [|lia]. f_equal; [f_equal|]; lia.
Qed.

Lemma param_step_sat c s p : param_ok p -> sat c s ->
  let '(oc, c') := c2m_param c p in
  let '(os, s') := sv_param s p in
  oc = option_map blk_of_places os /\ sat c' s'.
Proof.
  intros Hok (Hi & Hf & Si & Sf). destruct c as [ci cf], s as [si sf]. cbn [fst snd] in *. subst si sf.
  destruct p as [| | |t]; cbn [c2m_param sv_param].
  - split; [reflexivity|]. unfold sat; cbn [fst snd]. destruct (Z.min ci 6 <? 6) eqn:E; lia.
  - split; [reflexivity|]. unfold sat; cbn [fst snd]. destruct (Z.min cf 8 <? 8) eqn:E; lia.
  - split; [reflexivity|]. unfold sat; cbn [fst snd]. lia.
  - destruct Hok as (Hwf & Hagg & Hnp).
    rewrite (blk_type_consistent_lemma t ci cf Hwf Hagg Hnp).
    rewrite !sysv_pass_arg_of.
    destruct (sysv_pass_of_sat (sysv_classify t) ci cf Hi Hf) as [E1 E2]. rewrite E1.
    destruct (sysv_pass_of (sysv_classify t) ci cf) as [[pl i2] f2].
    split; [reflexivity|]. unfold sat; cbn [fst snd]. lia.
Qed.

Lemma params_sat ps : Forall param_ok ps -> forall c s, sat c s ->
  c2m_params c ps = map (option_map blk_of_places) (sv_params s ps).
Proof.
  induction ps as [|p r IH]; intros HF c s Hs; [reflexivity|].
  inversion HF as [|? ? Hp Hr]; subst. cbn [c2m_params sv_params].
  pose proof (param_step_sat c s p Hp Hs) as H.
  destruct (c2m_param c p) as [oc c'], (sv_param s p) as [os s']. destruct H as [-> Hs'].
  cbn [map]. f_equal. apply IH; assumption.
Qed.

(* For every function signature - any result, any list of scalar and struct/union parameters - the
   MIR block type c2mir gives each aggregate parameter is the psABI's assignment (INTEGER/SSE
   registers per eightbyte, or the stack once a needed register class is used up), with the psABI's
   own bounded register accounting and %rdi taken by a MEMORY-class result. *)
Theorem signature_eq_sysv_lemma : forall r ps,
  result_ok r -> Forall param_ok ps ->
  c2m_signature r ps = map (option_map blk_of_places) (sv_signature r ps).
Proof.
  intros r ps Hr Hps. unfold c2m_signature, sv_signature. apply params_sat; [exact Hps|].
  destruct r as [|t]; cbn [c2m_start sv_start]; [unfold sat; cbn; lia|].
  destruct Hr as [Hwf Hagg]. pose proof (ret_memory_iff_lemma t Hwf Hagg) as H.
  destruct (process_ret_type t), (sysv_return t); unfold sat; cbn; try lia;
    exfalso; destruct H as [H1 H2]; try (specialize (H1 eq_refl); discriminate);
    try (specialize (H2 eq_refl); discriminate).
Qed.

(* non-vacuity: struct big f (long, long, long, long, struct{long;long} a, struct{double} b, long double, struct{long} c):
   the hidden result pointer and 4 longs leave one INTEGER register: a goes to the stack, b to %xmm0,
   c still gets %r9 *)
Definition sig_example_ret : result :=
  RAgg (TAgg false [ (MNamed, TArr 3 (TBasic KLong)) ]).
Definition sig_example_params : list param :=
  [ PInt; PInt; PInt; PInt;
    PAgg (TAgg false [ (MNamed, TBasic KLong); (MNamed, TBasic KLong) ]);
    PAgg (TAgg false [ (MNamed, TBasic KDouble) ]);
    PX87;
    PAgg (TAgg false [ (MNamed, TBasic KLong) ]) ].

Example sig_example_ok :
  result_ok sig_example_ret /\ Forall param_ok sig_example_params /\
  c2m_signature sig_example_ret sig_example_params
  = [None; None; None; None; Some 0; Some 2; None; Some 1].
Proof.
  split; [|split].
  - vm_compute. auto.
  - repeat constructor; vm_compute; auto.
  - vm_compute. reflexivity.
Qed.

(* ------------------------------------------------------------------ sign of bit-field values *)

(* How c2mir and gcc read the value of a bit-field of declared type [t] and width [w] back: sign- or
   zero-extended.  c2mir (gen of a bit-field load): arithmetic shift iff signed_integer_type_p (type)
   && (type is not an enum || width >= 32 [|| the enum has a negative enumerator: fixes/C08-7]);
   [neg_aware] = the tree carries that fix.  gcc: by the signedness of the declared type, an enum
   being unsigned exactly when it has no negative enumerator. *)
Definition signed_kind (k : bkind) : bool :=
  match k with KChar | KSChar | KShort | KInt | KLong | KLLong => true | _ => false end.

Definition c2m_bf_signed (neg_aware : bool) (t : ty) (w : Z) : bool :=
  match t with
  | TBasic k => signed_kind k
  | TEnum lo hi => signed_kind (enum_basic_type lo hi) && ((32 <=? w) || (neg_aware && (lo <? 0)))
  | _ => false
  end.

Definition sv_bf_signed (t : ty) (w : Z) : bool :=
  match t with
  | TBasic k => signed_kind k
  | TEnum lo hi => lo <? 0
  | _ => false
  end.

Lemma bf_sign_basic_lemma : forall fix_ k w, c2m_bf_signed fix_ (TBasic k) w = sv_bf_signed (TBasic k) w.
Proof. reflexivity. Qed.

(* enums: with the fix, every bit-field narrower than 32 bits is read as gcc reads it; without it
   only those of enums without negative enumerators *)
Lemma bf_sign_enum_lemma : forall fix_ lo hi w, w < 32 -> (fix_ = true \/ 0 <= lo) ->
  c2m_bf_signed fix_ (TEnum lo hi) w = sv_bf_signed (TEnum lo hi) w.
Proof.
  intros fix_ lo hi w Hw H. cbn [c2m_bf_signed sv_bf_signed].
  replace (32 <=? w) with false by lia. cbn [orb].
  destruct H as [-> | H].
  - cbn [andb]. destruct (lo <? 0) eqn:E; [|apply andb_false_r].
    rewrite andb_true_r. unfold enum_basic_type.
    repeat match goal with |- context [if ?c then _ else _] => destruct c eqn:? end; try reflexivity; lia.
  - replace (lo <? 0) with false by lia. rewrite andb_false_r. apply andb_false_r.
Qed.

(* the tree as audited: an enum with a negative enumerator, bit-field of width 2 *)
Lemma bf_sign_refuted_lemma : exists lo hi w, 0 < w /\ lo <= 0 <= hi /\
  c2m_bf_signed false (TEnum lo hi) w <> sv_bf_signed (TEnum lo hi) w.
Proof. exists (-1), 1, 2. repeat split; try lia. vm_compute. discriminate. Qed.

(* C08 — one member of a struct: c2mir's member_step (update_field_layout + bookkeeping of
   set_type_layout) against the psABI step, under the invariant that ties c2mir's state
   (bf_p, overall_size, offset, bound_bit, prev_size, used_size) to the running bit position. *)
From Coq Require Import ZArith List Bool Lia ZifyBool.
From MirV Require Import C08.CLayout C08.SysVLayout C08.WalkProofs.
Import ListNotations.
Local Open Scope Z_scope.
Ltac Zify.zify_post_hook ::= Z.div_mod_to_equations.

(* zero-width bit-fields have no storage: where c2mir notes them is irrelevant *)
Definition norm (r : mrec) : mrec := if m_width r =? 0 then mkmrec 0 0 0 else r.

(* c2mir's state s represents the bit position p *)
Record Inv (s : fstate) (p : Z) : Prop := {
  inv_p : 0 <= p;
  inv_off : 0 <= offset s /\ 0 <= prev_size s /\ 0 <= bound_bit s;
  inv_pos : if bf_p s then p = 8 * offset s + bound_bit s else p = 8 * (offset s + prev_size s);
  inv_overall : bytes_of_bits p <= overall s /\ (overall s = 0 <-> p = 0);
  inv_used : used s = bytes_of_bits p }.

(* what the step needs to know about a member: sz = its size, a = its alignment *)
Definition member_ok (mk : mkind) (sz a : Z) : Prop :=
  0 < sz /\ pow2a a /\ sz mod a = 0 /\
  match mk with
  | MBits w named => sz = a /\ a <= 8 /\ 0 <= w <= 8 * sz /\ (w = 0 -> named = false)
  | _ => True
  end.

Lemma align_up_mult x a : pow2a a -> 0 <= x -> align_up x a / a * a = align_up x a /\ x <= align_up x a.
Proof. intros Ha Hx. unfold align_up. split_a Ha; lia. Qed.

Lemma start0_nat ov a : pow2a a -> 0 <= ov ->
  Z.of_nat (Z.to_nat ((ov + a - 1) / a * a / a)) = (ov + a - 1) / a /\
  a * ((ov + a - 1) / a) = (ov + a - 1) / a * a.
Proof. intros Ha Hx. split_a Ha; lia. Qed.

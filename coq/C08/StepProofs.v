(* C08 — one member of a struct: c2mir's member_step (update_field_layout + bookkeeping of
   set_type_layout) against the psABI step, under the invariant that ties c2mir's state
   (bf_p, overall_size, offset, bound_bit, prev_size, used_size) to the running bit position. *)
From Coq Require Import ZArith List Bool Lia ZifyBool.
From MirV Require Import C08.CLayout C08.SysVLayout C08.WalkProofs.
Import ListNotations.
Local Open Scope Z_scope.
Ltac Zify.zify_post_hook ::= Z.div_mod_to_equations.

(* zero-width bit-fields have no storage: where c2mir notes them is irrelevant (only that it does
   not note them as a non-bit-field, bit_offset < 0) *)
Definition norm (r : mrec) : mrec :=
  if m_width r =? 0 then mkmrec 0 (if m_bit r <? 0 then -1 else 0) 0 else r.

(* c2mir's state s represents the bit position p *)
Record Inv (s : fstate) (p : Z) : Prop := {
  inv_p : 0 <= p;
  inv_off : 0 <= offset s /\ 0 <= prev_size s /\ 0 <= bound_bit s;
  inv_pos : if bf_p s then p = 8 * offset s + bound_bit s else p = 8 * (offset s + prev_size s);
  inv_overall : bytes_of_bits p <= overall s /\ (overall s = 0 <-> p = 0);
  inv_used : used s = bytes_of_bits p }.

(* what the step needs to know about a member: sz = its size, a = its alignment *)
Definition member_ok (mk : mkind) (sz a : Z) : Prop :=
  0 < sz /\ pow2a a /\ sz mod a = 0 /\
  match mk with
  | MBits w named => sz = a /\ a <= 8 /\ 0 <= w <= 8 * sz /\ (w = 0 -> named = false)
  | _ => True
  end.

Lemma align_up_mult x a : pow2a a -> 0 <= x -> align_up x a / a * a = align_up x a /\ x <= align_up x a.
Proof. intros Ha Hx. unfold align_up. split_a Ha; lia. Qed.

Lemma start0_nat ov a : pow2a a -> 0 <= ov ->
  Z.of_nat (Z.to_nat ((ov + a - 1) / a * a / a)) = (ov + a - 1) / a /\
  a * ((ov + a - 1) / a) = (ov + a - 1) / a * a.
Proof. intros Ha Hx. split_a Ha; lia. Qed.

(* ------------------------------------------------------------------ update_field_layout, case by case *)

Lemma inv_overall_nonneg s p : Inv s p -> 0 <= overall s.
Proof. intros [Hp _ _ [Ho _] _]. unfold bytes_of_bits in Ho. lia. Qed.

(* a member that is not a bit-field *)
Lemma ufl_regular s p sz a :
  Inv s p -> pow2a a -> 0 < sz ->
  let s1 := update_field_layout s sz a (-1) in
  offset s1 = align_up (bytes_of_bits p) a /\
  bound_bit s1 = bound_bit s /\ bf_p s1 = false /\
  overall s1 = Z.max (overall s) (offset s1 + sz) /\ used s1 = used s /\ prev_size s1 = prev_size s.
Proof.
  intros HI Ha Hsz. pose proof (inv_overall_nonneg _ _ HI) as Hov.
  destruct HI as [Hp [Ho1 [Ho2 Ho3]] Hpos [Hov1 Hov2] Hu].
  unfold update_field_layout.
  destruct (start0_nat (overall s) a Ha Hov) as [Hk Hm].
  replace ((((overall s + a - 1) / a * a <? a) && (0 <=? -1))) with false by (destruct (_ <? a); reflexivity).
  destruct (bf_p s) eqn:Hbf.
  - rewrite walk_br; [| auto | lia | lia | lia |].
    + cbn [offset bound_bit bf_p overall used prev_size].
      subst p. unfold bytes_of_bits in *.
      replace ((8 * offset s + bound_bit s + 7) / 8) with (offset s + (bound_bit s + 7) / 8) by lia.
      repeat split; try reflexivity; try lia.
      destruct (overall s <? _) eqn:E; lia.
    + rewrite Hk. unfold bytes_of_bits in Hov1. subst p. split_a Ha; lia.
  - rewrite walk_rr; [| auto | lia |].
    + cbn [offset bound_bit bf_p overall used prev_size].
      subst p. unfold bytes_of_bits in *.
      replace ((8 * (offset s + prev_size s) + 7) / 8) with (offset s + prev_size s) by lia.
      repeat split; try reflexivity; try lia.
      destruct (overall s <? _) eqn:E; lia.
    + rewrite Hk. unfold bytes_of_bits in Hov1. subst p. split_a Ha; lia.
Qed.

Lemma bound0_eq s p a bits :
  Inv s p -> pow2a a -> 0 <= bits ->
  (if ((overall s + a - 1) / a * a <? a) && (0 <=? bits) then 0 else bound_bit s)
  = (if p =? 0 then 0 else bound_bit s).
Proof.
  intros HI Ha Hb. pose proof (inv_overall_nonneg _ _ HI) as Hov.
  destruct HI as [Hp [Ho1 [Ho2 Ho3]] Hpos [Hov1 Hov2] Hu].
  replace (0 <=? bits) with true by lia. rewrite andb_true_r.
  destruct (p =? 0) eqn:E.
  - assert (overall s = 0) as -> by (apply Hov2; lia).
    replace ((0 + a - 1) / a * a <? a) with true by (split_a Ha; lia). reflexivity.
  - assert (overall s <> 0) by (intro H0; apply Hov2 in H0; lia).
    replace ((overall s + a - 1) / a * a <? a) with false by (split_a Ha; lia). reflexivity.
Qed.

(* a bit-field of positive width w in a storage unit of f bytes *)
Lemma ufl_bitfield s p f w :
  Inv s p -> pow2a f -> f <= 8 -> 0 < w <= 8 * f ->
  let s1 := update_field_layout s f f w in
  let unit := 8 * f in
  let pp := if p mod unit + w <=? unit then p else align_up p unit in
  offset s1 = pp / unit * f /\ bound_bit s1 = pp mod unit + w /\ bf_p s1 = true /\
  overall s1 = Z.max (overall s) (offset s1 + f) /\ used s1 = used s /\ prev_size s1 = prev_size s.
Proof.
  intros HI Hf Hf8 Hw. pose proof (inv_overall_nonneg _ _ HI) as Hov.
  pose proof (bound0_eq s p f w HI Hf ltac:(lia)) as Hb0.
  destruct HI as [Hp [Ho1 [Ho2 Ho3]] Hpos [Hov1 Hov2] Hu].
  cbv zeta. unfold update_field_layout. rewrite Hb0. clear Hb0.
  destruct (start0_nat (overall s) f Hf Hov) as [Hk Hm].
  unfold bytes_of_bits, align_up in *.
  destruct (bf_p s) eqn:Hbf.
  - (* bit-field after bit-field *)
    assert ((if p =? 0 then 0 else bound_bit s) = bound_bit s) as ->
      by (destruct (p =? 0) eqn:E; lia).
    assert (Hkf : (8 * offset s + bound_bit s + w - 1) / (8 * f)
                  <= Z.of_nat (Z.to_nat ((overall s + f - 1) / f * f / f)))
      by (rewrite Hk; clear Hk Hm; split_a Hf; lia).
    rewrite (walk_bb (offset s) (prev_size s) f w _ (bound_bit s) Hf
               ltac:(lia) ltac:(lia) ltac:(lia) ltac:(lia) Hkf).
    clear Hkf Hk Hm.
    cbv zeta. cbn [offset bound_bit bf_p overall used prev_size].
    replace (8 * offset s + bound_bit s) with p by lia.
    replace (0 <=? w) with true by lia.
    assert (Hoff : f * ((p + w - 1) / (8 * f)) =
                   (if p mod (8 * f) + w <=? 8 * f then p else (p + 8 * f - 1) / (8 * f) * (8 * f)) / (8 * f) * f).
    { destruct (p mod (8 * f) + w <=? 8 * f) eqn:E; split_a Hf; lia. }
    repeat split; try reflexivity; try lia.
    + destruct (p <=? 8 * f * ((p + w - 1) / (8 * f))) eqn:E1;
      destruct (p mod (8 * f) + w <=? 8 * f) eqn:E2; split_a Hf; lia.
    + destruct (overall s <? _) eqn:E; lia.
  - (* bit-field after a regular field (or first) *)
    destruct (p =? 0) eqn:Ep.
    + assert (offset s = 0 /\ prev_size s = 0) as [-> ->] by lia.
      rewrite walk_from_zero by (split_a Hf; lia).
      clear Hk Hm.
      cbn [offset bound_bit bf_p overall used prev_size].
      assert (p = 0) as -> by lia.
      replace (0 <=? w) with true by lia.
      replace (0 mod (8 * f) + w <=? 8 * f) with true by (split_a Hf; lia).
      repeat split; try reflexivity; try (split_a Hf; lia).
      destruct (overall s <? _) eqn:E; lia.
    + assert (Hke : offset s + prev_size s <= f * Z.of_nat (Z.to_nat ((overall s + f - 1) / f * f / f)))
        by (rewrite Hk; clear Hk Hm; split_a Hf; lia).
      rewrite (walk_rb (offset s) (prev_size s) f w _ (bound_bit s) Hf ltac:(lia) ltac:(lia) Hke).
      clear Hke Hk Hm.
      cbv zeta.
      destruct ((offset s + prev_size s - f * ((offset s + prev_size s - 1) / f)) * 8 + w <=? f * 8) eqn:E1;
      cbn [offset bound_bit bf_p overall used prev_size];
      replace (0 <=? w) with true by lia;
      destruct (p mod (8 * f) + w <=? 8 * f) eqn:E2;
      (repeat split; try reflexivity; try (split_a Hf; lia));
      destruct (overall s <? _) eqn:E; lia.
Qed.

(* a zero-width bit-field of a type of f bytes, somewhere after position 0 *)
Lemma ufl_zero s p f :
  Inv s p -> pow2a f -> f <= 8 -> 0 < p ->
  let s1 := update_field_layout s f f 0 in
  8 * (offset s1 + f) = align_up p (8 * f) /\ 0 <= offset s1 /\ 0 <= bound_bit s1 /\
  overall s1 = Z.max (overall s) (offset s1 + f) /\ used s1 = used s.
Proof.
  intros HI Hf Hf8 Hp0. pose proof (inv_overall_nonneg _ _ HI) as Hov.
  pose proof (bound0_eq s p f 0 HI Hf ltac:(lia)) as Hb0.
  destruct HI as [Hp [Ho1 [Ho2 Ho3]] Hpos [Hov1 Hov2] Hu].
  cbv zeta. unfold update_field_layout. rewrite Hb0. clear Hb0.
  replace (p =? 0) with false by lia.
  destruct (start0_nat (overall s) f Hf Hov) as [Hk Hm].
  unfold bytes_of_bits, align_up in *.
  destruct (bf_p s) eqn:Hbf.
  - assert (Hkf : (8 * offset s + bound_bit s + 0 - 1) / (8 * f)
                  <= Z.of_nat (Z.to_nat ((overall s + f - 1) / f * f / f)))
      by (rewrite Hk; clear Hk Hm; split_a Hf; lia).
    rewrite (walk_bb (offset s) (prev_size s) f 0 _ (bound_bit s) Hf
               ltac:(lia) ltac:(lia) ltac:(lia) ltac:(lia) Hkf).
    clear Hkf Hk Hm.
    cbv zeta. cbn [offset bound_bit bf_p overall used prev_size].
    replace (8 * offset s + bound_bit s) with p by lia.
    repeat split; try reflexivity; try (split_a Hf; lia).
    + destruct (p <=? _) eqn:E; split_a Hf; lia.
    + destruct (overall s <? _) eqn:E; lia.
  - assert (Hke : offset s + prev_size s <= f * Z.of_nat (Z.to_nat ((overall s + f - 1) / f * f / f)))
      by (rewrite Hk; clear Hk Hm; split_a Hf; lia).
    rewrite (walk_rb (offset s) (prev_size s) f 0 _ (bound_bit s) Hf ltac:(split_a Hf; lia) ltac:(lia) Hke).
    clear Hke Hk Hm.
    cbv zeta.
    replace ((offset s + prev_size s - f * ((offset s + prev_size s - 1) / f)) * 8 + 0 <=? f * 8) with true
      by (split_a Hf; lia).
    cbn [offset bound_bit bf_p overall used prev_size].
    repeat split; try reflexivity; try (split_a Hf; lia).
    destruct (overall s <? _) eqn:E; lia.
Qed.

(* C08 (audit round 2) — c2mir's classification with fixes/C08-9.patch (a bit-field gives INTEGER to
   every qword from its first to its last bit) and the proof that this marking is gcc's
   ([sysv_classify_g]) for EVERY well-formed struct/union: the patch is complete.                  *)
From Coq Require Import ZArith List Bool Lia ZifyBool.
From MirV Require Import C08.CLayout C08.SysVLayout C08.CClassify C08.SysVClassify
  C08.WalkProofs C08.StepProofs C08.MemberProofs C08.AggProofs C08.LayoutProofs C08.ClassifyProofs
  C08.TotalProofs C08.SpanClassify.
Import ListNotations.
Local Open Scope Z_scope.
Ltac Zify.zify_post_hook ::= Z.div_mod_to_equations.

(* for (qword = bit / 64; qword <= (bit + width - 1) / 64 && qword < MAX_QWORDS; qword++)
     subtypes[qword] = get_result_type (MIR_T_I64, subtypes[qword]);
   a bit-field is at most 64 bits wide: the loop runs once or twice *)
Definition qmerge_span (bit w : Z) (ts : qtypes) : qtypes :=
  let q0 := bit / 64 in
  let q1 := (bit + w - 1) / 64 in
  let t1 := qmerge q0 CInt ts in
  if q1 =? q0 then t1 else qmerge q1 CInt t1.

Definition cf_members_g (rec : ty -> Z -> qtypes -> option qtypes) (offset : Z) :=
  fix go (ms : list (mkind * ty)) (rs : list mrec) (sub : qtypes) : option qtypes :=
    match ms, rs with
    | (mk, mt) :: ms', r :: rs' =>
        let member_offset := m_off r + offset in
        if m_bit r <? 0 then
          match rec mt member_offset sub with
          | None => None
          | Some sub' => go ms' rs' sub'
          end
        else if m_width r =? 0 then go ms' rs' sub
        else go ms' rs' (qmerge_span (member_offset * 8 + m_bit r) (m_width r) sub)
    | _, _ => Some sub
    end.

Fixpoint classify_fields_g (t : ty) (offset : Z) (ts : qtypes) : option qtypes :=
  match t with
  | TBasic KLDouble => Some (qmerge (offset / 8 + 1) CX87up (qmerge (offset / 8) CX87 ts))
  | TBasic k => Some (qmerge (offset / 8) (if is_fp k then CSse else CInt) ts)
  | TPtr | TEnum _ _ => Some (qmerge (offset / 8) CInt ts)
  | TFlex _ => Some ts
  | TArr n el =>
      let el_size := type_size (c2m_layout el) in
      if el_size =? 0 then Some ts
      else fold_left (fun acc i => match acc with
                                   | None => None
                                   | Some ts => classify_fields_g el (offset + Z.of_nat i * el_size) ts
                                   end)
                     (seq 0 (Z.to_nat n)) (Some ts)
  | TAgg u ms =>
      match cf_members_g classify_fields_g offset ms (mems (c2m_layout t)) (CNo, CNo) with
      | None => None
      | Some sub => level_cleanup sub ts
      end
  end.

Definition classify_arg_g (t : ty) : option (list cls) :=
  let size := type_size (c2m_layout t) in
  let n_qwords := (size + 7) / 8 in
  if is_aggregate t then
    if (2 <? n_qwords) || (n_qwords =? 0) then None
    else
      match classify_fields_g t 0 (CNo, CNo) with
      | None => None
      | Some ts =>
          let l := firstn (Z.to_nat n_qwords) [fst ts; snd ts] in
          if existsb (cls_eqb CMem) l then None
          else match l with
          | CX87up :: _ => None
          | [c0; CX87up] => if cls_eqb c0 CX87 then Some l else None
          | _ => Some (map (fun c => if cls_eqb c CNo then CInt else c) l)
          end
      end
  else classify_arg t.

Lemma qmerge_span_tr bit w ts : tr2 (qmerge_span bit w ts) = merge_span bit w (tr2 ts).
Proof.
  unfold qmerge_span, merge_span. change INTEGER with (tr CInt).
  destruct ((bit + w - 1) / 64 =? bit / 64); rewrite ?qmerge_tr; reflexivity.
Qed.

Lemma members_g_ok (rc : ty -> Z -> qtypes -> option qtypes) (rs_ : ty -> Z -> ebs -> option ebs) off ms :
  Forall (fun m => forall o ts, option_map tr2 (rc (snd m) o ts) = rs_ (snd m) o (tr2 ts)) ms ->
  forall rs sub, Forall2 shape ms (map norm rs) ->
  option_map tr2 (cf_members_g rc off ms rs sub) = sv_level_g rs_ off ms (map norm rs) (tr2 sub).
Proof.
  induction ms as [|[mk mt] r IH]; intros HF rs sub Hsh.
  - destruct rs; reflexivity.
  - destruct rs as [|r1 rs]; [inversion Hsh|].
    inversion HF as [|? ? H1 H2]; subst. cbn [map] in Hsh. inversion Hsh as [|? ? ? ? Sh1 Sh2]; subst.
    destruct (norm_shape _ _ Sh1) as (Hrel & Hnorm). unfold mrel in Hrel. cbn [fst snd] in *.
    cbn [cf_members_g sv_level_g map].
    destruct mk as [|w named|].
    + destruct Hrel as [Hb Hw]. rewrite (Hnorm ltac:(lia)). replace (m_bit r1 <? 0) with true by lia.
      replace (off + m_off r1) with (m_off r1 + off) by lia.
      rewrite <- (H1 (m_off r1 + off) sub).
      destruct (rc mt (m_off r1 + off) sub) as [sub'|]; cbn [option_map]; [apply IH; assumption | reflexivity].
    + destruct Hrel as [Hw Hb]. replace (m_bit r1 <? 0) with false by lia.
      rewrite Hw. destruct (w =? 0) eqn:E.
      * apply IH; assumption.
      * rewrite (Hnorm ltac:(lia)). rewrite <- qmerge_span_tr.
        replace ((off + m_off r1) * 8 + m_bit r1) with ((m_off r1 + off) * 8 + m_bit r1) by lia.
        apply IH; assumption.
    + destruct Hrel as [Hb Hw]. rewrite (Hnorm ltac:(lia)). replace (m_bit r1 <? 0) with true by lia.
      replace (off + m_off r1) with (m_off r1 + off) by lia.
      rewrite <- (H1 (m_off r1 + off) sub).
      destruct (rc mt (m_off r1 + off) sub) as [sub'|]; cbn [option_map]; [apply IH; assumption | reflexivity].
Qed.

Lemma classify_fields_g_ok : forall t, wf_ty t = true ->
  forall off ts, option_map tr2 (classify_fields_g t off ts) = sv_merge_into_g t off (tr2 ts).
Proof.
  induction t as [k| |lo hi|n el IH|el IH|u ms IH] using ty_ind'; intros Hwf off ts.
  - destruct k; cbn [classify_fields_g sv_merge_into_g option_map is_fp]; rewrite ?qmerge_tr; reflexivity.
  - cbn [classify_fields_g sv_merge_into_g option_map]. rewrite qmerge_tr. reflexivity.
  - cbn [classify_fields_g sv_merge_into_g option_map]. rewrite qmerge_tr. reflexivity.
  - cbn [classify_fields_g sv_merge_into_g].
    cbn [wf_ty] in Hwf. apply andb_prop in Hwf as [Hwf Hw]. specialize (IH Hw).
    rewrite (g_size _ (layout_good _ Hw)).
    destruct (sv_size (sysv_layout el) =? 0); [reflexivity|].
    generalize (seq 0 (Z.to_nat n)). intros l.
    change (Some (tr2 ts)) with (option_map tr2 (Some ts)).
    generalize (Some ts). induction l as [|i l IHl]; intros acc; [reflexivity|].
    cbn [fold_left]. rewrite IHl. f_equal.
    destruct acc as [a|]; [apply IH | reflexivity].
  - reflexivity.
  - cbn [classify_fields_g sv_merge_into_g].
    pose proof (agg_shape u ms Hwf) as Sh.
    assert (HF : Forall (fun m => forall o ts, option_map tr2 (classify_fields_g (snd m) o ts)
                                               = sv_merge_into_g (snd m) o (tr2 ts)) ms).
    { pose proof (wf_agg_members u ms Hwf) as Hw.
      rewrite Forall_forall in *. intros m Hm. apply IH; auto. }
    pose proof (members_g_ok classify_fields_g sv_merge_into_g off ms HF (mems (c2m_layout (TAgg u ms))) (CNo, CNo) Sh) as H.
    rewrite (g_mems _ (layout_good _ Hwf)) in H.
    change (tr2 (CNo, CNo)) with (NO_CLASS, NO_CLASS) in H. rewrite <- H.
    destruct (cf_members_g classify_fields_g off ms (mems (c2m_layout (TAgg u ms))) (CNo, CNo)) as [sub|];
      cbn [option_map]; [|reflexivity].
    apply level_cleanup_tr.
Qed.

(* c2mir with fixes/C08-9 classifies EVERY well-formed struct/union as gcc does (padding-only
   eightbytes - the known finding - turned into INTEGER): no guard on bit-fields *)
Theorem classify_g_eq_gcc_total_lemma : forall t,
  wf_ty t = true -> is_agg t = true ->
  option_map (map tr) (classify_arg_g t) = option_map (map pad_int) (sysv_classify_g t).
Proof.
  intros t Hwf Hagg.
  pose proof (classify_fields_g_ok t Hwf 0 (CNo, CNo)) as Hcf.
  change (tr2 (CNo, CNo)) with (NO_CLASS, NO_CLASS) in Hcf.
  pose proof (layout_good t Hwf) as G.
  unfold classify_arg_g, sysv_classify_g in *.
  rewrite (g_size _ G).
  destruct t as [k| |lo hi|n el|el|u ms]; try discriminate. cbn [is_aggregate].
  set (sz := sv_size (sysv_layout (TAgg u ms))) in *.
  assert (Hsz : 0 < sz) by apply (g_pos _ G).
  destruct ((2 <? (sz + 7) / 8) || ((sz + 7) / 8 =? 0)) eqn:En; [reflexivity|].
  assert (Hn : (sz + 7) / 8 = 1 \/ (sz + 7) / 8 = 2) by lia.
  rewrite <- Hcf in *. clear Hcf.
  destruct (classify_fields_g (TAgg u ms) 0 (CNo, CNo)) as [[a b]|]; cbn [option_map] in *; [|reflexivity].
  unfold tr2 in *. cbn [fst snd] in *.
  destruct Hn as [Hn|Hn]; rewrite Hn in *; cbn [Z.eqb Z.to_nat Pos.to_nat Pos.iter_op Nat.add firstn] in *.
  - destruct a; cbn in *; reflexivity.
  - destruct a, b; cbn in *; reflexivity.
Qed.

(* the witness of classify_eq_gcc_refuted is repaired *)
Example straddle_witness_fixed :
  option_map (map tr) (classify_arg_g straddle_witness) = sysv_classify_g straddle_witness.
Proof. vm_compute. reflexivity. Qed.

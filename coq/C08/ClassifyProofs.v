(* C08 — classify_eq_sysv: c2mir's classify_arg (position-exact classify_fields with a clean-up per
   struct/union level) computes the psABI classification (SysVClassify.v). *)
From Coq Require Import ZArith List Bool Lia ZifyBool.
From MirV Require Import C08.CLayout C08.SysVLayout C08.CClassify C08.SysVClassify
  C08.WalkProofs C08.StepProofs C08.MemberProofs C08.AggProofs C08.LayoutProofs.
Import ListNotations.
Local Open Scope Z_scope.
Ltac Zify.zify_post_hook ::= Z.div_mod_to_equations.

Definition tr (c : cls) : sclass :=
  match c with
  | CNo => NO_CLASS | CInt => INTEGER | CSse => SSE | CX87 => X87 | CX87up => X87UP | CMem => MEMORY
  end.
Definition tr2 (ts : qtypes) : ebs := (tr (fst ts), tr (snd ts)).

Lemma tr_merge a b : tr (get_result_type a b) = merge (tr a) (tr b).
Proof. destruct a, b; reflexivity. Qed.

Lemma tr_eqb a b : sclass_eqb (tr a) (tr b) = cls_eqb a b.
Proof. destruct a, b; reflexivity. Qed.

Lemma qmerge_tr q c ts : tr2 (qmerge q c ts) = merge_at q (tr c) (tr2 ts).
Proof.
  unfold qmerge, qset, qget, merge_at, tr2. destruct ts as [a b]. cbn [fst snd].
  destruct (q =? 0) eqn:E0; [cbn [fst snd]; rewrite tr_merge; reflexivity|].
  destruct (q =? 1) eqn:E1; cbn [fst snd]; [rewrite tr_merge|]; reflexivity.
Qed.

Lemma qmerge_span_tr bit w ts : tr2 (qmerge_span bit w ts) = merge_span bit w (tr2 ts).
Proof.
  unfold qmerge_span, merge_span. change INTEGER with (tr CInt).
  destruct ((bit + w - 1) / 64 =? bit / 64); rewrite ?qmerge_tr; reflexivity.
Qed.

Lemma level_cleanup_tr sub ts :
  option_map tr2 (level_cleanup sub ts)
  = match cleanup (tr2 sub) with None => None | Some e => Some (merge2 e (tr2 ts)) end.
Proof.
  destruct sub as [s0 s1], ts as [t0 t1].
  unfold level_cleanup, cleanup, tr2, merge2. cbn [fst snd].
  destruct s0, s1; cbn; rewrite ?tr_merge; reflexivity.
Qed.

(* ------------------------------------------------------------------ the member records *)

(* what a member's record looks like on the psABI side *)
Definition shape (m : mkind * ty) (r : mrec) : Prop :=
  match fst m with
  | MBits w _ => m_width r = w /\ 0 <= m_bit r
  | _ => m_bit r = -1 /\ m_width r = -1
  end.

Lemma sv_step_smems (u : bool) mk t sl s :
  member_ok mk (sv_size sl) (sv_align sl) ->
  exists r, smems ((if u then sv_union_step else sv_struct_step) mk t sl s) = smems s ++ [r] /\ shape (mk, t) r.
Proof.
  intros (Hpos & Ha & Hmod & Hmk).
  destruct u; destruct mk as [|w named|]; unfold sv_union_step, sv_struct_step, shape; cbn [fst].
  - eexists; split; [reflexivity|]. cbn. auto.
  - destruct (w =? 0) eqn:E; (eexists; split; [reflexivity|]); cbn [m_width m_bit]; split; lia.
  - eexists; split; [reflexivity|]. cbn. auto.
  - eexists; split; [reflexivity|]. cbn. auto.
  - destruct Hmk as (Hsa & Ha8 & Hw & Hn).
    destruct (w =? 0) eqn:E; (eexists; split; [reflexivity|]); cbn [m_width m_bit]; [split; lia|].
    split; [reflexivity|]. rewrite Hsa. split_a Ha; lia.
  - eexists; split; [reflexivity|]. cbn. auto.
Qed.

Lemma sv_fold_smems (S : ty -> svlay) u ms :
  Forall (fun '(mk, t) => member_ok mk (sv_size (S t)) (sv_align (S t))) ms ->
  forall s, exists rs, smems (fold_left (sstep u) (sm S ms) s) = smems s ++ rs /\ Forall2 shape ms rs.
Proof.
  induction ms as [|[mk t] r IH]; intros Hg s.
  - exists []. cbn. rewrite app_nil_r. auto.
  - inversion Hg as [|? ? Hm Hr]; subst.
    change (sm S ((mk, t) :: r)) with ((mk, t, S t) :: sm S r). cbn [fold_left sstep].
    destruct (sv_step_smems u mk t (S t) s Hm) as (r1 & E1 & Sh1).
    destruct (IH Hr ((if u then sv_union_step else sv_struct_step) mk t (S t) s)) as (rs & E2 & Sh2).
    exists (r1 :: rs). rewrite E2, E1, <- app_assoc. split; [reflexivity|]. constructor; assumption.
Qed.

(* how a c2mir record r relates to the psABI record r' = norm r of the same member *)
Definition mrel (m : mkind * ty) (r : mrec) : Prop :=
  match fst m with
  | MBits w _ => m_width r = w /\ 0 <= m_bit r
  | _ => m_bit r = -1 /\ m_width r = -1
  end.

Lemma norm_shape m r : shape m (norm r) -> mrel m r /\ (m_width r <> 0 -> norm r = r).
Proof.
  unfold shape, mrel, norm. destruct (m_width r =? 0) eqn:E; cbn [m_width m_bit].
  - destruct (fst m) as [|w named|]; intros [H1 H2]; try lia.
    split; [|lia]. destruct (m_bit r <? 0) eqn:E2; lia.
  - intros H. split; [exact H | reflexivity].
Qed.

(* ------------------------------------------------------------------ classify_fields = sv_merge_into *)

Definition cf_ok (t : ty) : Prop :=
  forall off ts, option_map tr2 (classify_fields t off ts) = sv_merge_into t off (tr2 ts).

Lemma members_ok (rc : ty -> Z -> qtypes -> option qtypes) (rs_ : ty -> Z -> ebs -> option ebs) off ms :
  Forall (fun m => forall o ts, option_map tr2 (rc (snd m) o ts) = rs_ (snd m) o (tr2 ts)) ms ->
  forall rs sub, Forall2 shape ms (map norm rs) ->
  option_map tr2 (cf_members rc off ms rs sub) = sv_level rs_ off ms (map norm rs) (tr2 sub).
Proof.
  induction ms as [|[mk mt] r IH]; intros HF rs sub Hsh.
  - destruct rs; reflexivity.
  - destruct rs as [|r1 rs]; [inversion Hsh|].
    inversion HF as [|? ? H1 H2]; subst. cbn [map] in Hsh. inversion Hsh as [|? ? ? ? Sh1 Sh2]; subst.
    destruct (norm_shape _ _ Sh1) as (Hrel & Hnorm). unfold mrel in Hrel. cbn [fst snd] in *.
    cbn [cf_members sv_level map].
    destruct mk as [|w named|].
    + destruct Hrel as [Hb Hw]. rewrite (Hnorm ltac:(lia)). replace (m_bit r1 <? 0) with true by lia.
      replace (off + m_off r1) with (m_off r1 + off) by lia.
      rewrite <- (H1 (m_off r1 + off) sub).
      destruct (rc mt (m_off r1 + off) sub) as [sub'|]; cbn [option_map]; [apply IH; assumption | reflexivity].
    + destruct Hrel as [Hw Hb]. replace (m_bit r1 <? 0) with false by lia.
      rewrite Hw. destruct (w =? 0) eqn:E.
      * apply IH; assumption.
      * rewrite (Hnorm ltac:(lia)). rewrite <- qmerge_span_tr.
        replace ((off + m_off r1) * 8 + m_bit r1) with ((m_off r1 + off) * 8 + m_bit r1) by lia.
        apply IH; assumption.
    + destruct Hrel as [Hb Hw]. rewrite (Hnorm ltac:(lia)). replace (m_bit r1 <? 0) with true by lia.
      replace (off + m_off r1) with (m_off r1 + off) by lia.
      rewrite <- (H1 (m_off r1 + off) sub).
      destruct (rc mt (m_off r1 + off) sub) as [sub'|]; cbn [option_map]; [apply IH; assumption | reflexivity].
Qed.

Lemma wf_agg_members u ms : wf_ty (TAgg u ms) = true -> Forall (fun m => wf_ty (snd m) = true) ms.
Proof.
  intros Hwf. cbn [wf_ty] in Hwf.
  apply andb_prop in Hwf as [Hwf _]. apply andb_prop in Hwf as [Hgo _].
  induction ms as [|[mk mt] r IH]; constructor.
  - apply andb_prop in Hgo as [Hgo _]. apply andb_prop in Hgo as [_ Hw]. exact Hw.
  - apply IH. apply andb_prop in Hgo as [_ Hgo]. exact Hgo.
Qed.

Lemma agg_shape u ms : wf_ty (TAgg u ms) = true ->
  Forall2 shape ms (map norm (mems (c2m_layout (TAgg u ms)))).
Proof.
  intros Hwf.
  assert (HF : Forall (fun m => wf_ty (snd m) = true -> good (snd m)) ms)
    by (apply Forall_forall; intros m _ Hm; apply layout_good; exact Hm).
  destruct (wf_members_good u ms HF Hwf) as (Hg & _ & _).
  rewrite (g_mems _ (layout_good _ Hwf)). rewrite sysv_layout_agg. unfold sv_agg_layout. cbn [sv_mems].
  assert (Hok : Forall (fun '(mk, t) => member_ok mk (sv_size (sysv_layout t)) (sv_align (sysv_layout t))) ms).
  { eapply Forall_impl; [|exact Hg]. intros [mk t] (_ & _ & _ & H & _). exact H. }
  destruct (sv_fold_smems sysv_layout u ms Hok (mksv 0 1 [] [])) as (rs & E & Sh).
  fold (sstep u). rewrite E. exact Sh.
Qed.

Lemma classify_fields_ok : forall t, wf_ty t = true -> cf_ok t.
Proof.
  induction t as [k| |lo hi|n el IH|el IH|u ms IH] using ty_ind'; intros Hwf off ts.
  - destruct k; cbn [classify_fields sv_merge_into option_map is_fp]; rewrite ?qmerge_tr; reflexivity.
  - cbn [classify_fields sv_merge_into option_map]. rewrite qmerge_tr. reflexivity.
  - cbn [classify_fields sv_merge_into option_map]. rewrite qmerge_tr. reflexivity.
  - cbn [classify_fields sv_merge_into].
    cbn [wf_ty] in Hwf. apply andb_prop in Hwf as [Hwf Hw]. specialize (IH Hw).
    rewrite (g_size _ (layout_good _ Hw)).
    destruct (sv_size (sysv_layout el) =? 0); [reflexivity|].
    generalize (seq 0 (Z.to_nat n)). intros l.
    change (Some (tr2 ts)) with (option_map tr2 (Some ts)).
    generalize (Some ts). induction l as [|i l IHl]; intros acc; [reflexivity|].
    cbn [fold_left]. rewrite IHl. f_equal.
    destruct acc as [a|]; [apply IH | reflexivity].
  - reflexivity.
  - cbn [classify_fields sv_merge_into].
    pose proof (agg_shape u ms Hwf) as Sh.
    assert (HF : Forall (fun m => forall o ts, option_map tr2 (classify_fields (snd m) o ts)
                                               = sv_merge_into (snd m) o (tr2 ts)) ms).
    { pose proof (wf_agg_members u ms Hwf) as Hw.
      rewrite Forall_forall in *. intros m Hm. apply IH; auto. }
    pose proof (members_ok classify_fields sv_merge_into off ms HF (mems (c2m_layout (TAgg u ms))) (CNo, CNo) Sh) as H.
    rewrite (g_mems _ (layout_good _ Hwf)) in H.
    change (tr2 (CNo, CNo)) with (NO_CLASS, NO_CLASS) in H. rewrite <- H.
    destruct (cf_members classify_fields off ms (mems (c2m_layout (TAgg u ms))) (CNo, CNo)) as [sub|];
      cbn [option_map]; [|reflexivity].
    apply level_cleanup_tr.
Qed.

(* ------------------------------------------------------------------ classify_arg = sysv_classify *)

(* no eightbyte of the aggregate consists of padding only *)
Definition no_pad (t : ty) : bool :=
  match sysv_classify t with
  | Some l => negb (existsb (sclass_eqb NO_CLASS) l)
  | None => true
  end.

Theorem classify_eq_sysv_partial_lemma : forall t,
  wf_ty t = true -> is_agg t = true -> no_pad t = true ->
  option_map (map tr) (classify_arg t) = sysv_classify t.
Proof.
  intros t Hwf Hagg Hnp.
  pose proof (classify_fields_ok t Hwf 0 (CNo, CNo)) as Hcf.
  change (tr2 (CNo, CNo)) with (NO_CLASS, NO_CLASS) in Hcf.
  pose proof (layout_good t Hwf) as G.
  unfold no_pad in Hnp. unfold classify_arg, sysv_classify in *.
  rewrite (g_size _ G). 
  destruct t as [k| |lo hi|n el|el|u ms]; try discriminate. cbn [is_aggregate].
  set (sz := sv_size (sysv_layout (TAgg u ms))) in *.
  assert (Hsz : 0 < sz) by apply (g_pos _ G).
  destruct ((2 <? (sz + 7) / 8) || ((sz + 7) / 8 =? 0)) eqn:En; [reflexivity|].
  assert (Hn : (sz + 7) / 8 = 1 \/ (sz + 7) / 8 = 2) by lia.
  rewrite <- Hcf in *. clear Hcf.
  destruct (classify_fields (TAgg u ms) 0 (CNo, CNo)) as [[a b]|]; cbn [option_map] in *; [|reflexivity].
  unfold tr2 in *. cbn [fst snd] in *.
  destruct Hn as [Hn|Hn]; rewrite Hn in *; cbn [Z.eqb Z.to_nat Pos.to_nat Pos.iter_op Nat.add firstn] in *.
  - destruct a; cbn in *; try reflexivity; discriminate.
  - destruct a, b; cbn in *; try reflexivity; discriminate.
Qed.

(* ------------------------------------------------------------------ passing and returning *)

Lemma classify_arg_len t cl : wf_ty t = true -> is_agg t = true -> classify_arg t = Some cl ->
  (exists a, cl = [a]) \/ (exists a b, cl = [a; b]).
Proof.
  intros Hwf Hagg. pose proof (layout_good t Hwf) as G.
  assert (Hsz : 0 < type_size (c2m_layout t)) by (rewrite (g_size _ G); apply (g_pos _ G)).
  destruct t as [k| |lo hi|n el|el|u ms]; try discriminate.
  unfold classify_arg. cbn [is_aggregate].
  set (n := (type_size (c2m_layout (TAgg u ms)) + 7) / 8).
  destruct ((2 <? n) || (n =? 0)) eqn:En; [discriminate|].
  destruct (classify_fields (TAgg u ms) 0 (CNo, CNo)) as [[a b]|]; [|discriminate].
  cbn [fst snd].
  assert (Hn : 0 <= n) by (unfold n; lia).
  assert (Hn' : n = 1 \/ n = 2) by lia.
  destruct Hn' as [-> | ->]; [change (Z.to_nat 1) with 1%nat | change (Z.to_nat 2) with 2%nat]; cbn [firstn].
  - destruct (existsb (cls_eqb CMem) [a]); [discriminate|].
    destruct a; cbn; intros H; try discriminate; injection H as <-; left; eexists; reflexivity.
  - destruct (existsb (cls_eqb CMem) [a; b]); [discriminate|].
    destruct a, b; cbn; intros H; try discriminate; injection H as <-; right; do 2 eexists; reflexivity.
Qed.

(* the MIR block type that encodes a psABI register assignment *)
Definition blk_of_places (pl : option (list place)) : Z :=
  match pl with
  | None => 0
  | Some l =>
      if forallb (fun p => match p with InInt => true | _ => false end) l then 1
      else if forallb (fun p => match p with InSse => true | _ => false end) l then 2
      else match l with InSse :: _ => 4 | _ => 3 end
  end.

Lemma pass_cases size cl ni nf :
  ((exists a, cl = [a]) \/ (exists a b, cl = [a; b])) ->
  existsb (cls_eqb CNo) cl = false -> existsb (cls_eqb CMem) cl = false ->
  let l := update_last_qword_type size (map mtype_of_cls cl) in
  let sl := map tr cl in
  (if existsb (fun m => match m with MLD | MX87UP => true | _ => false end) l
   then (0, ni, nf)
   else
     let i := Z.of_nat (length (filter is_int_mtype l)) in
     let f := Z.of_nat (length (filter is_sse_mtype l)) in
     if (negb (i =? 0) && (6 <? ni + i)) || (negb (f =? 0) && (8 <? nf + f)) then (0, ni, nf)
     else (blk_of l, ni + i, nf + f))
  = (let '(pl, i2, f2) :=
       if existsb (fun c => match c with X87 | X87UP => true | _ => false end) sl
       then (None, ni, nf)
       else
         let i := Z.of_nat (length (filter (sclass_eqb INTEGER) sl)) in
         let s := Z.of_nat (length (filter (sclass_eqb SSE) sl)) in
         if (negb (i =? 0) && (6 <? ni + i)) || (negb (s =? 0) && (8 <? nf + s)) then (None, ni, nf)
         else (Some (map (fun c => match c with SSE => InSse | NO_CLASS => InNone | _ => InInt end) sl),
               ni + i, nf + s) in
     (blk_of_places pl, i2, f2)).
Proof.
  intros Hlen Hno Hmem. cbv zeta.
  destruct Hlen as [(a & ->) | (a & b & ->)].
  - unfold update_last_qword_type. cbn [map].
    destruct (size mod 8 =? 0), (size mod 8 <=? 4), (size mod 8 <=? 1), (size mod 8 <=? 2);
    destruct a; try discriminate; cbn;
      repeat (match goal with |- context [if ?c then _ else _] => let E := fresh "E" in destruct c eqn:E end;
              cbn in *);
      try reflexivity; try discriminate; try (exfalso; lia); repeat f_equal; lia.
  - unfold update_last_qword_type. cbn [map].
    destruct a; try discriminate; destruct b; try discriminate; cbn;
      repeat (match goal with |- context [if ?c then _ else _] => let E := fresh "E" in destruct c eqn:E end;
              cbn in *);
      try reflexivity; try discriminate; try (exfalso; lia); repeat f_equal; lia.
Qed.

Theorem blk_type_consistent_lemma : forall t ni nf,
  wf_ty t = true -> is_agg t = true -> no_pad t = true ->
  pass_aggregate_arg t ni nf =
    (let '(pl, i2, f2) := sysv_pass_arg t ni nf in (blk_of_places pl, i2, f2)).
Proof.
  intros t ni nf Hwf Hagg Hnp.
  pose proof (classify_eq_sysv_partial_lemma t Hwf Hagg Hnp) as Hc.
  unfold pass_aggregate_arg, sysv_pass_arg. rewrite <- Hc.
  destruct (classify_arg t) as [cl|] eqn:E; cbn [option_map]; [|reflexivity].
  pose proof (classify_arg_len t cl Hwf Hagg E) as Hlen.
  unfold no_pad in Hnp. rewrite <- Hc in Hnp. cbn [option_map] in Hnp.
  assert (Hno : existsb (cls_eqb CNo) cl = false).
  { destruct Hlen as [(a & ->) | (a & b & ->)]; [destruct a | destruct a, b]; cbn in *; congruence. }
  assert (Hmem : existsb (cls_eqb CMem) cl = false).
  { clear Hnp Hno Hc. destruct t as [k| |lo hi|n el|el|u ms]; try discriminate.
    unfold classify_arg in E. cbn [is_aggregate] in E.
    destruct (_ || _); [discriminate|].
    destruct (classify_fields _ _ _) as [[a b]|]; [|discriminate].
    destruct (existsb (cls_eqb CMem) _) eqn:Em; [discriminate|].
    destruct Hlen as [(x & ->) | (x & y & ->)].
    - destruct x; cbn; try reflexivity.
      exfalso. revert E. destruct (firstn _ _) as [|c0 [|c1 r]]; try discriminate.
      + destruct c0; discriminate.
      + destruct c0, c1; destruct r; discriminate.
    - destruct x, y; cbn; try reflexivity; exfalso; revert E Em;
        destruct (firstn _ _) as [|c0 [|c1 r]]; try discriminate;
        try (destruct c0; discriminate);
        destruct c0, c1; destruct r; cbn; intros; discriminate. }
  exact (pass_cases (type_size (c2m_layout t)) cl ni nf Hlen Hno Hmem).
Qed.

(* where a MIR result type is returned *)
Definition rplace_of (m : mtype) : rplace :=
  match m with MF | MD => RSse | MLD | MX87UP => RX87 | _ => RInt end.

Lemma ret_cases size cl :
  ((exists a, cl = [a]) \/ (exists a b, cl = [a; b])) ->
  existsb (cls_eqb CNo) cl = false -> existsb (cls_eqb CMem) cl = false ->
  map rplace_of (filter (fun m => match m with MX87UP => false | _ => true end)
                        (update_last_qword_type size (map mtype_of_cls cl)))
  = flat_map (fun c => match c with INTEGER => [RInt] | SSE => [RSse] | X87 => [RX87] | _ => [] end)
             (map tr cl).
Proof.
  intros Hlen Hno Hmem.
  destruct Hlen as [(a & ->) | (a & b & ->)]; unfold update_last_qword_type; cbn [map].
  - destruct (size mod 8 =? 0), (size mod 8 <=? 4), (size mod 8 <=? 1), (size mod 8 <=? 2);
    destruct a; try discriminate; reflexivity.
  - destruct a; try discriminate; destruct b; try discriminate; reflexivity.
Qed.

Theorem ret_eq_sysv_lemma : forall t,
  wf_ty t = true -> is_agg t = true -> no_pad t = true ->
  option_map (map rplace_of) (process_ret_type t) = sysv_return t.
Proof.
  intros t Hwf Hagg Hnp.
  pose proof (classify_eq_sysv_partial_lemma t Hwf Hagg Hnp) as Hc.
  unfold process_ret_type, sysv_return. rewrite <- Hc.
  destruct (classify_arg t) as [cl|] eqn:E; cbn [option_map]; [|reflexivity].
  pose proof (classify_arg_len t cl Hwf Hagg E) as Hlen.
  unfold no_pad in Hnp. rewrite <- Hc in Hnp. cbn [option_map] in Hnp.
  assert (Hno : existsb (cls_eqb CNo) cl = false).
  { destruct Hlen as [(a & ->) | (a & b & ->)]; [destruct a | destruct a, b]; cbn in *; congruence. }
  assert (Hmem : existsb (cls_eqb CMem) cl = false).
  { clear Hnp Hno Hc. destruct t as [k| |lo hi|n el|el|u ms]; try discriminate.
    unfold classify_arg in E. cbn [is_aggregate] in E.
    destruct (_ || _); [discriminate|].
    destruct (classify_fields _ _ _) as [[a b]|]; [|discriminate].
    destruct (existsb (cls_eqb CMem) _) eqn:Em; [discriminate|].
    destruct Hlen as [(x & ->) | (x & y & ->)].
    - destruct x; cbn; try reflexivity.
      exfalso. revert E. destruct (firstn _ _) as [|c0 [|c1 r]]; try discriminate.
      + destruct c0; discriminate.
      + destruct c0, c1; destruct r; discriminate.
    - destruct x, y; cbn; try reflexivity; exfalso; revert E Em;
        destruct (firstn _ _) as [|c0 [|c1 r]]; try discriminate;
        try (destruct c0; discriminate);
        destruct c0, c1; destruct r; cbn; intros; discriminate. }
  f_equal. exact (ret_cases (type_size (c2m_layout t)) cl Hlen Hno Hmem).
Qed.

(* the full statement is false of the faithful model: an eightbyte of padding only *)
Definition padding_witness : ty :=
  TAgg false [ (MNamed, TBasic KUChar);
               (MAnon, TAgg false [ (MNamed, TBasic KFloat); (MBits 0 false, TBasic KULong) ]) ].

Lemma classify_refuted :
  wf_ty padding_witness = true /\ is_agg padding_witness = true /\
  option_map (map tr) (classify_arg padding_witness) = Some [INTEGER; INTEGER] /\
  sysv_classify padding_witness = Some [INTEGER; NO_CLASS].
Proof. vm_compute. auto. Qed.

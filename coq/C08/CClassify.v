(* C08 — model of c2mir's x86-64 SysV argument/result classification
   (c2mir/x86_64/cx86_64-ABI-code.c: get_result_type, classify_fields, classify_arg,
   update_last_qword_type, process_ret_type, process_aggregate_arg, get_blk_type).
   Definitions only.                                                                             *)
From Coq Require Import ZArith List Bool.
From MirV Require Import C08.CLayout.
Import ListNotations.
Local Open Scope Z_scope.

(* MIR_type_t values used as classes by the C code *)
Inductive cls :=
| CNo        (* NO_CLASS *)
| CInt       (* MIR_T_I64 : INTEGER *)
| CSse       (* MIR_T_D   : SSE *)
| CX87       (* MIR_T_LD  : X87 *)
| CX87up     (* X87UP_CLASS *)
| CMem.      (* MIR_T_UNDEF : MEMORY *)

Definition cls_eqb (a b : cls) : bool :=
  match a, b with
  | CNo, CNo | CInt, CInt | CSse, CSse | CX87, CX87 | CX87up, CX87up | CMem, CMem => true
  | _, _ => false
  end.

(* get_result_type *)
Definition get_result_type (a b : cls) : cls :=
  if cls_eqb a b then a
  else match a, b with
  | CNo, _ => b
  | _, CNo => a
  | CMem, _ | _, CMem => CMem
  | CInt, _ | _, CInt => CInt
  | CX87, _ | _, CX87 | CX87up, _ | _, CX87up => CMem
  | _, _ => CSse
  end.

(* MIR_type_t types[MAX_QWORDS] *)
Definition qtypes := (cls * cls)%type.
Definition qget (q : Z) (ts : qtypes) : cls := if q =? 0 then fst ts else snd ts.
Definition qset (q : Z) (c : cls) (ts : qtypes) : qtypes :=
  if q =? 0 then (c, snd ts) else if q =? 1 then (fst ts, c) else ts.
Definition qmerge (q : Z) (c : cls) (ts : qtypes) : qtypes := qset q (get_result_type c (qget q ts)) ts.

Definition is_fp (k : bkind) : bool := match k with KFloat | KDouble => true | _ => false end.

(* classify_fields: every scalar of [t] laid at [offset] merges its class into its own qword of
   [ts]; each struct/union level first collects into its own subtypes[] and gets its own post
   merger cleanup.  None = FALSE (memory). *)
Definition level_cleanup (sub ts : qtypes) : option qtypes :=
  let '(s0, s1) := sub in
  if cls_eqb s0 CMem then None
  else if cls_eqb s0 CX87up then None
  else if cls_eqb s1 CMem then None
  else if cls_eqb s1 CX87up && negb (cls_eqb s0 CX87) then None
  else Some (get_result_type s0 (fst ts), get_result_type s1 (snd ts)).

(* a bit-field (repaired code, /repo 21222098 = fixes/C08-9):
     for (qword = bit / 64; qword <= (bit + width - 1) / 64 && qword < MAX_QWORDS; qword++)
       subtypes[qword] = get_result_type (MIR_T_I64, subtypes[qword]);
   a bit-field is at most 64 bits wide, so the loop runs once or twice; [qset] ignores an index >= 2
   as the loop bound does *)
Definition qmerge_span (bit w : Z) (ts : qtypes) : qtypes :=
  let q0 := bit / 64 in
  let q1 := (bit + w - 1) / 64 in
  let t1 := qmerge q0 CInt ts in
  if q1 =? q0 then t1 else qmerge q1 CInt t1.

(* the member loop of one struct/union level (rec = classify_fields itself) *)
Definition cf_members (rec : ty -> Z -> qtypes -> option qtypes) (offset : Z) :=
  fix go (ms : list (mkind * ty)) (rs : list mrec) (sub : qtypes) : option qtypes :=
    match ms, rs with
    | (mk, mt) :: ms', r :: rs' =>
        let member_offset := m_off r + offset in
        if m_bit r <? 0 then
          match rec mt member_offset sub with
          | None => None
          | Some sub' => go ms' rs' sub'
          end
        else if m_width r =? 0 then go ms' rs' sub
        else go ms' rs' (qmerge_span (member_offset * 8 + m_bit r) (m_width r) sub)
    | _, _ => Some sub
    end.

Fixpoint classify_fields (t : ty) (offset : Z) (ts : qtypes) : option qtypes :=
  match t with
  | TBasic KLDouble => Some (qmerge (offset / 8 + 1) CX87up (qmerge (offset / 8) CX87 ts))
  | TBasic k => Some (qmerge (offset / 8) (if is_fp k then CSse else CInt) ts)
  | TPtr | TEnum _ _ => Some (qmerge (offset / 8) CInt ts)
  | TFlex _ => Some ts
  | TArr n el =>
      let el_size := type_size (c2m_layout el) in
      (* for (i = 0; i * el_size < size; i++) *)
      if el_size =? 0 then Some ts
      else fold_left (fun acc i => match acc with
                                   | None => None
                                   | Some ts => classify_fields el (offset + Z.of_nat i * el_size) ts
                                   end)
                     (seq 0 (Z.to_nat n)) (Some ts)
  | TAgg u ms =>
      match cf_members classify_fields offset ms (mems (c2m_layout t)) (CNo, CNo) with
      | None => None
      | Some sub => level_cleanup sub ts
      end
  end.

Definition is_aggregate (t : ty) : bool :=
  match t with TAgg _ _ | TArr _ _ | TFlex _ => true | _ => false end.

(* classify_arg: None = 0 (memory), Some l = the classes of the n_qwords qwords *)
Definition classify_arg (t : ty) : option (list cls) :=
  let size := type_size (c2m_layout t) in
  let n_qwords := (size + 7) / 8 in
  if is_aggregate t then
    if (2 <? n_qwords) || (n_qwords =? 0) then None
    else
      match classify_fields t 0 (CNo, CNo) with
      | None => None
      | Some ts =>
          let l := firstn (Z.to_nat n_qwords) [fst ts; snd ts] in
          if existsb (cls_eqb CMem) l then None
          else match l with
          | CX87up :: _ => None
          | [c0; CX87up] => if cls_eqb c0 CX87 then Some l else None
          | _ => Some (map (fun c => if cls_eqb c CNo then CInt else c) l)
          end
      end
  else match t with
  | TBasic KLDouble => Some [CX87; CX87up]
  | TBasic k => Some [if is_fp k then CSse else CInt]
  | _ => Some [CInt]
  end.

(* MIR types of the pieces an aggregate travels in *)
Inductive mtype := MI8 | MI16 | MI32 | MI64 | MF | MD | MLD | MX87UP.

Definition mtype_of_cls (c : cls) : mtype :=
  match c with CSse => MD | CX87 => MLD | CX87up => MX87UP | _ => MI64 end.

(* update_last_qword_type *)
Definition update_last_qword_type (size : Z) (l : list mtype) : list mtype :=
  let last_size := size mod 8 in
  match l with
  | [m] =>
      if last_size =? 0 then l
      else if last_size <=? 4 then
        match m with
        | MD => [MF]
        | MI64 => [if last_size <=? 1 then MI8 else if last_size <=? 2 then MI16 else MI32]
        | _ => l
        end
      else l
  | _ => l
  end.

(* process_ret_type for a struct/union: None = returned through a hidden pointer (RBLK),
   Some l = the MIR result types *)
Definition process_ret_type (t : ty) : option (list mtype) :=
  match classify_arg t with
  | None => None
  | Some cl =>
      let l := update_last_qword_type (type_size (c2m_layout t)) (map mtype_of_cls cl) in
      Some (filter (fun m => match m with MX87UP => false | _ => true end) l)
  end.

(* How the pieces are moved (target_add_ret_ops in a callee, target_gen_post_call_res_code in a caller): piece i
   of process_ret_type is loaded from / stored to  disp + 8 * i  of the object with a move of its MIR type
   (tp_mov (type), memory operand of that type).  [mbytes] = the bytes such a move transfers; for MIR_T_LD the 16
   bytes of the long double object (an x87 store writes its 10 value bytes, the 6 others are padding of the
   long double itself). *)
Definition mbytes (m : mtype) : Z :=
  match m with MI8 => 1 | MI16 => 2 | MI32 | MF => 4 | MI64 | MD => 8 | MLD => 16 | MX87UP => 0 end.

(* (byte offset, MIR type) of every access; None = hidden pointer *)
Definition ret_pieces (t : ty) : option (list (Z * mtype)) :=
  option_map (fun l => combine (map (fun i => 8 * Z.of_nat i) (seq 0 (length l))) l) (process_ret_type t).

(* process_aggregate_arg + get_blk_type: the MIR_T_BLK + k a struct/union argument is passed as,
   given the integer / SSE registers already used; returns (k, n_iregs', n_fregs') *)
Definition is_int_mtype (m : mtype) : bool :=
  match m with MI8 | MI16 | MI32 | MI64 => true | _ => false end.
Definition is_sse_mtype (m : mtype) : bool := match m with MF | MD => true | _ => false end.

Definition blk_of (l : list mtype) : Z :=
  let n := Z.of_nat (length l) in
  let ni := Z.of_nat (length (filter is_int_mtype l)) in
  let nf := Z.of_nat (length (filter is_sse_mtype l)) in
  if ni =? n then 1 else if nf =? n then 2
  else match l with m :: _ => if is_sse_mtype m then 4 else 3 | [] => 0 end.

Definition pass_aggregate_arg (t : ty) (n_iregs n_fregs : Z) : Z * Z * Z :=
  match classify_arg t with
  | None => (0, n_iregs, n_fregs)
  | Some cl =>
      let l := update_last_qword_type (type_size (c2m_layout t)) (map mtype_of_cls cl) in
      if existsb (fun m => match m with MLD | MX87UP => true | _ => false end) l
      then (0, n_iregs, n_fregs)
      else
        let ni := Z.of_nat (length (filter is_int_mtype l)) in
        let nf := Z.of_nat (length (filter is_sse_mtype l)) in
        if (negb (ni =? 0) && (6 <? n_iregs + ni)) || (negb (nf =? 0) && (8 <? n_fregs + nf))
        then (0, n_iregs, n_fregs)
        else (blk_of l, n_iregs + ni, n_fregs + nf)
  end.

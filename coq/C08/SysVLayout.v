(* C08 — the data-layout rules of the System V x86-64 psABI (section 3.1.2 "Data Representation":
   scalar sizes and alignments of figure 3.1, "Aggregates and Unions", "Bit-Fields"), written
   independently of c2mir's algorithm as a forward walk over the members with one running bit
   position.  This is the specification side of the C08 layout theorems; gcc is its executable
   witness in the three-way correspondence run.                                                  *)
From Coq Require Import ZArith List Bool.
From MirV Require Import C08.CLayout.
Import ListNotations.
Local Open Scope Z_scope.

(* figure 3.1: sizeof = alignment for every scalar on LP64 *)
Definition sv_scalar_size (k : bkind) : Z :=
  match k with
  | KBool | KChar | KSChar | KUChar => 1
  | KShort | KUShort => 2
  | KInt | KUInt | KFloat => 4
  | KLong | KULong | KLLong | KULLong | KDouble => 8
  | KLDouble => 16
  end.

(* enum: int-sized when all enumerators fit int or unsigned int, otherwise 8 bytes (gcc) *)
Definition sv_enum_size (lo hi : Z) : Z :=
  if ((-2147483648 <=? lo) && (hi <=? 2147483647)) || ((0 <=? lo) && (hi <=? 4294967295))
  then 4 else 8.

Definition align_up (x a : Z) : Z := (x + a - 1) / a * a.
Definition bytes_of_bits (b : Z) : Z := (b + 7) / 8.

Record svstate := mksv { pos : Z (* next free bit *); salign : Z; sleaves : list leaf; smems : list mrec }.

(* sv_mems: per member, in order: byte offset of the member (of the storage unit for a bit-field),
   bit offset inside the unit and width (both -1 for non-bit-fields) *)
Record svlay := mksvl { sv_size : Z; sv_align : Z; sv_leaves : list leaf; sv_mems : list mrec }.

Definition sv_is_flex (t : ty) : bool := match t with TFlex _ => true | _ => false end.

(* one member of a structure, placed at the running position *)
Definition sv_struct_step (mk : mkind) (t : ty) (ml : svlay) (s : svstate) : svstate :=
  match mk with
  | MBits w named =>
      let unit := 8 * sv_size ml in   (* bits of the declared type = its storage unit *)
      if w =? 0 then
        (* "zero-width bit-fields force the next member to the next unit boundary" *)
        mksv (align_up (pos s) unit) (salign s) (sleaves s) (smems s ++ [mkmrec 0 0 0])
      else
        (* "bit-fields must be contained in a storage unit appropriate for its declared type":
           stay in the current unit when the field fits, otherwise start the next unit *)
        let p := if (pos s) mod unit + w <=? unit then pos s else align_up (pos s) unit in
        mksv (p + w)
             (* "unnamed bit-fields' types do not affect the alignment of a structure or union" *)
             (if named then Z.max (salign s) (sv_align ml) else salign s)
             (if named
              then sleaves s ++ [mkleaf (p / unit * sv_size ml) (p mod unit) w]
              else sleaves s)
             (smems s ++ [mkmrec (p / unit * sv_size ml) (p mod unit) w])
  | _ =>
      (* "each member is assigned to the lowest available offset with the appropriate alignment" *)
      let off := align_up (bytes_of_bits (pos s)) (sv_align ml) in
      let sz := if sv_is_flex t then 0 else sv_size ml in
      mksv (8 * (off + sz)) (Z.max (salign s) (sv_align ml))
           (sleaves s ++
            match mk with
            | MNamed => mkleaf off (-1) (sv_size ml) :: shift_leaves off (sv_leaves ml)
            | _ => shift_leaves off (sv_leaves ml)
            end)
           (smems s ++ [mkmrec off (-1) (-1)])
  end.

(* one member of a union: everything starts at offset 0; [pos] keeps the greatest end *)
Definition sv_union_step (mk : mkind) (t : ty) (ml : svlay) (s : svstate) : svstate :=
  match mk with
  | MBits w named =>
      if w =? 0 then mksv (pos s) (salign s) (sleaves s) (smems s ++ [mkmrec 0 0 0])
      else mksv (Z.max (pos s) w)
                (if named then Z.max (salign s) (sv_align ml) else salign s)
                (if named then sleaves s ++ [mkleaf 0 0 w] else sleaves s)
                (smems s ++ [mkmrec 0 0 w])
  | _ =>
      let sz := if sv_is_flex t then 0 else sv_size ml in
      mksv (Z.max (pos s) (8 * sz)) (Z.max (salign s) (sv_align ml))
           (sleaves s ++
            match mk with
            | MNamed => mkleaf 0 (-1) (sv_size ml) :: sv_leaves ml
            | _ => sv_leaves ml
            end)
           (smems s ++ [mkmrec 0 (-1) (-1)])
  end.

(* a struct or union, given the layouts of its members *)
Definition sv_agg_layout (u : bool) (mls : list (mkind * ty * svlay)) : svlay :=
  let s := fold_left (fun s '(mk, mt, ml) => (if u then sv_union_step else sv_struct_step) mk mt ml s)
                     mls (mksv 0 1 [] []) in
  (* "the size of any object is always a multiple of the object's alignment" (tail padding) *)
  mksvl (align_up (bytes_of_bits (pos s)) (salign s)) (salign s) (sleaves s) (smems s).

Fixpoint sysv_layout (t : ty) : svlay :=
  match t with
  | TBasic k => mksvl (sv_scalar_size k) (sv_scalar_size k) [] []
  | TPtr => mksvl 8 8 [] []
  | TEnum lo hi => mksvl (sv_enum_size lo hi) (sv_enum_size lo hi) [] []
  | TArr n el => let l := sysv_layout el in mksvl (sv_size l * n) (sv_align l) (sv_leaves l) []
  | TFlex el => let l := sysv_layout el in mksvl (sv_size l) (sv_align l) [] []
  | TAgg u ms =>
      sv_agg_layout u ((fix members (ms : list (mkind * ty)) : list (mkind * ty * svlay) :=
                          match ms with
                          | [] => []
                          | (mk, mt) :: r => (mk, mt, sysv_layout mt) :: members r
                          end) ms)
  end.

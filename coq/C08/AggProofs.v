(* C08 — whole structs and unions: folding the member steps. *)
From Coq Require Import ZArith List Bool Lia ZifyBool.
From MirV Require Import C08.CLayout C08.SysVLayout C08.WalkProofs C08.StepProofs C08.MemberProofs.
Import ListNotations.
Local Open Scope Z_scope.
Ltac Zify.zify_post_hook ::= Z.div_mod_to_equations.

Fixpoint flex_only_last (ms : list (mkind * ty)) : bool :=
  match ms with
  | [] => true
  | m :: r => match r with [] => true | _ => negb (is_flex (snd m)) && flex_only_last r end
  end.

Definition no_flex (ms : list (mkind * ty)) : bool := forallb (fun m => negb (is_flex (snd m))) ms.

Section Fold.
  Variables (L : ty -> lay) (S : ty -> svlay).

  Definition mgood (m : mkind * ty) : Prop :=
    let '(mk, t) := m in
    type_size (L t) = sv_size (S t) /\ align (L t) = sv_align (S t) /\ leaves (L t) = sv_leaves (S t) /\
    member_ok mk (sv_size (S t)) (sv_align (S t)) /\ (is_flex t = true -> mk = MNamed).

  Definition cm (ms : list (mkind * ty)) := map (fun '(mk, mt) => (mk, mt, L mt)) ms.
  Definition sm (ms : list (mkind * ty)) := map (fun '(mk, mt) => (mk, mt, S mt)) ms.

  Definition cstep (u : bool) := fun acc '(mk, mt, ml) => member_step u mk mt ml acc.
  Definition sstep (u : bool) :=
    fun s '(mk, mt, ml) => (if u then sv_union_step else sv_struct_step) mk mt ml s.

  Lemma member_ok_named mk sz a : member_ok mk sz a -> member_ok MNamed sz a.
  Proof. intros (H1 & H2 & H3 & _). repeat split; auto. Qed.

  Lemma struct_one mk t s ls rs p al :
    mgood (mk, t) -> is_flex t = false -> Inv s p ->
    forall s' ls' rs', member_step false mk t (L t) (s, ls, rs) = (s', ls', rs') ->
    let sv' := sv_struct_step mk t (S t) (mksv p al ls (map norm rs)) in
    Inv s' (pos sv') /\ ls' = sleaves sv' /\ map norm rs' = smems sv'.
  Proof.
    intros (H1 & H2 & H3 & H4 & H5) Hfl HI s' ls' rs' E.
    destruct mk as [|w named|].
    - pose proof (struct_step_regular true t (L t) (S t) s ls rs p al H1 H2 H3 H4 Hfl HI) as H.
      cbv beta zeta iota in H. rewrite E in H. exact H.
    - pose proof (struct_step_bits w named t (L t) (S t) s ls rs p al H1 H2 H3 H4 Hfl HI) as H.
      cbv zeta in H. rewrite E in H. exact H.
    - pose proof (struct_step_regular false t (L t) (S t) s ls rs p al H1 H2 H3
                    (member_ok_named _ _ _ H4) Hfl HI) as H.
      cbv beta zeta iota in H. rewrite E in H. exact H.
  Qed.

  Lemma struct_fold ms :
    Forall mgood ms -> flex_only_last ms = true ->
    forall s ls rs p al, Inv s p ->
    forall s' ls' rs', fold_left (cstep false) (cm ms) (s, ls, rs) = (s', ls', rs') ->
    let sv' := fold_left (sstep false) (sm ms) (mksv p al ls (map norm rs)) in
    used s' = bytes_of_bits (pos sv') /\ ls' = sleaves sv' /\ map norm rs' = smems sv'.
  Proof.
    induction ms as [|[mk t] r IH]; intros Hg Hfl s ls rs p al HI s' ls' rs' E.
    - cbn in E. injection E as <- <- <-. cbn. repeat split. apply (inv_used _ _ HI).
    - inversion Hg as [|? ? Hm Hr]; subst.
      cbn [cm sm map fold_left cstep sstep] in *.
      destruct (member_step false mk t (L t) (s, ls, rs)) as [[s1 ls1] rs1] eqn:E1.
      destruct (is_flex t) eqn:Eflex.
      + (* flexible array member: must be the last one *)
        destruct r as [|m2 r2]; [|cbn in Hfl; rewrite Eflex in Hfl; discriminate].
        cbn in E. injection E as <- <- <-. cbn [map fold_left].
        destruct Hm as (H1 & H2 & H3 & H4 & H5). rewrite (H5 Eflex) in *.
        pose proof (struct_step_flex t (L t) (S t) s ls rs p al H1 H2 H3 H4 Eflex HI) as H.
        rewrite E1 in H. exact H.
      + destruct (struct_one mk t s ls rs p al Hm Eflex HI _ _ _ E1) as (HI1 & Hl1 & Hr1).
        assert (Hfl' : flex_only_last r = true).
        { destruct r; [reflexivity|]. cbn in Hfl. rewrite Eflex in Hfl. exact Hfl. }
        set (sv1 := sv_struct_step mk t (S t) (mksv p al ls (map norm rs))) in *.
        specialize (IH Hr Hfl' s1 ls1 rs1 (pos sv1) (salign sv1) HI1 s' ls' rs' E).
        rewrite Hl1, Hr1 in IH.
        replace (mksv (pos sv1) (salign sv1) (sleaves sv1) (smems sv1)) with sv1 in IH by (destruct sv1; reflexivity).
        exact IH.
  Qed.

  Lemma union_fold ms :
    Forall mgood ms -> no_flex ms = true ->
    forall s ls rs q al, UInv s q ->
    forall s' ls' rs', fold_left (cstep true) (cm ms) (s, ls, rs) = (s', ls', rs') ->
    let sv' := fold_left (sstep true) (sm ms) (mksv q al ls (map norm rs)) in
    used s' = bytes_of_bits (pos sv') /\ ls' = sleaves sv' /\ map norm rs' = smems sv'.
  Proof.
    induction ms as [|[mk t] r IH]; intros Hg Hfl s ls rs q al HI s' ls' rs' E.
    - cbn in E. injection E as <- <- <-. cbn. repeat split. apply (uinv_used _ _ HI).
    - inversion Hg as [|? ? Hm Hr]; subst.
      cbn [cm sm map fold_left cstep sstep] in *.
      cbn [no_flex forallb snd] in Hfl. apply andb_prop in Hfl as [Hf1 Hf2].
      assert (Eflex : is_flex t = false) by (destruct (is_flex t); [discriminate|reflexivity]).
      destruct (member_step true mk t (L t) (s, ls, rs)) as [[s1 ls1] rs1] eqn:E1.
      destruct Hm as (H1 & H2 & H3 & H4 & H5).
      pose proof (union_step_ok mk t (L t) (S t) s ls rs q al H1 H2 H3 H4 Eflex HI) as H.
      rewrite E1 in H. destruct H as (HI1 & Hl1 & Hr1).
      set (sv1 := sv_union_step mk t (S t) (mksv q al ls (map norm rs))) in *.
      specialize (IH Hr Hf2 s1 ls1 rs1 (pos sv1) (salign sv1) HI1 s' ls' rs' E).
      rewrite Hl1, Hr1 in IH.
      replace (mksv (pos sv1) (salign sv1) (sleaves sv1) (smems sv1)) with sv1 in IH by (destruct sv1; reflexivity).
      exact IH.
  Qed.

  (* alignment: c2mir's max over the members that count = the psABI's running maximum *)
  Lemma align_fold u ms :
    Forall mgood ms ->
    forall a0 p ls rs,
    fold_left (fun a '(mk, _, ml) => if counts_for_align mk then Z.max a (align ml) else a) (cm ms) a0
    = salign (fold_left (sstep u) (sm ms) (mksv p a0 ls rs)).
  Proof.
    induction ms as [|[mk t] r IH]; intros Hg a0 p ls rs.
    - reflexivity.
    - inversion Hg as [|? ? Hm Hr]; subst.
      cbn [cm sm map fold_left sstep].
      destruct Hm as (H1 & H2 & H3 & (_ & _ & _ & H4) & H5).
      set (sv1 := (if u then sv_union_step else sv_struct_step) mk t (S t) (mksv p a0 ls rs)).
      assert (Hs : salign sv1 = if counts_for_align mk then Z.max a0 (align (L t)) else a0).
      { unfold sv1. rewrite H2. destruct u; destruct mk as [|w named|]; cbn; try reflexivity.
        - destruct H4 as (_ & _ & _ & Hn). destruct (w =? 0) eqn:E.
          + rewrite (Hn ltac:(lia)). reflexivity.
          + destruct named; reflexivity.
        - destruct H4 as (_ & _ & _ & Hn). destruct (w =? 0) eqn:E.
          + rewrite (Hn ltac:(lia)). reflexivity.
          + destruct named; reflexivity. }
      rewrite <- Hs.
      replace sv1 with (mksv (pos sv1) (salign sv1) (sleaves sv1) (smems sv1)) at 2 by (destruct sv1; reflexivity).
      apply IH. exact Hr.
  Qed.
End Fold.

(* C08 — a whole member step of a struct / union: c2mir's member_step against the psABI steps. *)
From Coq Require Import ZArith List Bool Lia ZifyBool.
From MirV Require Import C08.CLayout C08.SysVLayout C08.WalkProofs C08.StepProofs.
Import ListNotations.
Local Open Scope Z_scope.
Ltac Zify.zify_post_hook ::= Z.div_mod_to_equations.

Lemma sv_is_flex_eq t : sv_is_flex t = is_flex t.
Proof. destruct t; reflexivity. Qed.

Lemma norm_app rs r : map norm (rs ++ [r]) = map norm rs ++ [norm r].
Proof. rewrite map_app. reflexivity. Qed.

Lemma bytes_of_bits_8 x : bytes_of_bits (8 * x) = x.
Proof. unfold bytes_of_bits. lia. Qed.

(* a member that is not a bit-field (named or anonymous) *)
Lemma struct_step_regular (named : bool) t ml sl s ls rs p al :
  type_size ml = sv_size sl -> align ml = sv_align sl -> leaves ml = sv_leaves sl ->
  member_ok MNamed (sv_size sl) (sv_align sl) ->
  is_flex t = false ->
  Inv s p ->
  let mk := if named then MNamed else MAnon in
  let '(s', ls', rs') := member_step false mk t ml (s, ls, rs) in
  let sv' := sv_struct_step mk t sl (mksv p al ls (map norm rs)) in
  Inv s' (pos sv') /\ ls' = sleaves sv' /\ map norm rs' = smems sv'.
Proof.
  intros Hsz Hal Hlv (Hpos & Ha & Hmod & _) Hfl HI.
  cbv zeta. unfold member_step. rewrite Hsz, Hal, Hlv.
  replace (sv_size sl =? 0) with false by lia.
  remember (sv_size sl) as sz. remember (sv_align sl) as a.
  assert (Hbits : member_bits (if named then MNamed else MAnon) = -1) by (destruct named; reflexivity).
  rewrite Hbits. cbn [Z.eqb andb].
  destruct (ufl_regular s p sz a HI Ha Hpos) as (Ho & Hb & Hbf & Hov & Hu & Hps).
  set (s1 := update_field_layout s sz a (-1)) in *.
  cbn [orb Z.ltb Z.leb Z.compare]. rewrite Hfl.
  destruct HI as [Hp [Ho1 [Ho2 Ho3]] Hpp [Hov1 Hov2] Hus].
  assert (Hoff : bytes_of_bits p <= offset s1) by (rewrite Ho; apply align_up_mult; auto; unfold bytes_of_bits; lia).
  assert (Hbp : 0 <= bytes_of_bits p) by (unfold bytes_of_bits; lia).
  assert (Hstep : forall mk, (mk = MNamed \/ mk = MAnon) ->
            pos (sv_struct_step mk t sl (mksv p al ls (map norm rs))) = 8 * (offset s1 + sz)).
  { intros mk [-> | ->]; unfold sv_struct_step; rewrite sv_is_flex_eq, Hfl; cbn [pos salign sleaves smems];
      rewrite <- ?Heqsz, <- ?Heqa, <- Ho; reflexivity. }
  split; [|split].
  - rewrite Hstep by (destruct named; auto).
    constructor; cbn [offset prev_size bound_bit bf_p overall used].
    + lia.
    + lia.
    + rewrite Hbf. reflexivity.
    + rewrite bytes_of_bits_8. lia.
    + rewrite bytes_of_bits_8. destruct (used s1 <? offset s1 + sz) eqn:E; lia.
  - destruct named; unfold sv_struct_step; rewrite sv_is_flex_eq, Hfl; cbn [pos salign sleaves smems];
      rewrite <- ?Heqsz, <- ?Heqa, <- Ho; reflexivity.
  - rewrite norm_app. destruct named; unfold sv_struct_step; rewrite sv_is_flex_eq, Hfl; cbn [pos salign sleaves smems];
      rewrite <- ?Heqsz, <- ?Heqa, <- Ho; reflexivity.
Qed.

(* a bit-field member of a struct *)
Lemma struct_step_bits w named t ml sl s ls rs p al :
  type_size ml = sv_size sl -> align ml = sv_align sl -> leaves ml = sv_leaves sl ->
  member_ok (MBits w named) (sv_size sl) (sv_align sl) ->
  is_flex t = false ->
  Inv s p ->
  let mk := MBits w named in
  let '(s', ls', rs') := member_step false mk t ml (s, ls, rs) in
  let sv' := sv_struct_step mk t sl (mksv p al ls (map norm rs)) in
  Inv s' (pos sv') /\ ls' = sleaves sv' /\ map norm rs' = smems sv'.
Proof.
  intros Hsz Hal Hlv (Hpos & Ha & Hmod & Hsa & Ha8 & Hw & Hnamed) Hfl HI.
  cbv zeta. unfold member_step. rewrite Hsz, Hal, ?Hlv.
  replace (sv_size sl =? 0) with false by lia.
  unfold sv_struct_step. cbn [pos salign sleaves smems member_bits orb].
  rewrite <- Hsa in *.
  remember (sv_size sl) as f. clear Heqf Hsa Hmod Hsz Hal Hlv.
  destruct (w =? 0) eqn:Ew.
  - (* zero width *)
    assert (w = 0) by lia. subst w. rewrite (Hnamed eq_refl). clear Hnamed Hw.
    destruct (overall s =? 0) eqn:Eo; cbn [andb].
    + (* at position 0: skipped *)
      assert (p = 0) by (apply (inv_overall _ _ HI); lia). subst p.
      split; [|split].
      * replace (align_up 0 (8 * f)) with 0 by (unfold align_up; split_a Ha; lia). exact HI.
      * reflexivity.
      * rewrite norm_app. reflexivity.
    + assert (Hp0 : 0 < p).
      { destruct HI as [Hp _ _ [_ Hov2] _]. assert (p <> 0) by (intro H; apply Hov2 in H; lia). lia. }
      destruct (ufl_zero s p f HI Ha Ha8 Hp0) as (Ho & Hoff & Hb & Hov & Hu).
      set (s1 := update_field_layout s f f 0) in *.
      cbn [Z.ltb Z.leb Z.compare Z.eqb]. rewrite Hfl.
      destruct HI as [Hp [Ho1 [Ho2 Ho3]] Hpp [Hov1 Hov2] Hus].
      assert (Hle : p <= align_up p (8 * f)) by (unfold align_up; split_a Ha; lia).
      assert (Hbb : bytes_of_bits p <= offset s1 + f) by (unfold bytes_of_bits; lia).
      assert (Hb0 : 0 <= bytes_of_bits p) by (unfold bytes_of_bits; lia).
      split; [|split].
      * rewrite <- Ho.
        constructor; cbn [offset prev_size bound_bit bf_p overall used pos salign sleaves smems].
        -- lia.
        -- lia.
        -- reflexivity.
        -- rewrite bytes_of_bits_8. lia.
        -- rewrite bytes_of_bits_8. destruct (used s1 <? offset s1 + f) eqn:E; lia.
      * rewrite app_nil_r. reflexivity.
      * rewrite norm_app. unfold norm at 2. cbn [m_width m_bit Z.eqb].
        replace (bound_bit s1 - 0 <? 0) with false by lia. reflexivity.
  - (* positive width *)
    assert (Hw0 : 0 < w <= 8 * f) by lia.
    cbn [andb].
    destruct (ufl_bitfield s p f w HI Ha Ha8 Hw0) as (Ho & Hb & Hbf & Hov & Hu & Hps).
    set (s1 := update_field_layout s f f w) in *.
    replace (w <? 0) with false by lia. replace (w <=? 0) with false by lia.
    rewrite Hfl.
    destruct HI as [Hp [Ho1 [Ho2 Ho3]] Hpp [Hov1 Hov2] Hus].
    remember (if p mod (8 * f) + w <=? 8 * f then p else align_up p (8 * f)) as pp.
    assert (Hpp1 : p <= pp /\ pp mod (8 * f) + w <= 8 * f /\ 0 <= pp mod (8 * f)
                   /\ 8 * offset s1 + pp mod (8 * f) = pp /\ 0 <= offset s1).
    { rewrite Ho. subst pp. unfold align_up.
      destruct (p mod (8 * f) + w <=? 8 * f) eqn:E; split_a Ha; lia. }
    destruct Hpp1 as (Hpp1 & Hpp2 & Hpp3 & Hpp4 & Hpp5).
    clear Heqpp.
    assert (Hbb : bytes_of_bits p <= offset s1 + (bound_bit s1 + 7) / 8
                  /\ bytes_of_bits (pp + w) = offset s1 + (bound_bit s1 + 7) / 8
                  /\ offset s1 + (bound_bit s1 + 7) / 8 <= offset s1 + f).
    { unfold bytes_of_bits. rewrite Hb. lia. }
    destruct Hbb as (Hbb1 & Hbb2 & Hbb3).
    split; [|split].
    + constructor; cbn [offset prev_size bound_bit bf_p overall used pos salign sleaves smems].
      * lia.
      * lia.
      * rewrite Hbf. lia.
      * rewrite Hbb2. lia.
      * rewrite Hbb2. destruct (used s1 <? offset s1 + (bound_bit s1 + 7) / 8) eqn:E; lia.
    + cbn [pos salign sleaves smems].
      destruct named; [|rewrite app_nil_r; reflexivity].
      rewrite Ho, Hb. replace (pp mod (8 * f) + w - w) with (pp mod (8 * f)) by lia. reflexivity.
    + cbn [pos salign sleaves smems].
      rewrite norm_app. unfold norm at 2. cbn [m_width]. rewrite Ew.
      rewrite Ho, Hb. replace (pp mod (8 * f) + w - w) with (pp mod (8 * f)) by lia. reflexivity.
Qed.

(* ------------------------------------------------------------------ unions *)

(* c2mir's state between the members of a union: everything reset, only overall_size and used_size
   accumulate; q = greatest end (in bits) so far *)
Record UInv (s : fstate) (q : Z) : Prop := {
  uinv_q : 0 <= q;
  uinv_reset : bf_p s = false /\ offset s = 0 /\ prev_size s = 0 /\ bound_bit s = 0;
  uinv_overall : 0 <= overall s;
  uinv_used : used s = bytes_of_bits q }.

Lemma ufl_union s q fsize a bits :
  UInv s q -> pow2a a ->
  let s1 := update_field_layout s fsize a bits in
  offset s1 = 0 /\ bound_bit s1 = (if 0 <=? bits then bits else 0) /\
  overall s1 = (if overall s <? fsize then fsize else overall s) /\ used s1 = used s.
Proof.
  intros [Hq (Hbf & Ho & Hps & Hb) Hov Hu] Ha. cbv zeta.
  unfold update_field_layout. rewrite Hbf, Ho, Hps, Hb.
  rewrite walk_from_zero by (split_a Ha; lia).
  cbn [offset bound_bit overall used].
  repeat split.
  - destruct ((_ <? a) && (0 <=? bits)); destruct (0 <=? bits); lia.
Qed.

Lemma union_step_ok mk t ml sl s ls rs q al :
  type_size ml = sv_size sl -> align ml = sv_align sl -> leaves ml = sv_leaves sl ->
  member_ok mk (sv_size sl) (sv_align sl) ->
  is_flex t = false ->
  UInv s q ->
  let '(s', ls', rs') := member_step true mk t ml (s, ls, rs) in
  let sv' := sv_union_step mk t sl (mksv q al ls (map norm rs)) in
  UInv s' (pos sv') /\ ls' = sleaves sv' /\ map norm rs' = smems sv'.
Proof.
  intros Hsz Hal Hlv (Hpos & Ha & Hmod & Hmk) Hfl HI.
  unfold member_step. rewrite Hsz, Hal, ?Hlv.
  replace (sv_size sl =? 0) with false by lia.
  remember (sv_size sl) as sz. remember (sv_align sl) as a.
  assert (Hshift : forall l, shift_leaves 0 l = l).
  { intros l. unfold shift_leaves. rewrite <- (map_id l) at 2. apply map_ext.
    intros [o b z]. unfold shift_leaf. cbn. f_equal. lia. }
  destruct mk as [|w named|]; cbn [member_bits orb andb].
  - (* named *)
    cbn [Z.eqb andb].
    destruct (ufl_union s q sz a (-1) HI Ha) as (Ho & Hb & Hov & Hu).
    set (s1 := update_field_layout s sz a (-1)) in *.
    cbn [Z.ltb Z.leb Z.compare]. rewrite Hfl.
    unfold sv_union_step. rewrite sv_is_flex_eq, Hfl. cbn [pos salign sleaves smems].
    rewrite <- ?Heqsz, <- ?Heqa, Ho.
    destruct HI as [Hq (Hbf & Hoo & Hps & Hbb) Hovn Hus].
    split; [|split].
    + constructor; cbn [offset prev_size bound_bit bf_p overall used pos salign sleaves smems].
      * lia.
      * auto.
      * destruct (overall s <? sz); lia.
      * unfold bytes_of_bits in *. destruct (used s1 <? 0 + sz) eqn:E; lia.
    + rewrite Hshift. reflexivity.
    + rewrite norm_app. reflexivity.
  - (* bit-field *)
    destruct Hmk as (Hsa & Ha8 & Hw & Hnamed).
    unfold sv_union_step. cbn [pos salign sleaves smems].
    destruct (w =? 0) eqn:Ew.
    + split; [|split].
      * exact HI.
      * reflexivity.
      * rewrite norm_app. reflexivity.
    + destruct (ufl_union s q sz a w HI Ha) as (Ho & Hb & Hov & Hu).
      set (s1 := update_field_layout s sz a w) in *.
      replace (w <? 0) with false by lia. replace (w <=? 0) with false by lia.
      replace (0 <=? w) with true in Hb by lia.
      rewrite Hfl, Ho, Hb.
      destruct HI as [Hq (Hbf & Hoo & Hps & Hbb) Hovn Hus].
      split; [|split].
      * constructor; cbn [offset prev_size bound_bit bf_p overall used pos salign sleaves smems].
        -- lia.
        -- auto.
        -- destruct (overall s <? sz); lia.
        -- unfold bytes_of_bits in *. destruct (used s1 <? 0 + (w + 7) / 8) eqn:E; lia.
      * cbn [pos salign sleaves smems].
        replace (w - w) with 0 by lia. destruct named; [reflexivity | rewrite app_nil_r; reflexivity].
      * cbn [pos salign sleaves smems]. rewrite norm_app. unfold norm at 2. cbn [m_width]. rewrite Ew.
        replace (w - w) with 0 by lia. reflexivity.
  - (* anonymous *)
    cbn [Z.eqb andb].
    destruct (ufl_union s q sz a (-1) HI Ha) as (Ho & Hb & Hov & Hu).
    set (s1 := update_field_layout s sz a (-1)) in *.
    cbn [Z.ltb Z.leb Z.compare]. rewrite Hfl.
    unfold sv_union_step. rewrite sv_is_flex_eq, Hfl. cbn [pos salign sleaves smems].
    rewrite <- ?Heqsz, <- ?Heqa, Ho.
    destruct HI as [Hq (Hbf & Hoo & Hps & Hbb) Hovn Hus].
    split; [|split].
    + constructor; cbn [offset prev_size bound_bit bf_p overall used pos salign sleaves smems].
      * lia.
      * auto.
      * destruct (overall s <? sz); lia.
      * unfold bytes_of_bits in *. destruct (used s1 <? 0 + sz) eqn:E; lia.
    + rewrite Hshift. reflexivity.
    + rewrite norm_app. reflexivity.
Qed.

(* the flexible array member that ends a struct takes no space *)
Lemma struct_step_flex t ml sl s ls rs p al :
  type_size ml = sv_size sl -> align ml = sv_align sl -> leaves ml = sv_leaves sl ->
  member_ok MNamed (sv_size sl) (sv_align sl) ->
  is_flex t = true ->
  Inv s p ->
  let '(s', ls', rs') := member_step false MNamed t ml (s, ls, rs) in
  let sv' := sv_struct_step MNamed t sl (mksv p al ls (map norm rs)) in
  used s' = bytes_of_bits (pos sv') /\ ls' = sleaves sv' /\ map norm rs' = smems sv'.
Proof.
  intros Hsz Hal Hlv (Hpos & Ha & Hmod & _) Hfl HI.
  unfold member_step. rewrite Hsz, Hal, Hlv.
  replace (sv_size sl =? 0) with false by lia.
  remember (sv_size sl) as sz. remember (sv_align sl) as a.
  cbn [member_bits Z.eqb andb].
  destruct (ufl_regular s p sz a HI Ha Hpos) as (Ho & Hb & Hbf & Hov & Hu & Hps).
  set (s1 := update_field_layout s sz a (-1)) in *.
  cbn [orb Z.ltb Z.leb Z.compare]. rewrite Hfl.
  unfold sv_struct_step. rewrite sv_is_flex_eq, Hfl. cbn [pos salign sleaves smems].
  rewrite <- ?Heqsz, <- ?Heqa, <- Ho.
  destruct HI as [Hp [Ho1 [Ho2 Ho3]] Hpp [Hov1 Hov2] Hus].
  assert (Hoff : bytes_of_bits p <= offset s1) by (rewrite Ho; apply align_up_mult; auto; unfold bytes_of_bits; lia).
  split; [|split].
  - cbn [used]. replace (offset s1 + 0) with (offset s1) by lia. rewrite bytes_of_bits_8.
    destruct (used s1 <? offset s1) eqn:E; lia.
  - reflexivity.
  - rewrite norm_app. reflexivity.
Qed.

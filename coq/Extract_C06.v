From Coq Require Import Extraction ExtrOcamlBasic List ZArith.
From MirV Require Import C05.SysV C05.AbiImpl.
Extraction Language OCaml.
Extraction "c06x.ml" assign stack_area al_ok wf_args result_locs narrow widen_result arg_words arg_obs image
  ff_assign ff_assign_head ff_sub_rsp ff_al mc_assign mc_assign_head mc_sub_rsp mc_al mc_al_head
  in_assign in_assign_head mc_results ff_results.

From Coq Require Import Extraction ExtrOcamlBasic List ZArith.
From MirV Require Import C05.SysV C05.AbiImpl C06.VaList C06.Frame.
Extraction Language OCaml.
Extraction "c06x.ml" assign stack_area al_ok wf_args result_locs narrow widen_result arg_words arg_obs image
  ff_assign ff_assign_head ff_sub_rsp ff_al mc_assign mc_assign_head mc_sub_rsp mc_al mc_al_head
  in_assign in_assign_head mc_results ff_results ret_results shim_results
  va_read_seq gen_va_start gen_va_start_head interp_decode va_of
  sub_sp save_list restore_list reg_save_stores slot_offset saved_regs block_size.

From Coq Require Import Extraction ExtrOcamlBasic List ZArith.
From MirV Require Import Mir.DocSpec Mir.DocSpecLD Mir.CExpr C02.RowCheck C02.Table C02.GvnCheck gen.InterpTable gen.GvnFoldTable.
Extraction Language OCaml.
Extraction "c02x.ml" doc_sem doc_branch doc_ovf ovf_defined doc_ovf_branch res_kind arg_kinds res_mask eqv
  has_doc_sem load_ext store_trunc opcode_of_num opcode_num
  stmt_value stmt_branch stmt_ovf env_of flag_env row_ok interp_table gvn_row_ok gvn_table doc_sem_ld ld_is_nan.

(* Property C11: binary MIR written by MIR_write reads back as the same module, deterministically.
   Only the property theorems, each closed by [exact] and followed by Print Assumptions. *)
From Coq Require Import List ZArith NArith.
From MirV Require Import Base.W64 C11.Ast C11.BinIO C11.BinIOProofs.
Local Open Scope Z_scope.

Theorem bin_le_bytes_roundtrip : forall n u, 0 <= u -> le_val (le_bytes n u) = u mod 256 ^ Z.of_nat n.
Proof. exact le_val_le_bytes. Qed.
Print Assumptions bin_le_bytes_roundtrip.

(* Property C11: binary MIR written by MIR_write reads back as the same module, deterministically.
   Only the property theorems, each closed by [exact] and followed by Print Assumptions.
   Model: coq/C11/BinIO.v (writer write_ctx = MIR_write_with_func below the compression layer, reader
   read_ctx = MIR_read_with_func), coq/C11/Ast.v.  Statements are about *all* contexts (lists of
   modules) meeting the explicit hypotheses [wf_ctx] (BinRoundtrip.v), decidable by [wf_ctx_b]. *)
From Coq Require Import List ZArith NArith.
From MirV Require Import Base.W64 C11.Ast C11.BinIO C11.BinIOProofs C11.BinGrammarProofs C11.BinRoundtrip C11.BinWfDec
  C11.BinExamples C11.TempNames C11.BinWriteSets C10.TextOut C10.TextProofs.
From MirV Require C11.LabelIdentity.
Import ListNotations.
Local Open Scope Z_scope.

(* Every token kind and every value survives the byte codec: unsigned/signed integers of any 64-bit
   pattern (variable-length TAG_U0|0x80, TAG_U1..8, TAG_I1..8 with zero-extending get_int), float and
   double bit patterns (NaN payloads included), all 128 bits of a long double token, 1..4-byte
   string / register / name / label numbers, the 14 memory tags, type tags, EOI, EOFILE; and the
   decoder consumes exactly the token's bytes. *)
Theorem bin_token_roundtrip : forall b rest, wf_btok b -> dec_tok (enc_tok b ++ rest) = Some (b, rest).
Proof. exact bin_token_roundtrip_lemma. Qed.
Print Assumptions bin_token_roundtrip.

(* Two-pass string table: every string the second pass looks up was stored by the first pass, and its
   first-occurrence index leads back to it. *)
Theorem bin_string_table_complete : forall ts t e,
  In t ts -> entry_of t = Some e ->
  In e (collect ts) /\ nth_error (collect ts) (index_of e (collect ts)) = Some e.
Proof. exact bin_string_table_complete_full. Qed.
Print Assumptions bin_string_table_complete.

(* The table of an image holds exactly the strings of the tokens of the module set written, each once:
   nothing of what the context wrote before (MIR_write_module_with_func builds and destroys the table
   inside the call), so the header - string count, strings, and with them every index in the body - is a
   function of the modules written.  The correspondence check compares the bytes of every image
   (all modules; every module on its own; first write of the context and after other writes) with it. *)
Theorem bin_string_table_exact : forall ts,
  (forall e, In e (collect ts) <-> exists t, In t ts /\ entry_of t = Some e) /\ NoDup (collect ts).
Proof. exact bin_string_table_exact_lemma. Qed.
Print Assumptions bin_string_table_exact.

(* a table that survived an earlier write (pass 1 starting from [tbl0]) is not the table of a fresh
   write as soon as it holds one string the current module set does not use *)
Theorem bin_string_table_stale_differs : forall tbl0 ts e,
  In e tbl0 -> (forall t, In t ts -> entry_of t <> Some e) -> collect_from tbl0 ts <> collect ts.
Proof. exact collect_from_stale. Qed.
Print Assumptions bin_string_table_stale_differs.

(* Reading what the writer wrote recreates the modules up to the normal form [norm_module] (scale of
   an index-less memory operand, size field of a non-block argument: both invisible to either
   writer), i.e. the result prints to the same text and serialises to the same bytes; nothing else
   changes: all immediates bit for bit, labels (lref items included) by number, item order, names. *)
Theorem bin_module_roundtrip : forall ms, wf_ctx ms ->
  read_ctx (write_ctx ms) = Ok (map norm_module ms)
  /\ write_ctx (map norm_module ms) = write_ctx ms
  /\ (forall fF fD fLD, p_ctx fF fD fLD (map norm_module ms) = p_ctx fF fD fLD ms)
  /\ map norm_module (map norm_module ms) = map norm_module ms.
Proof. exact bin_module_roundtrip_lemma. Qed.
Print Assumptions bin_module_roundtrip.

(* the same with the hypotheses as one computable check (run on every generated module) *)
Theorem bin_module_roundtrip_checked : forall ms, wf_ctx_b ms = true ->
  read_ctx (write_ctx ms) = Ok (map norm_module ms).
Proof. exact read_write_ctx_b. Qed.
Print Assumptions bin_module_roundtrip_checked.

(* Determinism in the model: the bytes are a function of the module's normal form (no dependence on
   anything else, in particular not on what a previous read normalised away). *)
Theorem bin_write_function : forall ms1 ms2,
  map norm_module ms1 = map norm_module ms2 -> write_ctx ms1 = write_ctx ms2.
Proof. exact bin_write_function_lemma. Qed.
Print Assumptions bin_write_function.

(* non-vacuity: the hypotheses hold for a context with every item kind and operand form *)
Theorem bin_roundtrip_nonvacuous : wf_ctx ex_ctx /\ map norm_module ex_ctx <> ex_ctx.
Proof. exact bin_roundtrip_nonvacuous_lemma. Qed.
Print Assumptions bin_roundtrip_nonvacuous.

(* Temporary-name counters restored from reserved names (process_reserved_name in to_reg / read_name):
   after MIR_read_with_func the counter module->last_temp_item_num ([bin_item_counter], a function of
   the names the reader passes to read_name; compared with the implementation on every generated
   module) is at least the number k of every item named ".lc<k>" in the module, hence the next name
   _MIR_get_temp_item_name generates is not the name of an item (no "Repeated item declaration" when
   the module read back is loaded and simplification creates data for a float/string immediate); the
   counter is the same for the module written and the normalised module the reader returns. *)
Theorem bin_temp_counter_fresh : forall m it, In it (mod_items m) ->
  (forall k, 0 <= k < 2 ^ 32 -> item_name it = Some (temp_item_name k) -> k <= bin_item_counter m)
  /\ (bin_item_counter m + 1 < 2 ^ 32 -> item_name it <> Some (temp_item_name (bin_item_counter m + 1)))
  /\ bin_item_counter (norm_module m) = bin_item_counter m.
Proof. exact bin_temp_counter_lemma. Qed.
Print Assumptions bin_temp_counter_fresh.

(* Label identity (C11/LabelIdentity.v): text and bytes name a label by number, in memory operands and lref items
   point to the label insn.  The reader resolves EVERY mention of a number - operands, lref labels, label insns
   inside a function and the labels that end a function (appended at `endfunc`) - through its module-wide table
   (to_lab).  For every sequence of placements (trailing or not) and references of a module: all mentions of one
   number are one object, and in a module that places every number it mentions each reference is attached to a
   label insn of the module ("label references stay attached to their labels").  The harness checks exactly this
   statement on the implementation through the API (fields LI0/LI1/LIM) and by loading, linking and interpreting the
   module read back. *)
Theorem bin_label_number_one_object : forall evs n id1 id2,
  In (n, id1) (LabelIdentity.refs (LabelIdentity.run true evs)) -> In (n, id2) (LabelIdentity.placed (LabelIdentity.run true evs)) -> id1 = id2.
Proof. exact LabelIdentity.label_number_one_object_l. Qed.
Print Assumptions bin_label_number_one_object.

Theorem bin_label_refs_attached : forall evs, LabelIdentity.closed evs ->
  forall n id, In (n, id) (LabelIdentity.refs (LabelIdentity.run true evs)) -> In (n, id) (LabelIdentity.placed (LabelIdentity.run true evs)).
Proof. exact LabelIdentity.label_refs_attached_l. Qed.
Print Assumptions bin_label_refs_attached.

(* A reader that makes the labels ending a function with create_label (no table entry) detaches a reference from its
   label insn in a module that places every number it mentions. *)
Theorem bin_trailing_create_label_refuted :
  exists evs, LabelIdentity.closed evs /\ exists n id, In (n, id) (LabelIdentity.refs (LabelIdentity.run false evs)) /\ ~ In (n, id) (LabelIdentity.placed (LabelIdentity.run false evs)).
Proof. exact LabelIdentity.trailing_create_label_detaches. Qed.
Print Assumptions bin_trailing_create_label_refuted.

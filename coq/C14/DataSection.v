(* C14: executable model of how MIR_load_module lays out data/bss/ref/lref/expr items in sections
   (mir.c load_bss_data_section 1800-1879, called from the item loop 1918-1927) and of the link-time
   initialisation of ref and expr items (mir.c MIR_link 2031-2058).  Definitions only.

   load_bss_data_section is called on the first data-like item that has no address yet; it takes
   that item plus all directly following ANONYMOUS data-like items (size pass), allocates
   round_up_8 (sum of sizes), and then walks the same items again assigning consecutive
   addresses (placement pass).  The model is one left-to-right pass carrying the currently open
   section (its head and the next free offset); [sec_alloc] is the size pass. *)
From Coq Require Import List Arith ZArith Bool.
From MirV Require Import Base.W64.
Import ListNotations.
Local Open Scope Z_scope.

Inductive ty := TI8 | TU8 | TI16 | TU16 | TI32 | TU32 | TI64 | TU64 | TF | TD | TLD | TP.

(* _MIR_type_size on x86-64 Linux *)
Definition tsize (t : ty) : nat :=
  match t with
  | TI8 | TU8 => 1 | TI16 | TU16 => 2 | TI32 | TU32 | TF => 4
  | TI64 | TU64 | TD | TP => 8 | TLD => 16
  end%nat.

(* bodies of expression functions (no calls, no memory): 64-bit integer expressions, or a
   floating constant given by its bit pattern *)
Inductive expr :=
| EConst (z : Z)
| EAddr (i : nat)                      (* mov r, <ref to item i> *)
| EAdd (a b : expr) | ESub (a b : expr) | EMul (a b : expr)
| EAnd (a b : expr) | EOr (a b : expr) | EXor (a b : expr)
| ENeg (a : expr)
| EExt (bits : Z) (a : expr)           (* EXT8/16/32 *)
| EUext (bits : Z) (a : expr)          (* UEXT8/16/32 *)
| EShl (a : expr) (k : Z) | EShr (a : expr) (k : Z) | ESar (a : expr) (k : Z)
| EFlt (bits : Z)                      (* fmov/dmov/ldmov r, const ; ret r *)
| ELoad (a : expr).                    (* mov r, i64:(a): makes the function unusable as an expression *)

Inductive okind :=
| OImport                              (* address supplied by the link environment *)
| OProto                               (* no address *)
| OAlias (def : nat).                  (* forward/export: takes the address of its definition *)

Inductive item :=
| IData (nm : option nat) (t : ty) (els : list Z)      (* element bit patterns *)
| IBss (nm : option nat) (len : nat)
| IRef (nm : option nat) (target : nat) (disp : Z)
| ILref (nm : option nat) (l1 : nat) (l2 : option nat) (disp : Z)
| IExpr (nm : option nat) (fn : nat)
| IFunc (rt : ty) (body : expr)
| IGFunc                               (* the function that contains the labels lrefs refer to *)
| IOther (k : okind).

Definition is_data_like (it : item) : bool :=
  match it with IData _ _ _ | IBss _ _ | IRef _ _ _ | ILref _ _ _ _ | IExpr _ _ => true | _ => false end.

Definition item_name (it : item) : option nat :=
  match it with
  | IData nm _ _ | IBss nm _ | IRef nm _ _ | ILref nm _ _ _ | IExpr nm _ => nm
  | _ => None
  end.

Definition is_named (it : item) : bool := match item_name it with Some _ => true | None => false end.

(* size of an item inside its section *)
Definition size_of (all : list item) (it : item) : nat :=
  match it with
  | IData _ t els => (length els * tsize t)%nat
  | IBss _ len => len
  | IRef _ _ _ | ILref _ _ _ _ => tsize TP
  | IExpr _ fn => match nth_error all fn with Some (IFunc rt _) => tsize rt | _ => 0%nat end
  | _ => 0%nat
  end.

Record place := { p_head : nat; p_off : nat }.

(* the item loop of MIR_load_module + load_bss_data_section: [i] is the index of the head of
   [items]; [cur] is the open section (head index, next free offset) or None *)
Fixpoint layout_from (all items : list item) (i : nat) (cur : option (nat * nat)) : list (option place) :=
  match items with
  | [] => []
  | it :: rest =>
      if is_data_like it then
        match cur, is_named it with
        | Some (h, off), false =>
            Some {| p_head := h; p_off := off |}
                 :: layout_from all rest (S i) (Some (h, (off + size_of all it)%nat))
        | _, _ =>
            Some {| p_head := i; p_off := 0 |} :: layout_from all rest (S i) (Some (i, size_of all it))
        end
      else None :: layout_from all rest (S i) None
  end.

Definition layout (all : list item) : list (option place) := layout_from all all 0 None.

Definition place_of (all : list item) (i : nat) : option place :=
  match nth_error (layout all) i with Some p => p | None => None end.

(* members of the section headed by h: h itself and the following anonymous data-like items *)
Fixpoint anon_run (items : list item) : list item :=
  match items with
  | it :: rest => if is_data_like it && negb (is_named it) then it :: anon_run rest else []
  | [] => []
  end.

Definition members (all : list item) (h : nat) : list item :=
  match skipn h all with
  | it :: rest => if is_data_like it then it :: anon_run rest else []
  | [] => []
  end.

Definition sum_sizes (all : list item) (l : list item) : nat :=
  fold_right (fun it acc => (size_of all it + acc)%nat) 0%nat l.

Definition round8 (n : nat) : nat := if Nat.eqb (n mod 8) 0 then n else (n + (8 - n mod 8))%nat.

(* the size pass: what is malloc'ed for the section headed by h *)
Definition sec_alloc (all : list item) (h : nat) : nat := round8 (sum_sizes all (members all h)).

(* ---------------------------------------------------------------- addresses and contents *)

(* little-endian bytes of the low n bytes of v *)
Fixpoint le_bytes (n : nat) (v : Z) : list Z :=
  match n with
  | O => []
  | S n' => (v mod 256) :: le_bytes n' (v / 256)
  end.

Fixpoint decode_le (bs : list Z) : Z :=
  match bs with
  | [] => 0
  | b :: r => b + 256 * decode_le r
  end.

Section WithAddresses.
  (* addresses handed out by the allocator / thunk pool / link environment: for a section head,
     a function or an import, by item index *)
  Variable base : nat -> Z.
  (* addresses of the labels of the label-holding function, as the executing engine defines them
     once the function is prepared for execution *)
  Variable lab : nat -> Z.

  Definition addr_of (all : list item) (i : nat) : Z :=
    match nth_error all i with
    | Some (IOther OProto) => 0
    | Some (IOther (OAlias d)) =>
        match place_of all d with
        | Some p => base (p_head p) + Z.of_nat (p_off p)
        | None => match nth_error all d with Some (IOther _) | None => 0 | _ => base d end
        end
    | Some _ =>
        match place_of all i with
        | Some p => base (p_head p) + Z.of_nat (p_off p)
        | None => base i
        end
    | None => 0
    end.

  Fixpoint eval (all : list item) (e : expr) : Z :=
    match e with
    | EConst z => u64 z
    | EAddr i => u64 (addr_of all i)
    | EAdd a b => u64 (eval all a + eval all b)
    | ESub a b => u64 (eval all a - eval all b)
    | EMul a b => u64 (eval all a * eval all b)
    | EAnd a b => Z.land (eval all a) (eval all b)
    | EOr a b => Z.lor (eval all a) (eval all b)
    | EXor a b => Z.lxor (eval all a) (eval all b)
    | ENeg a => u64 (- eval all a)
    | EExt bits a => u64 (swrap bits (eval all a))
    | EUext bits a => uwrap bits (eval all a)
    | EShl a k => shl 64 (eval all a) k
    | EShr a k => lshr 64 (eval all a) k
    | ESar a k => u64 (ashr 64 (eval all a) k)
    | EFlt bits => bits
    | ELoad _ => 0                     (* never evaluated at link: see load_check *)
    end.

  (* a byte of memory after load+link (and, for label references, after the function was prepared
     for execution): Some b, or None where nothing is specified (the padding of an x87 long double
     stored by value) *)
  Definition known (l : list Z) : list (option Z) := map Some l.

  Definition content (all : list item) (it : item) : list (option Z) :=
    match it with
    | IData _ t els => known (flat_map (le_bytes (tsize t)) els)
    | IBss _ len => repeat (Some 0) len
    | IRef _ target disp => known (le_bytes 8 (u64 (addr_of all target + disp)))
    | ILref _ l1 None disp => known (le_bytes 8 (u64 (lab l1 + disp)))
    | ILref _ l1 (Some l2) disp => known (le_bytes 8 (u64 (lab l1 - lab l2 + disp)))
    | IExpr _ fn =>
        match nth_error all fn with
        | Some (IFunc TLD body) => known (le_bytes 10 (eval all body)) ++ repeat None 6
        | Some (IFunc rt body) => known (le_bytes (tsize rt) (eval all body))
        | _ => []
        end
    | _ => []
    end.

  (* memory image of the section headed by h (without the rounding padding) *)
  Definition image (all : list item) (h : nat) : list (option Z) :=
    flat_map (content all) (members all h).

  Definition slice {A} (l : list A) (off len : nat) : list A := firstn len (skipn off l).

  (* ---- memory as the code writes it: one write per placed item - data and bss by
     load_bss_data_section's placement pass, ref and expr by MIR_link, lref by the engine that
     prepares the function -, at the address the placement pass gave the item *)
  Record wr := { w_idx : nat; w_addr : Z; w_bytes : list (option Z) }.

  Definition item_write (all : list item) (i : nat) : option wr :=
    match nth_error all i, place_of all i with
    | Some it, Some p =>
        Some {| w_idx := i; w_addr := base (p_head p) + Z.of_nat (p_off p); w_bytes := content all it |}
    | _, _ => None
    end.

  Definition item_writes (all : list item) : list wr :=
    flat_map (fun i => match item_write all i with Some w => [w] | None => [] end) (seq 0 (length all)).
End WithAddresses.

(* a byte of memory: None = never written by the module's initialisation, Some None = written but
   unspecified (x87 padding), Some (Some b) = written with b *)
Definition mem := Z -> option (option Z).

Definition write (m : mem) (a : Z) (bs : list (option Z)) : mem :=
  fun x => if (a <=? x) && (x <? a + Z.of_nat (length bs)) then nth_error bs (Z.to_nat (x - a)) else m x.

Fixpoint apply_writes (ws : list wr) (m : mem) : mem :=
  match ws with
  | [] => m
  | w :: r => apply_writes r (write m (w_addr w) (w_bytes w))
  end.

(* what the allocator has to guarantee: the blocks of different sections do not overlap (as far as
   they are used) *)
Definition blocks_disjoint (base : nat -> Z) (all : list item) : Prop :=
  forall h1 h2, h1 <> h2 ->
    place_of all h1 = Some {| p_head := h1; p_off := 0 |} ->
    place_of all h2 = Some {| p_head := h2; p_off := 0 |} ->
    base h1 + Z.of_nat (sum_sizes all (members all h1)) <= base h2 \/
    base h2 + Z.of_nat (sum_sizes all (members all h2)) <= base h1.

(* ---------------------------------------------------------------- load-time checks *)

(* MIR_finish_func's expr_p: no call and no memory operand *)
Fixpoint expr_ok (e : expr) : bool :=
  match e with
  | EConst _ | EAddr _ | EFlt _ => true
  | EAdd a b | ESub a b | EMul a b | EAnd a b | EOr a b | EXor a b => expr_ok a && expr_ok b
  | ENeg a | EExt _ a | EUext _ a | EShl a _ | EShr a _ | ESar a _ => expr_ok a
  | ELoad _ => false
  end.

Inductive lerr := EBinaryIO | EWrongLref.

(* load_bss_data_section rejects an expr item whose function is not an expression function
   (binary_io_error, raised in the size pass, i.e. in item order before anything later is placed);
   link_module_lrefs, after the item loop, rejects an lref whose label is in no function of the
   module (wrong_lref_error) *)
Definition expr_item_ok (all : list item) (it : item) : bool :=
  match it with
  | IExpr _ fn => match nth_error all fn with Some (IFunc _ body) => expr_ok body | _ => false end
  | _ => true
  end.

Definition is_lref (it : item) : bool := match it with ILref _ _ _ _ => true | _ => false end.
Definition is_gfunc (it : item) : bool := match it with IGFunc => true | _ => false end.

Definition load_check (all : list item) : option lerr :=
  if negb (forallb (expr_item_ok all) all) then Some EBinaryIO
  else if existsb is_lref all && negb (existsb is_gfunc all) then Some EWrongLref
  else None.

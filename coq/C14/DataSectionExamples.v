(* C14: non-vacuity examples (vm_compute tests, not the theorems) *)
From Coq Require Import List Arith ZArith Bool.
From MirV Require Import Base.W64 C14.DataSection C14.DataSectionProofs.
Import ListNotations.

(* a: i32 1,2,3 ; u8 0xff ; bss 3 ; b: i64 .. ; ref a+4 ; import ; c: ref import-8 *)
Definition m1 : list item :=
  [IData (Some 0) TI32 [1; 2; 3]%Z; IData None TU8 [255%Z]; IBss None 3;
   IData (Some 1) TI64 [1234605616436508552%Z]; IRef None 0 4%Z; IOther OImport;
   IRef (Some 2) 5 18446744073709551608%Z].

Definition base1 (i : nat) : Z :=
  match i with 0 => 4096%Z | 3 => 8192%Z | 5 => 65536%Z | 6 => 12288%Z | _ => 0%Z end.

Example m1_layout :
  layout m1 = [Some {| p_head := 0; p_off := 0 |}; Some {| p_head := 0; p_off := 12 |};
               Some {| p_head := 0; p_off := 13 |}; Some {| p_head := 3; p_off := 0 |};
               Some {| p_head := 3; p_off := 8 |}; None; Some {| p_head := 6; p_off := 0 |}].
Proof. vm_compute. reflexivity. Qed.

Example m1_alloc : map (sec_alloc m1) [0; 3; 6] = [16; 16; 8].
Proof. vm_compute. reflexivity. Qed.

Example m1_image0 :
  image base1 (fun _ => 0%Z) m1 0 = map Some [1; 0; 0; 0; 2; 0; 0; 0; 3; 0; 0; 0; 255; 0; 0; 0]%Z.
Proof. vm_compute. reflexivity. Qed.

(* the ref at item 4 holds address(a) + 4 = 4100; the ref at item 6 holds import - 8 *)
Example m1_refs :
  decode_le (le_bytes 8 (u64 (addr_of base1 m1 0 + 4))) = 4100%Z /\
  slice (image base1 (fun _ => 0%Z) m1 3) 8 8 = map Some (le_bytes 8 4100%Z) /\
  slice (image base1 (fun _ => 0%Z) m1 6) 0 8 = map Some (le_bytes 8 65528%Z).
Proof. vm_compute. repeat split; reflexivity. Qed.

(* expression data: i16 result of 0x12345 + 0xffff is truncated to 0x2344 *)
Definition m2 : list item :=
  [IFunc TI16 (EAdd (EConst 74565) (EConst 65535)); IData (Some 0) TU8 [1%Z]; IExpr None 0].

Example m2_expr :
  layout m2 = [None; Some {| p_head := 1; p_off := 0 |}; Some {| p_head := 1; p_off := 1 |}] /\
  image (fun _ => 0%Z) (fun _ => 0%Z) m2 1 = map Some [1; 68; 35]%Z /\ sec_alloc m2 1 = 8.
Proof. vm_compute. repeat split; reflexivity. Qed.

(* ---- memory after the writes: the hypotheses of memory_after_writes are satisfiable *)
Definition lab0 : nat -> Z := fun _ => 0%Z.

Example m1_blocks : blocks_disjoint base1 m1.
Proof.
  intros h1 h2 Hne H1 H2.
  assert (A : forall h, place_of m1 h = Some {| p_head := h; p_off := 0 |} -> h = 0 \/ h = 3 \/ h = 6).
  { intros h H. do 7 (destruct h as [|h]; [vm_compute in H; try discriminate; auto|]).
    destruct h; vm_compute in H; discriminate. }
  destruct (A _ H1) as [|[|]], (A _ H2) as [|[|]]; subst; try contradiction;
    vm_compute; first [left; discriminate | right; discriminate].
Qed.

Example m1_writes_once : NoDup (map w_idx (item_writes base1 lab0 m1)).
Proof. vm_compute. repeat (constructor; [simpl; intuition discriminate|]). constructor. Qed.

(* written back to front, the result is the same: byte 12 of section 0 is the u8 255, the ref at
   section 3 offset 8 holds 4100 = 0x1004, the byte after the last item of section 0 is untouched *)
Example m1_memory :
  let ws := rev (item_writes base1 lab0 m1) in
  let m := apply_writes ws (fun _ => None) in
  m 4108%Z = Some (Some 255%Z) /\ m 8200%Z = Some (Some 4%Z) /\ m 8201%Z = Some (Some 16%Z) /\
  m 4112%Z = None /\ m 4111%Z = Some (Some 0%Z).
Proof. vm_compute. repeat split; reflexivity. Qed.

(* sections hold exactly their members, items do not overlap *)
Example m1_members : length (members m1 0) = 3 /\ length (members m1 3) = 2 /\ length (members m1 6) = 1.
Proof. vm_compute. repeat split; reflexivity. Qed.

(* C14: proofs about the model in DataSection.v *)
From Coq Require Import List Arith ZArith Bool Lia.
From MirV Require Import Base.W64 C14.DataSection.
Import ListNotations.

(* ------------------------------------------------------------ one step of the item loop *)

Definition step_cur (all : list item) (i : nat) (cur : option (nat * nat)) (it : item)
  : option place * option (nat * nat) :=
  if is_data_like it then
    match cur, is_named it with
    | Some (h, off), false =>
        (Some {| p_head := h; p_off := off |}, Some (h, off + size_of all it))
    | _, _ => (Some {| p_head := i; p_off := 0 |}, Some (i, size_of all it))
    end
  else (None, None).

Lemma layout_from_cons all it rest i cur :
  layout_from all (it :: rest) i cur
  = fst (step_cur all i cur it) :: layout_from all rest (S i) (snd (step_cur all i cur it)).
Proof.
  unfold step_cur. simpl. destruct (is_data_like it); [|reflexivity].
  destruct cur as [[h off]|]; [destruct (is_named it)|]; reflexivity.
Qed.

(* the open section just before the k-th element of [items] is processed *)
Fixpoint cur_before (all items : list item) (i : nat) (cur : option (nat * nat)) (k : nat)
  {struct k} : option (nat * nat) :=
  match k, items with
  | O, _ => cur
  | S k', x :: r => cur_before all r (S i) (snd (step_cur all i cur x)) k'
  | S _, [] => cur
  end.

Lemma nth_layout_from all : forall items i cur k it,
  nth_error items k = Some it ->
  nth_error (layout_from all items i cur) k
  = Some (fst (step_cur all (i + k) (cur_before all items i cur k) it)).
Proof.
  induction items as [|x r IH]; intros i cur k it H.
  - destruct k; discriminate.
  - rewrite layout_from_cons. destruct k as [|k]; simpl in *.
    + inversion H; subst. rewrite Nat.add_0_r. reflexivity.
    + rewrite (IH (S i) _ k it H). replace (i + S k) with (S i + k) by lia. reflexivity.
Qed.

Lemma cur_before_S all : forall items i cur k x,
  nth_error items k = Some x ->
  cur_before all items i cur (S k) = snd (step_cur all (i + k) (cur_before all items i cur k) x).
Proof.
  induction items as [|y r IH]; intros i cur k x H.
  - destruct k; discriminate.
  - destruct k as [|k]; simpl in *.
    + inversion H; subst. rewrite Nat.add_0_r. reflexivity.
    + rewrite (IH (S i) _ k x H). replace (i + S k) with (S i + k) by lia. reflexivity.
Qed.

Lemma layout_length all : forall items i cur, length (layout_from all items i cur) = length items.
Proof.
  induction items as [|x r IH]; intros; [reflexivity|].
  rewrite layout_from_cons. simpl. rewrite IH. reflexivity.
Qed.

Definition cb (all : list item) (k : nat) : option (nat * nat) := cur_before all all 0 None k.

Lemma place_of_step all i it :
  nth_error all i = Some it -> place_of all i = fst (step_cur all i (cb all i) it).
Proof.
  intro H. unfold place_of, layout. rewrite (nth_layout_from all all 0 None i it H). reflexivity.
Qed.

Lemma place_of_out all i : nth_error all i = None -> place_of all i = None.
Proof.
  intro H. unfold place_of, layout.
  assert (L : nth_error (layout_from all all 0 None) i = None).
  { apply nth_error_None. rewrite layout_length. apply nth_error_None. exact H. }
  rewrite L. reflexivity.
Qed.

Lemma cb_S all i it : nth_error all i = Some it -> cb all (S i) = snd (step_cur all i (cb all i) it).
Proof. intro H. unfold cb. rewrite (cur_before_S all all 0 None i it H). reflexivity. Qed.

(* ------------------------------------------------------------ the three layout rules *)

(* every data-like item is placed, nothing else is *)
Lemma section_partition_proof all i :
  place_of all i = None <-> ~ (exists it, nth_error all i = Some it /\ is_data_like it = true).
Proof.
  destruct (nth_error all i) as [it|] eqn:H.
  - rewrite (place_of_step all i it H). unfold step_cur.
    destruct (is_data_like it) eqn:Hd.
    + split.
      * destruct (cb all i) as [[h off]|]; [destruct (is_named it)|]; discriminate.
      * intro N. exfalso. apply N. exists it. split; [reflexivity | exact Hd].
    + split; [|reflexivity]. intros _ (x & Hx & Hdx). inversion Hx; subst. rewrite Hd in Hdx. discriminate.
  - rewrite (place_of_out all i H). split; [|reflexivity].
    intros _ (x & Hx & _). discriminate.
Qed.

(* a named data-like item, the first item, and a data-like item after a non-data item start a
   section at offset 0 *)
Lemma section_head_starts_proof all i it :
  nth_error all i = Some it -> is_data_like it = true ->
  (is_named it = true \/ i = 0 \/
   exists prev, nth_error all (i - 1) = Some prev /\ is_data_like prev = false) ->
  place_of all i = Some {| p_head := i; p_off := 0 |}.
Proof.
  intros H Hd Hc. rewrite (place_of_step all i it H). unfold step_cur. rewrite Hd.
  destruct Hc as [Hn | [Hz | (prev & Hp & Hpd)]].
  - rewrite Hn. destruct (cb all i) as [[h off]|]; reflexivity.
  - subst i. unfold cb. simpl. reflexivity.
  - destruct i as [|j]; [unfold cb; simpl; reflexivity|].
    replace (S j - 1) with j in Hp by lia.
    rewrite (cb_S all j prev Hp). unfold step_cur at 1. rewrite Hpd. simpl. reflexivity.
Qed.

(* an anonymous data-like item directly after a placed item continues that item's section at the
   next byte *)
Lemma section_contiguous_proof all i p it it' :
  nth_error all i = Some it -> place_of all i = Some p ->
  nth_error all (S i) = Some it' -> is_data_like it' = true -> is_named it' = false ->
  place_of all (S i) = Some {| p_head := p_head p; p_off := p_off p + size_of all it |}.
Proof.
  intros H Hp H' Hd' Hn'.
  rewrite (place_of_step all (S i) it' H'). rewrite (cb_S all i it H).
  rewrite (place_of_step all i it H) in Hp.
  unfold step_cur in *. destruct (is_data_like it) eqn:Hd; [|discriminate].
  rewrite Hd', Hn'.
  destruct (cb all i) as [[h off]|]; [destruct (is_named it)|]; simpl in *;
    inversion Hp; subst; simpl; reflexivity.
Qed.

(* ------------------------------------------------------------ list helpers *)

Lemma skipn_nth_cons {A} (l : list A) : forall n x, nth_error l n = Some x -> skipn n l = x :: skipn (S n) l.
Proof.
  induction l as [|y l IH]; intros n x H; destruct n; simpl in *; try discriminate.
  - inversion H; reflexivity.
  - apply IH. exact H.
Qed.

Lemma nth_error_skipn {A} (l : list A) : forall n d, nth_error (skipn n l) d = nth_error l (n + d).
Proof.
  induction l as [|y l IH]; intros n d; destruct n; simpl; try reflexivity.
  - destruct d; reflexivity.
  - apply IH.
Qed.

Lemma firstn_S_nth {A} (l : list A) : forall d x, nth_error l d = Some x -> firstn (S d) l = firstn d l ++ [x].
Proof.
  induction l as [|y l IH]; intros d x H; destruct d; simpl in *; try discriminate.
  - inversion H; reflexivity.
  - f_equal. apply IH. exact H.
Qed.

Definition anon (it : item) : bool := is_data_like it && negb (is_named it).

Lemma anon_run_nth l : forall d x,
  nth_error (anon_run l) d = Some x <->
  nth_error l d = Some x /\ forall d', d' <= d -> exists y, nth_error l d' = Some y /\ anon y = true.
Proof.
  induction l as [|y l IH]; intros d x; simpl.
  - split; [destruct d; discriminate | intros [H _]; destruct d; discriminate].
  - fold (anon y). destruct (anon y) eqn:Hy.
    + destruct d as [|d]; simpl.
      * split.
        -- intro H. split; [exact H|]. intros d' Hd'. assert (d' = 0) by lia. subst. exists y. split; [reflexivity | exact Hy].
        -- intros [H _]. exact H.
      * rewrite IH. split.
        -- intros [H1 H2]. split; [exact H1|]. intros d' Hd'. destruct d' as [|d'].
           ++ exists y. split; [reflexivity | exact Hy].
           ++ simpl. apply H2. lia.
        -- intros [H1 H2]. split; [exact H1|]. intros d' Hd'. specialize (H2 (S d') ltac:(lia)). exact H2.
    + split; [destruct d; discriminate|]. intros [_ H2]. destruct (H2 0 ltac:(lia)) as (z & Hz & Hz').
      simpl in Hz. inversion Hz; subst. rewrite Hy in Hz'. discriminate.
Qed.

Lemma sum_sizes_app all l1 l2 : sum_sizes all (l1 ++ l2) = sum_sizes all l1 + sum_sizes all l2.
Proof. induction l1 as [|x l1 IH]; simpl; [reflexivity | rewrite IH; lia]. Qed.

Lemma sum_sizes_firstn_S all l d x :
  nth_error l d = Some x -> sum_sizes all (firstn (S d) l) = sum_sizes all (firstn d l) + size_of all x.
Proof. intro H. rewrite (firstn_S_nth l d x H), sum_sizes_app. simpl. lia. Qed.

Lemma sum_sizes_firstn_le all l : forall d x,
  nth_error l d = Some x -> sum_sizes all (firstn d l) + size_of all x <= sum_sizes all l.
Proof.
  induction l as [|y l IH]; intros d x H; destruct d; simpl in *; try discriminate.
  - inversion H; subst. lia.
  - specialize (IH d x H). lia.
Qed.

(* ------------------------------------------------------------ size pass vs placement pass *)

Lemma members_head all h ith :
  nth_error all h = Some ith -> is_data_like ith = true ->
  members all h = ith :: anon_run (skipn (S h) all).
Proof. intros H Hd. unfold members. rewrite (skipn_nth_cons all h ith H), Hd. reflexivity. Qed.

(* walking forward from a head: the d-th member is item h+d and sits at the sum of the sizes of
   the members before it *)
Lemma run_forward all h ith :
  nth_error all h = Some ith -> is_data_like ith = true ->
  place_of all h = Some {| p_head := h; p_off := 0 |} ->
  forall d itd, nth_error (members all h) d = Some itd ->
    nth_error all (h + d) = Some itd /\
    place_of all (h + d) = Some {| p_head := h; p_off := sum_sizes all (firstn d (members all h)) |}.
Proof.
  intros Hh Hdl Hp. rewrite (members_head all h ith Hh Hdl).
  induction d as [|d IH]; intros itd Hd.
  - cbn [nth_error] in Hd. inversion Hd; subst. rewrite Nat.add_0_r. split; [exact Hh | exact Hp].
  - cbn [nth_error] in Hd. apply anon_run_nth in Hd. destruct Hd as [Hn Hall].
    rewrite nth_error_skipn in Hn. replace (S h + d) with (h + S d) in Hn by lia.
    split; [exact Hn|].
    (* the previous member *)
    assert (Hprev : exists y, nth_error (ith :: anon_run (skipn (S h) all)) d = Some y).
    { destruct d as [|d']; [exists ith; reflexivity|]. cbn [nth_error].
      destruct (Hall d' ltac:(lia)) as (y & Hy & Hay). exists y. apply anon_run_nth. split; [exact Hy|].
      intros d'' Hd''. apply Hall. lia. }
    destruct Hprev as (y & Hy). destruct (IH y Hy) as [Hy1 Hy2].
    destruct (Hall d (le_n d)) as (z & Hz & Haz).
    rewrite nth_error_skipn in Hz. replace (S h + d) with (h + S d) in Hz by lia.
    rewrite Hn in Hz. inversion Hz; subst z.
    unfold anon in Haz. apply andb_true_iff in Haz. destruct Haz as [Hzd Hzn]. apply negb_true_iff in Hzn.
    replace (h + S d) with (S (h + d)) in * by lia.
    rewrite (section_contiguous_proof all (h + d) _ y itd Hy1 Hy2 Hn Hzd Hzn). cbn [p_head p_off].
    rewrite (sum_sizes_firstn_S all _ d y Hy). reflexivity.
Qed.

(* walking backward: every placed item belongs to the run of its head, and the head is a head *)
Lemma placed_in_run all : forall i p it,
  nth_error all i = Some it -> place_of all i = Some p ->
  p_head p <= i /\
  (exists ith, nth_error all (p_head p) = Some ith /\ is_data_like ith = true) /\
  place_of all (p_head p) = Some {| p_head := p_head p; p_off := 0 |} /\
  nth_error (members all (p_head p)) (i - p_head p) = Some it.
Proof.
  induction i as [|j IH]; intros p it Hi Hp.
  - pose proof Hp as Hp0. rewrite (place_of_step all 0 it Hi) in Hp. unfold step_cur, cb in Hp. simpl in Hp.
    destruct (is_data_like it) eqn:Hd; [|discriminate]. inversion Hp; subst p. simpl.
    split; [lia|]. split; [exists it; split; assumption|]. split; [exact Hp0|].
    rewrite (members_head all 0 it Hi Hd). reflexivity.
  - pose proof Hp as Hp0. rewrite (place_of_step all (S j) it Hi) in Hp. unfold step_cur in Hp.
    destruct (is_data_like it) eqn:Hd; [|discriminate].
    assert (Hown : p = {| p_head := S j; p_off := 0 |} ->
                   S j <= S j /\ (exists ith, nth_error all (S j) = Some ith /\ is_data_like ith = true) /\
                   place_of all (S j) = Some {| p_head := S j; p_off := 0 |} /\
                   nth_error (members all (S j)) (S j - S j) = Some it).
    { intro E. subst p. split; [lia|]. split; [exists it; split; assumption|]. split; [exact Hp0|].
      rewrite (members_head all (S j) it Hi Hd), Nat.sub_diag. reflexivity. }
    destruct (cb all (S j)) as [[h off]|] eqn:Hcb.
    2:{ inversion Hp; subst p. cbn [p_head p_off]. apply Hown. reflexivity. }
    destruct (is_named it) eqn:Hn.
    { inversion Hp; subst p. cbn [p_head p_off]. apply Hown. reflexivity. }
    inversion Hp; subst p. cbn [p_head p_off]. clear Hown.
    (* the previous item opened or continued section h *)
    destruct (nth_error all j) as [itj|] eqn:Hj.
    2:{ exfalso. apply nth_error_None in Hj. assert (nth_error all (S j) = None) by (apply nth_error_None; lia).
        rewrite Hi in H. discriminate. }
    rewrite (cb_S all j itj Hj) in Hcb.
    assert (Hpj : exists pj, place_of all j = Some pj /\ p_head pj = h).
    { rewrite (place_of_step all j itj Hj). unfold step_cur in *.
      destruct (is_data_like itj); [|discriminate].
      destruct (cb all j) as [[h' off']|]; [destruct (is_named itj)|]; simpl in *; inversion Hcb; subst;
        eexists; split; reflexivity. }
    destruct Hpj as (pj & Hpj & Hhj). destruct (IH pj itj eq_refl Hpj) as (A1 & A2 & A3 & A4). rewrite Hhj in *.
    split; [lia|]. split; [exact A2|]. split; [exact A3|].
    destruct A2 as (ith & Hith & Hithd). rewrite (members_head all h ith Hith Hithd) in *.
    replace (S j - h) with (S (j - h)) by lia. cbn [nth_error]. apply anon_run_nth.
    rewrite nth_error_skipn. replace (S h + (j - h)) with (S j) by lia. split; [exact Hi|].
    intros d' Hd'. destruct (Nat.eq_dec d' (j - h)) as [E|NE].
    + subst d'. exists it. rewrite nth_error_skipn. replace (S h + (j - h)) with (S j) by lia.
      split; [exact Hi|]. unfold anon. rewrite Hd, Hn. reflexivity.
    + (* an earlier member: from membership of itj *)
      destruct (j - h) as [|e] eqn:Hjh; [lia|].
      cbn [nth_error] in A4. apply anon_run_nth in A4. destruct A4 as [_ A4]. apply A4. lia.
Qed.

Lemma offset_is_sum_proof all i p it :
  nth_error all i = Some it -> place_of all i = Some p ->
  p_off p = sum_sizes all (firstn (i - p_head p) (members all (p_head p))).
Proof.
  intros Hi Hp. destruct (placed_in_run all i p it Hi Hp) as (A1 & (ith & A2 & A2') & A3 & A4).
  destruct (run_forward all (p_head p) ith A2 A2' A3 (i - p_head p) it A4) as [_ B].
  replace (p_head p + (i - p_head p)) with i in B by lia. rewrite Hp in B. inversion B as [E].
  rewrite E at 1. reflexivity.
Qed.

Lemma round8_bounds n : n <= round8 n /\ round8 n < n + 8 /\ round8 n mod 8 = 0.
Proof.
  unfold round8. pose proof (Nat.mod_upper_bound n 8 ltac:(lia)) as Hb.
  destruct (Nat.eqb (n mod 8) 0) eqn:E.
  - apply Nat.eqb_eq in E. lia.
  - apply Nat.eqb_neq in E. split; [lia|]. split; [lia|].
    pose proof (Nat.div_mod n 8 ltac:(lia)) as Hdm.
    replace (n + (8 - n mod 8)) with ((n / 8 + 1) * 8) by lia. apply Nat.mod_mul. lia.
Qed.

(* what the size pass allocates covers everything the placement pass writes, wastes < 8 bytes *)
Lemma section_size_covers_proof all i p it :
  nth_error all i = Some it -> place_of all i = Some p ->
  p_off p + size_of all it <= sum_sizes all (members all (p_head p)) /\
  sum_sizes all (members all (p_head p)) <= sec_alloc all (p_head p) /\
  sec_alloc all (p_head p) < sum_sizes all (members all (p_head p)) + 8 /\
  sec_alloc all (p_head p) mod 8 = 0.
Proof.
  intros Hi Hp. destruct (placed_in_run all i p it Hi Hp) as (A1 & A2 & A3 & A4).
  rewrite (offset_is_sum_proof all i p it Hi Hp).
  split; [apply sum_sizes_firstn_le; exact A4|].
  unfold sec_alloc. apply round8_bounds.
Qed.

(* ------------------------------------------------------------ contents *)

Lemma le_bytes_length n : forall v, length (le_bytes n v) = n.
Proof. induction n as [|n IH]; intro v; simpl; [reflexivity | rewrite IH; reflexivity]. Qed.

Lemma flat_map_le_length n els : length (flat_map (le_bytes n) els) = length els * n.
Proof.
  induction els as [|e els IH]; simpl; [reflexivity|].
  rewrite app_length, le_bytes_length, IH. reflexivity.
Qed.

Lemma content_length base lab all it : length (content base lab all it) = size_of all it.
Proof.
  destruct it as [nm t els|nm len|nm tg d|nm l1 l2 d|nm fn|rt body| |k]; simpl; try reflexivity.
  - unfold known. rewrite map_length. apply flat_map_le_length.
  - apply repeat_length.
  - destruct l2; reflexivity.
  - destruct (nth_error all fn) as [[| | | | |rt body| |]|]; try reflexivity.
    destruct rt; unfold known; simpl; reflexivity.
Qed.

Lemma slice_flat_map {A B} (f : A -> list B) (sz : A -> nat) (l : list A) :
  (forall y, length (f y) = sz y) ->
  forall d x, nth_error l d = Some x ->
    firstn (sz x) (skipn (fold_right (fun y acc => sz y + acc) 0 (firstn d l)) (flat_map f l)) = f x.
Proof.
  intro Hlen. induction l as [|y l IH]; intros d x H; destruct d; simpl in *; try discriminate.
  - inversion H; subst. rewrite <- (Hlen x). rewrite firstn_app, Nat.sub_diag, firstn_all. simpl.
    apply app_nil_r.
  - rewrite <- (Hlen y). rewrite skipn_app.
    replace (length (f y) + _ - length (f y)) with
      (fold_right (fun y0 acc => sz y0 + acc) 0 (firstn d l)) by lia.
    rewrite (skipn_all2 (f y)) by lia. simpl. apply IH. exact H.
Qed.

(* the bytes found at an item's place in its section's image are the item's contents *)
Lemma section_contents_proof base lab all i p it :
  nth_error all i = Some it -> place_of all i = Some p ->
  slice (image base lab all (p_head p)) (p_off p) (size_of all it) = content base lab all it.
Proof.
  intros Hi Hp. destruct (placed_in_run all i p it Hi Hp) as (A1 & A2 & A3 & A4).
  rewrite (offset_is_sum_proof all i p it Hi Hp). unfold slice, image, sum_sizes.
  apply (slice_flat_map (content base lab all) (size_of all) (members all (p_head p))
                        (content_length base lab all) (i - p_head p) it A4).
Qed.

Lemma decode_le_bytes n : forall v, decode_le (le_bytes n v) = (v mod 256 ^ Z.of_nat n)%Z.
Proof.
  induction n as [|n IH]; intro v.
  - simpl. rewrite Z.mod_1_r. reflexivity.
  - cbn [le_bytes decode_le]. rewrite IH. rewrite Nat2Z.inj_succ, Z.pow_succ_r by lia.
    rewrite Z.rem_mul_r; [reflexivity | lia | apply Z.pow_pos_nonneg; lia].
Qed.

Lemma pow256_8 : (256 ^ Z.of_nat 8 = 2 ^ 64)%Z.
Proof. reflexivity. Qed.

(* a ref item holds the referenced item's address plus the displacement, as a 64-bit word *)
Lemma ref_value_proof base lab all i p nm target disp :
  nth_error all i = Some (IRef nm target disp) -> place_of all i = Some p ->
  exists bytes,
    slice (image base lab all (p_head p)) (p_off p) 8 = map Some bytes /\
    decode_le bytes = u64 (addr_of base all target + disp).
Proof.
  intros Hi Hp. exists (le_bytes 8 (u64 (addr_of base all target + disp))). split.
  - apply (section_contents_proof base lab all i p _ Hi Hp).
  - rewrite decode_le_bytes, pow256_8. unfold u64, uwrap. apply Z.mod_mod. discriminate.
Qed.

(* an expr item holds the value of its expression function truncated to the result type's size
   (all of it for integer/pointer/float/double; the 10 significant bytes for long double) *)
Lemma expr_value_proof base lab all i p nm fn rt body :
  nth_error all i = Some (IExpr nm fn) -> nth_error all fn = Some (IFunc rt body) ->
  place_of all i = Some p ->
  let n := match rt with TLD => 10 | _ => tsize rt end in
  exists bytes,
    firstn n (slice (image base lab all (p_head p)) (p_off p) (tsize rt)) = map Some bytes /\
    decode_le bytes = (eval base all body mod 256 ^ Z.of_nat n)%Z.
Proof.
  intros Hi Hf Hp n. exists (le_bytes n (eval base all body)). split.
  - pose proof (section_contents_proof base lab all i p _ Hi Hp) as H. simpl in H. rewrite Hf in H.
    rewrite H. subst n. destruct rt; simpl; reflexivity.
  - apply decode_le_bytes.
Qed.

Lemma data_contents_proof base lab all i p nm t els :
  nth_error all i = Some (IData nm t els) -> place_of all i = Some p ->
  slice (image base lab all (p_head p)) (p_off p) (length els * tsize t)
  = map Some (flat_map (le_bytes (tsize t)) els).
Proof. intros Hi Hp. apply (section_contents_proof base lab all i p _ Hi Hp). Qed.

Lemma bss_contents_proof base lab all i p nm len :
  nth_error all i = Some (IBss nm len) -> place_of all i = Some p ->
  slice (image base lab all (p_head p)) (p_off p) len = repeat (Some 0%Z) len.
Proof. intros Hi Hp. apply (section_contents_proof base lab all i p _ Hi Hp). Qed.

(* a module that passes the load-time checks only has expr items over genuine expression
   functions, and its lrefs have a function to refer to *)
Lemma load_check_ok_proof all :
  load_check all = None ->
  (forall nm fn, In (IExpr nm fn) all ->
     exists rt body, nth_error all fn = Some (IFunc rt body) /\ expr_ok body = true) /\
  ((exists it, In it all /\ is_lref it = true) -> exists it, In it all /\ is_gfunc it = true).
Proof.
  unfold load_check. destruct (forallb (expr_item_ok all) all) eqn:Hf; simpl; [|discriminate].
  destruct (existsb is_lref all && negb (existsb is_gfunc all)) eqn:Hl; [discriminate|]. intros _. split.
  - intros nm fn Hin. rewrite forallb_forall in Hf. specialize (Hf _ Hin). simpl in Hf.
    destruct (nth_error all fn) as [[| | | | |rt body| |]|]; try discriminate. exists rt, body. split; auto.
  - intros (it & Hin & Hit). apply andb_false_iff in Hl. destruct Hl as [Hl|Hl].
    + assert (existsb is_lref all = true) by (apply existsb_exists; exists it; auto). congruence.
    + apply negb_false_iff in Hl. apply existsb_exists in Hl. exact Hl.
Qed.

(* a label reference holds the label's address (or the difference of two label addresses) plus the
   displacement, as a 64-bit word *)
Lemma lref_value_proof base lab all i p nm l1 l2 disp :
  nth_error all i = Some (ILref nm l1 l2 disp) -> place_of all i = Some p ->
  exists bytes,
    slice (image base lab all (p_head p)) (p_off p) 8 = map Some bytes /\
    decode_le bytes = u64 (match l2 with None => lab l1 + disp | Some l2 => lab l1 - lab l2 + disp end).
Proof.
  intros Hi Hp.
  exists (le_bytes 8 (u64 (match l2 with None => lab l1 + disp | Some l2 => lab l1 - lab l2 + disp end))). split.
  - pose proof (section_contents_proof base lab all i p _ Hi Hp) as H. simpl in H. rewrite H.
    destruct l2; reflexivity.
  - rewrite decode_le_bytes, pow256_8. unfold u64, uwrap. apply Z.mod_mod. discriminate.
Qed.


(* ------------------------------------------------------------ which items a section holds; no overlap *)

Lemma sum_sizes_firstn_mono all l : forall a b, a <= b ->
  sum_sizes all (firstn a l) <= sum_sizes all (firstn b l).
Proof.
  induction l as [|x l IH]; intros a b Hab.
  - rewrite !firstn_nil. lia.
  - destruct a as [|a]; [simpl; lia|]. destruct b as [|b]; [lia|].
    cbn [firstn]. unfold sum_sizes. cbn [fold_right]. apply Nat.add_le_mono_l.
    apply (IH a b). lia.
Qed.

(* the items placed in the section of head h are exactly the members the size pass walks *)
Lemma section_members_exact_proof all h ith :
  nth_error all h = Some ith -> is_data_like ith = true ->
  place_of all h = Some {| p_head := h; p_off := 0 |} ->
  forall i, (exists p, place_of all i = Some p /\ p_head p = h) <->
            (h <= i /\ i - h < length (members all h)).
Proof.
  intros Hh Hd Hp i. split.
  - intros (p & Hpi & Hph).
    destruct (nth_error all i) as [it|] eqn:Hi.
    2:{ rewrite (place_of_out all i Hi) in Hpi. discriminate. }
    destruct (placed_in_run all i p it Hi Hpi) as (A1 & _ & _ & A4). rewrite Hph in *.
    split; [exact A1|]. apply nth_error_Some. rewrite A4. discriminate.
  - intros [Hle Hlt]. apply nth_error_Some in Hlt.
    destruct (nth_error (members all h) (i - h)) as [itd|] eqn:Hm; [|contradiction].
    destruct (run_forward all h ith Hh Hd Hp (i - h) itd Hm) as [_ B].
    replace (h + (i - h)) with i in B by lia. eexists. split; [exact B | reflexivity].
Qed.

(* two items of one section never overlap: the earlier one ends before the later one starts *)
Lemma section_no_overlap_proof all i j p q iti itj :
  i < j -> nth_error all i = Some iti -> nth_error all j = Some itj ->
  place_of all i = Some p -> place_of all j = Some q -> p_head p = p_head q ->
  p_off p + size_of all iti <= p_off q.
Proof.
  intros Hij Hi Hj Hp Hq Hh.
  destruct (placed_in_run all i p iti Hi Hp) as (A1 & _ & _ & A4).
  destruct (placed_in_run all j q itj Hj Hq) as (B1 & _ & _ & _).
  rewrite (offset_is_sum_proof all i p iti Hi Hp), (offset_is_sum_proof all j q itj Hj Hq).
  rewrite <- Hh. rewrite <- (sum_sizes_firstn_S all _ _ iti A4).
  apply sum_sizes_firstn_mono. lia.
Qed.

(* ------------------------------------------------------------ memory after all writes *)

Definition w_len (w : wr) : Z := Z.of_nat (length (w_bytes w)).
Definition w_disj (w1 w2 : wr) : Prop :=
  (w_addr w1 + w_len w1 <= w_addr w2)%Z \/ (w_addr w2 + w_len w2 <= w_addr w1)%Z.
Definition in_range (w : wr) (x : Z) : Prop := (w_addr w <= x < w_addr w + w_len w)%Z.

Lemma write_out m a bs x : ~ (a <= x < a + Z.of_nat (length bs))%Z -> write m a bs x = m x.
Proof.
  intro H. unfold write.
  destruct (a <=? x)%Z eqn:E1; [|reflexivity]. destruct (x <? a + Z.of_nat (length bs))%Z eqn:E2; [|reflexivity].
  exfalso. apply H. apply Z.leb_le in E1. apply Z.ltb_lt in E2. lia.
Qed.

Lemma write_in m a bs k : k < length bs -> write m a bs (a + Z.of_nat k)%Z = nth_error bs k.
Proof.
  intro H. unfold write.
  replace (a <=? a + Z.of_nat k)%Z with true by (symmetry; apply Z.leb_le; lia).
  replace (a + Z.of_nat k <? a + Z.of_nat (length bs))%Z with true by (symmetry; apply Z.ltb_lt; lia).
  simpl. replace (a + Z.of_nat k - a)%Z with (Z.of_nat k) by lia. rewrite Nat2Z.id. reflexivity.
Qed.

Lemma apply_untouched ws : forall m x,
  (forall w, In w ws -> ~ in_range w x) -> apply_writes ws m x = m x.
Proof.
  induction ws as [|w ws IH]; intros m x H; simpl; [reflexivity|].
  rewrite IH by (intros w' Hw'; apply H; right; exact Hw').
  apply write_out. apply (H w). left. reflexivity.
Qed.

(* writes that do not overlap can be done in any order: each range reads back its own bytes *)
Lemma apply_read ws : forall m w k,
  NoDup (map w_idx ws) ->
  (forall w1 w2, In w1 ws -> In w2 ws -> w_idx w1 <> w_idx w2 -> w_disj w1 w2) ->
  In w ws -> k < length (w_bytes w) ->
  apply_writes ws m (w_addr w + Z.of_nat k)%Z = nth_error (w_bytes w) k.
Proof.
  induction ws as [|a ws IH]; intros m w k Hnd Hdis Hin Hk; [destruct Hin|].
  simpl. inversion Hnd as [|? ? Hnotin Hnd']; subst.
  destruct Hin as [E|Hin].
  - subst a. rewrite apply_untouched.
    + apply write_in. exact Hk.
    + intros w' Hw' Hr.
      assert (Hne : w_idx w <> w_idx w').
      { intro E. apply Hnotin. rewrite E. apply in_map. exact Hw'. }
      destruct (Hdis w w' (or_introl eq_refl) (or_intror Hw') Hne) as [D|D];
        unfold in_range, w_len in *; lia.
  - apply IH; auto. intros w1 w2 H1 H2. apply Hdis; right; assumption.
Qed.

Lemma In_item_writes base lab all w :
  In w (item_writes base lab all) <-> exists i, item_write base lab all i = Some w.
Proof.
  unfold item_writes. rewrite in_flat_map. split.
  - intros (i & _ & Hi). exists i. destruct (item_write base lab all i) as [w'|]; [|destruct Hi].
    destruct Hi as [E|[]]. subst. reflexivity.
  - intros (i & Hi). exists i. split.
    + apply in_seq. unfold item_write in Hi. destruct (nth_error all i) eqn:E; [|discriminate].
      assert (i < length all) by (apply nth_error_Some; rewrite E; discriminate). lia.
    + rewrite Hi. left. reflexivity.
Qed.

Lemma item_write_idx base lab all i w : item_write base lab all i = Some w -> w_idx w = i.
Proof.
  unfold item_write. destruct (nth_error all i); [|discriminate]. destruct (place_of all i); [|discriminate].
  intro H. inversion H. reflexivity.
Qed.

(* the writes of two different items never overlap, given that the allocator keeps sections apart *)
Lemma item_writes_disjoint base lab all : blocks_disjoint base all ->
  forall i j wi wj, i <> j -> item_write base lab all i = Some wi -> item_write base lab all j = Some wj ->
  w_disj wi wj.
Proof.
  intros Hb.
  assert (L : forall i j wi wj, i < j -> item_write base lab all i = Some wi ->
                                item_write base lab all j = Some wj -> w_disj wi wj).
  { intros i j wi wj Hij Hi Hj. unfold item_write in Hi, Hj.
    destruct (nth_error all i) as [iti|] eqn:Ei; [|discriminate].
    destruct (place_of all i) as [p|] eqn:Pi; [|discriminate].
    destruct (nth_error all j) as [itj|] eqn:Ej; [|discriminate].
    destruct (place_of all j) as [q|] eqn:Pj; [|discriminate].
    inversion Hi; subst wi. inversion Hj; subst wj. clear Hi Hj.
    unfold w_disj, w_len. cbn [w_addr w_bytes]. rewrite !content_length.
    destruct (Nat.eq_dec (p_head p) (p_head q)) as [E|NE].
    - left. pose proof (section_no_overlap_proof all i j p q iti itj Hij Ei Ej Pi Pj E). rewrite E. lia.
    - destruct (placed_in_run all i p iti Ei Pi) as (_ & _ & A3 & _).
      destruct (placed_in_run all j q itj Ej Pj) as (_ & _ & B3 & _).
      destruct (section_size_covers_proof all i p iti Ei Pi) as (C1 & _).
      destruct (section_size_covers_proof all j q itj Ej Pj) as (D1 & _).
      destruct (Hb (p_head p) (p_head q) NE A3 B3) as [H|H]; [left|right]; lia. }
  intros i j wi wj Hne Hi Hj.
  destruct (Nat.lt_ge_cases i j) as [H|H].
  - apply (L i j wi wj H Hi Hj).
  - assert (Hji : j < i) by lia. destruct (L j i wj wi Hji Hj Hi) as [D|D]; [right|left]; exact D.
Qed.

(* In whatever order the items are written - each exactly once -, afterwards every item's bytes
   are found at its place, and nothing outside the items' ranges has been touched. *)
Lemma memory_after_writes_proof base lab all ws m0 :
  blocks_disjoint base all ->
  NoDup (map w_idx ws) -> (forall w, In w ws <-> In w (item_writes base lab all)) ->
  (forall i p it k, nth_error all i = Some it -> place_of all i = Some p -> k < size_of all it ->
     apply_writes ws m0 (base (p_head p) + Z.of_nat (p_off p) + Z.of_nat k)%Z
     = nth_error (content base lab all it) k) /\
  (forall x, (forall i p it, nth_error all i = Some it -> place_of all i = Some p ->
                ~ (base (p_head p) + Z.of_nat (p_off p) <= x
                   < base (p_head p) + Z.of_nat (p_off p) + Z.of_nat (size_of all it))%Z) ->
             apply_writes ws m0 x = m0 x).
Proof.
  intros Hb Hnd Hws. split.
  - intros i p it k Hi Hp Hk.
    set (w := {| w_idx := i; w_addr := (base (p_head p) + Z.of_nat (p_off p))%Z;
                 w_bytes := content base lab all it |}).
    assert (Hw : item_write base lab all i = Some w) by (unfold item_write; rewrite Hi, Hp; reflexivity).
    change (base (p_head p) + Z.of_nat (p_off p))%Z with (w_addr w).
    change (content base lab all it) with (w_bytes w).
    apply apply_read; auto.
    + intros w1 w2 H1 H2 Hne. apply Hws in H1, H2. apply In_item_writes in H1, H2.
      destruct H1 as (i1 & H1), H2 as (i2 & H2).
      apply (item_writes_disjoint base lab all Hb i1 i2 w1 w2); auto.
      rewrite <- (item_write_idx _ _ _ _ _ H1), <- (item_write_idx _ _ _ _ _ H2). exact Hne.
    + apply Hws. apply In_item_writes. exists i. exact Hw.
    + cbn [w_bytes w]. rewrite content_length. exact Hk.
  - intros x Hx. apply apply_untouched. intros w Hw Hr.
    apply Hws in Hw. apply In_item_writes in Hw. destruct Hw as (i & Hw).
    unfold item_write in Hw. destruct (nth_error all i) as [it|] eqn:Hi; [|discriminate].
    destruct (place_of all i) as [p|] eqn:Hp; [|discriminate]. inversion Hw; subst w.
    apply (Hx i p it Hi Hp). unfold in_range, w_len in Hr. cbn [w_addr w_bytes] in Hr.
    rewrite content_length in Hr. exact Hr.
Qed.

(* C14: proofs about the model in DataSection.v *)
From Coq Require Import List Arith ZArith Bool Lia.
From MirV Require Import Base.W64 C14.DataSection.
Import ListNotations.
Lemma placeholder14 : True. Proof. exact I. Qed.

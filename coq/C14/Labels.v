(* C14, round 3: the labels an lref item names, as mir.c's link-time simplification rewrites them.

   simplify_func (mir.c) replaces the label(s) of every lref item by  last_label (label):  the last label of the run
   of adjacent labels that starts at the label ("adjacent labels are one place").  The value the item finally holds is
   computed by the engine from the REWRITTEN label, so the property (the item holds the address / difference of the
   labels the user named) needs: the rewritten label has the address of the original one -- in every function body.
   That is [last_label_same_address] below.  The variant that additionally follows an unconditional jump placed right
   after the labels (sound for branch operands, where only control flow matters; seeded change C14-x2 applied it to
   lref items) does NOT have this property: [thread_label_changes_address].

   Model of a function body: a list of labels, unconditional jumps and other instructions with their code sizes;
   a label emits no code, so its address is the size of the code emitted before it.  Definitions only compute on
   lists; nothing is assumed about sizes (a jump has 5 bytes here, any positive number would do). *)
From Coq Require Import List Arith Lia Bool ZArith.
Import ListNotations.
From MirV Require Import C14.DataSection.

Inductive linsn :=
| LLabel (l : nat)          (* a label, named by a number *)
| LJmp (target : nat)       (* jmp target *)
| LCode (bytes : nat).      (* any other instruction, with the size of its code *)

Definition lsize (i : linsn) : nat :=
  match i with LLabel _ => 0 | LJmp _ => 5 | LCode n => n end.

Fixpoint labels (b : list linsn) : list nat :=
  match b with
  | [] => []
  | LLabel l :: r => l :: labels r
  | _ :: r => labels r
  end.

(* code offset of label l (its first occurrence) *)
Fixpoint label_addr (b : list linsn) (l : nat) : option nat :=
  match b with
  | [] => None
  | LLabel l' :: r => if Nat.eqb l' l then Some 0 else label_addr r l
  | i :: r => option_map (Nat.add (lsize i)) (label_addr r l)
  end.

(* mir.c last_label: while the next instruction is a label, move on to it *)
Fixpoint run_last (r : list linsn) (l : nat) : nat :=
  match r with
  | LLabel l' :: r' => run_last r' l'
  | _ => l
  end.

Fixpoint last_label (b : list linsn) (l : nat) : nat :=
  match b with
  | [] => l
  | LLabel l' :: r => if Nat.eqb l' l then run_last r l else last_label r l
  | _ :: r => last_label r l
  end.

(* the instruction that follows the run of labels starting at l *)
Fixpoint after_labels (r : list linsn) : option linsn :=
  match r with
  | LLabel _ :: r' => after_labels r'
  | i :: _ => Some i
  | [] => None
  end.

Fixpoint after_label (b : list linsn) (l : nat) : option linsn :=
  match b with
  | [] => None
  | LLabel l' :: r => if Nat.eqb l' l then after_labels r else after_label r l
  | _ :: r => after_label r l
  end.

(* "as for branch operands": through an unconditional jump placed right after the labels to its destination *)
Definition thread_label (b : list linsn) (l : nat) : nat :=
  let l1 := last_label b l in
  match after_label b l with
  | Some (LJmp t) => if Nat.eqb t l1 then l1 else last_label b t
  | _ => l1
  end.

(* label addresses as an engine defines them: code start + offset (0 for a label that is nowhere) *)
Definition lab_of (code : Z) (b : list linsn) (l : nat) : Z :=
  match label_addr b l with
  | Some a => (code + Z.of_nat a)%Z
  | None => 0%Z
  end.

(* ------------------------------------------------------------------ proofs *)

Lemma run_last_addr : forall r l,
  run_last r l = l \/ label_addr r (run_last r l) = Some 0.
Proof.
  induction r as [|i r IH]; intros l; cbn [run_last]; [left; reflexivity|].
  destruct i as [l'| |]; try (left; reflexivity).
  right. cbn [label_addr].
  destruct (Nat.eqb l' (run_last r l')) eqn:E; [reflexivity|].
  destruct (IH l') as [H|H]; [|exact H].
  rewrite H, Nat.eqb_refl in E. discriminate.
Qed.

Lemma run_last_in : forall r l, run_last r l = l \/ In (run_last r l) (labels r).
Proof.
  induction r as [|i r IH]; intros l; cbn [run_last]; [left; reflexivity|].
  destruct i as [l'| |]; try (left; reflexivity).
  right. cbn [labels]. destruct (IH l') as [H|H]; [left; symmetry; exact H | right; exact H].
Qed.

Lemma last_label_in : forall b l a,
  label_addr b l = Some a -> In (last_label b l) (labels b).
Proof.
  induction b as [|i b IH]; intros l a H; cbn [label_addr] in H; [discriminate|].
  destruct i as [l'|t|n]; cbn [last_label labels].
  - destruct (Nat.eqb l' l) eqn:E.
    + apply Nat.eqb_eq in E. subst l'.
      destruct (run_last_in b l) as [R|R]; [left; symmetry; exact R | right; exact R].
    + right. eapply IH; exact H.
  - destruct (label_addr b l) as [a'|] eqn:E; [|discriminate]. eapply IH; exact E.
  - destruct (label_addr b l) as [a'|] eqn:E; [|discriminate]. eapply IH; exact E.
Qed.

Lemma last_label_same_address_proof : forall b l a,
  NoDup (labels b) -> label_addr b l = Some a -> label_addr b (last_label b l) = Some a.
Proof.
  induction b as [|i b IH]; intros l a ND H; cbn [label_addr] in H; [discriminate|].
  destruct i as [l'|t|n]; cbn [last_label labels] in *.
  - destruct (Nat.eqb l' l) eqn:E.
    + apply Nat.eqb_eq in E. subst l'. injection H as <-.
      cbn [label_addr].
      destruct (Nat.eqb l (run_last b l)) eqn:E2; [reflexivity|].
      destruct (run_last_addr b l) as [R|R]; [|exact R].
      rewrite R, Nat.eqb_refl in E2. discriminate.
    + inversion ND as [|x xs Hnotin ND']; subst.
      cbn [label_addr].
      destruct (Nat.eqb l' (last_label b l)) eqn:E2.
      * apply Nat.eqb_eq in E2. exfalso. apply Hnotin. rewrite E2. eapply last_label_in; exact H.
      * apply IH; assumption.
  - cbn [label_addr]. destruct (label_addr b l) as [a'|] eqn:E; [|discriminate].
    rewrite (IH l a' ND E). exact H.
  - cbn [label_addr]. destruct (label_addr b l) as [a'|] eqn:E; [|discriminate].
    rewrite (IH l a' ND E). exact H.
Qed.

Lemma lab_of_last_label : forall code b l a,
  NoDup (labels b) -> label_addr b l = Some a -> lab_of code b (last_label b l) = lab_of code b l.
Proof.
  intros code b l a ND H. unfold lab_of.
  rewrite (last_label_same_address_proof b l a ND H), H. reflexivity.
Qed.

(* the bytes of an lref item computed from the rewritten labels are the bytes for the labels the user named *)
Lemma lref_canonical_content_proof : forall base code b all nm l1 l2 disp,
  NoDup (labels b) ->
  (exists a, label_addr b l1 = Some a) ->
  (forall l, l2 = Some l -> exists a, label_addr b l = Some a) ->
  content base (lab_of code b) all (ILref nm (last_label b l1) (option_map (last_label b) l2) disp)
  = content base (lab_of code b) all (ILref nm l1 l2 disp).
Proof.
  intros base code b all nm l1 l2 disp ND [a1 H1] H2.
  destruct l2 as [l|]; cbn [option_map content].
  - destruct (H2 l eq_refl) as [a2 Ha2].
    rewrite (lab_of_last_label code b l1 a1 ND H1), (lab_of_last_label code b l a2 ND Ha2). reflexivity.
  - rewrite (lab_of_last_label code b l1 a1 ND H1). reflexivity.
Qed.

(* threading through a jump: a body where the rewritten label lies somewhere else *)
Definition thread_witness : list linsn := [LLabel 1; LJmp 2; LCode 3; LLabel 2; LCode 1].

Lemma thread_label_changes_address_proof :
  exists b l a, NoDup (labels b) /\ label_addr b l = Some a /\ label_addr b (thread_label b l) <> Some a.
Proof.
  exists thread_witness, 1, 0. split; [|split].
  - cbn. repeat constructor; cbn; intuition congruence.
  - reflexivity.
  - vm_compute. discriminate.
Qed.

(* ... while a jump to the label that follows anyway keeps the address of everything in sight (what the
   correspondence harness calls one place): non-vacuity of the hypotheses and of last_label moving at all *)
Example last_label_moves :
  let b := [LCode 4; LLabel 7; LLabel 8; LLabel 9; LCode 2; LLabel 3] in
  NoDup (labels b) /\ last_label b 7 = 9 /\ label_addr b 7 = Some 4 /\ label_addr b 9 = Some 4 /\
  label_addr b 3 = Some 6 /\ last_label b 3 = 3.
Proof. cbn. repeat split; repeat constructor; cbn; intuition congruence. Qed.

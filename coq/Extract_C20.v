From Coq Require Import Extraction ExtrOcamlBasic List ZArith.
From MirV Require Import Mir.DocSpec Mir.CExpr C02.RowCheck C02.Table C20.Mir2cCheck gen.Mir2cTable.
Extraction Language OCaml.
Extraction "c20x.ml" opcode_of_num opcode_num stmt_value stmt_branch stmt_ovfb env_of flag_env m2c_row_ok mir2c_table.

From Coq Require Import Extraction ExtrOcamlBasic List NArith.
From MirV Require Import C17.Alloc C17.CodeHolder.
Extraction Language OCaml.
Extraction "c17x.ml" st0 step accepts first_reject N.add N.mul N.of_nat chstep chs0.

(* Property C14: loaded data items form contiguous, correctly initialised sections.
   Only the property theorems, each closed by [exact] and followed by Print Assumptions.
   Model: C14/DataSection.v (mir.c load_bss_data_section as called by MIR_load_module, and the
   ref/expr initialisation of MIR_link); proofs: C14/DataSectionProofs.v; examples:
   C14/DataSectionExamples.v.

   Vocabulary: [place_of all i] = Some {p_head; p_off}: item i of the module [all] is placed in
   the section whose head is item p_head, p_off bytes from the section's start (None: the item has
   no place).  [members all h] are the items the SIZE pass of load_bss_data_section walks from
   head h, [sec_alloc all h] what it passes to malloc; [image base all h] is the memory the
   PLACEMENT pass, MIR_link and the engines write, byte by byte (None = unspecified), given the
   addresses [base] of sections, functions and imports and [lab] of labels. *)
From Coq Require Import List Arith ZArith.
Import ListNotations.
From MirV Require Import Base.W64 C14.DataSection C14.DataSectionProofs C14.DataSectionExamples C14.Labels.

(* Every data/bss/ref/lref/expr item gets a place and nothing else does. *)
Theorem section_partition : forall all i,
  place_of all i = None <-> ~ (exists it, nth_error all i = Some it /\ is_data_like it = true).
Proof. exact section_partition_proof. Qed.
Print Assumptions section_partition.

(* A named item, the first item of the module, and an item that follows a non-data item always
   start a section of their own, at offset 0. *)
Theorem section_head_starts : forall all i it,
  nth_error all i = Some it -> is_data_like it = true ->
  (is_named it = true \/ i = 0 \/
   exists prev, nth_error all (i - 1) = Some prev /\ is_data_like prev = false) ->
  place_of all i = Some {| p_head := i; p_off := 0 |}.
Proof. exact section_head_starts_proof. Qed.
Print Assumptions section_head_starts.

(* An anonymous data-like item directly after a placed item lies in the same section exactly
   size(previous) bytes further: declaration order, no gap.  (Together with the two theorems above
   this determines the place of every item.) *)
Theorem section_contiguous : forall all i p it it',
  nth_error all i = Some it -> place_of all i = Some p ->
  nth_error all (S i) = Some it' -> is_data_like it' = true -> is_named it' = false ->
  place_of all (S i) = Some {| p_head := p_head p; p_off := p_off p + size_of all it |}.
Proof. exact section_contiguous_proof. Qed.
Print Assumptions section_contiguous.

(* Each item is at the offset given by the sizes of its predecessors in the section. *)
Theorem section_offset_is_sum : forall all i p it,
  nth_error all i = Some it -> place_of all i = Some p ->
  p_off p = sum_sizes all (firstn (i - p_head p) (members all (p_head p))).
Proof. exact offset_is_sum_proof. Qed.
Print Assumptions section_offset_is_sum.

(* The size pass agrees with the placement pass: the block it allocates contains every member,
   is a multiple of 8 and wastes fewer than 8 bytes. *)
Theorem section_size_covers : forall all i p it,
  nth_error all i = Some it -> place_of all i = Some p ->
  p_off p + size_of all it <= sum_sizes all (members all (p_head p)) /\
  sum_sizes all (members all (p_head p)) <= sec_alloc all (p_head p) /\
  sec_alloc all (p_head p) < sum_sizes all (members all (p_head p)) + 8 /\
  sec_alloc all (p_head p) mod 8 = 0.
Proof. exact section_size_covers_proof. Qed.
Print Assumptions section_size_covers.

(* What is found at an item's place is the item's contents ... *)
Theorem section_contents : forall base lab all i p it,
  nth_error all i = Some it -> place_of all i = Some p ->
  slice (image base lab all (p_head p)) (p_off p) (size_of all it) = content base lab all it.
Proof. exact section_contents_proof. Qed.
Print Assumptions section_contents.

(* ... for data the declared elements, little-endian, in order; for bss zeros; *)
Theorem data_contents : forall base lab all i p nm t els,
  nth_error all i = Some (IData nm t els) -> place_of all i = Some p ->
  slice (image base lab all (p_head p)) (p_off p) (length els * tsize t)
  = map Some (flat_map (le_bytes (tsize t)) els).
Proof. exact data_contents_proof. Qed.
Print Assumptions data_contents.

Theorem bss_contents : forall base lab all i p nm len,
  nth_error all i = Some (IBss nm len) -> place_of all i = Some p ->
  slice (image base lab all (p_head p)) (p_off p) len = repeat (Some 0%Z) len.
Proof. exact bss_contents_proof. Qed.
Print Assumptions bss_contents.

(* ... for a ref the referenced item's address plus the displacement (mod 2^64); *)
Theorem ref_value : forall base lab all i p nm target disp,
  nth_error all i = Some (IRef nm target disp) -> place_of all i = Some p ->
  exists bytes,
    slice (image base lab all (p_head p)) (p_off p) 8 = map Some bytes /\
    decode_le bytes = u64 (addr_of base all target + disp).
Proof. exact ref_value_proof. Qed.
Print Assumptions ref_value.

(* ... for a label reference the label address, or the difference of two label addresses, plus
   the displacement (label addresses as the executing engine defines them: an oracle); *)
Theorem lref_value : forall base lab all i p nm l1 l2 disp,
  nth_error all i = Some (ILref nm l1 l2 disp) -> place_of all i = Some p ->
  exists bytes,
    slice (image base lab all (p_head p)) (p_off p) 8 = map Some bytes /\
    decode_le bytes = u64 (match l2 with None => lab l1 + disp | Some l2 => lab l1 - lab l2 + disp end).
Proof. exact lref_value_proof. Qed.
Print Assumptions lref_value.

(* ... for an expr the value of its expression function, truncated to the result type. *)
Theorem expr_value : forall base lab all i p nm fn rt body,
  nth_error all i = Some (IExpr nm fn) -> nth_error all fn = Some (IFunc rt body) ->
  place_of all i = Some p ->
  let n := match rt with TLD => 10 | _ => tsize rt end in
  exists bytes,
    firstn n (slice (image base lab all (p_head p)) (p_off p) (tsize rt)) = map Some bytes /\
    decode_le bytes = (eval base all body mod 256 ^ Z.of_nat n)%Z.
Proof. exact expr_value_proof. Qed.
Print Assumptions expr_value.

(* The load-time guard: a module that MIR_load_module accepts has expr items only over genuine
   expression functions (no call, no memory operand), and its lrefs have a function to refer to. *)
Theorem load_check_ok : forall all,
  load_check all = None ->
  (forall nm fn, In (IExpr nm fn) all ->
     exists rt body, nth_error all fn = Some (IFunc rt body) /\ expr_ok body = true) /\
  ((exists it, In it all /\ is_lref it = true) -> exists it, In it all /\ is_gfunc it = true).
Proof. exact load_check_ok_proof. Qed.
Print Assumptions load_check_ok.

(* The items placed in the section of head h are exactly the members the size pass walks: items
   h .. h + |members| - 1. *)
Theorem section_members_exact : forall all h ith,
  nth_error all h = Some ith -> is_data_like ith = true ->
  place_of all h = Some {| p_head := h; p_off := 0 |} ->
  forall i, (exists p, place_of all i = Some p /\ p_head p = h) <->
            (h <= i /\ i - h < length (members all h)).
Proof. exact section_members_exact_proof. Qed.
Print Assumptions section_members_exact.

(* Two items of one section never overlap: the earlier one ends before the later one starts
   (with section_contiguous: no gaps and no overlaps). *)
Theorem section_no_overlap : forall all i j p q iti itj,
  i < j -> nth_error all i = Some iti -> nth_error all j = Some itj ->
  place_of all i = Some p -> place_of all j = Some q -> p_head p = p_head q ->
  p_off p + size_of all iti <= p_off q.
Proof. exact section_no_overlap_proof. Qed.
Print Assumptions section_no_overlap.

(* Memory as the code writes it (one write per placed item: data/bss at load, ref/expr at link,
   lref when the function is prepared), in ANY order, each item written once, given an allocator
   that keeps the blocks of different sections apart: afterwards every item's bytes are found at
   its place - no later write destroys an earlier one -, and no byte outside the items' ranges
   (rounding padding, other memory) has been touched. *)
Theorem memory_after_writes : forall base lab all ws m0,
  blocks_disjoint base all ->
  NoDup (map w_idx ws) -> (forall w, In w ws <-> In w (item_writes base lab all)) ->
  (forall i p it k, nth_error all i = Some it -> place_of all i = Some p -> k < size_of all it ->
     apply_writes ws m0 (base (p_head p) + Z.of_nat (p_off p) + Z.of_nat k)%Z
     = nth_error (content base lab all it) k) /\
  (forall x, (forall i p it, nth_error all i = Some it -> place_of all i = Some p ->
                ~ (base (p_head p) + Z.of_nat (p_off p) <= x
                   < base (p_head p) + Z.of_nat (p_off p) + Z.of_nat (size_of all it))%Z) ->
             apply_writes ws m0 x = m0 x).
Proof. exact memory_after_writes_proof. Qed.
Print Assumptions memory_after_writes.

(* Round 3.  The labels of an lref item as link-time simplification rewrites them (C14/Labels.v: a function body
   is a list of labels, jumps and other instructions; a label's address is the size of the code before it).
   mir.c replaces a label by the LAST of the adjacent labels that start at it; in every function body with
   distinct labels the replacement has the address of the original label ... *)
Theorem last_label_same_address : forall b l a,
  NoDup (labels b) -> label_addr b l = Some a -> label_addr b (last_label b l) = Some a.
Proof. exact last_label_same_address_proof. Qed.
Print Assumptions last_label_same_address.

(* ... so the bytes an engine stores for the rewritten item are the bytes of the item the user declared
   (label address, or label difference, plus displacement: [lref_value]), wherever the code starts. *)
Theorem lref_canonical_content : forall base code b all nm l1 l2 disp,
  NoDup (labels b) ->
  (exists a, label_addr b l1 = Some a) ->
  (forall l, l2 = Some l -> exists a, label_addr b l = Some a) ->
  content base (lab_of code b) all (ILref nm (last_label b l1) (option_map (last_label b) l2) disp)
  = content base (lab_of code b) all (ILref nm l1 l2 disp).
Proof. exact lref_canonical_content_proof. Qed.
Print Assumptions lref_canonical_content.

(* Following an unconditional jump placed right after the labels ("as for branch operands") is NOT such a
   replacement: there is a body in which the label reached has another address. *)
Theorem thread_label_changes_address :
  exists b l a, NoDup (labels b) /\ label_addr b l = Some a /\ label_addr b (thread_label b l) <> Some a.
Proof. exact thread_label_changes_address_proof. Qed.
Print Assumptions thread_label_changes_address.

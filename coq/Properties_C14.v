From Coq Require Import List.
From MirV Require Import C14.DataSection C14.DataSectionProofs.
Theorem placeholder_c14 : True.
Proof. exact placeholder14. Qed.
Print Assumptions placeholder_c14.

(* Property C08: c2mir lays out and passes C data exactly as the x86-64 SysV ABI does.
   Only the property theorems, each closed by [exact] and followed by Print Assumptions. *)
From Coq Require Import List ZArith.
From MirV Require Import C08.CLayout C08.SysVLayout C08.LayoutProofs.

(* every scalar kind has the psABI size (= alignment) *)
Theorem scalar_size_eq_sysv : forall k, basic_type_size k = sv_scalar_size k.
Proof. exact basic_size_eq. Qed.
Print Assumptions scalar_size_eq_sysv.

(* every enum (any least/greatest enumerator) gets the size gcc gives it *)
Theorem enum_size_eq_sysv : forall lo hi, basic_type_size (enum_basic_type lo hi) = sv_enum_size lo hi.
Proof. exact enum_size_eq. Qed.
Print Assumptions enum_size_eq_sysv.

(* Property C08: c2mir lays out and passes C data exactly as the x86-64 SysV ABI does.
   Only the property theorems, each closed by [exact] and followed by Print Assumptions. *)
From Coq Require Import List ZArith.
From MirV Require Import C08.CLayout C08.SysVLayout C08.CClassify C08.SysVClassify C08.StepProofs
  C08.LayoutProofs C08.ClassifyProofs C08.DisjointProofs C08.TotalProofs C08.SpanClassify C08.RetProofs C08.SigProofs.
Import ListNotations.
Local Open Scope Z_scope.

(* every scalar kind has the psABI size (= alignment) *)
Theorem scalar_size_eq_sysv : forall k, basic_type_size k = sv_scalar_size k.
Proof. exact basic_size_eq. Qed.
Print Assumptions scalar_size_eq_sysv.

(* every enum (any least/greatest enumerator) gets the size gcc gives it *)
Theorem enum_size_eq_sysv : forall lo hi, basic_type_size (enum_basic_type lo hi) = sv_enum_size lo hi.
Proof. exact enum_size_eq. Qed.
Print Assumptions enum_size_eq_sysv.

(* For every well-formed declaration (any nesting, arrays, all scalar kinds, bit-fields of every
   width incl. zero-width and unnamed ones, anonymous members, a trailing flexible array member)
   c2mir's set_type_layout / update_field_layout / aux_set_type_align compute the psABI layout:
   sizeof, _Alignof, offset and size of every named member (recursively, anonymous members
   flattened), storage unit, bit offset and width of every bit-field.  [norm] only forgets where
   c2mir notes zero-width bit-fields, which have no storage. *)
Theorem layout_eq_sysv : forall t, wf_ty t = true ->
  type_size (c2m_layout t) = sv_size (sysv_layout t) /\
  align (c2m_layout t) = sv_align (sysv_layout t) /\
  leaves (c2m_layout t) = sv_leaves (sysv_layout t) /\
  map norm (mems (c2m_layout t)) = sv_mems (sysv_layout t).
Proof. exact layout_eq_sysv_lemma. Qed.
Print Assumptions layout_eq_sysv.

(* non-vacuity: a declaration with every feature is well-formed, and its layout is the expected one:
   struct { char a; int b:3; int :0; short s; struct { long x:33; unsigned char :0; char y; };
            union { float f; long double g; } u; char c[3]; int fam[]; } *)
Definition c08_example : ty :=
  TAgg false
    [ (MNamed, TBasic KChar); (MBits 3 true, TBasic KInt); (MBits 0 false, TBasic KInt);
      (MNamed, TBasic KShort);
      (MAnon, TAgg false [ (MBits 33 true, TBasic KLong); (MBits 0 false, TBasic KUChar); (MNamed, TBasic KChar) ]);
      (MNamed, TAgg true [ (MNamed, TBasic KFloat); (MNamed, TBasic KLDouble) ]);
      (MNamed, TArr 3 (TBasic KChar)); (MNamed, TFlex (TBasic KInt)) ].

Example c08_example_wf : wf_ty c08_example = true.
Proof. vm_compute. reflexivity. Qed.

Example c08_example_layout :
  (type_size (c2m_layout c08_example), align (c2m_layout c08_example),
   map (fun l => (l_off l, l_bit l, l_sz l)) (leaves (c2m_layout c08_example)))
  = (48, 16, [(0, -1, 1); (0, 8, 3); (4, -1, 2); (8, 0, 33); (13, -1, 1);
              (16, -1, 16); (16, -1, 4); (16, -1, 16); (32, -1, 3); (36, -1, 4)]).
Proof. vm_compute. reflexivity. Qed.

(* In c2mir's own layout of any well-formed struct the members (bit-fields by their bits, the others
   by their bytes; zero-width bit-fields and a trailing flexible array occupy nothing) lie one after
   the other in declaration order, pairwise disjoint, inside [0, 8 * sizeof). *)
Theorem layout_members_disjoint_in_bounds : forall ms,
  wf_ty (TAgg false ms) = true ->
  chain 0 (8 * c2m_sz (TAgg false ms))
        (ranges c2m_sz ms (mems (c2m_layout (TAgg false ms)))).
Proof. exact layout_members_disjoint_in_bounds_lemma. Qed.
Print Assumptions layout_members_disjoint_in_bounds.

(* ------------------------------------------------------------------ classification *)

(* The full statement "for every aggregate c2mir's classification is the psABI's" is FALSE of the
   faithful model (and of c2m: KNOWN_FINDINGS classify:padding-eightbyte): an eightbyte that holds
   nothing but padding - possible only through a trailing zero-width bit-field of a nested struct -
   is NO_CLASS in the psABI (no register; gcc and clang agree) and INTEGER in c2mir. *)
Theorem classify_eq_sysv_refuted : exists t,
  wf_ty t = true /\ is_agg t = true /\
  option_map (map tr) (classify_arg t) <> sysv_classify t.
Proof.
  exists padding_witness. destruct classify_refuted as (H1 & H2 & H3 & H4).
  split; [exact H1|]. split; [exact H2|]. rewrite H3, H4. discriminate.
Qed.
Print Assumptions classify_eq_sysv_refuted.

(* Everywhere else - every well-formed struct/union without a padding-only eightbyte ([no_pad], an
   executable guard on the psABI side) - classify_arg/classify_fields compute the psABI classes of
   the eightbytes (or MEMORY): field positions from the proved-equal layouts, merge rules (a)-(f),
   the post-merger clean-up at every struct/union level, > 16 bytes => MEMORY. *)
Theorem classify_eq_sysv_partial : forall t,
  wf_ty t = true -> is_agg t = true -> no_pad t = true ->
  option_map (map tr) (classify_arg t) = sysv_classify t.
Proof. exact classify_eq_sysv_partial_lemma. Qed.
Print Assumptions classify_eq_sysv_partial.

(* the MIR block type (BLK0..4) chosen for an argument, given the registers already used, encodes
   exactly the psABI assignment of its eightbytes to INTEGER / SSE registers or to memory
   (including "no register left for some eightbyte => whole argument in memory"), and the register
   counters advance identically *)
Theorem blk_type_consistent : forall t ni nf,
  wf_ty t = true -> is_agg t = true -> no_pad t = true ->
  pass_aggregate_arg t ni nf =
    (let '(pl, i2, f2) := sysv_pass_arg t ni nf in (blk_of_places pl, i2, f2)).
Proof. exact blk_type_consistent_lemma. Qed.
Print Assumptions blk_type_consistent.

(* a returned struct/union travels in the registers the psABI prescribes (rax/rdx, xmm0/xmm1,
   st0) or through the hidden pointer *)
Theorem ret_eq_sysv : forall t,
  wf_ty t = true -> is_agg t = true -> no_pad t = true ->
  option_map (map rplace_of) (process_ret_type t) = sysv_return t.
Proof. exact ret_eq_sysv_lemma. Qed.
Print Assumptions ret_eq_sysv.

(* non-vacuity of the guard: struct { long a; double d; } is well-formed, has no padding eightbyte,
   and is passed INTEGER+SSE (BLK3) when registers are free, in memory after 6 integer arguments *)
Definition c08_long_double : ty := TAgg false [ (MNamed, TBasic KLong); (MNamed, TBasic KDouble) ].
Example c08_long_double_ok :
  wf_ty c08_long_double = true /\ is_agg c08_long_double = true /\ no_pad c08_long_double = true /\
  pass_aggregate_arg c08_long_double 0 0 = (3, 1, 1) /\ pass_aggregate_arg c08_long_double 6 0 = (0, 6, 0).
Proof. vm_compute. auto 10. Qed.

(* ------------------------------------------------------------------ audit round 2: no guard *)

(* For EVERY well-formed struct/union c2mir's eightbyte classes are the psABI's with the NO_CLASS
   (padding-only) eightbytes turned into INTEGER: the only thing c2mir ever does differently. *)
Theorem classify_eq_sysv_total : forall t,
  wf_ty t = true -> is_agg t = true ->
  option_map (map tr) (classify_arg t) = option_map (map pad_int) (sysv_classify t).
Proof. exact classify_eq_sysv_total_lemma. Qed.
Print Assumptions classify_eq_sysv_total.

(* ... hence the deviation is characterised both ways: c2mir's classification equals the psABI's
   if and only if no eightbyte of the aggregate is NO_CLASS in the psABI ([no_pad]); any other
   disagreement breaks this theorem. *)
Theorem classify_deviation_iff : forall t,
  wf_ty t = true -> is_agg t = true ->
  (option_map (map tr) (classify_arg t) = sysv_classify t <-> no_pad t = true).
Proof. exact classify_deviation_iff_lemma. Qed.
Print Assumptions classify_deviation_iff.

(* passing and returning of every aggregate, guard-free: the psABI's rules applied to those classes *)
Theorem blk_type_total : forall t ni nf,
  wf_ty t = true -> is_agg t = true ->
  pass_aggregate_arg t ni nf =
    (let '(pl, i2, f2) := sysv_pass_of (c2m_classes t) ni nf in (blk_of_places pl, i2, f2)).
Proof. exact blk_type_total_lemma. Qed.
Print Assumptions blk_type_total.

Theorem ret_total : forall t,
  wf_ty t = true -> is_agg t = true ->
  option_map (map rplace_of) (process_ret_type t) = sysv_return_of (c2m_classes t).
Proof. exact ret_total_lemma. Qed.
Print Assumptions ret_total.

(* the hidden result pointer is used exactly when the psABI returns in MEMORY - every aggregate *)
Theorem ret_memory_iff : forall t,
  wf_ty t = true -> is_agg t = true ->
  (process_ret_type t = None <-> sysv_return t = None).
Proof. exact ret_memory_iff_lemma. Qed.
Print Assumptions ret_memory_iff.

(* All by-value parameter positions of a signature at once: any result (scalar/void, or a struct/union
   returned in registers or through the hidden pointer, which takes %rdi), any list of INTEGER, SSE
   and long double scalars and struct/union parameters.  c2mir's n_iregs/n_fregs counters run past
   6 / 8; the psABI side ([sv_signature]) counts assigned registers and stops at 6 / 8.  The MIR block
   type of every aggregate parameter encodes the psABI's placement. *)
Theorem signature_eq_sysv : forall r ps,
  result_ok r -> Forall param_ok ps ->
  c2m_signature r ps = map (option_map blk_of_places) (sv_signature r ps).
Proof. exact signature_eq_sysv_lemma. Qed.
Print Assumptions signature_eq_sysv.

(* sign of the value read from a bit-field (sign- or zero-extension), c2mir vs gcc: equal for every
   integer/_Bool type; for enum types narrower than 32 bits equal when the enum has no negative
   enumerator, or on a tree with fixes/C08-7 ([fix_] = true); refuted on the tree without it. *)
Theorem bf_sign_basic_eq_sysv : forall fix_ k w,
  c2m_bf_signed fix_ (TBasic k) w = sv_bf_signed (TBasic k) w.
Proof. exact bf_sign_basic_lemma. Qed.
Print Assumptions bf_sign_basic_eq_sysv.

Theorem bf_sign_enum_eq_sysv_partial : forall fix_ lo hi w, w < 32 -> (fix_ = true \/ 0 <= lo) ->
  c2m_bf_signed fix_ (TEnum lo hi) w = sv_bf_signed (TEnum lo hi) w.
Proof. exact bf_sign_enum_lemma. Qed.
Print Assumptions bf_sign_enum_eq_sysv_partial.

Theorem bf_sign_enum_eq_sysv_refuted : exists lo hi w, 0 < w /\ lo <= 0 <= hi /\
  c2m_bf_signed false (TEnum lo hi) w <> sv_bf_signed (TEnum lo hi) w.
Proof. exact bf_sign_refuted_lemma. Qed.
Print Assumptions bf_sign_enum_eq_sysv_refuted.

(* ------------------------------------------------------------------ bit-fields that extend over an
   eightbyte boundary (only unnamed ones in under-aligned member aggregates can).  gcc gives INTEGER
   to every eightbyte such a bit-field touches; SysVClassify (merge_span) says so, and the repaired
   classify_fields (/repo 21222098 = fixes/C08-9, CClassify.qmerge_span) does so: the theorems above
   are about these and carry no guard on bit-fields.  The rule c2mir had before the fix
   ([classify_arg_head]: the eightbyte of the first bit only) is kept for the record: *)

(* where no bit-field straddles ([no_straddle], executable) it was the repaired rule ... *)
Theorem classify_head_eq : forall t, no_straddle t = true -> classify_arg_head t = classify_arg t.
Proof. exact classify_head_eq_lemma. Qed.
Print Assumptions classify_head_eq.

(* ... hence gcc's *)
Theorem classify_head_eq_gcc_partial : forall t,
  wf_ty t = true -> is_agg t = true -> no_straddle t = true ->
  option_map (map tr) (classify_arg_head t) = option_map (map pad_int) (sysv_classify t).
Proof. exact classify_head_eq_gcc_partial_lemma. Qed.
Print Assumptions classify_head_eq_gcc_partial.

(* elsewhere it was not: struct { int i; struct { char c; long : 40; } s; float f; } is
   INTEGER,INTEGER for gcc (and for the repaired c2mir) and was INTEGER,SSE - and no padding
   eightbyte is involved *)
Theorem classify_head_eq_gcc_refuted : exists t,
  wf_ty t = true /\ is_agg t = true /\ no_pad t = true /\
  option_map (map tr) (classify_arg_head t) <> option_map (map pad_int) (sysv_classify t) /\
  option_map (map tr) (classify_arg t) = sysv_classify t.
Proof.
  exists straddle_witness. destruct classify_head_refuted_lemma as (H1 & H2 & H3 & _ & H5 & H6 & H7).
  repeat (split; [assumption|]). rewrite H5, H6, H7. split; [discriminate | reflexivity].
Qed.
Print Assumptions classify_head_eq_gcc_refuted.

(* ------------------------------------------------------------------ round 3: the bytes of a returned aggregate.
   A struct/union returned in registers is moved piece by piece (target_add_ret_ops in a c2mir callee,
   target_gen_post_call_res_code in a c2mir caller): piece i of process_ret_type with a move of its MIR type at byte
   offset 8 * i ([ret_pieces]); update_last_qword_type narrows the type of a single piece by sizeof. *)

(* every byte of the aggregate is transferred by one of the accesses - any well-formed struct/union, any size *)
Theorem ret_bytes_cover : forall t ps,
  wf_ty t = true -> is_agg t = true -> ret_pieces t = Some ps ->
  forall b, 0 <= b < type_size (c2m_layout t) ->
  exists o m, In (o, m) ps /\ o <= b < o + mbytes m.
Proof. exact ret_bytes_cover_lemma. Qed.
Print Assumptions ret_bytes_cover.

(* the access type of a single-piece return per sizeof: INTEGER class - the least power of two >= sizeof (1 -> I8,
   2 -> I16, 3..4 -> I32, 5..8 -> I64); SSE class - F up to 4 bytes, D above *)
Theorem ret_tail_access : forall t m,
  wf_ty t = true -> is_agg t = true -> process_ret_type t = Some [m] -> m <> MLD ->
  mbytes m = access_bytes (is_int_mtype m) (type_size (c2m_layout t)).
Proof. exact ret_tail_access_lemma. Qed.
Print Assumptions ret_tail_access.

(* the accesses stay inside the eightbytes of the aggregate (they may reach beyond sizeof by up to 7 bytes) *)
Theorem ret_pieces_within : forall t ps o m,
  wf_ty t = true -> is_agg t = true -> ret_pieces t = Some ps -> In (o, m) ps -> m <> MLD ->
  0 <= o /\ o + mbytes m <= 8 * ((type_size (c2m_layout t) + 7) / 8).
Proof. exact ret_pieces_within_lemma. Qed.
Print Assumptions ret_pieces_within.

(* non-vacuity and the boundary: struct { char c[3]; } is one I32 access, struct { char c[5]; } one I64,
   struct { float f[3]; } D at 0 and D at 8 *)
Example ret_pieces_boundary :
  wf_ty c08_char3 = true /\ is_agg c08_char3 = true /\
  ret_pieces c08_char3 = Some [(0, MI32)] /\ ret_pieces c08_char5 = Some [(0, MI64)] /\
  ret_pieces c08_float3 = Some [(0, MD); (8, MD)].
Proof. exact ret_pieces_examples. Qed.

(* ---- round 3 (seeded z2): the register bookkeeping of SCALAR parameters, from their C types.
   c2mir: get_mir_type, then the scalar branch of target_add_arg_proto / target_add_call_arg_op
   ([c2m_scalar_regs]: F, D bump n_fregs; LD bumps nothing; every other type bumps n_iregs).
   psABI: the class of the scalar ([sysv_scalar_class], by SysVClassify.sv_merge_into). *)

(* every scalar type (15 basic kinds, pointers, every enum): c2mir bumps exactly the counter of the
   register file the psABI class takes a register from; X87 (long double) bumps none *)
Theorem scalar_regs_eq_sysv : forall t ni nf, scalar_ty t = true ->
  c2m_scalar_regs (get_mir_type t) (ni, nf) =
  match sysv_scalar_class t with
  | INTEGER => (ni + 1, nf) | SSE => (ni, nf + 1) | _ => (ni, nf)
  end.
Proof. exact scalar_regs_eq_sysv_lemma. Qed.
Print Assumptions scalar_regs_eq_sysv.

Theorem ldouble_no_register : forall st,
  sysv_scalar_class (TBasic KLDouble) = X87 /\ c2m_scalar_regs (get_mir_type (TBasic KLDouble)) st = st.
Proof. exact ldouble_no_register_lemma. Qed.
Print Assumptions ldouble_no_register.

(* after EVERY prefix of every parameter list (scalars of any type, structs/unions by value, any
   result): registers the psABI has assigned = min (c2mir's n_iregs, 6) and min (n_fregs, 8) *)
Theorem counters_eq_sysv : forall r ps n,
  result_ok r -> Forall cparam_ok ps ->
  let c := c2m_counters r (firstn n ps) in
  let s := sv_counters r (firstn n ps) in
  0 <= fst c /\ 0 <= snd c /\ fst s = Z.min (fst c) 6 /\ snd s = Z.min (snd c) 8.
Proof. exact counters_eq_sysv_lemma. Qed.
Print Assumptions counters_eq_sysv.

(* hence the MIR block type of every aggregate parameter, wherever it stands among the scalars *)
Theorem csignature_eq_sysv : forall r ps,
  result_ok r -> Forall cparam_ok ps ->
  c2m_csignature r ps = map (option_map blk_of_places) (sv_csignature r ps).
Proof. exact csignature_eq_sysv_lemma. Qed.
Print Assumptions csignature_eq_sysv.

(* non-vacuity on the boundary: f (long double, double x 7, struct {double}, struct {double}) *)
Example sig_ld_boundary :
  Forall cparam_ok sig_ld_params /\
  c2m_csignature RScalar sig_ld_params = repeat None 8 ++ [Some 2; Some 0] /\
  c2m_counters RScalar (firstn 8 sig_ld_params) = (0, 7) /\
  c2m_counters RScalar sig_ld_params = (0, 8) /\
  c2m_csignature RScalar (CScalar (TBasic KLDouble) :: sig_ld_params) = repeat None 9 ++ [Some 2; Some 0].
Proof. exact sig_ld_ok. Qed.

(* Property C01: generated machine code behaves like the interpreter at -O0..-O3.
   Level: partial.  What is proved here is about the reference semantics every engine is compared
   with (coq/Mir/Sem.v) and about the value-level rewrites of the generator that are modelled
   (coq/C01/*.v).  The optimisation passes, register allocator and encoder are NOT proved; they
   are covered only by the differential run of checks/c01.py.
   This file holds only the property theorems, each closed by [exact] + Print Assumptions. *)
From Coq Require Import List ZArith.
From MirV Require Import Mir.Opcode Mir.Syntax Mir.Sem Mir.SemProofs C01.InsnSem.

(* The reference interpreter is a function of the program and its input: the verdict (results,
   final memory, event trace, or Stuck) does not depend on the fuel supplied ... *)
Theorem sem_run_deterministic : forall isem prog ri entry args orc n m r1 r2,
  run_program isem prog ri entry args orc n = Some r1 ->
  run_program isem prog ri entry args orc m = Some r2 -> r1 = r2.
Proof. exact run_program_deterministic. Qed.
Print Assumptions sem_run_deterministic.

(* ... and more fuel never changes a verdict already reached. *)
Theorem sem_run_fuel_monotone : forall isem prog ri entry args orc n k r,
  run_program isem prog ri entry args orc n = Some r ->
  run_program isem prog ri entry args orc (n + k) = Some r.
Proof. exact run_program_fuel_mono. Qed.
Print Assumptions sem_run_fuel_monotone.

From Coq Require Import Bool.
From MirV Require Import Base.W64 C01.Peephole C01.PeepholeProofs.
Import ListNotations.
Local Open Scope Z_scope.

(* transform_mul_div (mir-gen.c): multiplication by 2^k is the left shift by k, for every operand
   value, at both widths (the 32-bit guard k < 32 is the fix 085bd33b) ... *)
Theorem mul_pow2_rewrite_sound : forall a k, 0 <= k < 64 ->
  int_val MUL [a; 2 ^ k] = int_val LSH [a; k].
Proof. exact mul_pow2_is_lsh. Qed.
Print Assumptions mul_pow2_rewrite_sound.

Theorem muls_pow2_rewrite_sound : forall a k, 0 <= k < 32 ->
  int_val MULS [a; 2 ^ k] = int_val LSHS [a; k].
Proof. exact muls_pow2_is_lshs. Qed.
Print Assumptions muls_pow2_rewrite_sound.

(* ... which is false without the guard (DESIGN section 6 #10) *)
Theorem muls_pow2_unguarded_refuted : exists a, int_val MULS [a; u32 (2 ^ 32)] <> int_val LSHS [a; 32].
Proof. exact muls_pow2_32_refuted. Qed.
Print Assumptions muls_pow2_unguarded_refuted.

(* unsigned division by 2^k is the logical right shift *)
Theorem udiv_pow2_rewrite_sound : forall a k, 0 <= a < 2 ^ 64 -> 0 <= k < 64 ->
  int_val UDIV [a; 2 ^ k] = int_val URSH [a; k].
Proof. exact udiv_pow2_is_ursh. Qed.
Print Assumptions udiv_pow2_rewrite_sound.

Theorem udivs_pow2_rewrite_sound : forall a k, 0 <= a < 2 ^ 32 -> 0 <= k < 32 ->
  int_val UDIVS [a; 2 ^ k] = int_val URSHS [a; k].
Proof. exact udivs_pow2_is_urshs. Qed.
Print Assumptions udivs_pow2_rewrite_sound.

(* signed division by 2^k (1 <= k <= 62; 2^63 is not a positive int64): the five-instruction bias
   sequence  rsh 63 ; and 2^k-1 ; add ; rsh k  computes the truncating quotient for every dividend,
   negative ones included *)
Theorem div_pow2_rewrite_sound : forall a k, 0 <= a < 2 ^ 64 -> 1 <= k <= 62 ->
  div_pow2_seq a k = int_val DIV [a; 2 ^ k].
Proof. exact div_pow2_seq_correct. Qed.
Print Assumptions div_pow2_rewrite_sound.

(* 32-bit: rshs 31 ; ands ; adds ; rshs k, 1 <= k <= 30 *)
Theorem divs_pow2_rewrite_sound : forall a k, 0 <= a < 2 ^ 32 -> 1 <= k <= 30 ->
  divs_pow2_seq a k = int_val DIVS [a; 2 ^ k].
Proof. exact divs_pow2_seq_correct. Qed.
Print Assumptions divs_pow2_rewrite_sound.

(* The dataflow passes (mir-gen.c solve_dataflow) iterate a transfer function until no "changed" flag
   is raised.  If a false flag really means "unchanged" and every change consumes some of a finite
   height, the loop ends in a fixpoint of the sweep, whatever the sweep is ... *)
Theorem dataflow_fixpoint_if_flags_exact :
  forall (S : Type) (step : S -> S * bool) (measure : S -> nat),
  (forall s, snd (step s) = false -> fst (step s) = s) ->
  (forall s, snd (step s) = true -> (measure (fst (step s)) < measure s)%nat) ->
  forall n s, (measure s <= n)%nat ->
  step (iterate S step (Datatypes.S n) s) = (iterate S step (Datatypes.S n) s, false).
Proof. exact iterate_reaches_fixpoint. Qed.
Print Assumptions dataflow_fixpoint_if_flags_exact.

(* ... and it can stop short of one when a flag may be false although the state changed *)
Theorem dataflow_inexact_flags_refuted :
  exists (step : nat -> nat * bool) s n, fst (step (iterate nat step n s)) <> iterate nat step n s.
Proof. exact iterate_inexact_flags_refuted. Qed.
Print Assumptions dataflow_inexact_flags_refuted.

(* non-vacuity: the bias sequence on the most negative dividend and on -1 *)
Example div_pow2_examples :
  div_pow2_seq (2 ^ 63) 3 = Some (u64 (- 2 ^ 60)) /\ div_pow2_seq (2 ^ 64 - 1) 1 = Some 0 /\
  divs_pow2_seq (2 ^ 31) 30 = Some (u32 (-2)).
Proof. repeat split. Qed.

(* The integer instruction semantics of the reference interpreter (C01/InsnSem: int_val, int_br,
   int_ovf, written from MIR.md for this property) coincides with the documented semantics that
   property C02 uses as its oracle (Mir/DocSpecInt: doc_sem_int, doc_branch_int, doc_ovf, written from
   MIR.md independently by another builder), for every integer value instruction, compare-and-branch
   and overflow instruction and all source values reduced to the instruction's source kind - which is
   how Sem.exec_val / exec_insn feed them (use_as).  Both say "undefined" in exactly the same cases
   (division by zero, MIN / -1, shift counts outside the width). *)
From MirV Require Import Mir.DocSpecInt C01.DocRefine.

Theorem sem_int_insn_is_docspec : forall o ks kd xs,
  val_op o = Some (ks, kd) -> fp_kind ks || fp_kind kd = false -> ovf_op o = false ->
  Forall (in_kind ks) xs ->
  int_val o xs = doc_sem_int o xs.
Proof. exact int_val_eq_doc. Qed.
Print Assumptions sem_int_insn_is_docspec.

Theorem sem_int_branch_is_docspec : forall o k xs t,
  br_op o = Some k -> fp_kind k = false -> Forall (in_kind k) xs ->
  int_br o xs = Some t -> doc_branch_int o xs = Some t.
Proof. exact int_br_refines_doc. Qed.
Print Assumptions sem_int_branch_is_docspec.

(* overflow instructions: the result and every flag the instruction defines are DocSpec's; the flag it
   does not define (unsigned for MULO, signed for UMULO) is None for the interpreter, so a branch on it
   is Stuck *)
Theorem sem_int_ovf_is_docspec : forall o ks kd a b r fs fu,
  val_op o = Some (ks, kd) -> ovf_op o = true ->
  in_kind ks a -> in_kind ks b ->
  int_val o [a; b] = Some r -> int_ovf o [a; b] = Some (fs, fu) ->
  exists s u, doc_ovf o [a; b] = Some (r, s, u) /\
              fs = (if fst (ovf_defined o) then Some s else None) /\
              fu = (if snd (ovf_defined o) then Some u else None).
Proof. exact int_ovf_refines_doc. Qed.
Print Assumptions sem_int_ovf_is_docspec.

(* long double at function boundaries of the reference semantics: between MIR functions (arguments,
   results) a long double passes with all its 80 bits and nothing but a long double passes at type ld,
   a long double passes at no other type; external functions and the entry result do not take the type *)
Theorem sem_long_double_boundary : forall z,
  conv_ty Syntax.T_LD false (V z LDt) = Ok (V z LDt) /\
  (forall g, g <> LDt -> conv_ty Syntax.T_LD false (V z g) = Er E_tag) /\
  (forall v, conv_ty Syntax.T_LD true v = Er E_tag) /\
  (forall t, t <> Syntax.T_LD -> conv_ty t false (V z LDt) = Er E_tag).
Proof. exact ld_boundary. Qed.
Print Assumptions sem_long_double_boundary.

(* ---- GVN: the value of a phi (mir-gen.c gvn_phi_val; model C01/PhiVal.v) ------------------------------
   A bb_insn's value is (is-constant flag, number): the constant itself, or the value number of its
   expression - both small integers in ONE field.  [phi_cmp_flag]/[phi_cmp_val] (coq/gen/C01PhiVal.v,
   regenerated from the source text on every run by tools/tr_c01_phival.py) say which of the two the scan
   of the phi inputs compares.  With the scan as it stands in the tree: *)
From MirV Require Import C01.PhiVal C01.PhiValProofs gen.C01PhiVal.
Import ListNotations.
Open Scope Z_scope.

(* a phi is folded to `mov r, K` only if EVERY input is the constant K (so every input evaluates to K
   whatever the value numbers stand for) - any number of inputs, any constants and numbers *)
Theorem gvn_phi_const_fold_sound : forall idx ins K, ins <> [] ->
  phi_val phi_cmp_flag phi_cmp_val idx ins = (true, K) ->
  Forall (fun d => d = Some (G true K) /\ forall rho, option_map (den rho) d = Some K) ins.
Proof. exact (phi_const_sound phi_cmp_flag phi_cmp_val eq_refl eq_refl). Qed.
Print Assumptions gvn_phi_const_fold_sound.

(* a phi takes over the value (c, n) of its inputs only if every input carries exactly (c, n): all of
   them evaluate to what (c, n) stands for *)
Theorem gvn_phi_number_sound : forall ins c n, ins <> [] ->
  phi_same phi_cmp_flag phi_cmp_val ins = Some (G c n) ->
  forall rho, Forall (fun d => option_map (den rho) d = Some (den rho (G c n))) ins.
Proof. exact (phi_number_sound phi_cmp_flag phi_cmp_val eq_refl eq_refl). Qed.
Print Assumptions gvn_phi_number_sound.

(* comparing the numbers alone is not enough: the constant 3 and the value number 3 then count as one
   value - the phi of (constant 3, expression number 3) is folded to 3 although the expression evaluates
   to 9; in the other order the phi is taken for the expression *)
Theorem gvn_phi_flags_not_compared_refuted :
  (exists ins rho, phi_val false true 0 ins = (true, 3) /\ exists g, In (Some g) ins /\ den rho g <> 3) /\
  (exists ins rho, phi_same false true ins = Some (G false 3) /\
                   exists g, In (Some g) ins /\ den rho g <> den rho (G false 3)).
Proof. exact phi_flags_not_compared_refuted_both. Qed.
Print Assumptions gvn_phi_flags_not_compared_refuted.

(* Property C01: generated machine code behaves like the interpreter at -O0..-O3.
   Level: partial.  What is proved here is about the reference semantics every engine is compared
   with (coq/Mir/Sem.v) and about the value-level rewrites of the generator that are modelled
   (coq/C01/*.v).  The optimisation passes, register allocator and encoder are NOT proved; they
   are covered only by the differential run of checks/c01.py.
   This file holds only the property theorems, each closed by [exact] + Print Assumptions. *)
From Coq Require Import List ZArith.
From MirV Require Import Mir.Opcode Mir.Syntax Mir.Sem Mir.SemProofs C01.InsnSem.

(* The reference interpreter is a function of the program and its input: the verdict (results,
   final memory, event trace, or Stuck) does not depend on the fuel supplied ... *)
Theorem sem_run_deterministic : forall isem prog ri entry args orc n m r1 r2,
  run_program isem prog ri entry args orc n = Some r1 ->
  run_program isem prog ri entry args orc m = Some r2 -> r1 = r2.
Proof. exact run_program_deterministic. Qed.
Print Assumptions sem_run_deterministic.

(* ... and more fuel never changes a verdict already reached. *)
Theorem sem_run_fuel_monotone : forall isem prog ri entry args orc n k r,
  run_program isem prog ri entry args orc n = Some r ->
  run_program isem prog ri entry args orc (n + k) = Some r.
Proof. exact run_program_fuel_mono. Qed.
Print Assumptions sem_run_fuel_monotone.

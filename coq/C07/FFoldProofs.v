(* C07: compile-time evaluation of floating / mixed constant expressions (FFold, after fixes/C07-16.patch)
   agrees with the run-time meaning for every value on which the run-time meaning is defined; the
   pre-fix folder (long double arithmetic whatever the type) is refuted on double. *)
From Coq Require Import ZArith Bool List Lia Reals.
From Flocq Require Import Core IEEE754.BinarySingleNaN.
From MirV Require Import Base.W64 C07.Limits C07.CConv C07.C11Conv C07.CConvProofs C07.CFold C07.C11Fold
  C07.CFoldProofs C07.FFold.
Local Open Scope Z_scope.

(* converting a number to its own format changes nothing: the identity conversion at the end of check() *)
Lemma bconv_same p e (Hp : FLX.Prec_gt_0 p) (He : Prec_lt_emax p e) (x : binary_float p e) :
  bconv p e Hp He x = x.
Proof.
  destruct x as [s|s| |s m ex H]; try reflexivity.
  cbn [bconv].
  set (x := B754_finite s m ex H).
  pose proof (binary_normalize_correct p e Hp He mode_NE (cond_Zopp s (Zpos m)) ex s) as C.
  cbv zeta in C.
  assert (Hx : F2R (Float radix2 (cond_Zopp s (Zpos m)) ex) = B2R x) by reflexivity.
  rewrite Hx in C.
  rewrite round_generic in C by (try apply valid_rnd_N; apply generic_format_B2R).
  rewrite Rlt_bool_true in C by apply abs_B2R_lt_emax.
  destruct C as (C1 & C2 & C3).
  apply B2R_Bsign_inj; try assumption; try reflexivity.
  rewrite C3. unfold x. cbn [Bsign B2R].
  destruct s; cbn [cond_Zopp].
  - rewrite Rcompare_Lt; [reflexivity|]. apply F2R_lt_0. reflexivity.
  - rewrite Rcompare_Gt; [reflexivity|]. apply F2R_gt_0. reflexivity.
Qed.

Lemma to32_P32 y : to32 (P32 y) = y. Proof. apply bconv_same. Qed.
Lemma to64_P64 y : to64 (P64 y) = y. Proof. apply bconv_same. Qed.
Lemma to80_P80 y : to80 (P80 y) = y. Proof. apply bconv_same. Qed.

Lemma fp_to_idem t x : fp_to t (fp_to t x) = fp_to t x.
Proof. destruct t; cbn [fp_to]; rewrite ?to32_P32, ?to64_P64, ?to80_P80; reflexivity. Qed.
Lemma fp_to_of_Z t z : fp_to t (fp_of_Z t z) = fp_of_Z t z.
Proof. destruct t; cbn [fp_to fp_of_Z]; rewrite ?to32_P32, ?to64_P64, ?to80_P80; reflexivity. Qed.
Lemma fp_to_op t f x y : fp_to t (fp_op t f x y) = fp_op t f x y.
Proof. destruct t; cbn [fp_to fp_op]; rewrite ?to32_P32, ?to64_P64, ?to80_P80; reflexivity. Qed.

Lemma is_float_eq t : is_float t = floating_type_p t. Proof. destruct t; reflexivity. Qed.
Lemma float_not_int t : floating_type_p t = true -> integer_type_p t = false.
Proof. unfold integer_type_p. intros ->. reflexivity. Qed.
Lemma int_of_not_float t : floating_type_p t = false -> integer_type_p t = true.
Proof. unfold integer_type_p. intros ->. reflexivity. Qed.

(* a value the C type can represent is a value the host type of the CONV line can represent *)
Lemma in_range_host t z : floating_type_p t = false -> t <> TBool -> in_range t z = true -> host_range t z = true.
Proof.
  intros F B R. apply in_range_iff in R. revert R.
  destruct t; try discriminate F; try congruence;
    unfold host_range, tmin, tmax, is_signed, signed_integer_type_p, conv_bits, width, char_signed,
      char_bits, short_bits, int_bits, long_bits, llong_bits; cbn; lia.
Qed.

Lemma cast_value_convert t z : floating_type_p t = false -> cast_value false t z = convert t z.
Proof. intros F. apply (cast_convert_all t z), int_of_not_float, F. Qed.

(* what C11 converts to, c2m converts to *)
Lemma acast_eq_c11 t v w : c11_aconv t v = Some w -> acast t v = Some w.
Proof.
  unfold c11_aconv, acast. rewrite is_float_eq. destruct v as [z|x].
  - destruct (floating_type_p t) eqn:F; [tauto|]. rewrite cast_value_convert by assumption. tauto.
  - destruct (floating_type_p t) eqn:F; [tauto|].
    destruct t; try discriminate F; try tauto;
      (destruct (fp_trunc x) as [z|]; [|discriminate]);
      (destruct (in_range _ z) eqn:R; [|discriminate]);
      (rewrite in_range_host by (assumption || discriminate)); tauto.
Qed.

(* a converted value is a fixed point of the conversion: the final normalisation keeps it *)
Lemma acast_c11_fixed t v w : c11_aconv t v = Some w -> acast t w = Some w.
Proof.
  unfold c11_aconv. rewrite is_float_eq. destruct v as [z|x]; destruct (floating_type_p t) eqn:F.
  - intros H; apply some_inj in H; subst w. unfold acast. rewrite F, fp_to_of_Z. reflexivity.
  - intros H; apply some_inj in H; subst w. unfold acast. rewrite F, cast_value_convert by assumption.
    rewrite convert_idem_range; [reflexivity|apply int_of_not_float, F|apply convert_range_all, int_of_not_float, F].
  - intros H; apply some_inj in H; subst w. unfold acast. rewrite F, fp_to_idem. reflexivity.
  - assert (G : forall z, in_range t z = true -> acast t (AI z) = Some (AI z)).
    { intros z R. unfold acast. rewrite F, cast_value_convert by assumption.
      rewrite convert_idem_range; [reflexivity|apply int_of_not_float, F|assumption]. }
    destruct t; try discriminate F;
      try (destruct (fp_trunc x) as [z|]; [|discriminate]; destruct (in_range _ z) eqn:R; [|discriminate];
           intros H; apply some_inj in H; subst w; apply G, R).
    intros H; apply some_inj in H; subst w. destruct (fp_nz x); reflexivity.
Qed.

Lemma fnorm_c11 t v w : c11_aconv t v = Some w -> fnorm t w = Some (mka t w).
Proof. intros H. unfold fnorm. rewrite (acast_c11_fixed _ _ _ H). reflexivity. Qed.

Lemma fnorm_int_b2z b : fnorm TInt (AI (b2z b)) = Some (mka TInt (AI (b2z b))).
Proof. destruct b; reflexivity. Qed.

Lemma c11_aconv_AF_float t v x : c11_aconv t v = Some (AF x) -> floating_type_p t = true.
Proof.
  unfold c11_aconv. rewrite is_float_eq. destruct (floating_type_p t); [reflexivity|].
  destruct v as [z|y]; [discriminate|].
  destruct t; try discriminate; destruct (fp_trunc y) as [z|]; try discriminate; destruct (in_range _ z); discriminate.
Qed.

Lemma wfa_AI t z : wfa (mka t (AI z)) = wf (mkc t z). Proof. reflexivity. Qed.

(* ---- the theorems ---- *)
Theorem ffold_bin_eq_runtime o a b r : wfa a = true -> wfa b = true ->
  rt_fbin o a b = Some r -> ffold_bin false o a b = Some r.
Proof.
  destruct a as [ta va], b as [tb vb]. unfold rt_fbin, ffold_bin. cbn [aty avl]. intros Wa Wb.
  assert (G : forall x y,
    match c11_aconv (c11_conv ta tb) x, c11_aconv (c11_conv ta tb) y with
    | Some (AF x), Some (AF y) =>
        if is_ccmp o then Some (mka TInt (AI (b2z (cmp_res o (fp_compare (c11_conv ta tb) x y)))))
        else match fop_of o with Some f => Some (mka (c11_conv ta tb) (AF (fp_op (c11_conv ta tb) f x y))) | None => None end
    | _, _ => None
    end = Some r ->
    match acast (arithmetic_conversion false ta tb) x, acast (arithmetic_conversion false ta tb) y with
    | Some (AF x), Some (AF y) =>
        if is_ccmp o then fnorm TInt (AI (b2z (cmp_res o (fp_compare (arithmetic_conversion false ta tb) x y))))
        else match fop_of o with
             | Some f => fnorm (arithmetic_conversion false ta tb) (AF (fp_op (arithmetic_conversion false ta tb) f x y))
             | None => None
             end
    | _, _ => None
    end = Some r).
  { intros x y. rewrite conv_eq. set (t := c11_conv ta tb).
    destruct (c11_aconv t x) as [[zx|fx]|] eqn:Cx; try discriminate.
    destruct (c11_aconv t y) as [[zy|fy]|] eqn:Cy; try discriminate.
    rewrite (acast_eq_c11 _ _ _ Cx), (acast_eq_c11 _ _ _ Cy).
    destruct (is_ccmp o); [rewrite fnorm_int_b2z; tauto|].
    destruct (fop_of o) as [f|]; [|discriminate].
    intros H. rewrite <- H. unfold fnorm, acast. rewrite (c11_aconv_AF_float _ _ _ Cx), fp_to_op. reflexivity. }
  destruct va as [x|x], vb as [y|y]; try apply G.
  rewrite wfa_AI in Wa, Wb.
  destruct (rt_bin o (mkc ta x) (mkc tb y)) as [r0|] eqn:R; [|discriminate].
  rewrite (fold_bin_eq_runtime _ _ _ _ Wa Wb R). tauto.
Qed.

(* before fixes/C07-16.patch: right for long double results, for comparisons and for integer operands *)
Theorem ffold_bin_extprec_partial o a b r : wfa a = true -> wfa b = true ->
  is_ccmp o = true \/ c11_conv (aty a) (aty b) = TLDouble
  \/ (integer_type_p (aty a) = true /\ integer_type_p (aty b) = true) ->
  rt_fbin o a b = Some r -> ffold_bin true o a b = Some r.
Proof.
  intros Wa Wb G R. rewrite <- (ffold_bin_eq_runtime _ _ _ _ Wa Wb R).
  destruct a as [ta va], b as [tb vb]. unfold ffold_bin. cbn [aty avl] in *.
  destruct va as [x|x], vb as [y|y]; try reflexivity;
    (destruct G as [G|[G|[Ga Gb]]];
     [rewrite G; reflexivity | rewrite conv_eq, G; reflexivity | ]).
  - exfalso. unfold wfa in Wb. cbn [avl aty] in Wb. destruct y; destruct tb; discriminate.
  - exfalso. unfold wfa in Wa. cbn [avl aty] in Wa. destruct x; destruct ta; discriminate.
  - exfalso. unfold wfa in Wa. cbn [avl aty] in Wa. destruct x; destruct ta; discriminate.
Qed.

Theorem ffold_un_eq_runtime o a r : wfa a = true -> rt_fun o a = Some r -> ffold_un o a = Some r.
Proof.
  destruct a as [t v]. unfold rt_fun, ffold_un. cbn [aty avl]. intros W. destruct v as [z|x].
  - rewrite wfa_AI in W. destruct (rt_un o (mkc t z)) as [r0|] eqn:R; [|discriminate].
    rewrite (fold_un_eq_runtime _ _ _ W R). tauto.
  - assert (G : forall y, fp_type y = fp_type x -> fnorm t (AF y) = Some (mka t (AF y))).
    { intros y E. unfold wfa in W. cbn [avl aty] in W. unfold fnorm, acast.
      destruct x, y; try discriminate E; destruct t; try discriminate W; cbn [floating_type_p fp_to];
        rewrite ?to32_P32, ?to64_P64, ?to80_P80; reflexivity. }
    destruct o; try tauto.
    + rewrite G by reflexivity. tauto.
    + rewrite G by (destruct x; reflexivity). tauto.
    + rewrite fnorm_int_b2z. tauto.
Qed.

Theorem ffold_cast_eq_runtime t a r : rt_fcast t a = Some r -> ffold_cast t a = Some r.
Proof.
  unfold rt_fcast, ffold_cast. destruct (c11_aconv t (avl a)) as [v|] eqn:C; [|discriminate].
  rewrite (acast_eq_c11 _ _ _ C), (fnorm_c11 _ _ _ C). tauto.
Qed.

(* the class of seeded C07-x1: the selected part is converted to the result type, whatever mix of types *)
Theorem ffold_cond_eq_runtime c a b r : rt_fcond c a b = Some r -> ffold_cond c a b = Some r.
Proof.
  unfold rt_fcond, ffold_cond. rewrite conv_eq. set (t := c11_conv (aty a) (aty b)).
  destruct (c11_aconv t (avl (if truth (avl c) then a else b))) as [v|] eqn:C; [|discriminate].
  rewrite (acast_eq_c11 _ _ _ C), (fnorm_c11 _ _ _ C). tauto.
Qed.

Theorem ffold_logic_eq_runtime a b :
  ffold_andand a b = Some (rt_fandand a b) /\ ffold_oror a b = Some (rt_foror a b).
Proof.
  unfold ffold_andand, rt_fandand, ffold_oror, rt_foror.
  split; destruct (truth (avl a)); try apply fnorm_int_b2z; reflexivity.
Qed.

(* ---- the pre-fix folder: 1.0 + 0x1.0000000000001p-53 in double ---- *)
Definition dr_a : acv := mka TDouble (AF (fp_make TDouble false 1 0)).
Definition dr_b : acv := mka TDouble (AF (fp_make TDouble false 4503599627370497 (-105))).
Definition res_view (r : option acv) : option fview :=
  match r with Some (mka _ (AF x)) => Some (fp_view x) | _ => None end.

Lemma extprec_refuted :
  exists a b r, wfa a = true /\ wfa b = true /\ rt_fbin CAdd a b = Some r /\ ffold_bin true CAdd a b <> Some r.
Proof.
  exists dr_a, dr_b. destruct (rt_fbin CAdd dr_a dr_b) as [r|] eqn:R.
  - exists r. repeat split; try reflexivity. intros E.
    assert (V : res_view (ffold_bin true CAdd dr_a dr_b) = res_view (rt_fbin CAdd dr_a dr_b)) by (rewrite E, R; reflexivity).
    vm_compute in V. discriminate V.
  - exfalso. assert (V : res_view (rt_fbin CAdd dr_a dr_b) = None) by (rewrite R; reflexivity).
    vm_compute in V. discriminate V.
Qed.

(* non-vacuity: the theorems' premises hold on mixed constants, with the expected values *)
Example ffold_examples :
  (* 1 ? 1 : 2.0 is the double 1.0; MAX-like 0 ? 2.5 : 3 is 3.0 *)
  res_view (ffold_cond (mka TInt (AI 1)) (mka TInt (AI 1)) (mka TDouble (AF (fp_make TDouble false 2 0))))
    = Some (VFin false 4503599627370496 (-52))
  /\ res_view (rt_fcond (mka TInt (AI 1)) (mka TInt (AI 1)) (mka TDouble (AF (fp_make TDouble false 2 0))))
    = Some (VFin false 4503599627370496 (-52))
  /\ res_view (ffold_cond (mka TInt (AI 0)) (mka TDouble (AF (fp_make TDouble false 5 (-1)))) (mka TInt (AI 3)))
    = Some (VFin false 6755399441055744 (-51))
  (* (int) 2.5 = 2, (float) 16777217 = 16777216.0f, 1 < 2.5 *)
  /\ ffold_cast TInt (mka TDouble (AF (fp_make TDouble false 5 (-1)))) = Some (mka TInt (AI 2))
  /\ res_view (ffold_cast TFloat (mka TInt (AI 16777217))) = Some (VFin false 8388608 1)
  /\ ffold_bin false CLt (mka TInt (AI 1)) (mka TDouble (AF (fp_make TDouble false 5 (-1)))) = Some (mka TInt (AI 1))
  /\ wfa (mka TDouble (AF (fp_make TDouble false 5 (-1)))) = true.
Proof. vm_compute. repeat split; reflexivity. Qed.

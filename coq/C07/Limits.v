(* Target data model of c2mir on x86-64 Linux (c2mir/x86_64/cx86_64.h).  COMMITTED; every run of
   ./check C07 and ./check C09 re-verifies these numbers against the header of the current tree
   (tools/tr_c07_limits.py --check compiles a probe that includes the header and prints the
   MIR_x_MAX values and sizeof of the mir_x types). *)
From Coq Require Import ZArith.
Local Open Scope Z_scope.

Definition char_bits  : Z := 8.
Definition short_bits : Z := 16.
Definition int_bits   : Z := 32.
Definition long_bits  : Z := 64.
Definition llong_bits : Z := 64.
Definition char_signed : bool := true.

Definition MIR_INT_MAX   : Z := 2 ^ 31 - 1.
Definition MIR_UINT_MAX  : Z := 2 ^ 32 - 1.
Definition MIR_LONG_MAX  : Z := 2 ^ 63 - 1.
Definition MIR_ULONG_MAX : Z := 2 ^ 64 - 1.
Definition MIR_LLONG_MAX : Z := 2 ^ 63 - 1.
Definition MIR_ULLONG_MAX : Z := 2 ^ 64 - 1.
Definition MIR_CHAR_MAX  : Z := 127.
Definition MIR_UCHAR_MAX : Z := 255.
Definition MIR_USHORT_MAX : Z := 65535.

(* C07 (round 3, wave z): where c2mir keeps the struct/union values returned by calls.
   c2mir.c check() / gen(), case N_CALL, and update_call_arg_area_offset: every function has a "call argument area" at the
   end of its frame; [curr_call_arg_area_offset] (here [cur]) is the first free byte of it while a full expression is
   processed.  A call whose result is a struct/union reserves round_size (type_size, MAX_ALIGNMENT) bytes at [cur] for the
   result (the `ADD t, fp, offset` instruction), THEN remembers the offset, processes the arguments (each of them may
   reserve more) and finally goes back to the remembered offset: the slots of the arguments are released, the slot of the
   call's own result stays reserved until the end of the full expression ([cur := 0] at statement level).  check() runs the
   same discipline to size the area (ns->call_arg_area_size = the largest offset reached).
   Definitions only; proofs are in CallTempsProofs.v.

   An expression is reduced to what matters here: calls with the size of their result type (0 = not an aggregate) and
   their arguments, and every other operator as a node that processes its operands in order. *)
From Coq Require Import List NArith Bool.
Import ListNotations.
Local Open Scope N_scope.

Inductive expr :=
| Call (sz : N) (args : list expr)
| Op (subs : list expr).

Definition round16 (n : N) : N := (n + 15) / 16 * 16.          (* round_size (n, MAX_ALIGNMENT) *)

(* what gen() does with the area, in the order of the emitted code *)
Inductive ev :=
| Alloc (off len : N)          (* `ADD t, fp, off`: [off, off+len) is reserved for the result of a call *)
| Write (off len : N).         (* the call instruction: the callee's value is stored to [off, off+len) *)
Definition ev_off (e : ev) : N := match e with Alloc o _ | Write o _ => o end.
Definition ev_len (e : ev) : N := match e with Alloc _ l | Write _ l => l end.

Section Gen.
  (* [early] = the seeded change C07-z2: the offset is remembered BEFORE the call's own result slot is reserved *)
  Variable early : bool.

  Fixpoint gen (e : expr) (cur : N) {struct e} : list ev * N :=
    let gl := fix gl (l : list expr) (c : N) {struct l} : list ev * N :=
                match l with
                | [] => ([], c)
                | a :: r => let (e1, c1) := gen a c in let (e2, c2) := gl r c1 in (e1 ++ e2, c2)
                end in
    match e with
    | Call sz args =>
        let cur1 := if sz =? 0 then cur else cur + round16 sz in
        let saved := if early then cur else cur1 in
        let (evs, _) := gl args cur1 in
        ((if sz =? 0 then [] else [Alloc cur (round16 sz)]) ++ evs ++ (if sz =? 0 then [] else [Write cur sz]), saved)
    | Op subs => gl subs cur
    end.

  Fixpoint gen_list (l : list expr) (c : N) : list ev * N :=
    match l with
    | [] => ([], c)
    | a :: r => let (e1, c1) := gen a c in let (e2, c2) := gen_list r c1 in (e1 ++ e2, c2)
    end.
End Gen.

(* check(): the same walk, keeping the largest offset reached (ns->call_arg_area_size) *)
Fixpoint chk (e : expr) (cur mx : N) {struct e} : N * N :=
  let cl := fix cl (l : list expr) (c m : N) {struct l} : N * N :=
              match l with
              | [] => (c, m)
              | a :: r => let (c1, m1) := chk a c m in cl r c1 m1
              end in
  match e with
  | Call sz args =>
      let cur1 := if sz =? 0 then cur else cur + round16 sz in
      let mx1 := N.max mx cur1 in
      let (_, mx2) := cl args cur1 mx1 in
      (cur1, mx2)
  | Op subs => cl subs cur mx
  end.

Fixpoint chk_list (l : list expr) (c m : N) : N * N :=
  match l with
  | [] => (c, m)
  | a :: r => let (c1, m1) := chk a c m in chk_list r c1 m1
  end.

(* the slots the VALUE of an expression processed at [cur] may still refer to: the result slot of a call; for any other
   operator (member access, ?:, comma, assignment, cast ...) whatever its operands refer to *)
Fixpoint vslots (e : expr) (cur : N) {struct e} : list (N * N) :=
  let vl := fix vl (l : list expr) (c : N) {struct l} : list (N * N) :=
              match l with
              | [] => []
              | a :: r => vslots a c ++ vl r (snd (gen false a c))
              end in
  match e with
  | Call sz _ => if sz =? 0 then [] else [(cur, round16 sz)]
  | Op subs => vl subs cur
  end.

Fixpoint vslots_list (l : list expr) (c : N) : list (N * N) :=
  match l with
  | [] => []
  | a :: r => vslots a c ++ vslots_list r (snd (gen false a c))
  end.

Definition disjoint (s : N * N) (e : ev) : Prop := fst s + snd s <= ev_off e \/ ev_off e + ev_len e <= fst s.

(* a function body as the list of its full expressions: every one starts at offset 0 *)
Definition area_size (body : list expr) : N := fold_left (fun m e => snd (chk e 0 m)) body 0.
Definition body_events (early : bool) (body : list expr) : list ev := flat_map (fun e => fst (gen early e 0)) body.

(* C07: integer promotions (C11 6.3.1.1), usual arithmetic conversions (6.3.1.8) and the type of
   an integer constant (6.4.4.1p5) for the LP64 data model, written from the standard in terms of
   conversion rank, signedness and "can represent all values of", independently of c2mir's
   enumerator-order tricks. *)
From Coq Require Import ZArith Bool List.
From MirV Require Import C07.Limits C07.CConv.
Local Open Scope Z_scope.

(* 6.3.1.1p1 conversion rank *)
Definition rank (t : btype) : Z :=
  match t with
  | TBool => 0
  | TChar | TSChar | TUChar => 1
  | TShort | TUShort => 2
  | TInt | TUInt => 3
  | TLong | TULong => 4
  | TLLong | TULLong => 5
  | _ => 6
  end.

Definition is_signed (t : btype) : bool :=
  match t with
  | TChar => char_signed          (* implementation-defined; x86-64 psABI: signed *)
  | TSChar | TShort | TInt | TLong | TLLong => true
  | _ => false
  end.

Definition width (t : btype) : Z :=
  match t with
  | TBool => 1
  | TChar | TSChar | TUChar => char_bits
  | TShort | TUShort => short_bits
  | TInt | TUInt => int_bits
  | TLong | TULong => long_bits
  | TLLong | TULLong => llong_bits
  | _ => 0
  end.

Definition tmin (t : btype) : Z := if is_signed t then - 2 ^ (width t - 1) else 0.
Definition tmax (t : btype) : Z := if is_signed t then 2 ^ (width t - 1) - 1 else 2 ^ width t - 1.

(* "type a can represent all values of type b" *)
Definition represents_all (a b : btype) : bool := (tmin a <=? tmin b) && (tmax b <=? tmax a).

Definition is_float (t : btype) : bool := match t with TFloat | TDouble | TLDouble => true | _ => false end.

(* 6.3.1.1p2 *)
Definition c11_promote (t : btype) : btype :=
  if is_float t then t
  else match t with
       | TInt | TUInt => t
       | _ => if rank t <=? rank TInt then (if represents_all TInt t then TInt else TUInt) else t
       end.

Definition unsigned_of (t : btype) : btype :=
  match t with
  | TChar | TSChar => TUChar | TShort => TUShort | TInt => TUInt | TLong => TULong | TLLong => TULLong
  | _ => t
  end.

(* 6.3.1.8p1 *)
Definition c11_conv (a b : btype) : btype :=
  match a, b with
  | TLDouble, _ | _, TLDouble => TLDouble
  | TDouble, _ | _, TDouble => TDouble
  | TFloat, _ | _, TFloat => TFloat
  | _, _ =>
      let a := c11_promote a in let b := c11_promote b in
      if btype_eqb a b then a
      else if Bool.eqb (is_signed a) (is_signed b) then (if rank a <? rank b then b else a)
      else
        let '(u, s) := if is_signed a then (b, a) else (a, b) in
        if rank s <=? rank u then u
        else if represents_all s u then s
        else unsigned_of s
  end.

(* 6.4.4.1p5: the first type of the list in which the value fits; None if there is none
   (then the constant has no type / an extended type: outside the property) *)
Definition fits_type (t : btype) (v : Z) : bool := v <=? tmax t.

Fixpoint first_fit (l : list btype) (v : Z) : option btype :=
  match l with
  | nil => None
  | cons t r => if fits_type t v then Some t else first_fit r v
  end.

Definition const_list (dec uns : bool) (lcount : Z) : list btype :=
  let all := if uns then cons TUInt (cons TULong (cons TULLong nil))
             else if dec then cons TInt (cons TLong (cons TLLong nil))
             else cons TInt (cons TUInt (cons TLong (cons TULong (cons TLLong (cons TULLong nil))))) in
  filter (fun t => lcount + 3 <=? rank t) all.   (* l: at least long (rank 4), ll: at least long long *)

Definition c11_const_type (dec uns : bool) (lcount : Z) (v : Z) : option btype :=
  first_fit (const_list dec uns lcount) v.

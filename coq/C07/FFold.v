(* C07: compile-time evaluation of constant expressions with FLOATING or mixed integer/floating operands.
   c2m side = transcription of c2mir/c2mir.c: cast_value / convert_value for all 15 basic types (the CONV
   table incl. the d_val lines), the floating branches of check_assign_op (+ - * /, comparisons), of
   check() for unary + - !, casts, ?: (N_COND: the SELECTED part is converted to the result type, then
   copied), && ||, and the normalisation `if (e->const_p) convert_value (e, e->type)`.
   C11 side = 6.3.1.2, 6.3.1.4, 6.3.1.5, 6.3.1.8, 6.5.x with FLT_EVAL_METHOD 0 / Annex F (IEEE 754 binary32,
   binary64, x87 80-bit extended; round to nearest even).
   Floating values are Flocq BinarySingleNaN numbers of the three formats.  Modelling choice: the field
   d_val is a C `long double`; a d_val that holds the result of `(mir_float) x` / `(mir_double) x` is
   represented by the binary32 / binary64 number itself (C11 6.3.1.5p1: the widening back is exact).
   [q_ext] = check_assign_op before fixes/C07-16.patch: + - * / computed in long double whatever the type.
   Definitions only. *)
From Coq Require Import ZArith Bool List.
From Flocq Require Import Core IEEE754.BinarySingleNaN.
From MirV Require Import Base.W64 C07.Limits C07.CConv C07.C11Conv C07.CFold C07.C11Fold.
Local Open Scope Z_scope.

Definition f32 := binary_float 24 128.
Definition f64 := binary_float 53 1024.
Definition f80 := binary_float 64 16384.
Definition p24 : FLX.Prec_gt_0 24 := eq_refl.
Definition e24 : Prec_lt_emax 24 128 := eq_refl.
Definition p53 : FLX.Prec_gt_0 53 := eq_refl.
Definition e53 : Prec_lt_emax 53 1024 := eq_refl.
Definition p64 : FLX.Prec_gt_0 64 := eq_refl.
Definition e64 : Prec_lt_emax 64 16384 := eq_refl.

Section Generic.
Context {p e : Z}.

(* conversion to another format: round to nearest even; zeros, infinities and NaN are kept *)
Definition bconv (p' e' : Z) (Hp : FLX.Prec_gt_0 p') (He : Prec_lt_emax p' e') (x : binary_float p e)
  : binary_float p' e' :=
  match x with
  | B754_zero s => B754_zero s
  | B754_infinity s => B754_infinity s
  | B754_nan => B754_nan
  | B754_finite s m ex _ => binary_normalize p' e' Hp He mode_NE (cond_Zopp s (Zpos m)) ex s
  end.

(* x != 0.0 (true for NaN) *)
Definition bnz (x : binary_float p e) : bool := match x with B754_zero _ => false | _ => true end.

(* truncation toward zero; None for infinities and NaN *)
Definition btrunc (x : binary_float p e) : option Z :=
  match x with
  | B754_zero _ => Some 0
  | B754_finite s m ex _ => Some (cond_Zopp s (if 0 <=? ex then Zpos m * 2 ^ ex else Zpos m / 2 ^ (- ex)))
  | _ => None
  end.
End Generic.

Inductive fop := FAdd | FSub | FMul | FDiv.

Definition bop {p e : Z} (Hp : FLX.Prec_gt_0 p) (He : Prec_lt_emax p e) (o : fop) (x y : binary_float p e)
  : binary_float p e :=
  match o with
  | FAdd => @Bplus p e Hp He mode_NE x y
  | FSub => @Bminus p e Hp He mode_NE x y
  | FMul => @Bmult p e Hp He mode_NE x y
  | FDiv => @Bdiv p e Hp He mode_NE x y
  end.

(* a floating value of one of the three types *)
Inductive fpv := P32 (x : f32) | P64 (x : f64) | P80 (x : f80).

Definition to32 (x : fpv) : f32 :=
  match x with P32 y => bconv 24 128 p24 e24 y | P64 y => bconv 24 128 p24 e24 y | P80 y => bconv 24 128 p24 e24 y end.
Definition to64 (x : fpv) : f64 :=
  match x with P32 y => bconv 53 1024 p53 e53 y | P64 y => bconv 53 1024 p53 e53 y | P80 y => bconv 53 1024 p53 e53 y end.
Definition to80 (x : fpv) : f80 :=
  match x with P32 y => bconv 64 16384 p64 e64 y | P64 y => bconv 64 16384 p64 e64 y | P80 y => bconv 64 16384 p64 e64 y end.

(* conversion to floating type t (t = float, double, otherwise long double) *)
Definition fp_to (t : btype) (x : fpv) : fpv :=
  match t with TFloat => P32 (to32 x) | TDouble => P64 (to64 x) | _ => P80 (to80 x) end.

Definition fp_of_Z (t : btype) (z : Z) : fpv :=
  match t with
  | TFloat => P32 (binary_normalize 24 128 p24 e24 mode_NE z 0 false)
  | TDouble => P64 (binary_normalize 53 1024 p53 e53 mode_NE z 0 false)
  | _ => P80 (binary_normalize 64 16384 p64 e64 mode_NE z 0 false)
  end.

(* an operation carried out in type t on operands of any floating type *)
Definition fp_op (t : btype) (o : fop) (x y : fpv) : fpv :=
  match t with
  | TFloat => P32 (bop p24 e24 o (to32 x) (to32 y))
  | TDouble => P64 (bop p53 e53 o (to64 x) (to64 y))
  | _ => P80 (bop p64 e64 o (to80 x) (to80 y))
  end.

Definition fp_compare (t : btype) (x y : fpv) : option comparison :=
  match t with
  | TFloat => Bcompare (to32 x) (to32 y)
  | TDouble => Bcompare (to64 x) (to64 y)
  | _ => Bcompare (to80 x) (to80 y)
  end.

Definition fp_nz (x : fpv) : bool := match x with P32 y => bnz y | P64 y => bnz y | P80 y => bnz y end.
Definition fp_trunc (x : fpv) : option Z := match x with P32 y => btrunc y | P64 y => btrunc y | P80 y => btrunc y end.
Definition fp_neg (x : fpv) : fpv := match x with P32 y => P32 (Bopp y) | P64 y => P64 (Bopp y) | P80 y => P80 (Bopp y) end.

(* IEEE comparison predicates: every ordered predicate is false on NaN, != is true *)
Definition cmp_res (o : cbinop) (c : option comparison) : bool :=
  match c with
  | None => match o with CNe => true | _ => false end
  | Some Eq => match o with CEq | CLe | CGe => true | _ => false end
  | Some Lt => match o with CNe | CLt | CLe => true | _ => false end
  | Some Gt => match o with CNe | CGt | CGe => true | _ => false end
  end.

Definition fop_of (o : cbinop) : option fop :=
  match o with CAdd => Some FAdd | CSub => Some FSub | CMul => Some FMul | CDiv => Some FDiv | _ => None end.

(* ---- typed constants: an integer value or a floating value ---- *)
Inductive aval := AI (z : Z) | AF (x : fpv).
Record acv := mka { aty : btype; avl : aval }.

Definition of_cval (c : cval) : acv := mka (ct c) (AI (cv c)).
Definition truth (v : aval) : bool := match v with AI z => negb (z =? 0) | AF x => fp_nz x end.

(* well-formed: the value is a value of the type *)
Definition wfa (a : acv) : bool :=
  match avl a with
  | AI z => integer_type_p (aty a) && in_range (aty a) z
  | AF (P32 _) => btype_eqb (aty a) TFloat
  | AF (P64 _) => btype_eqb (aty a) TDouble
  | AF (P80 _) => btype_eqb (aty a) TLDouble
  end.

(* ================= c2m: cast_value ================= *)
(* the host C type a CONV line casts through can hold the truncated value; otherwise the host
   conversion is undefined and the model gives no value (None) *)
Definition host_range (t : btype) (z : Z) : bool :=
  if signed_integer_type_p t then (- 2 ^ (conv_bits t - 1) <=? z) && (z <? 2 ^ (conv_bits t - 1))
  else (0 <=? z) && (z <? 2 ^ conv_bits t).

Definition acast (to : btype) (v : aval) : option aval :=
  match v with
  | AI z => Some (if floating_type_p to then AF (fp_of_Z to z) else AI (cast_value false to z))
  | AF x =>
      if floating_type_p to then Some (AF (fp_to to x))
      else match to with
           | TBool => Some (AI (b2z (fp_nz x)))
           | _ => match fp_trunc x with
                  | Some z => if host_range to z then Some (AI z) else None
                  | None => None
                  end
           end
  end.

(* the end of check(): if (e->const_p) convert_value (e, e->type) *)
Definition fnorm (t : btype) (v : aval) : option acv :=
  match acast t v with Some w => Some (mka t w) | None => None end.

Section FFold.
Variable q_ext : bool.

Definition ffold_bin (o : cbinop) (a b : acv) : option acv :=
  match avl a, avl b with
  | AI x, AI y =>
      match fold_bin false false o (mkc (aty a) x) (mkc (aty b) y) with
      | Some r => Some (of_cval r) | None => None
      end
  | _, _ =>
      let t := arithmetic_conversion false (aty a) (aty b) in
      match acast t (avl a), acast t (avl b) with
      | Some (AF x), Some (AF y) =>
          if is_ccmp o then fnorm TInt (AI (b2z (cmp_res o (fp_compare t x y))))
          else match fop_of o with
               | Some f => fnorm t (AF (fp_op (if q_ext then TLDouble else t) f x y))
               | None => None                      (* % & | ^ << >>: an error message *)
               end
      | _, _ => None
      end
  end.

Definition ffold_un (o : cunop) (a : acv) : option acv :=
  match avl a with
  | AI z => Some (of_cval (fold_un false o (mkc (aty a) z)))
  | AF x =>
      match o with
      | CLnot => fnorm TInt (AI (b2z (negb (fp_nz x))))
      | CPlus => fnorm (aty a) (AF x)
      | CNeg => fnorm (aty a) (AF (fp_neg x))
      | CBnot => None
      end
  end.

Definition ffold_cast (t : btype) (a : acv) : option acv :=
  match acast t (avl a) with Some v => fnorm t v | None => None end.

Definition ffold_cond (c a b : acv) : option acv :=
  let t := arithmetic_conversion false (aty a) (aty b) in
  match acast t (avl (if truth (avl c) then a else b)) with Some v => fnorm t v | None => None end.

Definition ffold_andand (a b : acv) : option acv :=
  fnorm TInt (AI (if truth (avl a) then b2z (truth (avl b)) else 0)).
Definition ffold_oror (a b : acv) : option acv :=
  fnorm TInt (AI (if truth (avl a) then 1 else b2z (truth (avl b)))).

End FFold.

(* ================= C11 ================= *)
(* 6.3.1.2 (to _Bool), 6.3.1.3, 6.3.1.4 (floating to integer: truncation, undefined when the integral part
   is not representable; integer to floating: nearest), 6.3.1.5 *)
Definition c11_aconv (t : btype) (v : aval) : option aval :=
  match v with
  | AI z => Some (if is_float t then AF (fp_of_Z t z) else AI (convert t z))
  | AF x =>
      if is_float t then Some (AF (fp_to t x))
      else match t with
           | TBool => Some (AI (b2z (fp_nz x)))
           | _ => match fp_trunc x with
                  | Some z => if in_range t z then Some (AI z) else None
                  | None => None
                  end
           end
  end.

Definition rt_fbin (o : cbinop) (a b : acv) : option acv :=
  match avl a, avl b with
  | AI x, AI y =>
      match rt_bin o (mkc (aty a) x) (mkc (aty b) y) with Some r => Some (of_cval r) | None => None end
  | _, _ =>
      let t := c11_conv (aty a) (aty b) in
      match c11_aconv t (avl a), c11_aconv t (avl b) with
      | Some (AF x), Some (AF y) =>
          if is_ccmp o then Some (mka TInt (AI (b2z (cmp_res o (fp_compare t x y)))))
          else match fop_of o with
               | Some f => Some (mka t (AF (fp_op t f x y)))
               | None => None                      (* constraint violation *)
               end
      | _, _ => None
      end
  end.

Definition rt_fun (o : cunop) (a : acv) : option acv :=
  match avl a with
  | AI z => match rt_un o (mkc (aty a) z) with Some r => Some (of_cval r) | None => None end
  | AF x =>
      match o with
      | CLnot => Some (mka TInt (AI (b2z (negb (fp_nz x)))))
      | CPlus => Some (mka (aty a) (AF x))
      | CNeg => Some (mka (aty a) (AF (fp_neg x)))
      | CBnot => None
      end
  end.

Definition rt_fcast (t : btype) (a : acv) : option acv :=
  match c11_aconv t (avl a) with Some v => Some (mka t v) | None => None end.

Definition rt_fcond (c a b : acv) : option acv :=
  let t := c11_conv (aty a) (aty b) in
  match c11_aconv t (avl (if truth (avl c) then a else b)) with Some v => Some (mka t v) | None => None end.

Definition rt_fandand (a b : acv) : acv := mka TInt (AI (if truth (avl a) then b2z (truth (avl b)) else 0)).
Definition rt_foror (a b : acv) : acv := mka TInt (AI (if truth (avl a) then 1 else b2z (truth (avl b)))).

(* ---- building values and looking at them (driver, examples) ---- *)
Definition fp_make (t : btype) (neg : bool) (m ex : Z) : fpv :=      (* +-m * 2^ex rounded to t, -0 when m = 0 *)
  match t with
  | TFloat => P32 (binary_normalize 24 128 p24 e24 mode_NE (cond_Zopp neg m) ex neg)
  | TDouble => P64 (binary_normalize 53 1024 p53 e53 mode_NE (cond_Zopp neg m) ex neg)
  | _ => P80 (binary_normalize 64 16384 p64 e64 mode_NE (cond_Zopp neg m) ex neg)
  end.
Definition fp_inf (t : btype) (neg : bool) : fpv :=
  match t with TFloat => P32 (B754_infinity neg) | TDouble => P64 (B754_infinity neg) | _ => P80 (B754_infinity neg) end.
Definition fp_nan (t : btype) : fpv :=
  match t with TFloat => P32 B754_nan | TDouble => P64 B754_nan | _ => P80 B754_nan end.

Inductive fview := VZero (s : bool) | VInf (s : bool) | VNan | VFin (s : bool) (m : positive) (ex : Z).
Definition bview {p e : Z} (x : binary_float p e) : fview :=
  match x with
  | B754_zero s => VZero s | B754_infinity s => VInf s | B754_nan => VNan
  | B754_finite s m ex _ => VFin s m ex
  end.
Definition fp_view (x : fpv) : fview := match x with P32 y => bview y | P64 y => bview y | P80 y => bview y end.
Definition fp_type (x : fpv) : btype := match x with P32 _ => TFloat | P64 _ => TDouble | P80 _ => TLDouble end.

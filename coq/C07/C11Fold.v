(* C07: run-time meaning of the integer operators on typed values, from C11 6.5 and 6.3.1.3, LP64,
   with the implementation-defined choices gcc documents: conversion of an out-of-range value to a
   signed type is modulo 2^N; >> of a negative value is arithmetic.  [None] = undefined behaviour
   (signed overflow, division by zero, INT_MIN / -1 and % -1, shift count negative or >= width,
   << of a negative value or with a non-representable result). *)
From Coq Require Import ZArith Bool List.
From MirV Require Import Base.W64 C07.Limits C07.CConv C07.C11Conv C07.CFold.
Local Open Scope Z_scope.

Definition in_range (t : btype) (z : Z) : bool := (tmin t <=? z) && (z <=? tmax t).

(* 6.3.1.2, 6.3.1.3 *)
Definition convert (t : btype) (z : Z) : Z :=
  match t with
  | TBool => if z =? 0 then 0 else 1
  | _ => if is_signed t then (if in_range t z then z else swrap (width t) z) else z mod 2 ^ width t
  end.

(* the value of an operator computed in type t *)
Definition compute (t : btype) (z : Z) : option Z :=
  if is_signed t then (if in_range t z then Some z else None) else Some (z mod 2 ^ width t).

Definition rt_bin (o : cbinop) (a b : cval) : option cval :=
  match o with
  | CShl | CShr =>
      let t := c11_promote (ct a) in
      let x := convert t (cv a) in
      let c := convert (c11_promote (ct b)) (cv b) in
      if (c <? 0) || (width t <=? c) then None
      else match o with
           | CShl => if is_signed t
                     then (if (x <? 0) || (tmax t <? x * 2 ^ c) then None else Some (mkc t (x * 2 ^ c)))
                     else Some (mkc t ((x * 2 ^ c) mod 2 ^ width t))
           | _ => Some (mkc t (x / 2 ^ c))
           end
  | CEq | CNe | CLt | CLe | CGt | CGe =>
      let t := c11_conv (ct a) (ct b) in
      Some (mkc TInt (b2z (ccmp o (convert t (cv a)) (convert t (cv b)))))
  | _ =>
      let t := c11_conv (ct a) (ct b) in
      let x := convert t (cv a) in
      let y := convert t (cv b) in
      match o with
      | CDiv => if y =? 0 then None
                else match compute t (Z.quot x y) with Some r => Some (mkc t r) | None => None end
      | CMod => if y =? 0 then None
                else if is_signed t && (x =? tmin t) && (y =? -1) then None
                else match compute t (Z.rem x y) with Some r => Some (mkc t r) | None => None end
      | CAnd | COr | CXor => Some (mkc t (carith o x y))
      | _ => match compute t (carith o x y) with Some r => Some (mkc t r) | None => None end
      end
  end.

Definition rt_un (o : cunop) (a : cval) : option cval :=
  match o with
  | CLnot => Some (mkc TInt (b2z (cv a =? 0)))
  | _ =>
      let t := c11_promote (ct a) in
      let x := convert t (cv a) in
      match o with
      | CPlus => Some (mkc t x)
      | CNeg => match compute t (- x) with Some r => Some (mkc t r) | None => None end
      | _ => Some (mkc t (if is_signed t then - x - 1 else tmax t - x))
      end
  end.

Definition rt_cast (t : btype) (a : cval) : cval := mkc t (convert t (cv a)).

Definition rt_cond (c a b : cval) : cval :=
  let t := c11_conv (ct a) (ct b) in mkc t (convert t (if cv c =? 0 then cv b else cv a)).

Definition rt_andand (a b : cval) : cval := mkc TInt (if cv a =? 0 then 0 else b2z (negb (cv b =? 0))).
Definition rt_oror (a b : cval) : cval := mkc TInt (if cv a =? 0 then b2z (negb (cv b =? 0)) else 1).

(* a well-formed typed integer value *)
Definition wf (a : cval) : bool := integer_type_p (ct a) && in_range (ct a) (cv a).

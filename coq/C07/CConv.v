(* C07: c2mir's integer promotion, usual arithmetic conversion and integer-constant typing.
   Transcription of c2mir/c2mir.c: enum basic_type (order matters: the code compares enumerators),
   signed_integer_type_p, integer_promotion, arithmetic_conversion (after fixes/C07-1.patch; the
   pre-fix behaviour is the [q_old] switch) and get_int_node_from_repr + the N_I..N_ULL typing
   of constants in check().  Definitions only. *)
From Coq Require Import ZArith Bool List.
From MirV Require Import C07.Limits.
Import ListNotations.
Local Open Scope Z_scope.

Inductive btype := TBool | TChar | TSChar | TUChar | TShort | TUShort | TInt | TUInt
                 | TLong | TULong | TLLong | TULLong | TFloat | TDouble | TLDouble.

Definition all_btypes : list btype :=
  [TBool; TChar; TSChar; TUChar; TShort; TUShort; TInt; TUInt; TLong; TULong; TLLong; TULLong;
   TFloat; TDouble; TLDouble].

(* value of the enumerator TP_xxx minus TP_BOOL *)
Definition ord (t : btype) : Z :=
  match t with
  | TBool => 0 | TChar => 1 | TSChar => 2 | TUChar => 3 | TShort => 4 | TUShort => 5 | TInt => 6
  | TUInt => 7 | TLong => 8 | TULong => 9 | TLLong => 10 | TULLong => 11 | TFloat => 12
  | TDouble => 13 | TLDouble => 14
  end.

Definition of_ord (z : Z) : btype :=
  match z with
  | 0 => TBool | 1 => TChar | 2 => TSChar | 3 => TUChar | 4 => TShort | 5 => TUShort | 6 => TInt
  | 7 => TUInt | 8 => TLong | 9 => TULong | 10 => TLLong | 11 => TULLong | 12 => TFloat
  | 13 => TDouble | _ => TLDouble
  end.

Definition btype_eqb (a b : btype) : bool := ord a =? ord b.

Definition floating_type_p (t : btype) : bool :=
  match t with TFloat | TDouble | TLDouble => true | _ => false end.

Definition integer_type_p (t : btype) : bool := negb (floating_type_p t).

Definition signed_integer_type_p (t : btype) : bool :=
  match t with
  | TChar => char_signed
  | TSChar | TShort | TInt | TLong | TLLong => true
  | _ => false
  end.

Definition integer_promotion (t : btype) : btype :=
  if (ord TLong <=? ord t) && (ord t <=? ord TULLong) then t
  else if (btype_eqb t TChar && (MIR_INT_MAX <? MIR_CHAR_MAX))
       || (btype_eqb t TUChar && (MIR_INT_MAX <? MIR_UCHAR_MAX))
       || (btype_eqb t TUShort && (MIR_INT_MAX <? MIR_USHORT_MAX)) then TUInt
  else if btype_eqb t TUInt then TUInt
  else TInt.

(* q_old = true: arithmetic_conversion as at the pinned commit (no third branch) *)
Definition arithmetic_conversion (q_old : bool) (type1 type2 : btype) : btype :=
  if floating_type_p type1 || floating_type_p type2 then
    if btype_eqb type1 TLDouble || btype_eqb type2 TLDouble then TLDouble
    else if btype_eqb type1 TDouble || btype_eqb type2 TDouble then TDouble
    else TFloat
  else
    let t1 := integer_promotion type1 in
    let t2 := integer_promotion type2 in
    if Bool.eqb (signed_integer_type_p t1) (signed_integer_type_p t2) then
      (if ord t1 <? ord t2 then t2 else t1)
    else
      let '(t1, t2) := if signed_integer_type_p t1 then (t2, t1) else (t1, t2) in
      (* now t1 unsigned, t2 signed *)
      if (btype_eqb t1 TULong && (ord t2 <? ord TLong)) || (btype_eqb t1 TULLong && (ord t2 <? ord TLLong))
      then t1
      else if (btype_eqb t1 TUInt && (ord TLong <=? ord t2) && (MIR_UINT_MAX <=? MIR_LONG_MAX))
           || (btype_eqb t1 TULong && (ord TLLong <=? ord t2) && (MIR_ULONG_MAX <=? MIR_LLONG_MAX))
      then t2
      else if negb q_old && (ord t1 <? ord t2) then of_ord (ord t2 + 1)
      else t1.

(* ---- typing of integer constants in C proper: get_int_node_from_repr, then check() gives
        N_I int, N_L long, N_LL long long, N_U unsigned, N_UL unsigned long, N_ULL unsigned long long *)
Definition const_type (dec uns : bool) (lcount : Z) (v : Z) : btype :=
  if lcount =? 2 then
    if negb uns && (dec || (v <=? MIR_LLONG_MAX)) then TLLong else TULLong
  else if lcount =? 1 then
    if negb uns && (v <=? MIR_LONG_MAX) then TLong
    else if v <=? MIR_ULONG_MAX then TULong
    else if negb uns && (dec || (v <=? MIR_LLONG_MAX)) then TLLong else TULLong
  else if uns then
    if v <=? MIR_UINT_MAX then TUInt else if v <=? MIR_ULONG_MAX then TULong else TULLong
  else if v <=? MIR_INT_MAX then TInt
  else if negb dec && (v <=? MIR_UINT_MAX) then TUInt
  else if v <=? MIR_LONG_MAX then TLong
  else if v <=? MIR_ULONG_MAX then TULong
  else if dec || (v <=? MIR_LLONG_MAX) then TLLong else TULLong.

(* C07: c2mir's compile-time evaluation of integer constant expressions.  Transcription of
   c2mir/c2mir.c: cast_value / convert_value (the CONV table), the constant cases of
   check_assign_op (& | ^ << >> + - * / %), of check() for comparisons, unary + - ~ !, casts, ?:
   && ||, and the normalisation `if (e->const_p) convert_value (e, e->type)` at the end of check().
   A constant is its type and the mathematical value of the i_val/u_val field read with the
   signedness of the type.  [q_boolcast] = the pre-fix conversion to _Bool (truncation to 8 bits,
   fixes/C07-2.patch).  Definitions only. *)
From Coq Require Import ZArith Bool List.
From MirV Require Import Base.W64 C07.Limits C07.CConv.
Local Open Scope Z_scope.

Record cval := mkc { ct : btype; cv : Z }.

Inductive cunop := CPlus | CNeg | CBnot | CLnot.
Inductive cbinop := CAdd | CSub | CMul | CDiv | CMod | CAnd | COr | CXor | CShl | CShr
                  | CEq | CNe | CLt | CLe | CGt | CGe.

(* the C type each CONV line casts through: width in bits of mir_xxx *)
Definition conv_bits (t : btype) : Z :=
  match t with
  | TBool | TChar | TSChar | TUChar => char_bits
  | TShort | TUShort => short_bits
  | TInt | TUInt => int_bits
  | TLong | TULong => long_bits
  | _ => llong_bits
  end.

(* cast_value between integer types: independent of the source type because the source field is
   read with the source signedness and C's integer conversion only depends on the value *)
Definition cast_value (q_boolcast : bool) (to : btype) (z : Z) : Z :=
  match to with
  | TBool => if q_boolcast then uwrap char_bits z else (if z =? 0 then 0 else 1)
  | _ => if signed_integer_type_p to then swrap (conv_bits to) z else uwrap (conv_bits to) z
  end.

(* a 64-bit field after an operation of the compiler's own C *)
Definition field (sgn : bool) (z : Z) : Z := if sgn then s64 z else u64 z.

Definition b2z (b : bool) : Z := if b then 1 else 0.

Definition is_ccmp (o : cbinop) : bool :=
  match o with CEq | CNe | CLt | CLe | CGt | CGe => true | _ => false end.
Definition is_cshift (o : cbinop) : bool := match o with CShl | CShr => true | _ => false end.

Definition ccmp (o : cbinop) (x y : Z) : bool :=
  match o with
  | CEq => x =? y | CNe => negb (x =? y) | CLt => x <? y | CLe => x <=? y
  | CGt => y <? x | _ => y <=? x
  end.

Definition carith (o : cbinop) (x y : Z) : Z :=
  match o with
  | CAdd => x + y | CSub => x - y | CMul => x * y | CDiv => Z.quot x y | CMod => Z.rem x y
  | CAnd => Z.land x y | COr => Z.lor x y | _ => Z.lxor x y
  end.

Section Fold.
Variable q_conv_old : bool.   (* arithmetic_conversion before fixes/C07-1.patch *)
Variable q_boolcast : bool.   (* cast to _Bool before fixes/C07-2.patch *)

Definition cast (t : btype) (z : Z) : Z := cast_value q_boolcast t z.
Definition aconv := arithmetic_conversion q_conv_old.

(* None = "Division by zero" error *)
Definition fold_bin (o : cbinop) (a b : cval) : option cval :=
  if is_cshift o then
    let t := integer_promotion (ct a) in
    let rt := integer_promotion (ct b) in
    let x := cast t (cv a) in
    let c := (cast rt (cv b)) mod 64 in          (* x86-64 shift of the host compiler *)
    let r := match o with
             | CShl => field (signed_integer_type_p t) (x * 2 ^ c)
             | _ => x / 2 ^ c
             end in
    Some (mkc t (cast t r))
  else
    let t := aconv (ct a) (ct b) in
    let x := cast t (cv a) in
    let y := cast t (cv b) in
    if is_ccmp o then Some (mkc TInt (cast TInt (b2z (ccmp o x y))))
    else match o with
         | CDiv | CMod => if y =? 0 then None
                          else Some (mkc t (cast t (field (signed_integer_type_p t) (carith o x y))))
         | _ => Some (mkc t (cast t (field (signed_integer_type_p t) (carith o x y))))
         end.

Definition fold_un (o : cunop) (a : cval) : cval :=
  match o with
  | CLnot => mkc TInt (cast TInt (b2z (cv a =? 0)))
  | _ =>
      let t := integer_promotion (ct a) in
      let x := cast t (cv a) in
      let r := match o with
               | CPlus => x
               | CNeg => field (signed_integer_type_p t) (- x)
               | _ => field (signed_integer_type_p t) (Z.lnot x)
               end in
      mkc t (cast t r)
  end.

Definition fold_cast (t : btype) (a : cval) : cval := mkc t (cast t (cast t (cv a))).

Definition fold_cond (c a b : cval) : cval :=
  let t := aconv (ct a) (ct b) in
  mkc t (cast t (cast t (if cv c =? 0 then cv b else cv a))).

Definition fold_andand (a b : cval) : cval :=
  mkc TInt (cast TInt (if cv a =? 0 then 0 else b2z (negb (cv b =? 0)))).
Definition fold_oror (a b : cval) : cval :=
  mkc TInt (cast TInt (if cv a =? 0 then b2z (negb (cv b =? 0)) else 1)).

End Fold.

(* C07: c2mir's conversions equal C11's on all 15 x 15 pairs of basic arithmetic types (finite:
   exhaustive computation lifted by forallb_forall), the pre-fix version does not; constant typing
   agrees for every value that has a C11 type. *)
From Coq Require Import ZArith Bool List Lia.
From MirV Require Import C07.Limits C07.CConv C07.C11Conv.
Import ListNotations.
Local Open Scope Z_scope.

Lemma all_btypes_complete t : In t all_btypes.
Proof. destruct t; simpl; tauto. Qed.

Lemma promotion_all : forallb (fun t => btype_eqb (if integer_type_p t then integer_promotion t else t) (c11_promote t)) all_btypes = true.
Proof. vm_compute. reflexivity. Qed.

Lemma btype_eqb_eq a b : btype_eqb a b = true -> a = b.
Proof. destruct a, b; vm_compute; intros H; try reflexivity; discriminate. Qed.

Lemma promotion_eq t : integer_type_p t = true -> integer_promotion t = c11_promote t.
Proof.
  intros I. pose proof promotion_all as H. rewrite forallb_forall in H.
  specialize (H t (all_btypes_complete t)). rewrite I in H. apply btype_eqb_eq, H.
Qed.

Lemma conv_all : forallb (fun a => forallb (fun b => btype_eqb (arithmetic_conversion false a b) (c11_conv a b)) all_btypes) all_btypes = true.
Proof. vm_compute. reflexivity. Qed.

Lemma conv_eq a b : arithmetic_conversion false a b = c11_conv a b.
Proof.
  pose proof conv_all as H. rewrite forallb_forall in H. specialize (H a (all_btypes_complete a)).
  rewrite forallb_forall in H. apply btype_eqb_eq, (H b (all_btypes_complete b)).
Qed.

Lemma conv_old_refuted : arithmetic_conversion true TULong TLLong <> c11_conv TULong TLLong
                      /\ arithmetic_conversion true TLLong TULong <> c11_conv TLLong TULong.
Proof. split; vm_compute; discriminate. Qed.

(* the old code is wrong ONLY there *)
Lemma conv_old_partial a b :
  negb ((btype_eqb a TULong && btype_eqb b TLLong) || (btype_eqb a TLLong && btype_eqb b TULong)) = true ->
  arithmetic_conversion true a b = c11_conv a b.
Proof. destruct a, b; vm_compute; intros H; try reflexivity; discriminate. Qed.

(* constant typing: for all values *)
Lemma const_type_eq dec uns lc v t : 0 <= v -> (lc = 0 \/ lc = 1 \/ lc = 2) ->
  c11_const_type dec uns lc v = Some t -> const_type dec uns lc v = t.
Proof.
  intros Hv Hl Hc. unfold c11_const_type, const_type, const_list in *.
  unfold MIR_INT_MAX, MIR_UINT_MAX, MIR_LONG_MAX, MIR_ULONG_MAX, MIR_LLONG_MAX.
  destruct Hl as [-> | [-> | ->]]; destruct dec, uns; vm_compute filter in Hc;
    unfold first_fit, fits_type, tmax in Hc; cbn -[Z.leb Z.pow] in *;
    change (2 ^ (32 - 1) - 1) with 2147483647 in *; change (2 ^ 32 - 1) with 4294967295 in *;
    change (2 ^ 31 - 1) with 2147483647 in *; change (2 ^ 63 - 1) with 9223372036854775807 in *;
    change (2 ^ (64 - 1) - 1) with 9223372036854775807 in *; change (2 ^ 64 - 1) with 18446744073709551615 in *;
    repeat match goal with
           | |- context [?a <=? ?b] => destruct (Z.leb_spec a b)
           | _ : context [?a <=? ?b] |- _ => destruct (Z.leb_spec a b)
           end; cbn in *; try discriminate; try (injection Hc as <-; reflexivity); try lia.
Qed.

Example const_type_nonvacuous :
  c11_const_type false false 0 2147483648 = Some TUInt /\ c11_const_type true false 0 2147483648 = Some TLong
  /\ c11_const_type true false 0 9223372036854775808 = None
  /\ c11_const_type false false 1 18446744073709551615 = Some TULong.
Proof. repeat split. Qed.

(* C07: proofs about the bit-field access code of BitField.v.  Every statement is for all units,
   values, offsets and widths (no computation over samples); proofs go bit by bit (Z.bits_inj'). *)
From Coq Require Import ZArith Bool List Lia.
From MirV Require Import Base.W64 C07.BitField.
Import ListNotations.
Local Open Scope Z_scope.

(* ------------------------------------------------------------------ bits of the word operations *)
Lemma bits_uwrap n a i : 0 <= n -> Z.testbit (uwrap n a) i = (i <? n) && Z.testbit a i.
Proof. intros; unfold uwrap; apply Z.testbit_mod_pow2; assumption. Qed.

Lemma bits_uwrap_low n a i : i < n -> Z.testbit (uwrap n a) i = Z.testbit a i.
Proof. intros; unfold uwrap; apply Z.mod_pow2_bits_low; assumption. Qed.

Lemma pow2_half n : 0 < n -> 2 ^ n = 2 * 2 ^ (n - 1).
Proof. intros; rewrite <- Z.pow_succ_r by lia; f_equal; lia. Qed.

(* the top bit of an n-bit pattern *)
Lemma top_bit n u : 0 < n -> 0 <= u < 2 ^ n -> Z.testbit u (n - 1) = negb (u <? 2 ^ (n - 1)).
Proof.
  intros Hn Hu. rewrite (pow2_half n Hn) in Hu.
  assert (Hp : 0 < 2 ^ (n - 1)) by (apply Z.pow_pos_nonneg; lia).
  destruct (Z.ltb_spec u (2 ^ (n - 1))) as [Hlt|Hge]; cbn [negb].
  - destruct (Z.eq_dec u 0) as [->|Hne]; [apply Z.bits_0|].
    apply Z.bits_above_log2; [lia|]. apply Z.log2_lt_pow2; lia.
  - apply Z.testbit_true; [lia|].
    replace u with (1 * 2 ^ (n - 1) + (u - 2 ^ (n - 1))) by lia.
    rewrite Z.div_add_l by lia. rewrite (Z.div_small (u - 2 ^ (n - 1))) by lia. reflexivity.
Qed.

Lemma bits_swrap n a i : 0 < n -> 0 <= i -> Z.testbit (swrap n a) i = Z.testbit a (Z.min i (n - 1)).
Proof.
  intros Hn Hi. unfold swrap.
  assert (Hp : 0 < 2 ^ n) by (apply Z.pow_pos_nonneg; lia).
  assert (Hp1 : 0 < 2 ^ (n - 1)) by (apply Z.pow_pos_nonneg; lia).
  pose proof (Z.mod_pos_bound a (2 ^ n) Hp) as Hu.
  pose proof (top_bit n (a mod 2 ^ n) Hn Hu) as Htop.
  rewrite Z.testbit_mod_pow2 in Htop by lia.
  replace (n - 1 <? n) with true in Htop by (symmetry; apply Z.ltb_lt; lia). cbn [andb] in Htop.
  destruct (Z.lt_ge_cases i n) as [Hlow|Hhigh].
  - (* low bits: same residue modulo 2^n *)
    replace (Z.min i (n - 1)) with i by lia.
    rewrite <- (Z.mod_pow2_bits_low a n i) by lia.
    destruct (Z.ltb_spec (a mod 2 ^ n) (2 ^ (n - 1))) as [Hlt|Hge]; [reflexivity|].
    rewrite <- (Z.mod_pow2_bits_low (a mod 2 ^ n - 2 ^ n) n i) by lia. f_equal.
    replace (a mod 2 ^ n - 2 ^ n) with (a mod 2 ^ n + (-1) * 2 ^ n) by lia.
    rewrite Z.mod_add by lia. apply Z.mod_mod; lia.
  - replace (Z.min i (n - 1)) with (n - 1) by lia. rewrite Htop.
    destruct (Z.ltb_spec (a mod 2 ^ n) (2 ^ (n - 1))) as [Hlt|Hge]; cbn [negb].
    + rewrite Z.testbit_mod_pow2 by lia.
      replace (i <? n) with false by (symmetry; apply Z.ltb_ge; lia). reflexivity.
    + rewrite (pow2_half n Hn) in *.
      set (x := a mod (2 * 2 ^ (n - 1)) - 2 * 2 ^ (n - 1)) in *.
      apply Z.bits_above_log2_neg; [lia|].
      destruct (Z.eq_dec (Z.pred (- x)) 0) as [E|E]; [rewrite E; cbn; lia|].
      apply Z.lt_le_trans with (n - 1); [|lia]. apply Z.log2_lt_pow2; lia.
Qed.

Lemma bits_lsh a n i : 0 <= n -> Z.testbit (m_lsh a n) i = (i <? 64) && Z.testbit a (i - n).
Proof. intros; unfold m_lsh; rewrite bits_uwrap by lia; rewrite Z.mul_pow2_bits by lia; reflexivity. Qed.

Lemma bits_ursh a n i : 0 <= n -> 0 <= i -> Z.testbit (m_ursh a n) i = (i + n <? 64) && Z.testbit a (i + n).
Proof. intros; unfold m_ursh; rewrite Z.div_pow2_bits by lia; apply bits_uwrap; lia. Qed.

Lemma bits_rsh a n i : 0 <= n -> 0 <= i ->
  Z.testbit (m_rsh a n) i = (i <? 64) && Z.testbit a (Z.min (i + n) 63).
Proof.
  intros; unfold m_rsh; rewrite bits_uwrap by lia; rewrite Z.div_pow2_bits by lia.
  rewrite bits_swrap by lia. reflexivity.
Qed.

Lemma bits_ld_unit S sg u i : 0 < S -> 0 <= i ->
  Z.testbit (ld_unit S sg u) i
  = if sg then (i <? 64) && Z.testbit (uwrap S u) (Z.min i (S - 1)) else (i <? S) && Z.testbit u i.
Proof.
  intros HS Hi; unfold ld_unit; destruct sg.
  - rewrite bits_uwrap by lia. rewrite bits_swrap by lia. rewrite bits_uwrap by lia.
    destruct (Z.min_spec i (S - 1)) as [[? ->]|[? ->]];
      [replace (i <? S) with true by (symmetry; apply Z.ltb_lt; lia)
      |replace (S - 1 <? S) with true by (symmetry; apply Z.ltb_lt; lia)]; reflexivity.
  - apply bits_uwrap; lia.
Qed.

Lemma bits_st_unit S r i : 0 <= S -> Z.testbit (st_unit S r) i = (i <? S) && Z.testbit r i.
Proof. intros; apply bits_uwrap; assumption. Qed.

(* ------------------------------------------------------------------ the masks *)
Section Field.
Variable f : bfield.
Hypothesis WF : wf_bf f = true.

Lemma wf_facts : 0 < ubits f <= 64 /\ 0 <= boff f /\ 0 < bwid f /\ boff f + bwid f <= ubits f.
Proof. unfold wf_bf in WF. repeat rewrite andb_true_iff in WF. lia. Qed.

Lemma bits_mask i : 0 <= i -> Z.testbit (bf_mask f) i = (i <? bwid f).
Proof.
  intros Hi; pose proof wf_facts as W; unfold bf_mask.
  replace (2 ^ 64 - 1) with (Z.ones 64) by reflexivity.
  rewrite Z.div_pow2_bits by lia. rewrite Z.testbit_ones_nonneg by lia.
  destruct (Z.ltb_spec (i + (64 - bwid f)) 64), (Z.ltb_spec i (bwid f)); try reflexivity; lia.
Qed.

Lemma mask_ones : bf_mask f = Z.ones (bwid f).
Proof.
  pose proof wf_facts as W. apply Z.bits_inj'; intros i Hi.
  rewrite bits_mask by lia. rewrite Z.testbit_ones_nonneg by lia. reflexivity.
Qed.

Lemma bits_mask2 i : 0 <= i ->
  Z.testbit (bf_mask2 f) i = (i <? 64) && negb ((boff f <=? i) && (i <? boff f + bwid f)).
Proof.
  intros Hi; pose proof wf_facts as W; unfold bf_mask2.
  rewrite bits_uwrap by lia. rewrite Z.lnot_spec by lia. rewrite bits_uwrap by lia.
  rewrite Z.mul_pow2_bits by lia.
  destruct (Z.ltb_spec i 64); cbn [andb]; [|reflexivity]. f_equal.
  destruct (Z.leb_spec (boff f) i); cbn [andb].
  - rewrite bits_mask by lia.
    destruct (Z.ltb_spec (i - boff f) (bwid f)), (Z.ltb_spec i (boff f + bwid f)); try reflexivity; lia.
  - apply Z.testbit_neg_r; lia.
Qed.

End Field.

(* ------------------------------------------------------------------ closed forms of the code *)
Lemma bf_load_eq f u :
  bf_load f u
  = let t := ld_unit (ubits f) (usigned f) u in
    let t := if 64 - boff f - bwid f =? 0 then t else m_lsh t (64 - boff f - bwid f) in
    if bsigned f then m_rsh t (64 - bwid f) else m_ursh t (64 - bwid f).
Proof.
  unfold bf_load, exec, load_code, load_result.
  destruct (64 - boff f - bwid f =? 0); destruct (bsigned f); reflexivity.
Qed.

Definition store_val (f : bfield) (v : Z) : Z :=
  if bsigned f then m_rsh (m_lsh v (64 - bwid f)) (64 - bwid f) else v.

Lemma bf_store_eq f u v :
  bf_store f u v
  = let t2 := m_and (ld_unit (ubits f) (usigned f) u) (bf_mask2 f) in
    let t1 := store_val f v in
    let t3 := m_and t1 (bf_mask f) in
    let t4 := if boff f =? 0 then t3 else m_lsh t3 (boff f) in
    (st_unit (ubits f) (m_or t4 t2), if bsigned f then t1 else t3).
Proof.
  unfold bf_store, exec, store_code, store_result, store_val.
  destruct (bsigned f); destruct (boff f =? 0); reflexivity.
Qed.

(* ------------------------------------------------------------------ bit-level behaviour *)
Ltac cases :=
  repeat match goal with
  | |- context [Z.min ?a ?b] => destruct (Z.min_spec a b) as [[? ->]|[? ->]]
  | |- context [Z.ltb ?a ?b] => destruct (Z.ltb_spec a b)
  | |- context [Z.leb ?a ?b] => destruct (Z.leb_spec a b)
  | |- context [Z.eqb ?a ?b] => destruct (Z.eqb_spec a b)
  end; cbn [andb orb negb].
Ltac fin :=
  cbn [andb orb negb];
  rewrite ?andb_true_r, ?andb_false_r, ?orb_false_r, ?orb_true_r; cbn [andb orb negb];
  first [ reflexivity | lia | (f_equal; lia)
        | (rewrite Z.testbit_neg_r by lia; reflexivity)
        | (symmetry; rewrite Z.testbit_neg_r by lia; reflexivity) ].

Section Field2.
Variable f : bfield.
Hypothesis WF : wf_bf f = true.
Let W := wf_facts f WF.

(* bit i of the loaded register: the field's bit i, its top bit above the width for a signed field *)
Lemma bits_bf_load u i : 0 <= i ->
  Z.testbit (bf_load f u) i
  = if bsigned f then (i <? 64) && Z.testbit u (boff f + Z.min i (bwid f - 1))
    else (i <? bwid f) && Z.testbit u (boff f + i).
Proof.
  intros Hi. pose proof W as W'. rewrite bf_load_eq. cbv zeta.
  destruct (bsigned f).
  - rewrite bits_rsh by lia.
    destruct (Z.eqb_spec (64 - boff f - bwid f) 0) as [E|E].
    + rewrite bits_ld_unit by lia. destruct (usigned f); [rewrite bits_uwrap by lia|]; cases; fin.
    + rewrite bits_lsh by lia. rewrite bits_ld_unit by lia.
      destruct (usigned f); [rewrite bits_uwrap by lia|]; cases; fin.
  - rewrite bits_ursh by lia.
    destruct (Z.eqb_spec (64 - boff f - bwid f) 0) as [E|E].
    + rewrite bits_ld_unit by lia. destruct (usigned f); [rewrite bits_uwrap by lia|]; cases; fin.
    + rewrite bits_lsh by lia. rewrite bits_ld_unit by lia.
      destruct (usigned f); [rewrite bits_uwrap by lia|]; cases; fin.
Qed.

Lemma bits_store_val v i : 0 <= i ->
  Z.testbit (store_val f v) i
  = if bsigned f then (i <? 64) && Z.testbit v (Z.min i (bwid f - 1)) else Z.testbit v i.
Proof.
  intros Hi. pose proof W as W'. unfold store_val. destruct (bsigned f); [|reflexivity].
  rewrite bits_rsh by lia. rewrite bits_lsh by lia. cases; fin.
Qed.

(* bit i of the unit after the store: the value's bit inside the field, the old bit elsewhere *)
Lemma bits_bf_store_unit u v i : 0 <= i ->
  Z.testbit (fst (bf_store f u v)) i
  = (i <? ubits f)
    && (if (boff f <=? i) && (i <? boff f + bwid f) then Z.testbit v (i - boff f) else Z.testbit u i).
Proof.
  intros Hi. pose proof W as W'. rewrite bf_store_eq. cbv zeta. cbn [fst].
  rewrite bits_st_unit by lia. unfold m_or, m_and. rewrite Z.lor_spec.
  rewrite (Z.land_spec (ld_unit _ _ _)). rewrite (bits_mask2 f WF) by lia. rewrite bits_ld_unit by lia.
  destruct (Z.ltb_spec i (ubits f)) as [HiS|HiS]; cbn [andb]; [|reflexivity].
  destruct (Z.eqb_spec (boff f) 0) as [E|E].
  - rewrite Z.land_spec. rewrite (bits_mask f WF) by lia. rewrite bits_store_val by lia.
    destruct (usigned f); [rewrite bits_uwrap by lia|]; destruct (bsigned f); cases; fin.
  - rewrite bits_lsh by lia. rewrite Z.land_spec.
    destruct (Z.leb_spec (boff f) i) as [Ho|Ho].
    + rewrite (bits_mask f WF) by lia. rewrite bits_store_val by lia.
      destruct (usigned f); [rewrite bits_uwrap by lia|]; destruct (bsigned f); cases; fin.
    + rewrite (Z.testbit_neg_r _ (i - boff f)) by lia.
      destruct (usigned f); [rewrite bits_uwrap by lia|]; cases; fin.
Qed.

Lemma bits_bf_store_val u v i : 0 <= i ->
  Z.testbit (snd (bf_store f u v)) i
  = if bsigned f then (i <? 64) && Z.testbit v (Z.min i (bwid f - 1)) else (i <? bwid f) && Z.testbit v i.
Proof.
  intros Hi. pose proof W as W'. rewrite bf_store_eq. cbv zeta. cbn [snd].
  destruct (bsigned f) eqn:Sg.
  - pose proof (bits_store_val v i Hi) as B. rewrite Sg in B. exact B.
  - unfold m_and. rewrite Z.land_spec. rewrite (bits_mask f WF) by lia.
    pose proof (bits_store_val v i Hi) as B. rewrite Sg in B. rewrite B. apply andb_comm.
Qed.

Lemma bits_c11_conv x i : 0 <= i ->
  Z.testbit (c11_conv_bf f x) i
  = if bsigned f then (i <? 64) && Z.testbit x (Z.min i (bwid f - 1)) else (i <? bwid f) && Z.testbit x i.
Proof.
  intros Hi. pose proof W as W'. unfold c11_conv_bf. destruct (bsigned f).
  - rewrite bits_uwrap by lia. rewrite bits_swrap by lia. reflexivity.
  - apply bits_uwrap; lia.
Qed.

Lemma bits_field u i : 0 <= i ->
  Z.testbit (field_bits f u) i = (i <? bwid f) && Z.testbit u (i + boff f).
Proof.
  intros Hi. pose proof W as W'. unfold field_bits. rewrite bits_uwrap by lia.
  rewrite Z.div_pow2_bits by lia. reflexivity.
Qed.

(* ------------------------------------------------------------------ the theorems *)
(* a read yields the field's bits converted to the field's type: zero-extended for an unsigned field,
   sign-extended for a signed one *)
Theorem bf_load_spec u : bf_load f u = c11_read_bf f u.
Proof.
  pose proof W as W'. apply Z.bits_inj'; intros i Hi. unfold c11_read_bf.
  rewrite bits_bf_load, bits_c11_conv by lia.
  destruct (bsigned f); rewrite bits_field by lia; cases; fin.
Qed.

(* the bits of the storage unit outside [boff, boff + bwid) are unchanged by a store *)
Theorem bf_store_frame u v i : outside f i ->
  Z.testbit (fst (bf_store f u v)) i = Z.testbit u i.
Proof.
  intros [Hi Ho]. pose proof W as W'. rewrite bits_bf_store_unit by lia. cases; fin.
Qed.

Theorem bf_store_range u v : 0 <= fst (bf_store f u v) < 2 ^ ubits f.
Proof.
  pose proof W as W'. rewrite bf_store_eq. cbv zeta. cbn [fst]. unfold st_unit, uwrap.
  apply Z.mod_pos_bound. apply Z.pow_pos_nonneg; lia.
Qed.

(* the field's bits after the store are the low bwid bits of the value *)
Theorem bf_store_field u v : field_bits f (fst (bf_store f u v)) = uwrap (bwid f) v.
Proof.
  pose proof W as W'. apply Z.bits_inj'; intros i Hi.
  rewrite bits_field, bits_uwrap by lia. rewrite bits_bf_store_unit by lia. cases; fin.
Qed.

(* store-then-load returns the value converted to the bit-field's type *)
Theorem bf_store_load u v : bf_load f (fst (bf_store f u v)) = c11_conv_bf f v.
Proof.
  pose proof W as W'. apply Z.bits_inj'; intros i Hi.
  rewrite bits_bf_load, bits_c11_conv by lia.
  destruct (bsigned f); rewrite bits_bf_store_unit by lia; cases; fin.
Qed.

(* the value of the assignment expression is the stored (converted) value, C11 6.5.16p3 *)
Theorem bf_assign_value u v : snd (bf_store f u v) = c11_conv_bf f v.
Proof.
  apply Z.bits_inj'; intros i Hi. rewrite bits_bf_store_val, bits_c11_conv by lia. reflexivity.
Qed.

(* only the low bwid bits of the assigned register matter: a value x of any integer type of at most
   64 bits may be given by its register pattern *)
Theorem c11_conv_reg x : c11_conv_bf f (uwrap 64 x) = c11_conv_bf f x.
Proof.
  pose proof W as W'. apply Z.bits_inj'; intros i Hi. rewrite !bits_c11_conv by lia.
  destruct (bsigned f); rewrite bits_uwrap by lia; cases; fin.
Qed.

(* conversion to _Bool (NE r, v, 0) followed by the unsigned store keeps 0 / 1 *)
Theorem bf_store_bool u v : bsigned f = false ->
  bf_load f (fst (bf_store f u (m_ne0 v))) = m_ne0 v /\ snd (bf_store f u (m_ne0 v)) = m_ne0 v.
Proof.
  intros Sg. pose proof W as W'. rewrite bf_store_load, bf_assign_value.
  unfold c11_conv_bf; rewrite Sg. unfold m_ne0, uwrap.
  assert (1 < 2 ^ bwid f) by (apply Z.pow_gt_1; lia).
  destruct (v =? 0); split; apply Z.mod_small; lia.
Qed.

End Field2.

(* a store to one bit-field does not change what a disjoint bit-field of the same unit reads *)
Theorem bf_store_other_field f g u v :
  wf_bf f = true -> wf_bf g = true -> ubits g = ubits f ->
  (boff g + bwid g <= boff f \/ boff f + bwid f <= boff g) ->
  bf_load g (fst (bf_store f u v)) = bf_load g u.
Proof.
  intros Wf Wg HS Hd. pose proof (wf_facts f Wf). pose proof (wf_facts g Wg).
  apply Z.bits_inj'; intros i Hi. rewrite !(bits_bf_load g Wg) by lia.
  destruct (bsigned g); rewrite (bits_bf_store_unit f Wf) by lia; cases; fin.
Qed.

(* ------------------------------------------------------------------ the enclosing object *)
Section Object.
Variable f : bfield.
Hypothesis WF : wf_bf f = true.
Variables uoff M v : Z.
Hypothesis Huoff : 0 <= uoff.

Let k := 8 * uoff.
Let q := M / 2 ^ k.
Let n := fst (bf_store f (obj_unit f uoff M) v).

Lemma obj_store_div : obj_store f uoff M v / 2 ^ k = 2 ^ ubits f * (q / 2 ^ ubits f) + n.
Proof.
  pose proof (wf_facts f WF) as W.
  assert (Hk : 0 < 2 ^ k) by (apply Z.pow_pos_nonneg; lia).
  assert (HS : 0 < 2 ^ ubits f) by (apply Z.pow_pos_nonneg; lia).
  unfold obj_store. cbv zeta. fold k. fold n. unfold obj_unit, uwrap. fold k. fold q.
  replace (M - q mod 2 ^ ubits f * 2 ^ k + n * 2 ^ k) with (M + (n - q mod 2 ^ ubits f) * 2 ^ k) by ring.
  rewrite Z.div_add by lia. fold q.
  pose proof (Z.div_mod q (2 ^ ubits f)). lia.
Qed.

Lemma obj_store_mod : obj_store f uoff M v mod 2 ^ k = M mod 2 ^ k.
Proof.
  assert (Hk : 0 < 2 ^ k) by (apply Z.pow_pos_nonneg; lia).
  unfold obj_store. cbv zeta. fold k. fold n.
  replace (M - obj_unit f uoff M * 2 ^ k + n * 2 ^ k) with (M + (n - obj_unit f uoff M) * 2 ^ k) by ring.
  apply Z.mod_add; lia.
Qed.

(* the unit read back from the object is the stored unit *)
Theorem obj_store_unit : obj_unit f uoff (obj_store f uoff M v) = n.
Proof.
  pose proof (wf_facts f WF) as W.
  assert (HS : 0 < 2 ^ ubits f) by (apply Z.pow_pos_nonneg; lia).
  unfold obj_unit at 1. fold k. rewrite obj_store_div. unfold uwrap.
  rewrite Z.add_comm, Z.mul_comm, Z.mod_add by lia.
  apply Z.mod_small. apply (bf_store_range f WF).
Qed.

(* every bit of the object outside the bit-field is unchanged: neighbouring members in the same
   unit, in overlapping units of another size, and bytes outside the unit *)
Theorem obj_store_frame j : 0 <= j ->
  ~ (k + boff f <= j < k + boff f + bwid f) ->
  Z.testbit (obj_store f uoff M v) j = Z.testbit M j.
Proof.
  intros Hj Hout. pose proof (wf_facts f WF) as W.
  assert (Hk0 : 0 <= k) by (unfold k; lia).
  destruct (Z.lt_ge_cases j k) as [Hlow|Hhigh].
  - rewrite <- (Z.mod_pow2_bits_low (obj_store f uoff M v) k j) by lia.
    rewrite obj_store_mod. apply Z.mod_pow2_bits_low; lia.
  - replace j with ((j - k) + k) by lia. rewrite <- !Z.div_pow2_bits by lia.
    rewrite obj_store_div. fold q.
    destruct (Z.lt_ge_cases (j - k) (ubits f)) as [Hin|Hab].
    + rewrite <- (Z.mod_pow2_bits_low _ (ubits f) (j - k)) by lia.
      rewrite Z.add_comm, Z.mul_comm, Z.mod_add by (apply Z.pow_nonzero; lia).
      rewrite Z.mod_small by (apply (bf_store_range f WF)).
      unfold n. rewrite (bf_store_frame f WF) by (unfold outside; lia).
      unfold obj_unit. fold k. fold q. apply bits_uwrap_low; lia.
    + replace (j - k) with ((j - k - ubits f) + ubits f) by lia. rewrite <- !Z.div_pow2_bits by lia.
      f_equal. rewrite Z.add_comm, Z.mul_comm, Z.div_add by (apply Z.pow_nonzero; lia).
      rewrite (Z.div_small n) by (apply (bf_store_range f WF)). reflexivity.
Qed.

End Object.

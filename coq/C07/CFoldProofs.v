(* C07: compile-time evaluation (CFold, fixed) agrees with the run-time meaning (C11Fold) for every
   value on which the run-time meaning is defined. *)
From Coq Require Import ZArith Bool List Lia.
From MirV Require Import Base.W64 C07.Limits C07.CConv C07.C11Conv C07.CConvProofs C07.CFold C07.C11Fold.
Import ListNotations.
Local Open Scope Z_scope.

Ltac Zify.zify_post_hook ::= Z.div_mod_to_equations.

Lemma some_inj (A : Type) (a b : A) : Some a = Some b -> a = b.
Proof. intros H. congruence. Qed.

Definition promoted (t : btype) : Prop := In t [TInt; TUInt; TLong; TULong; TLLong; TULLong].

Lemma promote_promoted t : integer_type_p t = true -> promoted (c11_promote t).
Proof. destruct t; intros H; try discriminate; vm_compute; tauto. Qed.

Lemma conv_promoted a b : integer_type_p a = true -> integer_type_p b = true -> promoted (c11_conv a b).
Proof. destruct a, b; intros Ha Hb; try discriminate; vm_compute; tauto. Qed.

(* shape of a promoted type: signedness s, width w in {32, 64} *)
Lemma promoted_shape t : promoted t ->
  (width t = 32 \/ width t = 64) /\ conv_bits t = width t /\ signed_integer_type_p t = is_signed t
  /\ tmin t = (if is_signed t then - 2 ^ (width t - 1) else 0)
  /\ tmax t = (if is_signed t then 2 ^ (width t - 1) - 1 else 2 ^ width t - 1)
  /\ t <> TBool.
Proof.
  unfold promoted. simpl. intros [<-|[<-|[<-|[<-|[<-|[<-|[]]]]]]]; vm_compute; repeat split; auto; discriminate.
Qed.

Lemma cast_promoted t z : promoted t ->
  cast false t z = if is_signed t then swrap (width t) z else uwrap (width t) z.
Proof.
  unfold promoted. simpl. intros [<-|[<-|[<-|[<-|[<-|[<-|[]]]]]]]; reflexivity.
Qed.

Lemma in_range_iff t z : in_range t z = true <-> tmin t <= z <= tmax t.
Proof. unfold in_range. rewrite andb_true_iff, !Z.leb_le. tauto. Qed.

Lemma convert_promoted t z : promoted t ->
  convert t z = if is_signed t then swrap (width t) z else uwrap (width t) z.
Proof.
  unfold promoted. simpl. intros [<-|[<-|[<-|[<-|[<-|[<-|[]]]]]]]; unfold convert; cbn [is_signed width];
    try reflexivity;
    (destruct (in_range _ z) eqn:R; [|reflexivity]); symmetry; apply in_range_iff in R;
    (apply swrap_id; [reflexivity|]); unfold in_s; unfold tmin, tmax in R; cbn [is_signed width] in R; lia.
Qed.

(* ---- arithmetic facts for w = 32 / 64 ---- *)
Lemma p32 : 2 ^ 32 = 4294967296. Proof. reflexivity. Qed.
Lemma p31 : 2 ^ 31 = 2147483648. Proof. reflexivity. Qed.
Lemma p64 : 2 ^ 64 = 18446744073709551616. Proof. reflexivity. Qed.
Lemma p63 : 2 ^ 63 = 9223372036854775808. Proof. reflexivity. Qed.

Ltac w_cases W := destruct W as [W|W]; rewrite W in *;
  [change (32 - 1) with 31 in * | change (64 - 1) with 63 in *];
  rewrite ?p32, ?p31, ?p64, ?p63 in *.

Lemma uwrap_u64 w z : w = 32 \/ w = 64 -> uwrap w (u64 z) = uwrap w z.
Proof. intros W. unfold u64, uwrap. destruct W as [-> | ->]; rewrite ?p32, ?p64; lia. Qed.

Lemma swrap_s64 w z : w = 32 \/ w = 64 -> swrap w (s64 z) = swrap w z.
Proof.
  intros W. unfold s64, swrap.
  assert (E : (let u := z mod 2 ^ 64 in if u <? 2 ^ (64 - 1) then u else u - 2 ^ 64) mod 2 ^ w = z mod 2 ^ w).
  { cbv zeta. change (64 - 1) with 63. destruct (Z.ltb_spec (z mod 2 ^ 64) (2 ^ 63));
      destruct W as [-> | ->]; rewrite ?p32, ?p64 in *; lia. }
  cbv zeta in *. rewrite E. reflexivity.
Qed.

Lemma cast_field t z : promoted t -> cast false t (field (signed_integer_type_p t) z) = cast false t z.
Proof.
  intros P. destruct (promoted_shape t P) as (W & _ & S & _). rewrite S, !cast_promoted by assumption.
  unfold field. destruct (is_signed t); [apply swrap_s64 | apply uwrap_u64]; assumption.
Qed.

Lemma cast_in_range t z : promoted t -> in_range t z = true -> cast false t z = z.
Proof.
  intros P R. apply in_range_iff in R. destruct (promoted_shape t P) as (W & _ & _ & Mi & Ma & _).
  rewrite cast_promoted by assumption. rewrite Mi, Ma in R. destruct (is_signed t).
  - apply swrap_id; [destruct W; lia|]. unfold in_s. lia.
  - apply uwrap_id. unfold in_u. lia.
Qed.

Lemma compute_cast t z r : promoted t -> compute t z = Some r -> cast false t z = r.
Proof.
  intros P. unfold compute. destruct (is_signed t) eqn:S.
  - destruct (in_range t z) eqn:R; [|discriminate]. intros H. apply some_inj in H; subst r.
    apply cast_in_range; assumption.
  - intros H. apply some_inj in H; subst r. rewrite cast_promoted, S by assumption. reflexivity.
Qed.

Lemma convert_range t z : promoted t -> in_range t (convert t z) = true.
Proof.
  intros P. destruct (promoted_shape t P) as (W & _ & _ & Mi & Ma & _).
  rewrite convert_promoted by assumption. apply in_range_iff. rewrite Mi, Ma. destruct (is_signed t).
  - pose proof (swrap_range (width t) z ltac:(destruct W; lia)) as R. unfold in_s in R. lia.
  - pose proof (uwrap_range (width t) z ltac:(destruct W; lia)) as R. unfold in_u in R. lia.
Qed.

Lemma cast_eq_convert t z : promoted t -> cast false t z = convert t z.
Proof. intros P. rewrite cast_promoted, convert_promoted by assumption. reflexivity. Qed.

Lemma div_small_signed m z : 0 < m -> (- m <= z <= m - 1 <-> (z / m = 0 \/ z / m = -1)).
Proof.
  intros P. pose proof (Z_div_mod_eq_full z m) as D. pose proof (Z.mod_pos_bound z m P) as B.
  set (q := z / m) in *. set (r := z mod m) in *. clearbody q r. split.
  - intros H. destruct (Z_lt_le_dec q (-1)); [exfalso; nia|]. destruct (Z_lt_le_dec 0 q); [exfalso; nia|]. lia.
  - intros [-> | ->]; lia.
Qed.

Lemma div_small_unsigned m z : 0 < m -> (0 <= z <= m - 1 <-> z / m = 0).
Proof.
  intros P. pose proof (Z_div_mod_eq_full z m) as D. pose proof (Z.mod_pos_bound z m P) as B.
  set (q := z / m) in *. set (r := z mod m) in *. clearbody q r. split.
  - intros H. destruct (Z_lt_le_dec q 0); [exfalso; nia|]. destruct (Z_lt_le_dec 0 q); [exfalso; nia|]. lia.
  - intros ->. lia.
Qed.

(* ranges of & | ^ through sign extension *)
Lemma s_range_shiftr w z : 0 < w -> (- 2 ^ (w - 1) <= z <= 2 ^ (w - 1) - 1 <-> (Z.shiftr z (w - 1) = 0 \/ Z.shiftr z (w - 1) = -1)).
Proof.
  intros W. rewrite Z.shiftr_div_pow2 by lia.
  assert (P : 0 < 2 ^ (w - 1)) by (apply Z.pow_pos_nonneg; lia).
  set (m := 2 ^ (w - 1)) in *. clearbody m. apply div_small_signed. exact P.
Qed.

Lemma u_range_shiftr w z : 0 < w -> (0 <= z <= 2 ^ w - 1 <-> Z.shiftr z w = 0).
Proof.
  intros W. rewrite Z.shiftr_div_pow2 by lia.
  assert (P : 0 < 2 ^ w) by (apply Z.pow_pos_nonneg; lia).
  set (m := 2 ^ w) in *. clearbody m. apply div_small_unsigned. exact P.
Qed.

Definition is_bitop (o : cbinop) : bool := match o with CAnd | COr | CXor => true | _ => false end.

Lemma bitop_in_range t o x y : promoted t -> is_bitop o = true ->
  in_range t x = true -> in_range t y = true -> in_range t (carith o x y) = true.
Proof.
  intros P O Rx Ry. apply in_range_iff in Rx, Ry. apply in_range_iff.
  destruct (promoted_shape t P) as (W & _ & _ & Mi & Ma & _). rewrite Mi, Ma in *.
  assert (Wp : 0 < width t) by (destruct W; lia).
  destruct (is_signed t).
  - apply s_range_shiftr in Rx, Ry; try assumption. apply s_range_shiftr; [assumption|].
    destruct o; try discriminate; cbn [carith]; rewrite ?Z.shiftr_land, ?Z.shiftr_lor, ?Z.shiftr_lxor;
      destruct Rx as [-> | ->], Ry as [-> | ->]; simpl; auto.
  - apply u_range_shiftr in Rx, Ry; try assumption. apply u_range_shiftr; [assumption|].
    destruct o; try discriminate; cbn [carith]; rewrite ?Z.shiftr_land, ?Z.shiftr_lor, ?Z.shiftr_lxor, Rx, Ry; reflexivity.
Qed.

(* ---- conversions and casts agree on every value and every integer target type ---- *)
Lemma cast_convert_all t z : integer_type_p t = true -> cast false t z = convert t z.
Proof.
  intros I. destruct t; try discriminate; unfold cast, cast_value, convert;
    cbn [signed_integer_type_p is_signed conv_bits width]; change char_signed with true; cbv iota; try reflexivity;
    try (destruct (in_range _ z) eqn:R; [|reflexivity]; apply in_range_iff in R;
         unfold tmin, tmax in R; cbn [is_signed width] in R; change char_signed with true in R; cbv iota in R;
         apply swrap_id; [reflexivity|]; unfold in_s; lia).
Qed.

Lemma convert_idem_range t z : integer_type_p t = true -> in_range t z = true -> convert t z = z.
Proof.
  intros I R. pose proof R as R'. apply in_range_iff in R.
  destruct t; try discriminate; unfold convert; cbn [is_signed width];
    unfold tmin, tmax in R; cbn [is_signed width] in R;
    change char_signed with true in *; cbv iota in *;
    try (rewrite R'; reflexivity);
    try (apply Z.mod_small; lia).
  change (2 ^ 1 - 1) with 1 in R. destruct (Z.eqb_spec z 0); lia.
Qed.

Lemma convert_range_all t z : integer_type_p t = true -> in_range t (convert t z) = true.
Proof.
  intros I. destruct t; try discriminate;
    try (apply (convert_range _ z); vm_compute; tauto).
  - unfold convert. destruct (z =? 0); reflexivity.
  - unfold convert. cbn [is_signed]. change char_signed with true. cbv iota.
    destruct (in_range TChar z) eqn:R; [exact R|].
    pose proof (swrap_range 8 z ltac:(lia)) as S. unfold in_s in S. change (8 - 1) with 7 in S.
    apply in_range_iff. change (width TChar) with 8. change (tmin TChar) with (- 2 ^ 7). change (tmax TChar) with (2 ^ 7 - 1). lia.
  - unfold convert. cbn [is_signed].
    destruct (in_range TSChar z) eqn:R; [exact R|].
    pose proof (swrap_range 8 z ltac:(lia)) as S. unfold in_s in S. change (8 - 1) with 7 in S.
    apply in_range_iff. change (width TSChar) with 8. change (tmin TSChar) with (- 2 ^ 7). change (tmax TSChar) with (2 ^ 7 - 1). lia.
  - unfold convert. cbn [is_signed]. apply in_range_iff. change (width TUChar) with 8.
    change (tmin TUChar) with 0. change (tmax TUChar) with (2 ^ 8 - 1).
    pose proof (Z.mod_pos_bound z (2 ^ 8) ltac:(lia)). lia.
  - unfold convert. cbn [is_signed].
    destruct (in_range TShort z) eqn:R; [exact R|].
    pose proof (swrap_range 16 z ltac:(lia)) as S. unfold in_s in S. change (16 - 1) with 15 in S.
    apply in_range_iff. change (width TShort) with 16. change (tmin TShort) with (- 2 ^ 15). change (tmax TShort) with (2 ^ 15 - 1). lia.
  - unfold convert. cbn [is_signed]. apply in_range_iff. change (width TUShort) with 16.
    change (tmin TUShort) with 0. change (tmax TUShort) with (2 ^ 16 - 1).
    pose proof (Z.mod_pos_bound z (2 ^ 16) ltac:(lia)). lia.
Qed.

(* ---- the theorems ---- *)
Lemma convert_field t z : promoted t -> convert t (field (signed_integer_type_p t) z) = convert t z.
Proof. intros P. rewrite <- !cast_eq_convert by assumption. apply cast_field, P. Qed.

Lemma convert_in_range t z : promoted t -> in_range t z = true -> convert t z = z.
Proof. intros P R. rewrite <- cast_eq_convert by assumption. apply cast_in_range; assumption. Qed.

Lemma compute_convert t z r : promoted t -> compute t z = Some r -> convert t z = r.
Proof. intros P C. rewrite <- cast_eq_convert by assumption. eapply compute_cast; eassumption. Qed.

Lemma cast_int_b2z q b : cast q TInt (b2z b) = b2z b.
Proof. destruct b; reflexivity. Qed.

Theorem fold_bin_eq_runtime o a b r : wf a = true -> wf b = true ->
  rt_bin o a b = Some r -> fold_bin false false o a b = Some r.
Proof.
  unfold wf. intros Wa Wb. apply andb_true_iff in Wa as [Ia Ra]. apply andb_true_iff in Wb as [Ib Rb].
  pose proof (conv_promoted _ _ Ia Ib) as PT. pose proof (promote_promoted _ Ia) as PA.
  pose proof (promote_promoted _ Ib) as PB.
  unfold fold_bin, rt_bin, aconv. rewrite conv_eq, !promotion_eq by assumption.
  set (t := c11_conv (ct a) (ct b)) in *. set (ta := c11_promote (ct a)) in *. set (tb := c11_promote (ct b)) in *.
  fold (cast false). rewrite ?cast_int_b2z.
  rewrite ?(cast_eq_convert t), ?(cast_eq_convert ta), ?(cast_eq_convert tb) by assumption.
  pose proof (convert_range t (cv a) PT) as Rx. pose proof (convert_range t (cv b) PT) as Ry.
  set (x := convert t (cv a)) in *. set (y := convert t (cv b)) in *.
  destruct o; cbn [is_cshift is_ccmp];
    try (intros H; apply some_inj in H; subst r; reflexivity);   (* comparisons *)
    try (destruct (compute t (carith _ x y)) as [z|] eqn:C; [|discriminate];
         intros H; apply some_inj in H; subst r;
         rewrite convert_field by assumption; rewrite (compute_convert _ _ _ PT C); reflexivity).
  - (* / *) destruct (y =? 0); [discriminate|].
    destruct (compute t (x ÷ y)) as [z|] eqn:C; [|discriminate]. intros H; apply some_inj in H; subst r.
    cbn [carith]. rewrite convert_field by assumption. rewrite (compute_convert _ _ _ PT C). reflexivity.
  - (* % *) destruct (y =? 0); [discriminate|].
    destruct (is_signed t && (x =? tmin t) && (y =? -1)); [discriminate|].
    destruct (compute t (Z.rem x y)) as [z|] eqn:C; [|discriminate]. intros H; apply some_inj in H; subst r.
    cbn [carith]. rewrite convert_field by assumption. rewrite (compute_convert _ _ _ PT C). reflexivity.
  - (* & *) intros H; apply some_inj in H; subst r. rewrite convert_field by assumption.
    rewrite convert_in_range; [reflexivity|assumption|]. apply bitop_in_range; auto.
  - intros H; apply some_inj in H; subst r. rewrite convert_field by assumption.
    rewrite convert_in_range; [reflexivity|assumption|]. apply bitop_in_range; auto.
  - intros H; apply some_inj in H; subst r. rewrite convert_field by assumption.
    rewrite convert_in_range; [reflexivity|assumption|]. apply bitop_in_range; auto.
  - (* << *)
    pose proof (convert_range ta (cv a) PA) as Rxa. set (xa := convert ta (cv a)) in *.
    set (c := convert tb (cv b)) in *.
    destruct ((c <? 0) || (width ta <=? c)) eqn:Ec; [discriminate|].
    apply orb_false_iff in Ec as [Ec1 Ec2]. apply Z.ltb_ge in Ec1. apply Z.leb_gt in Ec2.
    destruct (promoted_shape ta PA) as (W & _ & S & Mi & Ma & _).
    assert (Cm : c mod 64 = c) by (apply Z.mod_small; destruct W; lia). rewrite Cm.
    rewrite convert_field by assumption.
    destruct (is_signed ta) eqn:Sg.
    + destruct ((xa <? 0) || (tmax ta <? xa * 2 ^ c)) eqn:Ex; [discriminate|].
      intros H; apply some_inj in H; subst r.
      apply orb_false_iff in Ex as [Ex1 Ex2]. apply Z.ltb_ge in Ex1, Ex2.
      rewrite convert_in_range; [reflexivity|assumption|]. apply in_range_iff. rewrite Mi, Ma.
      assert (0 <= 2 ^ c) by (apply Z.pow_nonneg; lia).
      assert (0 < 2 ^ (width ta - 1)) by (apply Z.pow_pos_nonneg; destruct W; lia). nia.
    + intros H; apply some_inj in H; subst r. rewrite convert_promoted, Sg by assumption. reflexivity.
  - (* >> *)
    pose proof (convert_range ta (cv a) PA) as Rxa. set (xa := convert ta (cv a)) in *.
    set (c := convert tb (cv b)) in *.
    destruct ((c <? 0) || (width ta <=? c)) eqn:Ec; [discriminate|].
    apply orb_false_iff in Ec as [Ec1 Ec2]. apply Z.ltb_ge in Ec1. apply Z.leb_gt in Ec2.
    destruct (promoted_shape ta PA) as (W & _ & S & Mi & Ma & _).
    assert (Cm : c mod 64 = c) by (apply Z.mod_small; destruct W; lia). rewrite Cm.
    intros H; apply some_inj in H; subst r.
    rewrite convert_in_range; [reflexivity|assumption|].
    apply in_range_iff in Rxa. apply in_range_iff.
    assert (P : 0 < 2 ^ c) by (apply Z.pow_pos_nonneg; lia).
    pose proof (Z_div_mod_eq_full xa (2 ^ c)) as D. pose proof (Z.mod_pos_bound xa (2 ^ c) P) as M.
    set (q := xa / 2 ^ c) in *. set (m := 2 ^ c) in *. set (rr := xa mod m) in *. clearbody q m rr.
    assert (tmin ta <= 0 <= tmax ta).
    { rewrite Mi, Ma. assert (0 < 2 ^ (width ta - 1)) by (apply Z.pow_pos_nonneg; destruct W; lia).
      assert (0 < 2 ^ width ta) by (apply Z.pow_pos_nonneg; destruct W; lia). destruct (is_signed ta); lia. }
    split; nia.
Qed.

Theorem fold_un_eq_runtime o a r : wf a = true -> rt_un o a = Some r -> fold_un false o a = r.
Proof.
  unfold wf. intros Wa. apply andb_true_iff in Wa as [Ia Ra].
  pose proof (promote_promoted _ Ia) as PA.
  unfold fold_un, rt_un. rewrite promotion_eq by assumption. set (t := c11_promote (ct a)) in *.
  fold (cast false). rewrite ?cast_int_b2z. rewrite ?(cast_eq_convert t) by assumption.
  pose proof (convert_range t (cv a) PA) as Rx. set (x := convert t (cv a)) in *.
  destruct (promoted_shape t PA) as (W & _ & S & Mi & Ma & _).
  destruct o.
  - intros H; apply some_inj in H; subst r. rewrite convert_in_range by assumption. reflexivity.
  - destruct (compute t (- x)) as [z|] eqn:C; [|discriminate]. intros H; apply some_inj in H; subst r.
    rewrite convert_field by assumption. rewrite (compute_convert _ _ _ PA C). reflexivity.
  - intros H; apply some_inj in H; subst r. rewrite convert_field by assumption.
    apply in_range_iff in Rx. rewrite Mi, Ma in Rx. rewrite Ma.
    assert (0 < 2 ^ (width t - 1)) by (apply Z.pow_pos_nonneg; destruct W; lia).
    assert (E : 2 ^ width t = 2 * 2 ^ (width t - 1)).
    { replace (width t) with (Z.succ (width t - 1)) at 1 by lia. rewrite Z.pow_succ_r by (destruct W; lia). reflexivity. }
    rewrite convert_promoted by assumption. unfold Z.lnot. f_equal.
    destruct (is_signed t).
    + rewrite swrap_id; [lia|destruct W; lia|]. unfold in_s. lia.
    + unfold uwrap. replace (Z.pred (- x)) with ((2 ^ width t - 1 - x) + (-1) * 2 ^ width t) by lia.
      rewrite Z.mod_add by lia. apply Z.mod_small. lia.
  - intros H; apply some_inj in H; subst r. reflexivity.
Qed.

Theorem fold_cast_eq_runtime t a : integer_type_p t = true -> fold_cast false t a = rt_cast t a.
Proof.
  intros I. unfold fold_cast, rt_cast. fold (cast false). rewrite !cast_convert_all by assumption.
  rewrite (convert_idem_range t (convert t (cv a))); [reflexivity|assumption|]. apply convert_range_all, I.
Qed.

Theorem fold_cond_eq_runtime c a b : wf a = true -> wf b = true ->
  fold_cond false false c a b = rt_cond c a b.
Proof.
  unfold wf. intros Wa Wb. apply andb_true_iff in Wa as [Ia Ra]. apply andb_true_iff in Wb as [Ib Rb].
  pose proof (conv_promoted _ _ Ia Ib) as PT.
  unfold fold_cond, rt_cond, aconv. rewrite conv_eq. fold (cast false).
  rewrite !cast_eq_convert by assumption.
  rewrite (convert_in_range _ (convert _ _)); [reflexivity|assumption|]. apply convert_range, PT.
Qed.

Theorem fold_logic_eq_runtime a b : fold_andand false a b = rt_andand a b /\ fold_oror false a b = rt_oror a b.
Proof.
  unfold fold_andand, rt_andand, fold_oror, rt_oror. fold (cast false).
  split; destruct (cv a =? 0); destruct (cv b =? 0); reflexivity.
Qed.

(* ---- the pre-fix folder ---- *)
Lemma bool_cast_old_refuted : fold_cast true TBool (mkc TInt 256) <> rt_cast TBool (mkc TInt 256).
Proof. vm_compute. discriminate. Qed.

Lemma conv_old_fold_refuted :
  fold_bin true false CAdd (mkc TULong 1) (mkc TLLong 1) <> rt_bin CAdd (mkc TULong 1) (mkc TLLong 1).
Proof. vm_compute. discriminate. Qed.

(* ---- non-vacuity ---- *)
Example rt_examples :
  rt_bin CAdd (mkc TInt 2147483647) (mkc TInt 1) = None /\
  rt_bin CAdd (mkc TUInt 4294967295) (mkc TInt 1) = Some (mkc TUInt 0) /\
  rt_bin CLt (mkc TInt (-1)) (mkc TUInt 0) = Some (mkc TInt 0) /\
  rt_bin CLt (mkc TInt (-1)) (mkc TLong 0) = Some (mkc TInt 1) /\
  rt_bin CShr (mkc TSChar (-128)) (mkc TUChar 7) = Some (mkc TInt (-1)) /\
  rt_bin CShl (mkc TUShort 65535) (mkc TInt 16) = None /\
  rt_bin CDiv (mkc TInt (-2147483648)) (mkc TInt (-1)) = None /\
  rt_bin CMul (mkc TUShort 65535) (mkc TUShort 65535) = None /\
  rt_bin CAdd (mkc TULong 1) (mkc TLLong (-2)) = Some (mkc TULLong 18446744073709551615) /\
  rt_un CBnot (mkc TUChar 255) = Some (mkc TInt (-256)) /\
  rt_un CNeg (mkc TUInt 1) = Some (mkc TUInt 4294967295) /\
  rt_cast TBool (mkc TInt 256) = mkc TBool 1.
Proof. repeat split. Qed.

(* C07: proofs about the call-result temporaries model CallTemps. *)
From Coq Require Import List NArith Bool Lia.
From MirV Require Import C07.CallTemps.
Import ListNotations.
Local Open Scope N_scope.

Section expr_ind2.
  Variable P : expr -> Prop.
  Hypothesis HC : forall sz args, Forall P args -> P (Call sz args).
  Hypothesis HO : forall subs, Forall P subs -> P (Op subs).
  Fixpoint expr_ind2 (e : expr) : P e :=
    let go := fix go (l : list expr) : Forall P l :=
                match l with [] => Forall_nil P | a :: r => Forall_cons a (expr_ind2 a) (go r) end in
    match e with
    | Call sz args => HC sz args (go args)
    | Op subs => HO subs (go subs)
    end.
End expr_ind2.

Lemma round16_ge : forall n, n <= round16 n.
Proof.
  intro n. unfold round16.
  pose proof (N.mul_succ_div_gt (n + 15) 16 ltac:(lia)) as H. lia.
Qed.

(* ---------- unfolding ---------- *)
Lemma gen_call : forall early sz args cur,
  gen early (Call sz args) cur =
  (let cur1 := if sz =? 0 then cur else cur + round16 sz in
   let saved := if early then cur else cur1 in
   let (evs, _) := gen_list early args cur1 in
   ((if sz =? 0 then [] else [Alloc cur (round16 sz)]) ++ evs ++ (if sz =? 0 then [] else [Write cur sz]), saved)).
Proof. reflexivity. Qed.
Lemma gen_op : forall early subs cur, gen early (Op subs) cur = gen_list early subs cur.
Proof. reflexivity. Qed.
Lemma chk_call : forall sz args cur mx,
  chk (Call sz args) cur mx =
  (let cur1 := if sz =? 0 then cur else cur + round16 sz in
   let (_, mx2) := chk_list args cur1 (N.max mx cur1) in (cur1, mx2)).
Proof. reflexivity. Qed.
Lemma chk_op : forall subs cur mx, chk (Op subs) cur mx = chk_list subs cur mx.
Proof. reflexivity. Qed.
Lemma vslots_op : forall subs cur, vslots (Op subs) cur = vslots_list subs cur.
Proof. reflexivity. Qed.

(* ---------- lower bound: processing an expression at [c] only touches offsets >= c and ends at an offset >= c ---------- *)
Definition lower (c : N) (r : list ev * N) : Prop := c <= snd r /\ Forall (fun e => c <= ev_off e) (fst r).

Lemma lower_list : forall l, Forall (fun e => forall c, lower c (gen false e c)) l -> forall c, lower c (gen_list false l c).
Proof.
  induction 1 as [|a r Ha _ IH]; intro c; cbn [gen_list].
  - split; cbn; [lia|constructor].
  - specialize (Ha c). destruct (gen false a c) as [e1 c1]. specialize (IH c1).
    destruct (gen_list false r c1) as [e2 c2]. destruct Ha as [Ha1 Ha2], IH as [I1 I2]; cbn [fst snd] in *.
    split; cbn [fst snd]; [lia|]. apply Forall_app; split; [assumption|].
    eapply Forall_impl; [|exact I2]. cbn. intros; lia.
Qed.

Lemma gen_lower : forall e c, lower c (gen false e c).
Proof.
  induction e as [sz args IH|subs IH] using expr_ind2; intro c.
  - rewrite gen_call. cbn zeta.
    pose proof (lower_list args IH (if sz =? 0 then c else c + round16 sz)) as L.
    destruct (gen_list false args (if sz =? 0 then c else c + round16 sz)) as [evs c2].
    destruct L as [L1 L2]; cbn [fst snd] in *.
    destruct (sz =? 0) eqn:Z; split; cbn [fst snd app]; try lia.
    + rewrite app_nil_r. exact L2.
    + constructor; [cbn; lia|]. apply Forall_app; split.
      * eapply Forall_impl; [|exact L2]. cbn; intros; lia.
      * constructor; [cbn; lia|constructor].
  - rewrite gen_op. apply lower_list; assumption.
Qed.

Lemma gen_list_lower : forall l c, lower c (gen_list false l c).
Proof. intros; apply lower_list. apply Forall_forall; intros; apply gen_lower. Qed.

(* ---------- the value of an expression processed at [c] lives in [c, offset after it) ---------- *)
Definition inside (c c' : N) (s : N * N) : Prop := c <= fst s /\ fst s + snd s <= c'.

Lemma vslots_list_inside : forall l,
  Forall (fun e => forall c, Forall (inside c (snd (gen false e c))) (vslots e c)) l ->
  forall c, Forall (inside c (snd (gen_list false l c))) (vslots_list l c).
Proof.
  induction 1 as [|a r Ha _ IH]; intro c; cbn [vslots_list gen_list]; [constructor|].
  specialize (Ha c). pose proof (gen_lower a c) as [La _].
  destruct (gen false a c) as [e1 c1]; cbn [fst snd] in *.
  specialize (IH c1). pose proof (gen_list_lower r c1) as [Lr _].
  destruct (gen_list false r c1) as [e2 c2]; cbn [fst snd] in *.
  apply Forall_app; split; (eapply Forall_impl; [|eassumption]); unfold inside; intros s [A B]; lia.
Qed.

Lemma vslots_inside : forall e c, Forall (inside c (snd (gen false e c))) (vslots e c).
Proof.
  induction e as [sz args IH|subs IH] using expr_ind2; intro c.
  - rewrite gen_call. cbn zeta. destruct (gen_list false args _) as [evs c2]. cbn [snd vslots].
    destruct (sz =? 0); constructor; [|constructor]. unfold inside; cbn. lia.
  - rewrite gen_op, vslots_op. apply vslots_list_inside; assumption.
Qed.

(* ---------- the area sized by check() holds every slot gen() uses ---------- *)
Definition upper (r : list ev * N) (k : N * N) (mx : N) : Prop :=
  fst k = snd r /\ mx <= snd k /\ snd r <= N.max mx (snd k) /\ Forall (fun e => ev_off e + ev_len e <= snd k) (fst r).

Lemma upper_list : forall l,
  Forall (fun e => forall c mx, c <= mx -> upper (gen false e c) (chk e c mx) mx) l ->
  forall c mx, c <= mx -> upper (gen_list false l c) (chk_list l c mx) mx.
Proof.
  induction 1 as [|a r Ha _ IH]; intros c mx Hc; cbn [gen_list chk_list].
  - repeat split; cbn; try lia. constructor.
  - specialize (Ha c mx Hc). destruct (gen false a c) as [e1 c1], (chk a c mx) as [k1 m1].
    destruct Ha as (A1 & A2 & A3 & A4); cbn [fst snd] in *. subst k1.
    assert (Hc1 : c1 <= m1) by lia.
    specialize (IH c1 m1 Hc1). destruct (gen_list false r c1) as [e2 c2], (chk_list r c1 m1) as [k2 m2].
    destruct IH as (B1 & B2 & B3 & B4); cbn [fst snd] in *.
    repeat split; cbn [fst snd]; try lia.
    apply Forall_app; split; [|assumption]. eapply Forall_impl; [|exact A4]. cbn; intros; lia.
Qed.

Lemma gen_upper : forall e c mx, c <= mx -> upper (gen false e c) (chk e c mx) mx.
Proof.
  induction e as [sz args IH|subs IH] using expr_ind2; intros c mx Hc.
  - rewrite gen_call, chk_call. cbn zeta.
    set (c1 := if sz =? 0 then c else c + round16 sz).
    assert (H1 : c1 <= N.max mx c1) by lia.
    pose proof (upper_list args IH c1 (N.max mx c1) H1) as U.
    destruct (gen_list false args c1) as [evs c2], (chk_list args c1 (N.max mx c1)) as [k2 m2].
    destruct U as (U1 & U2 & U3 & U4); cbn [fst snd] in *.
    pose proof (round16_ge sz).
    unfold c1 in *. destruct (sz =? 0) eqn:Z; repeat split; cbn [fst snd app]; try lia.
    + rewrite app_nil_r. exact U4.
    + constructor; [cbn; lia|]. apply Forall_app; split; [exact U4|]. constructor; [cbn; lia|constructor].
  - rewrite gen_op, chk_op. apply upper_list; assumption.
Qed.

(* ---------- the theorems ---------- *)
(* while the later operands / arguments are processed, nothing touches the slots the value of an earlier one lives in *)
Theorem sibling_values_survive_l : forall l1 a l2 c s e,
  let ca := snd (gen_list false l1 c) in
  let cb := snd (gen false a ca) in
  In s (vslots a ca) -> In e (fst (gen_list false l2 cb)) -> disjoint s e.
Proof.
  intros l1 a l2 c s e ca cb Hs He.
  pose proof (vslots_inside a ca) as V. rewrite Forall_forall in V. destruct (V s Hs) as [_ V2].
  pose proof (gen_list_lower l2 cb) as [_ L]. rewrite Forall_forall in L. specialize (L e He).
  left. fold cb in V2. lia.
Qed.

(* the slot reserved for a call's own result is not touched while its arguments are processed, and the values of the
   arguments do not live in it *)
Theorem own_result_slot_apart_from_arguments_l : forall sz args c e,
  sz <> 0 -> In e (fst (gen_list false args (c + round16 sz))) -> disjoint (c, round16 sz) e.
Proof.
  intros sz args c e _ He.
  pose proof (gen_list_lower args (c + round16 sz)) as [_ L]. rewrite Forall_forall in L. specialize (L e He).
  left. cbn. lia.
Qed.

(* after a call the offset stands right behind the call's own result: the result stays reserved for the rest of the
   full expression, the slots of the arguments are free again *)
Theorem call_keeps_its_result_reserved_l : forall sz args c,
  snd (gen false (Call sz args) c) = (if sz =? 0 then c else c + round16 sz).
Proof. intros. rewrite gen_call. cbn zeta. destruct (gen_list false args _). reflexivity. Qed.

Theorem area_holds_every_slot_l : forall e mx ev,
  In ev (fst (gen false e 0)) -> ev_off ev + ev_len ev <= snd (chk e 0 mx).
Proof.
  intros e mx ev H. pose proof (gen_upper e 0 mx ltac:(lia)) as (_ & _ & _ & U).
  rewrite Forall_forall in U. apply U; assumption.
Qed.

Lemma chk_mono : forall e mx, mx <= snd (chk e 0 mx).
Proof. intros e mx. pose proof (gen_upper e 0 mx ltac:(lia)) as (_ & U & _). exact U. Qed.

Lemma area_fold_ge : forall body m, m <= fold_left (fun m e => snd (chk e 0 m)) body m.
Proof.
  induction body as [|a r IH]; intro m; cbn; [lia|].
  pose proof (chk_mono a m). specialize (IH (snd (chk a 0 m))). lia.
Qed.

(* a whole function body: every slot of every full expression lies inside the area check() sized *)
Theorem body_area_holds_every_slot_l : forall body ev,
  In ev (body_events false body) -> ev_off ev + ev_len ev <= area_size body.
Proof.
  unfold body_events, area_size. intros body. generalize 0 at 3 as m.
  induction body as [|a r IH]; intros m ev H; cbn in H; [contradiction|].
  apply in_app_or in H. cbn [fold_left]. destruct H as [H|H].
  - pose proof (area_holds_every_slot_l a m ev H). pose proof (area_fold_ge r (snd (chk a 0 m))). lia.
  - apply IH; assumption.
Qed.

(* the seeded change: remembering the offset before the own result slot is reserved lets the next argument take the slot
   the first argument's value lives in -- h (f (), g ()) with 16-byte results *)
Theorem early_save_refuted :
  let args := [Call 16 []; Call 16 []] in
  exists s e, In s (vslots (Call 16 []) 0) /\
              In e (fst (gen_list true [Call 16 []] (snd (gen true (Call 16 []) 0)))) /\ ~ disjoint s e.
Proof.
  exists (0, 16), (Alloc 0 16). repeat split; cbn; try (left; reflexivity).
  unfold disjoint; cbn. lia.
Qed.

(* non-vacuity: h (f (), mix (g (), g ()), f ()) with 16- and 24-byte results, as c2m -S shows it *)
Example gen_example :
  gen false (Call 0 [Call 16 []; Call 24 [Call 24 []; Call 24 []]; Call 16 []]) 0 =
  ([Alloc 0 16; Write 0 16; Alloc 16 32; Alloc 48 32; Write 48 24; Alloc 80 32; Write 80 24; Write 16 24; Alloc 48 16; Write 48 16], 0)
  /\ snd (chk (Call 0 [Call 16 []; Call 24 [Call 24 []; Call 24 []]; Call 16 []]) 0 0) = 112.
Proof. split; vm_compute; reflexivity. Qed.

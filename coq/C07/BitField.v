(* C07: the bit-field access code c2mir's gen() emits on x86-64 (little endian), transcribed from
   c2mir/c2mir.c: force_val (load), emit_scalar_assign with ignore_others_p = FALSE (store) and the
   _Bool conversion done by the caller (bool_conv).  The model is the emitted straight-line MIR code
   itself ([load_code] / [store_code], a list of instructions with their immediate operands, the
   same text `c2m -S` prints) plus an interpreter for the six MIR operations it uses; the theorems
   in BitFieldProofs.v are about [exec] of that code.  Definitions only.

   Registers hold 64-bit patterns as Z in [0, 2^64).  A storage unit is the S-bit object (S = 8 x
   sizeof of the declared type) at decl->offset, as a Z in [0, 2^S); the bit-field occupies bits
   [boff, boff + bwid) of it (decl->bit_offset, decl->width).  The unit is read by a MIR memory
   operand whose type (i8/u8/.../i64/u64) sign- or zero-extends it to 64 bits; a store truncates. *)
From Coq Require Import ZArith Bool List.
From MirV Require Import Base.W64.
Import ListNotations.
Local Open Scope Z_scope.

(* ---- the MIR operations (mir-interp.c / the generators agree on these; shift counts are < 64) *)
Definition m_lsh (a n : Z) : Z := uwrap 64 (a * 2 ^ n).
Definition m_ursh (a n : Z) : Z := uwrap 64 a / 2 ^ n.
Definition m_rsh (a n : Z) : Z := uwrap 64 (swrap 64 a / 2 ^ n).
Definition m_and (a b : Z) : Z := Z.land a b.
Definition m_or (a b : Z) : Z := Z.lor a b.
(* typed memory access *)
Definition ld_unit (S : Z) (sg : bool) (u : Z) : Z := if sg then uwrap 64 (swrap S u) else uwrap S u.
Definition st_unit (S : Z) (r : Z) : Z := uwrap S r.
(* bool_conv: NE r, v, 0 *)
Definition m_ne0 (a : Z) : Z := if a =? 0 then 0 else 1.

(* ---- a bit-field as gen() sees it *)
Record bfield := { ubits : Z;        (* 8 * type_size (decl->decl_spec.type) *)
                   usigned : bool;   (* the MIR memory type of the unit is a signed one *)
                   boff : Z;         (* decl->bit_offset *)
                   bwid : Z;         (* decl->width *)
                   bsigned : bool }. (* signed_bit_field_p (decl) *)

Definition wf_bf (f : bfield) : bool :=
  (0 <? ubits f) && (ubits f <=? 64) && (0 <=? boff f) && (0 <? bwid f) && (boff f + bwid f <=? ubits f).

(* mask = 0xffffffffffffffff >> (64 - width);  mask2 = ~(mask << bit_offset)   (uint64_t arithmetic) *)
Definition bf_mask (f : bfield) : Z := (2 ^ 64 - 1) / 2 ^ (64 - bwid f).
Definition bf_mask2 (f : bfield) : Z := uwrap 64 (Z.lnot (uwrap 64 (bf_mask f * 2 ^ boff f))).

(* ---- straight-line code over temporaries *)
Inductive binop := OAnd | OOr | OLsh | ORsh | OUrsh.
Inductive operand := R (n : nat) | Imm (z : Z) | Val.      (* Val: the register holding the assigned value *)
Inductive insn :=
| ILoad (d : nat)                               (* mov   d, <ty>:unit *)
| IMov (d : nat) (a : operand)                  (* mov   d, a *)
| IBin (o : binop) (d : nat) (a b : operand)    (* op    d, a, b *)
| IBinSt (o : binop) (a b : operand).           (* op    <ty>:unit, a, b   (emit_insn_opt folded the final mov) *)

Definition eval_binop (o : binop) (a b : Z) : Z :=
  match o with
  | OAnd => m_and a b | OOr => m_or a b | OLsh => m_lsh a b | ORsh => m_rsh a b | OUrsh => m_ursh a b
  end.

Record mstate := { regs : nat -> Z; munit : Z }.
Definition upd (r : nat -> Z) (n : nat) (v : Z) : nat -> Z := fun m => if Nat.eqb m n then v else r m.
Definition opval (s : mstate) (v : Z) (a : operand) : Z :=
  match a with R n => regs s n | Imm z => z | Val => v end.

Definition step (f : bfield) (v : Z) (s : mstate) (i : insn) : mstate :=
  match i with
  | ILoad d => {| regs := upd (regs s) d (ld_unit (ubits f) (usigned f) (munit s)); munit := munit s |}
  | IMov d a => {| regs := upd (regs s) d (opval s v a); munit := munit s |}
  | IBin o d a b => {| regs := upd (regs s) d (eval_binop o (opval s v a) (opval s v b)); munit := munit s |}
  | IBinSt o a b => {| regs := regs s; munit := st_unit (ubits f) (eval_binop o (opval s v a) (opval s v b)) |}
  end.

Definition exec (f : bfield) (v : Z) (code : list insn) (u : Z) : mstate :=
  fold_left (step f v) code {| regs := fun _ => 0; munit := u |}.

(* force_val: MOV t, mem; [LSH t, t, 64 - bit_offset - width;] (RSH | URSH) t, t, 64 - width *)
Definition load_code (f : bfield) : list insn :=
  [ILoad 0]
  ++ (if 64 - boff f - bwid f =? 0 then [] else [IBin OLsh 0 (R 0) (Imm (64 - boff f - bwid f))])
  ++ [IBin (if bsigned f then ORsh else OUrsh) 0 (R 0) (Imm (64 - bwid f))].
Definition load_result : nat := 0%nat.

(* emit_scalar_assign, temporaries temp_op1..temp_op4 = R 1..R 4; the value of the assignment
   expression is left in temp_op1 (signed field) or temp_op3 (unsigned field) *)
Definition store_code (f : bfield) : list insn :=
  [ILoad 2; IBin OAnd 2 (R 2) (Imm (bf_mask2 f))]
  ++ (if bsigned f
      then [IBin OLsh 1 Val (Imm (64 - bwid f)); IBin ORsh 1 (R 1) (Imm (64 - bwid f))]
      else [IMov 1 Val])
  ++ [IBin OAnd 3 (R 1) (Imm (bf_mask f))]
  ++ (if boff f =? 0 then [IBinSt OOr (R 3) (R 2)]
      else [IBin OLsh 4 (R 3) (Imm (boff f)); IBinSt OOr (R 4) (R 2)]).
Definition store_result (f : bfield) : nat := if bsigned f then 1%nat else 3%nat.

(* ---- what the code computes *)
Definition bf_load (f : bfield) (u : Z) : Z := regs (exec f 0 (load_code f) u) load_result.
Definition bf_store (f : bfield) (u v : Z) : Z * Z :=      (* new unit, value of the assignment *)
  let s := exec f v (store_code f) u in (munit s, regs s (store_result f)).

(* ---- C11 side.  The value of a bit-field of width w read from unit u, and the conversion of a
   value to the field's type: 6.3.1.3p2 (unsigned: modulo 2^w), p3 with gcc's documented choice
   (signed: modulo 2^w into [-2^(w-1), 2^(w-1))); both as 64-bit register patterns *)
Definition field_bits (f : bfield) (u : Z) : Z := uwrap (bwid f) (u / 2 ^ boff f).
Definition c11_conv_bf (f : bfield) (x : Z) : Z :=
  if bsigned f then uwrap 64 (swrap (bwid f) x) else uwrap (bwid f) x.
Definition c11_read_bf (f : bfield) (u : Z) : Z := c11_conv_bf f (field_bits f u).
(* a bit index of the unit that does not belong to the field *)
Definition outside (f : bfield) (i : Z) : Prop := 0 <= i < ubits f /\ ~ (boff f <= i < boff f + bwid f).

(* ---- the enclosing object as one little-endian number M (8 * size bits); the unit of f starts at
   byte [uoff].  A store rewrites the unit's bytes only. *)
Definition obj_unit (f : bfield) (uoff M : Z) : Z := uwrap (ubits f) (M / 2 ^ (8 * uoff)).
Definition obj_store (f : bfield) (uoff M v : Z) : Z :=
  let u := obj_unit f uoff M in
  M - u * 2 ^ (8 * uoff) + fst (bf_store f u v) * 2 ^ (8 * uoff).

From Coq Require Import Extraction ExtrOcamlBasic List NArith.
From MirV Require Import C12.Hash C12.Reduce.
Extraction Language OCaml.
Extraction "c12x.ml" encode decode mir_hash_strict uint_write uint_read.

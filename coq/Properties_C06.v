(* Property C06: MIR functions are correct C-ABI callees and preserve the caller's machine state.
   Only the property theorems, each closed by [exact]-style one-liners and followed by Print
   Assumptions.  Spec: C05/SysV.v.  Implementation models: C05/AbiImpl.v (c) incoming arguments,
   C06/VaList.v (va_start, va_arg, va_block_arg, interpreter shim decoding), C06/Frame.v
   (prologue/epilogue arithmetic), all with fixes C05-2, C06-1, C06-2 applied; the pinned commit's
   versions are refuted at the end.  What is NOT proved here (only exercised by the trampoline
   run): that func_used_hard_regs contains every register the allocator used, the machine-code
   stubs, MXCSR/x87 preservation, alloca. *)
From Coq Require Import List ZArith Lia.
From MirV Require Import Base.W64 C05.SysV C05.AbiImpl C05.AbiProofs C05.Conv C05.ConvProofs C06.VaList C06.VaProofs C06.Frame C06.FrameProofs
  C06.Alloca C06.AllocaProofs C06.CtlState C06.CtlStateProofs C06.CodeFacts C06.SlotAddr C06.SlotAddrProofs C06.Dce C06.DceProofs gen.C05Abi.
Import ListNotations.
Local Open Scope Z_scope.

(* generated code reads every parameter from the location the psABI assigns to it *)
Theorem incoming_assign_eq_sysv : forall args, wf_args args = true ->
  fst (in_assign args) = fst (assign args) /\ so (snd (in_assign args)) = so (snd (assign args)).
Proof. exact incoming_assign_eq. Qed.
Print Assumptions incoming_assign_eq_sysv.

(* the interpreter's entry shim + interp() decode every fixed parameter from the psABI location,
   and leave a va_list that is the psABI state after the fixed parameters *)
Theorem interp_shim_decode_eq_sysv : forall named, wf_args named = true ->
  interp_decode true named = (fst (assign named), va_of (snd (assign named))).
Proof. exact interp_decode_eq. Qed.
Print Assumptions interp_shim_decode_eq_sysv.

(* reading any well-typed variadic tail with va_arg / va_block_arg yields the caller's arguments
   in order -- after va_start of generated code, and after the interpreter's decoding *)
Theorem va_arg_sequence_eq_sysv : forall named tail, wf_args (named ++ tail) = true ->
  fst (va_read_seq true true (gen_va_start named) tail) = skipn (length named) (fst (assign (named ++ tail)))
  /\ fst (va_read_seq true true (snd (interp_decode true named)) tail)
     = skipn (length named) (fst (assign (named ++ tail))).
Proof. intros named tail W; split; [exact (gen_va_tail_eq named tail W)|exact (interp_va_tail_eq named tail W)]. Qed.
Print Assumptions va_arg_sequence_eq_sysv.

(* end to end: whatever words a psABI-conforming caller places for (named ++ tail), a MIR function
   (generated, or interpreted behind the shim) that takes its fixed parameters and then its
   variadic tail reads back exactly those words, argument by argument *)
Theorem mir_callee_receives_every_argument : forall named tail vals, wf_args (named ++ tail) = true ->
  same_shape (fst (assign (named ++ tail))) vals ->
  read_args (fst (in_assign named) ++ fst (va_read_seq true true (gen_va_start named) tail))
            (image (fst (assign (named ++ tail))) vals) = map (map Some) vals
  /\ read_args (fst (interp_decode true named) ++ fst (va_read_seq true true (snd (interp_decode true named)) tail))
               (image (fst (assign (named ++ tail))) vals) = map (map Some) vals.
Proof. exact callee_roundtrip. Qed.
Print Assumptions mir_callee_receives_every_argument.

(* the va_list built by va_start is in the canonical psABI range (a C callee such as vprintf can
   continue from it) *)
Theorem va_list_canonical : forall named, wf_args named = true ->
  let va := gen_va_start named in
  0 <= gp_offset va <= 48 /\ gp_offset va mod 8 = 0
  /\ 48 <= fp_offset va <= 176 /\ (fp_offset va - 48) mod 16 = 0 /\ 0 <= ov va /\ ov va mod 8 = 0.
Proof. exact gen_va_start_canonical. Qed.
Print Assumptions va_list_canonical.

(* results leave in the psABI registers (MIR_RET lowering and interpreter shim) *)
Theorem callee_result_regs_eq_sysv : forall rs l, result_locs rs = Some l ->
  ret_results rs = Some l /\ shim_results rs = Some l.
Proof. intros rs l H. destruct (result_regs_eq rs l H) as [A _]. split; exact A. Qed.
Print Assumptions callee_result_regs_eq_sysv.

(* after the prologue rsp is 16-byte aligned (both frame layouts), the frame pointer is aligned,
   the epilogue restores rsp exactly, the varargs save area is where va_start says, and a stack
   parameter at psABI offset off is read from entry_rsp + 8 + off *)
Theorem frame_sp_aligned : forall f E, E mod 16 = 8 ->
  (sp_after f E) mod 16 = 0 /\ (bp_of E) mod 16 = 0 /\ sp_at_ret f E = E
  /\ (vararg f = true -> reg_save_area_addr f E = va_start_reg_save_area E)
  /\ (forall off, incoming_stack_addr E off = E + 8 + off).
Proof. exact sp_aligned. Qed.
Print Assumptions frame_sp_aligned.

(* the prologue saves exactly the allocatable callee-saved registers the function uses, once each;
   the epilogue restores the same list; every save slot lies inside the frame, and is disjoint
   from the other save slots, from every stack slot of a pseudo and from the register save area *)
Theorem frame_saves_cover : forall f E, 0 <= nslots f -> (vararg f = true -> keep_fp f = true) ->
  (forall r, In r (map fst (save_list f)) <->
             (0 <= r <= 15 /\ sysv_callee_saved r = true /\ fixed_reg r = false /\ In r (used f)))
  /\ NoDup (map fst (save_list f))
  /\ restore_list f = save_list f
  /\ (forall m, In m (save_list f) ->
        sp_after f E <= save_addr f E m /\ save_addr f E m + 8 <= E - 8
        /\ (forall (ld : bool) (slot : Z), 0 <= slot -> slot + (if ld then 2 else 1) <= nslots f ->
              disjoint (save_addr f E m) 8 (slot_addr f E ld slot) (if ld then 16 else 8))
        /\ (vararg f = true -> disjoint (save_addr f E m) 8 (reg_save_area_addr f E) reg_save_area_size))
  /\ (forall m1 m2, In m1 (save_list f) -> In m2 (save_list f) -> fst m1 <> fst m2 ->
        disjoint (save_addr f E m1) 8 (save_addr f E m2) 8).
Proof.
  intros f E Hn Hv. destruct (saves_cover f) as (A & B & C).
  split; [exact A|]. split; [exact B|]. split; [exact C|]. split.
  - intros m Hm. exact (saves_placement f E m Hn Hv Hm).
  - intros m1 m2. exact (saves_distinct f E m1 m2).
Qed.
Print Assumptions frame_saves_cover.

(* stack slots of pseudos and the varargs register save area lie inside the frame, below the
   saved frame pointer / return address, and do not overlap *)
Theorem frame_slots_sound : forall f E (ld : bool) slot, 0 <= nslots f -> (vararg f = true -> keep_fp f = true) ->
  0 <= slot -> slot + (if ld then 2 else 1) <= nslots f ->
  sp_after f E <= slot_addr f E ld slot /\ slot_addr f E ld slot + (if ld then 16 else 8) <= E - 8
  /\ (vararg f = true ->
        disjoint (slot_addr f E ld slot) (if ld then 16 else 8) (reg_save_area_addr f E) reg_save_area_size
        /\ sp_after f E <= reg_save_area_addr f E /\ reg_save_area_addr f E + reg_save_area_size = E - 8).
Proof.
  intros f E ld slot Hn Hv H0 H1. destruct (slots_placement f E ld slot Hn Hv H0 H1) as (A & B & C).
  split; [exact A|]. split; [exact B|]. intros V. split; [exact (C V)|].
  destruct (reg_save_area_placement f E Hn V) as (D & F & _). split; [exact D|exact F].
Qed.
Print Assumptions frame_slots_sound.

(* the interpreter's entry shim: 16-byte aligned at the call of the handler, rsp restored, the
   va_list it builds has the psABI register-save-area layout (integer register n at 8n, xmm<n> at
   48+16n) and its overflow area is the caller's first stack argument *)
Theorem interp_shim_frame_sound : forall E nres, E mod 16 = 8 -> 0 <= nres ->
  (shim_rsp_at_call E nres) mod 16 = 0
  /\ shim_rsp_at_ret E nres = E
  /\ shim_overflow_arg_area E = E + 8
  /\ (forall n, 0 <= n < 6 -> shim_pushed_gpr E n = shim_reg_save_area E + 8 * n)
  /\ (forall n, 0 <= n < 8 -> shim_xmm_area E + 16 * n = shim_reg_save_area E + 48 + 16 * n)
  /\ shim_results_addr E nres + 16 * nres <= shim_va_list_addr E
  /\ shim_va_list_addr E + 24 <= shim_reg_save_area E.
Proof. exact shim_frame. Qed.
Print Assumptions interp_shim_frame_sound.

(* MIR's call-used / callee-saved split agrees with the psABI: every psABI callee-saved register is
   either saved on use (rbx, r12-r15) or rsp/rbp, which the allocator never hands out and the
   prologue/epilogue maintain; nothing else is treated as preserved *)
Theorem callee_saved_classification_eq_sysv : forall r, 0 <= r <= 15 ->
  (sysv_callee_saved r = true -> call_used r = false \/ r = SP \/ r = BP)
  /\ (call_used r = false -> sysv_callee_saved r = true /\ fixed_reg r = false)
  /\ (fixed_reg r = true -> call_used r = true).
Proof. exact classification. Qed.
Print Assumptions callee_saved_classification_eq_sysv.

(* ---- definitions regenerated from the checked tree on every run (gen/C05Abi.v) ---- *)

(* the call-used test the prologue/epilogue loops and the allocator use (target_call_used_hard_reg_p,
   translated from its C expression) is the one of the Frame model on every integer register, so
   callee_saved_classification_eq_sysv and frame_saves_cover speak about the code's own test; the
   register save area size, "alloca forces a frame pointer" and the frameless-leaf condition are
   the code's as well *)
Theorem frame_model_follows_source :
  (forall r, 0 <= r <= 15 -> gen_call_used r = call_used r)
  /\ (forall r, 0 <= r <= 15 ->
        (sysv_callee_saved r = true -> gen_call_used r = false \/ r = SP \/ r = BP)
        /\ (gen_call_used r = false -> sysv_callee_saved r = true /\ fixed_reg r = false))
  /\ gen_reg_save_area_size = reg_save_area_size /\ gen_alloca_keeps_fp = true /\ gen_frameless_cond_ok = true.
Proof.
  split; [exact gen_call_used_eq|]. split; [|exact gen_frame_constants].
  intros r H. rewrite (gen_call_used_eq r H). destruct (classification r H) as (A & B & _). split; assumption.
Qed.
Print Assumptions frame_model_follows_source.

(* a MIR function observes each integer parameter converted to its declared type, whatever the
   caller left above the width of the type: generated code (extension prepended by simplify_func) and
   interpreter (va_arg + cast in interp(), then that same extension); the result it returns has, in
   the bits of the result type, the bits it computed (the upper bits are the callee's business) *)
Theorem parameters_and_results_converted : forall t v,
  ext_sem (mir_arg_ext t) v = Some (narrow t v)
  /\ (exists w, entry_sem (interp_entry t) v = Some w /\ ext_sem (mir_arg_ext t) w = Some (narrow t v))
  /\ (forall w, v mod 2 ^ ity_bits t = w mod 2 ^ ity_bits t -> narrow t v = narrow t w)
  /\ (exists w, ext_sem (mir_ret_ext t) v = Some w /\ low_eq (ity_bits t) w v).
Proof.
  intros t v. destruct (params_converted t v) as [A B]. split; [exact A|]. split; [exact B|].
  split; [intros w H; exact (narrow_low_bits t v w H)|exact (callee_result_low_bits t v)].
Qed.
Print Assumptions parameters_and_results_converted.

(* the ALLOCA templates of the pattern table, executed on (rsp, size), lower rsp by the size rounded
   up to 16 and return the new rsp -- register sizes below 2^32-15 (the template's lea is a 32-bit
   one) and constant sizes (rounded by out_insn); bstart reads rsp, bend sets it *)
Theorem alloca_templates_eq_model :
  map fst gen_alloca_rows = [pat_r_r; pat_r_i2]
  /\ (forall t sp r0 n, In (pat_r_r, t) gen_alloca_rows -> 0 <= n < 2 ^ 32 - 15 ->
        trun t {| t_sp := sp; t_r0 := r0; t_op1 := n |}
        = Some {| t_sp := sp - round16 n; t_r0 := sp - round16 n; t_op1 := n |})
  /\ (forall t sp r0 n, In (pat_r_i2, t) gen_alloca_rows -> 0 <= n ->
        trun t {| t_sp := sp; t_r0 := r0; t_op1 := imm_round gen_alloca_imm_add gen_alloca_imm_mask n |}
        = Some {| t_sp := sp - round16 n; t_r0 := sp - round16 n;
                  t_op1 := imm_round gen_alloca_imm_add gen_alloca_imm_mask n |})
  /\ (forall sp r0 x, map (fun r => trun (snd r) {| t_sp := sp; t_r0 := r0; t_op1 := x |}) gen_bstart_rows
                      = [Some {| t_sp := sp; t_r0 := sp; t_op1 := x |}])
  /\ (forall sp r0 x, map (fun r => trun (snd r) {| t_sp := sp; t_r0 := r0; t_op1 := x |}) gen_bend_rows
                      = [Some {| t_sp := r0; t_r0 := r0; t_op1 := x |}]).
Proof.
  split; [exact alloca_rows_patterns|]. split; [exact alloca_rr_sem|]. split; [exact alloca_ri_sem|]. exact bstart_bend_sem.
Qed.
Print Assumptions alloca_templates_eq_model.

(* for EVERY history of allocas, calls with stack arguments, bstart and bend executed after the
   prologue (rsp = F, 16-aligned: frame_sp_aligned): rsp stays 16-aligned, every live alloca block is
   16-aligned, at least as large as requested, lies between rsp and the frame, overlaps no other live
   block; the stack-argument area of any call lies below every live block and rsp is 16-aligned at
   the call instruction *)
Theorem alloca_memory_valid_and_aligned : forall F evs, F mod 16 = 0 -> Forall ev_wf evs ->
  let s := arun evs (astate0 F) in
  a_sp s mod 16 = 0 /\ a_sp s <= F
  /\ (forall b, In b (a_blocks s) ->
        a_sp s <= b_addr b /\ b_addr b + b_size b <= F /\ b_addr b mod 16 = 0 /\ 0 <= b_req b <= b_size b)
  /\ ForallOrdPairs bdisjoint (a_blocks s)
  /\ (forall k, ev_wf (ECall k) ->
        call_rsp s k mod 16 = 0 /\ call_rsp s k + k <= F
        /\ forall b, In b (a_blocks s) -> call_rsp s k + k <= b_addr b).
Proof. exact alloca_live_blocks. Qed.
Print Assumptions alloca_memory_valid_and_aligned.

(* ... and stays valid until the function returns: a live block is still live, at the same address
   with the same size, after any continuation that contains no bend; a bend with the value of a
   pending bstart leaves exactly the blocks that were live at that bstart *)
Theorem alloca_memory_stays_valid :
  (forall evs s b, no_bend evs -> In b (a_blocks s) -> In b (a_blocks (arun evs s)))
  /\ (forall s i m bl, nth_error (a_marks s) i = Some (m, bl) ->
        a_sp (astep s (EBend i)) = m /\ a_blocks (astep s (EBend i)) = bl)
  /\ (forall s, a_marks (astep s EBstart) = (a_sp s, a_blocks s) :: a_marks s).
Proof. split; [exact arun_keeps|]. split; [exact bend_restores|exact bstart_records]. Qed.
Print Assumptions alloca_memory_stays_valid.

Example alloca_history_example :
  let s := arun [EAlloca 100; ECall 32; EBstart; EAlloca 1; EBend 0; EAlloca 333] (astate0 4096) in
  a_sp s = 4096 - 112 - 336 /\ length (a_blocks s) = 2%nat /\ Forall ev_wf [EAlloca 100; ECall 32; EBstart; EAlloca 1; EBend 0; EAlloca 333].
Proof.
  split; [vm_compute; reflexivity|]. split; [vm_compute; reflexivity|].
  repeat (apply Forall_cons; [cbn [ev_wf]; first [exact I|split; [lia|reflexivity]|lia]|]). apply Forall_nil.
Qed.

(* constant allocas merged into one block by mir.c (adjacent allocas in simplify_func, top allocas of
   inlined callees in process_inlines), with fixes/C06-3.patch: every block starts at an offset that
   is a multiple of its own alignment (1, 2, 4, 8 or 16 by size), blocks do not overlap and fit into
   the merged size; the merged block itself is a 16-aligned alloca (above) *)
Theorem merged_allocas_placed : forall sizes,
  let '(l, tot) := merge true sizes in
  placed 0 l tot
  /\ map (fun x => snd (fst x)) l = map (fun s => fst (alloca_size_align s)) sizes
  /\ map snd l = map (fun s => snd (alloca_size_align s)) sizes.
Proof.
  intros sizes. pose proof (merge_placed sizes) as P. pose proof (merge_sizes true sizes 0 0) as S.
  unfold merge in *. destruct (merge_from true 0 0 sizes) as [l tot]. cbn [fst] in S. split; [exact P|exact S].
Qed.
Print Assumptions merged_allocas_placed.

(* the rule of the pinned commit (offset rounded only when the alignment grows) is refuted:
   allocas of 16, 1, 8 bytes put the 8-byte block at offset 17 -- replayed by ./check C06 *)
Theorem merged_allocas_head_refuted : exists sizes, ~ (let '(l, tot) := merge false sizes in placed 0 l tot).
Proof. exact merge_head_refuted. Qed.
Print Assumptions merged_allocas_head_refuted.

(* no instruction template of the generator and no hand-written stub writes MXCSR, the x87 control
   word or the direction flag (ldmxcsr, fxrstor, xrstor, fldcw, fldenv, fninit, frstor, emms, std):
   with C functions (builtins, interpreter) preserving them by their own ABI conformance, the
   control state a native caller set is the one it finds on return *)
Theorem control_state_never_written :
  (forall row ins, In row gen_patterns -> In ins (snd row) -> insn_writes_ctl ins = false)
  /\ (forall s, In s gen_stubs -> bytes_write_ctl s = false).
Proof. split; [exact no_template_writes_ctl|exact no_stub_writes_ctl]. Qed.
Print Assumptions control_state_never_written.

Theorem control_state_check_nonvacuous :
  (500 < length gen_patterns)%nat /\ (20 < length gen_stubs)%nat
  /\ insn_writes_ctl [KB 15; KB 174; KS 2; KO] = true
  /\ insn_writes_ctl [KB 217; KS 5; KO] = true
  /\ insn_writes_ctl [KB 217; KS 0; KO] = false
  /\ insn_writes_ctl [KB 219; KS 7; KO] = false
  /\ bytes_write_ctl [72; 15; 174; 84; 36; 8] = true
  /\ bytes_write_ctl [217; 108; 36; 4] = true
  /\ bytes_write_ctl [217; 201] = false.
Proof. exact ctl_nonvacuous. Qed.
Print Assumptions control_state_check_nonvacuous.

(* KNOWN FINDING c06:sret-rax (recorded, not repaired): the psABI also requires a function that
   returns an aggregate in memory to hand the block address back in rax.  MIR's result lowering
   (MIR_RET case, interpreter shim) loads rax only for an integer-class result, so a function whose
   first parameter is rblk and which has no integer result leaves rax undefined.
   callee_result_regs_eq_sysv above is the proved remainder (declared results). *)
Theorem sret_pointer_in_rax_refuted :
  exists args rs, wf_args args = true /\ sret_required args rs = true
  /\ exists l, ret_results rs = Some l /\ shim_results rs = Some l /\ ~ In RAX l.
Proof. exists [ARblk 24; AInt I64], [RD]. repeat split. exists [XMM0]. repeat split. intros [H|[]]; discriminate. Qed.
Print Assumptions sret_pointer_in_rax_refuted.

(* The pinned commit (before fixes C05-2, C06-1, C06-2) does NOT satisfy these: witnesses replayed
   by ./check C06 on the real code. *)
Theorem incoming_ld_head_refuted :
  exists args, wf_args args = true /\ fst (in_assign_head args) <> fst (assign args).
Proof. eexists. destruct ld_align_head_refuted as (A & _ & _ & B). split; [exact A|exact B]. Qed.
Print Assumptions incoming_ld_head_refuted.

Theorem va_start_head_refuted_thm :
  exists named, wf_args named = true /\ ov (gen_va_start_head named) <> ov (va_of (snd (assign named))).
Proof. eexists. exact va_start_head_refuted. Qed.
Print Assumptions va_start_head_refuted_thm.

Theorem va_block_arg_head_refuted_thm :
  exists named tail, wf_args (named ++ tail) = true
  /\ fst (va_read_seq false false (va_of (snd (assign named))) tail)
     <> skipn (length named) (fst (assign (named ++ tail))).
Proof. eexists. eexists. exact va_block_arg_head_refuted. Qed.
Print Assumptions va_block_arg_head_refuted_thm.

Theorem va_block2_bounds_head_refuted_thm :
  exists named tail, wf_args (named ++ tail) = true
  /\ fst (va_read_seq false false (va_of (snd (assign named))) tail)
     <> skipn (length named) (fst (assign (named ++ tail))).
Proof. eexists. eexists. exact va_block2_head_refuted. Qed.
Print Assumptions va_block2_bounds_head_refuted_thm.

Theorem va_arg_ld_head_refuted_thm :
  exists named tail, wf_args (named ++ tail) = true
  /\ fst (va_read_seq false true (va_of (snd (assign named))) tail)
     <> skipn (length named) (fst (assign (named ++ tail))).
Proof. eexists. eexists. exact va_ld_head_refuted. Qed.
Print Assumptions va_arg_ld_head_refuted_thm.

(* ---- round 3: the frame stays addressable while the function itself calls ----
   machinize_call (placement of its frame-pointer forcing statements read off the checked tree) forces a
   frame pointer for every call that has a stack-argument area, whether the area holds scalars, copied
   by-value blocks or both *)
Theorem call_with_stack_area_forces_fp : forall c, oc_wf c -> oc_area c <> 0 ->
  call_forces gen_call_fp_end_rule gen_call_fp_blk_rule gen_call_fp_scalar_rule c = true.
Proof. exact gen_call_forces. Qed.
Print Assumptions call_with_stack_area_forces_fp.

(* for every function (any features) and every body history of allocas and calls (any mix of register, stack-scalar
   and stack-block arguments): at every point where a slot can be accessed -- between the events and inside the
   sub rsp/add rsp window of a call -- a slot (spilled pseudo, value saved around the call) has the address it had
   right after the prologue, with the frame-pointer decision the code makes *)
Theorem frame_slots_addressable_across_calls : forall f evs rbp F off_fp off_sp,
  Forall (fun e => match e with BCall c => oc_wf c | BAlloca _ => True end) evs ->
  let k := keeps_fp gen_call_fp_end_rule gen_call_fp_blk_rule gen_call_fp_scalar_rule gen_alloca_keeps_fp f evs in
  Forall (fun sp => body_slot_addr k rbp sp off_fp off_sp = body_slot_addr k rbp F off_fp off_sp) (sp_points F evs).
Proof. exact body_slot_addr_stable_gen. Qed.
Print Assumptions frame_slots_addressable_across_calls.

(* forcing the frame pointer only where a scalar goes to the stack is not enough (a call passing one 24-byte block) *)
Theorem scalar_only_fp_rule_refuted :
  exists f evs F sp off,
    keeps_fp false false true true f evs = false /\ In sp (sp_points F evs)
    /\ body_slot_addr false 0 sp 0 off <> body_slot_addr false 0 F 0 off.
Proof. exact scalar_only_rule_refuted_lem. Qed.
Print Assumptions scalar_only_fp_rule_refuted.

(* ---- round 3 (wave v): alloca in leaf functions ----
   frame_sp_aligned composed with alloca_memory_valid_and_aligned: in EVERY function (any slots / saved registers of
   either parity, either frame layout, leaf or not) every live alloca block is 16-byte aligned and below the frame *)
Theorem alloca_aligned_in_every_function : forall f E evs, E mod 16 = 8 -> Forall ev_wf evs ->
  let s := arun evs (astate0 (sp_after f E)) in
  a_sp s mod 16 = 0
  /\ forall b, In b (a_blocks s) ->
       b_addr b mod 16 = 0 /\ b_addr b + b_size b <= sp_after f E /\ 0 <= b_req b <= b_size b.
Proof. exact FrameProofs.alloca_aligned_in_every_function. Qed.
Print Assumptions alloca_aligned_in_every_function.

(* rounding the block (slots + saved registers) to 16 only in non-leaf functions is refuted: one slot, one alloca *)
Theorem leaf_unrounded_block_refuted :
  (forall f E, sp_after_lf false f E = sp_after f E)
  /\ exists f E n, E mod 16 = 8 /\ ev_wf (EAlloca n) /\ keep_fp f = true
       /\ sp_after_lf true f E mod 16 = 8
       /\ exists b, In b (a_blocks (arun [EAlloca n] (astate0 (sp_after_lf true f E)))) /\ b_addr b mod 16 = 8.
Proof. exact leaf_unrounded_block_refuted_lem. Qed.
Print Assumptions leaf_unrounded_block_refuted.

(* ---- round 3: insns with a side effect whose output is dead ----
   both dead-code eliminations (SSA, -O2 and above; after register allocation) delete an insn only if it has an
   output without a use and is not in their list of control insns; the lists read off the checked tree keep calls
   and va_arg (after register allocation va_arg is a builtin call) *)
Theorem dce_lists_keep_side_effects : rules_ok gen_ssa_rules = true /\ rules_ok gen_postra_rules = true.
Proof. exact gen_dce_rules_ok. Qed.
Print Assumptions dce_lists_keep_side_effects.

(* for every body of va reads / allocas / calls / ordinary insns, every choice of which outputs are used and every
   set of deletions such a pass may make (cascades included; dead allocas may go): the final va_list, the calls made and
   everything the used insns deliver are what the undeleted body gives *)
Theorem dce_preserves_side_effects : forall r, rules_ok r = true -> forall p m st, mask_ok r p m = true ->
  dobs (drun (dce_apply p m) st) = dobs (drun p st).
Proof. intros r R p m st M. exact (dce_preserves r R p m st st eq_refl eq_refl M). Qed.
Print Assumptions dce_preserves_side_effects.

(* a variadic callee that SKIPS arguments: whatever subset of the tail the body looks at (`used`), after either
   elimination pass the reads it keeps deliver exactly the psABI locations of those arguments (generated code and
   interpreter) and the va_list ends where reading the whole tail ends *)
Theorem skipped_va_args_eq_sysv : forall named tail used m sp calls,
  wf_args (named ++ tail) = true -> length used = length tail ->
  mask_ok gen_ssa_rules (va_body tail used) m = true ->
  let st0 := {| d_va := gen_va_start named; d_sp := sp; d_calls := calls |} in
  let st1 := {| d_va := snd (interp_decode true named); d_sp := sp; d_calls := calls |} in
  snd (drun (dce_apply (va_body tail used) m) st0)
    = map Some (select (skipn (length named) (fst (assign (named ++ tail)))) used)
  /\ snd (drun (dce_apply (va_body tail used) m) st1)
    = map Some (select (skipn (length named) (fst (assign (named ++ tail)))) used)
  /\ d_va (fst (drun (dce_apply (va_body tail used) m) st0)) = snd (va_read_seq true true (gen_va_start named) tail).
Proof. exact (skipped_reads_eq_sysv gen_ssa_rules (proj1 gen_dce_rules_ok)). Qed.
Print Assumptions skipped_va_args_eq_sysv.

(* a list without va_arg (seeded C06-z1) is refuted: a skipped long followed by a read one *)
Theorem dce_list_without_va_arg_refuted : exists named tail used m,
  wf_args (named ++ tail) = true /\ length used = length tail /\ mask_ok no_va_arg_rules (va_body tail used) m = true
  /\ snd (drun (dce_apply (va_body tail used) m) {| d_va := gen_va_start named; d_sp := 0; d_calls := [] |})
     <> map Some (select (skipn (length named) (fst (assign (named ++ tail)))) used).
Proof. exact no_va_arg_rule_refuted. Qed.
Print Assumptions dce_list_without_va_arg_refuted.

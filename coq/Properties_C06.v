(* Property C06 (placeholder while the proofs are being written). *)
From Coq Require Import List ZArith.
From MirV Require Import C05.SysV C05.AbiImpl.

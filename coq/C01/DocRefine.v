(* The integer instruction semantics the reference interpreter of C01/C04 runs (C01/InsnSem.int_val,
   int_br, int_ovf - written from MIR.md for C01) agrees with the documented semantics b-c02 wrote
   independently from MIR.md for C02/C20 (Mir/DocSpecInt.doc_sem_int, doc_branch_int, doc_ovf) on
   every input the interpreter can feed an instruction: sources reduced to the source kind
   (Sem.use_as).  Where InsnSem gives a value DocSpec gives the same value (so "well-defined for Sem"
   implies "MIR.md gives a meaning" and the meanings coincide); InsnSem is undefined exactly where
   DocSpec is. *)
From Coq Require Import ZArith List Bool Lia.
From MirV Require Import Base.W64 Mir.Opcode Mir.Syntax Mir.Sem C01.InsnSem Mir.DocSpecInt.
Import ListNotations.
Local Open Scope Z_scope.

Definition kbits (k : kind) : Z :=
  match k with K64 | KD => 64 | K32 | KF => 32 | K16 => 16 | K8 => 8 end.
Definition in_kind (k : kind) (x : Z) : Prop := in_u (kbits k) x.

(* ---- primitives ----------------------------------------------------------------------------- *)

Lemma sdivw_doc w a b : sdivw (wbits w) a b = ibin IDiv w a b.
Proof.
  unfold sdivw, ibin, sw, uw, smin, cdiv.
  destruct (swrap (wbits w) b =? 0); [reflexivity|]. cbn [orb].
  destruct ((swrap (wbits w) a =? - 2 ^ (wbits w - 1)) && (swrap (wbits w) b =? -1)); reflexivity.
Qed.

Lemma smodw_doc w a b : smodw (wbits w) a b = ibin IMod w a b.
Proof.
  unfold smodw, ibin, sw, uw, smin, crem.
  destruct (swrap (wbits w) b =? 0); [reflexivity|]. cbn [orb].
  destruct ((swrap (wbits w) a =? - 2 ^ (wbits w - 1)) && (swrap (wbits w) b =? -1)); reflexivity.
Qed.

Lemma udivw_doc w a b : in_u (wbits w) a -> in_u (wbits w) b -> udivw (wbits w) a b = ibin IUDiv w a b.
Proof. intros Ha Hb. unfold udivw, ibin, uw. rewrite !uwrap_id by assumption. reflexivity. Qed.

Lemma umodw_doc w a b : in_u (wbits w) a -> in_u (wbits w) b -> umodw (wbits w) a b = ibin IUMod w a b.
Proof. intros Ha Hb. unfold umodw, ibin, uw. rewrite !uwrap_id by assumption. reflexivity. Qed.

Lemma count_ok n c : in_u n c -> ((0 <=? c) && (c <? n)) = (c <? n).
Proof. intros [H _]. apply Z.leb_le in H. rewrite H. reflexivity. Qed.

Lemma shlw_doc w a c : in_u (wbits w) a -> in_u (wbits w) c -> shlw (wbits w) a c = ibin ILsh w a c.
Proof.
  intros Ha Hc. unfold shlw, ibin, uw, shl. rewrite (uwrap_id _ a Ha), (uwrap_id _ c Hc). rewrite (count_ok _ _ Hc). reflexivity.
Qed.

Lemma ashrw_doc w a c : in_u (wbits w) c -> ashrw (wbits w) a c = ibin IRsh w a c.
Proof.
  intros Hc. unfold ashrw, ibin, uw, sw, ashr. rewrite (uwrap_id _ c Hc). rewrite (count_ok _ _ Hc). reflexivity.
Qed.

Lemma lshrw_doc w a c : in_u (wbits w) a -> in_u (wbits w) c -> lshrw (wbits w) a c = ibin IURsh w a c.
Proof.
  intros Ha Hc. unfold lshrw, ibin, uw, lshr. rewrite (uwrap_id _ a Ha), (uwrap_id _ c Hc). rewrite (count_ok _ _ Hc). reflexivity.
Qed.

Lemma eqb_swrap n a b : 0 < n -> in_u n a -> in_u n b -> (swrap n a =? swrap n b) = (a =? b).
Proof.
  intros Hn Ha Hb. destruct (Z.eqb_spec a b) as [E|E].
  - subst. apply Z.eqb_refl.
  - apply Z.eqb_neq. intros H. apply E. apply (f_equal (uwrap n)) in H.
    rewrite !uwrap_swrap in H by assumption. rewrite !uwrap_id in H by assumption. exact H.
Qed.

Lemma wbits_pos w : 0 < wbits w. Proof. destruct w; reflexivity. Qed.

(* ---- value instructions ------------------------------------------------------------------- *)

Ltac two_srcs Hin :=
  let H1 := fresh "H1" in let H2 := fresh "H2" in
  inversion Hin as [|? ? H1 Hin']; subst; inversion Hin' as [|? ? H2 Hin'']; subst; clear Hin Hin'.

Theorem int_val_eq_doc : forall o ks kd xs,
  val_op o = Some (ks, kd) -> fp_kind ks || fp_kind kd = false -> ovf_op o = false ->
  Forall (in_kind ks) xs ->
  int_val o xs = doc_sem_int o xs.
Proof.
  intros o ks kd xs Hv Hfp Hov Hin.
  destruct o; cbn in Hv; try discriminate; inversion Hv; subst ks kd; clear Hv;
    cbn in Hfp, Hov; try discriminate;
    destruct xs as [|x [|y [|z xs]]]; unfold doc_sem_int; cbn [int_class int_val];
    try reflexivity;                             (* wrong arity; ext, neg, add, sub, mul *)
    two_srcs Hin; unfold in_kind, kbits in *;
    first
      [ (* signed division / remainder *)
        first [ exact (sdivw_doc W64 x y) | exact (sdivw_doc W32 x y)
              | exact (smodw_doc W64 x y) | exact (smodw_doc W32 x y) ]
      | first [ apply (udivw_doc W64) | apply (udivw_doc W32) | apply (umodw_doc W64) | apply (umodw_doc W32)
              | apply (shlw_doc W64) | apply (shlw_doc W32) | apply (lshrw_doc W64) | apply (lshrw_doc W32) ];
        assumption
      | first [ apply (ashrw_doc W64) | apply (ashrw_doc W32) ]; assumption
      | (* and / or / xor, unsigned comparisons: operands are already reduced *)
        unfold ibin, icompare, cmpZ, uw; cbn [wbits];
        rewrite !uwrap_id by assumption; rewrite ?Z.gtb_ltb, ?Z.geb_leb; reflexivity
      | (* signed comparisons *)
        unfold icompare, cmpZ, sw, scmp; cbn [wbits]; rewrite ?Z.gtb_ltb, ?Z.geb_leb; reflexivity
      | (* eq / ne *)
        unfold icompare, cmpZ, sw; cbn [wbits]; rewrite eqb_swrap by (try assumption; lia); reflexivity ].
Qed.

(* a value for the interpreter is the documented value; where MIR.md gives a meaning the interpreter is
   not stuck *)
Theorem int_val_refines_doc : forall o ks kd xs a,
  val_op o = Some (ks, kd) -> fp_kind ks || fp_kind kd = false -> ovf_op o = false ->
  Forall (in_kind ks) xs ->
  int_val o xs = Some a -> doc_sem_int o xs = Some a.
Proof. intros o ks kd xs a Hv Hfp Hov Hin H. rewrite <- (int_val_eq_doc o ks kd xs Hv Hfp Hov Hin). exact H. Qed.

Theorem doc_defined_then_int_val : forall o ks kd xs b,
  val_op o = Some (ks, kd) -> fp_kind ks || fp_kind kd = false -> ovf_op o = false ->
  Forall (in_kind ks) xs ->
  doc_sem_int o xs = Some b -> int_val o xs = Some b.
Proof. intros o ks kd xs b Hv Hfp Hov Hin H. rewrite (int_val_eq_doc o ks kd xs Hv Hfp Hov Hin). exact H. Qed.

(* ---- compare-and-branch --------------------------------------------------------------------- *)

Theorem int_br_refines_doc : forall o k xs t,
  br_op o = Some k -> fp_kind k = false -> Forall (in_kind k) xs ->
  int_br o xs = Some t -> doc_branch_int o xs = Some t.
Proof.
  intros o k xs t Hb Hfp Hin Hbr.
  destruct o; cbn in Hb; try discriminate; inversion Hb; subst k; clear Hb; cbn in Hfp; try discriminate;
    destruct xs as [|x [|y [|z xs]]]; cbn in Hbr; try discriminate;
    unfold doc_branch_int; cbn [int_branch_class]; rewrite <- Hbr;
    first
      [ (* bt / bf *)
        inversion Hin as [|? ? H1 ?]; subst; unfold in_kind, kbits in *; unfold uw; cbn [wbits];
        rewrite uwrap_id by assumption; reflexivity
      | two_srcs Hin; unfold in_kind, kbits in *;
        first
          [ unfold icompare, cmpZ, uw; cbn [wbits]; rewrite !uwrap_id by assumption;
            rewrite ?Z.gtb_ltb, ?Z.geb_leb; reflexivity
          | unfold icompare, cmpZ, sw, scmp; cbn [wbits]; rewrite ?Z.gtb_ltb, ?Z.geb_leb; reflexivity
          | unfold icompare, cmpZ, sw; cbn [wbits]; rewrite eqb_swrap by (try assumption; lia); reflexivity ] ].
Qed.

(* ---- overflow instructions ------------------------------------------------------------------- *)

Lemma s_ovf_doc w r : s_ovf (wbits w) r = negb (fits_s w r).
Proof.
  unfold s_ovf, fits_s, smin, smax. f_equal. f_equal.
  destruct (Z.ltb_spec r (2 ^ (wbits w - 1))); destruct (Z.leb_spec r (2 ^ (wbits w - 1) - 1)); try reflexivity; lia.
Qed.

Lemma u_ovf_doc w r : u_ovf (wbits w) r = negb (fits_u w r).
Proof.
  unfold u_ovf, fits_u, umax. f_equal. f_equal.
  destruct (Z.ltb_spec r (2 ^ wbits w)); destruct (Z.leb_spec r (2 ^ wbits w - 1)); try reflexivity; lia.
Qed.

(* result and the flags the instruction defines (ovf_defined) are those of DocSpec; the flag an
   instruction does not define is None for the interpreter (a branch on it is Stuck) *)
Theorem int_ovf_refines_doc : forall o ks kd a b r fs fu,
  val_op o = Some (ks, kd) -> ovf_op o = true ->
  in_kind ks a -> in_kind ks b ->
  int_val o [a; b] = Some r -> int_ovf o [a; b] = Some (fs, fu) ->
  exists s u, doc_ovf o [a; b] = Some (r, s, u) /\
              fs = (if fst (ovf_defined o) then Some s else None) /\
              fu = (if snd (ovf_defined o) then Some u else None).
Proof.
  intros o ks kd a b r fs fu Hv Hov Ha Hb Hval Hovf.
  destruct o; cbn in Hov; try discriminate; cbn in Hv; inversion Hv; subst ks kd; clear Hv;
    unfold in_kind, kbits in *; cbn in Hval, Hovf; inversion Hval; subst r; inversion Hovf; subst fs fu;
    unfold doc_ovf; cbn [ovf_class ovf_defined fst snd]; unfold ovf, exact_op, uw, sw; cbn [wbits];
    rewrite ?(uwrap_id _ a) by assumption; rewrite ?(uwrap_id _ b) by assumption;
    eexists _, _; (split; [reflexivity|]); split;
    first [ reflexivity
          | f_equal; first [ exact (s_ovf_doc W64 _) | exact (s_ovf_doc W32 _)
                           | exact (u_ovf_doc W64 _) | exact (u_ovf_doc W32 _) ] ].
Qed.

(* C01: gvn_phi_val gives a phi the value of its inputs only when ALL inputs carry that very value -
   flag and number.  Lemmas for coq/Properties_C01.v. *)
From Coq Require Import ZArith List Bool Lia.
From MirV Require Import C01.PhiVal.
Import ListNotations.
Open Scope Z_scope.

(* invariant of the scan with both comparisons on: after at least one input, same_p means every input
   seen so far is Some (G const_p val) *)
Lemma scan_inv : forall ins first c sm v seen,
  (first = true -> seen = [] /\ sm = true) ->
  (first = false -> sm = true -> seen <> [] /\ Forall (fun d => d = Some (G c v)) seen) ->
  forall first' c' sm' v',
  fold_left (phi_step true true) ins (first, c, sm, v) = (first', c', sm', v') ->
  sm' = true -> ins ++ seen <> [] ->
  Forall (fun d => d = Some (G c' v')) (seen ++ ins).
Proof.
  induction ins as [|d r IH]; intros first c sm v seen Hf Hnf first' c' sm' v' Hfold Hsm Hne.
  - cbn [fold_left] in Hfold. inversion Hfold as [[H0 H1 H2 H3]]. rewrite <- H1, <- H3. rewrite <- H2 in Hsm. clear Hfold.
    rewrite app_nil_r.
    destruct first.
    + destruct (Hf eq_refl) as [E _]. subst seen. cbn in Hne. congruence.
    + apply (Hnf eq_refl Hsm).
  - cbn [fold_left] in Hfold.
    assert (Hfalse : forall c0 v0 l, fold_left (phi_step true true) l (false, c0, false, v0) = (first', c', sm', v') -> False).
    { intros c0 v0 l. revert c0 v0. induction l as [|x l IHl]; intros c0 v0 H.
      - cbn in H. inversion H; subst. discriminate.
      - cbn [fold_left phi_step] in H. eapply IHl. exact H. }
    unfold phi_step at 2 in Hfold.
    destruct sm.
    2:{ exfalso. eapply Hfalse. exact Hfold. }
    destruct d as [g|].
    2:{ exfalso. eapply Hfalse. exact Hfold. }
    destruct first.
    + destruct (Hf eq_refl) as [E _]. subst seen. cbn [app].
      replace (Some g :: r) with ([Some g] ++ r) by reflexivity.
      apply (IH false (g_const g) true (g_val g) [Some g]) with (first' := first') (sm' := sm'); auto.
      * intros H; discriminate.
      * intros _ _. split; [discriminate|]. constructor; [|constructor]. destruct g; reflexivity.
      * destruct r; discriminate.
    + destruct (Hnf eq_refl eq_refl) as [Hn Hall].
      cbn [andb] in Hfold.
      destruct (negb (Bool.eqb c (g_const g)) || negb (v =? g_val g)) eqn:Hc.
      { exfalso. eapply Hfalse. exact Hfold. }
      apply orb_false_elim in Hc. destruct Hc as [Hc1 Hc2].
      apply negb_false_iff in Hc1. apply negb_false_iff in Hc2.
      apply Bool.eqb_prop in Hc1. apply Z.eqb_eq in Hc2.
      replace (seen ++ Some g :: r) with ((seen ++ [Some g]) ++ r) by (rewrite <- app_assoc; reflexivity).
      apply (IH false c true v (seen ++ [Some g])) with (first' := first') (sm' := sm'); auto.
      * intros H; discriminate.
      * intros _ _. split; [destruct seen; discriminate|].
        apply Forall_app. split; [exact Hall|]. constructor; [|constructor].
        destruct g as [gc gv]. cbn in Hc1, Hc2. subst. reflexivity.
      * destruct r; [destruct seen; discriminate|discriminate].
Qed.

Lemma phi_same_sound : forall cf cv, cf = true -> cv = true ->
  forall ins g, ins <> [] -> phi_same cf cv ins = Some g -> Forall (fun d => d = Some g) ins.
Proof.
  intros cf cv -> -> ins g Hne H. unfold phi_same, phi_scan in H.
  destruct (fold_left (phi_step true true) ins (true, true, true, 0)) as [[[fi c] sm] v] eqn:E.
  destruct sm; [|discriminate]. inversion H; subst g.
  apply (scan_inv ins true true true 0 [] ) with (first' := fi) (sm' := true); auto.
  - intros H0; discriminate.
  - rewrite app_nil_r. exact Hne.
Qed.

(* the phi is folded to the constant K only if every input is the constant K: whatever the value
   numbers stand for, every input then evaluates to K *)
Lemma phi_const_sound : forall cf cv, cf = true -> cv = true ->
  forall idx ins K, ins <> [] -> phi_val cf cv idx ins = (true, K) ->
  Forall (fun d => d = Some (G true K) /\ forall rho, option_map (den rho) d = Some K) ins.
Proof.
  intros cf cv Hcf Hcv idx ins K Hne H.
  assert (Hs : phi_same cf cv ins = Some (G true K)).
  { unfold phi_val in H. unfold phi_same.
    destruct (phi_scan cf cv ins) as [[[fi c] sm] v]. destruct sm; cbn [andb] in H; [|inversion H; discriminate].
    inversion H; subst. reflexivity. }
  pose proof (phi_same_sound cf cv Hcf Hcv ins _ Hne Hs) as Hall.
  refine (Forall_impl _ _ Hall). intros d Hd. subst d. split; [reflexivity|]. intros rho. reflexivity.
Qed.

(* ... and it gets the value number n of its inputs only if every input is that number *)
Lemma phi_number_sound : forall cf cv, cf = true -> cv = true ->
  forall ins c n, ins <> [] -> phi_same cf cv ins = Some (G c n) ->
  forall rho, Forall (fun d => option_map (den rho) d = Some (den rho (G c n))) ins.
Proof.
  intros cf cv Hcf Hcv ins c n Hne Hs rho.
  pose proof (phi_same_sound cf cv Hcf Hcv ins _ Hne Hs) as Hall.
  refine (Forall_impl _ _ Hall). intros d Hd. subst d. reflexivity.
Qed.

(* without the comparison of the flags a constant and a value number that happen to be the same
   integer count as the same value: the phi of (constant 3, value number 3) is folded to 3 although the
   expression number 3 evaluates to 9 *)
Lemma phi_flag_not_compared_refuted :
  exists ins rho, phi_val false true 0 ins = (true, 3) /\
                  exists g, In (Some g) ins /\ den rho g <> 3.
Proof.
  exists [Some (G true 3); Some (G false 3)], (fun _ => 9). split; [reflexivity|].
  exists (G false 3). split; [cbn; auto|]. cbn. discriminate.
Qed.

(* the other order: first input the value number 3, second the constant 3 - the phi is numbered 3, i.e.
   taken for the expression number 3 although one of its inputs is the constant *)
Lemma phi_flag_not_compared_refuted_number :
  exists ins rho, phi_same false true ins = Some (G false 3) /\
                  exists g, In (Some g) ins /\ den rho g <> den rho (G false 3).
Proof.
  exists [Some (G false 3); Some (G true 3)], (fun _ => 9). split; [reflexivity|].
  exists (G true 3). split; [cbn; auto|]. cbn. discriminate.
Qed.

Lemma phi_flags_not_compared_refuted_both :
  (exists ins rho, phi_val false true 0 ins = (true, 3) /\ exists g, In (Some g) ins /\ den rho g <> 3) /\
  (exists ins rho, phi_same false true ins = Some (G false 3) /\
                   exists g, In (Some g) ins /\ den rho g <> den rho (G false 3)).
Proof. exact (conj phi_flag_not_compared_refuted phi_flag_not_compared_refuted_number). Qed.

(* non-vacuity: the scan does fold equal constants and does number equal expressions *)
Example phi_const_example : phi_val true true 7 [Some (G true 5); Some (G true 5); Some (G true 5)] = (true, 5).
Proof. reflexivity. Qed.
Example phi_number_example : phi_val true true 7 [Some (G false 5); Some (G false 5)] = (false, 5).
Proof. reflexivity. Qed.
Example phi_mixed_example : phi_val true true 7 [Some (G true 3); Some (G false 3)] = (false, 7).
Proof. reflexivity. Qed.

From Coq Require Import ZArith List Bool Lia.
From MirV Require Import Base.W64 Mir.Opcode Mir.Syntax Mir.Sem C01.InsnSem C01.Peephole.
Import ListNotations.
Local Open Scope Z_scope.

Local Arguments Z.pow : simpl never.
Local Arguments Z.mul : simpl never.
Local Arguments Z.div : simpl never.
Local Arguments Z.modulo : simpl never.

(* ---------------------------------------------------------------- mul / udiv by 2^k *)
Lemma mul_pow2_is_lsh : forall a k, 0 <= k < 64 ->
  int_val MUL [a; 2 ^ k] = int_val LSH [a; k].
Proof.
  intros a k Hk. cbn [int_val]. unfold shlw.
  destruct (Z.leb_spec 0 k); [|lia]. destruct (Z.ltb_spec k 64); [|lia]. reflexivity.
Qed.

Lemma muls_pow2_is_lshs : forall a k, 0 <= k < 32 ->
  int_val MULS [a; 2 ^ k] = int_val LSHS [a; k].
Proof.
  intros a k Hk. cbn [int_val]. unfold shlw.
  destruct (Z.leb_spec 0 k); [|lia]. destruct (Z.ltb_spec k 32); [|lia]. reflexivity.
Qed.

Lemma udiv_pow2_is_ursh : forall a k, 0 <= a < 2 ^ 64 -> 0 <= k < 64 ->
  int_val UDIV [a; 2 ^ k] = int_val URSH [a; k].
Proof.
  intros a k Ha Hk. cbn [int_val]. unfold udivw, lshrw, lshr.
  assert (0 < 2 ^ k) by (apply Z.pow_pos_nonneg; lia).
  destruct (Z.eqb_spec (2 ^ k) 0); [lia|].
  destruct (Z.leb_spec 0 k); [|lia]. destruct (Z.ltb_spec k 64); [|lia]. cbn [andb].
  rewrite uwrap_id by exact Ha. reflexivity.
Qed.

Lemma udivs_pow2_is_urshs : forall a k, 0 <= a < 2 ^ 32 -> 0 <= k < 32 ->
  int_val UDIVS [a; 2 ^ k] = int_val URSHS [a; k].
Proof.
  intros a k Ha Hk. cbn [int_val]. unfold udivw, lshrw, lshr.
  assert (0 < 2 ^ k) by (apply Z.pow_pos_nonneg; lia).
  destruct (Z.eqb_spec (2 ^ k) 0); [lia|].
  destruct (Z.leb_spec 0 k); [|lia]. destruct (Z.ltb_spec k 32); [|lia]. cbn [andb].
  rewrite uwrap_id by exact Ha. reflexivity.
Qed.

(* the snapshot took log2 of the 64-bit constant for 32-bit opcodes too (DESIGN section 6 #10,
   fixed by 085bd33b): for k = 32 the shift is not even defined while the product is 0 *)
Lemma muls_pow2_32_refuted : exists a, int_val MULS [a; u32 (2 ^ 32)] <> int_val LSHS [a; 32].
Proof. exists 7. vm_compute. discriminate. Qed.

(* ---------------------------------------------------------------- signed division by 2^k *)

Lemma pow_split n k : 0 <= k <= n -> 2 ^ n = 2 ^ k * 2 ^ (n - k).
Proof. intros. rewrite <- Z.pow_add_r by lia. f_equal. lia. Qed.

(* the arithmetic heart: truncating division by 2^k = floor division after adding the bias *)
Lemma quot_pow2_bias : forall x k, 0 <= k ->
  Z.quot x (2 ^ k) = (x + (if x <? 0 then 2 ^ k - 1 else 0)) / 2 ^ k.
Proof.
  intros x k Hk. assert (Hp : 0 < 2 ^ k) by (apply Z.pow_pos_nonneg; lia).
  destruct (Z.ltb_spec x 0) as [Hneg|Hpos].
  - rewrite <- (Z.opp_involutive x) at 1. rewrite Z.quot_opp_l by lia.
    rewrite Z.quot_div_nonneg by lia.
    (* -( (-x) / p ) = (x + p - 1) / p *)
    set (p := 2 ^ k) in *. apply Z.div_unique with (r := (x + (p - 1)) - p * (- (- x / p))).
    + left. pose proof (Z.div_mod (- x) p ltac:(lia)) as E. pose proof (Z.mod_pos_bound (- x) p Hp) as B.
      set (q := - x / p) in *. set (r := - x mod p) in *. clearbody q r. split; nia.
    + ring.
  - rewrite Z.add_0_r. apply Z.quot_div_nonneg; lia.
Qed.

Section Div64.
Variable a k : Z.
Hypothesis Ha : 0 <= a < 2 ^ 64.
Hypothesis Hk : 1 <= k <= 62.

Let p := 2 ^ k.
Lemma p_pos : 0 < p. Proof. unfold p. apply Z.pow_pos_nonneg; lia. Qed.
Lemma p_le : p <= 2 ^ 62. Proof. unfold p. apply Z.pow_le_mono_r; lia. Qed.

Lemma s64_cases : (a < 2 ^ 63 /\ s64 a = a) \/ (2 ^ 63 <= a /\ s64 a = a - 2 ^ 64).
Proof.
  unfold s64, swrap. rewrite Z.mod_small by exact Ha. change (64 - 1) with 63.
  destruct (Z.ltb_spec a (2 ^ 63)); [left|right]; split; auto.
Qed.

(* rsh a, 63 is 0 or all ones *)
Lemma sign_word : int_val RSH [a; 63] = Some (if s64 a <? 0 then 2 ^ 64 - 1 else 0).
Proof.
  cbn [int_val]. unfold ashrw. cbn [Z.leb Z.ltb Z.compare andb]. f_equal. unfold ashr.
  fold (s64 a). destruct s64_cases as [[H1 E]|[H1 E]]; rewrite E.
  - destruct (Z.ltb_spec a 0); [lia|]. rewrite Z.div_small by (change (2 ^ 63) with 9223372036854775808 in *; lia).
    reflexivity.
  - assert (Hn : a - 2 ^ 64 < 0) by lia. destruct (Z.ltb_spec (a - 2 ^ 64) 0); [|lia].
    assert (Ed : (a - 2 ^ 64) / 2 ^ 63 = -1).
    { symmetry. apply Z.div_unique with (r := a - 2 ^ 63).
      - left. change (2 ^ 64) with (2 * 2 ^ 63) in *. lia.
      - change (2 ^ 64) with (2 * 2 ^ 63). ring. }
    rewrite Ed. reflexivity.
Qed.

Lemma land_ones_all : Z.land (2 ^ 64 - 1) (p - 1) = p - 1.
Proof.
  pose proof p_pos as Hp. unfold p in *.
  replace (2 ^ k - 1) with (Z.ones k) by (rewrite Z.ones_equiv; unfold Z.pred; ring).
  rewrite Z.land_ones by lia. rewrite Z.ones_equiv. unfold Z.pred.
  symmetry. apply Z.mod_unique with (q := 2 ^ (64 - k) - 1); [left; lia|].
  rewrite (pow_split 64 k) by lia. ring.
Qed.

Lemma quot_p : forall x, Z.quot x p = (x + (if x <? 0 then p - 1 else 0)) / p.
Proof. intros x. unfold p. apply quot_pow2_bias. lia. Qed.

Lemma u64_small' z : 0 <= z < 2 ^ 64 -> uwrap 64 z = z.
Proof. intros. now apply uwrap_id. Qed.

Lemma div_pow2_seq_correct : div_pow2_seq a k = int_val DIV [a; 2 ^ k].
Proof.
  unfold div_pow2_seq. rewrite sign_word. fold p.
  pose proof p_pos as Hp. pose proof p_le as Hp62.
  assert (Hu : u64 (p - 1) = p - 1).
  { unfold u64. apply uwrap_id. unfold in_u. change (2 ^ 62) with 4611686018427387904 in *.
    change (2 ^ 64) with 18446744073709551616. lia. }
  rewrite Hu.
  (* right-hand side *)
  cbn [int_val]. unfold sdivw. fold p.
  assert (Hsp : s64 p = p).
  { unfold s64. apply swrap_id; [lia|]. unfold in_s. change (64 - 1) with 63.
    change (2 ^ 63) with 9223372036854775808. change (2 ^ 62) with 4611686018427387904 in *. lia. }
  fold (s64 p). rewrite Hsp. fold (s64 a).
  destruct (Z.eqb_spec p 0); [lia|].
  assert (Hm1 : (p =? -1) = false) by (apply Z.eqb_neq; lia). rewrite Hm1, andb_false_r.
  unfold cdiv. rewrite quot_p.
  destruct s64_cases as [[H1 E]|[H1 E]]; rewrite E.
  - (* non-negative *)
    destruct (Z.ltb_spec a 0); [lia|]. cbn [int_val]. rewrite Z.land_0_l. cbn [int_val].
    rewrite Z.add_0_l, Z.add_0_r. unfold ashrw.
    destruct (Z.leb_spec 0 k); [|lia]. destruct (Z.ltb_spec k 64); [|lia]. cbn [andb]. f_equal.
    unfold ashr. unfold u64. rewrite swrap_uwrap by lia. fold (s64 a). rewrite E. reflexivity.
  - (* negative: bias p - 1 *)
    destruct (Z.ltb_spec (a - 2 ^ 64) 0); [|lia]. cbn [int_val]. rewrite land_ones_all. cbn [int_val].
    unfold ashrw. destruct (Z.leb_spec 0 k); [|lia]. destruct (Z.ltb_spec k 64); [|lia]. cbn [andb]. f_equal.
    unfold ashr. f_equal. fold p. f_equal.
    (* s64 (u64 (p - 1 + a)) = a - 2^64 + (p - 1) *)
    unfold u64. rewrite swrap_uwrap by lia.
    replace (p - 1 + a) with ((a - 2 ^ 64 + (p - 1)) + 1 * 2 ^ 64) by ring.
    unfold swrap. rewrite Z.mod_add by discriminate.
    change (64 - 1) with 63. change (2 ^ 63) with 9223372036854775808 in *.
    change (2 ^ 64) with 18446744073709551616 in *. change (2 ^ 62) with 4611686018427387904 in *.
    destruct (Z_lt_le_dec (a - 18446744073709551616 + (p - 1)) 0) as [Hn|Hn].
    + replace ((a - 18446744073709551616 + (p - 1)) mod 18446744073709551616) with (a + (p - 1)).
      * destruct (Z.ltb_spec (a + (p - 1)) 9223372036854775808); lia.
      * apply Z.mod_unique with (q := -1); lia.
    + rewrite Z.mod_small by lia.
      destruct (Z.ltb_spec (a - 18446744073709551616 + (p - 1)) 9223372036854775808); lia.
Qed.
End Div64.

Section Div32.
Variable a k : Z.
Hypothesis Ha : 0 <= a < 2 ^ 32.
Hypothesis Hk : 1 <= k <= 30.

Let p := 2 ^ k.
Lemma p_pos32 : 0 < p. Proof. unfold p. apply Z.pow_pos_nonneg; lia. Qed.
Lemma p_le32 : p <= 2 ^ 30. Proof. unfold p. apply Z.pow_le_mono_r; lia. Qed.

Lemma s32_cases : (a < 2 ^ 31 /\ s32 a = a) \/ (2 ^ 31 <= a /\ s32 a = a - 2 ^ 32).
Proof.
  unfold s32, swrap. rewrite Z.mod_small by exact Ha. change (32 - 1) with 31.
  destruct (Z.ltb_spec a (2 ^ 31)); [left|right]; split; auto.
Qed.

(* rsh a, 63 is 0 or all ones *)
Lemma sign_word32 : int_val RSHS [a; 31] = Some (if s32 a <? 0 then 2 ^ 32 - 1 else 0).
Proof.
  cbn [int_val]. unfold ashrw. cbn [Z.leb Z.ltb Z.compare andb]. f_equal. unfold ashr.
  fold (s32 a). destruct s32_cases as [[H1 E]|[H1 E]]; rewrite E.
  - destruct (Z.ltb_spec a 0); [lia|]. rewrite Z.div_small by (change (2 ^ 31) with 2147483648 in *; lia).
    reflexivity.
  - assert (Hn : a - 2 ^ 32 < 0) by lia. destruct (Z.ltb_spec (a - 2 ^ 32) 0); [|lia].
    assert (Ed : (a - 2 ^ 32) / 2 ^ 31 = -1).
    { symmetry. apply Z.div_unique with (r := a - 2 ^ 31).
      - left. change (2 ^ 32) with (2 * 2 ^ 31) in *. lia.
      - change (2 ^ 32) with (2 * 2 ^ 31). ring. }
    rewrite Ed. reflexivity.
Qed.

Lemma land_ones_all32 : Z.land (2 ^ 32 - 1) (p - 1) = p - 1.
Proof.
  pose proof p_pos32 as Hp. unfold p in *.
  replace (2 ^ k - 1) with (Z.ones k) by (rewrite Z.ones_equiv; unfold Z.pred; ring).
  rewrite Z.land_ones by lia. rewrite Z.ones_equiv. unfold Z.pred.
  symmetry. apply Z.mod_unique with (q := 2 ^ (32 - k) - 1); [left; lia|].
  rewrite (pow_split 32 k) by lia. ring.
Qed.

Lemma quot_p32 : forall x, Z.quot x p = (x + (if x <? 0 then p - 1 else 0)) / p.
Proof. intros x. unfold p. apply quot_pow2_bias. lia. Qed.

Lemma u32_small32' z : 0 <= z < 2 ^ 32 -> uwrap 32 z = z.
Proof. intros. now apply uwrap_id. Qed.

Lemma divs_pow2_seq_correct : divs_pow2_seq a k = int_val DIVS [a; 2 ^ k].
Proof.
  unfold divs_pow2_seq. rewrite sign_word32. fold p.
  pose proof p_pos32 as Hp. pose proof p_le32 as Hp62.
  assert (Hu : u32 (p - 1) = p - 1).
  { unfold u32. apply uwrap_id. unfold in_u. change (2 ^ 30) with 1073741824 in *.
    change (2 ^ 32) with 4294967296. lia. }
  rewrite Hu.
  (* right-hand side *)
  cbn [int_val]. unfold sdivw. fold p.
  assert (Hsp : s32 p = p).
  { unfold s32. apply swrap_id; [lia|]. unfold in_s. change (32 - 1) with 31.
    change (2 ^ 31) with 2147483648. change (2 ^ 30) with 1073741824 in *. lia. }
  fold (s32 p). rewrite Hsp. fold (s32 a).
  destruct (Z.eqb_spec p 0); [lia|].
  assert (Hm1 : (p =? -1) = false) by (apply Z.eqb_neq; lia). rewrite Hm1, andb_false_r.
  unfold cdiv. rewrite quot_p32.
  destruct s32_cases as [[H1 E]|[H1 E]]; rewrite E.
  - (* non-negative *)
    destruct (Z.ltb_spec a 0); [lia|]. cbn [int_val]. change (u32 0) with 0. rewrite Z.land_0_l. cbn [int_val].
    change (u32 0) with 0. rewrite Z.add_0_l, Z.add_0_r. unfold ashrw.
    destruct (Z.leb_spec 0 k); [|lia]. destruct (Z.ltb_spec k 32); [|lia]. cbn [andb]. f_equal.
    unfold ashr. unfold u32. rewrite !uwrap_idem by lia. rewrite swrap_uwrap by lia. fold (s32 a). rewrite E. reflexivity.
  - (* negative: bias p - 1 *)
    destruct (Z.ltb_spec (a - 2 ^ 32) 0); [|lia]. cbn [int_val].
    change (u32 (2 ^ 32 - 1)) with (2 ^ 32 - 1). rewrite land_ones_all32. cbn [int_val]. rewrite Hu.
    unfold ashrw. destruct (Z.leb_spec 0 k); [|lia]. destruct (Z.ltb_spec k 32); [|lia]. cbn [andb]. f_equal.
    unfold ashr. f_equal. fold p. f_equal.
    unfold u32. rewrite !uwrap_idem by lia. rewrite swrap_uwrap by lia.
    replace (p - 1 + a) with ((a - 2 ^ 32 + (p - 1)) + 1 * 2 ^ 32) by ring.
    unfold swrap. rewrite Z.mod_add by discriminate.
    change (32 - 1) with 31. change (2 ^ 31) with 2147483648 in *.
    change (2 ^ 32) with 4294967296 in *. change (2 ^ 30) with 1073741824 in *.
    destruct (Z_lt_le_dec (a - 4294967296 + (p - 1)) 0) as [Hn|Hn].
    + replace ((a - 4294967296 + (p - 1)) mod 4294967296) with (a + (p - 1)).
      * destruct (Z.ltb_spec (a + (p - 1)) 2147483648); lia.
      * apply Z.mod_unique with (q := -1); lia.
    + rewrite Z.mod_small by lia.
      destruct (Z.ltb_spec (a - 4294967296 + (p - 1)) 2147483648); lia.
Qed.
End Div32.

(* ---------------------------------------------------------------- iteration with change flags *)
Section IterateFacts.
Variable S : Type.
Variable step : S -> S * bool.
Variable measure : S -> nat.            (* height left in the (finite) lattice *)
Hypothesis flags_exact : forall s, snd (step s) = false -> fst (step s) = s.
Hypothesis progress : forall s, snd (step s) = true -> (measure (fst (step s)) < measure s)%nat.

Lemma iterate_reaches_fixpoint : forall n s, (measure s <= n)%nat ->
  step (iterate S step (Datatypes.S n) s) = (iterate S step (Datatypes.S n) s, false).
Proof.
  induction n as [|n IH]; intros s Hm; cbn [iterate].
  - destruct (step s) as [s' ch] eqn:E. destruct ch.
    + pose proof (progress s) as P. rewrite E in P. cbn in P. specialize (P eq_refl). lia.
    + pose proof (flags_exact s) as X. rewrite E in X. cbn in X. specialize (X eq_refl). subst s'. exact E.
  - destruct (step s) as [s' ch] eqn:E. destruct ch.
    + pose proof (progress s) as P. rewrite E in P. cbn in P. specialize (P eq_refl).
      apply IH. lia.
    + pose proof (flags_exact s) as X. rewrite E in X. cbn in X. specialize (X eq_refl). subst s'. exact E.
Qed.
End IterateFacts.

(* with a flag that can be false although the state changed (as bitmap_op2 in the snapshot, C19)
   the loop stops before the fixpoint *)
Lemma iterate_inexact_flags_refuted :
  exists (step : nat -> nat * bool) s n, fst (step (iterate nat step n s)) <> iterate nat step n s.
Proof.
  exists (fun s => if Nat.ltb s 3 then (Datatypes.S s, Nat.even s) else (s, false)), 1%nat, 5%nat.
  vm_compute. discriminate.
Qed.

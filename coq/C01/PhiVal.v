(* C01: the value GVN gives to a phi (mir-gen.c gvn_phi_val).  Definitions only (proofs: C01/PhiValProofs.v).

   Every bb_insn carries (gvn_val_const_p, gvn_val): for a constant the flag is set and gvn_val IS the
   constant; otherwise gvn_val is a value NUMBER (index of the bb_insn representing the expression) - a
   small non-negative integer living in the same field.  gvn_phi_val scans the definitions of the phi
   inputs: if all of them carry the same value, the phi gets it (and is folded to `mov r, K` when it is a
   constant); the test for "the same" has two parts, the flags and the numbers ([cmp_flag], [cmp_val] say
   which parts the scanned source text compares; tools/tr_c01_phival.py regenerates them on every run). *)
From Coq Require Import ZArith List Bool.
Import ListNotations.
Open Scope Z_scope.

Record gval : Set := G { g_const : bool; g_val : Z }.

(* what a value stands for at run time: [rho] maps value numbers to the values of their expressions *)
Definition den (rho : Z -> Z) (g : gval) : Z := if g_const g then g_val g else rho (g_val g).

(* scan state: (first input still to come, const_p, same_p, *val) *)
Definition scan_state : Set := (bool * bool * bool * Z)%type.

(* one input; [None] = no definition / a multi-result insn (its value says nothing about the result used) *)
Definition phi_step (cmp_flag cmp_val : bool) (st : scan_state) (d : option gval) : scan_state :=
  let '(first, const_p, same_p, val) := st in
  if same_p then
    match d with
    | None => (false, const_p, false, val)
    | Some g =>
        if first then (false, g_const g, true, g_val g)
        else if (cmp_flag && negb (Bool.eqb const_p (g_const g))) || (cmp_val && negb (val =? g_val g))
             then (false, const_p, false, val)
             else (false, const_p, true, val)
    end
  else (false, const_p, false, val).

Definition phi_scan (cmp_flag cmp_val : bool) (ins : list (option gval)) : scan_state :=
  fold_left (phi_step cmp_flag cmp_val) ins (true, true, true, 0).

(* result of gvn_phi_val: (the phi is a constant, *val); a phi of different values is numbered by itself *)
Definition phi_val (cmp_flag cmp_val : bool) (phi_index : Z) (ins : list (option gval)) : bool * Z :=
  let '(_, const_p, same_p, val) := phi_scan cmp_flag cmp_val ins in
  (same_p && const_p, if same_p then val else phi_index).

Definition phi_same (cmp_flag cmp_val : bool) (ins : list (option gval)) : option gval :=
  let '(_, const_p, same_p, val) := phi_scan cmp_flag cmp_val ins in
  if same_p then Some (G const_p val) else None.

(* Value-changing rewrites of the generator modelled for C01: transform_mul_div
   (mir-gen.c ~3090-3190: mul/div/udiv by 2^k -> shifts, incl. the bias sequence for signed
   division) and the generic worklist iteration the dataflow passes rely on.  Definitions only. *)
From Coq Require Import ZArith List Bool.
From MirV Require Import Base.W64 Mir.Opcode Mir.Syntax Mir.Sem C01.InsnSem.
Import ListNotations.
Local Open Scope Z_scope.

(* gen_int_log2: Some k iff i = 2^k as a positive int64 *)
Definition is_pow2 (i k : Z) : Prop := 0 <= k /\ i = 2 ^ k.

(* the replacement of [div r, a, 2^k] (1 <= k): five integer insns computed with the MIR.md semantics
     t1 = rsh a, 63 ; t3 = and t1, 2^k - 1 ; t4 = add t3, a ; r = rsh t4, k                     *)
Definition div_pow2_seq (a k : Z) : option Z :=
  match int_val RSH [a; 63] with
  | Some t1 =>
      match int_val AND [t1; u64 (2 ^ k - 1)] with
      | Some t3 =>
          match int_val ADD [t3; a] with
          | Some t4 => int_val RSH [t4; k]
          | None => None
          end
      | None => None
      end
  | None => None
  end.

(* 32-bit variant: rshs 31 ; ands ; adds ; rshs k  (sources masked to 32 bits as Sem does) *)
Definition divs_pow2_seq (a k : Z) : option Z :=
  match int_val RSHS [a; 31] with
  | Some t1 =>
      match int_val ANDS [u32 t1; u32 (2 ^ k - 1)] with
      | Some t3 =>
          match int_val ADDS [u32 t3; a] with
          | Some t4 => int_val RSHS [u32 t4; k]
          | None => None
          end
      | None => None
      end
  | None => None
  end.

(* ---- worklist iteration driven by change flags (mir-gen.c solve_dataflow ~1932-1981) ------------- *)
Section Iterate.
Variable S : Type.
Variable step : S -> S * bool.         (* one sweep: new state, "something changed" *)

Fixpoint iterate (fuel : nat) (s : S) : S :=
  match fuel with
  | O => s
  | Datatypes.S n => let '(s', changed) := step s in if changed then iterate n s' else s'
  end.
End Iterate.

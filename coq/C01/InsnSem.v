(* Value semantics of the individual MIR instructions, written from MIR.md ("MIR integer insns",
   "MIR integer overflow insns", "MIR branch insns", "MIR integer comparison and branch insn").
   Sources arrive already masked to the instruction's source kind (Mir/Sem.v [use_as]): 64-bit
   patterns in [0,2^64) for K64, [0,2^32) for K32.  Results are patterns; Sem masks/tag them by the
   destination kind.  [None] = the program is not well-defined at this point. *)
From Coq Require Import ZArith List Bool.
From MirV Require Import Base.W64 Mir.Opcode Mir.Syntax Mir.Sem.
From MirV Require Mir.DocSpecFloat Mir.DocSpecLD.
From Flocq Require IEEE754.Binary IEEE754.BinarySingleNaN.
Import ListNotations.
Local Open Scope Z_scope.

Definition b2z (b : bool) : Z := if b then 1 else 0.

(* signed division / remainder at width [n] (C semantics; 0 divisor and MIN / -1 undefined) *)
Definition sdivw (n a b : Z) : option Z :=
  let a' := swrap n a in let b' := swrap n b in
  if b' =? 0 then None
  else if (a' =? - 2 ^ (n - 1)) && (b' =? -1) then None
  else Some (uwrap n (cdiv a' b')).
Definition smodw (n a b : Z) : option Z :=
  let a' := swrap n a in let b' := swrap n b in
  if b' =? 0 then None
  else if (a' =? - 2 ^ (n - 1)) && (b' =? -1) then None
  else Some (uwrap n (crem a' b')).
Definition udivw (n a b : Z) : option Z := if b =? 0 then None else Some (a / b).
Definition umodw (n a b : Z) : option Z := if b =? 0 then None else Some (a mod b).

(* shifts: the count is the whole second operand; defined only below the width *)
Definition shlw (n a c : Z) : option Z := if (0 <=? c) && (c <? n) then Some (shl n a c) else None.
Definition lshrw (n a c : Z) : option Z := if (0 <=? c) && (c <? n) then Some (lshr n a c) else None.
Definition ashrw (n a c : Z) : option Z := if (0 <=? c) && (c <? n) then Some (uwrap n (ashr n a c)) else None.

Definition scmp (n : Z) (f : Z -> Z -> bool) (a b : Z) : bool := f (swrap n a) (swrap n b).

Definition int_val (o : opcode) (xs : list Z) : option Z :=
  match o, xs with
  | EXT8, [a] => Some (u64 (s8 a))     | UEXT8, [a] => Some (u8 a)
  | EXT16, [a] => Some (u64 (s16 a))   | UEXT16, [a] => Some (u16 a)
  | EXT32, [a] => Some (u64 (s32 a))   | UEXT32, [a] => Some (u32 a)
  | NEG, [a] => Some (u64 (- a))       | NEGS, [a] => Some (u32 (- a))
  | (ADD | ADDO), [a; b] => Some (u64 (a + b))
  | (ADDS | ADDOS), [a; b] => Some (u32 (a + b))
  | (SUB | SUBO), [a; b] => Some (u64 (a - b))
  | (SUBS | SUBOS), [a; b] => Some (u32 (a - b))
  | (MUL | MULO | UMULO), [a; b] => Some (u64 (a * b))
  | (MULS | MULOS | UMULOS), [a; b] => Some (u32 (a * b))
  | DIV, [a; b] => sdivw 64 a b        | DIVS, [a; b] => sdivw 32 a b
  | UDIV, [a; b] => udivw 64 a b       | UDIVS, [a; b] => udivw 32 a b
  | MOD, [a; b] => smodw 64 a b        | MODS, [a; b] => smodw 32 a b
  | UMOD, [a; b] => umodw 64 a b       | UMODS, [a; b] => umodw 32 a b
  | (AND | ANDS), [a; b] => Some (Z.land a b)
  | (OR | ORS), [a; b] => Some (Z.lor a b)
  | (XOR | XORS), [a; b] => Some (Z.lxor a b)
  | LSH, [a; c] => shlw 64 a c         | LSHS, [a; c] => shlw 32 a c
  | RSH, [a; c] => ashrw 64 a c        | RSHS, [a; c] => ashrw 32 a c
  | URSH, [a; c] => lshrw 64 a c       | URSHS, [a; c] => lshrw 32 a c
  | (EQ | EQS), [a; b] => Some (b2z (a =? b))
  | (NE | NES), [a; b] => Some (b2z (negb (a =? b)))
  | LT, [a; b] => Some (b2z (scmp 64 Z.ltb a b))   | LTS, [a; b] => Some (b2z (scmp 32 Z.ltb a b))
  | LE, [a; b] => Some (b2z (scmp 64 Z.leb a b))   | LES, [a; b] => Some (b2z (scmp 32 Z.leb a b))
  | GT, [a; b] => Some (b2z (scmp 64 Z.gtb a b))   | GTS, [a; b] => Some (b2z (scmp 32 Z.gtb a b))
  | GE, [a; b] => Some (b2z (scmp 64 Z.geb a b))   | GES, [a; b] => Some (b2z (scmp 32 Z.geb a b))
  | (ULT | ULTS), [a; b] => Some (b2z (a <? b))
  | (ULE | ULES), [a; b] => Some (b2z (a <=? b))
  | (UGT | UGTS), [a; b] => Some (b2z (a >? b))
  | (UGE | UGES), [a; b] => Some (b2z (a >=? b))
  | _, _ => None
  end.

Definition int_br (o : opcode) (xs : list Z) : option bool :=
  match o, xs with
  | (BT | BTS), [a] => Some (negb (a =? 0))
  | (BF | BFS), [a] => Some (a =? 0)
  | (BEQ | BEQS), [a; b] => Some (a =? b)
  | (BNE | BNES), [a; b] => Some (negb (a =? b))
  | BLT, [a; b] => Some (scmp 64 Z.ltb a b)   | BLTS, [a; b] => Some (scmp 32 Z.ltb a b)
  | BLE, [a; b] => Some (scmp 64 Z.leb a b)   | BLES, [a; b] => Some (scmp 32 Z.leb a b)
  | BGT, [a; b] => Some (scmp 64 Z.gtb a b)   | BGTS, [a; b] => Some (scmp 32 Z.gtb a b)
  | BGE, [a; b] => Some (scmp 64 Z.geb a b)   | BGES, [a; b] => Some (scmp 32 Z.geb a b)
  | (UBLT | UBLTS), [a; b] => Some (a <? b)
  | (UBLE | UBLES), [a; b] => Some (a <=? b)
  | (UBGT | UBGTS), [a; b] => Some (a >? b)
  | (UBGE | UBGES), [a; b] => Some (a >=? b)
  | _, _ => None
  end.

(* overflow flags = "the exact mathematical result is not representable" *)
Definition s_ovf (n r : Z) : bool := negb ((- 2 ^ (n - 1) <=? r) && (r <? 2 ^ (n - 1))).
Definition u_ovf (n r : Z) : bool := negb ((0 <=? r) && (r <? 2 ^ n)).

Definition int_ovf (o : opcode) (xs : list Z) : option (option bool * option bool) :=
  match o, xs with
  | ADDO, [a; b] => Some (Some (s_ovf 64 (s64 a + s64 b)), Some (u_ovf 64 (a + b)))
  | ADDOS, [a; b] => Some (Some (s_ovf 32 (s32 a + s32 b)), Some (u_ovf 32 (a + b)))
  | SUBO, [a; b] => Some (Some (s_ovf 64 (s64 a - s64 b)), Some (u_ovf 64 (a - b)))
  | SUBOS, [a; b] => Some (Some (s_ovf 32 (s32 a - s32 b)), Some (u_ovf 32 (a - b)))
  | MULO, [a; b] => Some (Some (s_ovf 64 (s64 a * s64 b)), None)
  | MULOS, [a; b] => Some (Some (s_ovf 32 (s32 a * s32 b)), None)
  | UMULO, [a; b] => Some (None, Some (u_ovf 64 (a * b)))
  | UMULOS, [a; b] => Some (None, Some (u_ovf 32 (a * b)))
  | _, _ => None
  end.

(* Floating point (binary32/binary64 on bit patterns, Flocq) comes from Mir/DocSpecFloat.v, which
   b-c02 wrote from MIR.md for C02: arithmetic round-to-nearest-even, C-like NaN comparisons,
   conversions; FP -> int is undefined when the truncated value is not an int64. *)
Definition fp_kind (k : kind) : bool := match k with KF | KD => true | _ => false end.

(* long double (x87 80-bit patterns): conversions = b-c02's Mir/DocSpecLD.v; arithmetic on FINITE operands =
   the exact result rounded once to nearest even by Flocq's binary_normalize (64-bit significand: the x87's
   default precision and what the interpreter's C `long double` computes); infinities / NaN operands: not given
   a meaning (None).  Sign of an exact zero result: +0 for sums unless both operands are -0, xor for products. *)
Definition ld_fin (z : Z) : option (bool * Z * Z) :=      (* sign, significand >= 0, exponent *)
  match DocSpecLD.ld_decode z with
  | DocSpecLD.LDnum (Binary.B754_zero _ _ sg) => Some (sg, 0, 0)
  | DocSpecLD.LDnum (Binary.B754_finite _ _ sg m e _) => Some (sg, Zpos m, e)
  | _ => None
  end.

Definition ld_add (x y : bool * Z * Z) : Z :=
  let '(sx, mx, ex) := x in let '(sy, my, ey) := y in
  let e := Z.min ex ey in
  let m := (if sx then - mx else mx) * 2 ^ (ex - e) + (if sy then - my else my) * 2 ^ (ey - e) in
  DocSpecLD.ld_encode (DocSpecLD.norm80 m e (sx && sy && (mx =? 0) && (my =? 0))).

Definition ld_val (o : opcode) (xs : list Z) : option Z :=
  match o, xs with
  | LDNEG, [a] => match ld_fin a with
                  | Some _ => Some (if Z.testbit a 79 then a - 2 ^ 79 else a + 2 ^ 79)
                  | None => None
                  end
  | LDADD, [a; b] => match ld_fin a, ld_fin b with
                     | Some x, Some y => Some (ld_add x y)
                     | _, _ => None
                     end
  | LDSUB, [a; b] => match ld_fin a, ld_fin b with
                     | Some x, Some (sy, my, ey) => Some (ld_add x (negb sy, my, ey))
                     | _, _ => None
                     end
  | LDMUL, [a; b] => match ld_fin a, ld_fin b with
                     | Some (sx, mx, ex), Some (sy, my, ey) =>
                         let sg := xorb sx sy in
                         Some (DocSpecLD.ld_encode (DocSpecLD.norm80 ((if sg then -1 else 1) * (mx * my)) (ex + ey) sg))
                     | _, _ => None
                     end
  | _, _ => DocSpecLD.doc_sem_ld o xs
  end.

Definition mir_val (o : opcode) (xs : list Z) : option Z :=
  match val_op o with
  | Some (ks, kd) => if fp_kind ks || fp_kind kd then DocSpecFloat.doc_sem_float o xs else int_val o xs
  | None => ld_val o xs
  end.

Definition mir_br (o : opcode) (xs : list Z) : option bool :=
  match br_op o with
  | Some k => if fp_kind k then DocSpecFloat.doc_branch_float o xs else int_br o xs
  | None => None
  end.

Definition mir_nan (k : kind) (z : Z) : bool :=
  match k with
  | KF => DocSpecFloat.is_nan32 z
  | KD => DocSpecFloat.is_nan64 z
  | _ => false
  end.

(* the instruction semantics the reference engine runs with *)
Definition mir_isem : insn_sem := MkInsnSem mir_val mir_br int_ovf mir_nan.

(* for integer opcodes the engine runs exactly [int_val] / [int_br] *)
Lemma mir_val_int : forall o ks kd xs, val_op o = Some (ks, kd) -> fp_kind ks || fp_kind kd = false ->
  mir_val o xs = int_val o xs.
Proof. intros o ks kd xs H1 H2. unfold mir_val. now rewrite H1, H2. Qed.

Lemma mir_br_int : forall o k xs, br_op o = Some k -> fp_kind k = false -> mir_br o xs = int_br o xs.
Proof. intros o k xs H1 H2. unfold mir_br. now rewrite H1, H2. Qed.

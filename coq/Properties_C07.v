(* Property C07 (partial): C programs compiled by c2mir behave as under the reference compiler.
   Proved here: the type/constant core -- integer promotions, usual arithmetic conversions, typing
   of integer constants, and "compile-time evaluation = run-time meaning" for the integer
   operators.  Everything else of C07 (statements, gen(), engines) is differential testing in
   checks/c07.py.  This file holds only the theorems, each closed by [exact] + Print Assumptions. *)
From Coq Require Import ZArith Bool List.
From MirV Require Import C07.Limits C07.CConv C07.C11Conv C07.CConvProofs C07.CFold C07.C11Fold C07.CFoldProofs.
Local Open Scope Z_scope.

(* c2mir's arithmetic_conversion (after fixes/C07-1.patch) is C11 6.3.1.8 on all 15 x 15 pairs of
   basic arithmetic types; its integer_promotion is C11 6.3.1.1p2 *)
Theorem arith_conv_eq_c11 : forall a b, arithmetic_conversion false a b = c11_conv a b.
Proof. exact conv_eq. Qed.
Print Assumptions arith_conv_eq_c11.

Theorem promotion_eq_c11 : forall t, integer_type_p t = true -> integer_promotion t = c11_promote t.
Proof. exact promotion_eq. Qed.
Print Assumptions promotion_eq_c11.

(* the pinned commit: wrong exactly on (unsigned long, long long) in either order *)
Theorem arith_conv_prefix_refuted :
  arithmetic_conversion true TULong TLLong <> c11_conv TULong TLLong
  /\ arithmetic_conversion true TLLong TULong <> c11_conv TLLong TULong.
Proof. exact conv_old_refuted. Qed.
Theorem arith_conv_prefix_partial : forall a b,
  negb ((btype_eqb a TULong && btype_eqb b TLLong) || (btype_eqb a TLLong && btype_eqb b TULong)) = true ->
  arithmetic_conversion true a b = c11_conv a b.
Proof. exact conv_old_partial. Qed.

(* an integer constant gets the C11 6.4.4.1p5 type, for every value that has one *)
Theorem const_type_eq_c11 : forall dec uns lc v t, 0 <= v -> (lc = 0 \/ lc = 1 \/ lc = 2) ->
  c11_const_type dec uns lc v = Some t -> const_type dec uns lc v = t.
Proof. exact const_type_eq. Qed.
Print Assumptions const_type_eq_c11.

(* compile-time and run-time evaluation agree for every operand value of every integer type pair,
   whenever the run-time meaning is defined (no UB) *)
Theorem fold_eq_runtime : forall o a b r, wf a = true -> wf b = true ->
  rt_bin o a b = Some r -> fold_bin false false o a b = Some r.
Proof. exact fold_bin_eq_runtime. Qed.
Print Assumptions fold_eq_runtime.

Theorem fold_unary_eq_runtime : forall o a r, wf a = true -> rt_un o a = Some r -> fold_un false o a = r.
Proof. exact fold_un_eq_runtime. Qed.
Print Assumptions fold_unary_eq_runtime.

Theorem cast_chain_sound : forall t a, integer_type_p t = true -> fold_cast false t a = rt_cast t a.
Proof. exact fold_cast_eq_runtime. Qed.
Print Assumptions cast_chain_sound.

Theorem fold_cond_eq_runtime : forall c a b, wf a = true -> wf b = true ->
  fold_cond false false c a b = rt_cond c a b.
Proof. exact CFoldProofs.fold_cond_eq_runtime. Qed.
Print Assumptions fold_cond_eq_runtime.

Theorem fold_logic_eq_runtime : forall a b,
  fold_andand false a b = rt_andand a b /\ fold_oror false a b = rt_oror a b.
Proof. exact CFoldProofs.fold_logic_eq_runtime. Qed.

(* the pinned commit's folder: (_Bool)256 folded to 0 *)
Theorem fold_prefix_boolcast_refuted : fold_cast true TBool (mkc TInt 256) <> rt_cast TBool (mkc TInt 256).
Proof. exact bool_cast_old_refuted. Qed.
Theorem fold_prefix_conv_refuted :
  fold_bin true false CAdd (mkc TULong 1) (mkc TLLong 1) <> rt_bin CAdd (mkc TULong 1) (mkc TLLong 1).
Proof. exact conv_old_fold_refuted. Qed.
Print Assumptions fold_prefix_boolcast_refuted.

(* Property C07 (partial): C programs compiled by c2mir behave as under the reference compiler.
   Proved here: the type/constant core -- integer promotions, usual arithmetic conversions, typing
   of integer constants, and "compile-time evaluation = run-time meaning" for the integer
   operators.  Everything else of C07 (statements, gen(), engines) is differential testing in
   checks/c07.py.  This file holds only the theorems, each closed by [exact] + Print Assumptions. *)
From Coq Require Import ZArith Bool List.
From MirV Require Import Base.W64 C07.Limits C07.CConv C07.C11Conv C07.CConvProofs C07.CFold C07.C11Fold C07.CFoldProofs
  C07.BitField C07.BitFieldProofs C07.FFold C07.FFoldProofs.
Local Open Scope Z_scope.

(* c2mir's arithmetic_conversion (after fixes/C07-1.patch) is C11 6.3.1.8 on all 15 x 15 pairs of
   basic arithmetic types; its integer_promotion is C11 6.3.1.1p2 *)
Theorem arith_conv_eq_c11 : forall a b, arithmetic_conversion false a b = c11_conv a b.
Proof. exact conv_eq. Qed.
Print Assumptions arith_conv_eq_c11.

Theorem promotion_eq_c11 : forall t, integer_type_p t = true -> integer_promotion t = c11_promote t.
Proof. exact promotion_eq. Qed.
Print Assumptions promotion_eq_c11.

(* the pinned commit: wrong exactly on (unsigned long, long long) in either order *)
Theorem arith_conv_prefix_refuted :
  arithmetic_conversion true TULong TLLong <> c11_conv TULong TLLong
  /\ arithmetic_conversion true TLLong TULong <> c11_conv TLLong TULong.
Proof. exact conv_old_refuted. Qed.
Print Assumptions arith_conv_prefix_refuted.
Theorem arith_conv_prefix_partial : forall a b,
  negb ((btype_eqb a TULong && btype_eqb b TLLong) || (btype_eqb a TLLong && btype_eqb b TULong)) = true ->
  arithmetic_conversion true a b = c11_conv a b.
Proof. exact conv_old_partial. Qed.
Print Assumptions arith_conv_prefix_partial.

(* an integer constant gets the C11 6.4.4.1p5 type, for every value that has one *)
Theorem const_type_eq_c11 : forall dec uns lc v t, 0 <= v -> (lc = 0 \/ lc = 1 \/ lc = 2) ->
  c11_const_type dec uns lc v = Some t -> const_type dec uns lc v = t.
Proof. exact const_type_eq. Qed.
Print Assumptions const_type_eq_c11.

(* compile-time and run-time evaluation agree for every operand value of every integer type pair,
   whenever the run-time meaning is defined (no UB) *)
Theorem fold_eq_runtime : forall o a b r, wf a = true -> wf b = true ->
  rt_bin o a b = Some r -> fold_bin false false o a b = Some r.
Proof. exact fold_bin_eq_runtime. Qed.
Print Assumptions fold_eq_runtime.

Theorem fold_unary_eq_runtime : forall o a r, wf a = true -> rt_un o a = Some r -> fold_un false o a = r.
Proof. exact fold_un_eq_runtime. Qed.
Print Assumptions fold_unary_eq_runtime.

Theorem cast_chain_sound : forall t a, integer_type_p t = true -> fold_cast false t a = rt_cast t a.
Proof. exact fold_cast_eq_runtime. Qed.
Print Assumptions cast_chain_sound.

Theorem fold_cond_eq_runtime : forall c a b, wf a = true -> wf b = true ->
  fold_cond false false c a b = rt_cond c a b.
Proof. exact CFoldProofs.fold_cond_eq_runtime. Qed.
Print Assumptions fold_cond_eq_runtime.

Theorem fold_logic_eq_runtime : forall a b,
  fold_andand false a b = rt_andand a b /\ fold_oror false a b = rt_oror a b.
Proof. exact CFoldProofs.fold_logic_eq_runtime. Qed.
Print Assumptions fold_logic_eq_runtime.

(* the pinned commit's folder: (_Bool)256 folded to 0 *)
Theorem fold_prefix_boolcast_refuted : fold_cast true TBool (mkc TInt 256) <> rt_cast TBool (mkc TInt 256).
Proof. exact bool_cast_old_refuted. Qed.
Theorem fold_prefix_conv_refuted :
  fold_bin true false CAdd (mkc TULong 1) (mkc TLLong 1) <> rt_bin CAdd (mkc TULong 1) (mkc TLLong 1).
Proof. exact conv_old_fold_refuted. Qed.
Print Assumptions fold_prefix_conv_refuted.
Print Assumptions fold_prefix_boolcast_refuted.

(* ---------------------------------------------------------------------------------------------
   Round 3: constant expressions with floating and MIXED integer/floating operands (C07.FFold: cast_value
   over all 15 basic types, the floating branches of check_assign_op and check(), the final normalisation;
   IEEE binary32 / binary64 / x87 extended numbers of Flocq).  Compile-time evaluation equals the run-time
   meaning (C11 6.3.1.4/6.3.1.5/6.3.1.8, FLT_EVAL_METHOD 0) whenever that is defined.  These theorems use
   Flocq's specification of rounding, hence the axioms of the classical reals (printed below). *)
Theorem mixed_cond_eq_runtime : forall c a b r, rt_fcond c a b = Some r -> ffold_cond c a b = Some r.
Proof. exact ffold_cond_eq_runtime. Qed.
Print Assumptions mixed_cond_eq_runtime.

Theorem mixed_cast_eq_runtime : forall t a r, rt_fcast t a = Some r -> ffold_cast t a = Some r.
Proof. exact ffold_cast_eq_runtime. Qed.
Print Assumptions mixed_cast_eq_runtime.

(* + - * / and the comparisons, after fixes/C07-16.patch (the operation is done in the type of the expression) *)
Theorem mixed_fold_eq_runtime : forall o a b r, wfa a = true -> wfa b = true ->
  rt_fbin o a b = Some r -> ffold_bin false o a b = Some r.
Proof. exact ffold_bin_eq_runtime. Qed.
Print Assumptions mixed_fold_eq_runtime.

Theorem mixed_unary_eq_runtime : forall o a r, wfa a = true -> rt_fun o a = Some r -> ffold_un o a = Some r.
Proof. exact ffold_un_eq_runtime. Qed.
Print Assumptions mixed_unary_eq_runtime.

Theorem mixed_logic_eq_runtime : forall a b,
  ffold_andand a b = Some (rt_fandand a b) /\ ffold_oror a b = Some (rt_foror a b).
Proof. exact ffold_logic_eq_runtime. Qed.
Print Assumptions mixed_logic_eq_runtime.

(* the folder before fixes/C07-16.patch computed + - * / in long double and rounded afterwards: wrong on double
   (1.0 + 0x1.0000000000001p-53), right for long double results, comparisons and integer operands *)
Theorem fold_prefix_extprec_refuted :
  exists a b r, wfa a = true /\ wfa b = true /\ rt_fbin CAdd a b = Some r /\ ffold_bin true CAdd a b <> Some r.
Proof. exact extprec_refuted. Qed.
Print Assumptions fold_prefix_extprec_refuted.
Theorem fold_prefix_extprec_partial : forall o a b r, wfa a = true -> wfa b = true ->
  is_ccmp o = true \/ c11_conv (aty a) (aty b) = TLDouble
  \/ (integer_type_p (aty a) = true /\ integer_type_p (aty b) = true) ->
  rt_fbin o a b = Some r -> ffold_bin true o a b = Some r.
Proof. exact ffold_bin_extprec_partial. Qed.
Print Assumptions fold_prefix_extprec_partial.

(* ---------------------------------------------------------------------------------------------
   Bit-field access code of gen() (x86-64): the emitted load / store sequences of C07.BitField
   (store_code / load_code, compared with `c2m -S` on every run) for ALL units, values, offsets and
   widths.  wf_bf f: 0 < ubits <= 64, 0 <= boff, 0 < bwid, boff + bwid <= ubits (what the struct
   layout establishes; property C08 is about the layout itself). *)

(* a read gives the field's bits zero-extended (unsigned field) or sign-extended (signed field) *)
Theorem bitfield_load_extends : forall f, wf_bf f = true -> forall u, bf_load f u = c11_read_bf f u.
Proof. exact bf_load_spec. Qed.
Print Assumptions bitfield_load_extends.

(* store-then-load returns the value converted to the bit-field's type: modulo 2^width for an unsigned
   field (C11 6.3.1.3p2), modulo 2^width into the signed range for a signed one (6.3.1.3p3 with gcc's
   documented choice) *)
Theorem bitfield_store_then_load : forall f, wf_bf f = true -> forall u v,
  bf_load f (fst (bf_store f u v)) = c11_conv_bf f v.
Proof. exact bf_store_load. Qed.
Print Assumptions bitfield_store_then_load.

(* the register pattern of a value stands for the value: only its low width bits matter *)
Theorem bitfield_conv_of_register : forall f, wf_bf f = true -> forall x,
  c11_conv_bf f (uwrap 64 x) = c11_conv_bf f x.
Proof. exact c11_conv_reg. Qed.
Print Assumptions bitfield_conv_of_register.

(* the bits of the storage unit outside [boff, boff + bwid) are unchanged by a store, and the unit stays
   an ubits-bit pattern *)
Theorem bitfield_store_frame : forall f, wf_bf f = true -> forall u v i, outside f i ->
  Z.testbit (fst (bf_store f u v)) i = Z.testbit u i.
Proof. exact bf_store_frame. Qed.
Print Assumptions bitfield_store_frame.
Theorem bitfield_store_range : forall f, wf_bf f = true -> forall u v, 0 <= fst (bf_store f u v) < 2 ^ ubits f.
Proof. exact bf_store_range. Qed.
Print Assumptions bitfield_store_range.
Theorem bitfield_store_field : forall f, wf_bf f = true -> forall u v,
  field_bits f (fst (bf_store f u v)) = uwrap (bwid f) v.
Proof. exact bf_store_field. Qed.
Print Assumptions bitfield_store_field.

(* the value of the assignment expression is the stored, converted value (C11 6.5.16p3) *)
Theorem bitfield_assignment_value : forall f, wf_bf f = true -> forall u v,
  snd (bf_store f u v) = c11_conv_bf f v.
Proof. exact bf_assign_value. Qed.
Print Assumptions bitfield_assignment_value.

(* _Bool bit-field: NE r, v, 0 then the unsigned store: reads back (and yields) v != 0 *)
Theorem bitfield_bool_store : forall f, wf_bf f = true -> forall u v, bsigned f = false ->
  bf_load f (fst (bf_store f u (m_ne0 v))) = m_ne0 v /\ snd (bf_store f u (m_ne0 v)) = m_ne0 v.
Proof. exact bf_store_bool. Qed.
Print Assumptions bitfield_bool_store.

(* a disjoint bit-field of the same unit reads the same value before and after *)
Theorem bitfield_store_keeps_neighbour : forall f g u v,
  wf_bf f = true -> wf_bf g = true -> ubits g = ubits f ->
  (boff g + bwid g <= boff f \/ boff f + bwid f <= boff g) ->
  bf_load g (fst (bf_store f u v)) = bf_load g u.
Proof. exact bf_store_other_field. Qed.
Print Assumptions bitfield_store_keeps_neighbour.

(* the enclosing object as one little-endian number: every bit outside the field is unchanged (members
   in the same unit, in overlapping units of another size, bytes outside the unit), and the unit read
   back is the stored one *)
Theorem bitfield_object_frame : forall f, wf_bf f = true -> forall uoff M v, 0 <= uoff -> forall j, 0 <= j ->
  ~ (8 * uoff + boff f <= j < 8 * uoff + boff f + bwid f) ->
  Z.testbit (obj_store f uoff M v) j = Z.testbit M j.
Proof. exact obj_store_frame. Qed.
Print Assumptions bitfield_object_frame.
Theorem bitfield_object_unit : forall f, wf_bf f = true -> forall uoff M v, 0 <= uoff ->
  obj_unit f uoff (obj_store f uoff M v) = fst (bf_store f (obj_unit f uoff M) v).
Proof. exact obj_store_unit. Qed.
Print Assumptions bitfield_object_unit.

(* non-vacuity: `int b:5` at bit 3 of a 32-bit unit (struct S {unsigned a:3; int b:5; ...}); storing 17
   into a unit of all ones reads back -15, keeps the other 27 bits, and the code is the 7-insn sequence *)
Example bitfield_wf_example : wf_bf {| ubits := 32; usigned := true; boff := 3; bwid := 5; bsigned := true |} = true.
Proof. reflexivity. Qed.
Example bitfield_store_example :
  let f := {| ubits := 32; usigned := true; boff := 3; bwid := 5; bsigned := true |} in
  bf_store f (2 ^ 32 - 1) 17 = (2 ^ 32 - 1 - 14 * 8, 2 ^ 64 - 15) /\ length (store_code f) = 7%nat.
Proof. vm_compute. split; reflexivity. Qed.

From Coq Require Import Extraction ExtrOcamlBasic List.
From MirV Require Import C09.PpExpandFn C09.PpCond.
Extraction Language OCaml.
Extraction "c09fx.ml" expand_fn lookup mkq c2m_cond flat_elems sem_elems.

(* Property C12: the binary-MIR compression layer (mir-reduce.h) is lossless and never trusts a
   damaged stream.  Only the property theorems, each closed by [exact] and followed by
   Print Assumptions.  Model: coq/C12/Reduce.v, coq/C12/Hash.v over coq/gen/ReduceParams.v. *)
From Coq Require Import NArith List.
From MirV Require Import gen.ReduceParams C12.Arr C12.Hash C12.Reduce C12.CodecProofs C12.DecodeProofs
  C12.RoundTrip C12.EncodeTotal C12.EncodeExact C12.HashProofs C12.EncodeStale.
Import ListNotations.
Local Open Scope N_scope.

(* the variable-length integer codec: every value the format can carry (< 2^28) reads back, and the
   reader leaves exactly the rest of the stream *)
Theorem reduce_uint_roundtrip : forall fx u rest,
  u < 268435456 -> uint_read fx (uint_write u ++ rest) = Some (u, rest).
Proof. exact uint_read_write. Qed.
Print Assumptions reduce_uint_roundtrip.

(* the tag byte packs and unpacks the symbol-length and reference-length fields *)
Theorem reduce_tag_roundtrip : forall s r,
  s <= SYMB_TAG_LONG -> r <= REF_TAG_LONG ->
  let tag := s * (REF_TAG_LONG + 1) + r in
  tag / (REF_TAG_LONG + 1) = s /\ tag mod (REF_TAG_LONG + 1) = r /\ tag < 256.
Proof. exact tag_roundtrip. Qed.
Print Assumptions reduce_tag_roundtrip.

(* Memory safety of the decoder (mir-reduce.h with the fix of fixes/C12-1.patch, [fx] = true): for
   EVERY byte stream and ALL initial contents of ind2pos and buf (malloc memory the decoder never
   initialises), no access of the model leaves buf[0..BUF_LEN) / ind2pos[0..BUF_LEN), no memcpy
   overlaps, and the loop terminates within its fuel: the outcome is Accept or Reject. *)
Theorem reduce_decode_safe : forall i2p0 buf0 s,
  bytes_ok s = true ->
  match decode true i2p0 buf0 s with Oob _ _ | NoFuel => False | _ => True end.
Proof. exact decode_safe. Qed.
Print Assumptions reduce_decode_safe.

(* The same statement is FALSE of the original code ([fx] = false: bound on sym_pos + ref_len only,
   ref_ind = 0 allowed, marker-less uint accepted): a 5-byte stream makes it read 4 GiB past buf. *)
Theorem reduce_decode_unfixed_refuted :
  exists i2p0 buf0 s, bytes_ok s = true /\ decode false i2p0 buf0 s = Oob 4 4294967299.
Proof. exact decode_unfixed_oob. Qed.
Print Assumptions reduce_decode_unfixed_refuted.

(* Truncation: every proper prefix of a stream the decoder accepts is rejected (in particular every
   truncation of an encoder output, by reduce_roundtrip).  Holds for both versions of the checks. *)
Theorem reduce_truncated_rejected : forall fx i2p0 buf0 p q d,
  q <> [] -> decode fx i2p0 buf0 (p ++ q) = Accept d -> decode fx i2p0 buf0 p = Reject.
Proof. exact decode_truncated. Qed.
Print Assumptions reduce_truncated_rejected.

(* Extension: every proper extension of an accepted stream is rejected. *)
Theorem reduce_extended_rejected : forall fx i2p0 buf0 s q d,
  q <> [] -> decode fx i2p0 buf0 s = Accept d -> decode fx i2p0 buf0 (s ++ q) = Reject.
Proof. exact decode_extended. Qed.
Print Assumptions reduce_extended_rejected.

(* Integrity: whatever stream is accepted (altered or not), it has the shape PREFIX, body, 0 tag,
   eight bytes, and those eight bytes are the little-endian check hash ([chain]: mir_hash_strict
   chained over the BUF_LEN-sized pieces, seed CHECK_HASH_SEED) of exactly the data delivered.
   This is the provable form of "an altered stream is reported as a failure": an alteration is
   either rejected or yields data whose 64-bit hash equals the (possibly altered) trailer. *)
Theorem reduce_accept_integrity : forall fx i2p0 buf0 s d,
  decode fx i2p0 buf0 s = Accept d ->
  exists body hs, s = PREFIX ++ body ++ 0 :: hs /\ length hs = 8%nat
                  /\ chain d CHECK_HASH_SEED (le_value hs).
Proof. exact decode_accept_integrity. Qed.
Print Assumptions reduce_accept_integrity.

(* LOSSLESS: decoding what the encoder wrote returns exactly the original bytes - for every input
   list of every length (any number of 256 KiB buffers), for all initial contents of the decoder's
   buffers.  [encode] is the model of reduce_encode with its real dictionary (hash chains, free
   list, recycling of the oldest chain element, cost rule); it returns None only if a chain walk
   exceeded TABLE_SIZE steps, which reduce_encode_total excludes. *)
Theorem reduce_roundtrip : forall i2p0 buf0 data s,
  encode data = Some s -> decode true i2p0 buf0 s = Accept data.
Proof. exact decode_encode. Qed.
Print Assumptions reduce_roundtrip.

(* every truncation and every extension of an encoder output is rejected *)
Theorem reduce_encoded_truncated_rejected : forall i2p0 buf0 data s k,
  encode data = Some s -> (k < length s)%nat -> decode true i2p0 buf0 (firstn k s) = Reject.
Proof. exact encode_truncated. Qed.
Print Assumptions reduce_encoded_truncated_rejected.

Theorem reduce_encoded_extended_rejected : forall i2p0 buf0 data s x xs,
  encode data = Some s -> decode true i2p0 buf0 (s ++ x :: xs) = Reject.
Proof. exact encode_extended. Qed.
Print Assumptions reduce_encoded_extended_rejected.

(* Shape of every encoder output: PREFIX, body, 0 tag, and the 64-bit check hash of the input data
   (the same [chain] as in reduce_accept_integrity) in little-endian bytes. *)
Theorem reduce_encode_shape : forall data s,
  encode data = Some s ->
  exists body h, s = PREFIX ++ body ++ 0 :: le_bytes 8 h /\ chain data CHECK_HASH_SEED h /\ h < M64.
Proof. exact encode_shape. Qed.
Print Assumptions reduce_encode_shape.

(* The encoder model is total: no dictionary chain walk, no loop ever exhausts its fuel (the hash
   chains are finite, duplicate-free, pairwise disjoint lists of handed-out table elements; the
   main loop advances at least one byte per iteration). *)
Theorem reduce_encode_total : forall data, exists s, encode data = Some s.
Proof. exact encode_total. Qed.
Print Assumptions reduce_encode_total.

(* The clause "a stream with bytes altered is reported as a failure" is not a theorem of a faithful
   model: a one-byte alteration of an encoder output that is accepted (with the same data).  What
   holds for altered streams is reduce_accept_integrity above. *)
Theorem reduce_altered_same_data_example :
  exists s, encode ex_data = Some s /\ ex_altered <> s /\ length ex_altered = length s
            /\ decode true (fun _ => 0) (fun _ => 0) ex_altered = Accept ex_data.
Proof. exact altered_same_data. Qed.
Print Assumptions reduce_altered_same_data_example.

(* ---------------------------------------------------------------------------------------------
   Round 2 (audit): what round 1 validated only by the correspondence run. *)

(* The encoder's arithmetic is exact and its byte-compare fuel suffices.  [encode_x mf] is the encoder
   with (a) every uint32_t subtraction of the C code (buf_bound - pos, pos - el->pos,
   curr_num - el->num, len - (START_LEN - 1), base - dict_pos) CHECKED -- an underflow, where the
   model's natural-number subtraction and the C wrap-around would differ, yields None -- and (b) the
   fuel [mf] of the loop "for (; len < len_bound; len++) if (s1[len] != s2[len]) break;" as a
   parameter.  For every input and every mf >= BUF_LEN it equals [encode]: no subtraction ever
   underflows and no larger fuel changes a single output byte. *)
Theorem reduce_encode_exact : forall mf data,
  (buf_fuel <= mf)%nat -> encode_x mf data = encode data.
Proof. exact encode_exact_lemma. Qed.
Print Assumptions reduce_encode_exact.

Theorem reduce_encode_no_underflow : forall mf data,
  (buf_fuel <= mf)%nat -> exists s, encode_x mf data = Some s.
Proof. exact encode_no_underflow_lemma. Qed.
Print Assumptions reduce_encode_no_underflow.

(* the checks of encode_x are real: an underflowing subtraction is reported *)
Theorem reduce_checked_sub_detects : csub 3 4 = None /\ ref_size_x 2 1 = None.
Proof. exact csub_detects. Qed.
Print Assumptions reduce_checked_sub_detects.

(* What the byte-compare loop computes when its fuel covers the distance to the bound (no fuel in
   the conclusion): the length r of the longest common prefix of the two positions below the bound. *)
Theorem reduce_match_len_maximal : forall buf p1 p2 bound fuel len,
  (N.to_nat (bound - len) <= fuel)%nat -> len <= bound ->
  let r := match_len fuel buf p1 p2 len bound in
  len <= r <= bound
  /\ (forall i, len <= i < r -> bget buf (p1 + i) = bget buf (p2 + i))
  /\ (r = bound \/ bget buf (p1 + r) <> bget buf (p2 + r)).
Proof. exact match_len_maximal. Qed.
Print Assumptions reduce_match_len_maximal.

(* Hash arithmetic: the only place where the hash model does not follow the C text literally.
   On little-endian hosts with unaligned access mir_get_key_part loads 8 or 4 bytes at once
   ([key_part_fast]: the loads are little-endian values) instead of running the byte loop the model
   uses ([key_part]); both give the same 64-bit word for every list of at most 8 bytes, namely the
   bytes packed little-endian into the TOP of the word. *)
Theorem reduce_hash_key_part_fast_path : forall l,
  Forall (fun b => b < 256) l -> (length l <= 8)%nat ->
  key_part_fast l = key_part l /\ key_part l = le_value l * p256 (8 - length l).
Proof. exact (fun l Hb Hl => conj (key_part_fast_eq l Hb Hl) (key_part_value l Hb Hl)). Qed.
Print Assumptions reduce_hash_key_part_fast_path.

(* Round 3.  The C encoder reuses ONE buffer: a partial last piece of input is written over the
   previous 256 KiB piece (a single-buffer input over whatever malloc returned), so the cells at
   positions >= buf_bound hold stale bytes while it is encoded.  [encode_on buf0] is the encoder that
   starts from an arbitrary buffer [buf0] and carries the buffer from piece to piece; its output is
   that of [encode] (fresh buffer per piece) for EVERY initial buffer and every input: no comparison,
   hash or literal of the encoder reads a cell at or behind buf_bound.  With reduce_roundtrip: the
   output is decodable whatever the buffer held. *)
Theorem reduce_encode_ignores_stale_buffer : forall buf0 data, encode_on buf0 data = encode data.
Proof. exact encode_on_eq. Qed.
Print Assumptions reduce_encode_ignores_stale_buffer.

Theorem reduce_roundtrip_any_buffer : forall buf0 i2p0 dbuf0 data s,
  encode_on buf0 data = Some s -> decode true i2p0 dbuf0 s = Accept data.
Proof. exact decode_encode_on. Qed.
Print Assumptions reduce_roundtrip_any_buffer.

From Coq Require Import Extraction ExtrOcamlBasic List ZArith Bool.
From MirV Require Import Mir.Opcode C02.X86Sem C02.X86Check gen.X86Patterns.
Extraction Language OCaml.
Local Open Scope bool_scope.
Definition x86_bad : list xrow := x86_bad_rows early_dx cmp_uext8 x86_table.
Definition x86_uncovered : list opcode :=
  filter (fun op => x86_scope op && negb (existsb (fun r : xrow => opcode_eqb (fst (fst r)) op) x86_table)) all_opcodes.
Extraction "c02x86.ml" x86_bad x86_uncovered opcode_num.

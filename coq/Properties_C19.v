(* Property C19: container headers behave as the abstract map / bit-set / sequences they model.
   This file holds only the property theorems, each closed by [exact] and followed by
   Print Assumptions. *)
From Coq Require Import List ZArith.
From MirV Require Import C19.Varr C19.VarrProofs.

(* VARR: for every script from every well-formed array, each step keeps els_num <= size, each
   list operation (push, push_arr, pop, trunc, set, get, last, length) returns what the same
   operation returns on the plain list of live elements and leaves exactly that list's successor,
   the model rejects an op iff the list spec rejects it, and every realloc reports the true old
   and new capacity (the block's true previous size, needed by C17). *)
Theorem varr_refines_list : forall ops v, wf v -> srun_mixed v ops.
Proof. exact varr_script_refines. Qed.
Print Assumptions varr_refines_list.

Theorem varr_capacity_ops_keep_contents : forall v o v' out ev,
  wf v -> list_op o = false -> vstep v o = Some (v', out, ev) ->
  match o with
  | VTailor n => firstn (Nat.min n (els_num v)) (abs v') = firstn (Nat.min n (els_num v)) (abs v)
                 /\ els_num v' = n /\ cap v' = n
  | _ => abs v' = abs v
  end.
Proof. exact vstep_cap_ops. Qed.
Print Assumptions varr_capacity_ops_keep_contents.

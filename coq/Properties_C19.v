(* Property C19: container headers behave as the abstract map / bit-set / sequences they model.
   This file holds only the property theorems, each closed by [exact] and followed by
   Print Assumptions.  Models: C19/Varr.v Bitmap.v Htab.v Dlist.v (definitions only);
   proofs: C19/*Proofs.v, C19/Lcg.v. *)
From Coq Require Import List ZArith NArith Bool Sorted Permutation.
Import ListNotations.
From MirV Require Import C19.Varr C19.VarrProofs C19.Bitmap C19.BitmapProofs C19.Dlist C19.DlistProofs
  C19.Htab C19.HtabProofs C19.Lcg C19.HtabGhost.

(* ------------------------------------------------------------------ VARR *)
(* VARR: for every script from every well-formed array, each step keeps els_num <= size, each
   list operation (push, push_arr, pop, trunc, set, get, last, length) returns what the same
   operation returns on the plain list of live elements and leaves exactly that list's successor,
   the model rejects an op iff the list spec rejects it, and every realloc reports the true old
   and new capacity (the block's true previous size, needed by C17). *)
Theorem varr_refines_list : forall ops v, Varr.wf v -> srun_mixed v ops.
Proof. exact varr_script_refines. Qed.
Print Assumptions varr_refines_list.

Theorem varr_capacity_ops_keep_contents : forall v o v' out ev,
  Varr.wf v -> list_op o = false -> vstep v o = Some (v', out, ev) ->
  match o with
  | VTailor n => firstn (Nat.min n (els_num v)) (abs v') = firstn (Nat.min n (els_num v)) (abs v)
                 /\ els_num v' = n /\ cap v' = n
  | _ => abs v' = abs v
  end.
Proof. exact vstep_cap_ops. Qed.
Print Assumptions varr_capacity_ops_keep_contents.

(* ------------------------------------------------------------------ BITMAP
   The set a bitmap denotes is [fun n => bit_p bm n] (= [wbit bm n], theorem bitmap_bit_p_spec).
   [changed a b] = the two sets differ at some n.  [wfb]/[wfs]: all words < 2^64; holds in every
   reachable store (bitmap_reachable_wf), and no operation with valid ids gets stuck. *)
Local Open Scope N_scope.

Theorem bitmap_bit_p_spec : forall bm n, bit_p bm n = wbit bm n.
Proof. exact bit_p_spec. Qed.
Print Assumptions bitmap_bit_p_spec.

Theorem bitmap_reachable_wf : forall n, wfs (bst (binit n)) /\
  (forall s o s' out, wfs (bst s) -> bstep true s o = Some (s', out) -> wfs (bst s')) /\
  (forall s o, wfs (bst s) -> valid (bst s) (bop_ids s o) = true -> bstep true s o <> None).
Proof. exact (fun n => conj (binit_wf n) (conj bstep_wf bstep_total)). Qed.
Print Assumptions bitmap_reachable_wf.

(* set_bit_p / clear_bit_p: result set, and the returned flag is true exactly when the set changed *)
Theorem bitmap_set_bit_spec : forall bm n bm' r, wfb bm -> set_bit_p bm n = (bm', r) ->
  wfb bm' /\ (forall m, wbit bm' m = (m =? n) || wbit bm m) /\ (r = true <-> changed bm' bm).
Proof. exact set_bit_p_spec. Qed.
Print Assumptions bitmap_set_bit_spec.

Theorem bitmap_clear_bit_spec : forall bm n bm' r, wfb bm -> clear_bit_p bm n = (bm', r) ->
  wfb bm' /\ (forall m, wbit bm' m = negb (m =? n) && wbit bm m) /\ (r = true <-> changed bm' bm).
Proof. exact clear_bit_p_spec. Qed.
Print Assumptions bitmap_clear_bit_spec.

(* set/clear_bit_range_p (the lsh/rsh/mask loop): never runs out of fuel, sets resp. clears exactly
   [nb, nb+len), flag = true exactly when the set changed *)
Theorem bitmap_range_spec : forall bm nb len setp, wfb bm ->
  exists bm' r, set_or_clear_bit_range_p bm nb len setp = Some (bm', r) /\ wfb bm' /\
    (forall m, wbit bm' m = if in_range nb len m then setp else wbit bm m) /\
    (r = true <-> changed bm' bm).
Proof. exact set_or_clear_bit_range_p_spec. Qed.
Print Assumptions bitmap_range_spec.

(* op2 = and / and_compl / ior and op3 = ior_and / ior_and_compl, on a store, for EVERY choice of
   the ids dst, src1, src2(, src3) -- all aliasing patterns: the other bitmaps are untouched, the
   destination denotes the set-algebra result of the PRE-state sets, and the returned flag is true
   exactly when the destination's set changed (fixes/C19-1.patch; false before it: see
   opn_unfixed_flag_refuted in BitmapProofs.v). *)
Theorem bitmap_op2_spec : forall f fb,
  In (f, fb) [(f_and, fb_and); (f_and_compl, fb_and_compl); (f_ior, fb_ior)] ->
  forall st dst s1 s2 st' r, wfs st -> (dst < length st)%nat ->
  opn true f dst [s1; s2] st = (st', r) ->
  wfs st' /\ length st' = length st /\ (forall b, b <> dst -> getb st' b = getb st b) /\
  (forall n, bit_p (getb st' dst) n = fb [bit_p (getb st s1) n; bit_p (getb st s2) n]) /\
  (r = true <-> changed (getb st' dst) (getb st dst)).
Proof. exact op2_spec. Qed.
Print Assumptions bitmap_op2_spec.

Theorem bitmap_op3_spec : forall f fb,
  In (f, fb) [(f_ior_and, fb_ior_and); (f_ior_and_compl, fb_ior_and_compl)] ->
  forall st dst s1 s2 s3 st' r, wfs st -> (dst < length st)%nat ->
  opn true f dst [s1; s2; s3] st = (st', r) ->
  wfs st' /\ length st' = length st /\ (forall b, b <> dst -> getb st' b = getb st b) /\
  (forall n, bit_p (getb st' dst) n = fb [bit_p (getb st s1) n; bit_p (getb st s2) n; bit_p (getb st s3) n]) /\
  (r = true <-> changed (getb st' dst) (getb st dst)).
Proof. exact op3_spec. Qed.
Print Assumptions bitmap_op3_spec.

(* FOREACH_BITMAP_BIT terminates and delivers exactly the members, each once, strictly increasing;
   one bitmap_iterator_next returns the least member >= nbit and steps past it *)
Theorem bitmap_iter_spec : forall bm, wfb bm ->
  exists l, foreach bm = Some l /\ StronglySorted N.lt l /\ (forall n, In n l <-> bit_p bm n = true).
Proof. exact foreach_spec. Qed.
Print Assumptions bitmap_iter_spec.

Theorem bitmap_iterator_next_spec : forall bm nbit, wfb bm ->
  match iterator_next bm nbit with
  | (Some b, nb') => nb' = b + 1 /\ nbit <= b /\ wbit bm b = true /\ (forall m, nbit <= m < b -> wbit bm m = false)
  | (None, _) => forall m, nbit <= m -> wbit bm m = false
  end.
Proof. exact iterator_next_spec. Qed.
Print Assumptions bitmap_iterator_next_spec.

Theorem bitmap_copy_equal_intersect_empty : forall a b, wfb a -> wfb b ->
  copy a b = b /\
  (equal_p a b = true <-> same_set a b) /\
  (intersect_p a b = true <-> exists n, wbit a n = true /\ wbit b n = true) /\
  (empty_p a = true <-> forall n, wbit a n = false).
Proof. exact (fun a b Ha Hb => conj (copy_spec a b) (conj (equal_p_spec a b Ha Hb)
                (conj (intersect_p_spec a b Ha Hb) (empty_p_spec a Ha)))). Qed.
Print Assumptions bitmap_copy_equal_intersect_empty.

(* bit_min / bit_max: 0 on the empty set, else the least / greatest member; bit_count: the number of
   set bits ([cntl f n] counts the j < n with f j = true; every member is < 64 * len) *)
Theorem bitmap_min_max_count_spec : forall bm, wfb bm ->
  ((forall n, wbit bm n = false) -> bit_min bm = 0 /\ bit_max bm = 0) /\
  (forall n, wbit bm n = true ->
     wbit bm (bit_min bm) = true /\ wbit bm (bit_max bm) = true /\ bit_min bm <= n <= bit_max bm) /\
  bit_count bm = cntl (fun j => wbit bm (N.of_nat j)) (64 * length bm).
Proof.
  exact (fun bm Hwf =>
    conj (fun He => conj (proj1 (bit_min_spec bm Hwf) He) (proj1 (bit_max_spec bm Hwf) He))
   (conj (fun n Hn => conj (proj1 (proj2 (bit_min_spec bm Hwf) n Hn))
                     (conj (proj1 (proj2 (bit_max_spec bm Hwf) n Hn))
                           (conj (proj2 (proj2 (bit_min_spec bm Hwf) n Hn)) (proj2 (proj2 (bit_max_spec bm Hwf) n Hn)))))
         (bit_count_spec bm Hwf))).
Qed.
Print Assumptions bitmap_min_max_count_spec.

(* ------------------------------------------------------------------ DLIST
   [Dlist.wf d l]: the heap restricted to the nodes of l is exactly the doubly linked chain l
   (head.prev = tail.next = NULL, prev/next inverse), head/tail are its ends. *)
Theorem dlist_refines_list : forall d l o l' out,
  Dlist.wf d l -> sstep (length (heap d)) l o = Some (l', out) ->
  exists d', dstep d o = Some (d', out) /\ Dlist.wf d' l' /\ length (heap d') = length (heap d).
Proof. exact dstep_refines. Qed.
Print Assumptions dlist_refines_list.

Theorem dlist_script_refines_list : forall ops d l outs,
  Dlist.wf d l -> srun (length (heap d)) l ops = Some outs -> drun d ops = outs.
Proof. exact dlist_script_refines. Qed.
Print Assumptions dlist_script_refines_list.

Theorem dlist_frame : forall d l o l' out d',
  Dlist.wf d l -> sstep (length (heap d)) l o = Some (l', out) -> dstep d o = Some (d', out) ->
  (forall x, ~ In x l' -> (match o with DPrepend e | DAppend e | DInsertBefore _ e | DInsertAfter _ e | DRemove e => x <> e | _ => True end) -> lk (heap d') x = lk (heap d) x)
  /\ (match o with DRemove e => lk (heap d') e = nolinks | _ => True end).
Proof. exact dstep_frame. Qed.
Print Assumptions dlist_frame.

Theorem dlist_init_wf : forall n, Dlist.wf (dinit n) [].
Proof. exact dinit_wf. Qed.
Print Assumptions dlist_init_wf.

(* ------------------------------------------------------------------ HTAB
   For every element type, hash function and eq function such that eq is symmetric and transitive,
   eq elements have equal hashes and hashes fit htab_hash_t (32 bits):
   [Inv] = the representation invariant (size a power of two = 2 * els_size, every live element
   reachable on its probe path before any empty entry, entries injective, live elements pairwise
   non-eq, #non-empty entries <= els_bound <= els_size, els_num = number of live elements);
   [absl h] = the live elements in els order = the abstract insertion-ordered association list;
   [astep]/[arun] = the trivially correct list model (Htab.v), which also yields the dropped elements. *)
Section HtabTheorems.
Variable A : Type.
Variable hashf : A -> N.
Variable eqf : A -> A -> bool.
Hypothesis eqf_sym : forall x y, eqf x y = eqf y x.
Hypothesis eqf_trans : forall x y z, eqf x y = true -> eqf y z = true -> eqf x z = true.
Hypothesis eqf_hash : forall x y, eqf x y = true -> hashf x = hashf y.
Hypothesis hash_range : forall x, hashf x < 2 ^ 32.

(* a created table satisfies the invariant and is the empty map *)
Theorem htab_create_inv : forall min,
  Inv A hashf eqf (hcreate A min) /\ absl A (hcreate A min) = [] /\ flog (hcreate A min) = [].
Proof. exact (hcreate_spec A hashf eqf). Qed.

(* one HTAB_DO (find / insert / replace / delete), incl. growth and in-place compaction when the
   element array is full: never stuck (no out-of-fuel, out-of-range or undefined-cell read), keeps
   the invariant, returns the found bit and *res of the abstract map, calls free_func on exactly
   the replaced / deleted element *)
Theorem htab_do_refines_map : forall h x act res, Inv A hashf eqf h ->
  exists h' found res', hdo A hashf eqf 2 h x act res = Some (h', found, res') /\ Inv A hashf eqf h' /\
    do_post A eqf (absl A h) act x res (flog h) (absl A h') found res' (flog h').
Proof. exact (hdo_spec A hashf eqf eqf_sym eqf_trans eqf_hash hash_range). Qed.

(* every op sequence (do / clear / els_num / foreach) from every state satisfying the invariant:
   same outputs as the abstract map, final contents = abstract contents, els_num = cardinal,
   free log = the abstract run's dropped elements in order *)
Theorem htab_refines_map : forall ops h, Inv A hashf eqf h -> Forall (fun o => o <> HCollisions) ops ->
  exists h' outs ds, hrun A hashf eqf h ops = Some (h', outs) /\ Inv A hashf eqf h' /\
    arun A eqf (absl A h) ops = (absl A h', outs, ds) /\ flog h' = flog h ++ ds /\
    h_els_num h' = length (absl A h').
Proof. exact (hrun_refines A hashf eqf eqf_sym eqf_trans eqf_hash hash_range). Qed.

(* free function exactly once per dropped element: from creation, the multiset of elements ever
   stored = live elements + elements passed to free_func (so none twice, none leaked) *)
Theorem htab_free_once : forall ops min, Forall (fun o => o <> HCollisions) ops ->
  exists h' outs, hrun A hashf eqf (hcreate A min) ops = Some (h', outs) /\
    flog h' = snd (arun A eqf [] ops) /\ absl A h' = fst (fst (arun A eqf [] ops)) /\
    Permutation (astored A eqf [] ops) (absl A h' ++ flog h').
Proof. exact (htab_free_once_core A hashf eqf eqf_sym eqf_trans eqf_hash hash_range). Qed.
End HtabTheorems.
Print Assumptions htab_create_inv.
Print Assumptions htab_do_refines_map.
Print Assumptions htab_refines_map.
Print Assumptions htab_free_once.

(* the probe sequence x -> 5x+1 (mod 2^k) has full period (Hull-Dobell): termination of the probe loop *)
Theorem htab_probe_full_period : forall (k : N) (x0 t : N), x0 < 2 ^ k -> t < 2 ^ k ->
  exists n : nat, N.of_nat n < 2 ^ k /\ Nat.iter n (fun x => (5 * x + 1) mod 2 ^ k) x0 = t.
Proof. exact lcg5_full_period. Qed.
Print Assumptions htab_probe_full_period.

(* the instance run against the real header satisfies the hypotheses *)
Theorem htab_instance_hyps : forall table, Forall (fun v => v < 2 ^ 32) table ->
  (forall x y, inst_eq x y = inst_eq y x) /\
  (forall x y z, inst_eq x y = true -> inst_eq y z = true -> inst_eq x z = true) /\
  (forall x y, inst_eq x y = true -> inst_hash table x = inst_hash table y) /\
  (forall x, inst_hash table x < 2 ^ 32).
Proof.
  exact (fun table Hall => conj inst_eq_sym (conj inst_eq_trans (conj (inst_eq_hash table)
           (fun x => inst_hash_range table x Hall)))).
Qed.
Print Assumptions htab_instance_hyps.

(* ---------------------------------------------------------------------------------------------
   Round 2 (audit). *)

(* free_func == NULL (HTAB_CREATE): every call of the free function in mir-htab.h is guarded by
   "if (htab->free_func != NULL)" and nothing else depends on it.  In the model the calls are the
   ghost log [flog]; it is never read: two tables that differ only in their log give, for every
   operation sequence, the same outputs (found, *res, els_num, foreach) and the same final table
   up to the log -- or both get stuck.  So the table without a free function is the model with the log
   erased, and htab_refines_map / htab_do_refines_map hold for it unchanged. *)
Theorem htab_free_func_ghost : forall (A : Type) (hashf : A -> N) (eqf : A -> A -> bool) ops h1 h2,
  same A h1 h2 ->
  match hrun A hashf eqf h1 ops, hrun A hashf eqf h2 ops with
  | Some (h1', outs1), Some (h2', outs2) => same A h1' h2' /\ outs1 = outs2
  | None, None => True
  | _, _ => False
  end.
Proof. exact hrun_ghost. Qed.
Print Assumptions htab_free_func_ghost.

(* htab_size_t / htab_hash_t are 32-bit in C; the model computes the next probe index without
   wrap-around.  With mask = size - 1 = 2^k - 1 (k <= 32) both give the same index for ALL operands. *)
Theorem htab_probe_index_wrap_irrelevant : forall ind peterb k : N, (k <= 32)%N ->
  N.land ((5 * ind + peterb + 1) mod 2 ^ 32) (2 ^ k - 1) = N.land (5 * ind + peterb + 1) (2 ^ k - 1).
Proof. exact probe_index_wrap_irrelevant. Qed.
Print Assumptions htab_probe_index_wrap_irrelevant.

(* Extraction of the C15 checker model for the correspondence run (ExtrOcamlBasic only). *)
From Coq Require Import Extraction ExtrOcamlBasic List NArith ZArith.
From MirV Require Import Mir.Opcode C15.Defs gen.InsnDescs C15.Validate C15.DocModes.
Import ListNotations.

(* decimal digits (most significant first) to Z: numbers cross the OCaml boundary as strings *)
Definition z_of_digits (neg : bool) (ds : list N) : Z :=
  let v := fold_left (fun acc d => (acc * 10 + Z.of_N d)%Z) ds 0%Z in
  if neg then Z.opp v else v.
Definition n_of_digits (ds : list N) : N := fold_left (fun acc d => (acc * 10 + d)%N) ds 0%N.

Extraction Language OCaml.
Extraction "c15x.ml" step init_state insn_descs row_name error_names error_num z_of_digits n_of_digits
  opcode_num opcode_of_num all_opcodes doc_func_ok insn_in_domain res_types_ok.

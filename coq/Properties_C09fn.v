(* Property C09, second part: function-like macro expansion (PpExpandFn = executable transcription of
   c2mir.c processing / try_param_macro_call / find_args / process_replacement / do_concat /
   token_stringify, tied to `c2m -E` token for token by checks/c09.py) and conditional directives
   (PpCond = transcription of the if/ifdef/ifndef/elif/else/endif cases of process_directive).
   Only the property theorems, each closed by [exact] and followed by Print Assumptions. *)
From Coq Require Import String List Arith Bool.
From MirV Require Import C09.PpCond C09.PpCondProofs C09.PpExpandFn C09.PpExpandFnProofs C09.PpNumber.
Import ListNotations.

(* ---------------- conditional directives (C11 6.10.1p6) ---------------- *)

(* For every well-nested text of #if/#ifdef/#ifndef/#elif/#else/#endif, #define/#undef and text lines, at any
   nesting depth: c2mir passes on exactly the lines, and ends with exactly the macro state, that C11 prescribes
   for the parsed if-sections (first group whose condition is true, else the #else group, else nothing); it
   reports an error exactly when a condition that C11 evaluates has no value. *)
Theorem cond_groups_eq_c11 : forall xs e, c2m_cond e (flat_elems xs) = sem_elems e xs.
Proof. exact cond_groups_eq_c11_lemma. Qed.
Print Assumptions cond_groups_eq_c11.

(* Exactly one group of an if-section is processed (none when no condition holds and there is no #else). *)
Theorem exactly_one_group : forall e h b t,
  c2m_cond e (flat_elem (ESec h b t)) =
  match sec_choice e h b t with
  | Some (Some g) => c2m_cond e (flat_elems g)
  | Some None => Some (e, [])
  | None => None
  end.
Proof. exact exactly_one_group_lemma. Qed.
Print Assumptions exactly_one_group.

(* Inside a skipped group nothing happens, whatever is nested there: no line is passed on, no #define/#undef is
   executed, no condition is evaluated, and the conditional stack comes back as it was. *)
Theorem skipped_group_ignored : forall xs s, consistent s -> skip s = true -> drun s (flat_elems xs) = Some s.
Proof. exact skipped_group_ignored_lemma. Qed.
Print Assumptions skipped_group_ignored.

(* Once a group of an if-section was taken, its remaining #elif/#else groups are skipped (seeded mutation C09-m2
   breaks exactly this: it leaves the stack entry saying "not skipping"). *)
Theorem later_groups_skipped : forall t i r e o, else_p i = false -> true_p i = true ->
  drun (mkcs (i :: r) (skip_p i) e o) (flat_tail t) = Some (mkcs r (top_skip r) e o).
Proof. exact later_groups_skipped_lemma. Qed.
Print Assumptions later_groups_skipped.

(* skip_if_part_p always repeats the skip_p of the innermost open conditional *)
Theorem skip_flag_consistent : forall s l s', consistent s -> dstep s l = Some s' -> consistent s'.
Proof. exact dstep_consistent. Qed.
Print Assumptions skip_flag_consistent.

(* ---------------- function-like macros ---------------- *)

(* C11 6.10.3.1.  (1) process_replacement asks for the macro expansion of an argument exactly for a parameter
   that is neither preceded by # nor an operand of ##; for the others the argument goes in as it is
   (stringified / pasted). *)
Theorem param_substitution_cases : forall old ps prev rest' shp args buf s i,
  find_param ps s = Some i ->
  proc_repl old ps prev (TIdent false s :: rest') shp args buf =
  match shp with
  | Some p => proc_repl old ps (TIdent false s :: prev) rest' None (set_nth i (strip_ws old (nth i args [])) args)
                        (add_token (firstn p buf) (stringify_toks old (strip_ws old (nth i args []))))
  | None => if paste_operand prev rest' then
              if empty_arg (nth i args []) then proc_repl old ps (TIdent false s :: prev) rest' None args (add_token buf TPlm)
              else proc_repl old ps (TIdent false s :: prev) rest' None args (add_tokens buf (nth i args []))
            else PrArg i (TIdent false s :: prev) rest' args buf
  end.
Proof. exact proc_repl_param. Qed.
Print Assumptions param_substitution_cases.

(* (2) "Before being substituted, each argument's preprocessing tokens are completely macro replaced as if they
   formed the rest of the preprocessing file; no other preprocessing tokens are available": for every table and
   every argument (a token list without markers), when the expansion of the argument is asked for (T_BOA arg T_EOA
   on the input) and the loop run on the argument ALONE, as if it were the file, reaches its end, then the loop
   does on it exactly those iterations -- independently of the tokens after the argument, of the output so far and
   of the calls that are open -- and what reaches the call's repl_buffer at the T_EOA is the output of that run. *)
Theorem arg_fully_expanded_before_substitution : forall q d fuel arg ig sF rest out0 mc cs nl0,
  table_clean d -> clean arg -> NoDup ig ->
  run_end q d fuel (mkst arg [] [] ig false) = Some sF ->
  exists n,
    steps q d (S n) (mkst (TBoa :: arg ++ TEoa :: rest) out0 (mc :: cs) ig nl0)
    = Some (mkst (TEoa :: rest) (out sF ++ TBoa :: out0) (mc :: cs) (ign sF) (nl sF))
    /\ step q d (mkst (TEoa :: rest) (out sF ++ TBoa :: out0) (mc :: cs) (ign sF) (nl sF))
       = run_repl q rest out0 (mkmc (mc_name mc) (mc_params mc) (mc_prev mc) (mc_rest mc) (mc_args mc)
                                    (add_tokens (mc_buf mc) (rev (out sF)))) cs (ign sF).
Proof. exact arg_expanded_in_isolation_full. Qed.
Print Assumptions arg_fully_expanded_before_substitution.

(* an isolated run that ends, ends complete: no call is left open and no T_BOA is left over *)
Theorem isolated_run_ends_complete : forall ig0 q d fuel s sF, table_clean d -> inv ig0 s ->
  run_end q d fuel s = Some sF -> calls sF = [] /\ ~ In TBoa (out sF).
Proof. exact run_end_complete. Qed.
Print Assumptions isolated_run_ends_complete.

(* The painting discipline, for every state the loop can reach from a text without markers, for every table:
   ignore_p is set exactly for the macros whose replacement is being rescanned, no macro twice, hence at most as
   many nested rescans as there are macros; the end-of-replacement / end-of-argument markers on the input match
   the entries of macro_call_stack one to one. *)
Theorem painting_discipline : forall q d s names, table_clean d -> (forall n, d n <> None -> In n names) ->
  reach q d s ->
  NoDup (ign s) /\ ign s = names_R (calls s) /\ length (ign s) <= length names /\
  markers (inp s) = map in_rescan (calls s).
Proof. exact painting_discipline_lemma. Qed.
Print Assumptions painting_discipline.

(* ... hence pop_macro_call never finds an empty stack, a T_EOA always finds its call and its T_BOA *)
Theorem no_stack_underflow : forall q d s w, table_clean d -> reach q d s -> step q d s = Bad w ->
  w <> 2 /\ w <> 3 /\ w <> 4 /\ w <> 5 /\ w <> 12.
Proof. exact no_stack_underflow_lemma. Qed.
Print Assumptions no_stack_underflow.

(* a name whose macro is being rescanned is painted instead of expanded; a painted name is never looked up again *)
Theorem ignored_name_painted : forall q d o cs ig n s r m, d s = Some m -> ignored ig s = true ->
  step q d (mkst (TIdent false s :: r) o cs ig n) = Next (mkst r (TIdent true s :: o) cs ig false).
Proof. exact ignored_painted_lemma. Qed.
Theorem painted_name_never_expanded : forall q d o cs ig n s r,
  step q d (mkst (TIdent true s :: r) o cs ig n) = Next (mkst r (TIdent true s :: o) cs ig false).
Proof. exact painted_not_expanded_lemma. Qed.
Print Assumptions painted_name_never_expanded.

(* an answer of the fuelled loop (tokens or error) is THE answer: more fuel gives the same *)
Theorem answer_independent_of_fuel : forall q d fuel k s, run q d fuel s <> OutOfFuel -> run q d (fuel + k) s = run q d fuel s.
Proof. exact run_fuel_mono. Qed.
Print Assumptions answer_independent_of_fuel.

(* # (C11 6.10.3.2p2): one closed string literal that spells the argument, every run of white space as one space *)
Theorem stringify_wellformed_and_spells_argument : forall old ts, forallb strfy_ok ts = true ->
  exists body, stringify_toks old ts = TTok KStr (dq :: body ++ [dq]) /\
               str_closed body = true /\ unesc body = str_plain old false ts.
Proof. exact stringify_spec. Qed.
Print Assumptions stringify_wellformed_and_spells_argument.

(* ## (C11 6.10.3.3): the pasted token is spelled as its operands put together; placemarkers vanish; after
   do_concat no ## and no placemarker is left, whatever the buffer; a buffer without ## is unchanged *)
Theorem paste_spelling : forall a b t, token_concat a b = Some t -> spell t = spell a ++ spell b.
Proof. exact token_concat_spell. Qed.
Theorem paste_tokens : forall a b, ord a = true -> ord b = true ->
  do_concat false [a; TRDblNo; b] = match token_concat a b with Some t => Some [t] | None => None end.
Proof. exact paste_two. Qed.
Theorem paste_placemarker_right : forall a, ord a = true -> do_concat false [a; TRDblNo; TPlm] = Some [a].
Proof. exact paste_right_empty. Qed.
Theorem paste_placemarker_left : forall b, ord b = true -> do_concat false [TPlm; TRDblNo; b] = Some [b].
Proof. exact paste_left_empty. Qed.
Theorem paste_leaves_no_operator : forall old l l', do_concat old l = Some l' ->
  forallb (fun t => negb (is_rdblno t) && negb (is_plm t)) l' = true.
Proof. exact do_concat_no_paste_left. Qed.
Theorem no_paste_no_change : forall old l, forallb (fun t => negb (is_rdblno t) && negb (is_plm t)) l = true -> do_concat old l = Some l.
Proof. exact do_concat_no_paste. Qed.
Print Assumptions paste_leaves_no_operator.

(* start-of-line state (C11 6.10p2) after a function-like macro name that is not invoked: try_param_macro_call skips white
   space and end-of-replacement markers looking for `(`; the last skipped white-space token goes back to the input, so a
   new-line is seen by the main loop (newln_p) and a following `#` starts a directive -- for every such run *)
Theorem directive_after_uninvoked_name : forall q d s name m ps rest r cs ig fuel,
  inp s = TIdent false name :: rest ->
  d name = Some m -> m_params m = Some ps -> ignored (ign s) name = false ->
  skip_to_paren rest (calls s) (ign s) None = Some (TTok KPunct [sharp] :: r, cs, ig, Some TNl) ->
  run q d (3 + fuel) s = Err 1.
Proof. exact directive_after_uninvoked_name_l. Qed.
Print Assumptions directive_after_uninvoked_name.
(* ... while on the same line (last skipped white space a space, or none) the `#` is an ordinary token *)
Theorem no_directive_after_uninvoked_name_on_the_same_line : forall q d s name m ps rest r cs ig ws,
  inp s = TIdent false name :: rest ->
  d name = Some m -> m_params m = Some ps -> ignored (ign s) name = false ->
  skip_to_paren rest (calls s) (ign s) None = Some (TTok KPunct [sharp] :: r, cs, ig, ws) ->
  ws <> Some TNl ->
  exists k o, (forall fuel, run q d (k + fuel) s = run q d fuel (mkst r (TTok KPunct [sharp] :: o) cs ig false))
              /\ (o = TIdent false name :: out s \/ o = TSp :: TIdent false name :: out s).
Proof. exact no_directive_after_uninvoked_name_on_the_same_line_l. Qed.
Print Assumptions no_directive_after_uninvoked_name_on_the_same_line.
(* the new-line goes to the output after the name and leaves the loop at the start of a line, whatever follows *)
Theorem uninvoked_name_keeps_the_newline : forall q d s name m ps rest i cs ig,
  inp s = TIdent false name :: rest ->
  d name = Some m -> m_params m = Some ps -> ignored (ign s) name = false ->
  skip_to_paren rest (calls s) (ign s) None = Some (i, cs, ig, Some TNl) ->
  starts_with lparen i = false ->
  exists s1 s2, step q d s = Next s1 /\ step q d s1 = Next s2 /\
                inp s2 = i /\ out s2 = TNl :: TIdent false name :: out s /\ nl s2 = true /\ calls s2 = cs /\ ign s2 = ig.
Proof. exact uninvoked_name_keeps_the_newline_l. Qed.
Print Assumptions uninvoked_name_keeps_the_newline.

(* the behaviours repaired by fixes/C09-6, C09-7 and C09-8, as quirks of the model: witnesses *)
Definition d67 : defs := lookup
  [ (sp "F", mkmacro (Some [sp "x"]) [TTok KPunct (sp "["); TIdent false (sp "x"); TTok KPunct (sp "]")]);
    (sp "P", mkmacro None [TIdent false (sp "F"); TTok KPunct (sp "("); TTok KNum (sp "1")]);
    (sp "Q", mkmacro None [TIdent false (sp "P")]);
    (sp "Z", mkmacro (Some []) [TIdent false (sp "z")]);
    (sp "S", mkmacro (Some [sp "x"]) [TTok KPunct (sp "#"); TIdent false (sp "x")]);
    (sp "XS", mkmacro (Some [sp "x"]) [TIdent false (sp "S"); TTok KPunct (sp "("); TIdent false (sp "x"); TTok KPunct (sp ")")]);
    (sp "M", mkmacro (Some [sp "x"]) [TIdent false (sp "a"); TSp; TRDblNo; TSp; TIdent false (sp "x"); TSp; TIdent false (sp "b")]) ]%string.
Theorem prefix_find_args_single_eor_refuted :
  expand_fn (mkq true false false) d67 100 [TIdent false (sp "Q"); TSp; TTok KPunct (sp ")")] = Err 11 /\
  expand_fn fixed d67 100 [TIdent false (sp "Q"); TSp; TTok KPunct (sp ")")]
  = Out [TTok KPunct (sp "["); TTok KNum (sp "1"); TSp; TTok KPunct (sp "]")].
Proof. split; vm_compute; reflexivity. Qed.
Theorem prefix_newline_in_empty_call_refuted :
  expand_fn (mkq false true false) d67 100 [TIdent false (sp "Z"); TTok KPunct (sp "("); TNl; TTok KPunct (sp ")")] = Err 15 /\
  expand_fn fixed d67 100 [TIdent false (sp "Z"); TTok KPunct (sp "("); TNl; TTok KPunct (sp ")")] = Out [TIdent false (sp "z")].
Proof. split; vm_compute; reflexivity. Qed.
(* `#define M(x) a ## x b`, XS(M()): the white space between a and b was lost *)
Theorem prefix_placemarker_white_space_refuted :
  expand_fn (mkq false false true) d67 100
    [TIdent false (sp "XS"); TTok KPunct (sp "("); TIdent false (sp "M"); TTok KPunct (sp "("); TTok KPunct (sp ")"); TTok KPunct (sp ")")]
  = Out [TTok KStr (sp """ab""")] /\
  expand_fn fixed d67 100
    [TIdent false (sp "XS"); TTok KPunct (sp "("); TIdent false (sp "M"); TTok KPunct (sp "("); TTok KPunct (sp ")"); TTok KPunct (sp ")")]
  = Out [TTok KStr (sp """a b""")].
Proof. split; vm_compute; reflexivity. Qed.
Print Assumptions prefix_find_args_single_eor_refuted.

(* ---------------- pp-number lexing (C11 6.4.8, 6.4p4; round 3, wave 6) ---------------- *)

(* The T_NUMBER loop of get_next_pptoken_1 (transcribed as lex_number / scan) on any character sequence: the token and the
   rest are the input, nothing lost or reordered. *)
Theorem lex_number_splits : forall s t b, lex_number s = Some (t, b) -> s = t ++ b.
Proof. exact lex_number_splits_lemma. Qed.
Print Assumptions lex_number_splits.

(* The token is a pp-number of the C11 6.4.8 grammar (digit | . digit | pp-number digit | pp-number identifier-nondigit |
   pp-number e/E/p/P sign | pp-number .), whatever the base prefix. *)
Theorem lexed_token_is_pp_number : forall s t b, lex_number s = Some (t, b) -> ppnumber t.
Proof. exact lexed_token_is_pp_number_lemma. Qed.
Print Assumptions lexed_token_is_pp_number.

(* Maximal munch: the character that follows the token cannot extend it to a pp-number; in particular a sign after
   e/E/p/P always belongs to the number (`0xe+X` is one token, X is not a macro use). *)
Theorem pp_number_maximal_munch : forall s t c b, lex_number s = Some (t, c :: b) -> ~ ppnumber (t ++ [c]).
Proof. exact maximal_munch_lemma. Qed.
Print Assumptions pp_number_maximal_munch.

(* The base-aware scanner of seeded C09-v2 (after 0x only p/P, otherwise only e/E take a sign) ends `0xe+X` after `0xe`
   although `0xe+` is a pp-number; the transcribed scanner takes the whole text. *)
Theorem base_aware_scanner_refuted :
  exists s t c b, lex_number2 s = Some (t, c :: b) /\ ppnumber (t ++ [c]) /\ lex_number s = Some (s, []).
Proof. exact base_aware_scanner_refuted_lemma. Qed.
Print Assumptions base_aware_scanner_refuted.

(* Property C03 (partial): behaviour is independent of the execution interface; a function's public
   address stays valid and callable across the switch from stub to generated code.
   What is proved here is the logic core: the byte-level x86-64 thunk and the per-function
   redirection state machine.  The machine-code wrappers/shims/bb stubs and the generator are
   exercised by the differential harness (checks/c03.py), not proved.
   This file holds only the property theorems, each closed by [exact] and followed by
   Print Assumptions. *)
From Coq Require Import List ZArith.
From MirV Require Import C03.Thunk C03.ThunkBytesProofs C03.ThunkProofs C03.ArgPass C03.ArgPassProofs.
From MirV Require Import C03.CodePatch C03.CodePatchProofs.
From MirV Require Import C03.ResPass C03.ResPassProofs.
Local Open Scope Z_scope.

(* _MIR_redirect_thunk followed by a jump to the thunk lands on `to`, for either encoding
   (e9 rel32 with the +-2 GiB arithmetic, or movabs r11 + jmp r11), from any thunk address. *)
Theorem thunk_redirect_decodes : forall thunk to,
  0 <= to < 2 ^ 64 -> jump_target thunk (redirect_bytes thunk to) = Some to.
Proof. exact redirect_decodes. Qed.
Print Assumptions thunk_redirect_decodes.

(* _MIR_get_thunk_addr reads back what _MIR_redirect_thunk stored. *)
Theorem get_thunk_addr_inverse : forall thunk to,
  0 <= to < 2 ^ 64 -> get_thunk_addr (redirect_bytes thunk to) = to.
Proof. exact get_thunk_addr_redirect. Qed.
Print Assumptions get_thunk_addr_inverse.

(* The short form is chosen exactly when the true distance fits a signed 32-bit displacement. *)
Theorem thunk_short_form_boundary : forall thunk to,
  0 <= thunk -> thunk + 5 < 2 ^ 63 -> 0 <= to < 2 ^ 63 ->
  (redirect_short_p thunk to = true <-> - 2 ^ 31 <= to - (thunk + 5) <= 2 ^ 31 - 1).
Proof. exact redirect_short_iff. Qed.
Print Assumptions thunk_short_form_boundary.

(* A redirect always rewrites exactly the 13 bytes of the thunk with byte values. *)
Theorem thunk_bytes_wellformed : forall thunk to,
  length (redirect_bytes thunk to) = thunk_size /\ bytes_ok (redirect_bytes thunk to) = true.
Proof. intros thunk to. split; [exact (redirect_bytes_length thunk to)|exact (redirect_bytes_ok thunk to)]. Qed.
Print Assumptions thunk_bytes_wellformed.

(* item->addr never changes, whatever load / set-interface / MIR_gen / call history follows. *)
Theorem thunk_addr_stable : forall callees n u ops1 w1 f g ops2 w2,
  0 <= u < 2 ^ 64 ->
  run callees (init_world n u) ops1 = Ok w1 -> get_fn w1 f = Some g ->
  run callees w1 ops2 = Ok w2 ->
  exists g', get_fn w2 f = Some g' /\ addr g' = addr g.
Proof.
  intros callees n u ops1 w1 f g ops2 w2 Hu H1 Hg H2.
  destruct (run_ok callees ops1 _ _ (init_Inv n u Hu) H1) as [HI1 _].
  exact (addr_stable callees ops2 w1 w2 f g HI1 H2 Hg).
Qed.
Print Assumptions thunk_addr_stable.

(* After any history, decoding the bytes at a loaded function's public address leads to an
   implementation of that very function (shim, lazy wrapper, generated code or bb entry); it leads
   to undefined_interface only while no interface has been set since the load; and when it is
   generated code, it is the recorded call_addr = machine_code. *)
Theorem thunk_always_reaches_current_impl : forall callees n u ops w f g,
  0 <= u < 2 ^ 64 ->
  run callees (init_world n u) ops = Ok w -> get_fn w f = Some g ->
  exists k, current_impl w f = Some k
    /\ ((k = KUndef /\ linked g = false) \/ (k <> KUndef /\ kind_func k = Some f))
    /\ (forall f', k = KCode f' -> exists a, mcode g = Some a /\ calladdr g = Some a
                                     /\ jump_target (addr g) (bytes g) = Some a).
Proof.
  intros callees n u ops w f g Hu Hr Hg.
  destruct (run_ok callees ops _ _ (init_Inv n u Hu) Hr) as [HI _].
  exact (reaches_impl w f g HI Hg).
Qed.
Print Assumptions thunk_always_reaches_current_impl.

(* Once every loaded function has had an interface set, no call through any public address --
   including all nested first calls it triggers -- can reach undefined_interface. *)
Theorem call_never_undefined_after_link : forall callees n u ops w f orc,
  0 <= u < 2 ^ 64 ->
  run callees (init_world n u) ops = Ok w -> all_linked w ->
  step callees w (OCall f orc) <> Stuck SUndefined.
Proof.
  intros callees n u ops w f orc Hu Hr Ha.
  destruct (run_ok callees ops _ _ (init_Inv n u Hu) Hr) as [HI _].
  exact (call_not_undefined callees w f orc HI Ha).
Qed.
Print Assumptions call_never_undefined_after_link.

(* A completed call through f's address leaves f's thunk on a non-wrapper implementation (so
   the lazy wrapper is not entered again by the next call), and never turns a function that was
   already on shim/code/bb back into a wrapper or undefined. *)
Theorem lazy_wrapper_left_after_first_call : forall callees n u ops w f orc w',
  0 <= u < 2 ^ 64 ->
  run callees (init_world n u) ops = Ok w -> step callees w (OCall f orc) = Ok w' ->
  settled w' f /\ forall f', settled w f' -> settled w' f'.
Proof.
  intros callees n u ops w f orc w' Hu Hr Hs.
  destruct (run_ok callees ops _ _ (init_Inv n u Hu) Hr) as [HI _].
  exact (call_settles callees w f orc w' HI Hs).
Qed.
Print Assumptions lazy_wrapper_left_after_first_call.

(* In the course of one call through a public address -- with all the nested calls it triggers,
   recursion through the call graph included -- the hook of a lazy wrapper runs at most once per
   function, it never runs for a function that was already on shim/code/bb, and when it ran the
   function is settled afterwards. *)
Theorem lazy_wrapper_entered_at_most_once : forall callees n u ops w f orc w',
  0 <= u < 2 ^ 64 ->
  run callees (init_world n u) ops = Ok w -> step callees w (OCall f orc) = Ok w' ->
  forall h g, get_fn w h = Some g -> exists g', get_fn w' h = Some g'
    /\ (settled w h -> wrap_entries g' = wrap_entries g)
    /\ (wrap_entries g' = wrap_entries g \/ (wrap_entries g' = S (wrap_entries g) /\ settled w' h)).
Proof.
  intros callees n u ops w f orc w' Hu Hr Hs.
  destruct (run_ok callees ops _ _ (init_Inv n u Hu) Hr) as [HI _].
  exact (call_wrap_once callees w f orc w' HI Hs).
Qed.
Print Assumptions lazy_wrapper_entered_at_most_once.

(* Whole-function code is produced at most once per function, and once machine_code is set it
   (and call_addr) never change again, whatever follows. *)
Theorem code_generated_at_most_once : forall callees n u ops1 w1 f g ops2 w2,
  0 <= u < 2 ^ 64 ->
  run callees (init_world n u) ops1 = Ok w1 -> get_fn w1 f = Some g ->
  run callees w1 ops2 = Ok w2 ->
  (gens g <= 1)%nat
  /\ forall a, mcode g = Some a ->
       exists g', get_fn w2 f = Some g' /\ mcode g' = Some a /\ calladdr g' = Some a /\ gens g' = 1%nat.
Proof.
  intros callees n u ops1 w1 f g ops2 w2 Hu H1 Hg H2.
  destruct (run_ok callees ops1 _ _ (init_Inv n u Hu) H1) as [HI1 _].
  split; [exact (gens_le_1 w1 f g HI1 Hg)|].
  intros a Ha. exact (mcode_stable callees ops2 w1 w2 f g a HI1 H2 Hg Ha).
Qed.
Print Assumptions code_generated_at_most_once.

(* bb thunks (_MIR_replace_bb_thunk) cast the displacement to int32 without a range check:
   correct within +-2 GiB, wrong beyond (a requirement on the code allocator, not reachable with
   the default allocator's neighbouring pages). *)
Theorem replace_bb_thunk_decodes_partial : forall old thunk to,
  (5 <= length old)%nat -> 0 <= to < 2 ^ 64 ->
  - 2 ^ 31 <= to - (thunk + 5) <= 2 ^ 31 - 1 ->
  jump_target thunk (replace_bb_thunk_bytes old thunk to) = Some to.
Proof. exact ThunkBytesProofs.replace_bb_thunk_decodes_partial. Qed.
Print Assumptions replace_bb_thunk_decodes_partial.

Theorem replace_bb_thunk_far_refuted :
  exists old thunk to, (5 <= length old)%nat /\ 0 <= to < 2 ^ 64 /\
    jump_target thunk (replace_bb_thunk_bytes old thunk to) <> Some to.
Proof. exact ThunkBytesProofs.replace_bb_thunk_far_refuted. Qed.
Print Assumptions replace_bb_thunk_far_refuted.

(* A fresh bb thunk (_MIR_get_bb_thunk) hands the bb version to the handler in r10 and jumps to the
   handler -- again only within +-2 GiB of the thunk: the displacement is cast to int32 unchecked. *)
Theorem bb_thunk_decodes_partial : forall thunk bbv handler,
  0 <= bbv < 2 ^ 64 -> 0 <= handler < 2 ^ 64 ->
  - 2 ^ 31 <= handler - (thunk + 15) <= 2 ^ 31 - 1 ->
  bb_thunk_exec thunk (get_bb_thunk_bytes thunk bbv handler) = Some (bbv, handler).
Proof. exact ThunkBytesProofs.bb_thunk_decodes_partial. Qed.
Print Assumptions bb_thunk_decodes_partial.

Theorem bb_thunk_far_refuted :
  exists thunk bbv handler, 0 <= bbv < 2 ^ 64 /\ 0 <= handler < 2 ^ 64 /\
    bb_thunk_exec thunk (get_bb_thunk_bytes thunk bbv handler) <> Some (bbv, handler).
Proof. exact ThunkBytesProofs.bb_thunk_far_refuted. Qed.
Print Assumptions bb_thunk_far_refuted.

(* ---- where arguments travel at a call through a public address (round 3) ----
   For every parameter list the engines accept -- any number of integer, floating point, long double and
   by-value block parameters of every class in any order -- the interpreter's C-call interface (the va_list walk
   of interp () with va_block_arg_builtin over the shim's register save area) fetches every eightbyte of every
   argument from the register / stack slot where the interpreter calling out (_MIR_get_ff_call) puts it ... *)
Theorem shim_fetches_where_ff_call_passes : forall ps,
  wf_params ps = true -> va_walk ps = ff_walk ps.
Proof. exact va_walk_eq_ff_walk. Qed.
Print Assumptions shim_fetches_where_ff_call_passes.

(* ... and generated code (machinize_call for calls, target_machinize for the callee's prologue) uses the same
   slots, although it counts registers differently (its counters run past the register files). *)
Theorem gen_passes_where_ff_call_passes : forall ps,
  wf_params ps = true -> gen_walk ps = ff_walk ps.
Proof. exact gen_walk_eq_ff_walk. Qed.
Print Assumptions gen_passes_where_ff_call_passes.

(* So whichever engine runs the caller and whichever runs the callee, they agree on where each argument is. *)
Theorem engines_agree_on_argument_locations : forall ps,
  wf_params ps = true ->
  va_walk ps = ff_walk ps /\ gen_walk ps = ff_walk ps /\ va_walk ps = gen_walk ps.
Proof. exact all_walks_agree. Qed.
Print Assumptions engines_agree_on_argument_locations.

(* The bounds of wf_params (asserted in the C code) are needed. *)
Theorem argument_locations_oversize_block_refuted :
  exists ps, wf_params ps = false /\ va_walk ps <> ff_walk ps.
Proof. exact oversize_block_refuted. Qed.
Print Assumptions argument_locations_oversize_block_refuted.

(* Round 3 (wave z).  Patching published machine code (coq/C03/CodePatch.v): the mem_protect request of
   _MIR_change_code -- the primitive under _MIR_redirect_thunk, _MIR_replace_bb_thunk, the call-site rewriting of
   change_calls / target_change_to_direct_calls and the branch patching of lazy-BB code -- starts at a page boundary and
   makes exactly the pages writable that the patched bytes touch, wherever in a page they begin and also when they
   straddle a page boundary. *)
Theorem change_code_request_exact : forall page addr n, 0 < page ->
  fst (change_code_region page addr n) mod page = 0
  /\ protected page (change_code_region page addr n) = (page_down page addr, page_up page (addr + n)).
Proof. exact change_code_exact. Qed.
Print Assumptions change_code_request_exact.

Theorem change_code_patch_writable : forall page addr n, 0 < page -> 0 <= n ->
  writable page (change_code_region page addr n) addr n.
Proof. exact change_code_covers. Qed.
Print Assumptions change_code_patch_writable.

(* ... and of _MIR_update_code_arr: every relocated word is writable, however far from the base the last one lies *)
Theorem update_code_words_writable : forall page base offs off, 0 < page -> In off offs -> 0 <= off ->
  writable page (update_code_region page base offs) (base + off) 8.
Proof. exact update_code_covers. Qed.
Print Assumptions update_code_words_writable.

(* asking for the length of the patch from the page start is not enough *)
Theorem change_code_short_request_refuted : exists page addr n,
  0 < page /\ 0 < n /\ ~ writable page (page_down page addr, n) addr n.
Proof. exact short_request_refuted. Qed.
Print Assumptions change_code_short_request_refuted.

(* a 6-byte call site that begins 3 bytes before a page boundary: two pages *)
Example ex_straddling_patch :
  change_code_region 4096 0x7f0000000ffd 6 = (0x7f0000000000, 4099)
  /\ protected 4096 (change_code_region 4096 0x7f0000000ffd 6) = (0x7f0000000000, 0x7f0000002000)
  /\ protected 4096 (change_code_region 4096 0x7f0000000ffa 6) = (0x7f0000000000, 0x7f0000001000)
  /\ update_code_region 4096 0x7f0000000010 (8 :: 0x2ff8 :: 0x100 :: nil) = (0x7f0000000000, 0x3010).
Proof. vm_compute. repeat split. Qed.

(* ---- non-vacuity: concrete histories the hypotheses are met by ---- *)
Import ListNotations.
Definition ex_callees (f : nat) : list nat := match f with 0%nat => [1%nat] | _ => [] end.
Definition ex_hist : list op :=
  [OLoad 0 0x7f0000001000; OLoad 1 0x7f0000001010;
   OSetLazy 1 0x7f0000002000; OSetLazy 0 0x7f0000002030;
   OCall 0 [0x7f0000003000; 0x7f0000003400];      (* f0's first call generates f0 then f1 *)
   OSetGen 0 0x7f0000009000;                      (* MIR_gen again: early return, same code *)
   OCall 1 []].
Example ex_hist_runs :
  match run ex_callees (init_world 2 0x555555550000) ex_hist with
  | Ok w => current_impl w 0 = Some (KCode 0) /\ current_impl w 1 = Some (KCode 1)
            /\ option_map gens (get_fn w 0) = Some 1%nat
            /\ option_map mcode (get_fn w 0) = Some (Some 0x7f0000003000)
  | Stuck _ => False
  end.
Proof. vm_compute. repeat split. Qed.

(* far target: the long form is used and still decodes *)
Example ex_far :
  redirect_short_p 0x7f0000001000 0x10000 = false
  /\ jump_target 0x7f0000001000 (redirect_bytes 0x7f0000001000 0x10000) = Some 0x10000
  /\ redirect_short_p 0x1000 (0x1000 + 5 + (2 ^ 31 - 1)) = true
  /\ redirect_short_p 0x1000 (0x1000 + 5 + 2 ^ 31) = false
  /\ redirect_short_p (2 ^ 32) (2 ^ 32 + 5 - 2 ^ 31) = true
  /\ redirect_short_p (2 ^ 32) (2 ^ 32 + 5 - 2 ^ 31 - 1) = false.
Proof. vm_compute. repeat split. Qed.

(* an unlinked function does lead to undefined_interface: the guard in
   call_never_undefined_after_link is needed *)
Example ex_unlinked_stuck :
  step ex_callees
       (match run ex_callees (init_world 2 0x555555550000) [OLoad 1 0x7f0000001010] with
        | Ok w => w | Stuck _ => init_world 0 0 end)
       (OCall 1 []) = Stuck SUndefined.
Proof. vm_compute. reflexivity. Qed.

(* the register-file boundary of the SSE class: after seven floating point parameters a 16-byte SSE block goes to
   the stack and the next floating point parameter still gets xmm7; after six it takes xmm6 and xmm7 *)
Example ex_sse_block_boundary :
  wf_params [PFp; PFp; PFp; PFp; PFp; PFp; PFp; PBlk 2 16; PFp] = true
  /\ va_walk [PFp; PFp; PFp; PFp; PFp; PFp; PFp; PBlk 2 16; PFp]
     = [[RFp 0]; [RFp 1]; [RFp 2]; [RFp 3]; [RFp 4]; [RFp 5]; [RFp 6]; [Stk 0; Stk 8]; [RFp 7]]
  /\ gen_walk [PFp; PFp; PFp; PFp; PFp; PFp; PBlk 2 16; PFp]
     = [[RFp 0]; [RFp 1]; [RFp 2]; [RFp 3]; [RFp 4]; [RFp 5]; [RFp 6; RFp 7]; [Stk 0]]
  /\ ff_walk [PInt; PInt; PInt; PInt; PInt; PBlk 3 12; PLd; PBlk 1 9; PInt; PBlk 0 17]
     = [[RInt 0]; [RInt 1]; [RInt 2]; [RInt 3]; [RInt 4]; [RInt 5; RFp 0]; [Stk 0; Stk 8]; [Stk 16; Stk 24];
        [Stk 32]; [Stk 40; Stk 48; Stk 56]].
Proof. vm_compute. repeat split. Qed.

(* Round 3 (wave 7).  Functions with several results (coq/C03/ResPass.v): the register each result is put into by the
   interpreter's C-call shim (_MIR_get_interp_shim), fetched from by the interpreter's call stub (_MIR_get_ff_call) and
   used by generated code (machinize_call / ret): the shim and generated code agree for EVERY list of result types,
   and whatever list the call stub accepts (it has no fall-through to the integer registers) all three place alike ... *)
Theorem result_walkers_agree : forall ts,
  res_shim_walk ts = res_gen_walk ts /\
  (forall ls, res_ff_walk ts = Some ls -> res_shim_walk ts = Some ls /\ res_gen_walk ts = Some ls).
Proof. exact result_agreement. Qed.
Print Assumptions result_walkers_agree.

(* ... and for every list with at most two results per register class it is the k-th return register of the result's
   class (rax, rdx / xmm0, xmm1 / st0, st1), k = the number of EARLIER results of that class -- what a C caller reading
   the structure expects; never the result's position in the list. *)
Theorem result_walkers_meet_sysv : forall ts, res_plain ts = true ->
  res_shim_walk ts = Some (res_spec ts) /\ res_ff_walk ts = Some (res_spec ts) /\ res_gen_walk ts = Some (res_spec ts).
Proof. exact walkers_meet_spec. Qed.
Print Assumptions result_walkers_meet_sysv.

(* RowCheck: executable, *verified* recognisers that decide whether a regenerated table row (a
   CExpr statement) implements the documented class of its opcode.  Definitions only; soundness
   ("recogniser says true -> for ALL operand values the row agrees with DocSpec on the defined
   bits") is proved in RowProofs.v.  A wrong operator / width / signedness / cast in a row makes the
   recogniser return false, so `forallb row_ok table = true` (Properties_C02/C20) stops compiling. *)
From Coq Require Import ZArith List Bool String.
From MirV Require Import Mir.DocSpec Mir.CExpr.
Import ListNotations.
Local Open Scope Z_scope.

(* operand numbering of rows: EVar n = instruction operand n (0 = result / label) *)
Definition env_of (args : list Z) : list Z := 0 :: args.
(* pseudo operands holding the overflow flags for BO/BNO/UBO/UBNO rows *)
Definition flag_s : nat := 8.
Definition flag_u : nat := 9.
Definition flag_env (sf uf : bool) : list Z := [0; 0; 0; 0; 0; 0; 0; 0; b2z sf; b2z uf].

(* ---- cast chains over an operand: (operand, types outermost first) *)
Fixpoint chain_of (e : cexpr) : option (nat * list cty) :=
  match e with
  | EVar k t => if is_int t then Some (k, [t]) else None
  | ECast t e1 => if is_int t then
                    match chain_of e1 with Some (k, ts) => Some (k, t :: ts) | None => None end
                  else None
  | _ => None
  end.

Fixpoint chain_val (ts : list cty) (p : Z) : Z :=
  match ts with [] => p | t :: r => wrap_ty t (chain_val r p) end.

(* the single type te with chain_val ts p = wrap_ty te p, when the chain only narrows, keeps the
   width, or widens in a value-preserving way *)
Fixpoint eff (ts : list cty) : option cty :=
  match ts with
  | [] => None
  | t :: r =>
      match r with
      | [] => Some t
      | _ => match eff r with
             | Some te => if ty_bits t <=? ty_bits te then Some t
                          else if negb (ty_signed te) || ty_signed t then Some te else None
             | None => None
             end
      end
  end.

(* drop outer 64-bit conversions (they do not change the 64-bit pattern) *)
Fixpoint strip_outer64 (ts : list cty) : list cty :=
  match ts with
  | t :: r => match r with
              | [] => ts
              | _ => if ty_bits t =? 64 then strip_outer64 r else ts
              end
  | [] => []
  end.

(* an operand leaf of an arithmetic expression: (operand, C type = effective type) *)
Definition leaf (e : cexpr) : option (nat * cty) :=
  match chain_of e with
  | Some (k, ts) =>
      match eff ts, ts with
      | Some te, t :: _ => if cty_eqb te t then Some (k, t) else None
      | _, _ => None
      end
  | None => None
  end.

Definition wty (t : cty) : option width :=
  match t with CI32 | CU32 => Some W32 | CI64 | CU64 => Some W64 | _ => None end.

Definition width_eqb (a b : width) : bool :=
  match a, b with W32, W32 | W64, W64 => true | _, _ => false end.

Definition has_width (w : width) (t : cty) : bool :=
  match wty t with Some w' => width_eqb w w' | None => false end.

Definition dst64 (t : cty) : bool := match t with CI64 | CU64 => true | _ => false end.

Definition icmp_eqb (a b : icmp) : bool :=
  match a, b with
  | CEq, CEq | CNe, CNe | CLt, CLt | CLe, CLe | CGt, CGt | CGe, CGe => true
  | _, _ => false
  end.

Definition is_eqne (c : icmp) : bool := match c with CEq | CNe => true | _ => false end.

(* does C operator o on leaves of types t1, t2 implement integer class c ? *)
Definition bin_ok (c : iclass) (o : cbinop) (t1 t2 : cty) : bool :=
  match c with
  | IC_bin io w =>
      has_width w t1 &&
      match io, o with
      | IAdd, Oadd | ISub, Osub | IMul, Omul | IAnd, Oand | IOr, Oor | IXor, Oxor => cty_eqb t1 t2
      | IDiv, Odiv | IMod, Omod => cty_eqb t1 t2 && ty_signed t1
      | IUDiv, Odiv | IUMod, Omod => cty_eqb t1 t2 && negb (ty_signed t1)
      | ILsh, Oshl => has_width w t2
      | IRsh, Oshr => ty_signed t1 && has_width w t2
      | IURsh, Oshr => negb (ty_signed t1) && has_width w t2
      | _, _ => false
      end
  | IC_cmp c sg w =>
      has_width w t1 && cty_eqb t1 t2 &&
      match cmp_of o with
      | Some c' => icmp_eqb c c' && (is_eqne c || Bool.eqb sg (ty_signed t1))
      | None => false
      end
  | _ => false
  end.

Definition int_value_ok (c : iclass) (T : cty) (e : cexpr) : bool :=
  dst64 T &&
  match c with
  | IC_mov =>
      match chain_of e with
      | Some (1%nat, ts) =>
          match eff (strip_outer64 (T :: ts)) with
          | Some te => is_int te && (ty_bits te =? 64)
          | None => false
          end
      | _ => false
      end
  | IC_ext sg n =>
      match chain_of e with
      | Some (1%nat, ts) =>
          match eff (strip_outer64 (T :: ts)) with
          | Some te => match ty_int te with
                       | Some (sg', n') => Bool.eqb sg sg' && (n =? n')
                       | None => false
                       end
          | None => false
          end
      | _ => false
      end
  | IC_neg w =>
      match e with
      | EUn Uneg e1 => match leaf e1 with Some (1%nat, t) => has_width w t | _ => false end
      | _ => false
      end
  | IC_bin _ _ | IC_cmp _ _ _ =>
      match e with
      | EBin o e1 e2 =>
          match leaf e1, leaf e2 with
          | Some (1%nat, t1), Some (2%nat, t2) => bin_ok c o t1 t2
          | _, _ => false
          end
      | _ => false
      end
  | IC_none => false
  end.

(* ---- structural equality of expressions (for the rows accepted by exact form) *)
Definition cbinop_eqb (a b : cbinop) : bool :=
  match a, b with
  | Oadd, Oadd | Osub, Osub | Omul, Omul | Odiv, Odiv | Omod, Omod | Oand, Oand | Oor, Oor | Oxor, Oxor
  | Oshl, Oshl | Oshr, Oshr | Oeq, Oeq | One, One | Olt, Olt | Ole, Ole | Ogt, Ogt | Oge, Oge => true
  | _, _ => false
  end.
Definition cunop_eqb (a b : cunop) : bool :=
  match a, b with Uneg, Uneg | Ubnot, Ubnot | Ulnot, Ulnot => true | _, _ => false end.

Fixpoint cexpr_eqb (a b : cexpr) : bool :=
  match a, b with
  | EVar n t, EVar n' t' => Nat.eqb n n' && cty_eqb t t'
  | EConst z t, EConst z' t' => (z =? z') && cty_eqb t t'
  | ECast t e, ECast t' e' => cty_eqb t t' && cexpr_eqb e e'
  | EUn o e, EUn o' e' => cunop_eqb o o' && cexpr_eqb e e'
  | EBin o e1 e2, EBin o' e1' e2' => cbinop_eqb o o' && cexpr_eqb e1 e1' && cexpr_eqb e2 e2'
  | ECond c e1 e2, ECond c' e1' e2' => cexpr_eqb c c' && cexpr_eqb e1 e1' && cexpr_eqb e2 e2'
  | _, _ => false
  end.

Definition fty (p : fprec) : cty := match p with PF => CF | PD => CD end.

Definition cop_of_f (o : fbinop) : cbinop :=
  match o with FAdd => Oadd | FSub => Osub | FMul => Omul | FDiv => Odiv end.
Definition cop_of_cmp (c : icmp) : cbinop :=
  match c with CEq => Oeq | CNe => One | CLt => Olt | CLe => Ole | CGt => Ogt | CGe => Oge end.

(* float value rows: exact forms (register operands of float type have C type float/double) *)
Definition float_value_ok (c : fclass) (T : cty) (e : cexpr) : bool :=
  match c with
  | FC_mov p => cty_eqb T (fty p) && cexpr_eqb e (EVar 1 (fty p))
  | FC_neg p => cty_eqb T (fty p) && cexpr_eqb e (EUn Uneg (EVar 1 (fty p)))
  | FC_bin o p => cty_eqb T (fty p) && cexpr_eqb e (EBin (cop_of_f o) (EVar 1 (fty p)) (EVar 2 (fty p)))
  | FC_cmp c p => dst64 T && cexpr_eqb e (EBin (cop_of_cmp c) (EVar 1 (fty p)) (EVar 2 (fty p)))
  | FC_i2f sg p =>
      cty_eqb T (fty p) &&
      match e with
      | ECast t e1 => cty_eqb t (fty p) &&
                      match leaf e1 with
                      | Some (1%nat, ti) => has_width W64 ti && Bool.eqb sg (ty_signed ti)
                      | _ => false
                      end
      | _ => false
      end
  | FC_f2i p => dst64 T && (cexpr_eqb e (ECast CI64 (EVar 1 (fty p))))
  | FC_f2d => cty_eqb T CD && (cexpr_eqb e (EVar 1 CF) || cexpr_eqb e (ECast CD (EVar 1 CF)))
  | FC_d2f => cty_eqb T CF && (cexpr_eqb e (EVar 1 CD) || cexpr_eqb e (ECast CF (EVar 1 CD)))
  | FC_none => false
  end.

(* ---- branches *)
Definition int_branch_ok (c : ibranch) (e : cexpr) : bool :=
  match c with
  | IB_jmp => match e with EConst z t => is_int t && negb (wrap_ty t z =? 0) | _ => false end
  | IB_true w => match leaf e with Some (1%nat, t) => has_width w t | _ => false end
  | IB_false w => match e with
                  | EUn Ulnot e1 => match leaf e1 with Some (1%nat, t) => has_width w t | _ => false end
                  | _ => false
                  end
  | IB_cmp c sg w =>
      match e with
      | EBin o e1 e2 =>
          match leaf e1, leaf e2 with
          | Some (1%nat, t1), Some (2%nat, t2) => bin_ok (IC_cmp c sg w) o t1 t2
          | _, _ => false
          end
      | _ => false
      end
  | IB_none => false
  end.

Definition float_branch_ok (c : fbranch) (e : cexpr) : bool :=
  match c with
  | FB_cmp c p => cexpr_eqb e (EBin (cop_of_cmp c) (EVar 1 (fty p)) (EVar 2 (fty p)))
  | FB_none => false
  end.

Definition ovf_branch_ok (op : opcode) (e : cexpr) : bool :=
  match op with
  | BO => cexpr_eqb e (EVar flag_s CI32)
  | BNO => cexpr_eqb e (EUn Ulnot (EVar flag_s CI32))
  | UBO => cexpr_eqb e (EVar flag_u CI32)
  | UBNO => cexpr_eqb e (EUn Ulnot (EVar flag_u CI32))
  | _ => false
  end.

(* ---- memory rows *)
Definition cty_of_mir (t : mir_type) : cty :=
  match t with
  | T_I8 => CI8 | T_U8 => CU8 | T_I16 => CI16 | T_U16 => CU16 | T_I32 => CI32 | T_U32 => CU32
  | T_I64 => CI64 | T_U64 => CU64 | T_P => CU64 | T_F => CF | T_D => CD | T_LD => CLD
  end.

(* load of MIR type ty: value object vt, memory object mt *)
Definition load_ok (ty : mir_type) (vt mt : cty) : bool :=
  if type_is_int ty then
    dst64 vt && is_int mt && (ty_bits mt =? ty_bits (cty_of_mir ty))
    && (Bool.eqb (ty_signed mt) (type_signed ty) || (ty_bits mt =? 64))
  else cty_eqb vt (cty_of_mir ty) && cty_eqb mt (cty_of_mir ty).

(* store: memory object mt, stored expression a cast chain over operand 0 *)
Definition store_ok (ty : mir_type) (mt : cty) (e : cexpr) : bool :=
  if type_is_int ty then
    is_int mt && (ty_bits mt =? ty_bits (cty_of_mir ty)) &&
    match chain_of e with
    | Some (0%nat, ts) => match eff (mt :: ts) with Some te => cty_eqb te mt | None => false end
    | _ => false
    end
  else cty_eqb mt (cty_of_mir ty) &&
       (cexpr_eqb e (EVar 0 mt) || cexpr_eqb e (ECast mt (EVar 0 mt))
        || cexpr_eqb e (ECast mt (ECast mt (EVar 0 mt)))).

(* Overflow-instruction rows (ADDO SUBO MULO UMULO and S variants): result value. The flag formulas
   are treated in OvfFlags.v. *)
From Coq Require Import ZArith Lia Bool List String.
From MirV Require Import Mir.DocSpec Mir.CExpr C02.WFacts C02.RowCheck C02.RowProofs C02.IntRows.
Import ListNotations.
Local Open Scope Z_scope.

Definition ibin_of_ovf (o : ovfop) : ibinop :=
  match o with OAdd => IAdd | OSub => ISub | OMul | OUMul => IMul end.

(* leaves of the result expression of an accepted overflow row *)
Definition ovf_leaves (op : opcode) (T : cty) (e : cexpr) : option (ovfop * width * cbinop * cexpr * cexpr * cty * cty) :=
  match ovf_class op with
  | Some (o, w) =>
      if dst64 T then
        match e with
        | EBin bo e1 e2 =>
            match leaf e1, leaf e2 with
            | Some (1%nat, t1), Some (2%nat, t2) =>
                if bin_ok (IC_bin (ibin_of_ovf o) w) bo t1 t2 then Some (o, w, bo, e1, e2, t1, t2) else None
            | _, _ => None
            end
        | _ => None
        end
      else None
  | None => None
  end.

Definition ovf_value_ok (op : opcode) (T : cty) (e : cexpr) : bool :=
  match ovf_leaves op T e with Some _ => true | None => false end.

Lemma exact_op_ibin o w a b : ibin (ibin_of_ovf o) w a b = Some (uw w (exact_op o a b)).
Proof. destruct o; reflexivity. Qed.

Lemma ovf_value_sound op T e :
  ovf_value_ok op T e = true ->
  forall args r sf uf, doc_ovf op args = Some (r, sf, uf) ->
  exists r', stmt_value (env_of args) (SAssign T e) = Some r' /\
             match ovf_class op with Some (_, w) => eq_low w r' r | None => False end.
Proof.
  unfold ovf_value_ok, ovf_leaves. intros Hok args r sf uf Hd. unfold doc_ovf in Hd.
  destruct (ovf_class op) as [[o w]|]; [|discriminate].
  destruct (dst64 T) eqn:HT; [|discriminate].
  destruct e as [| | | |bo e1 e2|]; try discriminate.
  destruct (leaf e1) as [[[|[|k]] t1]|] eqn:L1; try discriminate.
  destruct (leaf e2) as [[[|[|[|k]]] t2]|] eqn:L2; try discriminate.
  destruct (bin_ok (IC_bin (ibin_of_ovf o) w) bo t1 t2) eqn:B; [|discriminate].
  destruct args as [|a [|b [|? ?]]]; try discriminate. unfold ovf in Hd. inversion Hd; subst. clear Hd.
  assert (H1 : has_width w t1 = true) by (cbn [bin_ok] in B; apply andb_prop in B; tauto).
  assert (t2 = t1).
  { cbn [bin_ok] in B. apply andb_prop in B. destruct B as [_ B].
    destruct o, bo; cbn in B; try discriminate; destruct t1, t2; cbn in B; congruence. }
  subst t2.
  cbn [stmt_value ceval].
  rewrite (leaf_wt e1 1%nat t1 w (env_of [a; b]) a L1 H1 eq_refl).
  rewrite (leaf_wt e2 2%nat t1 w (env_of [a; b]) b L2 H1 eq_refl).
  rewrite (wty_wt t1 w H1) in B.
  destruct (bin_core (IC_bin (ibin_of_ovf o) w) bo _ _ w a b _ B (conj eq_refl (exact_op_ibin o w a b)))
    as (v & t & Hb & Hi & Hl).
  rewrite Hb. rewrite assign_dst64 by assumption. eexists. split; [reflexivity | exact Hl].
Qed.

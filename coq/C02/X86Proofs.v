(* Soundness of the pattern-row recognisers of X86Check.v: an accepted row of mir-gen-x86_64.c's
   patterns[] computes the documented result (DocSpecInt) for ALL operand values, register assignments
   and memory contents, and changes nothing else. *)
From Coq Require Import ZArith Lia Bool List String.
From MirV Require Import Base.W64 Mir.Opcode Mir.DocSpecInt C02.WFacts C02.X86Sem C02.X86Check C02.X86Facts.
Import ListNotations.
Local Open Scope Z_scope.

Arguments uwrap : simpl never.
Arguments swrap : simpl never.
Arguments Z.pow : simpl never.
Arguments Z.mul : simpl never.
Arguments Z.add : simpl never.
Arguments Z.sub : simpl never.
Arguments Z.opp : simpl never.
Arguments Z.div : simpl never.
Arguments Z.modulo : simpl never.
Arguments Z.quot : simpl never.
Arguments Z.rem : simpl never.
Arguments Z.land : simpl never.
Arguments Z.lor : simpl never.
Arguments Z.lxor : simpl never.
Arguments Z.eqb : simpl never.
Arguments Z.ltb : simpl never.
Arguments Z.leb : simpl never.
Arguments Z.min : simpl never.

Lemma wbits_pos' w : 0 < wbits w <= 64. Proof. destruct w; cbn; lia. Qed.

(* reading operand 0 (a destination that is also an input) *)
Lemma dst_readable ops st w p o0 rest :
  ops = o0 :: rest -> pel_match [] p o0 = true -> dst_ok w p = true ->
  rd_loc ops st w (LOp 0) = Some (uwrap (obits w) (mir_val st o0))
  /\ (forall s k, o0 = OMem s k -> mem_bits k = obits w).
Proof.
  intros -> Hm Hd. destruct p as [|hn| | | | |psg pk| | |]; try discriminate;
    destruct o0 as [r|s k| |]; cbn [pel_match] in Hm; try discriminate.
  - split; [apply rd_loc_reg; reflexivity | intros; discriminate].
  - split; [apply rd_loc_reg; reflexivity | intros; discriminate].
  - apply andb_prop in Hm. destruct Hm as [Hm _]. apply andb_prop in Hm. destruct Hm as [Hk Hl].
    apply Nat.eqb_eq in Hk. subst pk. apply Nat.leb_le in Hl.
    cbn [dst_ok] in Hd. apply andb_prop in Hd. destruct Hd as [Hw _]. apply Z.eqb_eq in Hw.
    split; [apply rd_loc_mem; [reflexivity | assumption | lia] | intros s' k' E; inversion E; subst; lia].
Qed.

Lemma xrun1 ops st i st1 : xexec ops st i = Some (st1, None) -> xrun ops st [i] = Some (st1, None).
Proof. intros H. cbn [xrun]. rewrite H. reflexivity. Qed.

(* ------------------------------------------------------------------ two-operand ALU rows *)
Lemma alu_row_exec o w pat insns ops st :
  alu_row_ok o w pat insns = true -> pat_match [] pat ops = true -> alu_writes o = true ->
  exists o0 o1 o2, ops = [o0; o1; o2] /\ (forall st, mir_val st o1 = mir_val st o0) /\
  (forall s k, opnd ops 0 = OMem s k -> mem_bits k = wbits w) /\
  let a := uw w (mir_val st o0) in let b := uw w (mir_val st o2) in
  exists st', xrun ops st insns = Some (st', None) /\ value_at ops st' (wbits w) (alu_res o (wsz w) a b)
     /\ frame ops st st' [] /\ fCF st' = alu_cf o (wsz w) a b /\ fOF st' = alu_of o (wsz w) a b.
Proof.
  intros Hok Hpm Hwr. unfold alu_row_ok in Hok.
  destruct pat as [|d pat]; [discriminate|]. destruct pat as [|p1 pat]; [discriminate|].
  destruct p1 as [ | | | | | | | |n| ]; try discriminate. destruct n; [|discriminate].
  destruct pat as [|s pat]; [discriminate|]. destruct pat; [|discriminate].
  destruct insns as [|i0 insns]; [discriminate|].
  destruct i0 as [o' w' l0 src| | | | | | | | | | | | | | |]; try discriminate.
  destruct l0 as [k0]. destruct k0; [|discriminate]. destruct insns; [|discriminate].
  repeat (apply andb_prop in Hok; let H := fresh "Hok" in destruct Hok as [Hok H]).
  assert (o' = o) by (destruct o, o'; cbn in Hok; congruence). subst o'.
  apply osz_eqb_eq in Hok3. subst w'.
  destruct (pat_match3 _ _ _ _ Hpm) as (o0 & o1 & o2 & -> & M0 & M1 & M2).
  destruct (same0 _ _ _ M1) as [Hsame _].
  exists o0, o1, o2. split; [reflexivity|]. split; [exact Hsame|].
  destruct (dst_readable [o0; o1; o2] st (wsz w) d o0 [o1; o2] eq_refl M0 Hok2) as [Hrd Hmemk].
  split. { intros s0 k E. cbn in E. rewrite (Hmemk s0 k E). apply wsz_bits. }
  cbn zeta.
  pose proof (rd_src_ok [o0; o1; o2] st (wsz w) s 2 src [o0; o1] o2 eq_refl M2 Hok1) as Hrs.
  rewrite wsz_bits in Hrd, Hrs.
  set (a := uw w (mir_val st o0)). set (b := uw w (mir_val st o2)).
  set (r := alu_res o (wsz w) a b).
  set (st1 := set_flags st (alu_cf o (wsz w) a b) (r =? 0) (msb (wsz w) r) (alu_of o (wsz w) a b)).
  destruct (store_op0 [o0; o1; o2] st st1 (wsz w) d o0 [o1; o2] r eq_refl M0 Hok2) as (st' & Hw & Hv & Hf & Hfl).
  { split; [intros; reflexivity | reflexivity]. }
  exists st'. split.
  - apply xrun1. cbn [xexec]. rewrite Hrd, Hrs.
    change (uwrap (wbits w) (mir_val st o0)) with a. change (uwrap (wbits w) (mir_val st o2)) with b.
    fold r. fold st1. rewrite Hwr, Hw. reflexivity.
  - rewrite wsz_bits in Hv. split; [exact Hv|]. split; [exact Hf|].
    destruct Hfl as (F1 & _ & _ & F4). split; [rewrite F1 | rewrite F4]; reflexivity.
Qed.

Lemma uw_idem w z : uwrap (wbits w) (uw w z) = uw w z.
Proof. unfold uw. apply uwrap_idem. pose proof (wbits_pos' w). lia. Qed.

(* the ALU result is the documented one *)
Lemma alu_doc io o w v1 v2 d :
  aluop_of io = Some o -> ibin io w v1 v2 = Some d ->
  uwrap (wbits w) (alu_res o (wsz w) (uw w v1) (uw w v2)) = uwrap (wbits w) d.
Proof.
  intros Ho Hd. pose proof (wbits_pos' w) as Hw.
  destruct io; cbn in Ho; inversion Ho; subst o; cbn [ibin] in Hd; inversion Hd; subst d; cbn [alu_res]; rewrite ?wsz_bits.
  - unfold uw. rewrite !uwrap_idem by lia. apply eqm_add; [lia | apply eqm_uwrap; lia | apply eqm_uwrap; lia].
  - unfold uw. rewrite !uwrap_idem by lia. apply eqm_sub; [lia | apply eqm_uwrap; lia | apply eqm_uwrap; lia].
  - reflexivity.
  - reflexivity.
  - reflexivity.
Qed.

Lemma alu_value_sound io o w pat insns ops st d :
  aluop_of io = Some o -> alu_row_ok o w pat insns = true -> pat_match [] pat ops = true ->
  ibin io w (nth 0 (args_of st ops) 0) (nth 1 (args_of st ops) 0) = Some d ->
  exists st', xrun ops st insns = Some (st', None) /\ value_at ops st' (wbits w) d /\ frame ops st st' [].
Proof.
  intros Ho Hok Hpm Hd.
  assert (Hwr : alu_writes o = true) by (destruct io; cbn in Ho; inversion Ho; reflexivity).
  destruct (alu_row_exec o w pat insns ops st Hok Hpm Hwr) as (o0 & o1 & o2 & -> & Hs & Hmk & st' & Hrun & Hv & Hf & _).
  exists st'. split; [exact Hrun|]. split; [|exact Hf].
  cbn [args_of tl map nth] in Hd. rewrite Hs in Hd.
  eapply value_at_congr; [exact Hv | eapply alu_doc; eassumption |].
  intros s k E. rewrite (Hmk s k E). pose proof (wbits_pos' w). lia.
Qed.

(* flags of add / sub are the documented overflow flags *)
Lemma add_flags w v1 v2 :
  alu_cf AAdd (wsz w) (uw w v1) (uw w v2) = negb (fits_u w (uw w v1 + uw w v2))
  /\ alu_of AAdd (wsz w) (uw w v1) (uw w v2) = negb (fits_s w (sw w v1 + sw w v2)).
Proof.
  pose proof (wbits_pos' w) as Hw. cbn [alu_cf alu_of]. rewrite wsz_bits. split.
  - unfold fits_u, umax. pose proof (uw_bound' := uwrap_bound (wbits w) v1 ltac:(lia)).
    pose proof (uwrap_bound (wbits w) v2 ltac:(lia)). unfold uw.
    destruct (Z.leb_spec (2 ^ wbits w) (uwrap (wbits w) v1 + uwrap (wbits w) v2)),
      (Z.leb_spec 0 (uwrap (wbits w) v1 + uwrap (wbits w) v2)),
      (Z.leb_spec (uwrap (wbits w) v1 + uwrap (wbits w) v2) (2 ^ wbits w - 1)); cbn; try reflexivity; lia.
  - f_equal. unfold sval. rewrite ?wsz_bits. unfold fits_s, smin, smax.
    assert (E : swrap (wbits w) (uw w v1 + uw w v2) = swrap (wbits w) (sw w v1 + sw w v2)).
    { apply eqm_swrap_eq; [lia|]. unfold uw, sw. apply eqm_add; [lia | |];
        (eapply eqm_trans; [apply eqm_uwrap; lia | apply eqm_sym; apply eqm_swrap; lia]). }
    assert (E1 : swrap (wbits w) (uw w v1) = sw w v1) by (unfold uw, sw; apply swrap_uwrap; lia).
    assert (E2 : swrap (wbits w) (uw w v2) = sw w v2) by (unfold uw, sw; apply swrap_uwrap; lia).
    rewrite E, E1, E2. apply swrap_fix. lia.
Qed.

Lemma sub_flags w v1 v2 :
  alu_cf ASub (wsz w) (uw w v1) (uw w v2) = negb (fits_u w (uw w v1 - uw w v2))
  /\ alu_of ASub (wsz w) (uw w v1) (uw w v2) = negb (fits_s w (sw w v1 - sw w v2)).
Proof.
  pose proof (wbits_pos' w) as Hw. cbn [alu_cf alu_of]. rewrite ?wsz_bits. split.
  - unfold fits_u, umax. pose proof (uwrap_bound (wbits w) v1 ltac:(lia)).
    pose proof (uwrap_bound (wbits w) v2 ltac:(lia)). unfold uw.
    destruct (Z.ltb_spec (uwrap (wbits w) v1) (uwrap (wbits w) v2)),
      (Z.leb_spec 0 (uwrap (wbits w) v1 - uwrap (wbits w) v2)),
      (Z.leb_spec (uwrap (wbits w) v1 - uwrap (wbits w) v2) (2 ^ wbits w - 1)); cbn; try reflexivity; lia.
  - f_equal. unfold sval. rewrite ?wsz_bits. unfold fits_s, smin, smax.
    assert (E : swrap (wbits w) (uw w v1 - uw w v2) = swrap (wbits w) (sw w v1 - sw w v2)).
    { apply eqm_swrap_eq; [lia|]. unfold uw, sw. apply eqm_sub; [lia | |];
        (eapply eqm_trans; [apply eqm_uwrap; lia | apply eqm_sym; apply eqm_swrap; lia]). }
    assert (E1 : swrap (wbits w) (uw w v1) = sw w v1) by (unfold uw, sw; apply swrap_uwrap; lia).
    assert (E2 : swrap (wbits w) (uw w v2) = sw w v2) by (unfold uw, sw; apply swrap_uwrap; lia).
    rewrite E, E1, E2. apply swrap_fix. lia.
Qed.

Lemma alu_ovf_sound (o : ovfop) w pat insns ops st d sf uf :
  (o = OAdd \/ o = OSub) ->
  alu_row_ok (match o with OAdd => AAdd | _ => ASub end) w pat insns = true -> pat_match [] pat ops = true ->
  ovf o w (nth 0 (args_of st ops) 0) (nth 1 (args_of st ops) 0) = (d, sf, uf) ->
  exists st', xrun ops st insns = Some (st', None) /\ value_at ops st' (wbits w) d /\ frame ops st st' []
     /\ fOF st' = sf /\ fCF st' = uf.
Proof.
  intros Ho Hok Hpm Hd.
  set (ao := match o with OAdd => AAdd | _ => ASub end) in *.
  assert (Hwr : alu_writes ao = true) by (destruct Ho; subst o; reflexivity).
  destruct (alu_row_exec ao w pat insns ops st Hok Hpm Hwr) as (o0 & o1 & o2 & -> & Hs & Hmk & st' & Hrun & Hv & Hf & Hcf & Hof).
  exists st'. split; [exact Hrun|].
  cbn [args_of tl map nth] in Hd. rewrite Hs in Hd. unfold ovf in Hd. inversion Hd; subst d sf uf. clear Hd.
  split; [|split; [exact Hf|]].
  - eapply value_at_congr; [exact Hv | |].
    + destruct Ho; subst o; unfold ao; cbn [exact_op].
      * apply (alu_doc IAdd AAdd w _ _ _ eq_refl). reflexivity.
      * apply (alu_doc ISub ASub w _ _ _ eq_refl). reflexivity.
    + intros s k E. rewrite (Hmk s k E). pose proof (wbits_pos' w). lia.
  - destruct Ho; subst o; unfold ao in *; cbn [exact_op] in *.
    + destruct (add_flags w (mir_val st o0) (mir_val st o2)) as [C O]. rewrite Hof, Hcf, C, O. split; reflexivity.
    + destruct (sub_flags w (mir_val st o0) (mir_val st o2)) as [C O]. rewrite Hof, Hcf, C, O. split; reflexivity.
Qed.

(* ------------------------------------------------------------------ compare, setcc, jcc *)
Lemma msb_neg w r : msb w r = (swrap (obits w) r <? 0).
Proof.
  unfold msb. assert (Hn : 0 < obits w) by (destruct w; cbn; lia).
  pose proof (uwrap_bound (obits w) r ltac:(lia)). pose proof (pow2_half (obits w) Hn).
  destruct (swrap_cases (obits w) r Hn) as [[E L]|[E L]]; rewrite E;
    destruct (Z.leb_spec (2 ^ (obits w - 1)) (uwrap (obits w) r)), (Z.ltb_spec (uwrap (obits w) r) 0);
    destruct (Z.ltb_spec (uwrap (obits w) r - 2 ^ obits w) 0); try reflexivity; lia.
Qed.

Lemma cmp_flags st w a b c sg :
  0 <= a < 2 ^ obits w -> 0 <= b < 2 ^ obits w ->
  let r := alu_res ACmp w a b in
  cc_holds (set_flags st (alu_cf ACmp w a b) (r =? 0) (msb w r) (alu_of ACmp w a b))
           (cc_for c (sg || match c with CEq | CNe => true | _ => false end))
  = cmpZ c (if sg then swrap (obits w) a else a) (if sg then swrap (obits w) b else b).
Proof.
  intros Ha Hb r. set (n := obits w). assert (Hn : 0 < n) by (unfold n; destruct w; cbn; lia).
  pose proof (pow2_half n Hn) as Hh.
  set (sa := swrap n a). set (sb := swrap n b).
  assert (Hsa : - 2 ^ (n - 1) <= sa < 2 ^ (n - 1)) by (apply swrap_bound; lia).
  assert (Hsb : - 2 ^ (n - 1) <= sb < 2 ^ (n - 1)) by (apply swrap_bound; lia).
  (* zero flag *)
  assert (Hz : (r =? 0) = (a =? b)).
  { unfold r. cbn [alu_res]. fold n. destruct (Z.eqb_spec a b) as [->|Hne].
    - replace (b - b) with 0 by lia. reflexivity.
    - apply Z.eqb_neq. intros E. apply Hne.
      assert (uwrap n a = uwrap n b).
      { apply eqm_iff; [lia|]. unfold uwrap in E. apply Z.mod_divide in E; [|lia]. destruct E as [q E]. exists q. lia. }
      rewrite !uwrap_small in H by (fold n in Ha, Hb; lia). exact H. }
  (* sign xor overflow = signed less *)
  assert (Hlt : xorb (msb w r) (alu_of ACmp w a b) = (sa <? sb)).
  { rewrite msb_neg. cbn [alu_of]. unfold sval. fold n. unfold r. cbn [alu_res]. fold n.
    rewrite swrap_uwrap by lia.
    assert (E : swrap n (a - b) = swrap n (sa - sb)).
    { apply eqm_swrap_eq; [lia|]. apply eqm_sub; [lia | |]; apply eqm_sym; apply eqm_swrap; lia. }
    rewrite E. fold sa sb.
    set (D := sa - sb). assert (HD : - 2 ^ n < D < 2 ^ n) by (unfold D; lia).
    destruct (Z_lt_le_dec D (- 2 ^ (n - 1))) as [L1|L1].
    - assert (swrap n D = D + 2 ^ n).
      { apply swrap_id with (z := D + 2 ^ n) in Hn as Hid; [|unfold in_s; lia].
        rewrite <- Hid. apply eqm_swrap_eq; [lia|]. apply eqm_iff; [lia|]. exists (-1). lia. }
      rewrite H. destruct (Z.ltb_spec (D + 2 ^ n) 0), (Z.eqb_spec (D + 2 ^ n) D), (Z.ltb_spec sa sb); cbn; try reflexivity; lia.
    - destruct (Z_lt_le_dec D (2 ^ (n - 1))) as [L2|L2].
      + rewrite swrap_id by (try lia; unfold in_s; lia).
        rewrite Z.eqb_refl. cbn. destruct (Z.ltb_spec D 0), (Z.ltb_spec sa sb); try reflexivity; unfold D in *; lia.
      + assert (swrap n D = D - 2 ^ n).
        { apply swrap_id with (z := D - 2 ^ n) in Hn as Hid; [|unfold in_s; lia].
          rewrite <- Hid. apply eqm_swrap_eq; [lia|]. apply eqm_iff; [lia|]. exists 1. lia. }
        rewrite H. destruct (Z.ltb_spec (D - 2 ^ n) 0), (Z.eqb_spec (D - 2 ^ n) D), (Z.ltb_spec sa sb); cbn; try reflexivity; unfold D in *; lia. }
  assert (Heq : (sa =? sb) = (a =? b)).
  { destruct (Z.eqb_spec sa sb) as [E|E], (Z.eqb_spec a b) as [E'|E']; try reflexivity; exfalso.
    - apply E'. apply swrap_inj_uwrap in E; [|lia]. rewrite !uwrap_small in E by (fold n in Ha, Hb; lia). exact E.
    - apply E. subst. reflexivity. }
  assert (Hcf : alu_cf ACmp w a b = (a <? b)) by reflexivity.
  assert (Hiff : sa = sb <-> a = b) by (rewrite <- !Z.eqb_eq, Heq; tauto).
  destruct c, sg; cbn [cc_for orb cc_holds fCF fZF fSF fOF set_flags cmpZ]; fold sa sb; rewrite ?Hz, ?Hlt, ?Hcf, ?Heq;
    try reflexivity;
    repeat match goal with
           | |- context [Z.eqb ?x ?y] => destruct (Z.eqb_spec x y)
           | |- context [Z.ltb ?x ?y] => destruct (Z.ltb_spec x y)
           | |- context [Z.leb ?x ?y] => destruct (Z.leb_spec x y)
           end; cbn; try reflexivity; exfalso; lia.
Qed.

Lemma cmp_exec w' w a b src o0 o1 o2 st :
  cmp_pair_ok w' w a b src = true -> pel_match [o0] a o1 = true -> pel_match [o0; o1] b o2 = true ->
  let x := uw w (mir_val st o1) in let y := uw w (mir_val st o2) in
  let r := alu_res ACmp (wsz w) x y in
  xexec [o0; o1; o2] st (XAlu ACmp w' (LOp 1) src)
  = Some (set_flags st (alu_cf ACmp (wsz w) x y) (r =? 0) (msb (wsz w) r) (alu_of ACmp (wsz w) x y), None).
Proof.
  intros Hok M1 M2. unfold cmp_pair_ok in Hok.
  repeat (apply andb_prop in Hok; let H := fresh "Hok" in destruct Hok as [Hok H]).
  apply osz_eqb_eq in Hok. subst w'.
  pose proof (rd_src_ok [o0; o1; o2] st (wsz w) a 1 (XL (LOp 1)) [o0] o1 eq_refl M1 Hok2) as R1.
  pose proof (rd_src_ok [o0; o1; o2] st (wsz w) b 2 src [o0; o1] o2 eq_refl M2 Hok1) as R2.
  cbn [rd_src] in R1. rewrite wsz_bits in R1, R2. cbn zeta. cbn [xexec]. rewrite R1, R2. reflexivity.
Qed.

Lemma icompare_rd c (sg : bool) w v1 v2 :
  cmpZ c (if sg then swrap (obits (wsz w)) (uw w v1) else uw w v1) (if sg then swrap (obits (wsz w)) (uw w v2) else uw w v2)
  = icompare c sg w v1 v2.
Proof.
  unfold icompare. rewrite wsz_bits. destruct sg; [|reflexivity].
  unfold uw, sw. pose proof (wbits_pos' w). rewrite !swrap_uwrap by lia. reflexivity.
Qed.

Lemma cmp_value_sound c sg w pat insns ops st :
  cmp_row_ok c sg w pat insns = true -> pat_match [] pat ops = true ->
  exists st', xrun ops st insns = Some (st', None)
     /\ value_at ops st' 8 (b2z (icompare c sg w (nth 0 (args_of st ops) 0) (nth 1 (args_of st ops) 0)))
     /\ frame ops st st' [].
Proof.
  intros Hok Hpm. unfold cmp_row_ok in Hok.
  destruct pat as [|p0 pat]; [discriminate|]. destruct p0; try discriminate.
  destruct pat as [|a pat]; [discriminate|]. destruct pat as [|b pat]; [discriminate|]. destruct pat; [|discriminate].
  destruct insns as [|i0 insns]; [discriminate|].
  destruct i0 as [o' w' l0 src| | | | | | | | | | | | | | |]; try discriminate. destruct o'; try discriminate.
  destruct l0 as [k0]. destruct k0 as [|[|k0]]; try discriminate.
  destruct insns as [|i1 insns]; [discriminate|]. destruct i1 as [| | | | | | | | | | | | |cc0 dd| |]; try discriminate.
  destruct dd; [|discriminate]. destruct insns; [|discriminate].
  apply andb_prop in Hok. destruct Hok as [Hpair Hcc].
  assert (cc0 = cc_for c (sg || match c with CEq | CNe => true | _ => false end)).
  { revert Hcc. generalize (cc_for c (sg || match c with CEq | CNe => true | _ => false end)). intros x; destruct cc0, x; cbn; intros; try discriminate; reflexivity. }
  subst cc0.
  destruct (pat_match3 _ _ _ _ Hpm) as (o0 & o1 & o2 & -> & M0 & M1 & M2).
  destruct o0 as [r0| | |]; cbn in M0; try discriminate.
  pose proof (cmp_exec w' w a b src (OReg r0) o1 o2 st Hpair M1 M2) as Hex. cbn zeta in Hex.
  cbn [xrun]. rewrite Hex. cbn [xexec opnd nth].
  eexists. split; [reflexivity|].
  pose proof (wbits_pos' w) as Hw.
  assert (Hx : 0 <= uw w (mir_val st o1) < 2 ^ obits (wsz w)) by (rewrite wsz_bits; unfold uw; apply uwrap_bound; lia).
  assert (Hy : 0 <= uw w (mir_val st o2) < 2 ^ obits (wsz w)) by (rewrite wsz_bits; unfold uw; apply uwrap_bound; lia).
  rewrite (cmp_flags st (wsz w) _ _ c sg Hx Hy). rewrite icompare_rd.
  cbn [args_of tl map nth]. split.
  - unfold value_at. cbn [opnd nth regs set_reg set_flags]. rewrite Nat.eqb_refl.
    cbn [wr_reg_bits]. change 8 with (obits O8). apply merge_low.
  - unfold frame. cbn [opnd nth regs memc set_reg set_flags]. split; [|reflexivity].
    intros r Hne _. destruct (Nat.eqb_spec r r0); [subst; congruence | reflexivity].
Qed.

Lemma bcmp_sound c sg w pat insns ops st :
  bcmp_row_ok c sg w pat insns = true -> pat_match [] pat ops = true ->
  exists st', xrun ops st insns
              = Some (st', Some (icompare c sg w (nth 0 (args_of st ops) 0) (nth 1 (args_of st ops) 0)))
     /\ unchanged st st'.
Proof.
  intros Hok Hpm. unfold bcmp_row_ok in Hok.
  destruct pat as [|p0 pat]; [discriminate|]. destruct p0; try discriminate.
  destruct pat as [|a pat]; [discriminate|]. destruct pat as [|b pat]; [discriminate|]. destruct pat; [|discriminate].
  destruct insns as [|i0 insns]; [discriminate|].
  destruct i0 as [o' w' l0 src| | | | | | | | | | | | | | |]; try discriminate. destruct o'; try discriminate.
  destruct l0 as [k0]. destruct k0 as [|[|k0]]; try discriminate.
  destruct insns as [|i1 insns]; [discriminate|]. destruct i1 as [| | | | | | | | | | | | | |cc0|]; try discriminate.
  destruct insns; [|discriminate].
  apply andb_prop in Hok. destruct Hok as [Hpair Hcc].
  assert (cc0 = cc_for c (sg || match c with CEq | CNe => true | _ => false end)).
  { revert Hcc. generalize (cc_for c (sg || match c with CEq | CNe => true | _ => false end)). intros x; destruct cc0, x; cbn; intros; try discriminate; reflexivity. }
  subst cc0.
  destruct (pat_match3 _ _ _ _ Hpm) as (o0 & o1 & o2 & -> & M0 & M1 & M2).
  pose proof (cmp_exec w' w a b src o0 o1 o2 st Hpair M1 M2) as Hex. cbn zeta in Hex.
  pose proof (wbits_pos' w) as Hw.
  assert (Hx : 0 <= uw w (mir_val st o1) < 2 ^ obits (wsz w)) by (rewrite wsz_bits; unfold uw; apply uwrap_bound; lia).
  assert (Hy : 0 <= uw w (mir_val st o2) < 2 ^ obits (wsz w)) by (rewrite wsz_bits; unfold uw; apply uwrap_bound; lia).
  pose proof (cmp_flags st (wsz w) _ _ c sg Hx Hy) as Hfl. cbn zeta in Hfl. rewrite icompare_rd in Hfl.
  cbn [xrun]. rewrite Hex. cbn [xexec]. rewrite Hfl.
  eexists. split; [reflexivity|]. split; [intros; reflexivity | reflexivity].
Qed.

(* ------------------------------------------------------------------ bt / bf, bo .., jmp *)
Lemma cc_eqb_eq a b : cc_eqb a b = true -> a = b.
Proof. destruct a, b; cbn; intros; try discriminate; reflexivity. Qed.

(* zero test of a memory operand compared at min (memory width, operation width) bits *)
Lemma mem_zero_test w (s : bool) kk m : (kk <= 3)%nat ->
  (uwrap (Z.min (mem_bits kk) (wbits w)) m =? 0)
  = (uw w (if s then uwrap 64 (swrap (mem_bits kk) m) else uwrap (mem_bits kk) m) =? 0).
Proof.
  intros Hk. pose proof (mem_bits_cases kk Hk) as Hm. pose proof (wbits_pos' w) as Hw.
  set (n := mem_bits kk) in *. unfold uw.
  destruct (Z_le_gt_dec n (wbits w)) as [L|G].
  - rewrite Z.min_l by lia. destruct s.
    + rewrite uw_le by lia.
      pose proof (swrap_bound n m ltac:(lia)) as Hb. pose proof (uwrap_bound n m ltac:(lia)) as Hu.
      destruct (Z.eqb_spec (uwrap n m) 0) as [E|E].
      * assert (swrap n m = 0).
        { destruct (swrap_cases n m ltac:(lia)) as [[E1 _]|[E1 L1]]; [lia|].
          exfalso. rewrite E in L1. pose proof (pow2_pos (n - 1) ltac:(lia)). lia. }
        rewrite H. symmetry. apply Z.eqb_eq. apply uwrap_small. pose proof (pow2_pos (wbits w) ltac:(lia)). lia.
      * symmetry. apply Z.eqb_neq. intros Z0. apply E.
        assert (swrap n m = 0).
        { unfold uwrap in Z0. apply Z.mod_divide in Z0; [|pose proof (pow2_pos (wbits w) ltac:(lia)); lia].
          destruct Z0 as [q Hq]. assert (2 ^ (n - 1) < 2 ^ wbits w) by (apply Z.pow_lt_mono_r; lia).
          pose proof (pow2_pos (n - 1) ltac:(lia)).
          assert (q = 0) by (destruct (Z.eq_dec q 0) as [|Hq0]; [assumption|]; exfalso; assert (Hc : q <= -1 \/ 1 <= q) by lia; destruct Hc; nia).
          subst q. lia. }
        rewrite <- (uwrap_swrap n m) by lia. rewrite H. apply uwrap_small. pose proof (pow2_pos n ltac:(lia)). lia.
    + rewrite uwrap_id_wider by lia. reflexivity.
  - rewrite Z.min_r by lia. destruct s.
    + rewrite uw_le by lia. rewrite us_le by lia. reflexivity.
    + rewrite uw_le by lia. reflexivity.
Qed.

Ltac break_match H :=
  repeat match type of H with
         | (match ?x with _ => _ end) = true => destruct x; try discriminate H
         | (if ?x then _ else _) = true => destruct x eqn:?; try discriminate H
         end.

Lemma btf_sound (nz : bool) w pat insns ops st :
  btf_row_ok nz w pat insns = true -> pat_match [] pat ops = true ->
  exists st', xrun ops st insns
      = Some (st', Some (if nz then negb (uw w (nth 0 (args_of st ops) 0) =? 0) else (uw w (nth 0 (args_of st ops) 0) =? 0)))
     /\ unchanged st st'.
Proof.
  intros Hok Hpm. unfold btf_row_ok in Hok. pose proof (wbits_pos' w) as Hw.
  destruct pat as [|p0 pat]; [discriminate|]. destruct p0; try discriminate.
  destruct pat as [|a pat]; [discriminate|]. destruct pat; [|destruct a; discriminate].
  destruct (pat_match2 _ _ _ Hpm) as (o0 & o1 & -> & M0 & M1).
  cbn [args_of tl map nth].
  destruct a as [|hn| | | | |psg kk| | |];
    try solve [exfalso; break_match Hok; cbn in Hok; try discriminate Hok; repeat (apply andb_prop in Hok; destruct Hok as [Hok ?]); discriminate].
  - (* register: test r, r *)
    destruct insns as [|i0 insns]; [discriminate|]. destruct i0; try discriminate.
    destruct o; try discriminate. destruct d as [k0]. destruct k0 as [|[|k0]]; try discriminate.
    destruct s as [[[|[|k1]]]| |]; try discriminate.
    destruct insns as [|i1 insns]; [discriminate|]. destruct i1; try discriminate. destruct insns; [|discriminate].
    apply andb_prop in Hok. destruct Hok as [Hok Hcc]. apply andb_prop in Hok. destruct Hok as [_ Hwid].
    apply osz_eqb_eq in Hwid. subst w0. apply cc_eqb_eq in Hcc. subst c.
    destruct o1 as [r| | |]; cbn in M1; try discriminate.
    cbn [xrun xexec rd_loc rd_src opnd nth alu_writes]. unfold rd_bits. rewrite wsz_bits.
    set (x := uwrap (wbits w) (regs st r)).
    assert (Er : alu_res ATest (wsz w) x x = x) by (cbn [alu_res]; apply Z.land_diag).
    rewrite Er.
    eexists. split.
    { cbn [mir_val]. unfold uw. rewrite uw_le by lia. fold x.
      destruct nz; cbn [cc_holds fZF set_flags]; reflexivity. }
    split; [intros; reflexivity | reflexivity].
  - (* hard register *)
    destruct insns as [|i0 insns]; [discriminate|]. destruct i0; try discriminate.
    destruct o; try discriminate. destruct d as [k0]. destruct k0 as [|[|k0]]; try discriminate.
    destruct s as [[[|[|k1]]]| |]; try discriminate.
    destruct insns as [|i1 insns]; [discriminate|]. destruct i1; try discriminate. destruct insns; [|discriminate].
    apply andb_prop in Hok. destruct Hok as [Hok Hcc]. apply andb_prop in Hok. destruct Hok as [_ Hwid].
    apply osz_eqb_eq in Hwid. subst w0. apply cc_eqb_eq in Hcc. subst c.
    destruct o1 as [r| | |]; cbn in M1; try discriminate.
    cbn [xrun xexec rd_loc rd_src opnd nth alu_writes]. unfold rd_bits. rewrite wsz_bits.
    set (x := uwrap (wbits w) (regs st r)).
    assert (Er : alu_res ATest (wsz w) x x = x) by (cbn [alu_res]; apply Z.land_diag).
    rewrite Er.
    eexists. split.
    { cbn [mir_val]. unfold uw. rewrite uw_le by lia. fold x.
      destruct nz; cbn [cc_holds fZF set_flags]; reflexivity. }
    split; [intros; reflexivity | reflexivity].
  - (* memory: cmp m, 0 *)
    destruct insns as [|i0 insns]; [discriminate|]. destruct i0; try discriminate.
    destruct o; try discriminate.
    2: { exfalso; break_match Hok; cbn in Hok; discriminate Hok. }
    destruct d as [k0]. destruct k0 as [|[|k0]]; try discriminate.
    destruct s as [| |zz]; try discriminate. destruct zz; try discriminate.
    destruct insns as [|i1 insns]; [discriminate|]. destruct i1; try discriminate. destruct insns; [|discriminate].
    apply andb_prop in Hok. destruct Hok as [Hok Hcc]. apply andb_prop in Hok. destruct Hok as [Hwid Hk3].
    apply Z.eqb_eq in Hwid. apply Nat.leb_le in Hk3. apply cc_eqb_eq in Hcc. subst c.
    destruct o1 as [|s k1| |]; cbn [pel_match] in M1; try discriminate.
    apply andb_prop in M1. destruct M1 as [M1 _]. apply andb_prop in M1. destruct M1 as [Hk1 _].
    apply Nat.eqb_eq in Hk1. subst k1.
    cbn [xrun xexec rd_loc rd_src opnd nth alu_writes]. unfold rd_bits. rewrite Hwid.
    assert (E0 : uwrap (Z.min (mem_bits kk) (wbits w)) 0 = 0) by reflexivity.
    rewrite E0.
    set (x := uwrap (Z.min (mem_bits kk) (wbits w)) (memc st)).
    assert (Er : alu_res ACmp w0 x 0 = x).
    { cbn [alu_res]. rewrite Hwid. replace (x - 0) with x by lia. unfold x. apply uwrap_idem.
      pose proof (mem_bits_cases kk Hk3). lia. }
    rewrite Er.
    eexists. split.
    { cbn [mir_val]. rewrite <- (mem_zero_test w s kk (memc st) Hk3). fold x.
      destruct nz; cbn [cc_holds fZF set_flags]; reflexivity. }
    split; [intros; reflexivity | reflexivity].
Qed.

Lemma ovfbr_sound op pat insns ops st b :
  ovfbr_row_ok op pat insns = true -> pat_match [] pat ops = true ->
  doc_ovf_branch op (fOF st) (fCF st) = Some b ->
  exists st', xrun ops st insns = Some (st', Some b) /\ unchanged st st'.
Proof.
  intros Hok Hpm Hd. unfold ovfbr_row_ok in Hok.
  destruct pat as [|p0 pat]; [discriminate|]. destruct p0; try discriminate. destruct pat; [|discriminate].
  destruct insns as [|i0 insns]; [discriminate|]. destruct i0; try discriminate. destruct insns; [|discriminate].
  exists st. split; [|split; [intros; reflexivity | reflexivity]].
  destruct op; try discriminate; apply cc_eqb_eq in Hok; subst c; cbn in Hd; inversion Hd; subst b; reflexivity.
Qed.

Lemma jmp_sound pat insns ops st :
  jmp_row_ok pat insns = true -> exists st', xrun ops st insns = Some (st', Some true) /\ unchanged st st'.
Proof.
  unfold jmp_row_ok. intros Hok.
  destruct pat as [|p0 pat]; [discriminate|]. destruct p0; try discriminate. destruct pat; [|discriminate].
  destruct insns as [|i0 insns]; [discriminate|]. destruct i0; try discriminate. destruct insns; [|discriminate].
  exists st. split; [reflexivity | split; [intros; reflexivity | reflexivity]].
Qed.

(* ------------------------------------------------------------------ register destinations: exact content *)
Lemma reg_write_frame2 st st1 r0 v rest :
  same_data st1 st -> frame (OReg r0 :: rest) st (set_reg st1 r0 v) [].
Proof.
  intros [Hr Hm]. unfold frame. cbn [opnd nth regs memc set_reg]. split; [|exact Hm].
  intros r Hne _. destruct (Nat.eqb_spec r r0); [subst; congruence | apply Hr].
Qed.

Lemma reg_write_frame st r0 v rest :
  frame (OReg r0 :: rest) st (set_reg st r0 v) [].
Proof. apply reg_write_frame2. split; [intros; reflexivity | reflexivity]. Qed.

Lemma pr_reg prev p o : is_regp p = true -> pel_match prev p o = true -> exists r, o = OReg r.
Proof. destruct p; try discriminate; destruct o; cbn; intros; try discriminate; eauto. Qed.

(* ------------------------------------------------------------------ add through lea *)
Lemma lea_add_sound w pat insns ops st d :
  lea_add_ok w pat insns = true -> pat_match [] pat ops = true ->
  ibin IAdd w (nth 0 (args_of st ops) 0) (nth 1 (args_of st ops) 0) = Some d ->
  exists st', xrun ops st insns = Some (st', None) /\ value_at ops st' (wbits w) d /\ frame ops st st' [].
Proof.
  intros Hok Hpm Hd. pose proof (wbits_pos' w) as Hw. unfold lea_add_ok in Hok.
  destruct pat as [|p0 pat]; [discriminate|]. destruct p0; try discriminate.
  destruct pat as [|p1 pat]; [discriminate|]. destruct p1; try discriminate.
  destruct pat as [|p2 pat]; [discriminate|]. destruct pat; [|destruct p2 as [| | |[|[|[|?]]]| | | | | |]; discriminate].
  destruct (pat_match3 _ _ _ _ Hpm) as (o0 & o1 & o2 & -> & M0 & M1 & M2).
  destruct o0 as [r0| | |]; cbn in M0; try discriminate.
  destruct o1 as [r1| | |]; cbn in M1; try discriminate.
  assert (Hins : exists w', insns = [XLea w' 0 1 2 false] /\ w' = wsz w /\ (is_regp p2 = true \/ exists k, p2 = PI k)).
  { destruct p2 as [| | |k| | | | | |]; try discriminate;
      [|destruct k as [|[|[|k]]]; try discriminate];
      (destruct insns as [|i0 insns]; [discriminate|]; destruct i0; try discriminate;
       destruct d0 as [|[|?]]; try discriminate; destruct b as [|[|?]]; try discriminate;
       destruct s as [|[|[|?]]]; try discriminate; destruct mul; try discriminate; destruct insns; [|discriminate];
       apply osz_eqb_eq in Hok; subst; eexists; split; [reflexivity|]; split; [reflexivity|]; eauto). }
  destruct Hins as (w' & -> & -> & Hp2).
  cbn [args_of tl map nth ibin] in Hd. inversion Hd; subst d. clear Hd.
  cbn [xrun xexec opnd nth].
  assert (Hy : exists y, (match o2 with OReg rs => Some (regs st rs) | OImm v => Some (swrap 64 v) | _ => None end) = Some y
                         /\ eqm (wbits w) y (mir_val st o2)).
  { destruct Hp2 as [Hr|[k ->]].
    - destruct (pr_reg _ _ _ Hr M2) as [r2 ->]. eexists. split; [reflexivity|]. cbn [mir_val].
      apply eqm_sym. apply eqm_le with 64; [lia|]. apply eqm_uwrap; lia.
    - destruct o2; cbn in M2; try discriminate. eexists. split; [reflexivity|]. cbn [mir_val].
      apply eqm_le with 64; [lia|]. eapply eqm_trans; [apply eqm_swrap; lia | apply eqm_sym; apply eqm_uwrap; lia]. }
  destruct Hy as (y & Ey & Hy). rewrite Ey.
  eexists. split; [reflexivity|]. split.
  - unfold value_at. cbn [opnd nth regs set_reg]. rewrite Nat.eqb_refl.
    assert (Ew : wr_reg_bits (wsz w) (regs st r0) (regs st r1 + y) = uwrap (wbits w) (regs st r1 + y)) by (destruct w; reflexivity).
    rewrite Ew. unfold uw. rewrite !uwrap_idem by lia.
    apply eqm_add; [lia | | exact Hy]. cbn [mir_val]. apply eqm_sym. apply eqm_le with 64; [lia|]. apply eqm_uwrap; lia.
  - apply reg_write_frame.
Qed.

(* ------------------------------------------------------------------ neg *)
Lemma neg_sound w pat insns ops st :
  neg_row_ok w pat insns = true -> pat_match [] pat ops = true ->
  exists st', xrun ops st insns = Some (st', None)
     /\ value_at ops st' (wbits w) (uw w (- nth 0 (args_of st ops) 0)) /\ frame ops st st' [].
Proof.
  intros Hok Hpm. pose proof (wbits_pos' w) as Hw. unfold neg_row_ok in Hok.
  destruct pat as [|d pat]; [discriminate|]. destruct pat as [|p1 pat]; [discriminate|].
  destruct p1 as [ | | | | | | | |n| ]; try discriminate. destruct n; [|discriminate]. destruct pat; [|discriminate].
  destruct insns as [|i0 insns]; [discriminate|]. destruct i0; try discriminate.
  destruct d0 as [k0]. destruct k0 as [|[|k0]]; try discriminate. destruct insns; [|discriminate].
  apply andb_prop in Hok. destruct Hok as [Hwid Hdst]. apply osz_eqb_eq in Hwid. subst w0.
  destruct (pat_match2 _ _ _ Hpm) as (o0 & o1 & -> & M0 & M1).
  destruct (same0 _ _ _ M1) as [Hs Hshape].
  destruct (dst_readable [o0; o1] st (wsz w) d o0 [o1] eq_refl M0 Hdst) as [Hrd Hmk].
  assert (Hloc : opnd [o0; o1] 1 = opnd [o0; o1] 0).
  { cbn. destruct Hshape as [(r & -> & ->)|[(s & k & -> & ->)|[(v & v' & -> & _)|[-> _]]]]; try reflexivity;
      destruct d; cbn in M0; discriminate. }
  assert (Hrd1 : rd_loc [o0; o1] st (wsz w) (LOp 1) = rd_loc [o0; o1] st (wsz w) (LOp 0)) by (unfold rd_loc; rewrite Hloc; reflexivity).
  cbn [args_of tl map nth]. rewrite Hs.
  set (a := uwrap (obits (wsz w)) (mir_val st o0)) in *.
  set (r := uwrap (obits (wsz w)) (- a)).
  set (st1 := set_flags st (negb (a =? 0)) (r =? 0) (msb (wsz w) r) (a =? 2 ^ (obits (wsz w) - 1))).
  destruct (store_op0 [o0; o1] st st1 (wsz w) d o0 [o1] r eq_refl M0 Hdst) as (st' & Hwr & Hv & Hf & _).
  { split; [intros; reflexivity | reflexivity]. }
  assert (Hwr1 : wr_loc [o0; o1] st1 (wsz w) (LOp 1) r = Some st') by (unfold wr_loc in *; rewrite Hloc; exact Hwr).
  exists st'. split.
  - apply xrun1. cbn [xexec]. rewrite Hrd1, Hrd. fold a r st1. rewrite Hwr1. reflexivity.
  - split; [|exact Hf]. rewrite wsz_bits in Hv.
    eapply value_at_congr; [exact Hv | |].
    + unfold r, a, uw. rewrite wsz_bits. rewrite !uwrap_idem by lia. apply eqm_opp; [lia|]. apply eqm_uwrap; lia.
    + intros s k E. cbn in E. rewrite (Hmk s k E), wsz_bits. lia.
Qed.

(* ------------------------------------------------------------------ shifts *)
Lemma shift_count_ok w c0 b :
  uwrap 8 c0 = uwrap 8 b -> uw w b < wbits w -> shift_count (wsz w) c0 = uw w b.
Proof.
  intros Hc Hb. unfold shift_count. rewrite wsz_bits.
  assert (Hm : exists m, (if wbits w =? 64 then 63 else 31) = 2 ^ m - 1 /\ 0 <= m <= 8 /\ m <= wbits w /\ wbits w = 2 ^ m).
  { destruct w; cbn; [exists 5 | exists 6]; repeat split; try reflexivity; lia. }
  destruct Hm as (m & -> & Hm8 & Hmw & Hpw). rewrite land_mask by lia.
  pose proof (uwrap_bound (wbits w) b ltac:(lia)).
  transitivity (uwrap m (uw w b)).
  - rewrite <- (uw_le m 8 c0) by lia. rewrite Hc. rewrite (uw_le m 8) by lia. unfold uw. symmetry. apply uw_le. lia.
  - apply uwrap_small. unfold uw in *. lia.
Qed.

Lemma shift_sound io o w pat insns ops st d :
  shop_of io = Some o -> shift_row_ok o w pat insns = true -> pat_match [] pat ops = true ->
  ibin io w (nth 0 (args_of st ops) 0) (nth 1 (args_of st ops) 0) = Some d ->
  exists st', xrun ops st insns = Some (st', None) /\ value_at ops st' (wbits w) d /\ frame ops st st' [].
Proof.
  intros Ho Hok Hpm Hd. pose proof (wbits_pos' w) as Hw. unfold shift_row_ok in Hok.
  destruct pat as [|dp pat]; [discriminate|]. destruct pat as [|p1 pat]; [discriminate|].
  destruct p1 as [ | | | | | | | |n| ]; try discriminate. destruct n; [|discriminate].
  destruct pat as [|p2 pat]; [discriminate|]. destruct pat; [|destruct p2 as [|[|[|?]]| |[|?]| | | | | |]; discriminate].
  destruct (pat_match3 _ _ _ _ Hpm) as (o0 & o1 & o2 & -> & M0 & M1 & M2).
  destruct (same0 _ _ _ M1) as [Hs _].
  cbn [args_of tl map nth] in Hd. rewrite Hs in Hd.
  (* the count the x86 instruction uses *)
  assert (Hins : exists o' w' c, insns = [XShift o' w' (LOp 0) c] /\ shop_eqb o o' = true /\ osz_eqb w' (wsz w) = true
                                 /\ dst_ok w' dp = true
                                 /\ exists c0, (match c with None => Some (regs st RCX) | Some s => rd_src [o0; o1; o2] st O8 s end) = Some c0
                                               /\ uwrap 8 c0 = uwrap 8 (mir_val st o2)).
  { destruct p2 as [|hn| |k| | | | | |]; try discriminate.
    - destruct hn as [|[|hn]]; try discriminate.
      destruct insns as [|i0 insns]; [discriminate|]. destruct i0; try discriminate.
      destruct d0 as [k0]. destruct k0; [|discriminate]. destruct c; [discriminate|]. destruct insns; [|discriminate].
      repeat (apply andb_prop in Hok; let H := fresh "Hok" in destruct Hok as [Hok H]).
      eexists _, _, _. split; [reflexivity|]. repeat split; try assumption.
      destruct o2 as [r2| | |]; cbn in M2; try discriminate. destruct r2 as [|[|r2]]; try discriminate.
      eexists. split; [reflexivity|]. cbn [mir_val]. symmetry. apply uw_le. lia.
    - destruct k; [|discriminate].
      destruct insns as [|i0 insns]; [discriminate|]. destruct i0; try discriminate.
      destruct d0 as [k0]. destruct k0; [|discriminate]. destruct c as [c|]; [|discriminate].
      destruct c as [|kc bc|]; try discriminate. destruct kc as [|[|[|kc]]]; try discriminate.
      destruct bc as [|pb|pb]; try discriminate. destruct pb as [pb|pb|]; try discriminate.
      destruct pb as [pb|pb|]; try discriminate. destruct pb as [pb|pb|]; try discriminate. destruct pb; try discriminate.
      destruct insns; [|discriminate].
      repeat (apply andb_prop in Hok; let H := fresh "Hok" in destruct Hok as [Hok H]).
      eexists _, _, _. split; [reflexivity|]. repeat split; try assumption.
      assert (Hsrc : src_ok O8 (PI 0) 2 (XImm 2 8) = true) by reflexivity.
      rewrite (rd_src_ok [o0; o1; o2] st O8 (PI 0) 2 (XImm 2 8) [o0; o1] o2 eq_refl M2 Hsrc).
      eexists. split; [reflexivity|]. cbn [obits]. apply uwrap_idem. lia. }
  destruct Hins as (o' & w' & c & -> & Hso & Hwid & Hdst & c0 & Hc0 & Hc8).
  assert (o' = o) by (destruct o, o'; cbn in Hso; congruence). subst o'.
  apply osz_eqb_eq in Hwid. subst w'.
  destruct (dst_readable [o0; o1; o2] st (wsz w) dp o0 [o1; o2] eq_refl M0 Hdst) as [Hrd Hmk].
  set (a := uwrap (obits (wsz w)) (mir_val st o0)) in *.
  assert (Hcnt : uw w (mir_val st o2) < wbits w /\ shift_count (wsz w) c0 = uw w (mir_val st o2)).
  { assert (uw w (mir_val st o2) < wbits w).
    { destruct io; cbn in Ho; try discriminate; cbn [ibin] in Hd;
        destruct (Z.ltb_spec (uw w (mir_val st o2)) (wbits w)); try discriminate; assumption. }
    split; [assumption | apply shift_count_ok; assumption]. }
  destruct Hcnt as [Hlt Hcnt].
  set (n := uw w (mir_val st o2)) in *.
  set (r := match o with
            | SShl => uwrap (obits (wsz w)) (a * 2 ^ n)
            | SShr => a / 2 ^ n
            | SSar => uwrap (obits (wsz w)) (sval (wsz w) a / 2 ^ n)
            end).
  destruct (store_op0 [o0; o1; o2] st st (wsz w) dp o0 [o1; o2] r eq_refl M0 Hdst) as (st' & Hwr & Hv & Hf & _).
  { split; [intros; reflexivity | reflexivity]. }
  exists st'. split.
  - apply xrun1. cbn [xexec]. rewrite Hrd, Hc0. fold a. rewrite Hcnt. fold r. rewrite Hwr. reflexivity.
  - split; [|exact Hf]. rewrite wsz_bits in Hv.
    eapply value_at_congr; [exact Hv | |].
    + unfold r, a. rewrite wsz_bits.
      replace (uw w (mir_val st o2) <? wbits w) with true in Hd by (symmetry; apply Z.ltb_lt; exact Hlt).
      assert (Hltb : (uw w (mir_val st o2) <? wbits w) = true) by (apply Z.ltb_lt; exact Hlt).
      destruct io; cbn in Ho; try discriminate Ho; injection Ho as <-; cbn [ibin] in Hd; rewrite Hltb in Hd; injection Hd as <-; fold n.
      * unfold uw. rewrite !uwrap_idem by lia. reflexivity.
      * unfold uw, sw, sval. rewrite wsz_bits. rewrite swrap_uwrap by lia. rewrite !uwrap_idem by lia. reflexivity.
      * unfold uw. reflexivity.
    + intros s k E. cbn in E. rewrite (Hmk s k E), wsz_bits. lia.
Qed.

(* ------------------------------------------------------------------ moves and extensions *)
Lemma wr_reg64 w old v : obits w = 64 -> wr_reg_bits w old v = uwrap 64 v.
Proof. destruct w; cbn; intros; try discriminate; reflexivity. Qed.
Lemma wr_reg32 w old v : obits w = 32 -> wr_reg_bits w old v = uwrap 32 v.
Proof. destruct w; cbn; intros; try discriminate; reflexivity. Qed.

Lemma movx_sound (sg : bool) ws wd (s : pel) o0 o1 st r0 :
  o0 = OReg r0 -> pel_match [o0] s o1 = true ->
  match s with PR | PH _ => true | PM _ kk => (mem_bits kk =? obits ws) && Nat.leb kk 3 | _ => false end = true ->
  ((obits wd =? 64) || (negb sg && (obits wd =? 32))) = true -> obits ws < obits wd ->
  exists st', xexec [o0; o1] st (XMovx sg ws wd 0 (LOp 1)) = Some (st', None)
     /\ uwrap 64 (regs st' r0) = (if sg then uwrap 64 (swrap (obits ws) (mir_val st o1)) else uwrap (obits ws) (mir_val st o1))
     /\ frame [o0; o1] st st' [].
Proof.
  intros -> M1 Hs Hwd Hlt.
  assert (Hrd : rd_loc [OReg r0; o1] st ws (LOp 1) = Some (uwrap (obits ws) (mir_val st o1))).
  { destruct s as [|hn| | | | |psg kk| | |]; try discriminate.
    - destruct o1; cbn in M1; try discriminate. apply rd_loc_reg. reflexivity.
    - destruct o1; cbn in M1; try discriminate. apply rd_loc_reg. reflexivity.
    - apply andb_prop in Hs. destruct Hs as [Hn Hk]. apply Z.eqb_eq in Hn. apply Nat.leb_le in Hk.
      destruct o1 as [|s1 k1| |]; cbn [pel_match] in M1; try discriminate.
      apply andb_prop in M1. destruct M1 as [M1 _]. apply andb_prop in M1. destruct M1 as [Hk1 _].
      apply Nat.eqb_eq in Hk1. subst k1. apply rd_loc_mem; [reflexivity | assumption | lia]. }
  cbn [xexec opnd nth]. rewrite Hrd.
  eexists. split; [reflexivity|]. split; [|apply reg_write_frame].
  cbn [regs set_reg]. rewrite Nat.eqb_refl.
  pose proof (obits_cases ws) as Hws. pose proof (obits_cases wd) as Hwdc.
  assert (Hsw : swrap (obits ws) (uwrap (obits ws) (mir_val st o1)) = swrap (obits ws) (mir_val st o1)) by (apply swrap_uwrap; lia).
  apply orb_prop in Hwd. destruct Hwd as [H64|H32].
  - apply Z.eqb_eq in H64. rewrite wr_reg64 by assumption. rewrite uwrap_idem by lia.
    destruct sg; [rewrite Hsw; reflexivity|]. apply uwrap_id_wider. lia.
  - apply andb_prop in H32. destruct H32 as [Hsg H32]. destruct sg; [discriminate|]. apply Z.eqb_eq in H32.
    rewrite wr_reg32 by assumption. rewrite (uwrap_id_wider 32 64) by lia. apply uwrap_id_wider. lia.
Qed.

Lemma ext_sound (sg : bool) n pat insns ops st :
  ext_row_ok sg n pat insns = true -> pat_match [] pat ops = true ->
  exists st', xrun ops st insns = Some (st', None)
     /\ value_at ops st' 64 (if sg then sext n (nth 0 (args_of st ops) 0) else zext n (nth 0 (args_of st ops) 0))
     /\ frame ops st st' [].
Proof.
  intros Hok Hpm. unfold ext_row_ok in Hok.
  destruct pat as [|p0 pat]; [discriminate|]. destruct p0; try discriminate.
  destruct pat as [|s pat]; [discriminate|]. destruct pat; [|discriminate].
  destruct (pat_match2 _ _ _ Hpm) as (o0 & o1 & -> & M0 & M1).
  destruct o0 as [r0| | |]; cbn in M0; try discriminate.
  cbn [args_of tl map nth].
  destruct insns as [|i0 insns]; [discriminate|]. destruct i0; try discriminate.
  - (* mov r32, r/m32 : uext32 *)
    destruct w; try discriminate. destruct d as [k0]. destruct k0; [|discriminate].
    destruct s0 as [[[|[|k1]]]| |]; try discriminate. destruct insns; [|discriminate].
    apply andb_prop in Hok. destruct Hok as [Hok Hs]. apply andb_prop in Hok. destruct Hok as [Hsg Hn].
    destruct sg; [discriminate|]. apply Z.eqb_eq in Hn. subst n.
    assert (Hrd : rd_loc [OReg r0; o1] st O32 (LOp 1) = Some (uwrap 32 (mir_val st o1))).
    { destruct s as [|hn| | | | |psg kk| | |]; try discriminate.
      - destruct o1; cbn in M1; try discriminate. apply rd_loc_reg. reflexivity.
      - destruct o1; cbn in M1; try discriminate. apply rd_loc_reg. reflexivity.
      - apply Z.eqb_eq in Hs. destruct o1 as [|s1 k1| |]; cbn [pel_match] in M1; try discriminate.
        apply andb_prop in M1. destruct M1 as [M1 _]. apply andb_prop in M1. destruct M1 as [Hk1 Hk3].
        apply Nat.eqb_eq in Hk1. subst k1. apply Nat.leb_le in Hk3. apply rd_loc_mem; [reflexivity | assumption | cbn [obits]; lia]. }
    cbn [xrun xexec rd_src]. rewrite Hrd. cbn [wr_loc opnd nth wr_reg_bits].
    eexists. split; [reflexivity|]. split; [|apply reg_write_frame].
    unfold value_at. cbn [opnd nth regs set_reg]. rewrite Nat.eqb_refl. unfold zext.
    rewrite (uwrap_idem 32) by lia. reflexivity.
  - (* movsx / movzx / movsxd *)
    destruct d; [|discriminate]. destruct s0 as [k1]. destruct k1 as [|[|k1]]; try discriminate. destruct insns; [|discriminate].
    repeat (apply andb_prop in Hok; let H := fresh "Hok" in destruct Hok as [Hok H]).
    apply eqb_prop in Hok. subst sg0. apply Z.eqb_eq in Hok3. apply Z.ltb_lt in Hok1.
    assert (Hs : match s with PR | PH _ => true | PM _ kk => (mem_bits kk =? obits ws) && Nat.leb kk 3 | _ => false end = true)
      by (destruct s; try discriminate; try reflexivity; rewrite Hok3; exact Hok0).
    rewrite <- Hok3 in Hok1.
    destruct (movx_sound sg ws wd s (OReg r0) o1 st r0 eq_refl M1 Hs Hok2 Hok1) as (st' & Hex & Hv & Hf).
    exists st'. split; [apply xrun1; exact Hex|]. split; [|exact Hf].
    unfold value_at. cbn [opnd nth]. rewrite Hv. rewrite Hok3. unfold sext, zext, u64.
    pose proof (obits_cases ws). destruct sg; [rewrite uwrap_idem by lia; reflexivity|].
    symmetry. apply uwrap_id_wider. rewrite <- Hok3. lia.
Qed.

Lemma mov_sound pat insns ops st :
  mov_row_ok pat insns = true -> pat_match [] pat ops = true ->
  exists st', xrun ops st insns = Some (st', None)
     /\ value_at ops st' 64 (u64 (nth 0 (args_of st ops) 0)) /\ frame ops st st' [].
Proof.
  intros Hok Hpm. unfold mov_row_ok in Hok.
  destruct pat as [|d pat]; [discriminate|]. destruct pat as [|s pat]; [exfalso; break_match Hok; discriminate Hok|].
  destruct pat; [|exfalso; break_match Hok; discriminate Hok].
  destruct (pat_match2 _ _ _ Hpm) as (o0 & o1 & -> & M0 & M1).
  cbn [args_of tl map nth].
  destruct insns as [|i0 insns]; [exfalso; break_match Hok; discriminate Hok|].
  destruct i0; try solve [exfalso; break_match Hok; discriminate Hok].
  - (* xor r0, r0 *)
    destruct d as [| | | | | | | | |]; try solve [exfalso; break_match Hok; discriminate Hok];
      destruct s as [| | | | | | | | |]; try solve [exfalso; break_match Hok; discriminate Hok].
    destruct o; try discriminate. destruct w; try discriminate. destruct d0 as [k0]. destruct k0; [|discriminate].
    destruct s0 as [[[|k1]]| |]; try discriminate. destruct insns; [|discriminate].
    destruct o0 as [r0| | |]; cbn in M0; try discriminate. destruct o1 as [| |v|]; cbn in M1; try discriminate.
    apply Z.eqb_eq in M1.
    cbn [xrun xexec rd_loc rd_src opnd nth alu_writes wr_loc]. unfold rd_bits.
    eexists. split; [reflexivity|]. split; [|apply reg_write_frame2; split; [intros; reflexivity | reflexivity]].
    unfold value_at. cbn [opnd nth regs set_reg set_flags]. rewrite Nat.eqb_refl.
    cbn [alu_res wr_reg_bits mir_val]. rewrite Z.lxor_nilpotent. unfold u64. rewrite M1. reflexivity.
  - (* mov *)
    destruct d0 as [k0]. destruct k0; [|exfalso; break_match Hok; discriminate Hok]. destruct insns; [|exfalso; break_match Hok; discriminate Hok].
    destruct d as [|hn| | | | |dsg dk| | |]; try solve [exfalso; break_match Hok; discriminate Hok].
    + (* register destination *)
      destruct o0 as [r0| | |]; cbn in M0; try discriminate.
      assert (Hsrc : exists bits, (bits = 64 \/ (bits = 32 /\ exists kk, s = PM (Some false) kk /\ mem_bits kk = 32)) /\ obits w = bits
                                  /\ src_ok w s 1 s0 = true).
      { destruct s as [| | | | | |ssg kk| | |]; try discriminate;
          try (apply andb_prop in Hok; destruct Hok as [Hw Hs]; apply Z.eqb_eq in Hw; exists 64; repeat split; try assumption; left; reflexivity).
        destruct ssg as [[|]|].
        - repeat (apply andb_prop in Hok; let H := fresh "Hok" in destruct Hok as [Hok H]). apply Z.eqb_eq in Hok.
          exists 64. repeat split; try assumption. left. reflexivity.
        - repeat (apply andb_prop in Hok; let H := fresh "Hok" in destruct Hok as [Hok H]). apply Z.eqb_eq in Hok, Hok1.
          exists 32. repeat split; try assumption. right. split; [reflexivity|]. exists kk. split; [reflexivity | lia].
        - repeat (apply andb_prop in Hok; let H := fresh "Hok" in destruct Hok as [Hok H]). apply Z.eqb_eq in Hok.
          exists 64. repeat split; try assumption. left. reflexivity. }
      destruct Hsrc as (bits & Hb & Hwb & Hs).
      pose proof (rd_src_ok [OReg r0; o1] st w s 1 s0 [OReg r0] o1 eq_refl M1 Hs) as Hrd.
      cbn [xrun xexec]. rewrite Hrd. cbn [wr_loc opnd nth].
      eexists. split; [reflexivity|]. split; [|apply reg_write_frame].
      unfold value_at. cbn [opnd nth regs set_reg]. rewrite Nat.eqb_refl. unfold u64. f_equal.
      destruct Hb as [->|[-> (kk & -> & Hk32)]].
      * rewrite wr_reg64 by assumption. rewrite Hwb. rewrite uwrap_idem by lia. reflexivity.
      * rewrite wr_reg32 by assumption. rewrite Hwb. rewrite uwrap_idem by lia.
        destruct o1 as [|s1 k1| |]; cbn [pel_match] in M1; try discriminate.
        apply andb_prop in M1. destruct M1 as [M1 Hsg]. apply andb_prop in M1. destruct M1 as [Hk1 _].
        apply Nat.eqb_eq in Hk1. subst k1. apply eqb_prop in Hsg. subst s1.
        cbn [mir_val]. rewrite Hk32. rewrite uwrap_idem by lia. symmetry. apply uwrap_id_wider. lia.
    + (* hard register destination: same *)
      destruct o0 as [r0| | |]; cbn in M0; try discriminate.
      assert (Hsrc : exists bits, (bits = 64 \/ (bits = 32 /\ exists kk, s = PM (Some false) kk /\ mem_bits kk = 32)) /\ obits w = bits
                                  /\ src_ok w s 1 s0 = true).
      { destruct s as [| | | | | |ssg kk| | |]; try discriminate;
          try (apply andb_prop in Hok; destruct Hok as [Hw Hs]; apply Z.eqb_eq in Hw; exists 64; repeat split; try assumption; left; reflexivity).
        destruct ssg as [[|]|].
        - repeat (apply andb_prop in Hok; let H := fresh "Hok" in destruct Hok as [Hok H]). apply Z.eqb_eq in Hok.
          exists 64. repeat split; try assumption. left. reflexivity.
        - repeat (apply andb_prop in Hok; let H := fresh "Hok" in destruct Hok as [Hok H]). apply Z.eqb_eq in Hok, Hok1.
          exists 32. repeat split; try assumption. right. split; [reflexivity|]. exists kk. split; [reflexivity | lia].
        - repeat (apply andb_prop in Hok; let H := fresh "Hok" in destruct Hok as [Hok H]). apply Z.eqb_eq in Hok.
          exists 64. repeat split; try assumption. left. reflexivity. }
      destruct Hsrc as (bits & Hb & Hwb & Hs).
      pose proof (rd_src_ok [OReg r0; o1] st w s 1 s0 [OReg r0] o1 eq_refl M1 Hs) as Hrd.
      cbn [xrun xexec]. rewrite Hrd. cbn [wr_loc opnd nth].
      eexists. split; [reflexivity|]. split; [|apply reg_write_frame].
      unfold value_at. cbn [opnd nth regs set_reg]. rewrite Nat.eqb_refl. unfold u64. f_equal.
      destruct Hb as [->|[-> (kk & -> & Hk32)]].
      * rewrite wr_reg64 by assumption. rewrite Hwb. rewrite uwrap_idem by lia. reflexivity.
      * rewrite wr_reg32 by assumption. rewrite Hwb. rewrite uwrap_idem by lia.
        destruct o1 as [|s1 k1| |]; cbn [pel_match] in M1; try discriminate.
        apply andb_prop in M1. destruct M1 as [M1 Hsg]. apply andb_prop in M1. destruct M1 as [Hk1 _].
        apply Nat.eqb_eq in Hk1. subst k1. apply eqb_prop in Hsg. subst s1.
        cbn [mir_val]. rewrite Hk32. rewrite uwrap_idem by lia. symmetry. apply uwrap_id_wider. lia.
    + (* memory destination: truncating store *)
      assert (Hparts : (obits w =? mem_bits dk) = true /\ Nat.leb dk 3 = true /\ src_ok w s 1 s0 = true).
      { apply orb_prop in Hok. destruct Hok as [Hok|Hok].
        - repeat (apply andb_prop in Hok; let H := fresh "Hok" in destruct Hok as [Hok H]). repeat split; assumption.
        - repeat (apply andb_prop in Hok; let H := fresh "Hok" in destruct Hok as [Hok H]).
          destruct s; try discriminate. repeat split; assumption. }
      destruct Hparts as (Hwm & Hk3 & Hs).
      assert (Hdst : dst_ok w (PM dsg dk) = true) by (cbn [dst_ok]; rewrite Hwm, Hk3; reflexivity).
      pose proof (rd_src_ok [o0; o1] st w s 1 s0 [o0] o1 eq_refl M1 Hs) as Hrd.
      destruct (store_op0 [o0; o1] st st w (PM dsg dk) o0 [o1] (uwrap (obits w) (mir_val st o1)) eq_refl M0 Hdst)
        as (st' & Hwr & Hv & Hf & _).
      { split; [intros; reflexivity | reflexivity]. }
      exists st'. split; [apply xrun1; cbn [xexec]; rewrite Hrd, Hwr; reflexivity|]. split; [|exact Hf].
      unfold value_at in *. cbn [opnd nth] in *.
      destruct o0 as [|s0' k0'| |]; cbn [pel_match] in M0; try discriminate.
      apply andb_prop in M0. destruct M0 as [M0 _]. apply andb_prop in M0. destruct M0 as [Hk0 Hk03].
      apply Nat.eqb_eq in Hk0. subst k0'. apply Z.eqb_eq in Hwm. rewrite Hv. rewrite <- Hwm.
      pose proof (obits_cases w). unfold u64. rewrite uwrap_idem by lia. symmetry. apply uw_le. lia.
  - (* movsx / movzx from memory *)
    destruct d as [| | | | | | | | |]; try solve [exfalso; break_match Hok; discriminate Hok].
    destruct s as [| | | | | |ssg kk| | |]; try discriminate. destruct ssg as [ssg|]; [|discriminate].
    destruct d0; [|discriminate]. destruct s0 as [k1]. destruct k1 as [|[|k1]]; try discriminate. destruct insns; [|discriminate].
    repeat (apply andb_prop in Hok; let H := fresh "Hok" in destruct Hok as [Hok H]).
    apply eqb_prop in Hok. subst sg. apply Z.eqb_eq in Hok3. apply Z.ltb_lt in Hok0.
    destruct o0 as [r0| | |]; cbn in M0; try discriminate.
    assert (Hs : match PM (Some ssg) kk with PR | PH _ => true | PM _ kk => (mem_bits kk =? obits ws) && Nat.leb kk 3 | _ => false end = true)
      by (rewrite Hok3, Z.eqb_refl, Hok2; reflexivity).
    destruct (movx_sound ssg ws wd (PM (Some ssg) kk) (OReg r0) o1 st r0 eq_refl M1 Hs Hok1 Hok0) as (st' & Hex & Hv & Hf).
    exists st'. split; [apply xrun1; exact Hex|]. split; [|exact Hf].
    unfold value_at. cbn [opnd nth]. rewrite Hv.
    destruct o1 as [|s1 k1| |]; cbn [pel_match] in M1; try discriminate.
    apply andb_prop in M1. destruct M1 as [M1 Hsg]. apply andb_prop in M1. destruct M1 as [Hk1 Hk3].
    apply Nat.eqb_eq in Hk1. subst k1. apply eqb_prop in Hsg. subst s1. apply Nat.leb_le in Hk3.
    pose proof (mem_bits_cases kk Hk3). cbn [mir_val]. rewrite Hok3. unfold u64.
    destruct ssg.
    + assert (E : swrap (mem_bits kk) (uwrap 64 (swrap (mem_bits kk) (memc st))) = swrap (mem_bits kk) (memc st)).
      { apply eqm_swrap_eq; [lia|].
        eapply eqm_trans; [apply eqm_le with 64; [lia | apply eqm_uwrap; lia] | apply eqm_swrap; lia]. }
      rewrite E. rewrite ?uwrap_idem by lia. reflexivity.
    + rewrite !uwrap_idem by lia. rewrite (uwrap_id_wider (mem_bits kk) 64) by lia. reflexivity.
Qed.

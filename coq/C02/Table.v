(* Table-level recogniser and its soundness: a table all of whose rows are accepted computes, row by
   row and for ALL operand values, what DocSpec documents (on the defined bits). *)
From Coq Require Import ZArith Lia Bool List String.
From MirV Require Import Mir.DocSpec Mir.CExpr C02.WFacts C02.RowCheck C02.RowProofs C02.IntRows C02.FloatRows C02.OvfRows C02.OvfFlags.
Import ListNotations.
Local Open Scope Z_scope.

(* opcodes whose only semantics is "long double arithmetic": no Coq meaning (DocSpec returns None);
   their rows are tied to the double rows syntactically (ld_twin) *)
Definition ld_opcode (op : opcode) : bool :=
  match op with
  | I2LD | UI2LD | LD2I | F2LD | D2LD | LD2F | LD2D | LDNEG | LDADD | LDSUB | LDMUL | LDDIV
  | LDEQ | LDNE | LDLT | LDLE | LDGT | LDGE | LDBEQ | LDBNE | LDBLT | LDBLE | LDBGT | LDBGE => true
  | _ => false
  end.

Definition row_ok (op : opcode) (s : cstmt) : bool :=
  match s with
  | SAssign T e =>
      match op with
      | LDMOV => cty_eqb T CLD && cexpr_eqb e (EVar 1 CLD)
      | _ => match int_class op, float_class op with
             | IC_none, FC_none => false
             | IC_none, c => float_value_ok c T e
             | c, _ => int_value_ok c T e
             end
      end
  | SBranch e =>
      match int_branch_class op, float_branch_class op with
      | IB_none, FB_none => ovf_branch_ok op e
      | IB_none, c => float_branch_ok c e
      | c, _ => int_branch_ok c e
      end
  | SOvf T e sf uf => ovf_ok op T e sf uf
  | _ => false
  end.

(* what a sound row guarantees *)
Definition row_sound (op : opcode) (s : cstmt) : Prop :=
  (forall args d, doc_sem op args = Some d ->
     exists r, stmt_value (env_of args) s = Some r /\ eqv op r d = true)
  /\ (forall args b, doc_branch op args = Some b -> stmt_branch (env_of args) s = Some b)
  /\ (forall sf uf b, doc_ovf_branch op sf uf = Some b -> stmt_branch (flag_env sf uf) s = Some b)
  /\ (forall args r sf uf, doc_ovf op args = Some (r, sf, uf) ->
        exists r' fs fu, stmt_ovf (env_of args) s = Some (r', fs, fu) /\ eqv op r' r = true
          /\ (fst (ovf_defined op) = true -> fs = Some sf)
          /\ (snd (ovf_defined op) = true -> fu = Some uf)).

(* ---- class bookkeeping over the opcode enumeration *)
Lemma doc_sem_split op args : op <> LDMOV ->
  doc_sem op args = match doc_sem_int op args with Some v => Some v | None => doc_sem_float op args end.
Proof. intros H. destruct op; try reflexivity. congruence. Qed.

Lemma int_float_disjoint op : int_class op <> IC_none -> float_class op = FC_none.
Proof. destruct op; cbn; intros H; try reflexivity; congruence. Qed.

Lemma eqv_int op w r d : int_res_width op = Some w -> eq_low w r d -> eqv op r d = true.
Proof.
  intros Hw H. apply mask_eq_low in H.
  destruct op; cbn in Hw; try discriminate; inversion Hw; subst; exact H.
Qed.

Lemma eqv_ovf op o w r d : ovf_class op = Some (o, w) -> eq_low w r d -> eqv op r d = true.
Proof.
  intros Hw H. apply mask_eq_low in H.
  destruct op; cbn in Hw; try discriminate; inversion Hw; subst; exact H.
Qed.

Lemma eqv_float op r d : float_class op <> FC_none -> feq_res (float_class op) r d -> eqv op r d = true.
Proof.
  intros Hc H. destruct op; cbn in Hc; try congruence; cbn in H; try exact H;
    subst; unfold eqv; cbn; apply Z.eqb_refl.
Qed.

Lemma doc_sem_int_class op args d : doc_sem_int op args = Some d -> int_class op <> IC_none.
Proof. unfold doc_sem_int. destruct (int_class op); intros H; first [congruence | destruct args; discriminate]. Qed.

Lemma doc_sem_float_class op args d : doc_sem_float op args = Some d -> float_class op <> FC_none.
Proof. unfold doc_sem_float. destruct (float_class op); intros H; first [congruence | destruct args; discriminate]. Qed.

Lemma doc_branch_int_class op args b : doc_branch_int op args = Some b -> int_branch_class op <> IB_none.
Proof. unfold doc_branch_int. destruct (int_branch_class op); intros H; first [congruence | destruct args; discriminate]. Qed.

Lemma doc_branch_float_class op args b : doc_branch_float op args = Some b -> float_branch_class op <> FB_none.
Proof. unfold doc_branch_float. destruct (float_branch_class op); intros H; first [congruence | destruct args; discriminate]. Qed.

Lemma branch_disjoint op : int_branch_class op <> IB_none -> float_branch_class op = FB_none.
Proof. destruct op; cbn; intros H; try reflexivity; congruence. Qed.

Lemma value_not_branch op args : int_branch_class op <> IB_none \/ float_branch_class op <> FB_none ->
  doc_sem op args = None.
Proof. destruct op; cbn; intros [H|H]; try congruence; try reflexivity; destruct args as [|? [|? ?]]; reflexivity. Qed.

Lemma ovf_branch_classes op sf uf b : doc_ovf_branch op sf uf = Some b ->
  int_branch_class op = IB_none /\ float_branch_class op = FB_none.
Proof. destruct op; cbn; intros; try discriminate; split; reflexivity. Qed.

Lemma doc_ovf_class op args x : doc_ovf op args = Some x -> exists o w, ovf_class op = Some (o, w).
Proof. unfold doc_ovf. destruct (ovf_class op) as [[o w]|]; [eauto | discriminate]. Qed.

Lemma ovf_not_value op o w args : ovf_class op = Some (o, w) -> doc_sem op args = None /\ doc_branch op args = None
  /\ (forall sf uf, doc_ovf_branch op sf uf = None).
Proof.
  destruct op; cbn; intros H; try discriminate; (split; [|split]); try reflexivity;
    destruct args as [|? [|? ?]]; reflexivity.
Qed.

Theorem row_ok_sound op s : row_ok op s = true -> row_sound op s.
Proof.
  intros Hok. unfold row_sound. destruct s as [T e|e|T e sf uf| | | | |]; try discriminate.
  - (* SAssign *)
    split; [|split; [|split]].
    + intros args d Hd. cbn [row_ok] in Hok.
      destruct (opcode_eq_dec op LDMOV) as [->|Hne].
      * apply andb_prop in Hok. destruct Hok as [HT He]. apply cty_eqb_eq in HT. apply cexpr_eqb_eq in He. subst.
        destruct args as [|a [|? ?]]; try discriminate. cbn in Hd. inversion Hd; subst.
        rewrite ldmov_sound. eexists. split; [reflexivity|]. unfold eqv. cbn. apply Z.eqb_refl.
      * assert (Hok' : match int_class op, float_class op with
                       | IC_none, FC_none => false
                       | IC_none, c => float_value_ok c T e
                       | c, _ => int_value_ok c T e
                       end = true) by (destruct op; try exact Hok; congruence).
        rewrite doc_sem_split in Hd by assumption.
        destruct (doc_sem_int op args) as [v|] eqn:Di.
        -- inversion Hd; subst. pose proof (doc_sem_int_class _ _ _ Di) as Hc.
           assert (Hiv : int_value_ok (int_class op) T e = true) by (destruct (int_class op); try exact Hok'; congruence).
           destruct (int_value_ok_sound op T e Hiv args d Di) as (r & Hv & Hl).
           exists r. split; [exact Hv|]. destruct (int_res_width op) as [w|] eqn:W; [|contradiction].
           eapply eqv_int; eassumption.
        -- pose proof (doc_sem_float_class _ _ _ Hd) as Hc.
           assert (Hic : int_class op = IC_none).
           { destruct (int_class op) eqn:Q; try reflexivity;
               (assert (Hn : int_class op <> IC_none) by congruence; apply int_float_disjoint in Hn; congruence). }
           rewrite Hic in Hok'.
           assert (Hfv : float_value_ok (float_class op) T e = true) by (destruct (float_class op); try exact Hok'; congruence).
           destruct (float_value_ok_sound op T e Hfv args d Hd) as (r & Hv & Hl).
           exists r. split; [exact Hv|]. apply eqv_float; assumption.
    + (* a value row of a branch opcode cannot be accepted *)
      intros args b Hd. exfalso. cbn [row_ok] in Hok. unfold doc_branch in Hd.
      destruct op; cbn in Hd; try (destruct args as [|? [|? [|? ?]]]; discriminate); cbn in Hok; discriminate.
    + intros sf0 uf0 b Hd. exfalso. destruct op; cbn in Hd; try discriminate; cbn in Hok; discriminate.
    + intros args r sf0 uf0 Hd. exfalso. destruct (doc_ovf_class _ _ _ Hd) as (o & w & Hc).
      destruct op; cbn in Hc; try discriminate; cbn in Hok; discriminate.
  - (* SBranch *)
    split; [|split; [|split]].
    + intros args d Hd. exfalso. cbn [row_ok] in Hok.
      destruct (int_branch_class op) eqn:Ib; destruct (float_branch_class op) eqn:Fb;
        try (rewrite value_not_branch in Hd; [discriminate | (left; congruence) || (right; congruence)]).
      destruct op; cbn in Hok; try discriminate; destruct args as [|? [|? ?]]; discriminate.
    + intros args b Hd. cbn [row_ok] in Hok. unfold doc_branch in Hd.
      destruct (doc_branch_int op args) as [v|] eqn:Di.
      * inversion Hd; subst. pose proof (doc_branch_int_class _ _ _ Di) as Hc.
        assert (Hiv : int_branch_ok (int_branch_class op) e = true) by (destruct (int_branch_class op); try exact Hok; congruence).
        exact (int_branch_ok_sound op e Hiv args b Di).
      * pose proof (doc_branch_float_class _ _ _ Hd) as Hc.
        assert (Hic : int_branch_class op = IB_none).
        { destruct (int_branch_class op) eqn:Q; try reflexivity;
            (assert (Hn : int_branch_class op <> IB_none) by congruence; apply branch_disjoint in Hn; congruence). }
        rewrite Hic in Hok.
        assert (Hfv : float_branch_ok (float_branch_class op) e = true) by (destruct (float_branch_class op); try exact Hok; congruence).
        exact (float_branch_ok_sound op e Hfv args b Hd).
    + intros sf0 uf0 b Hd. cbn [row_ok] in Hok. destruct (ovf_branch_classes _ _ _ _ Hd) as [Hi Hf].
      rewrite Hi, Hf in Hok. eapply ovf_branch_ok_sound; eassumption.
    + intros args r sf0 uf0 Hd. discriminate || (exfalso; destruct (doc_ovf_class _ _ _ Hd) as (o & w & Hc);
        cbn [row_ok] in Hok; destruct op; cbn in Hc; try discriminate; cbn in Hok; discriminate).
  - (* SOvf *)
    cbn [row_ok] in Hok.
    assert (Hcl : exists o w, ovf_class op = Some (o, w)).
    { unfold ovf_ok, ovf_leaves in Hok. destruct (ovf_class op) as [[o w]|]; [eauto | discriminate]. }
    destruct Hcl as (o & w & Hc).
    split; [|split; [|split]].
    + intros args d Hd. destruct (ovf_not_value op o w args Hc) as (Hv' & _). congruence.
    + intros args b Hd. destruct (ovf_not_value op o w args Hc) as (_ & Hb' & _). congruence.
    + intros sf0 uf0 b Hd. destruct (ovf_not_value op o w [] Hc) as (_ & _ & Hob'). rewrite Hob' in Hd. discriminate.
    + intros args r sf0 uf0 Hd.
      destruct (ovf_ok_sound op T e sf uf Hok args r sf0 uf0 Hd) as (r' & fs & fu & Hv & Hl & Hs & Hu).
      exists r', fs, fu. split; [exact Hv|]. split; [|split; assumption].
      rewrite Hc in Hl. apply (eqv_ovf op o w); assumption.
Qed.

(* ---- table level *)
Definition needs_row (op : opcode) : bool :=
  has_doc_sem op
  || match int_branch_class op, float_branch_class op with IB_none, FB_none => false | _, _ => true end
  || match ovf_class op with Some _ => true | None => false end
  || match op with BO | BNO | UBO | UBNO => true | _ => false end.

Definition has_row (tbl : list (opcode * cstmt)) (op : opcode) : bool :=
  existsb (fun r => opcode_eqb (fst r) op) tbl.

(* the LD twin: replace long double by double in a statement; an LD row must be its double twin *)
Definition ld2d_ty (t : cty) : cty := match t with CLD => CD | _ => t end.
Fixpoint ld2d (e : cexpr) : cexpr :=
  match e with
  | EVar n t => EVar n (ld2d_ty t)
  | EConst z t => EConst z t
  | ECast t e1 => ECast (ld2d_ty t) (ld2d e1)
  | EUn o e1 => EUn o (ld2d e1)
  | EBin o a b => EBin o (ld2d a) (ld2d b)
  | ECond c a b => ECond (ld2d c) (ld2d a) (ld2d b)
  end.
Definition ld2d_stmt (s : cstmt) : cstmt :=
  match s with
  | SAssign t e => SAssign (ld2d_ty t) (ld2d e)
  | SBranch e => SBranch (ld2d e)
  | _ => s
  end.
Definition cstmt_eqb (a b : cstmt) : bool :=
  match a, b with
  | SAssign t e, SAssign t' e' => cty_eqb t t' && cexpr_eqb e e'
  | SBranch e, SBranch e' => cexpr_eqb e e'
  | _, _ => false
  end.

Definition ld_twin (op : opcode) : option opcode :=
  match op with
  | I2LD => Some I2D | UI2LD => Some UI2D | LD2I => Some D2I | LDNEG => Some DNEG
  | LDADD => Some DADD | LDSUB => Some DSUB | LDMUL => Some DMUL | LDDIV => Some DDIV
  | LDEQ => Some DEQ | LDNE => Some DNE | LDLT => Some DLT | LDLE => Some DLE | LDGT => Some DGT | LDGE => Some DGE
  | LDBEQ => Some DBEQ | LDBNE => Some DBNE | LDBLT => Some DBLT | LDBLE => Some DBLE
  | LDBGT => Some DBGT | LDBGE => Some DBGE
  | _ => None
  end.

(* conversions between LD and F/D have no D twin: exact forms (an optional explicit cast) *)
Definition ld_conv_ok (op : opcode) (s : cstmt) : bool :=
  match op, s with
  | F2LD, SAssign CLD e => cexpr_eqb e (EVar 1 CF) || cexpr_eqb e (ECast CLD (EVar 1 CF))
  | D2LD, SAssign CLD e => cexpr_eqb e (EVar 1 CD) || cexpr_eqb e (ECast CLD (EVar 1 CD))
  | LD2F, SAssign CF e => cexpr_eqb e (EVar 1 CLD) || cexpr_eqb e (ECast CF (EVar 1 CLD))
  | LD2D, SAssign CD e => cexpr_eqb e (EVar 1 CLD) || cexpr_eqb e (ECast CD (EVar 1 CLD))
  | _, _ => false
  end.

Definition ld_row_ok (tbl : list (opcode * cstmt)) (op : opcode) (s : cstmt) : bool :=
  match ld_twin op with
  | Some d => existsb (fun r => opcode_eqb (fst r) d && cstmt_eqb (snd r) (ld2d_stmt s) && row_ok d (snd r)) tbl
  | None => ld_conv_ok op s
  end.

Definition table_ok (tbl : list (opcode * cstmt)) : bool :=
  forallb (fun r => if ld_opcode (fst r) then ld_row_ok tbl (fst r) (snd r) else row_ok (fst r) (snd r)) tbl
  && forallb (fun op => negb (needs_row op || ld_opcode op) || has_row tbl op) all_opcodes.

Theorem table_ok_sound tbl : table_ok tbl = true ->
  forall op s, In (op, s) tbl -> ld_opcode op = false -> row_sound op s.
Proof.
  intros H op s Hin Hld. unfold table_ok in H. apply andb_prop in H. destruct H as [H _].
  rewrite forallb_forall in H. specialize (H (op, s) Hin). cbn [fst snd] in H. rewrite Hld in H.
  apply row_ok_sound. exact H.
Qed.

Lemma all_opcodes_complete op : In op all_opcodes.
Proof.
  assert (H : existsb (opcode_eqb op) all_opcodes = true) by (destruct op; vm_compute; reflexivity).
  apply existsb_exists in H. destruct H as (x & Hin & He). apply opcode_eqb_eq in He. subst. exact Hin.
Qed.

Theorem table_ok_total tbl : table_ok tbl = true ->
  forall op, needs_row op = true \/ ld_opcode op = true -> exists s, In (op, s) tbl.
Proof.
  intros H op Hn. unfold table_ok in H. apply andb_prop in H. destruct H as [_ H].
  rewrite forallb_forall in H. specialize (H op (all_opcodes_complete op)).
  assert (Hb : (needs_row op || ld_opcode op) = true) by (destruct Hn as [-> | ->]; [reflexivity | apply orb_true_r]).
  rewrite Hb in H. cbn in H. unfold has_row in H. apply existsb_exists in H.
  destruct H as ([op' s] & Hin & He). cbn in He. apply opcode_eqb_eq in He. subst. eauto.
Qed.

Theorem table_ok_ld_twin tbl : table_ok tbl = true ->
  forall op s d, In (op, s) tbl -> ld_twin op = Some d ->
  exists sd, In (d, sd) tbl /\ cstmt_eqb sd (ld2d_stmt s) = true /\ row_sound d sd.
Proof.
  intros H op s d Hin Ht. unfold table_ok in H. apply andb_prop in H. destruct H as [H _].
  rewrite forallb_forall in H. specialize (H (op, s) Hin). cbn [fst snd] in H.
  assert (Hld : ld_opcode op = true) by (destruct op; cbn in Ht; try discriminate; reflexivity).
  rewrite Hld in H. unfold ld_row_ok in H. rewrite Ht in H. apply existsb_exists in H.
  destruct H as ([d' sd] & Hin' & He). cbn [fst snd] in He.
  apply andb_prop in He. destruct He as [He Hok]. apply andb_prop in He. destruct He as [He Hs].
  apply opcode_eqb_eq in He. subst d'. exists sd. split; [exact Hin'|]. split; [exact Hs|].
  apply row_ok_sound. exact Hok.
Qed.

(* C02: memory operands disp(base, index, scale) -- "any base/index/scale/displacement" of the property.
   Part 1 (mir.c simplify_op, shared by all engines): the instructions inserted for a memory operand, regenerated as
   gen/AddrTable.simplify_addr_insns and executed with the DOCUMENTED meaning of their opcodes (Mir.DocSpec), leave in the
   address register base + index*scale + disp modulo 2^64, for every scale 1..255 and all register values.
   Part 2 (mir-gen.c update_addr_p, -O2/-O3): every step of the combiner that folds add / mul / lsh by constants back
   into base + index*scale + disp preserves that address, given the regenerated guards / scale update. *)
From Coq Require Import ZArith Lia Bool List Morphisms Setoid.
From MirV Require Import Base.W64 Mir.Opcode Mir.DocSpecInt C02.AddrDefs gen.AddrTable.
Import ListNotations.
Local Open Scope Z_scope.

(* ------------------------------------------------------------------ part 1: the lowering *)
Definition regfile := areg -> option Z.
Definition rf_empty : regfile := fun _ => None.
Definition rf_set (rf : regfile) (r : areg) (v : Z) : regfile := fun x => if areg_eqb x r then Some v else rf x.

Definition is_some {A} (o : option A) : bool := match o with Some _ => true | None => false end.
Definition oz (o : option Z) : Z := match o with Some v => v | None => 0 end.

Section Lowering.
  Variables (base index : option Z) (scale disp : Z).

  (* the register simplify_op uses when the instruction defining a temporary was not inserted:
     scale_ind_reg = index; base_ind_reg = base_reg != 0 ? base_reg : scale_ind_reg;
     addr_reg = base_ind_reg == 0 ? disp_reg : (disp_reg == 0 ? base_ind_reg : the sum) *)
  Definition rd_scale_ind (rf : regfile) : option Z :=
    match rf RScaleInd with Some v => Some v | None => index end.
  Definition rd_base_ind (rf : regfile) : option Z :=
    match rf RBaseInd with
    | Some v => Some v
    | None => match base with Some b => Some b | None => rd_scale_ind rf end
    end.
  Definition rd_addr (rf : regfile) : option Z :=
    match rf RAddr with
    | Some v => Some v
    | None => match rd_base_ind rf with Some v => Some v | None => rf RDisp end
    end.
  Definition rd (rf : regfile) (r : areg) : option Z :=
    match r with
    | RBase => base
    | RIndex => index
    | RScaleInd => rd_scale_ind rf
    | RBaseInd => rd_base_ind rf
    | RAddr => rd_addr rf
    | RDisp => rf RDisp
    | RScaleC => rf RScaleC
    end.

  Definition cond_holds (c : acond) (rf : regfile) : bool :=
    match c with
    | CDisp => negb (disp =? 0)
    | CScale => is_some index && (1 <? scale)
    | CBaseInd => is_some base && is_some (rd_scale_ind rf)
    | CSum => is_some (rd_base_ind rf) && is_some (rf RDisp)
    end.

  Definition arg_val (rf : regfile) (a : aarg) : option (list Z) :=
    match a with
    | AReg r => match rd rf r with Some v => Some [v] | None => None end
    | AConstDisp => Some [disp]
    | AConstScale => Some [scale]
    | ANone => Some []
    | AUnknown => None
    end.

  Definition exec1 (rf : regfile) (i : ainsn) : option regfile :=
    let '(c, op, d, a1, a2) := i in
    if cond_holds c rf then
      match arg_val rf a1, arg_val rf a2 with
      | Some l1, Some l2 =>
          match doc_sem_int op (l1 ++ l2) with Some v => Some (rf_set rf d v) | None => None end
      | _, _ => None
      end
    else Some rf.

  Fixpoint exec (rf : regfile) (l : list ainsn) : option regfile :=
    match l with
    | [] => Some rf
    | i :: l' => match exec1 rf i with Some rf' => exec rf' l' | None => None end
    end.

  Definition lowered_addr (l : list ainsn) : option Z :=
    match exec rf_empty l with Some rf => rd_addr rf | None => None end.
End Lowering.

Definition canonical_insns : list ainsn :=
  [ (CDisp, MOV, RDisp, AConstDisp, ANone)
  ; (CScale, MOV, RScaleC, AConstScale, ANone)
  ; (CScale, MUL, RScaleInd, AReg RIndex, AReg RScaleC)
  ; (CBaseInd, ADD, RBaseInd, AReg RBase, AReg RScaleInd)
  ; (CSum, ADD, RAddr, AReg RBaseInd, AReg RDisp) ].

Definition ainsn_eqb (a b : ainsn) : bool :=
  let '(c1, o1, d1, x1, y1) := a in
  let '(c2, o2, d2, x2, y2) := b in
  acond_eqb c1 c2 && opcode_eqb o1 o2 && areg_eqb d1 d2 && aarg_eqb x1 x2 && aarg_eqb y1 y2.

Fixpoint insns_eqb (l1 l2 : list ainsn) : bool :=
  match l1, l2 with
  | [], [] => true
  | a :: l1', b :: l2' => ainsn_eqb a b && insns_eqb l1' l2'
  | _, _ => false
  end.

Lemma areg_eqb_eq a b : areg_eqb a b = true -> a = b.
Proof. destruct a, b; cbn; congruence. Qed.
Lemma aarg_eqb_eq a b : aarg_eqb a b = true -> a = b.
Proof. destruct a, b; cbn; try congruence. intros H. apply areg_eqb_eq in H. congruence. Qed.
Lemma acond_eqb_eq a b : acond_eqb a b = true -> a = b.
Proof. destruct a, b; cbn; congruence. Qed.

Lemma ainsn_eqb_eq a b : ainsn_eqb a b = true -> a = b.
Proof.
  destruct a as [[[[c1 o1] d1] x1] y1], b as [[[[c2 o2] d2] x2] y2]. unfold ainsn_eqb.
  rewrite !andb_true_iff. intros [[[[Hc Ho] Hd] Hx] Hy].
  apply acond_eqb_eq in Hc. apply opcode_eqb_eq in Ho. apply areg_eqb_eq in Hd.
  apply aarg_eqb_eq in Hx. apply aarg_eqb_eq in Hy. congruence.
Qed.

Lemma insns_eqb_eq l1 : forall l2, insns_eqb l1 l2 = true -> l1 = l2.
Proof.
  induction l1 as [|a l1 IH]; destruct l2 as [|b l2]; cbn; try congruence.
  rewrite andb_true_iff. intros [H1 H2]. apply ainsn_eqb_eq in H1. apply IH in H2. congruence.
Qed.

Definition lowering_ok (l : list ainsn) : bool := insns_eqb l canonical_insns.

(* arithmetic modulo 2^64: Coq.ZArith.Zdiv.eqm with its morphisms for + and * *)
Definition cong (a b : Z) : Prop := a mod 2 ^ 64 = b mod 2 ^ 64.

#[local] Instance cong_equiv : Equivalence cong.
Proof. exact (eqm_setoid (2 ^ 64)). Qed.
#[local] Instance cong_add : Proper (cong ==> cong ==> cong) Z.add.
Proof. exact (Zplus_eqm (2 ^ 64)). Qed.
#[local] Instance cong_mul : Proper (cong ==> cong ==> cong) Z.mul.
Proof. exact (Zmult_eqm (2 ^ 64)). Qed.

Lemma cong_wrap a : cong (uwrap 64 a) a.
Proof. unfold cong, uwrap. apply Z.mod_mod. lia. Qed.
Lemma cong_u64 a : cong (u64 a) a.
Proof. apply cong_wrap. Qed.
Lemma cong_uw64 a : cong (uw W64 a) a.
Proof. apply cong_wrap. Qed.
Lemma cong_u64_eq a b : cong a b -> u64 a = u64 b.
Proof. intros H. exact H. Qed.

Lemma cong_of_eq a b : a = b -> cong a b.
Proof. intros ->. reflexivity. Qed.

Ltac cong_solve :=
  apply cong_u64_eq; rewrite ?cong_uw64, ?cong_u64;
  apply cong_of_eq; ring.

Example cong_test a b c s : u64 (uw W64 (uw W64 (a + uw W64 (b * u64 s)) + u64 c)) = u64 (a + b * s + c).
Proof. cong_solve. Qed.

(* the documented address of the operand *)
Definition doc_addr (base index : option Z) (scale disp : Z) : Z := u64 (oz base + oz index * scale + disp).

Theorem canonical_lowering_sound base index scale disp :
  1 <= scale <= 255 -> (is_some base || is_some index || negb (disp =? 0) = true) ->
  exists a, lowered_addr base index scale disp canonical_insns = Some a /\ u64 a = doc_addr base index scale disp.
Proof.
  intros Hs Hp. unfold doc_addr, lowered_addr, canonical_insns.
  destruct base as [b|], index as [i|]; destruct (disp =? 0) eqn:Ed; destruct (1 <? scale) eqn:Es;
    cbn in Hp; try discriminate Hp;
    try (apply Z.eqb_eq in Ed; subst disp);
    try (apply Z.ltb_ge in Es; assert (scale = 1) by lia; subst scale);
    cbn -[Z.mul Z.add Z.pow u64 uw]; rewrite ?Ed, ?Es; cbn -[Z.mul Z.add Z.pow u64 uw];
    eexists; (split; [reflexivity|]); cbn [oz]; cong_solve.
Qed.

Theorem lowering_ok_sound l : lowering_ok l = true ->
  forall base index scale disp, 1 <= scale <= 255 -> (is_some base || is_some index || negb (disp =? 0) = true) ->
  exists a, lowered_addr base index scale disp l = Some a /\ u64 a = doc_addr base index scale disp.
Proof.
  intros H. apply insns_eqb_eq in H. subst l. apply canonical_lowering_sound.
Qed.

(* ------------------------------------------------------------------ part 2: the address combiner (update_addr_p)
   addr_info = (disp, base, index, scale); base / index are SSA values (here: their run-time values, 0 when absent --
   an absent index has scale 1).  One iteration looks at the instruction DEFINING the base resp. index register
   (var_plus_const / var_mult_const / var_plus_var) and rewrites addr_info; the regenerated parts are the guard in front
   of var_mult_const in the base step, the displacement update of the index step and the scale update. *)
Record ainfo := { ai_disp : Z; ai_base : Z; ai_index : Z; ai_scale : Z }.
Definition ai_addr (a : ainfo) : Z := u64 (ai_disp a + ai_base a + ai_index a * ai_scale a).

Inductive cstep :=
  | SBasePlus (b' c : Z)     (* base is defined as b' + c (mov, add, sub of a constant) *)
  | SBaseMult (b' c : Z)     (* base is defined as b' * c (mul, lsh by a constant), 0 <= c <= 255 *)
  | SBaseSum (x y : Z)       (* base is defined as x + y and there is no index yet *)
  | SIndexPlus (i' c : Z)    (* index is defined as i' + c *)
  | SIndexMult (i' c : Z).   (* index is defined as i' * c, 0 <= c <= 255 *)

Definition step_premise (a : ainfo) (s : cstep) : Prop :=
  match s with
  | SBasePlus b' c => cong (ai_base a) (b' + c)
  | SBaseMult b' c => cong (ai_base a) (b' * c) /\ 0 <= c <= 255
  | SBaseSum x y => cong (ai_base a) (x + y) /\ ai_index a = 0 /\ ai_scale a = 1
  | SIndexPlus i' c => cong (ai_index a) (i' + c)
  | SIndexMult i' c => cong (ai_index a) (i' * c) /\ 0 <= c <= 255
  end.

Definition apply_step (guard1 scaled_disp : bool) (su : scale_update) (a : ainfo) (s : cstep) : option ainfo :=
  match s with
  | SBasePlus b' c =>
      Some {| ai_disp := ai_disp a + c; ai_base := b'; ai_index := ai_index a; ai_scale := ai_scale a |}
  | SBaseMult b' c =>
      if guard1 && negb (ai_scale a =? 1) then None
      else if c =? 1 then Some {| ai_disp := ai_disp a; ai_base := b'; ai_index := ai_index a; ai_scale := ai_scale a |}
      else Some {| ai_disp := ai_disp a; ai_base := ai_index a; ai_index := b'; ai_scale := c |}   (* SWAP (base, index) *)
  | SBaseSum x y =>
      Some {| ai_disp := ai_disp a; ai_base := x; ai_index := y; ai_scale := ai_scale a |}
  | SIndexPlus i' c =>
      Some {| ai_disp := ai_disp a + (if scaled_disp then c * ai_scale a else c); ai_base := ai_base a; ai_index := i';
              ai_scale := ai_scale a |}
  | SIndexMult i' c =>
      match su with
      | SU_checked =>
          if c * ai_scale a >? 255 then None
          else Some {| ai_disp := ai_disp a; ai_base := ai_base a; ai_index := i'; ai_scale := c * ai_scale a |}
      | SU_wrap8 =>
          Some {| ai_disp := ai_disp a; ai_base := ai_base a; ai_index := i'; ai_scale := (ai_scale a * c) mod 256 |}
      | SU_unknown => None
      end
  end.

Definition combiner_ok (guard1 scaled_disp : bool) (su : scale_update) : bool :=
  guard1 && scaled_disp && match su with SU_checked => true | _ => false end.

Theorem combiner_ok_sound guard1 scaled_disp su : combiner_ok guard1 scaled_disp su = true ->
  forall a s a', step_premise a s -> apply_step guard1 scaled_disp su a s = Some a' -> ai_addr a' = ai_addr a.
Proof.
  unfold combiner_ok. intros H. apply andb_true_iff in H. destruct H as [H Hsu].
  apply andb_true_iff in H. destruct H as [-> ->]. destruct su; try discriminate Hsu. clear Hsu.
  intros a s a' Hp Ha. destruct a as [d b i sc]. unfold ai_addr.
  destruct s as [b' c | b' c | x y | i' c | i' c]; cbn in Hp, Ha |- *.
  - inversion Ha; subst; clear Ha. cbn. apply cong_u64_eq. rewrite Hp. apply cong_of_eq. ring.
  - destruct Hp as [Hp Hc]. destruct (sc =? 1) eqn:E; cbn in Ha; try discriminate Ha.
    apply Z.eqb_eq in E. subst sc. destruct (c =? 1) eqn:E1; inversion Ha; subst; clear Ha; cbn; apply cong_u64_eq; rewrite Hp.
    + apply Z.eqb_eq in E1. subst c. apply cong_of_eq. ring.
    + apply cong_of_eq. ring.
  - destruct Hp as [Hp [Hi Hs]]. subst. inversion Ha; subst; clear Ha. cbn. apply cong_u64_eq. rewrite Hp.
    apply cong_of_eq. ring.
  - inversion Ha; subst; clear Ha. cbn. apply cong_u64_eq. rewrite Hp. apply cong_of_eq. ring.
  - destruct Hp as [Hp Hc]. destruct (c * sc >? 255); try discriminate Ha. inversion Ha; subst; clear Ha. cbn.
    apply cong_u64_eq. rewrite Hp. apply cong_of_eq. ring.
Qed.

(* both regenerated guards are needed: without the scale = 1 guard an already scaled index becomes an unscaled base ... *)
Example combiner_needs_scale1_guard :
  exists a s a', step_premise a s /\ apply_step false true SU_checked a s = Some a' /\ ai_addr a' <> ai_addr a.
Proof.
  exists {| ai_disp := 0; ai_base := 24; ai_index := 5; ai_scale := 4 |}, (SBaseMult 3 8).
  eexists. split; [|split; [reflexivity|]].
  - cbn. split; [reflexivity | lia].
  - vm_compute. discriminate.
Qed.

(* ... and a product of scales kept in 8 bits is another scale (2 * 129 = 258 = 2 modulo 256) *)
Example combiner_wrap8_refuted :
  exists a s a', step_premise a s /\ apply_step true true SU_wrap8 a s = Some a' /\ ai_addr a' <> ai_addr a.
Proof.
  exists {| ai_disp := 0; ai_base := 0; ai_index := 387; ai_scale := 2 |}, (SIndexMult 3 129).
  eexists. split; [|split; [reflexivity|]].
  - cbn. split; [reflexivity | lia].
  - vm_compute. discriminate.
Qed.

(* ------------------------------------------------------------------ the regenerated descriptions of the checked tree *)
Lemma simplify_addr_insns_ok : lowering_ok simplify_addr_insns = true.
Proof. vm_compute. reflexivity. Qed.

Lemma simplify_lowering_sound : forall base index scale disp,
  1 <= scale <= 255 -> (is_some base || is_some index || negb (disp =? 0) = true) ->
  exists a, lowered_addr base index scale disp simplify_addr_insns = Some a /\ u64 a = doc_addr base index scale disp.
Proof. exact (lowering_ok_sound _ simplify_addr_insns_ok). Qed.

Lemma combiner_flags_ok :
  combiner_ok combiner_base_mult_needs_scale1 combiner_index_plus_scales_disp combiner_index_mult = true.
Proof. vm_compute. reflexivity. Qed.

Lemma combiner_steps_sound : forall a s a', step_premise a s ->
  apply_step combiner_base_mult_needs_scale1 combiner_index_plus_scales_disp combiner_index_mult a s = Some a' ->
  ai_addr a' = ai_addr a.
Proof. exact (combiner_ok_sound _ _ _ combiner_flags_ok). Qed.

(* non-vacuity: the lowering really multiplies by scales that are not powers of two *)
Example lowering_scale3 :
  lowered_addr (Some 1000) (Some 7) 3 (-5) simplify_addr_insns = Some 1016.
Proof. vm_compute. reflexivity. Qed.
Example lowering_shift_rejected :
  lowering_ok [ (CDisp, MOV, RDisp, AConstDisp, ANone); (CScale, MOV, RScaleC, AUnknown, ANone);
                (CScale, LSH, RScaleInd, AReg RIndex, AReg RScaleC); (CBaseInd, ADD, RBaseInd, AReg RBase, AReg RScaleInd);
                (CSum, ADD, RAddr, AReg RBaseInd, AReg RDisp) ] = false.
Proof. vm_compute. reflexivity. Qed.

(* Facts about the REGENERATED builtin table (coq/gen/X86Builtins.v): every row is accepted by the verified recognisers.
   This file stops compiling when one of the conversion functions of mir-gen-x86_64.c changes its casts (e.g. a detour
   through another floating point type, which rounds twice). *)
From Coq Require Import ZArith Bool List.
From MirV Require Import Mir.DocSpec Mir.CExpr C02.RowCheck C02.Table C02.BuiltinCheck gen.InterpTable gen.X86Builtins.
Import ListNotations.

Lemma x86_builtins_ok : builtins_ok interp_table x86_builtin_codes x86_builtin_table = true.
Proof. vm_compute. reflexivity. Qed.

Lemma x86_builtin_rows_sound : forall op s, In (op, s) x86_builtin_table -> ld_opcode op = false -> row_sound op s.
Proof. exact (builtins_ok_sound _ _ _ x86_builtins_ok). Qed.

Lemma x86_builtin_ld_rows : forall op s d, In (op, s) x86_builtin_table -> ld_twin op = Some d ->
  exists sd, In (d, sd) interp_table /\ cstmt_eqb sd (ld2d_stmt s) = true /\ row_sound d sd.
Proof. exact (builtins_ok_ld_twin _ _ _ x86_builtins_ok). Qed.

Lemma x86_builtin_rows_total : forall op, In op x86_builtin_codes -> exists s, In (op, s) x86_builtin_table.
Proof. exact (builtins_ok_total _ _ _ x86_builtins_ok). Qed.

(* X86Table: an accepted row is sound for the class of its opcode (xrow_ok_sound); a table accepted by
   x86_table_ok is sound at every instruction the generator can select a row for (table_select_sound):
   rows that are not accepted must be shadowed by an earlier row of the same opcode, and then they are
   never selected. *)
From Coq Require Import ZArith Lia Bool List String.
From MirV Require Import Base.W64 Mir.Opcode Mir.DocSpecInt C02.WFacts C02.X86Sem C02.X86Check C02.X86Facts
  C02.X86Proofs C02.X86MulDiv.
Import ListNotations.
Local Open Scope Z_scope.

Arguments uwrap : simpl never.
Arguments swrap : simpl never.
Arguments Z.pow : simpl never.
Arguments Z.mul : simpl never.
Arguments Z.add : simpl never.
Arguments Z.sub : simpl never.
Arguments Z.opp : simpl never.
Arguments Z.eqb : simpl never.
Arguments Z.ltb : simpl never.
Arguments Z.leb : simpl never.

Ltac two_args Ha Hd :=
  match type of Hd with
  | context [args_of ?st ?ops] =>
      destruct (args_of st ops) as [|?a [|?b [|? ?]]] eqn:Ha; try discriminate Hd
  end.

Ltac one_arg Ha Hd :=
  match type of Hd with
  | context [args_of ?st ?ops] =>
      destruct (args_of st ops) as [|?a [|? ?]] eqn:Ha; try discriminate Hd
  end.

Theorem xrow_ok_sound early uext8 code pat tmpl cls :
  xrow_ok early uext8 (code, pat, tmpl) = true -> xclass_of code = Some cls ->
  row_sound_x86 early cls (code, pat, tmpl).
Proof.
  unfold xrow_ok, row_sound_x86, row_sound_at. intros Hok Hcls ops st Hpm Hearly.
  destruct (decode tmpl) as [insns|]; [|discriminate]. exists insns. split; [reflexivity|].
  unfold xclass_of in Hcls. unfold doc_sem_int, doc_branch_int, doc_ovf, ovf_defined.
  destruct (int_class code) as [|sg n|w|io w|c sg w|] eqn:Hic; cbn iota beta in Hcls, Hok |- *.
  - (* mov *)
    injection Hcls as <-. intros d Hd. one_arg Ha Hd. injection Hd as <-.
    pose proof (mov_sound pat insns ops st Hok Hpm) as H. rewrite Ha in H. exact H.
  - (* ext *)
    injection Hcls as <-. intros d Hd.
    pose proof (ext_sound sg n pat insns ops st Hok Hpm) as H.
    destruct sg; one_arg Ha Hd; injection Hd as <-; exact H.
  - (* neg *)
    injection Hcls as <-. intros d Hd. one_arg Ha Hd. injection Hd as <-.
    pose proof (neg_sound w pat insns ops st Hok Hpm) as H. rewrite Ha in H. exact H.
  - (* binary *)
    destruct io; injection Hcls as <-; intros d Hd; two_args Ha Hd; cbn [aluop_of shop_of] in Hok;
      rewrite ?orb_false_r in Hok.
    + (* add *) apply orb_prop in Hok. destruct Hok as [Hok|Hok].
      * pose proof (alu_value_sound IAdd AAdd w pat insns ops st d eq_refl Hok Hpm) as H. rewrite Ha in H. apply H. exact Hd.
      * pose proof (lea_add_sound w pat insns ops st d Hok Hpm) as H. rewrite Ha in H. apply H. exact Hd.
    + pose proof (alu_value_sound ISub ASub w pat insns ops st d eq_refl Hok Hpm) as H. rewrite Ha in H. apply H. exact Hd.
    + (* mul *)
      destruct (mul_exec w pat insns ops st Hok Hpm) as (st' & Hrun & Hv & Hf & _). rewrite Ha in Hv. cbn [nth] in Hv.
      cbn [ibin] in Hd. injection Hd as <-. exists st'. repeat split; try assumption; apply Hf.
    + apply andb_prop in Hok. destruct Hok as [Hok Hin].
      pose proof (div_exec true false w pat insns ops st d Hok Hpm (Hearly Hin)) as H. rewrite Ha in H. apply H. exact Hd.
    + apply andb_prop in Hok. destruct Hok as [Hok Hin].
      pose proof (div_exec true true w pat insns ops st d Hok Hpm (Hearly Hin)) as H. rewrite Ha in H. apply H. exact Hd.
    + apply andb_prop in Hok. destruct Hok as [Hok Hin].
      pose proof (div_exec false false w pat insns ops st d Hok Hpm (Hearly Hin)) as H. rewrite Ha in H. apply H. exact Hd.
    + apply andb_prop in Hok. destruct Hok as [Hok Hin].
      pose proof (div_exec false true w pat insns ops st d Hok Hpm (Hearly Hin)) as H. rewrite Ha in H. apply H. exact Hd.
    + pose proof (alu_value_sound IAnd AAnd w pat insns ops st d eq_refl Hok Hpm) as H. rewrite Ha in H. apply H. exact Hd.
    + pose proof (alu_value_sound IOr AOr w pat insns ops st d eq_refl Hok Hpm) as H. rewrite Ha in H. apply H. exact Hd.
    + pose proof (alu_value_sound IXor AXor w pat insns ops st d eq_refl Hok Hpm) as H. rewrite Ha in H. apply H. exact Hd.
    + pose proof (shift_sound ILsh SShl w pat insns ops st d eq_refl Hok Hpm) as H. rewrite Ha in H. apply H. exact Hd.
    + pose proof (shift_sound IRsh SSar w pat insns ops st d eq_refl Hok Hpm) as H. rewrite Ha in H. apply H. exact Hd.
    + pose proof (shift_sound IURsh SShr w pat insns ops st d eq_refl Hok Hpm) as H. rewrite Ha in H. apply H. exact Hd.
  - (* compare: low 8 bits; the uext8 that target_machinize appends makes it the 64-bit value *)
    injection Hcls as <-. intros d Hd. two_args Ha Hd. injection Hd as <-.
    apply andb_prop in Hok. destruct Hok as [Hok _].
    pose proof (cmp_value_sound c sg w pat insns ops st Hok Hpm) as H. rewrite Ha in H. exact H.
  - destruct (ovf_class code) as [[o w]|] eqn:Hoc; cbn iota beta in Hcls, Hok |- *.
    + (* overflow arithmetic *)
      destruct o; injection Hcls as <-; intros d sf uf Hd; two_args Ha Hd;
        apply (f_equal (fun x => match x with Some y => y | None => (0, false, false) end)) in Hd; cbn beta iota in Hd; cbn [fst snd].
      * pose proof (alu_ovf_sound OAdd w pat insns ops st d sf uf (or_introl eq_refl) Hok Hpm) as H. rewrite Ha in H.
        destruct (H Hd) as (st' & H1 & H2 & H3 & H4 & H5). exists st'. repeat split; try assumption; try apply H3; intros _; assumption.
      * pose proof (alu_ovf_sound OSub w pat insns ops st d sf uf (or_intror eq_refl) Hok Hpm) as H. rewrite Ha in H.
        destruct (H Hd) as (st' & H1 & H2 & H3 & H4 & H5). exists st'. repeat split; try assumption; try apply H3; intros _; assumption.
      * destruct (mul_exec w pat insns ops st Hok Hpm) as (st' & Hrun & Hv & Hf & Hof). rewrite Ha in Hv, Hof. cbn [nth] in Hv, Hof.
        unfold ovf in Hd. cbn [exact_op] in Hd. injection Hd as <- <- <-.
        exists st'. repeat split; try assumption; try apply Hf; intros Hx; try discriminate Hx; assumption.
      * destruct (umul_exec w pat insns ops st Hok Hpm) as (st' & Hrun & Hv & Hf & Hcf). rewrite Ha in Hv, Hcf. cbn [nth] in Hv, Hcf.
        unfold ovf in Hd. cbn [exact_op] in Hd. injection Hd as <- <- <-.
        exists st'. repeat split; try assumption; try apply Hf; intros Hx; try discriminate Hx; assumption.
    + destruct (int_branch_class code) as [|w|w|c sg w|] eqn:Hbc; cbn iota beta in Hcls, Hok |- *.
      * injection Hcls as <-. intros b Hb. destruct (args_of st ops); [|discriminate]. injection Hb as <-.
        apply (jmp_sound pat insns ops st Hok).
      * injection Hcls as <-. intros b Hb. one_arg Ha Hb. injection Hb as <-.
        pose proof (btf_sound true w pat insns ops st Hok Hpm) as H. rewrite Ha in H. exact H.
      * injection Hcls as <-. intros b Hb. one_arg Ha Hb. injection Hb as <-.
        pose proof (btf_sound false w pat insns ops st Hok Hpm) as H. rewrite Ha in H. exact H.
      * injection Hcls as <-. intros b Hb. two_args Ha Hb. injection Hb as <-.
        pose proof (bcmp_sound c sg w pat insns ops st Hok Hpm) as H. rewrite Ha in H. exact H.
      * assert (Hc : cls = XCovfbranch) by (destruct code; try discriminate Hcls; injection Hcls as <-; reflexivity).
        subst cls. intros b Hb. apply (ovfbr_sound code pat insns ops st b Hok Hpm Hb).
Qed.

(* ------------------------------------------------------------------ shadowing *)
Lemma int_fits_mono b bits v : 0 < b <= bits -> int_fits b v = true -> int_fits bits v = true.
Proof.
  intros Hb Hf. unfold int_fits in *. apply andb_prop in Hf. destruct Hf as [F1 F2].
  apply Z.leb_le in F1. apply Z.ltb_lt in F2.
  assert (2 ^ (b - 1) <= 2 ^ (bits - 1)) by (apply Z.pow_le_mono_r; lia).
  apply andb_true_intro. split; [apply Z.leb_le | apply Z.ltb_lt]; lia.
Qed.

Definition pi_fits (k : nat) (v : Z) : bool :=
  match k with 0%nat => int_fits 8 v | 1%nat => int_fits 16 v | 2%nat => int_fits 32 v | _ => true end.

Lemma pi_fits_mono a b v : (b <= a)%nat -> pi_fits b v = true -> pi_fits a v = true.
Proof.
  intros Hle Hf. destruct a as [|[|[|a]]]; destruct b as [|[|[|b]]]; cbn [pi_fits] in *; try reflexivity; try lia; try assumption.
  - apply (int_fits_mono 8); [lia | assumption].
  - apply (int_fits_mono 8); [lia | assumption].
  - apply (int_fits_mono 16); [lia | assumption].
Qed.

Lemma small_fits v u k : uwrap 64 v = u -> 0 <= u <= 8 -> pi_fits k v = true.
Proof.
  intros Hu Hr.
  assert (Hs : swrap 64 v = u).
  { rewrite <- (swrap_uwrap 64 v) by lia. rewrite Hu. apply swrap_id; [lia|]. unfold in_s. change (2 ^ (64 - 1)) with 9223372036854775808. lia. }
  assert (H8 : int_fits 8 v = true).
  { unfold int_fits. rewrite Hs. change (2 ^ (8 - 1)) with 128. apply andb_true_intro. split; [apply Z.leb_le | apply Z.ltb_lt]; lia. }
  destruct k as [|[|[|k]]]; cbn [pi_fits]; try reflexivity; try assumption.
  - apply (int_fits_mono 8); [lia | assumption].
  - apply (int_fits_mono 8); [lia | assumption].
Qed.

Lemma int_fits_congr bits v z : uwrap 64 v = uwrap 64 z -> int_fits bits v = int_fits bits z.
Proof.
  intros H. unfold int_fits. assert (E : swrap 64 v = swrap 64 z) by (apply swrap_inj_uwrap; [lia | exact H]).
  rewrite E. reflexivity.
Qed.

Lemma pel_subsumes_ok prev g s o : pel_subsumes g s = true -> pel_match prev s o = true -> pel_match prev g o = true.
Proof.
  intros Hs Hm. destruct g as [|ga| |ga| |ga|gs ga|gl|ga|]; destruct s as [|sa| |sa| |sa|ss sa|sl|sa|]; try discriminate Hs;
    try (destruct gs; discriminate Hs); try (destruct gl; discriminate Hs).
  - exact Hm.
  - destruct o; cbn in Hm |- *; try discriminate; reflexivity.
  - cbn in Hs. apply Nat.eqb_eq in Hs. subst. exact Hm.
  - exact Hm.
  - (* PI / PZ *) destruct o as [| |v|]; cbn [pel_match] in Hm |- *; try discriminate. apply Z.eqb_eq in Hm.
    change (pi_fits ga v = true). apply (small_fits v 0); [exact Hm | lia].
  - (* PI / PI *) destruct o as [| |v|]; cbn [pel_match] in Hm |- *; try discriminate. cbn in Hs. apply Nat.leb_le in Hs.
    change (pi_fits ga v = true). change (pi_fits sa v = true) in Hm. eapply pi_fits_mono; eassumption.
  - (* PI / PS *) destruct o as [| |v|]; cbn [pel_match] in Hm |- *; try discriminate. cbn zeta in Hm.
    change (pi_fits ga v = true).
    destruct (Z.eqb_spec (uwrap 64 v) 1); [apply (small_fits v 1); [assumption | lia]|].
    destruct (Z.eqb_spec (uwrap 64 v) 2); [apply (small_fits v 2); [assumption | lia]|].
    destruct (Z.eqb_spec (uwrap 64 v) 4); [apply (small_fits v 4); [assumption | lia]|].
    destruct (Z.eqb_spec (uwrap 64 v) 8); [apply (small_fits v 8); [assumption | lia]|]. discriminate.
  - (* PI / PC *) destruct o as [| |v|]; cbn [pel_match] in Hm |- *; try discriminate. apply Z.eqb_eq in Hm.
    change (pi_fits ga v = true). cbn [pel_subsumes] in Hs.
    destruct ga as [|[|[|ga]]]; cbn [pi_fits]; try reflexivity; rewrite (int_fits_congr _ v sa Hm); exact Hs.
  - exact Hm.
  - (* PC / PC *) cbn in Hs. apply Z.eqb_eq in Hs. subst. exact Hm.
  - (* PM *)
    destruct o as [|os ok| |]; cbn [pel_match] in Hm |- *; try discriminate.
    apply andb_prop in Hm. destruct Hm as [Hm Hsg]. apply andb_prop in Hm. destruct Hm as [Hk Hk3].
    apply Nat.eqb_eq in Hk. subst ok.
    destruct gs as [gb|].
    + destruct ss as [sb|]; [|discriminate Hs]. cbn in Hs. apply andb_prop in Hs. destruct Hs as [Hb Ha].
      apply eqb_prop in Hb. apply Nat.eqb_eq in Ha. subst. rewrite Nat.eqb_refl, Hk3, Hsg. reflexivity.
    + cbn in Hs. apply Nat.eqb_eq in Hs. subst. rewrite Nat.eqb_refl, Hk3. reflexivity.
  - destruct o; cbn in Hm |- *; try discriminate; reflexivity.
  - cbn in Hs. apply Nat.eqb_eq in Hs. subst. exact Hm.
Qed.

Lemma pat_subsumes_ok g : forall s prev ops, pat_subsumes g s = true -> pat_match prev s ops = true -> pat_match prev g ops = true.
Proof.
  induction g as [|a g IH]; intros s prev ops Hs Hm; destruct s as [|b s]; try discriminate Hs.
  - exact Hm.
  - cbn [pat_subsumes] in Hs. apply andb_prop in Hs. destruct Hs as [Hab Hgs].
    destruct ops as [|o ops]; [discriminate Hm|]. cbn [pat_match] in Hm |- *.
    apply andb_prop in Hm. destruct Hm as [M1 M2].
    rewrite (pel_subsumes_ok prev a b o Hab M1). cbn [andb]. apply (IH s _ _ Hgs M2).
Qed.

Lemma find_app_none {A} (f : A -> bool) l x : find f l = None -> f x = false -> find f (l ++ [x]) = None.
Proof.
  induction l as [|y l IH]; cbn [find app]; intros H Hx.
  - rewrite Hx. reflexivity.
  - destruct (f y); [discriminate | apply IH; assumption].
Qed.

Lemma find_none_all {A} (f : A -> bool) l x : find f l = None -> In x l -> f x = false.
Proof. intros H Hin. apply (find_none f l H x Hin). Qed.

(* the selected row of an accepted table is an accepted row *)
Lemma table_ok_selected early uext8 scope code ops : scope code = true ->
  forall rest seen row,
  table_ok_from early uext8 seen rest scope = true ->
  find (row_matches code ops) seen = None ->
  find (row_matches code ops) rest = Some row ->
  xrow_ok early uext8 row = true /\ fst (fst row) = code /\ pat_match [] (snd (fst row)) ops = true.
Proof.
  intros Hscope. induction rest as [|r0 rest IH]; intros seen row Hok Hseen Hfind; [discriminate Hfind|].
  cbn [table_ok_from] in Hok. destruct r0 as [[c p] t]. apply andb_prop in Hok. destruct Hok as [Hrow Hrest].
  cbn [find] in Hfind. destruct (row_matches code ops (c, p, t)) eqn:Hm.
  - injection Hfind as <-. unfold row_matches in Hm. apply andb_prop in Hm. destruct Hm as [Hc Hp].
    apply opcode_eqb_eq in Hc. subst c. cbn [fst snd]. split; [|split; [reflexivity | exact Hp]].
    rewrite Hscope in Hrow. cbn [negb orb] in Hrow. apply orb_prop in Hrow. destruct Hrow as [Hrow|Hsh]; [exact Hrow|].
    exfalso. apply existsb_exists in Hsh. destruct Hsh as ([[c' p'] t'] & Hin & He).
    apply andb_prop in He. destruct He as [Hc' Hsub].
    pose proof (find_none_all _ _ _ Hseen Hin) as Hno. unfold row_matches in Hno.
    rewrite Hc' in Hno. rewrite (pat_subsumes_ok p' p [] ops Hsub Hp) in Hno. discriminate.
  - apply (IH (seen ++ [(c, p, t)]) row Hrest); [apply find_app_none; assumption | exact Hfind].
Qed.

Theorem table_select_sound early uext8 tbl :
  x86_table_ok early uext8 tbl = true ->
  forall code cls ops st row, xclass_of code = Some cls ->
    x86_select tbl code ops = Some row -> early_ok early code ops ->
    row_sound_at cls row ops st.
Proof.
  intros Hok code cls ops st row Hcls Hsel Hearly.
  assert (Hscope : x86_scope code = true) by (unfold x86_scope; rewrite Hcls; reflexivity).
  destruct (table_ok_selected early uext8 x86_scope code ops Hscope tbl [] row Hok eq_refl Hsel) as (Hrow & Hc & Hp).
  destruct row as [[c p] t]. cbn [fst snd] in Hc, Hp. subst c.
  apply (xrow_ok_sound early uext8 code p t cls Hrow Hcls ops st Hp Hearly).
Qed.

(* ------------------------------------------------------------------ every row: sound, or dead *)
Definition shadowed_by (seen : list xrow) (code : opcode) (pat : list pel) : bool :=
  existsb (fun e : xrow => let '(c', p', _) := e in opcode_eqb c' code && pat_subsumes p' pat) seen.

Lemma table_ok_rows early uext8 scope : forall rest seen,
  table_ok_from early uext8 seen rest scope = true ->
  forall pre code pat tmpl post, rest = pre ++ (code, pat, tmpl) :: post -> scope code = true ->
  xrow_ok early uext8 (code, pat, tmpl) = true \/ shadowed_by (seen ++ pre) code pat = true.
Proof.
  induction rest as [|r0 rest IH]; intros seen Hok pre code pat tmpl post Hsplit Hscope.
  - destruct pre; discriminate Hsplit.
  - cbn [table_ok_from] in Hok. destruct r0 as [[c p] t]. apply andb_prop in Hok. destruct Hok as [Hrow Hrest].
    destruct pre as [|x pre].
    + cbn [app] in Hsplit. injection Hsplit as -> -> -> ->. rewrite app_nil_r.
      rewrite Hscope in Hrow. cbn [negb orb] in Hrow. apply orb_prop in Hrow. destruct Hrow as [H|H]; [left | right]; exact H.
    + cbn [app] in Hsplit. injection Hsplit as <- ->.
      destruct (IH (seen ++ [(c, p, t)]) Hrest pre code pat tmpl post eq_refl Hscope) as [H|H]; [left; exact H | right].
      rewrite <- app_assoc in H. exact H.
Qed.

Theorem table_rows_sound_or_dead early uext8 tbl :
  x86_table_ok early uext8 tbl = true ->
  forall pre code pat tmpl post cls, tbl = pre ++ (code, pat, tmpl) :: post -> xclass_of code = Some cls ->
    row_sound_x86 early cls (code, pat, tmpl)
    \/ (forall ops, pat_match [] pat ops = true -> exists e, In e pre /\ row_matches code ops e = true).
Proof.
  intros Hok pre code pat tmpl post cls Hsplit Hcls.
  assert (Hscope : x86_scope code = true) by (unfold x86_scope; rewrite Hcls; reflexivity).
  destruct (table_ok_rows early uext8 x86_scope tbl [] Hok pre code pat tmpl post Hsplit Hscope) as [H|H].
  - left. apply (xrow_ok_sound early uext8 code pat tmpl cls H Hcls).
  - right. intros ops Hpm. cbn [app] in H. unfold shadowed_by in H. apply existsb_exists in H.
    destruct H as ([[c' p'] t'] & Hin & He). apply andb_prop in He. destruct He as [Hc Hsub].
    exists (c', p', t'). split; [exact Hin|]. unfold row_matches. rewrite Hc.
    rewrite (pat_subsumes_ok p' pat [] ops Hsub Hpm). reflexivity.
Qed.

(* Facts about the REGENERATED interpreter table (coq/gen/InterpTable.v): every row is accepted by the
   verified recognisers.  This file is what stops compiling when a row of mir-interp.c changes its
   operator, width, signedness or casts. *)
From Coq Require Import ZArith Bool List String.
From MirV Require Import Mir.DocSpec Mir.CExpr C02.RowCheck C02.Table C02.MemRows gen.InterpTable.
Import ListNotations.

Lemma interp_table_ok : table_ok interp_table = true.
Proof. vm_compute. reflexivity. Qed.

Lemma interp_rows_sound : forall op s, In (op, s) interp_table -> ld_opcode op = false -> row_sound op s.
Proof. exact (table_ok_sound interp_table interp_table_ok). Qed.

Lemma interp_rows_total : forall op, needs_row op = true \/ ld_opcode op = true -> exists s, In (op, s) interp_table.
Proof. exact (table_ok_total interp_table interp_table_ok). Qed.

Lemma interp_ld_rows : forall op s d, In (op, s) interp_table -> ld_twin op = Some d ->
  exists sd, In (d, sd) interp_table /\ cstmt_eqb sd (ld2d_stmt s) = true /\ row_sound d sd.
Proof. exact (table_ok_ld_twin interp_table interp_table_ok). Qed.

(* overflow instructions: result and both flag formulas of the interpreter *)
Lemma interp_overflow_flags : forall op s, In (op, s) interp_table ->
  forall args r sf uf, doc_ovf op args = Some (r, sf, uf) ->
  exists r' fs fu, stmt_ovf (env_of args) s = Some (r', fs, fu) /\ eqv op r' r = true
    /\ (fst (ovf_defined op) = true -> fs = Some sf) /\ (snd (ovf_defined op) = true -> fu = Some uf).
Proof.
  intros op s Hin args r sf uf Hd.
  assert (Hld : ld_opcode op = false) by (unfold doc_ovf in Hd; destruct op; cbn in Hd; try discriminate; reflexivity).
  destruct (interp_rows_sound op s Hin Hld) as (_ & _ & _ & H). eauto.
Qed.

(* memory pseudo instructions of the interpreter *)
Lemma interp_aux_ok : forallb (fun r => aux_row_ok (fst r) (snd r)) interp_aux_table = true.
Proof. vm_compute. reflexivity. Qed.

Definition aux_names : list string :=
  ["IC_LDI8"; "IC_LDU8"; "IC_LDI16"; "IC_LDU16"; "IC_LDI32"; "IC_LDU32"; "IC_LDI64"; "IC_LDF"; "IC_LDD"; "IC_LDLD";
   "IC_STI8"; "IC_STU8"; "IC_STI16"; "IC_STU16"; "IC_STI32"; "IC_STU32"; "IC_STI64"; "IC_STF"; "IC_STD"; "IC_STLD"]%string.

Lemma interp_aux_total : forallb (fun n => existsb (fun r => String.eqb (fst r) n) interp_aux_table) aux_names = true.
Proof. vm_compute. reflexivity. Qed.

Lemma interp_mem_rows : forall name s, In (name, s) interp_aux_table ->
  match aux_type name with
  | Some (true, ty) => forall bytes, stmt_load s bytes = Some (load_ext ty bytes)
  | Some (false, ty) => forall p rest, stmt_store (p :: rest) s = Some (store_trunc ty p)
  | None => False
  end.
Proof.
  intros name s Hin. pose proof interp_aux_ok as H. rewrite forallb_forall in H.
  specialize (H (name, s) Hin). cbn [fst snd] in H. apply aux_row_ok_sound. exact H.
Qed.

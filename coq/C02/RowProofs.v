(* Soundness of the row recognisers of RowCheck.v: a row accepted for an opcode's documented class
   computes, for ALL operand values, the documented result on the defined bits. *)
From Coq Require Import ZArith Lia Bool List String.
From MirV Require Import Mir.DocSpec Mir.CExpr C02.WFacts C02.RowCheck.
Import ListNotations.
Local Open Scope Z_scope.

Arguments uwrap : simpl never.
Arguments swrap : simpl never.
Arguments Z.pow : simpl never.
Arguments Z.mul : simpl never.
Arguments Z.add : simpl never.
Arguments Z.sub : simpl never.
Arguments Z.opp : simpl never.
Arguments Z.div : simpl never.
Arguments Z.modulo : simpl never.
Arguments Z.quot : simpl never.
Arguments Z.rem : simpl never.
Arguments Z.land : simpl never.
Arguments Z.lor : simpl never.
Arguments Z.lxor : simpl never.
Arguments Z.eqb : simpl never.
Arguments Z.ltb : simpl never.
Arguments Z.leb : simpl never.

(* ------------------------------------------------------------------ congruence stripping *)
Lemma eqm_swrap_l n m x y : 0 < n <= m -> eqm n x y -> eqm n (swrap m x) y.
Proof.
  intros H E. eapply eqm_trans; [|exact E]. apply eqm_le with m; [lia|]. apply eqm_swrap; lia.
Qed.
Lemma eqm_uwrap_l n m x y : 0 <= n <= m -> eqm n x y -> eqm n (uwrap m x) y.
Proof.
  intros H E. eapply eqm_trans; [|exact E]. apply eqm_le with m; [lia|]. apply eqm_uwrap; lia.
Qed.
Lemma eqm_swrap_r n m x y : 0 < n <= m -> eqm n x y -> eqm n x (swrap m y).
Proof. intros. apply eqm_sym, eqm_swrap_l; [lia|]. apply eqm_sym; assumption. Qed.
Lemma eqm_uwrap_r n m x y : 0 <= n <= m -> eqm n x y -> eqm n x (uwrap m y).
Proof. intros. apply eqm_sym, eqm_uwrap_l; [lia|]. apply eqm_sym; assumption. Qed.

Ltac eqm_auto :=
  repeat first
    [ apply eqm_refl
    | apply eqm_swrap_l; [lia|] | apply eqm_uwrap_l; [lia|]
    | apply eqm_swrap_r; [lia|] | apply eqm_uwrap_r; [lia|]
    | apply eqm_add; [lia| |] | apply eqm_sub; [lia| |] | apply eqm_mul; [lia| |]
    | apply eqm_opp; [lia|] ].

(* ------------------------------------------------------------------ wrap_ty facts *)
Lemma ty_int_bits t sg n : ty_int t = Some (sg, n) -> (n = 8 \/ n = 16 \/ n = 32 \/ n = 64) /\ ty_bits t = n /\ ty_signed t = sg.
Proof. destruct t; cbn; intros H; inversion H; subst; lia. Qed.

Lemma is_int_ty_int t : is_int t = true -> exists sg n, ty_int t = Some (sg, n).
Proof. unfold is_int. destruct (ty_int t) as [[sg n]|]; [eauto | discriminate]. Qed.

Lemma wrap_ty_eqm t z m : is_int t = true -> 0 <= m <= ty_bits t -> eqm m (wrap_ty t z) z.
Proof.
  intros Hi Hm. destruct (is_int_ty_int t Hi) as (sg & n & E).
  destruct (ty_int_bits t sg n E) as (Hn & Hb & _). unfold wrap_ty. rewrite E. rewrite Hb in Hm.
  destruct sg; apply eqm_le with n; try lia; [apply eqm_swrap | apply eqm_uwrap]; lia.
Qed.

(* wrap_ty t only looks at its argument modulo 2^bits *)
Lemma wrap_ty_congr t x y : is_int t = true -> eqm (ty_bits t) x y -> wrap_ty t x = wrap_ty t y.
Proof.
  intros Hi E. destruct (is_int_ty_int t Hi) as (sg & n & Et).
  destruct (ty_int_bits t sg n Et) as (Hn & Hb & _). unfold wrap_ty. rewrite Et. rewrite Hb in E.
  destruct sg; [apply eqm_swrap_eq; [lia | exact E] | exact E].
Qed.

Lemma wrap_ty_narrow t t' p : is_int t = true -> is_int t' = true -> ty_bits t <= ty_bits t' ->
  wrap_ty t (wrap_ty t' p) = wrap_ty t p.
Proof.
  intros Hi Hi' Hb. apply wrap_ty_congr; [assumption|]. apply wrap_ty_eqm; [assumption|].
  destruct (is_int_ty_int t Hi) as (sg & n & Et). destruct (ty_int_bits t sg n Et) as (Hn & Hbb & _). lia.
Qed.

Lemma wrap_ty_idem t p : is_int t = true -> wrap_ty t (wrap_ty t p) = wrap_ty t p.
Proof. intros. apply wrap_ty_narrow; auto. lia. Qed.

Lemma wrap_ty_widen t t' p : is_int t = true -> is_int t' = true -> ty_bits t' < ty_bits t ->
  (negb (ty_signed t') || ty_signed t) = true -> wrap_ty t (wrap_ty t' p) = wrap_ty t' p.
Proof.
  intros Hi Hi' Hb Hs.
  destruct (is_int_ty_int t Hi) as (sg & n & Et). destruct (ty_int_bits t sg n Et) as (Hn & Hbn & Hsn).
  destruct (is_int_ty_int t' Hi') as (sg' & n' & Et'). destruct (ty_int_bits t' sg' n' Et') as (Hn' & Hbn' & Hsn').
  unfold wrap_ty. rewrite Et, Et'. rewrite Hsn, Hsn' in Hs. rewrite Hbn, Hbn' in Hb.
  destruct sg', sg; cbn in Hs; try discriminate.
  - apply swrap_id_wider; lia.
  - apply swrap_uwrap_wider; lia.
  - apply uwrap_id_wider; lia.
Qed.

Lemma u64_wrap64 t v : is_int t = true -> ty_bits t = 64 -> uwrap 64 (wrap_ty t v) = uwrap 64 v.
Proof. intros Hi Hb. apply wrap_ty_eqm; [assumption | lia]. Qed.

(* ------------------------------------------------------------------ chains *)
Lemma chain_of_int e : forall k ts, chain_of e = Some (k, ts) ->
  Forall (fun t => is_int t = true) ts /\ ts <> [].
Proof.
  induction e; cbn; intros k ts H; try discriminate.
  - destruct (is_int t) eqn:E; inversion H; subst. split; [repeat constructor; assumption | discriminate].
  - destruct (is_int t) eqn:E; [|discriminate]. destruct (chain_of e) as [[k' ts']|] eqn:C; [|discriminate].
    inversion H; subst. destruct (IHe _ _ eq_refl) as [F _]. split; [constructor; assumption | discriminate].
Qed.

Lemma chain_of_eval e : forall k ts env p, chain_of e = Some (k, ts) -> nth_error env k = Some p ->
  exists t r, ts = t :: r /\ ceval env e = Some (t, chain_val ts p).
Proof.
  induction e; cbn; intros k ts env p H Hn; try discriminate.
  - destruct (is_int t) eqn:E; inversion H; subst. rewrite Hn. exists t, []. split; reflexivity.
  - destruct (is_int t) eqn:E; [|discriminate]. destruct (chain_of e) as [[k' ts']|] eqn:C; [|discriminate].
    inversion H; subst. destruct (IHe _ _ env p eq_refl Hn) as (t' & r & -> & Ev).
    exists t, (t' :: r). split; [reflexivity|]. rewrite Ev.
    destruct (chain_of_int _ _ _ C) as [F _]. inversion F; subst.
    unfold convert. rewrite H2, E. reflexivity.
Qed.

Lemma eff_cons t t2 r2 : eff (t :: t2 :: r2) =
  match eff (t2 :: r2) with
  | Some te => if ty_bits t <=? ty_bits te then Some t
               else if negb (ty_signed te) || ty_signed t then Some te else None
  | None => None
  end.
Proof. reflexivity. Qed.

Lemma strip_outer64_cons t t2 r2 : strip_outer64 (t :: t2 :: r2) =
  if ty_bits t =? 64 then strip_outer64 (t2 :: r2) else t :: t2 :: r2.
Proof. reflexivity. Qed.

Lemma eff_sound ts : forall te p, Forall (fun t => is_int t = true) ts -> eff ts = Some te ->
  chain_val ts p = wrap_ty te p /\ is_int te = true.
Proof.
  induction ts as [|t r IH]; intros te p F H; [discriminate|].
  inversion F as [|? ? Ht Fr]; subst.
  destruct r as [|t2 r2].
  - cbn in H. inversion H; subst. cbn. split; [reflexivity | assumption].
  - rewrite eff_cons in H. destruct (eff (t2 :: r2)) as [te'|] eqn:E; [|discriminate].
    destruct (IH te' p Fr eq_refl) as [Hv Hi'].
    cbn [chain_val]. cbn [chain_val] in Hv. rewrite Hv.
    destruct (Z.leb_spec (ty_bits t) (ty_bits te')).
    + inversion H; subst. split; [apply wrap_ty_narrow; assumption | assumption].
    + destruct (negb (ty_signed te') || ty_signed t) eqn:S; [|discriminate]. inversion H; subst.
      split; [apply wrap_ty_widen; try assumption; lia | assumption].
Qed.

Lemma strip_outer64_sound ts p : Forall (fun t => is_int t = true) ts ->
  uwrap 64 (chain_val (strip_outer64 ts) p) = uwrap 64 (chain_val ts p)
  /\ Forall (fun t => is_int t = true) (strip_outer64 ts).
Proof.
  induction ts as [|t r IH]; intros F; [split; [reflexivity | constructor]|].
  inversion F as [|? ? Ht Fr]; subst. destruct r as [|t2 r2].
  - cbn. split; [reflexivity | assumption].
  - rewrite strip_outer64_cons. destruct (Z.eqb_spec (ty_bits t) 64).
    + destruct (IH Fr) as [E F']. split; [|exact F']. rewrite E. cbn [chain_val].
      symmetry. apply u64_wrap64; assumption.
    + split; [reflexivity | assumption].
Qed.

Lemma leaf_eval e k t env p : leaf e = Some (k, t) -> nth_error env k = Some p ->
  ceval env e = Some (t, wrap_ty t p) /\ is_int t = true.
Proof.
  unfold leaf. intros H Hn. destruct (chain_of e) as [[k' ts]|] eqn:C; [|discriminate].
  destruct (eff ts) as [te|] eqn:E; [|discriminate]. destruct ts as [|t' r]; [discriminate|].
  destruct (cty_eqb te t') eqn:Q; [|discriminate]. inversion H; subst.
  destruct (chain_of_int _ _ _ C) as [F _].
  destruct (chain_of_eval e k (t :: r) env p C Hn) as (t1 & r1 & E1 & Ev). inversion E1; subst.
  destruct (eff_sound _ te p F E) as [Hv Hi]. rewrite Ev, Hv.
  assert (te = t1) by (destruct te, t1; cbn in Q; congruence). subst. split; [reflexivity | assumption].
Qed.

Lemma assign_int T t v : is_int T = true -> is_int t = true ->
  assign T (t, v) = Some (uwrap 64 (wrap_ty T v)).
Proof. intros HT Ht. unfold assign, convert. rewrite Ht, HT. reflexivity. Qed.

Lemma dst64_int T : dst64 T = true -> is_int T = true /\ ty_bits T = 64.
Proof. destruct T; cbn; intros; try discriminate; split; reflexivity. Qed.

Lemma assign_dst64 T t v : dst64 T = true -> is_int t = true -> assign T (t, v) = Some (uwrap 64 v).
Proof.
  intros HT Ht. destruct (dst64_int T HT) as [Hi Hb]. rewrite assign_int by assumption.
  f_equal. apply u64_wrap64; assumption.
Qed.

(* ------------------------------------------------------------------ defined-bit equality for integer results *)
Definition eq_low (w : width) (r d : Z) : Prop := uwrap (wbits w) r = uwrap (wbits w) d.

Lemma mask_eq_low w r d :
  (Z.land r (match w with W32 => mask32 | W64 => mask64 end) =? Z.land d (match w with W32 => mask32 | W64 => mask64 end)) = true
  <-> eq_low w r d.
Proof.
  unfold eq_low, mask32, mask64. rewrite Z.eqb_eq. destruct w; cbn [wbits];
  rewrite !land_mask by lia; reflexivity.
Qed.

(* ------------------------------------------------------------------ mov / ext rows *)
Lemma chain_row_pattern T e ts te a b :
  dst64 T = true -> chain_of e = Some (1%nat, ts) -> eff (strip_outer64 (T :: ts)) = Some te ->
  stmt_value (env_of (a :: b)) (SAssign T e) = Some (uwrap 64 (wrap_ty te a)) /\ is_int te = true.
Proof.
  intros HT C E. destruct (dst64_int T HT) as [HiT HbT].
  destruct (chain_of_int _ _ _ C) as [F _].
  destruct (chain_of_eval e 1%nat ts (env_of (a :: b)) a C eq_refl) as (t1 & r1 & -> & Ev).
  cbn [stmt_value]. rewrite Ev. inversion F; subst.
  rewrite assign_int by assumption.
  assert (F2 : Forall (fun t => is_int t = true) (T :: t1 :: r1)) by (constructor; assumption).
  destruct (strip_outer64_sound (T :: t1 :: r1) a F2) as [S FS].
  destruct (eff_sound _ te a FS E) as [Hv Hi]. split; [|assumption].
  f_equal. change (wrap_ty T (chain_val (t1 :: r1) a)) with (chain_val (T :: t1 :: r1) a).
  rewrite <- S, Hv. reflexivity.
Qed.

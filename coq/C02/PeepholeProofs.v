(* Soundness of the link-time shortcuts and of transform_mul_div, for ALL source values and every
   admissible shift. *)
From Coq Require Import ZArith Lia Bool List.
From MirV Require Import Base.W64 Mir.Opcode Mir.DocSpecInt C02.WFacts C02.QuotFacts C02.PeepholeDefs.
Import ListNotations.
Local Open Scope Z_scope.

Arguments uwrap : simpl never.
Arguments swrap : simpl never.
Arguments Z.pow : simpl never.
Arguments Z.mul : simpl never.
Arguments Z.add : simpl never.
Arguments Z.sub : simpl never.
Arguments Z.opp : simpl never.
Arguments Z.div : simpl never.
Arguments Z.quot : simpl never.
Arguments Z.land : simpl never.
Arguments Z.lor : simpl never.
Arguments Z.lxor : simpl never.
Arguments Z.eqb : simpl never.
Arguments Z.ltb : simpl never.

Definition eqlow (w : width) (r d : Z) : Prop := uwrap (wbits w) r = uwrap (wbits w) d.

Lemma wpos w : 1 < wbits w. Proof. destruct w; cbn; lia. Qed.
Lemma wle w : wbits w <= 64. Proof. destruct w; cbn; lia. Qed.

Lemma uw_small w z : 0 <= z < 2 ^ wbits w -> uw w z = z.
Proof. intros. unfold uw. apply uwrap_small. assumption. Qed.

Lemma pow_lt_w w k : 0 <= k < wbits w -> 0 < 2 ^ k < 2 ^ wbits w.
Proof. intros. split; [apply pow2_pos; lia | apply Z.pow_lt_mono_r; lia]. Qed.

Lemma sw_small w z : - 2 ^ (wbits w - 1) <= z < 2 ^ (wbits w - 1) -> sw w z = z.
Proof. intros. unfold sw. apply swrap_id; [pose proof (wpos w); lia | exact H]. Qed.

Lemma small_lt_w w k : 0 <= k < wbits w -> 0 <= k < 2 ^ wbits w.
Proof.
  intros. split; [lia|]. pose proof (wpos w). assert (wbits w < 2 ^ wbits w) by (destruct w; cbn; lia). lia.
Qed.

(* ------------------------------------------------------------------ link-time shortcuts *)
Lemma eqlow_u64 w a : eqlow w (u64 a) a.
Proof. unfold eqlow, u64. pose proof (wpos w). pose proof (wle w). apply eqm_le with 64; [lia|]. apply eqm_uwrap; lia. Qed.

Lemma eqlow_trans w a b c : eqlow w a b -> eqlow w b c -> eqlow w a c.
Proof. unfold eqlow. congruence. Qed.

Lemma eqlow_uw w a : eqlow w a (uw w a).
Proof. unfold eqlow, uw. pose proof (wpos w). symmetry. apply uwrap_idem. lia. Qed.

Lemma eqlow_sw w a : eqlow w a (sw w a).
Proof. unfold eqlow, sw. pose proof (wpos w). symmetry. apply uwrap_swrap. lia. Qed.

Lemma uw0 w : uw w 0 = 0. Proof. destruct w; reflexivity. Qed.
Lemma sw1 w : sw w 1 = 1. Proof. destruct w; reflexivity. Qed.

Lemma shortcut_ibin io w c a d :
  match io with
  | IMul | IDiv | IUDiv => c = 1
  | IAdd | ISub | IOr | IXor | ILsh | IRsh | IURsh => c = 0
  | _ => False
  end -> ibin io w a c = Some d -> eqlow w (u64 a) d.
Proof.
  pose proof (wpos w) as Hw. intros Hc H. apply eqlow_trans with a; [apply eqlow_u64|].
  destruct io; try contradiction; subst c; cbn [ibin] in H.
  - inversion H; subst. replace (a + 0) with a by lia. apply eqlow_uw.
  - inversion H; subst. replace (a - 0) with a by lia. apply eqlow_uw.
  - inversion H; subst. replace (a * 1) with a by lia. apply eqlow_uw.
  - rewrite sw1 in H. change (1 =? 0) with false in H. change (1 =? -1) with false in H.
    rewrite andb_false_r in H. cbn [orb] in H. inversion H; subst. rewrite Z.quot_1_r.
    apply eqlow_trans with (sw w a); [apply eqlow_sw | apply eqlow_uw].
  - replace (uw w 1) with 1 in H by (destruct w; reflexivity). change (1 =? 0) with false in H.
    inversion H; subst. rewrite Z.div_1_r. apply eqlow_uw.
  - inversion H; subst. rewrite uw0, Z.lor_0_r. apply eqlow_uw.
  - inversion H; subst. rewrite uw0, Z.lxor_0_r. apply eqlow_uw.
  - rewrite uw0 in H. replace (0 <? wbits w) with true in H by (symmetry; apply Z.ltb_lt; lia).
    inversion H; subst. change (2 ^ 0) with 1. rewrite Z.mul_1_r.
    apply eqlow_trans with (uw w a); apply eqlow_uw.
  - rewrite uw0 in H. replace (0 <? wbits w) with true in H by (symmetry; apply Z.ltb_lt; lia).
    inversion H; subst. change (2 ^ 0) with 1. rewrite Z.div_1_r.
    apply eqlow_trans with (sw w a); [apply eqlow_sw | apply eqlow_uw].
  - rewrite uw0 in H. replace (0 <? wbits w) with true in H by (symmetry; apply Z.ltb_lt; lia).
    inversion H; subst. change (2 ^ 0) with 1. rewrite Z.div_1_r. apply eqlow_uw.
Qed.

Theorem shortcut_ok_sound op c : shortcut_ok op c = true ->
  ovf_class op = None /\
  forall a d, doc_sem_int op [a; c] = Some d ->
    match int_res_width op with Some w => eqlow w (u64 a) d | None => False end.
Proof.
  intros H. destruct op; try discriminate H; cbn in H; apply Z.eqb_eq in H; subst c;
    (split; [reflexivity|]); intros a d Hd; unfold doc_sem_int in Hd; cbn [int_class] in Hd;
    unfold int_res_width; cbn [int_class];
    (eapply shortcut_ibin; [|exact Hd]); cbn; reflexivity.
Qed.

(* ------------------------------------------------------------------ mul / div by 2^sh *)
Lemma quot_neg_bias X d : X < 0 -> 0 < d -> Z.quot X d = (X + d - 1) / d.
Proof.
  intros HX Hd. replace X with (- (- X)) at 1 by lia. rewrite quot_neg_pos by lia.
  apply Z.div_unique with (d - 1 - (- X) mod d).
  - left. pose proof (Z.mod_pos_bound (- X) d Hd). lia.
  - pose proof (Z.div_mod (- X) d ltac:(lia)). lia.
Qed.

Lemma sign_shift n X : 0 < n -> - 2 ^ n <= X < 2 ^ n -> X / 2 ^ n = (if X <? 0 then -1 else 0).
Proof.
  intros Hn HX. pose proof (pow2_pos n ltac:(lia)). destruct (Z.ltb_spec X 0).
  - symmetry. apply Z.div_unique with (X + 2 ^ n); lia.
  - apply Z.div_small. lia.
Qed.

Lemma land_ones_small n k : 0 <= k <= n -> Z.land (2 ^ n - 1) (2 ^ k - 1) = 2 ^ k - 1.
Proof.
  intros H. rewrite Z.land_comm. replace (2 ^ n - 1) with (Z.ones n) by (rewrite Z.ones_equiv; lia).
  rewrite Z.land_ones by lia. apply Z.mod_small. pose proof (pow2_pos k ltac:(lia)).
  assert (2 ^ k <= 2 ^ n) by (apply Z.pow_le_mono_r; lia). lia.
Qed.

Lemma uwrap_m1 n : 0 < n -> uwrap n (-1) = 2 ^ n - 1.
Proof.
  intros. unfold uwrap. pose proof (pow2_pos n ltac:(lia)).
  symmetry. apply Z.mod_unique with (-1); lia.
Qed.

(* the signed-division bias sequence on n-bit values *)
Lemma div_bias n k x : 1 < n -> 0 < k <= n - 2 ->
  uwrap n (swrap n (uwrap n (Z.land (uwrap n (swrap n x / 2 ^ (n - 1))) (uwrap n (2 ^ k - 1)) + x)) / 2 ^ k)
  = uwrap n (Z.quot (swrap n x) (2 ^ k)).
Proof.
  intros Hn Hk. set (X := swrap n x).
  assert (HX : - 2 ^ (n - 1) <= X < 2 ^ (n - 1)) by (apply swrap_bound; lia).
  pose proof (pow2_pos k ltac:(lia)) as Hpk. pose proof (pow2_pos (n - 1) ltac:(lia)) as Hpn.
  assert (Hkn : 2 ^ k <= 2 ^ (n - 2)) by (apply Z.pow_le_mono_r; lia).
  assert (Hn2 : 2 ^ (n - 1) = 2 * 2 ^ (n - 2)) by (replace (n - 1) with (Z.succ (n - 2)) by lia; apply Z.pow_succ_r; lia).
  assert (Hkw : 2 ^ k < 2 ^ n) by (apply Z.pow_lt_mono_r; lia).
  rewrite (uwrap_small n (2 ^ k - 1)) by lia.
  rewrite (sign_shift (n - 1) X) by (try lia; exact HX).
  assert (Hs : swrap n (uwrap n ((if X <? 0 then 2 ^ k - 1 else 0) + x)) = (if X <? 0 then 2 ^ k - 1 else 0) + X).
  { rewrite swrap_uwrap by lia. destruct (Z.ltb_spec X 0).
    - transitivity (swrap n (2 ^ k - 1 + X)).
      + apply eqm_swrap_eq; [lia|]. apply eqm_add; [lia | apply eqm_refl |]. apply eqm_sym. unfold X. apply eqm_swrap. lia.
      + apply swrap_id; [lia|]. unfold in_s. lia.
    - cbn. replace (0 + x) with x by lia. replace (0 + X) with X by lia. reflexivity. }
  destruct (Z.ltb_spec X 0) as [Hneg|Hpos].
  - rewrite uwrap_m1 by lia. rewrite land_ones_small by lia. rewrite Hs. f_equal.
    rewrite quot_neg_bias by lia. f_equal. lia.
  - rewrite (uwrap_small n 0) by lia. rewrite Z.land_0_l. rewrite Hs. f_equal.
    replace (0 + X) with X by lia. symmetry. apply Z.quot_div_nonneg; lia.
Qed.

(* documented value of the original instruction with the constant 2^k *)
Lemma uw_pow w k : 0 <= k < wbits w -> uw w (2 ^ k) = 2 ^ k.
Proof. intros. apply uw_small. pose proof (pow_lt_w w k H). lia. Qed.

Lemma sw_pow w k : 0 <= k <= wbits w - 2 -> sw w (2 ^ k) = 2 ^ k.
Proof.
  intros. apply sw_small. pose proof (wpos w). pose proof (pow2_pos k ltac:(lia)).
  assert (2 ^ k < 2 ^ (wbits w - 1)) by (apply Z.pow_lt_mono_r; lia). lia.
Qed.

Lemma uw_k w k : 0 <= k < wbits w -> uw w k = k.
Proof. intros. apply uw_small. apply small_lt_w. assumption. Qed.

Lemma u64_k k : 0 <= k < 64 -> u64 k = k.
Proof. intros. unfold u64. apply uwrap_small. lia. Qed.

Definition md_op (k : mdkind) : ibinop := match k with MDmul => IMul | MDudiv => IUDiv | MDdiv => IDiv end.

Lemma md_class_int op k w : md_class op = Some (k, w) -> int_class op = IC_bin (md_op k) w.
Proof. destruct op; cbn; intros H; inversion H; subst; reflexivity. Qed.

Lemma ltb_true a b : a < b -> (a <? b) = true. Proof. intros. apply Z.ltb_lt. assumption. Qed.

Theorem muldiv_sound op bound mv sq :
  muldiv_ok (op, bound, mv, sq) = true ->
  forall x sh d, 0 <= sh < bound -> doc_sem_int op [x; 2 ^ sh] = Some d ->
  exists r, run_seq x sh (if sh =? 0 then mv else sq) = Some r /\
            match int_res_width op with Some w => eqlow w r d | None => False end.
Proof.
  unfold muldiv_ok. destruct (md_class op) as [[k w]|] eqn:Hc; [|discriminate].
  intros H x sh d Hsh Hd.
  repeat (apply andb_prop in H; let H' := fresh "H" in destruct H as [H H']).
  apply Z.leb_le in H, H2.
  assert (Emv : mv = seq_mov).
  { clear -H1. revert H1. generalize seq_mov. induction mv as [|[[c1 d1] s1] r IH]; intros [|[[c2 d2] s2] r2] Hq; cbn in Hq; try discriminate; [reflexivity|].
    repeat (apply andb_prop in Hq; let H' := fresh "Hq" in destruct Hq as [Hq H']).
    apply opcode_eqb_eq in Hq. subst c2. f_equal; [|apply IH; assumption].
    assert (Hp : forall a b, pop_eqb a b = true -> a = b).
    { intros [n| | |[z| |]] [m| | |[z'| |]] Q; cbn in Q; try discriminate; try reflexivity;
        [apply Nat.eqb_eq in Q | apply Z.eqb_eq in Q]; subst; reflexivity. }
    f_equal; [f_equal; apply Hp; assumption|].
    clear -Hq1 Hp. revert s2 Hq1. induction s1 as [|a s IH]; intros [|b s2] Q; cbn in Q; try discriminate; [reflexivity|].
    apply andb_prop in Q. destruct Q as [Q1 Q2]. f_equal; [apply Hp; assumption | apply IH; assumption]. }
  assert (Esq : sq = md_seq k w).
  { clear -H0. revert H0. generalize (md_seq k w). induction sq as [|[[c1 d1] s1] r IH]; intros [|[[c2 d2] s2] r2] Hq; cbn in Hq; try discriminate; [reflexivity|].
    repeat (apply andb_prop in Hq; let H' := fresh "Hq" in destruct Hq as [Hq H']).
    apply opcode_eqb_eq in Hq. subst c2. f_equal; [|apply IH; assumption].
    assert (Hp : forall a b, pop_eqb a b = true -> a = b).
    { intros [n| | |[z| |]] [m| | |[z'| |]] Q; cbn in Q; try discriminate; try reflexivity;
        [apply Nat.eqb_eq in Q | apply Z.eqb_eq in Q]; subst; reflexivity. }
    f_equal; [f_equal; apply Hp; assumption|].
    clear -Hq1 Hp. revert s2 Hq1. induction s1 as [|a s IH]; intros [|b s2] Q; cbn in Q; try discriminate; [reflexivity|].
    apply andb_prop in Q. destruct Q as [Q1 Q2]. f_equal; [apply Hp; assumption | apply IH; assumption]. }
  subst mv sq. clear H0 H1.
  pose proof (wpos w) as Hw. pose proof (wle w) as Hw64.
  unfold doc_sem_int in Hd. rewrite (md_class_int op k w Hc) in Hd.
  assert (Hrw : int_res_width op = Some w) by (unfold int_res_width; rewrite (md_class_int op k w Hc); reflexivity).
  rewrite Hrw.
  assert (Hshw : 0 <= sh < wbits w) by (destruct k; cbn [md_bound] in H; lia).
  destruct (Z.eqb_spec sh 0) as [->|Hnz].
  - (* sh = 0: plain move *)
    unfold run_seq, seq_mov. cbn. eexists. split; [reflexivity|].
    change (2 ^ 0) with 1 in Hd. eapply shortcut_ibin; [|exact Hd]. destruct k; reflexivity.
  - cbv iota. destruct k; cbn [md_op md_bound] in *.
    + (* mul -> lsh *)
      cbn [ibin] in Hd. inversion Hd; subst d.
      assert (Hrun : run_seq x sh (md_seq MDmul w) = Some (uw w (uw w x * 2 ^ sh))).
      { destruct w; cbn [wbits] in *; unfold run_seq; cbn [md_seq seq_shift prun pstep pvals pval pinit temps dstv plookup Nat.eqb doc_sem_int int_class ibin];
          rewrite (u64_k sh) by lia; rewrite (uw_k _ sh) by (cbn; lia); rewrite ltb_true by (cbn; lia); reflexivity. }
      rewrite Hrun. eexists. split; [reflexivity|]. unfold eqlow, uw. rewrite !uwrap_idem by lia.
      apply eqm_mul; [lia | apply eqm_uwrap; lia | apply eqm_refl].
    + (* udiv -> ursh *)
      cbn [ibin] in Hd. rewrite uw_pow in Hd by lia.
      pose proof (pow2_pos sh ltac:(lia)).
      replace (2 ^ sh =? 0) with false in Hd by (symmetry; apply Z.eqb_neq; lia). inversion Hd; subst d.
      assert (Hrun : run_seq x sh (md_seq MDudiv w) = Some (uw w x / 2 ^ sh)).
      { destruct w; cbn [wbits] in *; unfold run_seq; cbn [md_seq seq_shift prun pstep pvals pval pinit temps dstv plookup Nat.eqb doc_sem_int int_class ibin];
          rewrite (u64_k sh) by lia; rewrite (uw_k _ sh) by (cbn; lia); rewrite ltb_true by (cbn; lia); reflexivity. }
      rewrite Hrun. eexists. split; reflexivity.
    + (* div -> bias sequence *)
      cbn [ibin] in Hd. rewrite sw_pow in Hd by lia. pose proof (pow2_pos sh ltac:(lia)).
      assert (2 ^ 1 <= 2 ^ sh) by (apply Z.pow_le_mono_r; lia). change (2 ^ 1) with 2 in *.
      replace (2 ^ sh =? 0) with false in Hd by (symmetry; apply Z.eqb_neq; lia).
      replace (2 ^ sh =? -1) with false in Hd by (symmetry; apply Z.eqb_neq; lia).
      rewrite andb_false_r in Hd. cbn [orb] in Hd. inversion Hd; subst d.
      assert (Hrun : run_seq x sh (md_seq MDdiv w)
                     = Some (uw w (sw w (uw w (Z.land (uw w (uw w (sw w x / 2 ^ (wbits w - 1)))) (uw w (u64 (2 ^ sh - 1))) + x)) / 2 ^ sh))).
      { destruct w; cbn [wbits] in *; unfold run_seq; cbn [md_seq seq_div wbits]; change (64 - 1) with 63; change (32 - 1) with 31;
          repeat first
            [ rewrite (u64_k 63) by lia | rewrite (u64_k 31) by lia | rewrite (u64_k sh) by lia
            | rewrite (uw_k W64 63) by (cbn; lia) | rewrite (uw_k W32 31) by (cbn; lia) | rewrite (uw_k _ sh) by (cbn; lia)
            | rewrite ltb_true by (cbn; lia)
            | progress cbn [prun pstep pvals pval pinit temps dstv plookup Nat.eqb doc_sem_int int_class ibin wbits] ];
          reflexivity. }
      rewrite Hrun. eexists. split; [reflexivity|].
      assert (Hp : 2 ^ sh < 2 ^ wbits w) by (apply Z.pow_lt_mono_r; lia).
      unfold u64. rewrite (uwrap_small 64 (2 ^ sh - 1)) by (assert (2 ^ wbits w <= 2 ^ 64) by (apply Z.pow_le_mono_r; lia); lia).
      unfold eqlow. f_equal. unfold uw, sw. rewrite (uwrap_idem (wbits w) (swrap (wbits w) x / 2 ^ (wbits w - 1))) by lia.
      apply div_bias; lia.
Qed.

(* S instructions look only at the low 32 bits of their operands (justifies running the sequences on
   canonical representatives of temporaries whose upper halves are undefined) *)
Lemma sw_of_uw w a a' : uw w a = uw w a' -> sw w a = sw w a'.
Proof. unfold uw, sw. intros. apply eqm_swrap_eq; [pose proof (wpos w); lia | exact H]. Qed.

Theorem ibin_low_bits_only io w a a' b b' :
  uw w a = uw w a' -> uw w b = uw w b' -> ibin io w a b = ibin io w a' b'.
Proof.
  intros Ha Hb. pose proof (wpos w). pose proof (sw_of_uw w a a' Ha) as Sa. pose proof (sw_of_uw w b b' Hb) as Sb.
  destruct io; cbn [ibin]; rewrite ?Ha, ?Hb, ?Sa, ?Sb; try reflexivity; f_equal; unfold uw in *.
  - apply eqm_add; [lia | exact Ha | exact Hb].
  - apply eqm_sub; [lia | exact Ha | exact Hb].
  - apply eqm_mul; [lia | exact Ha | exact Hb].
Qed.

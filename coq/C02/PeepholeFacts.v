(* Facts about the REGENERATED peephole tables (coq/gen/Peephole.v). *)
From Coq Require Import ZArith Bool List.
From MirV Require Import Base.W64 Mir.Opcode Mir.DocSpecInt C02.PeepholeDefs C02.PeepholeProofs gen.Peephole.
Import ListNotations.
Local Open Scope Z_scope.

Lemma shortcut_table_ok : forallb (fun r => shortcut_ok (fst r) (snd r)) shortcut_table = true.
Proof. vm_compute. reflexivity. Qed.

Lemma muldiv_table_ok : forallb muldiv_ok muldiv_table = true.
Proof. vm_compute. reflexivity. Qed.

Lemma shortcuts_sound : forall op c, In (op, c) shortcut_table ->
  ovf_class op = None /\
  forall a d, doc_sem_int op [a; c] = Some d ->
    match int_res_width op with Some w => eqlow w (u64 a) d | None => False end.
Proof.
  intros op c Hin. pose proof shortcut_table_ok as H. rewrite forallb_forall in H.
  specialize (H (op, c) Hin). cbn [fst snd] in H. apply shortcut_ok_sound. exact H.
Qed.

Lemma muldiv_rows_sound : forall op bound mv sq, In (op, bound, mv, sq) muldiv_table ->
  forall x sh d, 0 <= sh < bound -> doc_sem_int op [x; 2 ^ sh] = Some d ->
  exists r, run_seq x sh (if sh =? 0 then mv else sq) = Some r /\
            match int_res_width op with Some w => eqlow w r d | None => False end.
Proof.
  intros op bound mv sq Hin. pose proof muldiv_table_ok as H. rewrite forallb_forall in H.
  specialize (H (op, bound, mv, sq) Hin). apply muldiv_sound. exact H.
Qed.

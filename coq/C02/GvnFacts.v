(* Facts about the REGENERATED GVN fold table. *)
From Coq Require Import ZArith Bool List String.
From MirV Require Import Mir.DocSpec Mir.CExpr C02.RowCheck C02.Table C02.GvnCheck gen.GvnFoldTable.
Import ListNotations.

Lemma gvn_table_accepted : gvn_table_ok gvn_table = true.
Proof. vm_compute. reflexivity. Qed.

Lemma gvn_rows_sound : forall op g s, In (op, g, s) gvn_table -> gvn_row_sound op s.
Proof. exact (gvn_table_ok_sound gvn_table gvn_table_accepted). Qed.

(* C02: vocabulary of the regenerated description (gen/AddrTable.v, tools/tr_c02_addr.py) of the two places that turn a
   memory operand disp(base, index, scale) into instructions and back:
   - mir.c simplify_op: the instructions inserted for the operand (shared by the interpreter and the generator);
   - mir-gen.c update_addr_p: the -O2/-O3 combiner folding add / mul / lsh by constants back into base+index*scale+disp. *)
From Coq Require Import ZArith Bool List.
From MirV Require Import Mir.Opcode.
Import ListNotations.
Local Open Scope Z_scope.

(* registers of the lowering: the operand's own base / index, and the temporaries simplify_op creates *)
Inductive areg := RBase | RIndex | RDisp | RScaleC | RScaleInd | RBaseInd | RAddr.
(* second / third operand of an inserted instruction: a register, the operand's displacement or scale as an integer
   constant, nothing, or something the translator does not know *)
Inductive aarg := AReg (r : areg) | AConstDisp | AConstScale | ANone | AUnknown.
(* the condition under which simplify_op inserts the instruction *)
Inductive acond :=
  | CDisp          (* disp != 0 *)
  | CScale         (* index present and scale > 1 *)
  | CBaseInd       (* base present and (scaled) index present *)
  | CSum.          (* base/index part present and disp != 0 *)

Definition ainsn := (acond * opcode * areg * aarg * aarg)%type.

(* how update_addr_p combines the scale of the index with a further multiplication of the index register *)
Inductive scale_update :=
  | SU_checked     (* product in a wide type, combination abandoned above MIR_MAX_SCALE = 255 *)
  | SU_wrap8       (* product truncated to MIR_scale_t (8 bits) *)
  | SU_unknown.

Definition areg_eqb (a b : areg) : bool :=
  match a, b with
  | RBase, RBase | RIndex, RIndex | RDisp, RDisp | RScaleC, RScaleC | RScaleInd, RScaleInd | RBaseInd, RBaseInd
  | RAddr, RAddr => true
  | _, _ => false
  end.
Definition aarg_eqb (a b : aarg) : bool :=
  match a, b with
  | AReg x, AReg y => areg_eqb x y
  | AConstDisp, AConstDisp | AConstScale, AConstScale | ANone, ANone => true
  | _, _ => false
  end.
Definition acond_eqb (a b : acond) : bool :=
  match a, b with CDisp, CDisp | CScale, CScale | CBaseInd, CBaseInd | CSum, CSum => true | _, _ => false end.

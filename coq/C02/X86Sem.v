(* X86Sem: the x86-64 subset used by the integer / compare / ext / mul / div / shift / setcc / branch
   patterns of mir-gen-x86_64.c.  Semantics are attached to the *elements of the replacement templates*
   ("X 03 r0 R2" = REX.W 03 /r), not to bytes: the byte encoder (ModRM/SIB/REX emission, displacement
   and label resolution) is modelled, not verified.  Definitions only.

   A pattern row = (MIR code, operand pattern, replacement template).  [decode] turns a template into
   abstract instructions over *operand numbers*; [xexec] runs them in a state (16 registers, ONE
   abstract memory cell -- no integer pattern has two distinct memory operands --, CF ZF SF OF) given
   how each MIR operand is realised ([oval]: hard register, the memory cell with its MIR type,
   immediate, label). *)
From Coq Require Import ZArith List Bool String.
From MirV Require Import Base.W64 Mir.Opcode Mir.DocSpecInt.
Import ListNotations.
Local Open Scope Z_scope.

(* ------------------------------------------------------------------ template and pattern syntax *)
Inductive tok :=
| TX | TY | TZ                         (* REX.W=1 | optional REX, W=0 | obligatory REX, W=0 *)
| TB (b : Z)                           (* opcode or prefix byte *)
| Tr (k : nat)                         (* operand k in ModRM.reg *)
| TR (k : nat)                         (* operand k in ModRM.rm, register *)
| TS (k : nat)                         (* operand k in ModRM.rm, 8-bit register *)
| Tm (k : nat)                         (* operand k is the memory operand *)
| Ti (k : nat) | TI (k : nat) | TJ (k : nat)   (* operand k as imm8 / imm32 / imm64 *)
| TSl (d : Z)                          (* /d : opcode extension in ModRM.reg *)
| Tap | Tam                            (* lea address: op1 + op2 (register or displacement) | op1 * op2 *)
| Tv (z : Z) | TV (z : Z)              (* literal imm8 / imm32 *)
| Tl (k : nat) | TL (k : nat)          (* label operand, short / near *)
| TPlus (k : nat)                      (* operand k in the low 3 bits of the opcode *)
| Tother (s : string).                 (* not modelled *)

Inductive pel :=
| PR                                   (* r : any register *)
| PH (n : nat)                         (* hN : that hard register *)
| PZ                                   (* z : immediate 0 *)
| PI (k : nat)                         (* i0..i3 : immediate fitting 8/16/32/64 bits (signed) *)
| PS                                   (* s : immediate 1,2,4,8 *)
| PC (z : Z)                           (* c<number> *)
| PM (sg : option bool) (k : nat)      (* m / ms / mu + size code 0..3: integer memory of 2^k bytes *)
| PLab (short : bool)                  (* l / L *)
| PSame (n : nat)                      (* digit: same as operand n *)
| Pother (s : string).

Definition xrow := (opcode * list pel * list (list tok))%type.

(* ------------------------------------------------------------------ abstract instructions *)
Inductive osz := O8 | O16 | O32 | O64.
Definition obits (w : osz) : Z := match w with O8 => 8 | O16 => 16 | O32 => 32 | O64 => 64 end.

Inductive xloc := LOp (k : nat).                      (* the place of operand k (register or THE memory cell) *)
Inductive xsrc := XL (l : xloc) | XImm (k : nat) (bits : Z) | XLit (z : Z).
   (* XImm k bits: operand k encoded as a sign-extended immediate of that many bits *)

Inductive aluop := AAdd | AOr | AAnd | ASub | AXor | ACmp | ATest.
Inductive shop := SShl | SShr | SSar.
Inductive cc := Co | Cno | Cb | Cae | Ce | Cne | Cbe | Ca | Cl | Cge | Cle | Cg.

Inductive xinsn :=
| XAlu (o : aluop) (w : osz) (d : xloc) (s : xsrc)
| XMov (w : osz) (d : xloc) (s : xsrc)
| XMovx (sg : bool) (ws wd : osz) (d : nat) (s : xloc)     (* movsx / movzx / movsxd into register operand d *)
| XLea (w : osz) (d : nat) (b : nat) (s : nat) (mul : bool) (* lea d, [b + s] (s register or disp) | [b * s] *)
| XImul2 (w : osz) (d : nat) (s : xloc)
| XImul3 (w : osz) (d : nat) (s : xloc) (i : xsrc)
| XMul (w : osz) (s : xloc)                                 (* rdx:rax = rax * s *)
| XDiv (w : osz) (s : xloc) | XIdiv (w : osz) (s : xloc)
| XCqo (w : osz)                                            (* sign of rax into rdx *)
| XZeroDx                                                   (* xor edx, edx *)
| XNeg (w : osz) (d : xloc)
| XShift (o : shop) (w : osz) (d : xloc) (c : option xsrc)  (* None: count in cl *)
| XSetcc (c : cc) (d : nat)
| XJcc (c : cc)
| XJmp.

(* ------------------------------------------------------------------ decoding of one template instruction *)
Definition size_of (pre : list tok) : option osz :=
  match pre with
  | [TX] => Some O64
  | [TY] | [TZ] | [] => Some O32
  | [TB 102; TY] | [TB 102] => Some O16          (* 66 operand-size prefix *)
  | _ => None
  end.

Definition rm_loc (t : tok) : option xloc :=
  match t with TR k | TS k | Tm k => Some (LOp k) | _ => None end.

Definition alu_rm_r (b : Z) : option aluop :=      (* op r/m, r *)
  match b with 1 => Some AAdd | 9 => Some AOr | 33 => Some AAnd | 41 => Some ASub | 49 => Some AXor
             | 57 => Some ACmp | 133 => Some ATest | _ => None end.
Definition alu_r_rm (b : Z) : option aluop :=      (* op r, r/m *)
  match b with 3 => Some AAdd | 11 => Some AOr | 35 => Some AAnd | 43 => Some ASub | 51 => Some AXor
             | 59 => Some ACmp | _ => None end.
Definition alu_ext (d : Z) : option aluop :=       (* 80/81/83 /d *)
  match d with 0 => Some AAdd | 1 => Some AOr | 4 => Some AAnd | 5 => Some ASub | 6 => Some AXor
             | 7 => Some ACmp | _ => None end.
Definition shift_ext (d : Z) : option shop :=
  match d with 4 => Some SShl | 5 => Some SShr | 7 => Some SSar | _ => None end.
Definition cc_of (b : Z) : option cc :=            (* low nibble of 7x / 0F 8x / 0F 9x *)
  match b with 0 => Some Co | 1 => Some Cno | 2 => Some Cb | 3 => Some Cae | 4 => Some Ce | 5 => Some Cne
             | 6 => Some Cbe | 7 => Some Ca | 12 => Some Cl | 13 => Some Cge | 14 => Some Cle | 15 => Some Cg
             | _ => None end.

(* split the size prefix tokens from the rest *)
Fixpoint split_prefix (ts : list tok) : list tok * list tok :=
  match ts with
  | TX :: r => ([TX], r) | TY :: r => ([TY], r) | TZ :: r => ([TZ], r)
  | TB 102 :: r => let (p, q) := split_prefix r in (TB 102 :: p, q)
  | _ => ([], ts)
  end.

Definition decode_body (w : osz) (ts : list tok) : option xinsn :=
  match ts with
  (* op r, r/m   and   op r/m, r   (also test, mov, imul, movsx/zx, movsxd, lea) *)
  | [TB b; Tr a; rm] =>
      match rm_loc rm with
      | Some l =>
          if b =? 139 then Some (XMov w (LOp a) (XL l))                       (* 8B mov r, r/m *)
          else if (b =? 137) then Some (XMov w l (XL (LOp a)))                 (* 89 mov r/m, r *)
          else if (b =? 136) then Some (XMov O8 l (XL (LOp a)))                (* 88 mov r/m8, r8 *)
          else if (b =? 99) then Some (XMovx true O32 w a l)                   (* 63 movsxd *)
          else match alu_r_rm b, alu_rm_r b with
               | Some o, _ => Some (XAlu o w (LOp a) (XL l))
               | None, Some o => Some (XAlu o w l (XL (LOp a)))
               | None, None => None
               end
      | None => match rm with
                | Tap => if b =? 141 then Some (XLea w a 1 2 false) else None  (* 8D lea *)
                | Tam => if b =? 141 then Some (XLea w a 1 2 true) else None
                | _ => None
                end
      end
  | [TB 15; TB b; Tr a; rm] =>
      match rm_loc rm with
      | Some l =>
          if b =? 175 then Some (XImul2 w a l)                                  (* 0F AF *)
          else if b =? 190 then Some (XMovx true O8 w a l)                      (* 0F BE movsx r, r/m8 *)
          else if b =? 191 then Some (XMovx true O16 w a l)
          else if b =? 182 then Some (XMovx false O8 w a l)                     (* 0F B6 movzx *)
          else if b =? 183 then Some (XMovx false O16 w a l)
          else None
      | None => None
      end
  | [TB 105; Tr a; rm; TI i] =>                                                (* 69 imul r, r/m, imm32 *)
      match rm_loc rm with Some l => Some (XImul3 w a l (XImm i 32)) | None => None end
  (* immediate groups *)
  | [TB 131; TSl d; rm; Ti i] =>
      match rm_loc rm, alu_ext d with Some l, Some o => Some (XAlu o w l (XImm i 8)) | _, _ => None end
  | [TB 131; TSl d; rm; Tv z] =>
      match rm_loc rm, alu_ext d with Some l, Some o => Some (XAlu o w l (XLit z)) | _, _ => None end
  | [TB 129; TSl d; rm; TI i] =>
      match rm_loc rm, alu_ext d with Some l, Some o => Some (XAlu o w l (XImm i 32)) | _, _ => None end
  | [TB 128; TSl d; rm; Tv z] =>
      match rm_loc rm, alu_ext d with Some l, Some o => Some (XAlu o O8 l (XLit z)) | _, _ => None end
  | [TB 199; TSl 0; rm; TI i] =>                                               (* C7 /0 mov r/m, imm32 *)
      match rm_loc rm with Some l => Some (XMov w l (XImm i 32)) | None => None end
  | [TB 198; TSl 0; rm; Ti i] =>                                               (* C6 /0 mov r/m8, imm8 *)
      match rm_loc rm with Some l => Some (XMov O8 l (XImm i 8)) | None => None end
  | [TB 184; TPlus a; TJ i] => Some (XMov w (LOp a) (XImm i 64))               (* B8+ mov r, imm64 *)
  | [TB 193; TSl d; rm; Ti i] =>                                               (* C1 /d shift by imm8 *)
      match rm_loc rm, shift_ext d with Some l, Some o => Some (XShift o w l (Some (XImm i 8))) | _, _ => None end
  | [TB 211; TSl d; rm] =>                                                     (* D3 /d shift by cl *)
      match rm_loc rm, shift_ext d with Some l, Some o => Some (XShift o w l None) | _, _ => None end
  | [TB 247; TSl d; rm] =>                                                     (* F7 /d *)
      match rm_loc rm with
      | Some l => if d =? 3 then Some (XNeg w l) else if d =? 4 then Some (XMul w l)
                  else if d =? 6 then Some (XDiv w l) else if d =? 7 then Some (XIdiv w l) else None
      | None => None
      end
  | [TB 153] => Some (XCqo w)                                                  (* 99 cdq / cqo *)
  | [TB 49; TB 210] => Some XZeroDx                                            (* 31 D2 xor edx, edx *)
  | [TB 15; TB b; TS a] =>                                                     (* 0F 9x setcc r/m8 *)
      if (144 <=? b) && (b <=? 159) then match cc_of (b - 144) with Some c => Some (XSetcc c a) | None => None end
      else None
  | [TB b; Tl 0] =>
      if b =? 235 then Some XJmp
      else if (112 <=? b) && (b <=? 127) then match cc_of (b - 112) with Some c => Some (XJcc c) | None => None end
      else None
  | [TB 233; TL 0] => Some XJmp
  | [TB 15; TB b; TL 0] =>
      if (128 <=? b) && (b <=? 143) then match cc_of (b - 128) with Some c => Some (XJcc c) | None => None end
      else None
  | _ => None
  end.

Definition decode_insn (ts : list tok) : option xinsn :=
  let (pre, body) := split_prefix ts in
  match size_of pre with
  | Some w => decode_body w body
  | None => None
  end.

Fixpoint decode (tmpl : list (list tok)) : option (list xinsn) :=
  match tmpl with
  | [] => Some []
  | t :: r => match decode_insn t, decode r with
              | Some i, Some l => Some (i :: l)
              | _, _ => None
              end
  end.

(* ------------------------------------------------------------------ machine state *)
Inductive oval :=
| OReg (r : nat)                 (* a hard register (operands are hard registers after allocation) *)
| OMem (sg : bool) (k : nat)     (* the memory cell, MIR integer type signed? / 2^k bytes *)
| OImm (v : Z)                   (* immediate (or resolved reference): any representative of the int64 *)
| OLab.

Record xst := { regs : nat -> Z; memc : Z; fCF : bool; fZF : bool; fSF : bool; fOF : bool }.

Definition RAX : nat := 0%nat.
Definition RCX : nat := 1%nat.
Definition RDX : nat := 2%nat.

Definition opnd (ops : list oval) (k : nat) : oval := nth k ops OLab.

(* n-bit read / write of a 64-bit container (registers; the memory cell holds up to 8 bytes) *)
Definition rd_bits (w : osz) (v : Z) : Z := uwrap (obits w) v.
Definition merge_bits (w : osz) (old v : Z) : Z :=          (* low bits replaced, the rest kept *)
  uwrap 64 old - uwrap (obits w) old + uwrap (obits w) v.
Definition wr_reg_bits (w : osz) (old v : Z) : Z :=
  match w with
  | O64 => uwrap 64 v
  | O32 => uwrap 32 v                                       (* 32-bit writes zero the upper half *)
  | _ => merge_bits w old v
  end.

Definition set_reg (st : xst) (r : nat) (v : Z) : xst :=
  {| regs := fun x => if Nat.eqb x r then v else regs st x; memc := memc st;
     fCF := fCF st; fZF := fZF st; fSF := fSF st; fOF := fOF st |}.
Definition set_mem (st : xst) (v : Z) : xst :=
  {| regs := regs st; memc := v; fCF := fCF st; fZF := fZF st; fSF := fSF st; fOF := fOF st |}.
Definition set_flags (st : xst) (c z s o : bool) : xst :=
  {| regs := regs st; memc := memc st; fCF := c; fZF := z; fSF := s; fOF := o |}.

Definition rd_loc (ops : list oval) (st : xst) (w : osz) (l : xloc) : option Z :=
  match l with
  | LOp k => match opnd ops k with
             | OReg r => Some (rd_bits w (regs st r))
             | OMem _ _ => Some (rd_bits w (memc st))
             | _ => None
             end
  end.

Definition wr_loc (ops : list oval) (st : xst) (w : osz) (l : xloc) (v : Z) : option xst :=
  match l with
  | LOp k => match opnd ops k with
             | OReg r => Some (set_reg st r (wr_reg_bits w (regs st r) v))
             | OMem _ _ => Some (set_mem st (merge_bits w (memc st) v))
             | _ => None
             end
  end.

(* the mathematical value of an immediate encoded in [bits] bits (sign-extended); the encoder would
   truncate a value that does not fit, so that case has no semantics *)
Definition imm_val (ops : list oval) (k : nat) (bits : Z) : option Z :=
  match opnd ops k with
  | OImm v => let s := swrap 64 v in
              if (- 2 ^ (bits - 1) <=? s) && (s <? 2 ^ (bits - 1)) then Some s else None
  | _ => None
  end.

Definition rd_src (ops : list oval) (st : xst) (w : osz) (s : xsrc) : option Z :=
  match s with
  | XL l => rd_loc ops st w l
  | XImm k bits => match imm_val ops k bits with Some v => Some (uwrap (obits w) v) | None => None end
  | XLit z => Some (uwrap (obits w) z)
  end.

Definition msb (w : osz) (v : Z) : bool := 2 ^ (obits w - 1) <=? uwrap (obits w) v.
Definition sval (w : osz) (v : Z) : Z := swrap (obits w) v.

Definition cc_holds (st : xst) (c : cc) : bool :=
  match c with
  | Co => fOF st | Cno => negb (fOF st)
  | Cb => fCF st | Cae => negb (fCF st)
  | Ce => fZF st | Cne => negb (fZF st)
  | Cbe => fCF st || fZF st | Ca => negb (fCF st) && negb (fZF st)
  | Cl => xorb (fSF st) (fOF st) | Cge => negb (xorb (fSF st) (fOF st))
  | Cle => fZF st || xorb (fSF st) (fOF st) | Cg => negb (fZF st) && negb (xorb (fSF st) (fOF st))
  end.

(* result and flags of the two-operand ALU instructions on w-bit values a (destination) and b *)
Definition alu_res (o : aluop) (w : osz) (a b : Z) : Z :=
  match o with
  | AAdd => uwrap (obits w) (a + b)
  | ASub | ACmp => uwrap (obits w) (a - b)
  | AAnd | ATest => Z.land a b
  | AOr => Z.lor a b
  | AXor => Z.lxor a b
  end.
Definition alu_cf (o : aluop) (w : osz) (a b : Z) : bool :=
  match o with
  | AAdd => 2 ^ obits w <=? a + b
  | ASub | ACmp => a <? b
  | _ => false
  end.
Definition alu_of (o : aluop) (w : osz) (a b : Z) : bool :=
  match o with
  | AAdd => negb (sval w (a + b) =? sval w a + sval w b)
  | ASub | ACmp => negb (sval w (a - b) =? sval w a - sval w b)
  | _ => false
  end.
Definition alu_writes (o : aluop) : bool := match o with ACmp | ATest => false | _ => true end.

Definition shift_count (w : osz) (c : Z) : Z := Z.land c (if obits w =? 64 then 63 else 31).

(* (next state, branch decision if the instruction is a jump) *)
Definition xexec (ops : list oval) (st : xst) (i : xinsn) : option (xst * option bool) :=
  match i with
  | XAlu o w d s =>
      match rd_loc ops st w d, rd_src ops st w s with
      | Some a, Some b =>
          let r := alu_res o w a b in
          let st1 := set_flags st (alu_cf o w a b) (r =? 0) (msb w r) (alu_of o w a b) in
          if alu_writes o then match wr_loc ops st1 w d r with Some st2 => Some (st2, None) | None => None end
          else Some (st1, None)
      | _, _ => None
      end
  | XMov w d s =>
      match rd_src ops st w s with
      | Some v => match wr_loc ops st w d v with Some st1 => Some (st1, None) | None => None end
      | None => None
      end
  | XMovx sg ws wd d s =>
      match opnd ops d, rd_loc ops st ws s with
      | OReg r, Some v =>
          let x := if sg then swrap (obits ws) v else v in
          Some (set_reg st r (wr_reg_bits wd (regs st r) x), None)
      | _, _ => None
      end
  | XLea w d b s mul =>
      match opnd ops d, opnd ops b with
      | OReg rd, OReg rb =>
          match (match opnd ops s with
                 | OReg rs => if mul then None else Some (regs st rs)
                 | OImm v => Some (swrap 64 v)
                 | _ => None
                 end) with
          | Some y => let a := if mul then regs st rb * y else regs st rb + y in
                      Some (set_reg st rd (wr_reg_bits w (regs st rd) a), None)
          | None => None
          end
      | _, _ => None
      end
  | XImul2 w d s =>
      match opnd ops d, rd_loc ops st w s with
      | OReg r, Some b =>
          let a := rd_bits w (regs st r) in
          let p := sval w a * sval w b in
          let ovf := negb (sval w p =? p) in
          let st1 := set_flags st ovf (fZF st) (fSF st) ovf in
          Some (set_reg st1 r (wr_reg_bits w (regs st r) p), None)
      | _, _ => None
      end
  | XImul3 w d s im =>
      match opnd ops d, rd_loc ops st w s, rd_src ops st w im with
      | OReg r, Some a, Some b =>
          let p := sval w a * sval w b in
          let ovf := negb (sval w p =? p) in
          let st1 := set_flags st ovf (fZF st) (fSF st) ovf in
          Some (set_reg st1 r (wr_reg_bits w (regs st r) p), None)
      | _, _, _ => None
      end
  | XMul w s =>
      match rd_loc ops st w s with
      | Some b =>
          let a := rd_bits w (regs st RAX) in
          let p := a * b in
          let hi := p / 2 ^ obits w in
          let ovf := negb (hi =? 0) in
          let st1 := set_flags st ovf (fZF st) (fSF st) ovf in
          let st2 := set_reg st1 RAX (wr_reg_bits w (regs st RAX) p) in
          Some (set_reg st2 RDX (wr_reg_bits w (regs st RDX) hi), None)
      | None => None
      end
  | XDiv w s =>
      match rd_loc ops st w s with
      | Some b =>
          let n := rd_bits w (regs st RDX) * 2 ^ obits w + rd_bits w (regs st RAX) in
          if (b =? 0) || (2 ^ obits w <=? n / b) then None            (* #DE *)
          else let st1 := set_reg st RAX (wr_reg_bits w (regs st RAX) (n / b)) in
               Some (set_reg st1 RDX (wr_reg_bits w (regs st RDX) (n mod b)), None)
      | None => None
      end
  | XIdiv w s =>
      match rd_loc ops st w s with
      | Some b0 =>
          let b := sval w b0 in
          let n := swrap (2 * obits w) (rd_bits w (regs st RDX) * 2 ^ obits w + rd_bits w (regs st RAX)) in
          if b =? 0 then None
          else let q := Z.quot n b in
               if (q <? - 2 ^ (obits w - 1)) || (2 ^ (obits w - 1) <=? q) then None   (* #DE *)
               else let st1 := set_reg st RAX (wr_reg_bits w (regs st RAX) q) in
                    Some (set_reg st1 RDX (wr_reg_bits w (regs st RDX) (Z.rem n b)), None)
      | None => None
      end
  | XCqo w =>
      let a := sval w (regs st RAX) in
      Some (set_reg st RDX (wr_reg_bits w (regs st RDX) (if a <? 0 then -1 else 0)), None)
  | XZeroDx => Some (set_flags (set_reg st RDX 0) false true false false, None)
  | XNeg w d =>
      match rd_loc ops st w d with
      | Some a =>
          let r := uwrap (obits w) (- a) in
          let st1 := set_flags st (negb (a =? 0)) (r =? 0) (msb w r) (a =? 2 ^ (obits w - 1)) in
          match wr_loc ops st1 w d r with Some st2 => Some (st2, None) | None => None end
      | None => None
      end
  | XShift o w d c =>
      match rd_loc ops st w d,
            (match c with None => Some (regs st RCX) | Some s => rd_src ops st O8 s end) with
      | Some a, Some c0 =>
          let n := shift_count w c0 in
          let r := match o with
                   | SShl => uwrap (obits w) (a * 2 ^ n)
                   | SShr => a / 2 ^ n
                   | SSar => uwrap (obits w) (sval w a / 2 ^ n)
                   end in
          (* flags after shifts are not consumed by any pattern: left as they are *)
          match wr_loc ops st w d r with Some st1 => Some (st1, None) | None => None end
      | _, _ => None
      end
  | XSetcc c d =>
      match opnd ops d with
      | OReg r => Some (set_reg st r (wr_reg_bits O8 (regs st r) (b2z (cc_holds st c))), None)
      | _ => None
      end
  | XJcc c => Some (st, Some (cc_holds st c))
  | XJmp => Some (st, Some true)
  end.

Fixpoint xrun (ops : list oval) (st : xst) (l : list xinsn) : option (xst * option bool) :=
  match l with
  | [] => Some (st, None)
  | i :: r => match xexec ops st i with
              | Some (st1, None) => xrun ops st1 r
              | Some (st1, Some b) => match r with [] => Some (st1, Some b) | _ => None end
              | None => None
              end
  end.

(* ------------------------------------------------------------------ MIR side of a row *)
(* does operand realisation o (with the earlier operands prev) match pattern element p ? *)
Definition int_fits (bits : Z) (v : Z) : bool :=
  let s := swrap 64 v in (- 2 ^ (bits - 1) <=? s) && (s <? 2 ^ (bits - 1)).

Definition oval_eqb (a b : oval) : bool :=
  match a, b with
  | OReg x, OReg y => Nat.eqb x y
  | OMem s k, OMem s' k' => Bool.eqb s s' && Nat.eqb k k'
  | OImm v, OImm v' => uwrap 64 v =? uwrap 64 v'
  | OLab, OLab => true
  | _, _ => false
  end.

Definition pel_match (prev : list oval) (p : pel) (o : oval) : bool :=
  match p, o with
  | PR, OReg _ => true
  | PH n, OReg r => Nat.eqb n r
  | PZ, OImm v => uwrap 64 v =? 0
  | PI k, OImm v => match k with 0%nat => int_fits 8 v | 1%nat => int_fits 16 v | 2%nat => int_fits 32 v | _ => true end
  | PS, OImm v => let u := uwrap 64 v in (u =? 1) || (u =? 2) || (u =? 4) || (u =? 8)
  | PC z, OImm v => uwrap 64 v =? uwrap 64 z
  | PM sg k, OMem s k' => Nat.eqb k k' && Nat.leb k 3 && match sg with Some b => Bool.eqb b s | None => true end
  | PLab _, OLab => true
  | PSame n, _ => oval_eqb (nth n prev OLab) o
  | _, _ => false
  end.

Fixpoint pat_match (prev : list oval) (ps : list pel) (os : list oval) : bool :=
  match ps, os with
  | [], [] => true
  | p :: pr, o :: orr => pel_match prev p o && pat_match (prev ++ [o]) pr orr
  | _, _ => false
  end.

Definition mem_bits (k : nat) : Z := 8 * 2 ^ Z.of_nat k.

(* the 64-bit value MIR sees in operand o *)
Definition mir_val (st : xst) (o : oval) : Z :=
  match o with
  | OReg r => uwrap 64 (regs st r)
  | OMem sg k => if sg then uwrap 64 (swrap (mem_bits k) (memc st)) else uwrap (mem_bits k) (memc st)
  | OImm v => uwrap 64 v
  | OLab => 0
  end.

(* Float value / branch rows, LDMOV, overflow-branch rows, memory rows. *)
From Coq Require Import ZArith Lia Bool List String.
From MirV Require Import Mir.DocSpec Mir.CExpr C02.WFacts C02.RowCheck C02.RowProofs C02.IntRows.
Import ListNotations.
Local Open Scope Z_scope.

Arguments uwrap : simpl never.
Arguments swrap : simpl never.
Arguments Z.pow : simpl never.
Arguments Z.mul : simpl never.
Arguments Z.add : simpl never.
Arguments Z.sub : simpl never.
Arguments Z.opp : simpl never.
Arguments Z.div : simpl never.
Arguments Z.modulo : simpl never.
Arguments Z.eqb : simpl never.
Arguments Z.ltb : simpl never.
Arguments Z.leb : simpl never.

(* ---- structural equality reflects equality *)
Lemma cty_eqb_eq a b : cty_eqb a b = true -> a = b.
Proof. destruct a, b; cbn; intros; try discriminate; reflexivity. Qed.
Lemma cbinop_eqb_eq a b : cbinop_eqb a b = true -> a = b.
Proof. destruct a, b; cbn; intros; try discriminate; reflexivity. Qed.
Lemma cunop_eqb_eq a b : cunop_eqb a b = true -> a = b.
Proof. destruct a, b; cbn; intros; try discriminate; reflexivity. Qed.

Lemma cexpr_eqb_eq a : forall b, cexpr_eqb a b = true -> a = b.
Proof.
  induction a; destruct b; cbn [cexpr_eqb]; intros H; try discriminate;
    repeat (apply andb_prop in H; let H1 := fresh in destruct H as [H H1]).
  - apply Nat.eqb_eq in H. apply cty_eqb_eq in H0. subst. reflexivity.
  - apply Z.eqb_eq in H. apply cty_eqb_eq in H0. subst. reflexivity.
  - apply cty_eqb_eq in H. apply IHa in H0. subst. reflexivity.
  - apply cunop_eqb_eq in H. apply IHa in H0. subst. reflexivity.
  - apply cbinop_eqb_eq in H. apply IHa1 in H1. apply IHa2 in H0. subst. reflexivity.
  - apply IHa1 in H. apply IHa2 in H1. apply IHa3 in H0. subst. reflexivity.
Qed.

(* ---- the float helpers only look at the low 32 / 64 bits *)
Lemma f_of_uwrap a : f_of (uwrap 32 a) = f_of a.
Proof. unfold f_of. rewrite uwrap_idem by lia. reflexivity. Qed.
Lemma d_of_uwrap a : d_of (uwrap 64 a) = d_of a.
Proof. unfold d_of. rewrite uwrap_idem by lia. reflexivity. Qed.

Lemma fbin32_uwrap o a b : fbin32 o (uwrap 32 a) (uwrap 32 b) = fbin32 o a b.
Proof. unfold fbin32. rewrite !f_of_uwrap. reflexivity. Qed.
Lemma fbin64_uwrap o a b : fbin64 o (uwrap 64 a) (uwrap 64 b) = fbin64 o a b.
Proof. unfold fbin64. rewrite !d_of_uwrap. reflexivity. Qed.
Lemma fneg32_uwrap a : fneg32 (uwrap 32 a) = fneg32 a.
Proof. unfold fneg32. rewrite f_of_uwrap. reflexivity. Qed.
Lemma fneg64_uwrap a : fneg64 (uwrap 64 a) = fneg64 a.
Proof. unfold fneg64. rewrite d_of_uwrap. reflexivity. Qed.
Lemma fcompare32_uwrap c a b : fcompare32 c (uwrap 32 a) (uwrap 32 b) = fcompare32 c a b.
Proof. unfold fcompare32. rewrite !f_of_uwrap. reflexivity. Qed.
Lemma fcompare64_uwrap c a b : fcompare64 c (uwrap 64 a) (uwrap 64 b) = fcompare64 c a b.
Proof. unfold fcompare64. rewrite !d_of_uwrap. reflexivity. Qed.
Lemma f2d_uwrap a : f2d (uwrap 32 a) = f2d a.
Proof. unfold f2d. rewrite f_of_uwrap. reflexivity. Qed.
Lemma d2f_uwrap a : d2f (uwrap 64 a) = d2f a.
Proof. unfold d2f. rewrite d_of_uwrap. reflexivity. Qed.

Lemma feqv32_wrap v : feqv32 (uwrap 32 v) v = true.
Proof. unfold feqv32. rewrite uwrap_idem by lia. rewrite Z.eqb_refl. reflexivity. Qed.
Lemma feqv64_wrap v : feqv64 (uwrap 64 v) v = true.
Proof. unfold feqv64. rewrite uwrap_idem by lia. rewrite Z.eqb_refl. reflexivity. Qed.

Global Opaque fbin32 fbin64 fneg32 fneg64 fcompare32 fcompare64 f2d d2f z2f z2d f_of d_of.

(* equality demanded of a float-class result *)
Definition feq_res (c : fclass) (r d : Z) : Prop :=
  match c with
  | FC_mov PF | FC_neg PF | FC_bin _ PF | FC_i2f _ PF | FC_d2f => feqv32 r d = true
  | FC_mov PD | FC_neg PD | FC_bin _ PD | FC_i2f _ PD | FC_f2d => feqv64 r d = true
  | FC_cmp _ _ | FC_f2i _ => r = d
  | FC_none => False
  end.

Definition float_row_sound_def (op : opcode) (s : cstmt) : Prop :=
  forall args d, doc_sem_float op args = Some d ->
    exists r, stmt_value (env_of args) s = Some r /\ feq_res (float_class op) r d.

Lemma fop_of_cop o : fop_of (cop_of_f o) = Some o. Proof. destruct o; reflexivity. Qed.
Lemma cmp_of_cop c : cmp_of (cop_of_cmp c) = Some c. Proof. destruct c; reflexivity. Qed.
Lemma fop_of_cmp c : fop_of (cop_of_cmp c) = None. Proof. destruct c; reflexivity. Qed.

Lemma tymin64 : ty_min CI64 = - 2 ^ 63. Proof. reflexivity. Qed.
Lemma tymax64 : ty_max CI64 = 2 ^ 63 - 1. Proof. reflexivity. Qed.

Lemma range_i64 z : ((ty_min CI64 <=? z) && (z <=? ty_max CI64)) = ((- 2 ^ 63 <=? z) && (z <? 2 ^ 63)).
Proof.
  rewrite tymin64, tymax64. f_equal.
  destruct (Z.leb_spec z (2 ^ 63 - 1)), (Z.ltb_spec z (2 ^ 63)); try reflexivity; lia.
Qed.

Lemma float_value_ok_sound op T e :
  float_value_ok (float_class op) T e = true -> float_row_sound_def op (SAssign T e).
Proof.
  intros Hok args d Hd. unfold doc_sem_float in Hd. unfold float_value_ok in Hok.
  destruct (float_class op) as [p|p|o p|c p|sg p|p| | |] eqn:C; [| | | | | | | |discriminate].
  - (* mov *)
    apply andb_prop in Hok. destruct Hok as [HT He]. apply cty_eqb_eq in HT. apply cexpr_eqb_eq in He. subst.
    destruct p, args as [|a [|? ?]]; try discriminate; inversion Hd; subst; cbn;
      eexists; (split; [reflexivity|]); [apply feqv32_wrap | apply feqv64_wrap].
  - (* neg *)
    apply andb_prop in Hok. destruct Hok as [HT He]. apply cty_eqb_eq in HT. apply cexpr_eqb_eq in He. subst.
    destruct p, args as [|a [|? ?]]; try discriminate; inversion Hd; subst; cbn;
      eexists; (split; [reflexivity|]); cbn.
    + rewrite fneg32_uwrap. apply feqv32_wrap.
    + rewrite fneg64_uwrap. apply feqv64_wrap.
  - (* bin *)
    apply andb_prop in Hok. destruct Hok as [HT He]. apply cty_eqb_eq in HT. apply cexpr_eqb_eq in He. subst.
    destruct p, args as [|a [|b [|? ?]]]; try discriminate; inversion Hd; subst;
      cbn [stmt_value ceval env_of nth_error fty read_var wrap_ty ty_int ty_bits binop is_int andb convert float_binop];
      rewrite fop_of_cop; cbn [assign convert is_int ty_int ty_bits];
      eexists; (split; [reflexivity|]); cbn [feq_res].
    + rewrite fbin32_uwrap. apply feqv32_wrap.
    + rewrite fbin64_uwrap. apply feqv64_wrap.
  - (* cmp *)
    apply andb_prop in Hok. destruct Hok as [HT He]. apply cexpr_eqb_eq in He. subst.
    destruct p, args as [|a [|b [|? ?]]]; try discriminate; inversion Hd; subst;
      cbn [stmt_value ceval env_of nth_error fty read_var wrap_ty ty_int ty_bits binop is_int andb convert float_binop];
      rewrite fop_of_cmp, cmp_of_cop; rewrite assign_dst64 by (assumption || reflexivity);
      eexists; (split; [reflexivity|]); cbn [feq_res]; rewrite b2z_u64.
    + rewrite fcompare32_uwrap. reflexivity.
    + rewrite fcompare64_uwrap. reflexivity.
  - (* i2f *)
    apply andb_prop in Hok. destruct Hok as [HT He]. apply cty_eqb_eq in HT. subst T.
    destruct e as [| |t e1| | |]; try discriminate.
    apply andb_prop in He. destruct He as [Ht He]. apply cty_eqb_eq in Ht. subst t.
    destruct (leaf e1) as [[[|[|k]] ti]|] eqn:L; try discriminate.
    apply andb_prop in He. destruct He as [Hw Hs]. apply eqb_prop in Hs. subst sg.
    destruct args as [|a [|? ?]]; try (destruct p; discriminate).
    cbn [stmt_value ceval].
    rewrite (leaf_wt e1 1%nat ti W64 (env_of [a]) a L Hw eq_refl).
    destruct (wt_props (ty_signed ti) W64) as (Hi1 & _).
    assert (Hrd : rd (ty_signed ti) W64 a = (if ty_signed ti then s64 a else u64 a)) by reflexivity.
    unfold convert at 1. rewrite Hi1.
    destruct p; cbn [fty is_int ty_int assign convert ty_bits]; inversion Hd; subst;
      eexists; (split; [reflexivity|]); cbn [feq_res]; rewrite Hrd.
    + apply feqv32_wrap.
    + apply feqv64_wrap.
  - (* f2i *)
    apply andb_prop in Hok. destruct Hok as [HT He]. apply cexpr_eqb_eq in He. subst.
    destruct p, args as [|a [|? ?]]; try discriminate;
      cbn [stmt_value ceval env_of nth_error fty read_var wrap_ty ty_int ty_bits convert is_int].
    + unfold trunc32. rewrite f_of_uwrap. unfold f2i in Hd.
      destruct (Flocq.IEEE754.Binary.is_finite 24 128 (f_of a)); [|discriminate].
      rewrite range_i64.
      destruct ((- 2 ^ 63 <=? Flocq.IEEE754.Binary.Btrunc 24 128 (f_of a)) && (Flocq.IEEE754.Binary.Btrunc 24 128 (f_of a) <? 2 ^ 63));
        [|discriminate]. inversion Hd; subst.
      rewrite assign_dst64 by (assumption || reflexivity). eexists. split; reflexivity.
    + unfold trunc64. rewrite d_of_uwrap. unfold d2i in Hd.
      destruct (Flocq.IEEE754.Binary.is_finite 53 1024 (d_of a)); [|discriminate].
      rewrite range_i64.
      destruct ((- 2 ^ 63 <=? Flocq.IEEE754.Binary.Btrunc 53 1024 (d_of a)) && (Flocq.IEEE754.Binary.Btrunc 53 1024 (d_of a) <? 2 ^ 63));
        [|discriminate]. inversion Hd; subst.
      rewrite assign_dst64 by (assumption || reflexivity). eexists. split; reflexivity.
  - (* f2d *)
    apply andb_prop in Hok. destruct Hok as [HT He]. apply cty_eqb_eq in HT. subst T.
    destruct args as [|a [|? ?]]; try discriminate. inversion Hd; subst.
    apply orb_prop in He. destruct He as [He|He]; apply cexpr_eqb_eq in He; subst; cbn;
      eexists; (split; [reflexivity|]); rewrite f2d_uwrap; apply feqv64_wrap.
  - (* d2f *)
    apply andb_prop in Hok. destruct Hok as [HT He]. apply cty_eqb_eq in HT. subst T.
    destruct args as [|a [|? ?]]; try discriminate. inversion Hd; subst.
    apply orb_prop in He. destruct He as [He|He]; apply cexpr_eqb_eq in He; subst; cbn;
      eexists; (split; [reflexivity|]); rewrite d2f_uwrap; apply feqv32_wrap.
Qed.

(* ---- float branches *)
Definition float_branch_sound_def (op : opcode) (s : cstmt) : Prop :=
  forall args b, doc_branch_float op args = Some b -> stmt_branch (env_of args) s = Some b.

Lemma float_branch_ok_sound op e :
  float_branch_ok (float_branch_class op) e = true -> float_branch_sound_def op (SBranch e).
Proof.
  intros Hok args b Hd. unfold doc_branch_float in Hd. unfold float_branch_ok in Hok.
  destruct (float_branch_class op) as [c p|]; [|discriminate]. apply cexpr_eqb_eq in Hok. subst.
  destruct p, args as [|x [|y [|? ?]]]; try discriminate; inversion Hd; subst;
    cbn [stmt_branch ceval env_of nth_error fty read_var wrap_ty ty_int ty_bits binop is_int andb convert float_binop];
    rewrite fop_of_cmp, cmp_of_cop; cbn [truth is_int ty_int].
  - rewrite fcompare32_uwrap. destruct (fcompare32 c x y); reflexivity.
  - rewrite fcompare64_uwrap. destruct (fcompare64 c x y); reflexivity.
Qed.

(* ---- BO / BNO / UBO / UBNO *)
Lemma ovf_branch_ok_sound op e sf uf b :
  ovf_branch_ok op e = true -> doc_ovf_branch op sf uf = Some b ->
  stmt_branch (flag_env sf uf) (SBranch e) = Some b.
Proof.
  intros Hok Hd. destruct op; try discriminate; cbn in Hok; apply cexpr_eqb_eq in Hok; subst;
    cbn in Hd; inversion Hd; subst;
    repeat match goal with x : bool |- _ => destruct x end; reflexivity.
Qed.

(* ---- LDMOV *)
Lemma ldmov_sound a : stmt_value (env_of [a]) (SAssign CLD (EVar 1 CLD)) = Some (uwrap 80 a).
Proof. cbn. rewrite uwrap_idem by lia. reflexivity. Qed.

(* Low-level facts about the x86 model: reads / writes of operands, pattern matching, flags. *)
From Coq Require Import ZArith Lia Bool List String.
From MirV Require Import Base.W64 Mir.Opcode Mir.DocSpecInt C02.WFacts C02.X86Sem C02.X86Check.
Import ListNotations.
Local Open Scope Z_scope.

Arguments uwrap : simpl never.
Arguments swrap : simpl never.
Arguments Z.pow : simpl never.
Arguments Z.mul : simpl never.
Arguments Z.add : simpl never.
Arguments Z.sub : simpl never.
Arguments Z.opp : simpl never.
Arguments Z.div : simpl never.
Arguments Z.modulo : simpl never.
Arguments Z.quot : simpl never.
Arguments Z.rem : simpl never.
Arguments Z.land : simpl never.
Arguments Z.lor : simpl never.
Arguments Z.lxor : simpl never.
Arguments Z.eqb : simpl never.
Arguments Z.ltb : simpl never.
Arguments Z.leb : simpl never.
Arguments Z.min : simpl never.

Lemma obits_cases w : obits w = 8 \/ obits w = 16 \/ obits w = 32 \/ obits w = 64.
Proof. destruct w; cbn; lia. Qed.

Lemma mem_bits_cases k : (k <= 3)%nat -> mem_bits k = 8 \/ mem_bits k = 16 \/ mem_bits k = 32 \/ mem_bits k = 64.
Proof.
  intros H. unfold mem_bits. destruct k as [|[|[|[|k]]]]; try lia; cbn; lia.
Qed.

Lemma uw_le m n z : 0 <= m <= n -> uwrap m (uwrap n z) = uwrap m z.
Proof. intros. apply eqm_le with n; [lia|]. apply eqm_uwrap; lia. Qed.

Lemma us_le m n z : 0 < m <= n -> uwrap m (swrap n z) = uwrap m z.
Proof. intros. apply eqm_le with n; [lia|]. apply eqm_swrap; lia. Qed.

Lemma uwrap_lt n z : 0 <= n -> uwrap n z < 2 ^ n.
Proof. intros. pose proof (uwrap_bound n z H). lia. Qed.

Lemma wsz_bits w : obits (wsz w) = wbits w. Proof. destruct w; reflexivity. Qed.

Lemma osz_eqb_eq a b : osz_eqb a b = true -> a = b.
Proof. destruct a, b; cbn; intros H; try reflexivity; discriminate. Qed.

(* ---- pattern matching *)
Lemma pat_match2 p0 p1 ops : pat_match [] [p0; p1] ops = true ->
  exists o0 o1, ops = [o0; o1] /\ pel_match [] p0 o0 = true /\ pel_match [o0] p1 o1 = true.
Proof.
  destruct ops as [|o0 [|o1 [|? ?]]]; cbn [pat_match app]; intros H; try discriminate.
  - apply andb_prop in H. destruct H as [_ H]. discriminate.
  - apply andb_prop in H. destruct H as [A B]. apply andb_prop in B. destruct B as [B _].
    exists o0, o1. repeat split; assumption.
  - apply andb_prop in H. destruct H as [_ H]. apply andb_prop in H. destruct H as [_ H]. discriminate.
Qed.

Lemma pat_match3 p0 p1 p2 ops : pat_match [] [p0; p1; p2] ops = true ->
  exists o0 o1 o2, ops = [o0; o1; o2] /\ pel_match [] p0 o0 = true /\ pel_match [o0] p1 o1 = true
                   /\ pel_match [o0; o1] p2 o2 = true.
Proof.
  destruct ops as [|o0 [|o1 [|o2 [|? ?]]]]; cbn [pat_match app]; intros H; try discriminate.
  - apply andb_prop in H. destruct H as [_ H]. discriminate.
  - apply andb_prop in H. destruct H as [_ H]. apply andb_prop in H. destruct H as [_ H]. discriminate.
  - apply andb_prop in H. destruct H as [A B]. apply andb_prop in B. destruct B as [B C].
    apply andb_prop in C. destruct C as [C _]. exists o0, o1, o2. repeat split; assumption.
  - apply andb_prop in H. destruct H as [_ H]. apply andb_prop in H. destruct H as [_ H].
    apply andb_prop in H. destruct H as [_ H]. discriminate.
Qed.

Lemma pat_match1 p0 ops : pat_match [] [p0] ops = true -> exists o0, ops = [o0] /\ pel_match [] p0 o0 = true.
Proof.
  destruct ops as [|o0 [|? ?]]; cbn [pat_match app]; intros H; try discriminate.
  - apply andb_prop in H. destruct H as [A _]. exists o0. split; [reflexivity | assumption].
  - apply andb_prop in H. destruct H as [_ H]. discriminate.
Qed.

Lemma same0 o0 o1 prev : pel_match (o0 :: prev) (PSame 0) o1 = true ->
  (forall st, mir_val st o1 = mir_val st o0) /\
  ((exists r, o0 = OReg r /\ o1 = OReg r) \/ (exists s k, o0 = OMem s k /\ o1 = OMem s k)
   \/ (exists v v', o0 = OImm v /\ o1 = OImm v') \/ (o0 = OLab /\ o1 = OLab)).
Proof.
  cbn. destruct o0, o1; cbn; intros H; try discriminate.
  - apply Nat.eqb_eq in H. subst. split; [reflexivity|]. left. eauto.
  - apply andb_prop in H. destruct H as [H1 H2]. apply eqb_prop in H1. apply Nat.eqb_eq in H2. subst.
    split; [reflexivity|]. right. left. eauto.
  - apply Z.eqb_eq in H. split; [intros; cbn; congruence|]. right. right. left. eauto.
  - split; [reflexivity|]. right. right. right. split; reflexivity.
Qed.

(* ---- reading operands *)
Lemma rd_loc_reg ops st w k r : opnd ops k = OReg r ->
  rd_loc ops st w (LOp k) = Some (uwrap (obits w) (mir_val st (OReg r))).
Proof.
  intros H. unfold rd_loc. rewrite H. cbn [mir_val]. unfold rd_bits. f_equal. symmetry.
  apply uw_le. destruct (obits_cases w) as [E|[E|[E|E]]]; rewrite E; lia.
Qed.

Lemma rd_loc_mem ops st w k s kk : opnd ops k = OMem s kk -> (kk <= 3)%nat -> obits w <= mem_bits kk ->
  rd_loc ops st w (LOp k) = Some (uwrap (obits w) (mir_val st (OMem s kk))).
Proof.
  intros H Hk Hw. unfold rd_loc. rewrite H. cbn [mir_val]. unfold rd_bits. f_equal. symmetry.
  pose proof (mem_bits_cases kk Hk) as Hm. pose proof (obits_cases w) as Ho.
  destruct s.
  - rewrite uw_le by lia. apply us_le. lia.
  - apply uw_le. lia.
Qed.

(* a source accepted by src_ok yields the low bits of the MIR value *)
Lemma rd_src_ok ops st w p k s prev o :
  opnd ops k = o -> pel_match prev p o = true -> src_ok w p k s = true ->
  rd_src ops st w s = Some (uwrap (obits w) (mir_val st o)).
Proof.
  intros Ho Hm Hs. destruct s as [[k']|k' bits|z]; cbn [src_ok] in Hs; try discriminate.
  - apply andb_prop in Hs. destruct Hs as [Hk Hp]. apply Nat.eqb_eq in Hk. subst k'. cbn [rd_src].
    destruct p; try discriminate.
    + destruct o; cbn in Hm; try discriminate. apply rd_loc_reg. assumption.
    + destruct o; cbn in Hm; try discriminate. apply rd_loc_reg. assumption.
    + destruct o as [|s0 kq| |]; cbn in Hm; try discriminate.
      apply andb_prop in Hm. destruct Hm as [Hm _]. apply andb_prop in Hm. destruct Hm as [Hk0 _].
      apply Nat.eqb_eq in Hk0. subst kq.
      apply andb_prop in Hp. destruct Hp as [Hw Hl]. apply Z.leb_le in Hw. apply Nat.leb_le in Hl.
      apply rd_loc_mem; assumption.
  - apply andb_prop in Hs. destruct Hs as [Hk Hp]. apply Nat.eqb_eq in Hk. subst k'.
    destruct p as [| | |kk| | | | | |]; try discriminate. destruct o as [| |v|]; cbn [pel_match] in Hm; try discriminate.
    apply andb_prop in Hp. destruct Hp as [Hp Hb0]. apply andb_prop in Hp. destruct Hp as [Hp Hb64].
    apply Z.leb_le in Hp, Hb64. apply Z.ltb_lt in Hb0.
    cbn [rd_src]. unfold imm_val. rewrite Ho.
    assert (Hmono : forall b, b <= bits -> 0 < b -> int_fits b v = true -> int_fits bits v = true).
    { intros b Hb Hbp Hf. unfold int_fits in *. apply andb_prop in Hf. destruct Hf as [F1 F2].
      apply Z.leb_le in F1. apply Z.ltb_lt in F2.
      assert (2 ^ (b - 1) <= 2 ^ (bits - 1)) by (apply Z.pow_le_mono_r; lia).
      apply andb_true_intro. split; [apply Z.leb_le | apply Z.ltb_lt]; lia. }
    assert (Hf : int_fits bits v = true).
    { destruct kk as [|[|[|kk]]].
      - apply (Hmono 8); [cbn in Hp; lia | lia | exact Hm].
      - apply (Hmono 16); [cbn in Hp; lia | lia | exact Hm].
      - apply (Hmono 32); [cbn in Hp; lia | lia | exact Hm].
      - pose proof (swrap_bound 64 v ltac:(lia)) as Hsb.
        assert (64 <= bits).
        { assert (2 ^ 3 <= 2 ^ Z.of_nat (S (S (S kk)))) by (apply Z.pow_le_mono_r; lia). change (2 ^ 3) with 8 in *. lia. }
        assert (bits = 64) by lia. subst bits. unfold int_fits. change (64 - 1) with 63 in *.
        apply andb_true_intro. split; [apply Z.leb_le | apply Z.ltb_lt]; lia. }
    unfold int_fits in Hf. rewrite Hf. cbn [mir_val]. f_equal.
    destruct (obits_cases w) as [E|[E|[E|E]]]; rewrite E; rewrite (us_le _ 64), (uw_le _ 64) by lia; reflexivity.
Qed.

(* ---- writing operand 0 *)
Lemma merge_low w old v : uwrap (obits w) (merge_bits w old v) = uwrap (obits w) v.
Proof.
  unfold merge_bits. set (n := obits w). assert (Hn : 0 <= n <= 64) by (unfold n; destruct w; cbn; lia).
  pose proof (pow2_pos n ltac:(lia)).
  assert (E : uwrap 64 old - uwrap n old = (uwrap 64 old / 2 ^ n) * 2 ^ n).
  { rewrite <- (uw_le n 64 old) by lia. unfold uwrap at 2.
    pose proof (Z.div_mod (uwrap 64 old) (2 ^ n) ltac:(lia)). lia. }
  rewrite E. unfold uwrap at 1. rewrite Z.add_comm, Z.mod_add by lia. apply Z.mod_mod. lia.
Qed.

Lemma merge_range w old v : 0 <= merge_bits w old v < 2 ^ 64.
Proof.
  unfold merge_bits. set (n := obits w). assert (Hn : 0 <= n <= 64) by (unfold n; destruct w; cbn; lia).
  pose proof (pow2_pos n ltac:(lia)).
  assert (E : uwrap 64 old - uwrap n old = (uwrap 64 old / 2 ^ n) * 2 ^ n).
  { rewrite <- (uw_le n 64 old) by lia. unfold uwrap at 2.
    pose proof (Z.div_mod (uwrap 64 old) (2 ^ n) ltac:(lia)). lia. }
  rewrite E. pose proof (uwrap_bound n v ltac:(lia)). pose proof (uwrap_bound 64 old ltac:(lia)).
  assert (0 <= uwrap 64 old / 2 ^ n) by (apply Z.div_pos; lia).
  assert (uwrap 64 old / 2 ^ n < 2 ^ (64 - n)).
  { apply Z.div_lt_upper_bound; [lia|]. rewrite <- Z.pow_add_r by lia. replace (n + (64 - n)) with 64 by lia. lia. }
  assert (2 ^ 64 = 2 ^ (64 - n) * 2 ^ n) by (rewrite <- Z.pow_add_r by lia; f_equal; lia). nia.
Qed.

Lemma merge_high w old v : uwrap 64 (merge_bits w old v) / 2 ^ obits w = uwrap 64 old / 2 ^ obits w.
Proof.
  rewrite (uwrap_small 64) by apply merge_range.
  unfold merge_bits. set (n := obits w). assert (Hn : 0 <= n <= 64) by (unfold n; destruct w; cbn; lia).
  pose proof (pow2_pos n ltac:(lia)).
  assert (E : uwrap 64 old - uwrap n old = (uwrap 64 old / 2 ^ n) * 2 ^ n).
  { rewrite <- (uw_le n 64 old) by lia. unfold uwrap at 2.
    pose proof (Z.div_mod (uwrap 64 old) (2 ^ n) ltac:(lia)). lia. }
  rewrite E. rewrite Z.add_comm. rewrite Z.div_add by lia.
  rewrite Z.div_small by (apply uwrap_bound; lia). lia.
Qed.

Definition same_flags (a b : xst) : Prop :=
  fCF a = fCF b /\ fZF a = fZF b /\ fSF a = fSF b /\ fOF a = fOF b.
Definition same_data (a b : xst) : Prop := (forall r, regs a r = regs b r) /\ memc a = memc b.

(* storing v (w bits) into operand 0: st0 is the state at the store (same registers and memory as the
   initial state st) *)
Lemma store_op0 ops st st0 w p o0 rest v :
  ops = o0 :: rest -> pel_match [] p o0 = true -> dst_ok w p = true -> same_data st0 st ->
  exists st', wr_loc ops st0 w (LOp 0) v = Some st' /\ value_at ops st' (obits w) v /\ frame ops st st' []
              /\ same_flags st' st0.
Proof.
  intros -> Hm Hd [Hr Hmem]. unfold wr_loc, value_at, frame. cbn [opnd nth].
  destruct p as [|hn| | | | |psg pk| | |]; try discriminate; destruct o0 as [r|s k| |]; cbn in Hm; try discriminate.
  - (* PR *)
    eexists. split; [reflexivity|]. cbn [regs memc set_reg]. rewrite Nat.eqb_refl.
    apply orb_prop in Hd. split; [|split; [split|]].
    + destruct Hd as [E|E]; apply Z.eqb_eq in E; destruct w; cbn in E; try discriminate; cbn [wr_reg_bits obits];
        apply uwrap_idem; lia.
    + intros r' Hne _. destruct (Nat.eqb_spec r' r); [subst; congruence | apply Hr].
    + exact Hmem.
    + repeat split.
  - (* PH *)
    eexists. split; [reflexivity|]. cbn [regs memc set_reg]. rewrite Nat.eqb_refl.
    apply orb_prop in Hd. split; [|split; [split|]].
    + destruct Hd as [E|E]; apply Z.eqb_eq in E; destruct w; cbn in E; try discriminate; cbn [wr_reg_bits obits];
        apply uwrap_idem; lia.
    + intros r' Hne _. destruct (Nat.eqb_spec r' r); [subst; congruence | apply Hr].
    + exact Hmem.
    + repeat split.
  - (* PM *)
    apply andb_prop in Hm. destruct Hm as [Hm _]. apply andb_prop in Hm. destruct Hm as [Hk _].
    apply Nat.eqb_eq in Hk. subst pk.
    apply andb_prop in Hd. destruct Hd as [Hw _]. apply Z.eqb_eq in Hw.
    eexists. split; [reflexivity|]. cbn [regs memc set_mem]. rewrite <- Hw. split; [|split; [split|]].
    + apply merge_low.
    + intros r' _ _. apply Hr.
    + rewrite Hmem. apply merge_high.
    + repeat split.
Qed.

Lemma value_at_congr ops st' bits v d :
  value_at ops st' bits v -> uwrap bits v = uwrap bits d ->
  (forall s k, opnd ops 0 = OMem s k -> 0 <= mem_bits k <= bits) -> value_at ops st' bits d.
Proof.
  unfold value_at. intros Hv He Hk. destruct (opnd ops 0) as [r|s k| |]; try contradiction.
  - congruence.
  - rewrite Hv. apply eqm_le with bits; [apply (Hk s k eq_refl) | exact He].
Qed.

(* ---- flags vs documented overflow *)
Lemma swrap_fix n z : 0 < n -> (swrap n z =? z) = ((- 2 ^ (n - 1) <=? z) && (z <=? 2 ^ (n - 1) - 1)).
Proof.
  intros Hn. pose proof (swrap_bound n z Hn).
  destruct (Z.eqb_spec (swrap n z) z) as [E|E];
    destruct (Z.leb_spec (- 2 ^ (n - 1)) z), (Z.leb_spec z (2 ^ (n - 1) - 1)); cbn; try reflexivity; try lia.
  exfalso. apply E. apply swrap_id; [lia|]. unfold in_s. lia.
Qed.

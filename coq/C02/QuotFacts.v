(* Truncating division facts used by the MULO/UMULO overflow pre-check proofs. *)
From Coq Require Import ZArith Lia Bool.
Local Open Scope Z_scope.

Lemma div_lt_iff N d y : 0 <= N -> 0 < d -> (N / d <? y) = (N <? y * d).
Proof.
  intros HN Hd. destruct (Z.ltb_spec (N / d) y) as [H|H], (Z.ltb_spec N (y * d)) as [H'|H']; try reflexivity; exfalso.
  - pose proof (Z.mul_succ_div_gt N d Hd). nia.
  - assert (N / d < y); [|lia]. apply Z.div_lt_upper_bound; lia.
Qed.

Lemma quot_pos_neg N d : 0 <= N -> d < 0 -> Z.quot N d = - (N / (- d)).
Proof.
  intros. replace d with (- (- d)) at 1 by lia. rewrite Z.quot_opp_r by lia. rewrite Z.quot_div_nonneg by lia. reflexivity.
Qed.
Lemma quot_neg_pos N d : 0 <= N -> 0 < d -> Z.quot (- N) d = - (N / d).
Proof. intros. rewrite Z.quot_opp_l by lia. rewrite Z.quot_div_nonneg by lia. reflexivity. Qed.
Lemma quot_neg_neg N d : 0 <= N -> d < 0 -> Z.quot (- N) d = N / (- d).
Proof.
  intros. replace d with (- (- d)) at 1 by lia. rewrite Z.quot_opp_opp by lia. rewrite Z.quot_div_nonneg by lia. reflexivity.
Qed.

Lemma div_bound N d : 0 <= N -> 0 < d -> 0 <= N / d <= N.
Proof. intros. split; [apply Z.div_pos; lia|]. apply Z.div_le_upper_bound; [lia|]. nia. Qed.

Lemma mul_case1 M x y : 0 < M -> 0 < x <= M -> 0 < y <= M ->
  (Z.quot M x <? y) = negb ((- M - 1 <=? x * y) && (x * y <=? M)).
Proof.
  intros. rewrite Z.quot_div_nonneg by lia. rewrite div_lt_iff by lia.
  destruct (Z.ltb_spec M (y * x)), (Z.leb_spec (- M - 1) (x * y)), (Z.leb_spec (x * y) M); cbn; try reflexivity; nia.
Qed.
Lemma mul_case2 M x y : 0 < M -> 0 < x <= M -> - M - 1 <= y <= 0 ->
  (y <? Z.quot (- M - 1) x) = negb ((- M - 1 <=? x * y) && (x * y <=? M)).
Proof.
  intros. assert (E : Z.quot (- M - 1) x = - ((M + 1) / x))
    by (replace (- M - 1) with (- (M + 1)) by lia; apply quot_neg_pos; lia). rewrite E.
  replace (y <? - ((M + 1) / x)) with ((M + 1) / x <? - y)
    by (destruct (Z.ltb_spec ((M + 1) / x) (- y)), (Z.ltb_spec y (- ((M + 1) / x))); try reflexivity; lia).
  rewrite div_lt_iff by lia.
  destruct (Z.ltb_spec (M + 1) (- y * x)), (Z.leb_spec (- M - 1) (x * y)), (Z.leb_spec (x * y) M); cbn; try reflexivity; nia.
Qed.
Lemma mul_case3 M x y : 0 < M -> - M - 1 <= x <= -2 -> 0 < y <= M ->
  (Z.quot (- M - 1) x <? y) = negb ((- M - 1 <=? x * y) && (x * y <=? M)).
Proof.
  intros. assert (E : Z.quot (- M - 1) x = (M + 1) / - x)
    by (replace (- M - 1) with (- (M + 1)) by lia; apply quot_neg_neg; lia). rewrite E.
  rewrite div_lt_iff by lia.
  destruct (Z.ltb_spec (M + 1) (y * - x)), (Z.leb_spec (- M - 1) (x * y)), (Z.leb_spec (x * y) M); cbn; try reflexivity; nia.
Qed.
Lemma mul_case4 M x y : 0 < M -> - M - 1 <= x <= -2 -> - M - 1 <= y <= 0 ->
  (y <? Z.quot M x) = negb ((- M - 1 <=? x * y) && (x * y <=? M)).
Proof.
  intros. rewrite quot_pos_neg by lia.
  replace (y <? - (M / - x)) with (M / - x <? - y)
    by (destruct (Z.ltb_spec (M / - x) (- y)), (Z.ltb_spec y (- (M / - x))); try reflexivity; lia).
  rewrite div_lt_iff by lia.
  destruct (Z.ltb_spec M (- y * - x)), (Z.leb_spec (- M - 1) (x * y)), (Z.leb_spec (x * y) M); cbn; try reflexivity; nia.
Qed.

Lemma quot_range1 M x : 0 < M -> 0 < x -> - M - 1 <= Z.quot M x <= M.
Proof. intros. rewrite Z.quot_div_nonneg by lia. pose proof (div_bound M x ltac:(lia) ltac:(lia)). lia. Qed.
Lemma quot_range2 M x : 0 < M -> 0 < x -> - M - 1 <= Z.quot (- M - 1) x <= M.
Proof. intros. assert (E : Z.quot (- M - 1) x = - ((M + 1) / x))
    by (replace (- M - 1) with (- (M + 1)) by lia; apply quot_neg_pos; lia). rewrite E.
  pose proof (div_bound (M + 1) x ltac:(lia) ltac:(lia)). lia. Qed.
Lemma quot_range3 M x : 0 < M -> x <= -2 -> - M - 1 <= Z.quot (- M - 1) x <= M.
Proof. intros. assert (E : Z.quot (- M - 1) x = (M + 1) / - x)
    by (replace (- M - 1) with (- (M + 1)) by lia; apply quot_neg_neg; lia). rewrite E.
  pose proof (div_bound (M + 1) (- x) ltac:(lia) ltac:(lia)).
  assert ((M + 1) / - x <= (M + 1) / 2) by (apply Z.div_le_compat_l; lia).
  assert ((M + 1) / 2 <= M) by (apply Z.div_le_upper_bound; lia). lia. Qed.
Lemma quot_range4 M x : 0 < M -> x < 0 -> - M - 1 <= Z.quot M x <= M.
Proof. intros. rewrite quot_pos_neg by lia. pose proof (div_bound M (- x) ltac:(lia) ltac:(lia)). lia. Qed.

Lemma umul_case M x y : 0 < x <= M -> 0 <= y <= M ->
  (Z.quot M x <? y) = negb ((0 <=? x * y) && (x * y <=? M)).
Proof.
  intros. rewrite Z.quot_div_nonneg by lia. rewrite div_lt_iff by lia.
  destruct (Z.ltb_spec M (y * x)), (Z.leb_spec 0 (x * y)), (Z.leb_spec (x * y) M); cbn; try reflexivity; nia.
Qed.

(* Value-changing rewrites performed outside the instruction tables: the link-time shortcuts of
   simplify_func (mir.c) and transform_mul_div (mir-gen.c).  Definitions: the little straight-line
   language the translator tools/tr_c02_peephole.py emits and its executor over the *documented*
   semantics of the emitted instructions (DocSpecInt.doc_sem_int). *)
From Coq Require Import ZArith List Bool.
From MirV Require Import Base.W64 Mir.Opcode Mir.DocSpecInt.
Import ListNotations.
Local Open Scope Z_scope.

Inductive pconst := CNum (z : Z) | CSh | CPow2m1.          (* literal, sh, (the power of two) - 1 *)
Inductive pop := PTemp (n : nat) | PSrc | PDst | PConst (c : pconst).
Definition pinsn := (opcode * pop * list pop)%type.          (* (code, destination, sources) *)

Record pstate := { temps : list (nat * Z); dstv : option Z }.
Definition pinit : pstate := {| temps := []; dstv := None |}.

Fixpoint plookup (n : nat) (l : list (nat * Z)) : option Z :=
  match l with [] => None | (m, v) :: r => if Nat.eqb n m then Some v else plookup n r end.

Definition pval (x sh : Z) (st : pstate) (o : pop) : option Z :=
  match o with
  | PTemp n => plookup n (temps st)
  | PSrc => Some x
  | PDst => dstv st
  | PConst (CNum z) => Some z
  | PConst CSh => Some sh
  | PConst CPow2m1 => Some (2 ^ sh - 1)
  end.

Fixpoint pvals (x sh : Z) (st : pstate) (l : list pop) : option (list Z) :=
  match l with
  | [] => Some []
  | o :: r => match pval x sh st o, pvals x sh st r with
              | Some v, Some vs => Some (v :: vs)
              | _, _ => None
              end
  end.

Definition pstep (x sh : Z) (st : pstate) (i : pinsn) : option pstate :=
  let '(code, d, srcs) := i in
  match pvals x sh st srcs with
  | Some vs =>
      match doc_sem_int code vs with
      | Some v => match d with
                  | PTemp n => Some {| temps := (n, v) :: temps st; dstv := dstv st |}
                  | PDst => Some {| temps := temps st; dstv := Some v |}
                  | _ => None
                  end
      | None => None
      end
  | None => None
  end.

Fixpoint prun (x sh : Z) (st : pstate) (l : list pinsn) : option pstate :=
  match l with
  | [] => Some st
  | i :: r => match pstep x sh st i with Some st' => prun x sh st' r | None => None end
  end.

(* result left in the destination by the sequence applied to source value x and shift sh *)
Definition run_seq (x sh : Z) (l : list pinsn) : option Z :=
  match prun x sh pinit l with Some st => dstv st | None => None end.

(* ---- recognisers *)
Definition shortcut_ok (op : opcode) (c : Z) : bool :=
  match op with
  | MUL | MULS | DIV | DIVS => c =? 1
  | ADD | ADDS | SUB | SUBS | OR | ORS | XOR | XORS | LSH | LSHS | RSH | RSHS | URSH | URSHS => c =? 0
  | _ => false
  end.

Definition pconst_eqb (a b : pconst) : bool :=
  match a, b with
  | CNum x, CNum y => x =? y | CSh, CSh | CPow2m1, CPow2m1 => true | _, _ => false
  end.
Definition pop_eqb (a b : pop) : bool :=
  match a, b with
  | PTemp n, PTemp m => Nat.eqb n m | PSrc, PSrc | PDst, PDst => true
  | PConst x, PConst y => pconst_eqb x y | _, _ => false
  end.
Fixpoint pops_eqb (a b : list pop) : bool :=
  match a, b with
  | [], [] => true | x :: r, y :: s => pop_eqb x y && pops_eqb r s | _, _ => false
  end.
Definition pinsn_eqb (a b : pinsn) : bool :=
  let '(c1, d1, s1) := a in let '(c2, d2, s2) := b in
  opcode_eqb c1 c2 && pop_eqb d1 d2 && pops_eqb s1 s2.
Fixpoint pseq_eqb (a b : list pinsn) : bool :=
  match a, b with
  | [], [] => true | x :: r, y :: s => pinsn_eqb x y && pseq_eqb r s | _, _ => false
  end.

Definition seq_mov : list pinsn := [(MOV, PDst, [PSrc])].
Definition seq_shift (sh_op : opcode) : list pinsn :=
  [(MOV, PTemp 0, [PConst CSh]); (sh_op, PDst, [PSrc; PTemp 0])].
Definition seq_div (w : width) : list pinsn :=
  let '(rsh, and_, add) := match w with W64 => (RSH, AND, ADD) | W32 => (RSHS, ANDS, ADDS) end in
  [(MOV, PTemp 0, [PConst (CNum (wbits w - 1))]); (rsh, PTemp 1, [PSrc; PTemp 0]);
   (MOV, PTemp 2, [PConst CPow2m1]); (and_, PTemp 3, [PTemp 1; PTemp 2]); (add, PTemp 4, [PTemp 3; PSrc]);
   (MOV, PTemp 5, [PConst CSh]); (rsh, PDst, [PTemp 4; PTemp 5])].

(* (kind, width, largest exclusive bound on sh for which the rewrite is right) *)
Inductive mdkind := MDmul | MDudiv | MDdiv.
Definition md_class (op : opcode) : option (mdkind * width) :=
  match op with
  | MUL => Some (MDmul, W64) | MULS => Some (MDmul, W32)
  | UDIV => Some (MDudiv, W64) | UDIVS => Some (MDudiv, W32)
  | DIV => Some (MDdiv, W64) | DIVS => Some (MDdiv, W32)
  | _ => None
  end.

Definition md_seq (k : mdkind) (w : width) : list pinsn :=
  match k, w with
  | MDmul, W64 => seq_shift LSH | MDmul, W32 => seq_shift LSHS
  | MDudiv, W64 => seq_shift URSH | MDudiv, W32 => seq_shift URSHS
  | MDdiv, _ => seq_div w
  end.

Definition md_bound (k : mdkind) (w : width) : Z :=
  match k with MDdiv => wbits w - 1 | _ => wbits w end.

Definition muldiv_ok (row : opcode * Z * list pinsn * list pinsn) : bool :=
  let '(op, bound, mv, sq) := row in
  match md_class op with
  | Some (k, w) => (bound <=? md_bound k w) && (bound <=? 63) && pseq_eqb mv seq_mov && pseq_eqb sq (md_seq k w)
  | None => false
  end.

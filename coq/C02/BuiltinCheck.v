(* The opcodes the x86-64 generator executes by a call of a C function of its own (mir-gen-x86_64.c: target_machinize ->
   get_builtin -> mir_ui2f, mir_ui2d, mir_ui2ld, mir_ld2i).  The functions are regenerated into rows of the same C
   expression language as the interpreter rows (coq/gen/X86Builtins.v, tools/tr_c02_x86builtin.py) and accepted by the
   same verified recognisers (C02/Table.v row_ok): the value the call returns is the documented value of the opcode for
   ALL operand values.  Long double rows (no Coq meaning) must literally be the verified double row of the interpreter
   table with `double` replaced by `long double`. *)
From Coq Require Import ZArith Bool List.
From MirV Require Import Mir.DocSpec Mir.CExpr C02.RowCheck C02.Table.
Import ListNotations.

Definition builtin_row_ok (itbl : list (opcode * cstmt)) (r : opcode * cstmt) : bool :=
  if ld_opcode (fst r) then ld_row_ok itbl (fst r) (snd r) else row_ok (fst r) (snd r).

Definition builtins_ok (itbl : list (opcode * cstmt)) (codes : list opcode) (tbl : list (opcode * cstmt)) : bool :=
  forallb (builtin_row_ok itbl) tbl && forallb (has_row tbl) codes.

Theorem builtins_ok_sound itbl codes tbl : builtins_ok itbl codes tbl = true ->
  forall op s, In (op, s) tbl -> ld_opcode op = false -> row_sound op s.
Proof.
  intros H op s Hin Hld. unfold builtins_ok in H. apply andb_prop in H. destruct H as [H _].
  rewrite forallb_forall in H. specialize (H (op, s) Hin). unfold builtin_row_ok in H. cbn [fst snd] in H.
  rewrite Hld in H. apply row_ok_sound. exact H.
Qed.

Theorem builtins_ok_ld_twin itbl codes tbl : builtins_ok itbl codes tbl = true ->
  forall op s d, In (op, s) tbl -> ld_twin op = Some d ->
  exists sd, In (d, sd) itbl /\ cstmt_eqb sd (ld2d_stmt s) = true /\ row_sound d sd.
Proof.
  intros H op s d Hin Ht. unfold builtins_ok in H. apply andb_prop in H. destruct H as [H _].
  rewrite forallb_forall in H. specialize (H (op, s) Hin). unfold builtin_row_ok in H. cbn [fst snd] in H.
  assert (Hld : ld_opcode op = true) by (destruct op; cbn in Ht; try discriminate; reflexivity).
  rewrite Hld in H. unfold ld_row_ok in H. rewrite Ht in H. apply existsb_exists in H.
  destruct H as ([d' sd] & Hin' & He). cbn [fst snd] in He.
  apply andb_prop in He. destruct He as [He Hok]. apply andb_prop in He. destruct He as [He Hs].
  apply opcode_eqb_eq in He. subst d'. exists sd. split; [exact Hin'|]. split; [exact Hs|].
  apply row_ok_sound. exact Hok.
Qed.

Theorem builtins_ok_total itbl codes tbl : builtins_ok itbl codes tbl = true ->
  forall op, In op codes -> exists s, In (op, s) tbl.
Proof.
  intros H op Hin. unfold builtins_ok in H. apply andb_prop in H. destruct H as [_ H].
  rewrite forallb_forall in H. specialize (H op Hin). unfold has_row in H. apply existsb_exists in H.
  destruct H as ([op' s] & Hin' & He). cbn in He. apply opcode_eqb_eq in He. subst. eauto.
Qed.

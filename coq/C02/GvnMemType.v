(* C02: the type canonicalisation of GVN's memory expressions (mir-gen.c canonic_mem_type, regenerated as
   gen/GvnFoldTable.gvn_canonic_mem_type).  GVN (-O2/-O3) treats two accesses of one address value as the same memory
   expression when their types have the same canonical type: the second load is replaced by the value of the first,
   a load after a store by the stored value.  That is only sound when the two types denote the same documented access:
   the same extending load of every cell content and the same truncating store of every value. *)
From Coq Require Import ZArith Lia Bool List.
From MirV Require Import Base.W64 Mir.DocSpec C02.WFacts C02.MemRows gen.GvnFoldTable.
Import ListNotations.
Local Open Scope Z_scope.

Definition mt_eqb (a b : mir_type) : bool :=
  match a, b with
  | T_I8, T_I8 | T_U8, T_U8 | T_I16, T_I16 | T_U16, T_U16 | T_I32, T_I32 | T_U32, T_U32
  | T_I64, T_I64 | T_U64, T_U64 | T_F, T_F | T_D, T_D | T_LD, T_LD | T_P, T_P => true
  | _, _ => false
  end.

Lemma mt_eqb_eq a b : mt_eqb a b = true -> a = b.
Proof. destruct a, b; cbn; congruence. Qed.

Definition all_mem_types : list mir_type :=
  [T_I8; T_U8; T_I16; T_U16; T_I32; T_U32; T_I64; T_U64; T_F; T_D; T_LD; T_P].

Lemma all_mem_types_in t : In t all_mem_types.
Proof. destruct t; cbn; tauto. Qed.

(* the same documented access *)
Definition access_equiv (t1 t2 : mir_type) : Prop :=
  (forall bytes, load_ext t1 bytes = load_ext t2 bytes) /\ (forall v, store_trunc t1 v = store_trunc t2 v).

(* a full 64-bit integer word: sign and zero extension coincide *)
Definition word64 (t : mir_type) : bool :=
  match t with T_I64 | T_U64 | T_P => true | _ => false end.

Definition same_access (t1 t2 : mir_type) : bool := mt_eqb t1 t2 || (word64 t1 && word64 t2).

Definition canonic_ok (tbl : list (mir_type * mir_type)) : bool :=
  forallb (fun t => existsb (fun r => mt_eqb (fst r) t) tbl) all_mem_types
  && forallb (fun r1 => forallb (fun r2 => negb (mt_eqb (snd r1) (snd r2)) || same_access (fst r1) (fst r2)) tbl) tbl.

Lemma load_word64 t bytes : word64 t = true -> load_ext t bytes = le_bytes_to_Z (firstn 8 bytes).
Proof.
  destruct t; try discriminate; intros _; unfold load_ext; cbn [type_size type_is_int type_signed andb]; try reflexivity.
  change (8 * Z.of_nat 8) with 64. unfold u64. rewrite uwrap_swrap by lia.
  pose proof (le_bytes_firstn_bound 8 bytes) as H. change (8 * Z.of_nat 8) with 64 in H.
  unfold uwrap. apply Z.mod_small. exact H.
Qed.

Lemma store_word64 t v : word64 t = true -> store_trunc t v = Z_to_le_bytes 8 (uwrap 64 v).
Proof. destruct t; try discriminate; intros _; reflexivity. Qed.

Lemma same_access_sound t1 t2 : same_access t1 t2 = true -> access_equiv t1 t2.
Proof.
  unfold same_access. intros H. apply orb_true_iff in H. destruct H as [H | H].
  - apply mt_eqb_eq in H. subst. split; reflexivity.
  - apply andb_true_iff in H. destruct H as [H1 H2]. split; intros.
    + rewrite (load_word64 _ _ H1), (load_word64 _ _ H2). reflexivity.
    + rewrite (store_word64 _ _ H1), (store_word64 _ _ H2). reflexivity.
Qed.

Theorem canonic_ok_sound tbl : canonic_ok tbl = true ->
  (forall t, exists c, In (t, c) tbl) /\
  (forall t1 t2 c, In (t1, c) tbl -> In (t2, c) tbl -> access_equiv t1 t2).
Proof.
  unfold canonic_ok. intros H. apply andb_true_iff in H. destruct H as [Ht Hp]. split.
  - intros t. rewrite forallb_forall in Ht. specialize (Ht t (all_mem_types_in t)).
    apply existsb_exists in Ht. destruct Ht as [[t' c] [Hin Heq]]. cbn [fst] in Heq.
    apply mt_eqb_eq in Heq. subst t'. exists c. exact Hin.
  - intros t1 t2 c H1 H2. rewrite forallb_forall in Hp. specialize (Hp _ H1).
    rewrite forallb_forall in Hp. specialize (Hp _ H2). cbn [fst snd] in Hp.
    apply orb_true_iff in Hp. destruct Hp as [Hp | Hp].
    + assert (mt_eqb c c = true) as E by (destruct c; reflexivity). rewrite E in Hp. discriminate.
    + apply same_access_sound. exact Hp.
Qed.

(* the regenerated table of the checked tree *)
Lemma gvn_canonic_table_ok : canonic_ok gvn_canonic_mem_type = true.
Proof. vm_compute. reflexivity. Qed.

Lemma gvn_canonic_total : forall t, exists c, In (t, c) gvn_canonic_mem_type.
Proof. exact (proj1 (canonic_ok_sound _ gvn_canonic_table_ok)). Qed.

Lemma gvn_canonic_sound : forall t1 t2 c, In (t1, c) gvn_canonic_mem_type -> In (t2, c) gvn_canonic_mem_type ->
  access_equiv t1 t2.
Proof. exact (proj2 (canonic_ok_sound _ gvn_canonic_table_ok)). Qed.

(* Non-vacuity: merging the signedness of a narrow type, or a pointer with a 32-bit word, is rejected -- and such
   types really are different accesses. *)
Definition id_rows : list (mir_type * mir_type) := map (fun t => (t, t)) all_mem_types.
Example canonic_identity_ok : canonic_ok id_rows = true. Proof. vm_compute. reflexivity. Qed.
Example canonic_u8_as_i8_rejected :
  canonic_ok (map (fun r => if mt_eqb (fst r) T_U8 then (T_U8, T_I8) else r) id_rows) = false.
Proof. vm_compute. reflexivity. Qed.
Example canonic_p_as_i32_rejected :
  canonic_ok (map (fun r => if mt_eqb (fst r) T_P then (T_P, T_I32) else r) id_rows) = false.
Proof. vm_compute. reflexivity. Qed.
Example i8_u8_differ : load_ext T_I8 [0x80] <> load_ext T_U8 [0x80]. Proof. vm_compute. discriminate. Qed.
Example p_i32_differ : load_ext T_P [0; 0; 0; 0; 1; 0; 0; 0] <> load_ext T_I32 [0; 0; 0; 0; 1; 0; 0; 0].
Proof. vm_compute. discriminate. Qed.

(* Modular-arithmetic facts about W64's uwrap/swrap used by the C02/C20 row proofs. *)
From Coq Require Import ZArith Lia Bool List Znumtheory.
From MirV Require Import Base.W64.
Local Open Scope Z_scope.

Lemma pow2_pos n : 0 <= n -> 0 < 2 ^ n.
Proof. intros. apply Z.pow_pos_nonneg; lia. Qed.

Lemma pow2_split m n : 0 <= m <= n -> 2 ^ n = 2 ^ (n - m) * 2 ^ m.
Proof. intros. rewrite <- Z.pow_add_r by lia. f_equal. lia. Qed.

(* congruence modulo 2^n *)
Definition eqm (n a b : Z) : Prop := uwrap n a = uwrap n b.

Lemma eqm_refl n a : eqm n a a. Proof. reflexivity. Qed.
Lemma eqm_sym n a b : eqm n a b -> eqm n b a. Proof. unfold eqm; congruence. Qed.
Lemma eqm_trans n a b c : eqm n a b -> eqm n b c -> eqm n a c. Proof. unfold eqm; congruence. Qed.

Lemma eqm_iff n a b : 0 <= n -> (eqm n a b <-> exists k, a = b + k * 2 ^ n).
Proof.
  intros Hn. pose proof (pow2_pos n Hn) as Hp. unfold eqm, uwrap. split.
  - intros H. exists (a / 2 ^ n - b / 2 ^ n).
    pose proof (Z.div_mod a (2 ^ n) ltac:(lia)). pose proof (Z.div_mod b (2 ^ n) ltac:(lia)). nia.
  - intros [k ->]. rewrite Z.mod_add by lia. reflexivity.
Qed.

Lemma eqm_le m n a b : 0 <= m <= n -> eqm n a b -> eqm m a b.
Proof.
  intros Hmn H. apply eqm_iff in H; [|lia]. destruct H as [k ->]. apply eqm_iff; [lia|].
  exists (k * 2 ^ (n - m)). rewrite (pow2_split m n) by lia. ring.
Qed.

Lemma eqm_uwrap n z : 0 <= n -> eqm n (uwrap n z) z.
Proof. intros. unfold eqm. apply uwrap_idem; lia. Qed.

Lemma eqm_swrap n z : 0 < n -> eqm n (swrap n z) z.
Proof. intros. unfold eqm. apply uwrap_swrap; lia. Qed.

Lemma eqm_add n a a' b b' : 0 <= n -> eqm n a a' -> eqm n b b' -> eqm n (a + b) (a' + b').
Proof.
  intros Hn Ha Hb. apply eqm_iff in Ha; [|lia]. apply eqm_iff in Hb; [|lia].
  destruct Ha as [k ->], Hb as [l ->]. apply eqm_iff; [lia|]. exists (k + l). ring.
Qed.

Lemma eqm_sub n a a' b b' : 0 <= n -> eqm n a a' -> eqm n b b' -> eqm n (a - b) (a' - b').
Proof.
  intros Hn Ha Hb. apply eqm_iff in Ha; [|lia]. apply eqm_iff in Hb; [|lia].
  destruct Ha as [k ->], Hb as [l ->]. apply eqm_iff; [lia|]. exists (k - l). ring.
Qed.

Lemma eqm_mul n a a' b b' : 0 <= n -> eqm n a a' -> eqm n b b' -> eqm n (a * b) (a' * b').
Proof.
  intros Hn Ha Hb. apply eqm_iff in Ha; [|lia]. apply eqm_iff in Hb; [|lia].
  destruct Ha as [k ->], Hb as [l ->]. apply eqm_iff; [lia|].
  exists (k * b' + a' * l + k * l * 2 ^ n). ring.
Qed.

Lemma eqm_opp n a a' : 0 <= n -> eqm n a a' -> eqm n (- a) (- a').
Proof.
  intros Hn Ha. apply eqm_iff in Ha; [|lia]. destruct Ha as [k ->]. apply eqm_iff; [lia|].
  exists (- k). ring.
Qed.

Lemma eqm_swrap_eq n a b : 0 < n -> eqm n a b -> swrap n a = swrap n b.
Proof. intros Hn H. unfold swrap. unfold eqm, uwrap in H. rewrite H. reflexivity. Qed.

Lemma uwrap_small n z : 0 <= z < 2 ^ n -> uwrap n z = z.
Proof. intros. apply uwrap_id. exact H. Qed.

Lemma uwrap_bound n z : 0 <= n -> 0 <= uwrap n z < 2 ^ n.
Proof. intros. apply uwrap_range; lia. Qed.

Lemma swrap_bound n z : 0 < n -> - 2 ^ (n - 1) <= swrap n z < 2 ^ (n - 1).
Proof. intros. apply swrap_range; lia. Qed.

Lemma pow2_half n : 0 < n -> 2 ^ n = 2 * 2 ^ (n - 1).
Proof. intros. replace n with (Z.succ (n - 1)) at 1 by lia. rewrite Z.pow_succ_r by lia. reflexivity. Qed.

(* the two representatives agree on small values *)
Lemma swrap_eq_uwrap_small n z : 0 < n -> uwrap n z < 2 ^ (n - 1) -> swrap n z = uwrap n z.
Proof.
  intros Hn H. unfold swrap. unfold uwrap in H.
  destruct (Z.ltb_spec (z mod 2 ^ n) (2 ^ (n - 1))); [reflexivity | lia].
Qed.

Lemma swrap_cases n z : 0 < n ->
  (swrap n z = uwrap n z /\ uwrap n z < 2 ^ (n - 1)) \/
  (swrap n z = uwrap n z - 2 ^ n /\ 2 ^ (n - 1) <= uwrap n z).
Proof.
  intros Hn. unfold swrap, uwrap. destruct (Z.ltb_spec (z mod 2 ^ n) (2 ^ (n - 1))); [left | right]; lia.
Qed.

Lemma swrap_inj_uwrap n a b : 0 < n -> (swrap n a = swrap n b <-> uwrap n a = uwrap n b).
Proof.
  intros Hn. split; intros H.
  - rewrite <- (uwrap_swrap n a), <- (uwrap_swrap n b) by lia. congruence.
  - apply eqm_swrap_eq; assumption.
Qed.

(* widening keeps the value *)
Lemma uwrap_id_wider m n z : 0 <= m <= n -> uwrap n (uwrap m z) = uwrap m z.
Proof.
  intros H. apply uwrap_small. pose proof (uwrap_bound m z ltac:(lia)).
  assert (2 ^ m <= 2 ^ n) by (apply Z.pow_le_mono_r; lia). lia.
Qed.

Lemma swrap_id_wider m n z : 0 < m <= n -> swrap n (swrap m z) = swrap m z.
Proof.
  intros H. apply swrap_id; [lia|]. pose proof (swrap_bound m z ltac:(lia)).
  assert (2 ^ (m - 1) <= 2 ^ (n - 1)) by (apply Z.pow_le_mono_r; lia). unfold in_s. lia.
Qed.

Lemma swrap_uwrap_wider m n z : 0 <= m < n -> swrap n (uwrap m z) = uwrap m z.
Proof.
  intros H. apply swrap_id; [lia|]. pose proof (uwrap_bound m z ltac:(lia)).
  assert (2 ^ m <= 2 ^ (n - 1)) by (apply Z.pow_le_mono_r; lia). unfold in_s. lia.
Qed.

(* bitwise operations commute with reduction modulo 2^n *)
Lemma uwrap_land_ones n z : 0 <= n -> uwrap n z = Z.land z (Z.ones n).
Proof. intros. unfold uwrap. symmetry. apply Z.land_ones. assumption. Qed.

Lemma uwrap_land n a b : 0 <= n -> uwrap n (Z.land a b) = Z.land (uwrap n a) (uwrap n b).
Proof.
  intros. rewrite !uwrap_land_ones by assumption. apply Z.bits_inj'. intros i Hi.
  rewrite !Z.land_spec. destruct (Z.testbit a i), (Z.testbit b i), (Z.testbit (Z.ones n) i); reflexivity.
Qed.

Lemma uwrap_lor n a b : 0 <= n -> uwrap n (Z.lor a b) = Z.lor (uwrap n a) (uwrap n b).
Proof.
  intros. rewrite !uwrap_land_ones by assumption. apply Z.bits_inj'. intros i Hi.
  rewrite !Z.land_spec, !Z.lor_spec, !Z.land_spec.
  destruct (Z.testbit a i), (Z.testbit b i), (Z.testbit (Z.ones n) i); reflexivity.
Qed.

Lemma uwrap_lxor n a b : 0 <= n -> uwrap n (Z.lxor a b) = Z.lxor (uwrap n a) (uwrap n b).
Proof.
  intros. rewrite !uwrap_land_ones by assumption. apply Z.bits_inj'. intros i Hi.
  rewrite !Z.land_spec, !Z.lxor_spec, !Z.land_spec.
  destruct (Z.testbit a i), (Z.testbit b i), (Z.testbit (Z.ones n) i); reflexivity.
Qed.

Lemma land_mask n z : 0 <= n -> Z.land z (2 ^ n - 1) = uwrap n z.
Proof.
  intros. rewrite uwrap_land_ones by assumption. rewrite Z.ones_equiv.
  replace (Z.pred (2 ^ n)) with (2 ^ n - 1) by lia. reflexivity.
Qed.

(* division of an in-range unsigned value stays in range *)
Lemma udiv_small n x y : 0 <= n -> 0 <= x < 2 ^ n -> 0 < y -> 0 <= x / y < 2 ^ n.
Proof.
  intros Hn Hx Hy. split; [apply Z.div_pos; lia|].
  apply Z.le_lt_trans with x; [|lia]. apply Z.div_le_upper_bound; [lia|]. nia.
Qed.

Lemma shr_small n x c : 0 <= n -> 0 <= x < 2 ^ n -> 0 <= c -> 0 <= x / 2 ^ c < 2 ^ n.
Proof. intros. apply udiv_small; try lia; apply pow2_pos; lia. Qed.

Lemma sshr_small n x c : 0 < n -> - 2 ^ (n - 1) <= x < 2 ^ (n - 1) -> 0 <= c ->
  - 2 ^ (n - 1) <= x / 2 ^ c < 2 ^ (n - 1).
Proof.
  intros Hn Hx Hc. pose proof (pow2_pos c Hc) as Hp. split.
  - apply Z.div_le_lower_bound; [lia|]. pose proof (pow2_pos (n - 1) ltac:(lia)). nia.
  - apply Z.div_lt_upper_bound; [lia|]. pose proof (pow2_pos (n - 1) ltac:(lia)). nia.
Qed.

(* X86TableFacts: the recognisers of X86Check.v evaluated on the pattern table REGENERATED from the
   checked tree's mir-gen-x86_64.c (gen/X86Patterns.v), lifted by X86Table.table_select_sound. *)
From Coq Require Import ZArith List Bool String.
From MirV Require Import Base.W64 Mir.Opcode Mir.DocSpecInt C02.X86Sem C02.X86Check C02.X86Table gen.X86Patterns.
Import ListNotations.

Lemma x86_table_accepted : x86_table_ok early_dx cmp_uext8 x86_table = true.
Proof. vm_compute. reflexivity. Qed.

(* every integer / compare / overflow / branch opcode of the scope has at least one row *)
Definition x86_covered (tbl : list xrow) : bool :=
  forallb (fun op => negb (x86_scope op) || existsb (fun r : xrow => opcode_eqb (fst (fst r)) op) tbl) all_opcodes.

Lemma x86_table_covers : x86_covered x86_table = true.
Proof. vm_compute. reflexivity. Qed.

(* For every instruction of an in-scope opcode, every realisation of its operands (hard registers, the
   memory cell with its MIR type, immediates) and every machine state: the row find_insn_pattern selects
   decodes, runs without fault wherever MIR.md defines the instruction, leaves the documented value in
   the defined bits of operand 0 (resp. takes the documented branch / sets the documented overflow
   flag) and changes nothing else except the registers the class lists (AX, DX for mul/div). *)
Theorem x86_selected_row_sound :
  forall code cls ops st row, xclass_of code = Some cls ->
    x86_select x86_table code ops = Some row -> early_ok early_dx code ops ->
    row_sound_at cls row ops st.
Proof. exact (table_select_sound early_dx cmp_uext8 x86_table x86_table_accepted). Qed.

Theorem x86_scope_has_rows :
  forall op cls, xclass_of op = Some cls -> exists row, In row x86_table /\ fst (fst row) = op.
Proof.
  intros op cls H. pose proof x86_table_covers as C. unfold x86_covered in C. rewrite forallb_forall in C.
  assert (Hin : In op all_opcodes).
  { assert (E : existsb (opcode_eqb op) all_opcodes = true) by (destruct op; vm_compute; reflexivity).
    apply existsb_exists in E. destruct E as (x & Hx & Hy). apply opcode_eqb_eq in Hy. subst. exact Hx. }
  specialize (C op Hin). unfold x86_scope in C. rewrite H in C. cbn [negb orb] in C.
  apply existsb_exists in C. destruct C as (row & Hr & He). apply opcode_eqb_eq in He. exists row. split; assumption.
Qed.

(* Compare rows define only the low byte of the result register (setcc); target_machinize appends
   `uext8 res, res` after exactly these opcodes (cmp_uext8, regenerated), and the two selected rows
   together leave the documented 64-bit value 0 / 1. *)
Theorem x86_compare_uext8_sound :
  forall code c sg w ops r st row row2,
    int_class code = IC_cmp c sg w -> opnd ops 0 = OReg r ->
    x86_select x86_table code ops = Some row ->
    x86_select x86_table UEXT8 [OReg r; OReg r] = Some row2 ->
    exists i1 i2, decode (snd row) = Some i1 /\ decode (snd row2) = Some i2 /\
    forall d, doc_sem_int code (args_of st ops) = Some d ->
    exists st1 st2, xrun ops st i1 = Some (st1, None) /\ xrun [OReg r; OReg r] st1 i2 = Some (st2, None)
      /\ uwrap 64 (regs st2 r) = d /\ (forall r', r' <> r -> regs st2 r' = regs st r') /\ memc st2 = memc st.
Proof.
  intros code c sg w ops r st row row2 Hic Hop0 Hsel Hsel2.
  assert (Hcls : xclass_of code = Some (XCvalue 8 [])) by (unfold xclass_of; rewrite Hic; reflexivity).
  assert (Hcls2 : xclass_of UEXT8 = Some (XCvalue 64 [])) by reflexivity.
  assert (He1 : early_ok early_dx code ops).
  { intros H. exfalso. revert H. destruct code; try discriminate Hic; vm_compute; discriminate. }
  assert (He2 : early_ok early_dx UEXT8 [OReg r; OReg r]) by (intros H; vm_compute in H; discriminate H).
  pose proof (x86_selected_row_sound code _ ops st row Hcls Hsel He1) as S1.
  pose proof (fun st1 => x86_selected_row_sound UEXT8 _ [OReg r; OReg r] st1 row2 Hcls2 Hsel2 He2) as S2.
  destruct row as [[c1 p1] t1]. destruct row2 as [[c2 p2] t2]. cbn [snd] in *. unfold row_sound_at in S1, S2.
  assert (Hsel1c : c1 = code).
  { unfold x86_select in Hsel. apply find_some in Hsel. destruct Hsel as [_ Hm]. unfold row_matches in Hm.
    apply andb_prop in Hm. destruct Hm as [Hm _]. apply opcode_eqb_eq in Hm. exact Hm. }
  subst c1.
  destruct S1 as (i1 & D1 & S1). destruct (S2 st) as (i2 & D2 & _).
  exists i1, i2. split; [exact D1|]. split; [exact D2|]. intros d Hd.
  destruct (S1 d Hd) as (st1 & R1 & V1 & F1).
  destruct (S2 st1) as (i2' & D2' & S2'). rewrite D2 in D2'. injection D2' as <-.
  assert (Hsel2c : c2 = UEXT8).
  { unfold x86_select in Hsel2. apply find_some in Hsel2. destruct Hsel2 as [_ Hm]. unfold row_matches in Hm.
    apply andb_prop in Hm. destruct Hm as [Hm _]. apply opcode_eqb_eq in Hm. exact Hm. }
  subst c2.
  destruct (S2' (zext 8 (mir_val st1 (OReg r))) eq_refl) as (st2 & R2 & V2 & F2).
  exists st1, st2. split; [exact R1|]. split; [exact R2|].
  unfold value_at in V1, V2. unfold frame in F1, F2. rewrite Hop0 in V1, F1. cbn [opnd nth] in V2, F2.
  destruct F1 as [F1r F1m]. destruct F2 as [F2r F2m].
  split; [|split].
  - rewrite V2. unfold zext. cbn [mir_val].
    assert (Hd01 : d = 0%Z \/ d = 1%Z).
    { unfold doc_sem_int in Hd. rewrite Hic in Hd. destruct (args_of st ops) as [|a [|b [|? ?]]]; try discriminate Hd.
      injection Hd as <-. destruct (icompare c sg w a b); [right | left]; reflexivity. }
    transitivity (uwrap 8 (regs st1 r)).
    + rewrite (C02.WFacts.uwrap_id_wider 8 64) by (split; discriminate).
      apply (C02.WFacts.eqm_le 8 64); [split; discriminate | apply C02.WFacts.eqm_uwrap; discriminate].
    + rewrite V1. destruct Hd01 as [-> | ->]; reflexivity.
  - intros r' Hne.
    assert (N : OReg r <> OReg r') by (intros E; injection E as E; congruence).
    rewrite (F2r r' N (fun x => x)). apply (F1r r' N (fun x => x)).
  - rewrite F2m. exact F1m.
Qed.

(* every row of an in-scope opcode, wherever it stands in the table: sound for ALL operands matching its
   pattern, or dead (an earlier row of the same opcode matches whenever it does) *)
Theorem x86_every_row_sound_or_dead :
  forall pre code pat tmpl post cls, x86_table = pre ++ (code, pat, tmpl) :: post -> xclass_of code = Some cls ->
    row_sound_x86 early_dx cls (code, pat, tmpl)
    \/ (forall ops, pat_match [] pat ops = true -> exists e, In e pre /\ row_matches code ops e = true).
Proof. exact (table_rows_sound_or_dead early_dx cmp_uext8 x86_table x86_table_accepted). Qed.

(* Soundness of the multiply / divide / remainder pattern-row recognisers of X86Check.v (imul, mul,
   cqo+idiv, xor edx+div): documented value for ALL operand values, documented overflow flag for the
   overflow multiplies, nothing but operand 0 / AX / DX changed. *)
From Coq Require Import ZArith Lia Bool List String.
From MirV Require Import Base.W64 Mir.Opcode Mir.DocSpecInt C02.WFacts C02.QuotFacts C02.X86Sem C02.X86Check C02.X86Facts
  C02.X86Proofs.
Import ListNotations.
Local Open Scope Z_scope.

Arguments uwrap : simpl never.
Arguments swrap : simpl never.
Arguments Z.pow : simpl never.
Arguments Z.mul : simpl never.
Arguments Z.add : simpl never.
Arguments Z.sub : simpl never.
Arguments Z.opp : simpl never.
Arguments Z.div : simpl never.
Arguments Z.modulo : simpl never.
Arguments Z.quot : simpl never.
Arguments Z.rem : simpl never.
Arguments Z.eqb : simpl never.
Arguments Z.ltb : simpl never.
Arguments Z.leb : simpl never.

Lemma wr_reg_w w old v : wr_reg_bits (wsz w) old v = uwrap (wbits w) v.
Proof. destruct w; reflexivity. Qed.

Lemma rd_bits_reg w st r : rd_bits (wsz w) (regs st r) = uwrap (wbits w) (mir_val st (OReg r)).
Proof.
  unfold rd_bits. rewrite wsz_bits. cbn [mir_val]. symmetry. apply uw_le. pose proof (wbits_pos' w). lia.
Qed.

(* ------------------------------------------------------------------ signed multiply *)
Lemma imul_val w x y :
  let p := sval (wsz w) (uwrap (wbits w) x) * sval (wsz w) (uwrap (wbits w) y) in
  uwrap (wbits w) (uwrap (wbits w) p) = uwrap (wbits w) (uw w (x * y))
  /\ negb (sval (wsz w) p =? p) = negb (fits_s w (sw w x * sw w y)).
Proof.
  pose proof (wbits_pos' w) as Hw. cbn zeta. unfold sval. rewrite wsz_bits. rewrite !swrap_uwrap by lia. split.
  - unfold uw. rewrite !uwrap_idem by lia. apply eqm_mul; [lia | apply eqm_swrap; lia | apply eqm_swrap; lia].
  - f_equal. unfold sw, fits_s, smin, smax. apply swrap_fix. lia.
Qed.

Definition mul_post (w : width) (ops : list oval) (st st' : xst) : Prop :=
  value_at ops st' (wbits w) (uw w (nth 0 (args_of st ops) 0 * nth 1 (args_of st ops) 0))
  /\ frame ops st st' []
  /\ fOF st' = negb (fits_s w (sw w (nth 0 (args_of st ops) 0) * sw w (nth 1 (args_of st ops) 0))).

Lemma mul2_exec w pat insns ops st :
  mul2_row_ok w pat insns = true -> pat_match [] pat ops = true ->
  exists st', xrun ops st insns = Some (st', None) /\ mul_post w ops st st'.
Proof.
  intros Hok Hpm. pose proof (wbits_pos' w) as Hw. unfold mul2_row_ok in Hok.
  destruct pat as [|p0 pat]; [discriminate|]. destruct p0; try discriminate.
  destruct pat as [|p1 pat]; [discriminate|]. destruct p1 as [| | | | | | | |n|]; try discriminate. destruct n; [|discriminate].
  destruct pat as [|s pat]; [discriminate|]. destruct pat; [|discriminate].
  destruct insns as [|i0 insns]; [discriminate|].
  destruct i0 as [| | | |w' dd ss| | | | | | | | | | |]; try discriminate.
  destruct dd; [|discriminate]. destruct ss as [k]. destruct k as [|[|[|k]]]; try discriminate. destruct insns; [|discriminate].
  apply andb_prop in Hok. destruct Hok as [Hwid Hsrc]. apply osz_eqb_eq in Hwid. subst w'.
  destruct (pat_match3 _ _ _ _ Hpm) as (o0 & o1 & o2 & -> & M0 & M1 & M2).
  destruct (same0 _ _ _ M1) as [Hs _].
  destruct o0 as [r0| | |]; cbn in M0; try discriminate.
  pose proof (rd_src_ok [OReg r0; o1; o2] st (wsz w) s 2 (XL (LOp 2)) [OReg r0; o1] o2 eq_refl M2 Hsrc) as Hrd.
  cbn [rd_src] in Hrd. rewrite wsz_bits in Hrd.
  unfold mul_post. cbn [args_of tl map nth]. rewrite Hs.
  destruct (imul_val w (mir_val st (OReg r0)) (mir_val st o2)) as [Hv Hf]. cbn zeta in Hv, Hf.
  eexists. split.
  { apply xrun1. cbn [xexec opnd nth]. rewrite Hrd. reflexivity. }
  rewrite rd_bits_reg. split; [|split].
  - unfold value_at. cbn [opnd nth regs set_reg]. rewrite Nat.eqb_refl. rewrite wr_reg_w. exact Hv.
  - apply reg_write_frame2. split; [intros; reflexivity | reflexivity].
  - cbn [fOF set_reg set_flags]. exact Hf.
Qed.

Lemma mul3_exec w pat insns ops st :
  mul3_row_ok w pat insns = true -> pat_match [] pat ops = true ->
  exists st', xrun ops st insns = Some (st', None) /\ mul_post w ops st st'.
Proof.
  intros Hok Hpm. pose proof (wbits_pos' w) as Hw. unfold mul3_row_ok in Hok.
  destruct pat as [|p0 pat]; [discriminate|]. destruct p0; try discriminate.
  destruct pat as [|s pat]; [discriminate|].
  destruct pat as [|p2 pat]; [discriminate|]. destruct p2 as [| | |kk| | | | | |]; try discriminate.
  destruct pat; [|discriminate].
  destruct insns as [|i0 insns]; [discriminate|].
  destruct i0 as [| | | | |w' dd ss im| | | | | | | | | |]; try discriminate.
  destruct dd; [|discriminate]. destruct ss as [k]. destruct k as [|[|k]]; try discriminate.
  destruct im as [|ki bits|]; try discriminate. destruct ki as [|[|[|ki]]]; try discriminate.
  destruct insns; [|discriminate].
  apply andb_prop in Hok. destruct Hok as [Hok Hsrc2]. apply andb_prop in Hok. destruct Hok as [Hwid Hsrc1].
  apply osz_eqb_eq in Hwid. subst w'.
  destruct (pat_match3 _ _ _ _ Hpm) as (o0 & o1 & o2 & -> & M0 & M1 & M2).
  destruct o0 as [r0| | |]; cbn in M0; try discriminate.
  pose proof (rd_src_ok [OReg r0; o1; o2] st (wsz w) s 1 (XL (LOp 1)) [OReg r0] o1 eq_refl M1 Hsrc1) as Hrd1.
  pose proof (rd_src_ok [OReg r0; o1; o2] st (wsz w) (PI kk) 2 (XImm 2 bits) [OReg r0; o1] o2 eq_refl M2 Hsrc2) as Hrd2.
  cbn [rd_src] in Hrd1. rewrite wsz_bits in Hrd1, Hrd2.
  unfold mul_post. cbn [args_of tl map nth].
  destruct (imul_val w (mir_val st o1) (mir_val st o2)) as [Hv Hf]. cbn zeta in Hv, Hf.
  eexists. split.
  { apply xrun1. cbn [xexec opnd nth]. rewrite Hrd1, Hrd2. reflexivity. }
  split; [|split].
  - unfold value_at. cbn [opnd nth regs set_reg]. rewrite Nat.eqb_refl. rewrite wr_reg_w. exact Hv.
  - apply reg_write_frame2. split; [intros; reflexivity | reflexivity].
  - cbn [fOF set_reg set_flags]. exact Hf.
Qed.

Lemma mul_exec w pat insns ops st :
  mul_row_ok w pat insns = true -> pat_match [] pat ops = true ->
  exists st', xrun ops st insns = Some (st', None) /\ mul_post w ops st st'.
Proof.
  intros Hok Hpm. unfold mul_row_ok in Hok. apply orb_prop in Hok. destruct Hok as [Hok|Hok].
  - eapply mul2_exec; eassumption.
  - eapply mul3_exec; eassumption.
Qed.

(* ------------------------------------------------------------------ unsigned multiply: rdx:rax = rax * src *)
Lemma umul_flag w a b :
  0 <= a < 2 ^ wbits w -> 0 <= b < 2 ^ wbits w ->
  negb (a * b / 2 ^ wbits w =? 0) = negb (fits_u w (a * b)).
Proof.
  intros Ha Hb. pose proof (wbits_pos' w) as Hw. pose proof (pow2_pos (wbits w) ltac:(lia)) as Hp.
  f_equal. unfold fits_u, umax. assert (0 <= a * b) by nia.
  destruct (Z.eqb_spec (a * b / 2 ^ wbits w) 0) as [E|E].
  - apply Z.div_small_iff in E; [|lia]. destruct E as [E|E]; [|lia].
    symmetry. apply andb_true_intro. split; apply Z.leb_le; lia.
  - destruct (Z.leb_spec (a * b) (2 ^ wbits w - 1)).
    + exfalso. apply E. apply Z.div_small. lia.
    + rewrite andb_false_r. reflexivity.
Qed.

Lemma umul_exec w pat insns ops st :
  umul_row_ok w pat insns = true -> pat_match [] pat ops = true ->
  exists st', xrun ops st insns = Some (st', None)
    /\ value_at ops st' (wbits w) (uw w (nth 0 (args_of st ops) 0 * nth 1 (args_of st ops) 0))
    /\ frame ops st st' [RAX; RDX]
    /\ fCF st' = negb (fits_u w (uw w (nth 0 (args_of st ops) 0) * uw w (nth 1 (args_of st ops) 0))).
Proof.
  intros Hok Hpm. pose proof (wbits_pos' w) as Hw. unfold umul_row_ok in Hok.
  destruct pat as [|p0 pat]; [discriminate|]. destruct p0 as [|h0| | | | | | | |]; try discriminate. destruct h0; [|discriminate].
  destruct pat as [|p1 pat]; [discriminate|]. destruct p1 as [| | | | | | | |n|]; try discriminate. destruct n; [|discriminate].
  destruct pat as [|s pat]; [discriminate|]. destruct pat; [|discriminate].
  destruct insns as [|i0 insns]; [discriminate|].
  destruct i0 as [| | | | | |w' ss| | | | | | | | |]; try discriminate.
  destruct ss as [k]. destruct k as [|[|[|k]]]; try discriminate. destruct insns; [|discriminate].
  apply andb_prop in Hok. destruct Hok as [Hwid Hsrc]. apply osz_eqb_eq in Hwid. subst w'.
  destruct (pat_match3 _ _ _ _ Hpm) as (o0 & o1 & o2 & -> & M0 & M1 & M2).
  destruct (same0 _ _ _ M1) as [Hs _].
  destruct o0 as [r0| | |]; cbn in M0; try discriminate. destruct r0; [|discriminate].
  pose proof (rd_src_ok [OReg 0%nat; o1; o2] st (wsz w) s 2 (XL (LOp 2)) [OReg 0%nat; o1] o2 eq_refl M2 Hsrc) as Hrd.
  cbn [rd_src] in Hrd. rewrite wsz_bits in Hrd.
  cbn [args_of tl map nth]. rewrite Hs.
  eexists. split.
  { apply xrun1. cbn [xexec opnd nth]. rewrite Hrd. reflexivity. }
  unfold RAX, RDX. rewrite rd_bits_reg. rewrite wsz_bits.
  set (a := uwrap (wbits w) (mir_val st (OReg 0%nat))). set (b := uwrap (wbits w) (mir_val st o2)).
  split; [|split].
  - unfold value_at. cbn [opnd nth regs set_reg Nat.eqb]. rewrite wr_reg_w. unfold uw. rewrite !uwrap_idem by lia.
    unfold a, b. apply eqm_mul; [lia | apply eqm_uwrap; lia | apply eqm_uwrap; lia].
  - unfold frame. cbn [opnd nth regs memc set_reg set_flags]. split; [|reflexivity].
    intros r Hne Hin. cbn [In] in Hin.
    destruct r as [|[|[|r]]]; cbn [Nat.eqb]; try reflexivity; exfalso; apply Hin; auto.
  - cbn [fCF set_reg set_flags]. unfold uw. fold a b. apply umul_flag; unfold a, b; apply uwrap_bound; lia.
Qed.

(* ------------------------------------------------------------------ divide / remainder *)
(* the sign-extended double-width dividend cqo / cdq builds is the signed value of rax *)
Lemma cqo_dividend n x :
  0 < n ->
  let A := swrap n x in
  swrap (2 * n) (uwrap n (uwrap n (if A <? 0 then -1 else 0)) * 2 ^ n + uwrap n x) = A.
Proof.
  intros Hn A. pose proof (swrap_bound n x Hn) as HA. fold A in HA.
  pose proof (pow2_pos n ltac:(lia)) as Hp. pose proof (pow2_half n Hn) as Hh.
  assert (H2 : 2 ^ (2 * n) = 2 ^ n * 2 ^ n) by (rewrite <- Z.pow_add_r by lia; f_equal; lia).
  assert (H2h : 2 ^ (2 * n - 1) = 2 ^ n * 2 ^ (n - 1)) by (rewrite <- Z.pow_add_r by lia; f_equal; lia).
  assert (HAin : in_s (2 * n) A) by (unfold in_s; rewrite H2h; nia).
  rewrite uwrap_idem by lia.
  destruct (swrap_cases n x Hn) as [[E L]|[E L]]; fold A in E.
  - (* non-negative *)
    assert (Hlt : (A <? 0) = false) by (apply Z.ltb_ge; pose proof (uwrap_bound n x ltac:(lia)); lia).
    rewrite Hlt. rewrite (uwrap_small n 0) by lia. rewrite <- E. rewrite Z.mul_0_l, Z.add_0_l.
    apply swrap_id; [lia | exact HAin].
  - assert (Hlt : (A <? 0) = true) by (apply Z.ltb_lt; pose proof (uwrap_bound n x ltac:(lia)); lia).
    rewrite Hlt.
    assert (Em1 : uwrap n (-1) = 2 ^ n - 1).
    { unfold uwrap. replace (-1) with (2 ^ n - 1 + (-1) * 2 ^ n) by lia. rewrite Z.mod_add by lia. apply Z.mod_small. lia. }
    rewrite Em1. replace (uwrap n x) with (A + 2 ^ n) by lia.
    replace ((2 ^ n - 1) * 2 ^ n + (A + 2 ^ n)) with (A + 1 * 2 ^ (2 * n)) by lia.
    rewrite <- (swrap_id (2 * n) A) at 2 by (try lia; exact HAin).
    apply eqm_swrap_eq; [lia|]. apply eqm_iff; [lia|]. exists 1. reflexivity.
Qed.

(* a defined signed quotient fits the operand width: no #DE *)
Lemma quot_in_range n A b :
  0 < n -> - 2 ^ (n - 1) <= A < 2 ^ (n - 1) -> b <> 0 -> ~ (A = - 2 ^ (n - 1) /\ b = -1) ->
  - 2 ^ (n - 1) <= Z.quot A b < 2 ^ (n - 1).
Proof.
  intros Hn HA Hb Hex. pose proof (pow2_pos (n - 1) ltac:(lia)) as Hp.
  destruct (Z_lt_le_dec A 0) as [An|Ap]; destruct (Z_lt_le_dec b 0) as [bn|bp].
  - replace A with (- (- A)) by lia. rewrite quot_neg_neg by lia.
    pose proof (div_bound (- A) (- b) ltac:(lia) ltac:(lia)) as Hq.
    destruct (Z.eq_dec b (-1)) as [->|Hb1].
    + assert (A <> - 2 ^ (n - 1)) by tauto. lia.
    + assert (- A / - b * (- b) <= - A) by (rewrite Z.mul_comm; apply Z.mul_div_le; lia). nia.
  - replace A with (- (- A)) by lia. rewrite quot_neg_pos by lia.
    pose proof (div_bound (- A) b ltac:(lia) ltac:(lia)). lia.
  - rewrite quot_pos_neg by lia. pose proof (div_bound A (- b) ltac:(lia) ltac:(lia)). lia.
  - rewrite Z.quot_div_nonneg by lia. pose proof (div_bound A b ltac:(lia) ltac:(lia)). lia.
Qed.

Definition div_io (sg rem : bool) : ibinop :=
  match sg, rem with true, false => IDiv | true, true => IMod | false, false => IUDiv | false, true => IUMod end.

(* operand 2 does not live in DX: it reads the same after DX has been overwritten *)
Lemma mir_val_not_dx st st1 o :
  o <> OReg RDX -> (forall r, r <> RDX -> regs st1 r = regs st r) -> memc st1 = memc st -> mir_val st1 o = mir_val st o.
Proof.
  intros Hne Hr Hm. destruct o as [r| | |]; cbn [mir_val]; try rewrite Hm; try reflexivity.
  rewrite Hr; [reflexivity|]. intros ->. apply Hne. reflexivity.
Qed.

Lemma div_exec (sg rem : bool) w pat insns ops st d :
  div_row_ok sg rem w pat insns = true -> pat_match [] pat ops = true ->
  (forall k, (1 <= k)%nat -> opnd ops k <> OReg RDX) ->
  ibin (div_io sg rem) w (nth 0 (args_of st ops) 0) (nth 1 (args_of st ops) 0) = Some d ->
  exists st', xrun ops st insns = Some (st', None) /\ value_at ops st' (wbits w) d /\ frame ops st st' [RAX; RDX].
Proof.
  intros Hok Hpm Hearly Hd. pose proof (wbits_pos' w) as Hw. unfold div_row_ok in Hok.
  destruct pat as [|p0 pat]; [discriminate|]. destruct p0 as [|h0| | | | | | | |]; try discriminate.
  destruct pat as [|p1 pat]; [discriminate|]. destruct p1 as [|h1| | | | | | | |]; try discriminate. destruct h1; [|discriminate].
  destruct pat as [|s pat]; [discriminate|]. destruct pat; [|discriminate].
  destruct insns as [|pre insns]; [discriminate|]. destruct insns as [|dv insns]; [discriminate|]. destruct insns; [|discriminate].
  apply andb_prop in Hok. destruct Hok as [Hok Hins]. apply andb_prop in Hok. destruct Hok as [Hr0 Hsrc].
  apply Nat.eqb_eq in Hr0. subst h0.
  destruct (pat_match3 _ _ _ _ Hpm) as (o0 & o1 & o2 & -> & M0 & M1 & M2).
  destruct o0 as [r0| | |]; cbn in M0; try discriminate. apply Nat.eqb_eq in M0. subst r0.
  destruct o1 as [r1| | |]; cbn in M1; try discriminate. destruct r1; [|discriminate].
  pose proof (Hearly 2%nat ltac:(lia)) as Hn2. cbn [opnd nth] in Hn2.
  cbn [args_of tl map nth] in Hd.
  set (x := mir_val st (OReg 0%nat)) in *. set (y := mir_val st o2) in *.
  (* reading the divisor after the prefix instruction *)
  assert (Hrd : forall st1, (forall r, r <> RDX -> regs st1 r = regs st r) -> memc st1 = memc st ->
                 rd_loc [OReg (if rem then RDX else RAX); OReg 0%nat; o2] st1 (wsz w) (LOp 2) = Some (uwrap (wbits w) y)).
  { intros st1 Hr Hm.
    pose proof (rd_src_ok [OReg (if rem then RDX else RAX); OReg 0%nat; o2] st1 (wsz w) s 2 (XL (LOp 2))
                  [OReg (if rem then RDX else RAX); OReg 0%nat] o2 eq_refl M2 Hsrc) as H.
    cbn [rd_src] in H. rewrite wsz_bits in H. rewrite H. unfold y. rewrite (mir_val_not_dx st st1 o2 Hn2 Hr Hm). reflexivity. }
  destruct sg.
  - (* cqo ; idiv *)
    destruct pre as [| | | | | | | | |w1| | | | | |]; try discriminate.
    destruct dv as [| | | | | | | |w2 ss| | | | | | |]; try discriminate.
    destruct ss as [k]. destruct k as [|[|[|k]]]; try discriminate.
    apply andb_prop in Hins. destruct Hins as [H1 H2]. apply osz_eqb_eq in H1, H2. subst w1 w2.
    set (A := sval (wsz w) (regs st RAX)).
    assert (HA0 : A = swrap (wbits w) (regs st RAX)) by (unfold A, sval; rewrite wsz_bits; reflexivity).
    set (st1 := set_reg st RDX (wr_reg_bits (wsz w) (regs st RDX) (if A <? 0 then -1 else 0))).
    assert (Hr1 : forall r, r <> RDX -> regs st1 r = regs st r).
    { intros r Hne. unfold st1. cbn [regs set_reg]. destruct (Nat.eqb_spec r RDX); [contradiction | reflexivity]. }
    assert (HA : A = sw w x).
    { rewrite HA0. unfold sw, x. cbn [mir_val]. apply eqm_swrap_eq; [lia|]. apply eqm_sym. apply eqm_le with 64; [lia|]. apply eqm_uwrap; lia. }
    assert (Hb : sval (wsz w) (uwrap (wbits w) y) = sw w y) by (unfold sval, sw; rewrite wsz_bits; apply swrap_uwrap; lia).
    assert (Hn : swrap (2 * obits (wsz w)) (rd_bits (wsz w) (regs st1 RDX) * 2 ^ obits (wsz w) + rd_bits (wsz w) (regs st1 RAX)) = A).
    { rewrite (Hr1 RAX) by (unfold RAX, RDX; lia). unfold st1, rd_bits. cbn [regs set_reg]. rewrite Nat.eqb_refl.
      rewrite wr_reg_w, wsz_bits. rewrite HA0. apply cqo_dividend. lia. }
    (* the documented result is defined: no #DE *)
    assert (Hdef : sw w y <> 0 /\ ~ (A = - 2 ^ (wbits w - 1) /\ sw w y = -1)).
    { rewrite HA. destruct rem; cbn [div_io ibin] in Hd;
        destruct (Z.eqb_spec (sw w y) 0); cbn [orb] in Hd; try discriminate;
        destruct (Z.eqb_spec (sw w x) (smin w)); destruct (Z.eqb_spec (sw w y) (-1)); cbn [andb] in Hd; try discriminate;
        unfold smin in *; split; try assumption; tauto. }
    destruct Hdef as [Hy0 Hex].
    pose proof (swrap_bound (wbits w) (regs st RAX) ltac:(lia)) as HAb. rewrite <- HA0 in HAb.
    pose proof (quot_in_range (wbits w) A (sw w y) ltac:(lia) HAb Hy0 Hex) as Hq.
    eexists. split.
    { cbn [xrun xexec]. change (sval (wsz w) (regs st RAX)) with A.
      change (set_reg st RDX (wr_reg_bits (wsz w) (regs st RDX) (if A <? 0 then -1 else 0))) with st1.
      rewrite (Hrd st1 Hr1 eq_refl). rewrite Hb, Hn. rewrite wsz_bits.
      destruct (Z.eqb_spec (sw w y) 0); [contradiction|].
      destruct (Z.ltb_spec (Z.quot A (sw w y)) (- 2 ^ (wbits w - 1))); [lia|].
      destruct (Z.leb_spec (2 ^ (wbits w - 1)) (Z.quot A (sw w y))); [lia|]. cbn [orb]. reflexivity. }
    split.
    + unfold value_at. rewrite !wr_reg_w. rewrite HA.
      destruct rem; cbn [opnd nth regs set_reg Nat.eqb RAX RDX div_io ibin] in *;
        destruct (Z.eqb_spec (sw w y) 0); try contradiction; cbn [orb] in Hd;
        destruct ((sw w x =? smin w) && (sw w y =? -1)); try discriminate; injection Hd as <-;
        unfold uw; rewrite !uwrap_idem by lia; reflexivity.
    + unfold frame. cbn [opnd nth memc set_reg]. split; [|destruct rem; reflexivity].
      intros r Hne Hin. cbn [In] in Hin. cbn [regs set_reg].
      destruct (Nat.eqb_spec r RDX) as [->|N2]; [exfalso; apply Hin; auto|].
      destruct (Nat.eqb_spec r RAX) as [->|N0]; [exfalso; apply Hin; auto|].
      apply Hr1. exact N2.
  - (* xor edx, edx ; div *)
    destruct pre as [| | | | | | | | | | | | | | |]; try discriminate.
    destruct dv as [| | | | | | |w2 ss| | | | | | | |]; try discriminate.
    destruct ss as [k]. destruct k as [|[|[|k]]]; try discriminate.
    apply osz_eqb_eq in Hins. subst w2.
    set (st1 := set_flags (set_reg st RDX 0) false true false false).
    assert (Hr1 : forall r, r <> RDX -> regs st1 r = regs st r).
    { intros r Hne. unfold st1. cbn [regs set_reg set_flags]. destruct (Nat.eqb_spec r RDX); [contradiction | reflexivity]. }
    assert (Hn : rd_bits (wsz w) (regs st1 RDX) * 2 ^ obits (wsz w) + rd_bits (wsz w) (regs st1 RAX) = uw w x).
    { rewrite (Hr1 RAX) by (unfold RAX, RDX; lia). unfold st1. cbn [regs set_reg set_flags]. rewrite Nat.eqb_refl.
      rewrite rd_bits_reg. unfold rd_bits. rewrite wsz_bits.
      assert (E0 : uwrap (wbits w) 0 = 0) by (apply uwrap_small; pose proof (pow2_pos (wbits w) ltac:(lia)); lia). rewrite E0.
      unfold uw, x, RAX. lia. }
    assert (Hy0 : uw w y <> 0).
    { destruct rem; cbn [div_io ibin] in Hd; destruct (Z.eqb_spec (uw w y) 0); try discriminate; assumption. }
    pose proof (uwrap_bound (wbits w) x ltac:(lia)) as Hxb. pose proof (uwrap_bound (wbits w) y ltac:(lia)) as Hyb.
    fold (uw w x) in Hxb. fold (uw w y) in Hyb.
    pose proof (div_bound (uw w x) (uw w y) ltac:(lia) ltac:(lia)) as Hq.
    eexists. split.
    { cbn [xrun xexec]. fold st1. rewrite (Hrd st1 Hr1 eq_refl). rewrite Hn. fold (uw w y). rewrite wsz_bits.
      destruct (Z.eqb_spec (uw w y) 0); [contradiction|].
      destruct (Z.leb_spec (2 ^ wbits w) (uw w x / uw w y)); [lia|]. cbn [orb]. reflexivity. }
    split.
    + unfold value_at. rewrite !wr_reg_w.
      destruct rem; cbn [opnd nth regs set_reg Nat.eqb RAX RDX div_io ibin] in *;
        destruct (Z.eqb_spec (uw w y) 0); try contradiction; injection Hd as <-;
        rewrite !uwrap_idem by lia; reflexivity.
    + unfold frame. cbn [opnd nth memc set_reg set_flags]. split; [|destruct rem; reflexivity].
      intros r Hne Hin. cbn [In] in Hin. cbn [regs set_reg].
      destruct (Nat.eqb_spec r RDX) as [->|N2]; [exfalso; apply Hin; auto|].
      destruct (Nat.eqb_spec r RAX) as [->|N0]; [exfalso; apply Hin; auto|].
      apply Hr1. exact N2.
Qed.

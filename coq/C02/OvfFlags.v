(* The interpreter's pre-check formulas for the overflow flags of ADDO/SUBO/MULO/UMULO[S]
   (mir-interp.c) equal "the exact result is not representable" (DocSpec.ovf) for ALL operands.
   The formulas are given as templates over the two operand leaves; a row is accepted when its flag
   expressions are, syntactically, the templates instantiated with the row's own leaves. *)
From Coq Require Import ZArith Lia Bool List String.
From MirV Require Import Mir.DocSpec Mir.CExpr C02.WFacts C02.QuotFacts C02.RowCheck C02.RowProofs C02.IntRows C02.FloatRows C02.OvfRows.
Import ListNotations.
Local Open Scope Z_scope.

Arguments uwrap : simpl never.
Arguments swrap : simpl never.
Arguments Z.pow : simpl never.
Arguments Z.mul : simpl never.
Arguments Z.add : simpl never.
Arguments Z.sub : simpl never.
Arguments Z.opp : simpl never.
Arguments Z.div : simpl never.
Arguments Z.modulo : simpl never.
Arguments Z.quot : simpl never.
Arguments Z.rem : simpl never.
Arguments Z.eqb : simpl never.
Arguments Z.ltb : simpl never.
Arguments Z.leb : simpl never.

(* ---- templates *)
Definition c0 := EConst 0 CI32.
Definition c1 := EConst 1 CI32.
Definition cmax (w : width) := EConst (smax w) (wt true w).
Definition cmin (w : width) := EBin Osub (EUn Uneg (cmax w)) c1.            (* -MAX - 1 *)
Definition cumax (w : width) := EConst (umax w) (wt false w).
Definition ucast (w : width) (e : cexpr) := ECast (wt false w) e.

Definition addo_s w l1 l2 :=
  ECond (EBin Oge l2 c0) (EBin Ogt l1 (EBin Osub (cmax w) l2)) (EBin Olt l1 (EBin Osub (cmin w) l2)).
Definition addo_u w l1 l2 := EBin Ogt (ucast w l1) (EBin Osub (cumax w) (ucast w l2)).
Definition subo_s w l1 l2 :=
  ECond (EBin Olt l2 c0) (EBin Ogt l1 (EBin Oadd (cmax w) l2)) (EBin Olt l1 (EBin Oadd (cmin w) l2)).
Definition subo_u w l1 l2 := EBin Olt (ucast w l1) (ucast w l2).
Definition mulo_s w l1 l2 :=
  ECond (EBin Oeq l1 c0) c0
    (ECond (EBin Oeq l1 (EUn Uneg c1)) (EBin Olt l2 (EUn Uneg (cmax w)))
       (ECond (EBin Ogt l1 c0)
          (ECond (EBin Ogt l2 c0) (EBin Olt (EBin Odiv (cmax w) l1) l2) (EBin Ogt (EBin Odiv (cmin w) l1) l2))
          (ECond (EBin Ogt l2 c0) (EBin Olt (EBin Odiv (cmin w) l1) l2) (EBin Ogt (EBin Odiv (cmax w) l1) l2)))).
Definition umulo_u w l1 l2 :=
  ECond (EBin Oeq l1 c0) c0 (EBin Olt (EBin Odiv (cumax w) l1) l2).

Definition opt_eqb (a : option cexpr) (b : option cexpr) : bool :=
  match a, b with
  | Some x, Some y => cexpr_eqb x y
  | None, None => true
  | _, _ => false
  end.

(* flags expected for overflow class (o,w) over leaves l1 l2 (signed leaves for OAdd/OSub/OMul,
   unsigned for OUMul) *)
Definition flags_ok (o : ovfop) (w : width) (l1 l2 : cexpr) (t1 : cty) (sf uf : option cexpr) : bool :=
  match o with
  | OAdd => ty_signed t1 && opt_eqb sf (Some (addo_s w l1 l2)) && opt_eqb uf (Some (addo_u w l1 l2))
  | OSub => ty_signed t1 && opt_eqb sf (Some (subo_s w l1 l2)) && opt_eqb uf (Some (subo_u w l1 l2))
  | OMul => ty_signed t1 && opt_eqb sf (Some (mulo_s w l1 l2)) && opt_eqb uf None
  | OUMul => negb (ty_signed t1) && opt_eqb sf None && opt_eqb uf (Some (umulo_u w l1 l2))
  end.

Definition ovf_ok (op : opcode) (T : cty) (e : cexpr) (sf uf : option cexpr) : bool :=
  match ovf_leaves op T e with
  | Some (o, w, _, l1, l2, t1, _) => flags_ok o w l1 l2 t1 sf uf
  | None => false
  end.

(* ---- evaluation helpers *)
Lemma smin_max w : smin w = - smax w - 1. Proof. destruct w; reflexivity. Qed.
Lemma smax_pos w : 0 < smax w. Proof. destruct w; reflexivity. Qed.
Lemma umax_smax w : umax w = 2 * smax w + 1. Proof. destruct w; reflexivity. Qed.

Lemma wrapS_id w z : smin w <= z <= smax w -> wrap_ty (wt true w) z = z.
Proof.
  intros H. rewrite wrap_wt. unfold sw. apply swrap_id; [apply wbits_pos|].
  unfold in_s. unfold smin, smax in H. lia.
Qed.
Lemma wrapU_id w z : 0 <= z <= umax w -> wrap_ty (wt false w) z = z.
Proof. intros H. rewrite wrap_wt. unfold uw. apply uwrap_small. unfold umax in H. lia. Qed.

Definition S (w : width) := wt true w.
Definition U (w : width) := wt false w.

(* comparison / arithmetic of two values of the same 32/64-bit type, operands already in range *)
Lemma binop_same sg w o x y : is_shift o = false ->
  wrap_ty (wt sg w) x = x -> wrap_ty (wt sg w) y = y ->
  binop o (wt sg w, x) (wt sg w, y) = int_binop o (wt sg w) x y.
Proof.
  intros Hs Hx Hy. destruct (wt_props sg w) as (Hi & _ & _ & Hp & Ha & _).
  unfold binop. rewrite Hi, Hs, Hp, Ha, Hx, Hy. reflexivity.
Qed.

(* second operand an int constant (0, 1 or -1) *)
Lemma binop_int sg w o x c : is_shift o = false ->
  wrap_ty (wt sg w) x = x -> wrap_ty (wt sg w) c = c ->
  binop o (wt sg w, x) (CI32, c) = int_binop o (wt sg w) x c.
Proof.
  intros Hs Hx Hc. destruct (wt_props sg w) as (Hi & _ & _ & Hp & _ & _).
  unfold binop. rewrite Hi, Hs, Hp. cbn [is_int ty_int andb promote].
  replace (arith_conv (wt sg w) CI32) with (wt sg w) by (destruct sg, w; reflexivity).
  rewrite Hx, Hc. reflexivity.
Qed.

Lemma truth_b2z b : truth (CI32, b2z b) = Some b.
Proof. destruct b; reflexivity. Qed.

Lemma cmp_int o c t x y : cmp_of o = Some c -> int_binop o t x y = Some (CI32, b2z (cmpZ c x y)).
Proof. destruct o; cbn; intros H; inversion H; subst; reflexivity. Qed.

Section Flags.
  Variable w : width.
  Variables env : list Z.
  Variables l1 l2 : cexpr.
  Variables a b : Z.
  Let x := sw w a.
  Let y := sw w b.

  Hypothesis H1 : ceval env l1 = Some (S w, x).
  Hypothesis H2 : ceval env l2 = Some (S w, y).

  Lemma xr : smin w <= x <= smax w. Proof. apply sw_bound. Qed.
  Lemma yr : smin w <= y <= smax w. Proof. apply sw_bound. Qed.

  Lemma ev_c0 : ceval env c0 = Some (CI32, 0). Proof. reflexivity. Qed.
  Lemma ev_c1 : ceval env c1 = Some (CI32, 1). Proof. reflexivity. Qed.

  Lemma ev_cmax : ceval env (cmax w) = Some (S w, smax w).
  Proof.
    unfold cmax. cbn [ceval]. destruct (wt_props true w) as (Hi & _). rewrite Hi.
    rewrite wrapS_id; [reflexivity|]. pose proof (smax_pos w). rewrite smin_max. lia.
  Qed.

  Lemma ev_cmin : ceval env (cmin w) = Some (S w, smin w).
  Proof.
    unfold cmin. cbn [ceval]. rewrite ev_cmax. destruct (wt_props true w) as (Hi & _ & _ & Hp & _).
    unfold unop. fold (S w). unfold S. rewrite Hi, Hp. pose proof (smax_pos w).
    rewrite (wrapS_id w (- smax w)) by (rewrite smin_max; lia).
    rewrite ev_c1.
    rewrite binop_int; [|reflexivity| apply wrapS_id; rewrite smin_max; lia | apply wrapS_id; rewrite smin_max; lia].
    cbn [int_binop]. rewrite wrapS_id by (rewrite smin_max; lia). rewrite smin_max. reflexivity.
  Qed.

  Lemma wx : wrap_ty (wt true w) x = x. Proof. apply wrapS_id, xr. Qed.
  Lemma wy : wrap_ty (wt true w) y = y. Proof. apply wrapS_id, yr. Qed.
  Lemma w0 : wrap_ty (wt true w) 0 = 0.
  Proof. apply wrapS_id. pose proof (smax_pos w). rewrite smin_max. lia. Qed.

  Lemma addo_s_sound :
    match ceval env (addo_s w l1 l2) with
    | Some v => truth v = Some (negb (fits_s w (x + y)))
    | None => False
    end.
  Proof.
    pose proof xr as Hx. pose proof yr as Hy. pose proof (smax_pos w) as Hm. rewrite smin_max in *.
    unfold addo_s. cbn [ceval]. rewrite H1, H2, ev_c0, ev_cmax, ev_cmin. fold (S w). unfold S.
    rewrite binop_int by (reflexivity || apply wy || apply w0).
    rewrite (cmp_int Oge CGe) by reflexivity. rewrite truth_b2z. cbn [cmpZ].
    unfold fits_s. rewrite smin_max.
    destruct (Z.leb_spec 0 y) as [Hy0|Hy0].
    - rewrite binop_same by (reflexivity || apply wy || (apply wrapS_id; rewrite smin_max; lia)).
      cbn [int_binop]. rewrite wrapS_id by (rewrite smin_max; lia).
      rewrite binop_same by (reflexivity || apply wx || (apply wrapS_id; rewrite smin_max; lia)).
      rewrite (cmp_int Ogt CGt) by reflexivity. rewrite truth_b2z. cbn [cmpZ]. f_equal.
      destruct (Z.ltb_spec (smax w - y) x), (Z.leb_spec (- smax w - 1) (x + y)), (Z.leb_spec (x + y) (smax w));
        cbn; try reflexivity; lia.
    - rewrite binop_same by (reflexivity || apply wy || (apply wrapS_id; rewrite smin_max; lia)).
      cbn [int_binop]. rewrite wrapS_id by (rewrite smin_max; lia).
      rewrite binop_same by (reflexivity || apply wx || (apply wrapS_id; rewrite smin_max; lia)).
      rewrite (cmp_int Olt CLt) by reflexivity. rewrite truth_b2z. cbn [cmpZ]. f_equal.
      destruct (Z.ltb_spec x (- smax w - 1 - y)), (Z.leb_spec (- smax w - 1) (x + y)), (Z.leb_spec (x + y) (smax w));
        cbn; try reflexivity; lia.
  Qed.

  Lemma subo_s_sound :
    match ceval env (subo_s w l1 l2) with
    | Some v => truth v = Some (negb (fits_s w (x - y)))
    | None => False
    end.
  Proof.
    pose proof xr as Hx. pose proof yr as Hy. pose proof (smax_pos w) as Hm. rewrite smin_max in *.
    unfold subo_s. cbn [ceval]. rewrite H1, H2, ev_c0, ev_cmax, ev_cmin. fold (S w). unfold S.
    rewrite binop_int by (reflexivity || apply wy || apply w0).
    rewrite (cmp_int Olt CLt) by reflexivity. rewrite truth_b2z. cbn [cmpZ].
    unfold fits_s. rewrite smin_max.
    destruct (Z.ltb_spec y 0) as [Hy0|Hy0].
    - rewrite binop_same by (reflexivity || apply wy || (apply wrapS_id; rewrite smin_max; lia)).
      cbn [int_binop]. rewrite wrapS_id by (rewrite smin_max; lia).
      rewrite binop_same by (reflexivity || apply wx || (apply wrapS_id; rewrite smin_max; lia)).
      rewrite (cmp_int Ogt CGt) by reflexivity. rewrite truth_b2z. cbn [cmpZ]. f_equal.
      destruct (Z.ltb_spec (smax w + y) x), (Z.leb_spec (- smax w - 1) (x - y)), (Z.leb_spec (x - y) (smax w));
        cbn; try reflexivity; lia.
    - rewrite binop_same by (reflexivity || apply wy || (apply wrapS_id; rewrite smin_max; lia)).
      cbn [int_binop]. rewrite wrapS_id by (rewrite smin_max; lia).
      rewrite binop_same by (reflexivity || apply wx || (apply wrapS_id; rewrite smin_max; lia)).
      rewrite (cmp_int Olt CLt) by reflexivity. rewrite truth_b2z. cbn [cmpZ]. f_equal.
      destruct (Z.ltb_spec x (- smax w - 1 + y)), (Z.leb_spec (- smax w - 1) (x - y)), (Z.leb_spec (x - y) (smax w));
        cbn; try reflexivity; lia.
  Qed.

  (* unsigned views *)
  Let ux := uw w a.
  Let uy := uw w b.

  Lemma uxr : 0 <= ux <= umax w. Proof. pose proof (uw_bound w a). unfold ux, umax. lia. Qed.
  Lemma uyr : 0 <= uy <= umax w. Proof. pose proof (uw_bound w b). unfold uy, umax. lia. Qed.

  Lemma ev_ucast1 : ceval env (ucast w l1) = Some (U w, ux).
  Proof.
    unfold ucast. cbn [ceval]. rewrite H1. unfold convert.
    destruct (wt_props true w) as (Hi & _). destruct (wt_props false w) as (Hi' & _).
    unfold S. rewrite Hi, Hi'. rewrite wrap_wt. unfold x, ux, sw, uw. rewrite uwrap_swrap by apply wbits_pos. reflexivity.
  Qed.
  Lemma ev_ucast2 : ceval env (ucast w l2) = Some (U w, uy).
  Proof.
    unfold ucast. cbn [ceval]. rewrite H2. unfold convert.
    destruct (wt_props true w) as (Hi & _). destruct (wt_props false w) as (Hi' & _).
    unfold S. rewrite Hi, Hi'. rewrite wrap_wt. unfold y, uy, sw, uw. rewrite uwrap_swrap by apply wbits_pos. reflexivity.
  Qed.

  Lemma ev_cumax : ceval env (cumax w) = Some (U w, umax w).
  Proof.
    unfold cumax. cbn [ceval]. destruct (wt_props false w) as (Hi & _). rewrite Hi.
    rewrite wrapU_id; [reflexivity|]. pose proof (smax_pos w). rewrite umax_smax. lia.
  Qed.

  Lemma wux : wrap_ty (wt false w) ux = ux. Proof. apply wrapU_id, uxr. Qed.
  Lemma wuy : wrap_ty (wt false w) uy = uy. Proof. apply wrapU_id, uyr. Qed.

  Lemma addo_u_sound :
    match ceval env (addo_u w l1 l2) with
    | Some v => truth v = Some (negb (fits_u w (ux + uy)))
    | None => False
    end.
  Proof.
    pose proof uxr as Hx. pose proof uyr as Hy.
    unfold addo_u. cbn [ceval]. rewrite ev_ucast1, ev_ucast2, ev_cumax. unfold U.
    rewrite binop_same by (reflexivity || apply wuy || (apply wrapU_id; lia)).
    cbn [int_binop]. rewrite wrapU_id by lia.
    rewrite binop_same by (reflexivity || apply wux || (apply wrapU_id; lia)).
    rewrite (cmp_int Ogt CGt) by reflexivity. rewrite truth_b2z. cbn [cmpZ]. f_equal. unfold fits_u.
    destruct (Z.ltb_spec (umax w - uy) ux), (Z.leb_spec 0 (ux + uy)), (Z.leb_spec (ux + uy) (umax w));
      cbn; try reflexivity; lia.
  Qed.

  Lemma subo_u_sound :
    match ceval env (subo_u w l1 l2) with
    | Some v => truth v = Some (negb (fits_u w (ux - uy)))
    | None => False
    end.
  Proof.
    pose proof uxr as Hx. pose proof uyr as Hy.
    unfold subo_u. cbn [ceval]. rewrite ev_ucast1, ev_ucast2. unfold U.
    rewrite binop_same by (reflexivity || apply wuy || apply wux).
    rewrite (cmp_int Olt CLt) by reflexivity. rewrite truth_b2z. cbn [cmpZ]. f_equal. unfold fits_u.
    destruct (Z.ltb_spec ux uy), (Z.leb_spec 0 (ux - uy)), (Z.leb_spec (ux - uy) (umax w));
      cbn; try reflexivity; lia.
  Qed.

  Lemma int_div_ok (sg : bool) t p q :
    (q =? 0) = false -> ((p =? ty_min t) && (q =? -1)) = false ->
    int_binop Odiv t p q = Some (t, wrap_ty t (Z.quot p q)).
  Proof.
    intros Hq Hm. cbn [int_binop]. rewrite Hq. cbn [orb].
    destruct (ty_signed t); cbn [andb]; [rewrite Hm|]; reflexivity.
  Qed.

  Lemma tymin_S : ty_min (wt true w) = smin w. Proof. destruct w; reflexivity. Qed.

  Lemma mulo_s_sound :
    match ceval env (mulo_s w l1 l2) with
    | Some v => truth v = Some (negb (fits_s w (x * y)))
    | None => False
    end.
  Proof.
    pose proof xr as Hx. pose proof yr as Hy. pose proof (smax_pos w) as Hm. rewrite smin_max in *.
    assert (Wm1 : wrap_ty (wt true w) (-1) = -1) by (apply wrapS_id; rewrite smin_max; lia).
    assert (WM : wrap_ty (wt true w) (smax w) = smax w) by (apply wrapS_id; rewrite smin_max; lia).
    assert (WN : wrap_ty (wt true w) (- smax w - 1) = - smax w - 1) by (apply wrapS_id; rewrite smin_max; lia).
    unfold mulo_s. cbn [ceval]. rewrite H1, H2, ev_c0, ev_c1, ev_cmax, ev_cmin. fold (S w). unfold S.
    unfold fits_s. rewrite smin_max.
    rewrite binop_int by (reflexivity || apply wx || apply w0).
    rewrite (cmp_int Oeq CEq) by reflexivity. rewrite truth_b2z. cbn [cmpZ].
    destruct (Z.eqb_spec x 0) as [X0|X0].
    { cbn [truth is_int ty_int]. rewrite X0. f_equal.
      destruct (Z.leb_spec (- smax w - 1) (0 * y)), (Z.leb_spec (0 * y) (smax w)); cbn; try reflexivity; lia. }
    (* x == -1 ? *)
    assert (Un1 : unop Uneg (CI32, 1) = Some (CI32, -1)) by reflexivity. rewrite Un1.
    rewrite binop_int by (reflexivity || apply wx || exact Wm1).
    rewrite (cmp_int Oeq CEq) by reflexivity. rewrite truth_b2z. cbn [cmpZ].
    destruct (wt_props true w) as (Hi & _ & _ & Hp & _).
    destruct (Z.eqb_spec x (-1)) as [X1|X1].
    { unfold unop. rewrite Hi, Hp. rewrite wrapS_id by (rewrite smin_max; lia).
      rewrite binop_same by (reflexivity || apply wy || (apply wrapS_id; rewrite smin_max; lia)).
      rewrite (cmp_int Olt CLt) by reflexivity. rewrite truth_b2z. cbn [cmpZ]. rewrite X1. f_equal.
      destruct (Z.ltb_spec y (- smax w)), (Z.leb_spec (- smax w - 1) (-1 * y)), (Z.leb_spec (-1 * y) (smax w));
        cbn; try reflexivity; lia. }
    rewrite binop_int by (reflexivity || apply wx || apply w0).
    rewrite (cmp_int Ogt CGt) by reflexivity. rewrite truth_b2z. cbn [cmpZ].
    assert (Q0 : (x =? 0) = false) by (apply Z.eqb_neq; assumption).
    assert (Qm : forall p, ((p =? ty_min (wt true w)) && (x =? -1)) = false)
      by (intros p; replace (x =? -1) with false by (symmetry; apply Z.eqb_neq; assumption); apply andb_false_r).
    destruct (Z.ltb_spec 0 x) as [Xp|Xn].
    - rewrite binop_int by (reflexivity || apply wy || apply w0).
      rewrite (cmp_int Ogt CGt) by reflexivity. rewrite truth_b2z. cbn [cmpZ].
      destruct (Z.ltb_spec 0 y) as [Yp|Yn].
      + rewrite binop_same by (reflexivity || apply wx || exact WM).
        rewrite (int_div_ok true) by (apply Q0 || apply Qm).
        rewrite wrapS_id by (rewrite smin_max; apply quot_range1; lia).
        rewrite binop_same by (reflexivity || apply wy || (apply wrapS_id; rewrite smin_max; apply quot_range1; lia)).
        rewrite (cmp_int Olt CLt) by reflexivity. rewrite truth_b2z. cbn [cmpZ]. f_equal.
        apply mul_case1; lia.
      + rewrite binop_same by (reflexivity || apply wx || exact WN).
        rewrite (int_div_ok true) by (apply Q0 || apply Qm).
        rewrite wrapS_id by (rewrite smin_max; apply quot_range2; lia).
        rewrite binop_same by (reflexivity || apply wy || (apply wrapS_id; rewrite smin_max; apply quot_range2; lia)).
        rewrite (cmp_int Ogt CGt) by reflexivity. rewrite truth_b2z. cbn [cmpZ]. f_equal.
        apply mul_case2; lia.
    - assert (x <= -2) by lia.
      rewrite binop_int by (reflexivity || apply wy || apply w0).
      rewrite (cmp_int Ogt CGt) by reflexivity. rewrite truth_b2z. cbn [cmpZ].
      destruct (Z.ltb_spec 0 y) as [Yp|Yn].
      + rewrite binop_same by (reflexivity || apply wx || exact WN).
        rewrite (int_div_ok true) by (apply Q0 || apply Qm).
        rewrite wrapS_id by (rewrite smin_max; apply quot_range3; lia).
        rewrite binop_same by (reflexivity || apply wy || (apply wrapS_id; rewrite smin_max; apply quot_range3; lia)).
        rewrite (cmp_int Olt CLt) by reflexivity. rewrite truth_b2z. cbn [cmpZ]. f_equal.
        apply mul_case3; lia.
      + rewrite binop_same by (reflexivity || apply wx || exact WM).
        rewrite (int_div_ok true) by (apply Q0 || apply Qm).
        rewrite wrapS_id by (rewrite smin_max; apply quot_range4; lia).
        rewrite binop_same by (reflexivity || apply wy || (apply wrapS_id; rewrite smin_max; apply quot_range4; lia)).
        rewrite (cmp_int Ogt CGt) by reflexivity. rewrite truth_b2z. cbn [cmpZ]. f_equal.
        apply mul_case4; lia.
  Qed.
End Flags.

Section UFlags.
  Variable w : width.
  Variables env : list Z.
  Variables l1 l2 : cexpr.
  Variables a b : Z.
  Let ux := uw w a.
  Let uy := uw w b.
  Hypothesis H1 : ceval env l1 = Some (U w, ux).
  Hypothesis H2 : ceval env l2 = Some (U w, uy).

  Lemma umulo_u_sound :
    match ceval env (umulo_u w l1 l2) with
    | Some v => truth v = Some (negb (fits_u w (ux * uy)))
    | None => False
    end.
  Proof.
    pose proof (uw_bound w a) as Hx. pose proof (uw_bound w b) as Hy. fold ux in Hx. fold uy in Hy.
    assert (Hu : umax w = 2 ^ wbits w - 1) by reflexivity.
    assert (wux' : wrap_ty (wt false w) ux = ux) by (apply wrapU_id; lia).
    assert (wuy' : wrap_ty (wt false w) uy = uy) by (apply wrapU_id; lia).
    assert (w0' : wrap_ty (wt false w) 0 = 0) by (apply wrapU_id; lia).
    unfold umulo_u. cbn [ceval]. rewrite H1, H2. unfold U.
    rewrite ev_c0, ev_cumax.
    unfold fits_u.
    rewrite binop_int by (reflexivity || assumption).
    rewrite (cmp_int Oeq CEq) by reflexivity. rewrite truth_b2z. cbn [cmpZ].
    destruct (Z.eqb_spec ux 0) as [X0|X0].
    { cbn [truth is_int ty_int]. rewrite X0. f_equal.
      destruct (Z.leb_spec 0 (0 * uy)), (Z.leb_spec (0 * uy) (umax w)); cbn; try reflexivity; lia. }
    unfold U. rewrite binop_same by (reflexivity || assumption || (apply wrapU_id; lia)).
    cbn [int_binop]. replace (ux =? 0) with false by (symmetry; apply Z.eqb_neq; assumption).
    replace (ty_signed (wt false w)) with false by (destruct w; reflexivity). cbn [orb andb].
    assert (Hq : 0 <= Z.quot (umax w) ux <= umax w).
    { rewrite Z.quot_div_nonneg by lia. apply div_bound; lia. }
    rewrite wrapU_id by exact Hq.
    rewrite binop_same by (reflexivity || assumption || (apply wrapU_id; exact Hq)).
    rewrite (cmp_int Olt CLt) by reflexivity. rewrite truth_b2z. cbn [cmpZ]. f_equal.
    apply umul_case; lia.
    Unshelve. all: exact 0.
  Qed.
End UFlags.

(* ---- row level *)
Lemma opt_flag_of env f (bv : bool) :
  match ceval env f with Some v => truth v = Some bv | None => False end ->
  opt_flag env (Some f) = Some (Some bv).
Proof. unfold opt_flag. destruct (ceval env f) as [v|]; [|contradiction]. intros ->. reflexivity. Qed.

Lemma opt_eqb_some a f : opt_eqb a (Some f) = true -> a = Some f.
Proof. destruct a as [x|]; cbn; [|discriminate]. intros H. apply cexpr_eqb_eq in H. subst. reflexivity. Qed.
Lemma opt_eqb_none a : opt_eqb a None = true -> a = None.
Proof. destruct a; cbn; [discriminate | reflexivity]. Qed.

Theorem ovf_ok_sound op T e sf uf :
  ovf_ok op T e sf uf = true ->
  forall args r s u, doc_ovf op args = Some (r, s, u) ->
  exists r' fs fu, stmt_ovf (env_of args) (SOvf T e sf uf) = Some (r', fs, fu)
    /\ match ovf_class op with Some (_, w) => eq_low w r' r | None => False end
    /\ (fst (ovf_defined op) = true -> fs = Some s)
    /\ (snd (ovf_defined op) = true -> fu = Some u).
Proof.
  intros Hok args r s u Hd. unfold ovf_ok in Hok.
  destruct (ovf_leaves op T e) as [[[[[[[o w] bo] l1] l2] t1] t2]|] eqn:HL; [|discriminate].
  assert (Hv : ovf_value_ok op T e = true) by (unfold ovf_value_ok; rewrite HL; reflexivity).
  destruct (ovf_value_sound op T e Hv args r s u Hd) as (r' & Hsv & Hlow).
  unfold ovf_leaves in HL. unfold doc_ovf in Hd. unfold ovf_defined.
  destruct (ovf_class op) as [[o' w']|] eqn:Hc; [|discriminate].
  destruct (dst64 T) eqn:HT; [|discriminate].
  destruct e as [| | | |bo' e1 e2|]; try discriminate.
  destruct (leaf e1) as [[[|[|k]] t1']|] eqn:L1; try discriminate.
  destruct (leaf e2) as [[[|[|[|k]]] t2']|] eqn:L2; try discriminate.
  destruct (bin_ok (IC_bin (ibin_of_ovf o') w') bo' t1' t2') eqn:B; [|discriminate].
  inversion HL; subst o' w' bo' e1 e2 t1' t2'. clear HL.
  destruct args as [|a [|b [|? ?]]]; try discriminate. unfold ovf in Hd. inversion Hd; subst r s u. clear Hd.
  assert (Hw1 : has_width w t1 = true) by (cbn [bin_ok] in B; apply andb_prop in B; tauto).
  assert (t2 = t1).
  { cbn [bin_ok] in B. apply andb_prop in B. destruct B as [_ B].
    destruct o, bo; cbn in B; try discriminate; destruct t1, t2; cbn in B; congruence. }
  subst t2.
  pose proof (leaf_wt l1 1%nat t1 w (env_of [a; b]) a L1 Hw1 eq_refl) as E1.
  pose proof (leaf_wt l2 2%nat t1 w (env_of [a; b]) b L2 Hw1 eq_refl) as E2.
  cbn [stmt_value] in Hsv. cbn [stmt_ovf].
  destruct (ceval (env_of [a; b]) (EBin bo l1 l2)) as [av|] eqn:Ev; [|discriminate].
  rewrite Hsv.
  destruct o; cbn [flags_ok] in Hok; repeat (apply andb_prop in Hok; let H := fresh "Hf" in destruct Hok as [Hok H]).
  - (* OAdd *) rewrite Hok in E1, E2. cbn [rd] in E1, E2.
    apply opt_eqb_some in Hf0. apply opt_eqb_some in Hf. subst sf uf.
    rewrite (opt_flag_of _ _ _ (addo_s_sound w _ l1 l2 a b E1 E2)).
    rewrite (opt_flag_of _ _ _ (addo_u_sound w _ l1 l2 a b E1 E2)).
    eexists _, _, _. split; [reflexivity|]. split; [exact Hlow|]. split; intros _; reflexivity.
  - (* OSub *) rewrite Hok in E1, E2. cbn [rd] in E1, E2.
    apply opt_eqb_some in Hf0. apply opt_eqb_some in Hf. subst sf uf.
    rewrite (opt_flag_of _ _ _ (subo_s_sound w _ l1 l2 a b E1 E2)).
    rewrite (opt_flag_of _ _ _ (subo_u_sound w _ l1 l2 a b E1 E2)).
    eexists _, _, _. split; [reflexivity|]. split; [exact Hlow|]. split; intros _; reflexivity.
  - (* OMul *) rewrite Hok in E1, E2. cbn [rd] in E1, E2.
    apply opt_eqb_some in Hf0. apply opt_eqb_none in Hf. subst sf uf.
    rewrite (opt_flag_of _ _ _ (mulo_s_sound w _ l1 l2 a b E1 E2)). cbn [opt_flag].
    eexists _, _, _. split; [reflexivity|]. split; [exact Hlow|]. split; [intros _; reflexivity | discriminate].
  - (* OUMul *) apply negb_true_iff in Hok. rewrite Hok in E1, E2. cbn [rd] in E1, E2.
    apply opt_eqb_none in Hf0. apply opt_eqb_some in Hf. subst sf uf.
    rewrite (opt_flag_of _ _ _ (umulo_u_sound w _ l1 l2 a b E1 E2)). cbn [opt_flag].
    eexists _, _, _. split; [reflexivity|]. split; [exact Hlow|]. split; [discriminate | intros _; reflexivity].
Qed.

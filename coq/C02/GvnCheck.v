(* Recogniser for the regenerated GVN constant-fold table (coq/gen/GvnFoldTable.v) and its soundness:
   the constant the generator substitutes for an instruction with constant operands (or the branch
   decision it takes at compile time) is the documented result, for ALL operand values. *)
From Coq Require Import ZArith Lia Bool List String.
From MirV Require Import Mir.DocSpec Mir.CExpr C02.WFacts C02.RowCheck C02.RowProofs C02.IntRows C02.FloatRows
  C02.OvfRows C02.OvfFlags C02.Table.
Import ListNotations.
Local Open Scope Z_scope.

Definition gvn_row_ok (op : opcode) (s : cstmt) : bool :=
  match ovf_class op with
  | Some (o, w) => match s with
                   | SAssign T e => int_value_ok (IC_bin (ibin_of_ovf o) w) T e
                   | _ => false
                   end
  | None => row_ok op s
  end.

(* overflow instructions: the folded value is the documented result (the flags are not folded) *)
Definition gvn_ovf_value_sound (op : opcode) (s : cstmt) : Prop :=
  forall args r sf uf, doc_ovf op args = Some (r, sf, uf) ->
    exists r', stmt_value (env_of args) s = Some r' /\ eqv op r' r = true.

Definition gvn_row_sound (op : opcode) (s : cstmt) : Prop :=
  match ovf_class op with
  | Some _ => gvn_ovf_value_sound op s
  | None => row_sound op s
  end.

Lemma bin_row_value io w T e a b d :
  int_value_ok (IC_bin io w) T e = true -> ibin io w a b = Some d ->
  exists r, stmt_value (env_of [a; b]) (SAssign T e) = Some r /\ eq_low w r d.
Proof.
  intros Hok Hd. unfold int_value_ok in Hok. apply andb_prop in Hok. destruct Hok as [HT Hok].
  destruct e as [| | | |o e1 e2|]; try discriminate.
  destruct (leaf e1) as [[[|[|k]] t1]|] eqn:L1; try discriminate.
  destruct (leaf e2) as [[[|[|[|k]]] t2]|] eqn:L2; try discriminate.
  assert (H1 : has_width w t1 = true) by (cbn [bin_ok] in Hok; apply andb_prop in Hok; tauto).
  assert (H2 : has_width w t2 = true).
  { cbn [bin_ok] in Hok. apply andb_prop in Hok. destruct Hok as [_ Hok].
    destruct io, o; try discriminate; try (apply andb_prop in Hok; destruct Hok as [Hq Hr]);
      try assumption;
      try (assert (t2 = t1) by (destruct t1, t2; cbn in Hq; congruence); subst; assumption);
      try (assert (t2 = t1) by (destruct t1, t2; cbn in Hok; congruence); subst; assumption). }
  cbn [stmt_value ceval].
  rewrite (leaf_wt e1 1%nat t1 w (env_of [a; b]) a L1 H1 eq_refl).
  rewrite (leaf_wt e2 2%nat t2 w (env_of [a; b]) b L2 H2 eq_refl).
  rewrite (wty_wt t1 w H1), (wty_wt t2 w H2) in Hok.
  destruct (bin_core (IC_bin io w) o _ _ w a b d Hok (conj eq_refl Hd)) as (v & t & Hb & Hi & Hl).
  rewrite Hb. rewrite assign_dst64 by assumption. eexists. split; [reflexivity | exact Hl].
Qed.

Theorem gvn_row_ok_sound op s : gvn_row_ok op s = true -> gvn_row_sound op s.
Proof.
  unfold gvn_row_ok, gvn_row_sound. destruct (ovf_class op) as [[o w]|] eqn:Hc.
  - destruct s as [T e| | | | | | |]; try discriminate. intros Hok args r sf uf Hd.
    unfold doc_ovf in Hd. rewrite Hc in Hd. destruct args as [|a [|b [|? ?]]]; try discriminate.
    unfold ovf in Hd. inversion Hd; subst r sf uf.
    destruct (bin_row_value _ _ _ _ a b _ Hok (exact_op_ibin o w a b)) as (r' & Hv & Hl).
    exists r'. split; [exact Hv|]. apply (eqv_ovf op o w); assumption.
  - apply row_ok_sound.
Qed.

Definition gvn_table_ok (tbl : list (opcode * option cexpr * cstmt)) : bool :=
  forallb (fun r => gvn_row_ok (fst (fst r)) (snd r)) tbl.

Theorem gvn_table_ok_sound tbl : gvn_table_ok tbl = true ->
  forall op g s, In (op, g, s) tbl -> gvn_row_sound op s.
Proof.
  intros H op g s Hin. unfold gvn_table_ok in H. rewrite forallb_forall in H.
  specialize (H (op, g, s) Hin). cbn [fst snd] in H. apply gvn_row_ok_sound. exact H.
Qed.

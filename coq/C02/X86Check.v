(* X86Check: what a pattern row of mir-gen-x86_64.c must establish (row_sound_x86) and the executable
   recognisers deciding, from the decoded template, that a row implements the documented class of its
   opcode.  Definitions only; soundness of the recognisers is in X86Proofs.v. *)
From Coq Require Import ZArith List Bool String.
From MirV Require Import Base.W64 Mir.Opcode Mir.DocSpecInt C02.X86Sem.
Import ListNotations.
Local Open Scope Z_scope.

Definition wsz (w : width) : osz := match w with W32 => O32 | W64 => O64 end.

(* ------------------------------------------------------------------ statements *)
(* low [bits] bits of operand 0 hold d after the row *)
Definition value_at (ops : list oval) (st' : xst) (bits : Z) (d : Z) : Prop :=
  match opnd ops 0 with
  | OReg r => uwrap bits (regs st' r) = uwrap bits d
  | OMem _ k => uwrap (mem_bits k) (memc st') = uwrap (mem_bits k) d
  | _ => False
  end.

(* nothing else changes: registers other than operand 0 and [also]; the memory cell unless it is operand
   0, and then only its low 2^k bytes *)
Definition frame (ops : list oval) (st st' : xst) (also : list nat) : Prop :=
  (forall r, opnd ops 0 <> OReg r -> ~ In r also -> regs st' r = regs st r)
  /\ match opnd ops 0 with
     | OMem _ k => uwrap 64 (memc st') / 2 ^ mem_bits k = uwrap 64 (memc st) / 2 ^ mem_bits k
     | _ => memc st' = memc st
     end.

Definition unchanged (st st' : xst) : Prop := (forall r, regs st' r = regs st r) /\ memc st' = memc st.

Definition args_of (st : xst) (ops : list oval) : list Z := map (mir_val st) (tl ops).

(* inputs of an early-clobber opcode are not in DX *)
Definition early_ok (early : list opcode) (code : opcode) (ops : list oval) : Prop :=
  existsb (opcode_eqb code) early = true -> forall k, (1 <= k)%nat -> opnd ops k <> OReg RDX.

Inductive xclass :=
| XCvalue (bits : Z) (also : list nat)     (* value insn: defined result bits, extra clobbered registers *)
| XCbranch
| XCovfbranch
| XCovf (bits : Z) (also : list nat).

(* what the row establishes for one realisation of the operands and one machine state *)
Definition row_sound_at (cls : xclass) (row : xrow) (ops : list oval) (st : xst) : Prop :=
  let '(code, pat, tmpl) := row in
  exists insns, decode tmpl = Some insns /\
  match cls with
  | XCvalue bits also =>
      forall d, doc_sem_int code (args_of st ops) = Some d ->
      exists st', xrun ops st insns = Some (st', None) /\ value_at ops st' bits d /\ frame ops st st' also
  | XCbranch =>
      forall b, doc_branch_int code (args_of st ops) = Some b ->
      exists st', xrun ops st insns = Some (st', Some b) /\ unchanged st st'
  | XCovfbranch =>
      forall b, doc_ovf_branch code (fOF st) (fCF st) = Some b ->
      exists st', xrun ops st insns = Some (st', Some b) /\ unchanged st st'
  | XCovf bits also =>
      forall d sf uf, doc_ovf code (args_of st ops) = Some (d, sf, uf) ->
      exists st', xrun ops st insns = Some (st', None) /\ value_at ops st' bits d /\ frame ops st st' also
        /\ (fst (ovf_defined code) = true -> fOF st' = sf) /\ (snd (ovf_defined code) = true -> fCF st' = uf)
  end.

Definition row_sound_x86 (early : list opcode) (cls : xclass) (row : xrow) : Prop :=
  let '(code, pat, _) := row in
  forall ops st, pat_match [] pat ops = true -> early_ok early code ops -> row_sound_at cls row ops st.

(* the row the generator uses for an instruction: the FIRST row of its opcode, in table order, whose
   operand pattern matches (find_insn_pattern) *)
Definition row_matches (code : opcode) (ops : list oval) (row : xrow) : bool :=
  let '(c, p, _) := row in opcode_eqb c code && pat_match [] p ops.

Definition x86_select (tbl : list xrow) (code : opcode) (ops : list oval) : option xrow :=
  find (row_matches code ops) tbl.

(* ------------------------------------------------------------------ recognisers *)
Definition osz_eqb (a b : osz) : bool := obits a =? obits b.

Definition is_regp (p : pel) : bool := match p with PR | PH _ => true | _ => false end.

(* pattern element p (operand k) can be read as x86 source s at width w, giving the low w bits of the MIR value *)
Definition src_ok (w : osz) (p : pel) (k : nat) (s : xsrc) : bool :=
  match s with
  | XL (LOp k') =>
      Nat.eqb k k' && match p with
                      | PR | PH _ => true
                      | PM _ kk => (obits w <=? mem_bits kk) && Nat.leb kk 3
                      | _ => false
                      end
  | XImm k' bits =>
      Nat.eqb k k' && match p with
                      | PI kk => (8 * 2 ^ Z.of_nat kk <=? bits) && (bits <=? 64) && (0 <? bits)
                      | _ => false
                      end
  | XLit _ => false
  end.

(* pattern element p (operand 0) can be written at width w with exactly the MIR store semantics *)
Definition dst_ok (w : osz) (p : pel) : bool :=
  match p with
  | PR | PH _ => (obits w =? 64) || (obits w =? 32)
  | PM _ kk => (obits w =? mem_bits kk) && Nat.leb kk 3
  | _ => false
  end.

Definition not_both_mem (p q : pel) : bool :=
  match p, q with PM _ _, PM _ _ => false | _, _ => true end.

Definition aluop_of (io : ibinop) : option aluop :=
  match io with IAdd => Some AAdd | ISub => Some ASub | IAnd => Some AAnd | IOr => Some AOr | IXor => Some AXor | _ => None end.
Definition aluop_eqb (a b : aluop) : bool :=
  match a, b with
  | AAdd, AAdd | AOr, AOr | AAnd, AAnd | ASub, ASub | AXor, AXor | ACmp, ACmp | ATest, ATest => true
  | _, _ => false
  end.

(* op0 = op0 o op2 :  pattern [d; same 0; s] , one ALU instruction *)
Definition alu_row_ok (o : aluop) (w : width) (pat : list pel) (insns : list xinsn) : bool :=
  match pat, insns with
  | [d; PSame 0; s], [XAlu o' w' (LOp 0) src] =>
      aluop_eqb o o' && osz_eqb w' (wsz w) && dst_ok w' d && src_ok w' s 2 src && not_both_mem d s
  | _, _ => false
  end.

(* add through lea:  [r; r; r | i2]  lea r0, [r1 + op2] *)
Definition lea_add_ok (w : width) (pat : list pel) (insns : list xinsn) : bool :=
  match pat, insns with
  | [PR; PR; PR], [XLea w' 0 1 2 false] | [PR; PR; PI 2], [XLea w' 0 1 2 false]
  | [PR; PR; PI 0], [XLea w' 0 1 2 false] | [PR; PR; PI 1], [XLea w' 0 1 2 false] => osz_eqb w' (wsz w)
  | _, _ => false
  end.

Definition cc_eqb (a b : cc) : bool :=
  match a, b with
  | Co, Co | Cno, Cno | Cb, Cb | Cae, Cae | Ce, Ce | Cne, Cne | Cbe, Cbe | Ca, Ca | Cl, Cl | Cge, Cge | Cle, Cle | Cg, Cg => true
  | _, _ => false
  end.

(* condition code computing comparison c (signed?) after cmp a, b *)
Definition cc_for (c : icmp) (sg : bool) : cc :=
  match c, sg with
  | CEq, _ => Ce | CNe, _ => Cne
  | CLt, true => Cl | CLt, false => Cb
  | CLe, true => Cle | CLe, false => Cbe
  | CGt, true => Cg | CGt, false => Ca
  | CGe, true => Cge | CGe, false => Cae
  end.

Definition cmp_pair_ok (w' : osz) (w : width) (a b : pel) (src : xsrc) : bool :=
  osz_eqb w' (wsz w) && src_ok w' a 1 (XL (LOp 1)) && src_ok w' b 2 src && not_both_mem a b.

(* r0 = op1 cmp op2 :  cmp op1, op2 ; setcc r0 *)
Definition cmp_row_ok (c : icmp) (sg : bool) (w : width) (pat : list pel) (insns : list xinsn) : bool :=
  match pat, insns with
  | [PR; a; b], [XAlu ACmp w' (LOp 1) src; XSetcc cc0 0] =>
      cmp_pair_ok w' w a b src && cc_eqb cc0 (cc_for c (sg || match c with CEq | CNe => true | _ => false end))
  | _, _ => false
  end.

Definition bcmp_row_ok (c : icmp) (sg : bool) (w : width) (pat : list pel) (insns : list xinsn) : bool :=
  match pat, insns with
  | [PLab _; a; b], [XAlu ACmp w' (LOp 1) src; XJcc cc0] =>
      cmp_pair_ok w' w a b src && cc_eqb cc0 (cc_for c (sg || match c with CEq | CNe => true | _ => false end))
  | _, _ => false
  end.

(* bt / bf : test r, r | cmp m, 0 ; jne / je *)
Definition btf_row_ok (taken_if_nonzero : bool) (w : width) (pat : list pel) (insns : list xinsn) : bool :=
  match pat, insns with
  | [PLab _; a], [XAlu ATest w' (LOp 1) (XL (LOp 1)); XJcc cc0] =>
      is_regp a && osz_eqb w' (wsz w) && cc_eqb cc0 (if taken_if_nonzero then Cne else Ce)
  | [PLab _; PM _ kk], [XAlu ACmp w' (LOp 1) (XLit 0); XJcc cc0] =>
      (obits w' =? Z.min (mem_bits kk) (wbits w)) && Nat.leb kk 3 && cc_eqb cc0 (if taken_if_nonzero then Cne else Ce)
  | _, _ => false
  end.

Definition ovfbr_row_ok (op : opcode) (pat : list pel) (insns : list xinsn) : bool :=
  match pat, insns with
  | [PLab _], [XJcc c] =>
      match op with
      | BO => cc_eqb c Co | BNO => cc_eqb c Cno | UBO => cc_eqb c Cb | UBNO => cc_eqb c Cae | _ => false
      end
  | _, _ => false
  end.

Definition jmp_row_ok (pat : list pel) (insns : list xinsn) : bool :=
  match pat, insns with [PLab _], [XJmp] => true | _, _ => false end.

(* ---- moves and extensions: op0 = ext (op1) *)
(* source of a full 64-bit value *)
Definition mov_row_ok (pat : list pel) (insns : list xinsn) : bool :=
  match pat, insns with
  | [PR; PZ], [XAlu AXor O32 (LOp 0) (XL (LOp 0))] => true
  | [d; s], [XMov w (LOp 0) src] =>
      match d with
      | PR | PH _ =>
          (* register destination: the whole (extended) value must arrive *)
          match s with
          | PM (Some false) kk => (obits w =? mem_bits kk) && (obits w =? 32) && src_ok w s 1 src   (* mov r32, m32 zero-extends *)
          | PM _ kk => (obits w =? 64) && (mem_bits kk =? 64) && src_ok w s 1 src
          | _ => (obits w =? 64) && src_ok w s 1 src
          end
      | PM _ kk => (obits w =? mem_bits kk) && Nat.leb kk 3 && src_ok w s 1 src && is_regp s
                   || (obits w =? mem_bits kk) && Nat.leb kk 3 && match s with PI _ => src_ok w s 1 src | _ => false end
      | _ => false
      end
  | [PR; PM (Some sg) kk], [XMovx sg' ws wd 0 (LOp 1)] =>
      Bool.eqb sg sg' && (obits ws =? mem_bits kk) && Nat.leb kk 3 && ((obits wd =? 64) || (negb sg && (obits wd =? 32)))
      && (obits ws <? obits wd)
  | _, _ => false
  end.

(* ext8.. / uext8.. : source register or memory of the extension width *)
Definition ext_row_ok (sg : bool) (n : Z) (pat : list pel) (insns : list xinsn) : bool :=
  match pat, insns with
  | [PR; s], [XMovx sg' ws wd 0 (LOp 1)] =>
      Bool.eqb sg sg' && (obits ws =? n) && ((obits wd =? 64) || (negb sg && (obits wd =? 32))) && (n <? obits wd)
      && match s with PR | PH _ => true | PM _ kk => (mem_bits kk =? n) && Nat.leb kk 3 | _ => false end
  | [PR; s], [XMov O32 (LOp 0) (XL (LOp 1))] =>
      negb sg && (n =? 32) && match s with PR | PH _ => true | PM _ kk => (mem_bits kk =? 32) | _ => false end
  | _, _ => false
  end.

Definition neg_row_ok (w : width) (pat : list pel) (insns : list xinsn) : bool :=
  match pat, insns with
  | [d; PSame 0], [XNeg w' (LOp 1)] => osz_eqb w' (wsz w) && dst_ok w' d
  | _, _ => false
  end.

Definition shop_of (io : ibinop) : option shop :=
  match io with ILsh => Some SShl | IRsh => Some SSar | IURsh => Some SShr | _ => None end.
Definition shop_eqb (a b : shop) : bool :=
  match a, b with SShl, SShl | SShr, SShr | SSar, SSar => true | _, _ => false end.

Definition shift_row_ok (o : shop) (w : width) (pat : list pel) (insns : list xinsn) : bool :=
  match pat, insns with
  | [d; PSame 0; PH 1], [XShift o' w' (LOp 0) None] => shop_eqb o o' && osz_eqb w' (wsz w) && dst_ok w' d
  | [d; PSame 0; PI 0], [XShift o' w' (LOp 0) (Some (XImm 2 8))] => shop_eqb o o' && osz_eqb w' (wsz w) && dst_ok w' d
  | _, _ => false
  end.

Definition mul2_row_ok (w : width) (pat : list pel) (insns : list xinsn) : bool :=
  match pat, insns with
  | [PR; PSame 0; s], [XImul2 w' 0 (LOp 2)] => osz_eqb w' (wsz w) && src_ok w' s 2 (XL (LOp 2))
  | _, _ => false
  end.

Definition mul3_row_ok (w : width) (pat : list pel) (insns : list xinsn) : bool :=
  match pat, insns with
  | [PR; s; PI kk], [XImul3 w' 0 (LOp 1) (XImm 2 bits)] =>
      osz_eqb w' (wsz w) && src_ok w' s 1 (XL (LOp 1)) && src_ok w' (PI kk) 2 (XImm 2 bits)
  | _, _ => false
  end.

Definition mul_row_ok (w : width) (pat : list pel) (insns : list xinsn) : bool :=
  mul2_row_ok w pat insns || mul3_row_ok w pat insns.

Definition umul_row_ok (w : width) (pat : list pel) (insns : list xinsn) : bool :=
  match pat, insns with
  | [PH 0; PSame 0; s], [XMul w' (LOp 2)] => osz_eqb w' (wsz w) && src_ok w' s 2 (XL (LOp 2))
  | _, _ => false
  end.

(* div / mod : dividend and quotient in AX, remainder in DX *)
Definition div_row_ok (sg : bool) (rem : bool) (w : width) (pat : list pel) (insns : list xinsn) : bool :=
  match pat, insns with
  | [PH r0; PH 0; s], [pre; dv] =>
      Nat.eqb r0 (if rem then RDX else RAX) && src_ok (wsz w) s 2 (XL (LOp 2))
      && match sg, pre, dv with
         | true, XCqo w1, XIdiv w2 (LOp 2) => osz_eqb w1 (wsz w) && osz_eqb w2 (wsz w)
         | false, XZeroDx, XDiv w2 (LOp 2) => osz_eqb w2 (wsz w)
         | _, _, _ => false
         end
  | _, _ => false
  end.

Definition in_list (op : opcode) (l : list opcode) : bool := existsb (opcode_eqb op) l.

(* the class of an opcode's rows *)
Definition xclass_of (op : opcode) : option xclass :=
  match int_class op, ovf_class op, int_branch_class op with
  | IC_mov, _, _ | IC_ext _ _, _, _ => Some (XCvalue 64 [])
  | IC_neg w, _, _ => Some (XCvalue (wbits w) [])
  | IC_bin io w, _, _ =>
      match io with
      | IDiv | IMod | IUDiv | IUMod => Some (XCvalue (wbits w) [RAX; RDX])
      | _ => Some (XCvalue (wbits w) [])
      end
  | IC_cmp _ _ _, _, _ => Some (XCvalue 8 [])
  | _, Some (OUMul, w), _ => Some (XCovf (wbits w) [RAX; RDX])
  | _, Some (_, w), _ => Some (XCovf (wbits w) [])
  | _, _, IB_none => match op with BO | BNO | UBO | UBNO => Some XCovfbranch | _ => None end
  | _, _, _ => Some XCbranch
  end.

Definition xrow_ok (early : list opcode) (uext8 : list opcode) (row : xrow) : bool :=
  let '(code, pat, tmpl) := row in
  match decode tmpl with
  | None => false
  | Some insns =>
      match int_class code, ovf_class code, int_branch_class code with
      | IC_mov, _, _ => mov_row_ok pat insns
      | IC_ext sg n, _, _ => ext_row_ok sg n pat insns
      | IC_neg w, _, _ => neg_row_ok w pat insns
      | IC_bin io w, _, _ =>
          match aluop_of io, shop_of io with
          | Some o, _ => alu_row_ok o w pat insns || match io with IAdd => lea_add_ok w pat insns | _ => false end
          | _, Some o => shift_row_ok o w pat insns
          | None, None =>
              match io with
              | IMul => mul_row_ok w pat insns
              | IDiv => div_row_ok true false w pat insns && in_list code early
              | IMod => div_row_ok true true w pat insns && in_list code early
              | IUDiv => div_row_ok false false w pat insns && in_list code early
              | IUMod => div_row_ok false true w pat insns && in_list code early
              | _ => false
              end
          end
      | IC_cmp c sg w, _, _ => cmp_row_ok c sg w pat insns && in_list code uext8
      | _, Some (o, w), _ =>
          match o with
          | OAdd => alu_row_ok AAdd w pat insns
          | OSub => alu_row_ok ASub w pat insns
          | OMul => mul_row_ok w pat insns
          | OUMul => umul_row_ok w pat insns
          end
      | _, _, IB_jmp => jmp_row_ok pat insns
      | _, _, IB_true w => btf_row_ok true w pat insns
      | _, _, IB_false w => btf_row_ok false w pat insns
      | _, _, IB_cmp c sg w => bcmp_row_ok c sg w pat insns
      | _, _, IB_none => ovfbr_row_ok code pat insns
      end
  end.

(* ---- shadowing: a row that can never be selected because an earlier row of the same opcode matches
   whenever it does (find_insn_pattern takes the first match in table order) *)
Definition pel_subsumes (gen spec : pel) : bool :=      (* every operand matching spec matches gen *)
  match gen, spec with
  | PR, PR | PR, PH _ => true
  | PH a, PH b => Nat.eqb a b
  | PI a, PI b => Nat.leb b a
  | PI a, PZ => true
  | PI a, PS => true
  | PI a, PC z => match a with 0%nat => int_fits 8 z | 1%nat => int_fits 16 z | 2%nat => int_fits 32 z | _ => true end
  | PS, PS | PZ, PZ => true
  | PC a, PC b => a =? b
  | PM None a, PM _ b => Nat.eqb a b
  | PM (Some s) a, PM (Some s') b => Bool.eqb s s' && Nat.eqb a b
  | PLab false, PLab _ => true
  | PLab true, PLab true => true
  | PSame a, PSame b => Nat.eqb a b
  | _, _ => false
  end.

Fixpoint pat_subsumes (g s : list pel) : bool :=
  match g, s with
  | [], [] => true
  | a :: g', b :: s' => pel_subsumes a b && pat_subsumes g' s'
  | _, _ => false
  end.

Fixpoint table_ok_from (early uext8 : list opcode) (seen : list xrow) (rest : list xrow) (scope : opcode -> bool) : bool :=
  match rest with
  | [] => true
  | row :: r =>
      let '(code, pat, _) := row in
      (negb (scope code)
       || xrow_ok early uext8 row
       || existsb (fun e : xrow => let '(c', p', _) := e in opcode_eqb c' code && pat_subsumes p' pat) seen)
      && table_ok_from early uext8 (seen ++ [row]) r scope
  end.

Definition x86_scope (op : opcode) : bool :=
  match xclass_of op with Some _ => true | None => false end.

Definition x86_table_ok (early uext8 : list opcode) (tbl : list xrow) : bool :=
  table_ok_from early uext8 [] tbl x86_scope.

(* the rows x86_table_ok rejects (for the search of a failing input when the table theorem breaks) *)
Fixpoint bad_rows_from (early uext8 : list opcode) (seen : list xrow) (rest : list xrow) (scope : opcode -> bool) : list xrow :=
  match rest with
  | [] => []
  | row :: r =>
      let '(code, pat, _) := row in
      (if negb (scope code)
          || xrow_ok early uext8 row
          || existsb (fun e : xrow => let '(c', p', _) := e in opcode_eqb c' code && pat_subsumes p' pat) seen
       then [] else [row])
      ++ bad_rows_from early uext8 (seen ++ [row]) r scope
  end.

Definition x86_bad_rows (early uext8 : list opcode) (tbl : list xrow) : list xrow :=
  bad_rows_from early uext8 [] tbl x86_scope.

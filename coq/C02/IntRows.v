(* Integer value rows and integer branch rows: recogniser accepted -> documented result, for all operands. *)
From Coq Require Import ZArith Lia Bool List String.
From MirV Require Import Mir.DocSpec Mir.CExpr C02.WFacts C02.RowCheck C02.RowProofs.
Import ListNotations.
Local Open Scope Z_scope.

Arguments uwrap : simpl never.
Arguments swrap : simpl never.
Arguments Z.pow : simpl never.
Arguments Z.mul : simpl never.
Arguments Z.add : simpl never.
Arguments Z.sub : simpl never.
Arguments Z.opp : simpl never.
Arguments Z.div : simpl never.
Arguments Z.modulo : simpl never.
Arguments Z.quot : simpl never.
Arguments Z.rem : simpl never.
Arguments Z.land : simpl never.
Arguments Z.lor : simpl never.
Arguments Z.lxor : simpl never.
Arguments Z.eqb : simpl never.
Arguments Z.ltb : simpl never.
Arguments Z.leb : simpl never.

Definition int_row_sound_def (op : opcode) (s : cstmt) : Prop :=
  forall args d, doc_sem_int op args = Some d ->
    exists r, stmt_value (env_of args) s = Some r /\
      match int_res_width op with Some w => eq_low w r d | None => False end.

(* ---- the arithmetic core: what C computes on two leaves of a 32/64-bit type vs. the documentation *)

Definition wt (sg : bool) (w : width) : cty :=
  match sg, w with
  | true, W32 => CI32 | false, W32 => CU32 | true, W64 => CI64 | false, W64 => CU64
  end.

Lemma wty_wt t w : has_width w t = true -> t = wt (ty_signed t) w.
Proof. destruct t, w; cbn; intros; try discriminate; reflexivity. Qed.

Lemma wrap_wt sg w z : wrap_ty (wt sg w) z = if sg then sw w z else uw w z.
Proof. destruct sg, w; reflexivity. Qed.

Lemma wt_props sg w : is_int (wt sg w) = true /\ ty_bits (wt sg w) = wbits w /\ ty_signed (wt sg w) = sg
  /\ promote (wt sg w) = wt sg w /\ arith_conv (wt sg w) (wt sg w) = wt sg w
  /\ ty_min (wt sg w) = (if sg then smin w else 0).
Proof. destruct sg, w; cbn; repeat split; reflexivity. Qed.

Lemma wbits_pos w : 0 < wbits w. Proof. destruct w; cbn; lia. Qed.
Lemma wbits_le64 w : wbits w <= 64. Proof. destruct w; cbn; lia. Qed.

Lemma sw_bound w z : smin w <= sw w z <= smax w.
Proof. unfold sw, smin, smax. pose proof (swrap_bound (wbits w) z (wbits_pos w)). lia. Qed.
Lemma uw_bound w z : 0 <= uw w z < 2 ^ wbits w.
Proof. unfold uw. apply uwrap_bound. pose proof (wbits_pos w). lia. Qed.

(* value of type (sg,w) read from pattern a *)
Definition rd (sg : bool) (w : width) (a : Z) : Z := if sg then sw w a else uw w a.

Lemma rd_eqm sg w a : eqm (wbits w) (rd sg w a) a.
Proof.
  pose proof (wbits_pos w). unfold rd, sw, uw. destruct sg; [apply eqm_swrap | apply eqm_uwrap]; lia.
Qed.

Lemma wrap_rd_idem sg w a : wrap_ty (wt sg w) (rd sg w a) = rd sg w a.
Proof.
  rewrite wrap_wt. unfold rd, sw, uw. pose proof (wbits_pos w). destruct sg.
  - apply swrap_id; [lia|]. apply swrap_range; lia.
  - apply uwrap_idem; lia.
Qed.

Lemma eq_low_of_eqm w r d : eqm (wbits w) r d -> eq_low w r d.
Proof. intros. exact H. Qed.

Ltac wb w := pose proof (wbits_pos w); pose proof (wbits_le64 w).

(* result pattern = u64 of the C value v (which is the wrap at type (sg,w) of x) *)
Lemma low_u64_wrap sg w x y : eqm (wbits w) x y -> eq_low w (uwrap 64 (wrap_ty (wt sg w) x)) (uw w y).
Proof.
  intros E. wb w. apply eq_low_of_eqm. rewrite wrap_wt. unfold sw, uw.
  destruct sg; eqm_auto; exact E.
Qed.

Lemma low_u64 w x y : eqm (wbits w) x y -> eq_low w (uwrap 64 x) (uw w y).
Proof. intros E. wb w. apply eq_low_of_eqm. unfold uw. eqm_auto. exact E. Qed.

Lemma low_u64_exact w x : 0 <= x < 2 ^ wbits w -> eq_low w (uwrap 64 x) x.
Proof.
  intros Hx. wb w. unfold eq_low. f_equal. apply uwrap_small.
  assert (2 ^ wbits w <= 2 ^ 64) by (apply Z.pow_le_mono_r; lia). lia.
Qed.

Lemma shift_count sg w b : uw w b < wbits w -> rd sg w b = uw w b.
Proof.
  intros H. unfold rd. destruct sg; [|reflexivity]. unfold sw, uw in *. wb w.
  apply swrap_eq_uwrap_small; [lia|].
  assert (wbits w <= 2 ^ (wbits w - 1)) by (destruct w; cbn; lia). lia.
Qed.

Lemma signed_cond w x y :
  ((y =? 0) || (true && (x =? smin w) && (y =? -1))) = ((y =? 0) || ((x =? smin w) && (y =? -1))).
Proof. reflexivity. Qed.

Lemma b2z_u64 b : uwrap 64 (b2z b) = b2z b.
Proof. destruct b; reflexivity. Qed.

Lemma cmp_sign_agnostic w a b : (sw w a =? sw w b) = (uw w a =? uw w b).
Proof.
  wb w. unfold sw, uw. destruct (Z.eqb_spec (swrap (wbits w) a) (swrap (wbits w) b)) as [E|E];
  destruct (Z.eqb_spec (uwrap (wbits w) a) (uwrap (wbits w) b)) as [E'|E']; try reflexivity; exfalso.
  - apply E'. apply swrap_inj_uwrap in E; [assumption | lia].
  - apply E. apply swrap_inj_uwrap; [lia | assumption].
Qed.

Lemma bin_core c o sg1 sg2 w a b d :
  bin_ok c o (wt sg1 w) (wt sg2 w) = true ->
  match c with
  | IC_bin io w' => w' = w /\ ibin io w a b = Some d
  | IC_cmp cc sg w' => w' = w /\ d = b2z (icompare cc sg w a b)
  | _ => False
  end ->
  exists v t, binop o (wt sg1 w, rd sg1 w a) (wt sg2 w, rd sg2 w b) = Some (t, v) /\ is_int t = true /\
              eq_low w (uwrap 64 v) d.
Proof.
  intros Hok Hc. wb w.
  destruct (wt_props sg1 w) as (Hi1 & Hb1 & Hs1 & Hp1 & Ha1 & Hm1).
  destruct (wt_props sg2 w) as (Hi2 & Hb2 & Hs2 & Hp2 & Ha2 & Hm2).
  unfold binop. rewrite Hi1, Hi2. cbn [andb].
  destruct c as [| | |io w'|cc sg w'|]; try contradiction.
  - (* IC_bin *)
    destruct Hc as [-> Hd]. cbn [bin_ok] in Hok. apply andb_prop in Hok. destruct Hok as [_ Hok].
    destruct io, o; try discriminate; cbn [is_shift];
      try (apply andb_prop in Hok; destruct Hok as [Ht Hsg]);
      try (assert (sg2 = sg1) by (destruct sg1, sg2, w; cbn in *; congruence); subst sg2);
      rewrite ?Hp1, ?Ha1, ?wrap_rd_idem; cbn [int_binop ibin] in *.
    + (* add *) inversion Hd; subst. eexists _, _. split; [reflexivity|]. split; [assumption|].
      apply low_u64_wrap. apply eqm_add; try lia; apply rd_eqm.
    + (* sub *) inversion Hd; subst. eexists _, _. split; [reflexivity|]. split; [assumption|].
      apply low_u64_wrap. apply eqm_sub; try lia; apply rd_eqm.
    + (* mul *) inversion Hd; subst. eexists _, _. split; [reflexivity|]. split; [assumption|].
      apply low_u64_wrap. apply eqm_mul; try lia; apply rd_eqm.
    + (* div signed *)
      rewrite Hs1 in Hsg. subst sg1. rewrite Hs1, Hm1. cbn [rd]. rewrite signed_cond.
      destruct ((sw w b =? 0) || ((sw w a =? smin w) && (sw w b =? -1))); [discriminate|].
      inversion Hd; subst. eexists _, _. split; [reflexivity|]. split; [assumption|].
      apply low_u64_wrap. apply eqm_refl.
    + (* mod signed *)
      rewrite Hs1 in Hsg. subst sg1. rewrite Hs1, Hm1. cbn [rd]. rewrite signed_cond.
      destruct ((sw w b =? 0) || ((sw w a =? smin w) && (sw w b =? -1))); [discriminate|].
      inversion Hd; subst. eexists _, _. split; [reflexivity|]. split; [assumption|].
      apply low_u64_wrap. apply eqm_refl.
    + (* udiv *)
      rewrite Hs1 in Hsg. destruct sg1; [discriminate|]. rewrite Hs1. cbn [rd andb]. rewrite orb_false_r.
      destruct (Z.eqb_spec (uw w b) 0); [discriminate|]. inversion Hd; subst.
      pose proof (uw_bound w a). pose proof (uw_bound w b).
      eexists _, _. split; [reflexivity|]. split; [assumption|].
      rewrite Z.quot_div_nonneg by lia.
      assert (Hq : 0 <= uw w a / uw w b < 2 ^ wbits w) by (apply udiv_small; lia).
      replace (wrap_ty (wt false w) (uw w a / uw w b)) with (uw w a / uw w b)
        by (rewrite wrap_wt; unfold uw at 3; symmetry; apply uwrap_small; exact Hq).
      apply low_u64_exact. exact Hq.
    + (* umod *)
      rewrite Hs1 in Hsg. destruct sg1; [discriminate|]. rewrite Hs1. cbn [rd andb]. rewrite orb_false_r.
      destruct (Z.eqb_spec (uw w b) 0); [discriminate|]. inversion Hd; subst.
      pose proof (uw_bound w a). pose proof (uw_bound w b).
      eexists _, _. split; [reflexivity|]. split; [assumption|].
      rewrite Z.rem_mod_nonneg by lia.
      pose proof (Z.mod_pos_bound (uw w a) (uw w b) ltac:(lia)).
      assert (Hq : 0 <= uw w a mod uw w b < 2 ^ wbits w) by lia.
      replace (wrap_ty (wt false w) (uw w a mod uw w b)) with (uw w a mod uw w b)
        by (rewrite wrap_wt; unfold uw at 3; symmetry; apply uwrap_small; exact Hq).
      apply low_u64_exact. exact Hq.
    + (* and *) inversion Hd; subst. eexists _, _. split; [reflexivity|]. split; [assumption|].
      assert (E : Z.land (uw w a) (uw w b) = uw w (Z.land (rd sg1 w a) (rd sg1 w b))).
      { unfold uw. rewrite uwrap_land by lia. f_equal; symmetry; apply rd_eqm. }
      rewrite E. apply low_u64_wrap. apply eqm_refl.
    + (* or *) inversion Hd; subst. eexists _, _. split; [reflexivity|]. split; [assumption|].
      assert (E : Z.lor (uw w a) (uw w b) = uw w (Z.lor (rd sg1 w a) (rd sg1 w b))).
      { unfold uw. rewrite uwrap_lor by lia. f_equal; symmetry; apply rd_eqm. }
      rewrite E. apply low_u64_wrap. apply eqm_refl.
    + (* xor *) inversion Hd; subst. eexists _, _. split; [reflexivity|]. split; [assumption|].
      assert (E : Z.lxor (uw w a) (uw w b) = uw w (Z.lxor (rd sg1 w a) (rd sg1 w b))).
      { unfold uw. rewrite uwrap_lxor by lia. f_equal; symmetry; apply rd_eqm. }
      rewrite E. apply low_u64_wrap. apply eqm_refl.
    + (* lsh *)
      rewrite Hb1. destruct (Z.ltb_spec (uw w b) (wbits w)) as [Hc|Hc]; [|discriminate].
      inversion Hd; subst. rewrite (shift_count sg2 w b Hc). pose proof (uw_bound w b).
      replace ((0 <=? uw w b) && (uw w b <? wbits w)) with true
        by (symmetry; apply andb_true_intro; split; [apply Z.leb_le | apply Z.ltb_lt]; lia).
      eexists _, _. split; [reflexivity|]. split; [assumption|].
      apply low_u64_wrap. apply eqm_mul; try lia; [|apply eqm_refl].
      eapply eqm_trans; [apply rd_eqm|]. apply eqm_sym. unfold uw. apply eqm_uwrap; lia.
    + (* rsh *)
      rewrite Hs1 in Ht. subst sg1. rewrite Hb1. destruct (Z.ltb_spec (uw w b) (wbits w)) as [Hc|Hc]; [|discriminate].
      inversion Hd; subst. rewrite (shift_count sg2 w b Hc). pose proof (uw_bound w b).
      replace ((0 <=? uw w b) && (uw w b <? wbits w)) with true
        by (symmetry; apply andb_true_intro; split; [apply Z.leb_le | apply Z.ltb_lt]; lia).
      eexists _, _. split; [reflexivity|]. split; [assumption|].
      cbn [rd]. apply low_u64. apply eqm_refl.
    + (* ursh *)
      rewrite Hs1 in Ht. destruct sg1; [discriminate|]. rewrite Hb1.
      destruct (Z.ltb_spec (uw w b) (wbits w)) as [Hc|Hc]; [|discriminate].
      inversion Hd; subst. rewrite (shift_count sg2 w b Hc). pose proof (uw_bound w b).
      replace ((0 <=? uw w b) && (uw w b <? wbits w)) with true
        by (symmetry; apply andb_true_intro; split; [apply Z.leb_le | apply Z.ltb_lt]; lia).
      eexists _, _. split; [reflexivity|]. split; [assumption|].
      cbn [rd]. apply low_u64_exact. pose proof (uw_bound w a). apply shr_small; lia.
  - (* IC_cmp *)
    destruct Hc as [-> ->]. cbn [bin_ok] in Hok.
    apply andb_prop in Hok. destruct Hok as [Hok Hcmp]. apply andb_prop in Hok. destruct Hok as [_ Ht].
    assert (sg2 = sg1) by (destruct sg1, sg2, w; cbn in *; congruence). subst sg2.
    destruct (cmp_of o) as [c'|] eqn:Eo; [|discriminate].
    apply andb_prop in Hcmp. destruct Hcmp as [Hcc Hsgn].
    assert (cc = c') by (destruct cc, c'; cbn in Hcc; congruence). subst c'.
    assert (Hsh : is_shift o = false) by (destruct o; cbn in Eo; try discriminate; reflexivity).
    rewrite Hsh, Hp1, Ha1, !wrap_rd_idem.
    assert (Hib : int_binop o (wt sg1 w) (rd sg1 w a) (rd sg1 w b) = Some (CI32, b2z (cmpZ cc (rd sg1 w a) (rd sg1 w b)))).
    { destruct o; cbn in Eo; try discriminate; cbn [int_binop cmp_of]; inversion Eo; subst; reflexivity. }
    rewrite Hib. eexists _, _. split; [reflexivity|]. split; [reflexivity|].
    rewrite b2z_u64.
    assert (cmpZ cc (rd sg1 w a) (rd sg1 w b) = icompare cc sg w a b); [|rewrite H1; reflexivity].
    unfold icompare. rewrite Hs1 in Hsgn.
    destruct (is_eqne cc) eqn:Q.
    + destruct cc; try discriminate; destruct sg1, sg; cbn [rd cmpZ]; try reflexivity;
        rewrite ?cmp_sign_agnostic; try reflexivity; rewrite <- ?cmp_sign_agnostic; reflexivity.
    + cbn [orb] in Hsgn. apply eqb_prop in Hsgn. subst sg. destruct sg1; reflexivity.
Qed.

(* ---- from leaves to rows *)
Lemma leaf_wt e k t w env p : leaf e = Some (k, t) -> has_width w t = true -> nth_error env k = Some p ->
  ceval env e = Some (wt (ty_signed t) w, rd (ty_signed t) w p).
Proof.
  intros L H N. destruct (leaf_eval e k t env p L N) as [Ev _]. rewrite Ev.
  rewrite (wty_wt t w H) at 1 2. rewrite wrap_wt. reflexivity.
Qed.

Lemma int_value_ok_sound op T e :
  int_value_ok (int_class op) T e = true -> int_row_sound_def op (SAssign T e).
Proof.
  intros Hok args d Hd. unfold doc_sem_int in Hd. unfold int_res_width.
  unfold int_value_ok in Hok. apply andb_prop in Hok. destruct Hok as [HT Hok].
  destruct (int_class op) as [|sg n|w|io w|cc sg w|] eqn:C; [| | | | |discriminate].
  - (* mov *)
    destruct args as [|a [|? ?]]; try discriminate. inversion Hd; subst.
    destruct (chain_of e) as [[[|[|k]] ts]|] eqn:Ch; try discriminate.
    destruct (eff (strip_outer64 (T :: ts))) as [te|] eqn:E; [|discriminate].
    destruct (chain_row_pattern T e ts te a [] HT Ch E) as [Hv Hi]. rewrite Hv.
    apply andb_prop in Hok. destruct Hok as [_ Hb]. apply Z.eqb_eq in Hb.
    eexists. split; [reflexivity|]. apply eq_low_of_eqm. cbn [wbits]. unfold u64.
    eqm_auto. apply wrap_ty_eqm; [assumption | lia].
  - (* ext *)
    destruct args as [|a [|? ?]]; try (destruct sg; discriminate).
    destruct (chain_of e) as [[[|[|k]] ts]|] eqn:Ch; try discriminate.
    destruct (eff (strip_outer64 (T :: ts))) as [te|] eqn:E; [|discriminate].
    destruct (chain_row_pattern T e ts te a [] HT Ch E) as [Hv Hi]. rewrite Hv.
    destruct (ty_int te) as [[sg' n']|] eqn:Ti; [|discriminate].
    apply andb_prop in Hok. destruct Hok as [Hs Hn]. apply eqb_prop in Hs. apply Z.eqb_eq in Hn. subst sg' n'.
    destruct (ty_int_bits te sg n Ti) as (Hnn & _ & _).
    eexists. split; [reflexivity|]. unfold eq_low. cbn [wbits]. f_equal.
    unfold wrap_ty. rewrite Ti. destruct sg; inversion Hd; subst.
    + unfold sext, u64. reflexivity.
    + unfold zext. apply uwrap_id_wider. lia.
  - (* neg *)
    destruct args as [|a [|? ?]]; try discriminate. inversion Hd; subst.
    destruct e as [| | |o e1| |]; try discriminate. destruct o; try discriminate.
    destruct (leaf e1) as [[[|[|k]] t]|] eqn:L; try discriminate.
    cbn [stmt_value ceval].
    rewrite (leaf_wt e1 1%nat t w (env_of [a]) a L Hok eq_refl).
    destruct (wt_props (ty_signed t) w) as (Hi1 & Hb1 & Hs1 & Hp1 & Ha1 & Hm1).
    unfold unop. rewrite Hi1, Hp1. rewrite assign_dst64 by assumption.
    eexists. split; [reflexivity|]. apply low_u64_wrap. wb w. apply eqm_opp; [lia|]. apply rd_eqm.
  - (* bin *)
    destruct args as [|a [|b [|? ?]]]; try discriminate.
    destruct e as [| | | |o e1 e2|]; try discriminate.
    destruct (leaf e1) as [[[|[|k]] t1]|] eqn:L1; try discriminate.
    destruct (leaf e2) as [[[|[|[|k]]] t2]|] eqn:L2; try discriminate.
    assert (H1 : has_width w t1 = true) by (cbn [bin_ok] in Hok; apply andb_prop in Hok; tauto).
    assert (H2 : has_width w t2 = true).
    { cbn [bin_ok] in Hok. apply andb_prop in Hok. destruct Hok as [_ Hok].
      destruct io, o; try discriminate; try (apply andb_prop in Hok; destruct Hok as [Hq Hr]);
        try assumption;
        try (assert (t2 = t1) by (destruct t1, t2; cbn in Hq; congruence); subst; assumption);
        try (assert (t2 = t1) by (destruct t1, t2; cbn in Hok; congruence); subst; assumption). }
    cbn [stmt_value ceval].
    rewrite (leaf_wt e1 1%nat t1 w (env_of [a; b]) a L1 H1 eq_refl).
    rewrite (leaf_wt e2 2%nat t2 w (env_of [a; b]) b L2 H2 eq_refl).
    rewrite (wty_wt t1 w H1), (wty_wt t2 w H2) in Hok.
    destruct (bin_core (IC_bin io w) o _ _ w a b d Hok (conj eq_refl Hd)) as (v & t & Hb & Hi & Hl).
    rewrite Hb. rewrite assign_dst64 by assumption. eexists. split; [reflexivity | exact Hl].
  - (* cmp *)
    destruct args as [|a [|b [|? ?]]]; try discriminate. inversion Hd; subst.
    destruct e as [| | | |o e1 e2|]; try discriminate.
    destruct (leaf e1) as [[[|[|k]] t1]|] eqn:L1; try discriminate.
    destruct (leaf e2) as [[[|[|[|k]]] t2]|] eqn:L2; try discriminate.
    assert (H1 : has_width w t1 = true) by (cbn [bin_ok] in Hok; apply andb_prop in Hok; destruct Hok as [Hok _]; apply andb_prop in Hok; tauto).
    assert (t2 = t1).
    { cbn [bin_ok] in Hok. apply andb_prop in Hok. destruct Hok as [Hok _]. apply andb_prop in Hok.
      destruct Hok as [_ Hq]. destruct t1, t2; cbn in Hq; congruence. }
    subst t2.
    cbn [stmt_value ceval].
    rewrite (leaf_wt e1 1%nat t1 w (env_of [a; b]) a L1 H1 eq_refl).
    rewrite (leaf_wt e2 2%nat t1 w (env_of [a; b]) b L2 H1 eq_refl).
    rewrite (wty_wt t1 w H1) in Hok.
    destruct (bin_core (IC_cmp cc sg w) o _ _ w a b _ Hok (conj eq_refl eq_refl)) as (v & t & Hb & Hi & Hl).
    rewrite Hb. rewrite assign_dst64 by assumption. eexists. split; [reflexivity | exact Hl].
Qed.

(* ---- integer branches *)
Definition int_branch_sound_def (op : opcode) (s : cstmt) : Prop :=
  forall args b, doc_branch_int op args = Some b -> stmt_branch (env_of args) s = Some b.

Lemma rd_zero sg w a : (rd sg w a =? 0) = (uw w a =? 0).
Proof.
  destruct sg; [|reflexivity]. cbn [rd]. replace 0 with (sw w 0) at 1 by (destruct w; reflexivity).
  replace 0 with (uw w 0) at 2 by (destruct w; reflexivity). apply cmp_sign_agnostic.
Qed.

Lemma int_branch_ok_sound op e :
  int_branch_ok (int_branch_class op) e = true -> int_branch_sound_def op (SBranch e).
Proof.
  intros Hok args b Hd. unfold doc_branch_int in Hd. unfold int_branch_ok in Hok.
  destruct (int_branch_class op) as [|w|w|cc sg w|] eqn:C; [| | | |discriminate].
  - destruct args; [|discriminate]. inversion Hd; subst.
    destruct e as [|z t| | | |]; try discriminate. apply andb_prop in Hok. destruct Hok as [Hi Hz].
    cbn [stmt_branch ceval]. rewrite Hi. unfold truth. rewrite Hi, Hz. reflexivity.
  - destruct args as [|a [|? ?]]; try discriminate. inversion Hd; subst.
    destruct (leaf e) as [[[|[|k]] t]|] eqn:L; try discriminate.
    cbn [stmt_branch]. rewrite (leaf_wt e 1%nat t w (env_of [a]) a L Hok eq_refl).
    destruct (wt_props (ty_signed t) w) as (Hi1 & _). unfold truth. rewrite Hi1, rd_zero. reflexivity.
  - destruct args as [|a [|? ?]]; try discriminate. inversion Hd; subst.
    destruct e as [| | |o e1| |]; try discriminate. destruct o; try discriminate.
    destruct (leaf e1) as [[[|[|k]] t]|] eqn:L; try discriminate.
    cbn [stmt_branch ceval]. rewrite (leaf_wt e1 1%nat t w (env_of [a]) a L Hok eq_refl).
    destruct (wt_props (ty_signed t) w) as (Hi1 & _). unfold unop. rewrite Hi1.
    unfold truth. cbn [is_int ty_int]. rewrite rd_zero. destruct (uw w a =? 0); reflexivity.
  - destruct args as [|a [|b' [|? ?]]]; try discriminate. inversion Hd; subst.
    destruct e as [| | | |o e1 e2|]; try discriminate.
    destruct (leaf e1) as [[[|[|k]] t1]|] eqn:L1; try discriminate.
    destruct (leaf e2) as [[[|[|[|k]]] t2]|] eqn:L2; try discriminate.
    assert (H1 : has_width w t1 = true) by (cbn [bin_ok] in Hok; apply andb_prop in Hok; destruct Hok as [Hok _]; apply andb_prop in Hok; tauto).
    assert (t2 = t1).
    { cbn [bin_ok] in Hok. apply andb_prop in Hok. destruct Hok as [Hok _]. apply andb_prop in Hok.
      destruct Hok as [_ Hq]. destruct t1, t2; cbn in Hq; congruence. }
    subst t2.
    cbn [stmt_branch ceval].
    rewrite (leaf_wt e1 1%nat t1 w (env_of [a; b']) a L1 H1 eq_refl).
    rewrite (leaf_wt e2 2%nat t1 w (env_of [a; b']) b' L2 H1 eq_refl).
    rewrite (wty_wt t1 w H1) in Hok.
    (* reuse bin_core through its computation of the comparison *)
    pose proof Hok as Hok'. cbn [bin_ok] in Hok'.
    apply andb_prop in Hok'. destruct Hok' as [_ Hcmp].
    destruct (cmp_of o) as [c'|] eqn:Eo; [|discriminate].
    destruct (bin_core (IC_cmp cc sg w) o _ _ w a b' _ Hok (conj eq_refl eq_refl)) as (v & t & Hb & Hi & Hl).
    rewrite Hb.
    (* the value is 0/1 of type int *)
    destruct (wt_props (ty_signed t1) w) as (Hi1 & Hb1 & Hs1 & Hp1 & Ha1 & Hm1).
    unfold binop in Hb. rewrite Hi1 in Hb. cbn [andb] in Hb.
    assert (Hsh : is_shift o = false) by (destruct o; cbn in Eo; try discriminate; reflexivity).
    rewrite Hsh, Hp1, Ha1, !wrap_rd_idem in Hb.
    assert (Hib : int_binop o (wt (ty_signed t1) w) (rd (ty_signed t1) w a) (rd (ty_signed t1) w b')
                  = Some (CI32, b2z (cmpZ c' (rd (ty_signed t1) w a) (rd (ty_signed t1) w b')))).
    { destruct o; cbn in Eo; try discriminate; cbn [int_binop cmp_of]; inversion Eo; subst; reflexivity. }
    rewrite Hib in Hb. inversion Hb; subst. unfold truth. cbn [is_int ty_int].
    unfold eq_low in Hl. rewrite b2z_u64 in Hl.
    assert (Hbb : forall x y : bool, uwrap (wbits w) (b2z x) = uwrap (wbits w) (b2z y) -> x = y).
    { intros x y. destruct x, y, w; cbn; intros Q; try reflexivity; discriminate Q. }
    apply Hbb in Hl. rewrite Hl. destruct (icompare cc sg w a b'); reflexivity.
Qed.

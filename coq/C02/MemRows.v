(* Memory rows of the interpreter (IC_LD* / IC_ST* pseudo instructions, the LD/ST macros): narrow
   integer loads extend according to the signedness of the memory type, stores truncate to the memory
   type; float/double/long double cells are moved unchanged (DocSpec.load_ext / store_trunc). *)
From Coq Require Import ZArith Lia Bool List String.
From MirV Require Import Mir.DocSpec Mir.CExpr C02.WFacts C02.RowCheck C02.RowProofs C02.IntRows C02.FloatRows.
Import ListNotations.
Local Open Scope Z_scope.

Arguments uwrap : simpl never.
Arguments swrap : simpl never.
Arguments Z.pow : simpl never.
Arguments Z.mul : simpl never.
Arguments Z.add : simpl never.

Lemma le_bytes_bound l : 0 <= le_bytes_to_Z l < 2 ^ (8 * Z.of_nat (List.length l)).
Proof.
  induction l as [|b r IH]; cbn [le_bytes_to_Z List.length]; [cbn; lia|].
  pose proof (uwrap_bound 8 b ltac:(lia)) as Hb.
  rewrite Nat2Z.inj_succ. replace (8 * Z.succ (Z.of_nat (List.length r))) with (8 + 8 * Z.of_nat (List.length r)) by lia.
  rewrite Z.pow_add_r by lia. change (2 ^ 8) with 256 in *. nia.
Qed.

Lemma le_bytes_firstn_bound n l : 0 <= le_bytes_to_Z (firstn n l) < 2 ^ (8 * Z.of_nat n).
Proof.
  pose proof (le_bytes_bound (firstn n l)) as H. pose proof (firstn_le_length n l) as Hl.
  assert (2 ^ (8 * Z.of_nat (List.length (firstn n l))) <= 2 ^ (8 * Z.of_nat n)) by (apply Z.pow_le_mono_r; lia). lia.
Qed.

(* MIR memory type of an IC_LD* / IC_ST* pseudo instruction (I64 serves i64, u64 and p) *)
Definition aux_type (name : string) : option (bool * mir_type) :=      (* (is a load?, type) *)
  (if String.eqb name "IC_LDI8" then Some (true, T_I8) else if String.eqb name "IC_LDU8" then Some (true, T_U8)
   else if String.eqb name "IC_LDI16" then Some (true, T_I16) else if String.eqb name "IC_LDU16" then Some (true, T_U16)
   else if String.eqb name "IC_LDI32" then Some (true, T_I32) else if String.eqb name "IC_LDU32" then Some (true, T_U32)
   else if String.eqb name "IC_LDI64" then Some (true, T_I64) else if String.eqb name "IC_LDF" then Some (true, T_F)
   else if String.eqb name "IC_LDD" then Some (true, T_D) else if String.eqb name "IC_LDLD" then Some (true, T_LD)
   else if String.eqb name "IC_STI8" then Some (false, T_I8) else if String.eqb name "IC_STU8" then Some (false, T_U8)
   else if String.eqb name "IC_STI16" then Some (false, T_I16) else if String.eqb name "IC_STU16" then Some (false, T_U16)
   else if String.eqb name "IC_STI32" then Some (false, T_I32) else if String.eqb name "IC_STU32" then Some (false, T_U32)
   else if String.eqb name "IC_STI64" then Some (false, T_I64) else if String.eqb name "IC_STF" then Some (false, T_F)
   else if String.eqb name "IC_STD" then Some (false, T_D) else if String.eqb name "IC_STLD" then Some (false, T_LD)
   else None)%string.

Definition aux_row_ok (name : string) (s : cstmt) : bool :=
  match aux_type name, s with
  | Some (true, ty), SLoad vt mt => load_ok ty vt mt
  | Some (false, ty), SStore mt e => store_ok ty mt e
  | _, _ => false
  end.

Lemma size_bits ty : 8 * Z.of_nat (type_size ty) = ty_bits (cty_of_mir ty).
Proof. destruct ty; reflexivity. Qed.

Lemma uw64_small n X : 0 <= n <= 64 -> 0 <= X < 2 ^ n -> uwrap 64 (uwrap n X) = X.
Proof.
  intros Hn HX. rewrite (uwrap_small n X) by exact HX. apply uwrap_small.
  assert (2 ^ n <= 2 ^ 64) by (apply Z.pow_le_mono_r; lia). lia.
Qed.

Lemma load_ok_sound ty vt mt bytes : load_ok ty vt mt = true ->
  exists v, stmt_load (SLoad vt mt) bytes = Some v /\ v = load_ext ty bytes.
Proof.
  intros H.
  destruct ty; destruct vt; try discriminate H; destruct mt; try discriminate H; clear H;
    cbn [stmt_load ty_bits ty_int]; unfold load_ext;
    cbn [type_is_int type_signed andb type_size cty_of_mir];
    match goal with |- context [firstn ?k bytes] => pose proof (le_bytes_firstn_bound k bytes) as Hb end;
    (eexists; split; [reflexivity|]);
    cbn [assign convert is_int ty_int read_var wrap_ty ty_bits]; unfold u64;
    rewrite ?uwrap_swrap by lia; rewrite ?uwrap_idem by lia;
    try reflexivity;
    try (apply uw64_small; [lia | exact Hb]);
    try (apply uwrap_small; exact Hb);
    try (rewrite uwrap_small by exact Hb; apply uwrap_small; exact Hb).
Qed.

Lemma store_ok_sound ty mt e p rest : store_ok ty mt e = true ->
  stmt_store (p :: rest) (SStore mt e) = Some (store_trunc ty p).
Proof.
  unfold store_ok. intros H. cbn [stmt_store]. unfold store_trunc.
  destruct (type_is_int ty) eqn:Hint.
  - repeat (apply andb_prop in H; let H' := fresh "H" in destruct H as [H H']).
    apply Z.eqb_eq in H1.
    destruct (chain_of e) as [[[|k] ts]|] eqn:C; try discriminate.
    destruct (eff (mt :: ts)) as [te|] eqn:E; [|discriminate]. apply cty_eqb_eq in H0. subst te.
    destruct (chain_of_int _ _ _ C) as [F _].
    destruct (chain_of_eval e 0%nat ts (p :: rest) p C eq_refl) as (t1 & r1 & -> & Ev).
    rewrite Ev. inversion F as [|? ? Hi1 Fr]; subst. unfold convert. rewrite Hi1, H.
    assert (F2 : Forall (fun t => is_int t = true) (mt :: t1 :: r1)) by (constructor; assumption).
    destruct (eff_sound _ mt p F2 E) as [Hv _].
    change (wrap_ty mt (chain_val (t1 :: r1) p)) with (chain_val (mt :: t1 :: r1) p). rewrite Hv.
    assert (Hn : Z.to_nat (ty_bits mt / 8) = type_size ty).
    { rewrite H1, <- size_bits. replace (8 * Z.of_nat (type_size ty) / 8) with (Z.of_nat (type_size ty))
        by (symmetry; rewrite Z.mul_comm; apply Z.div_mul; lia). apply Nat2Z.id. }
    rewrite Hn, size_bits, <- H1. f_equal. f_equal.
    apply wrap_ty_eqm; [assumption | ]. destruct (is_int_ty_int mt H) as (sg & n & Et).
    destruct (ty_int_bits mt sg n Et) as (Hnn & Hbn & _). lia.
  - apply andb_prop in H. destruct H as [Hm He]. apply cty_eqb_eq in Hm. subst mt.
    repeat (apply orb_prop in He; destruct He as [He|He]); apply cexpr_eqb_eq in He; subst e;
      destruct ty; try discriminate; cbn; rewrite ?uwrap_idem by lia; reflexivity.
Qed.

Theorem aux_row_ok_sound name s : aux_row_ok name s = true ->
  match aux_type name with
  | Some (true, ty) => forall bytes, stmt_load s bytes = Some (load_ext ty bytes)
  | Some (false, ty) => forall p rest, stmt_store (p :: rest) s = Some (store_trunc ty p)
  | None => False
  end.
Proof.
  unfold aux_row_ok. destruct (aux_type name) as [[[|] ty]|]; [| |discriminate].
  - destruct s; try discriminate. intros H bytes. destruct (load_ok_sound ty val_t mem_t bytes H) as (v & Hs & ->). exact Hs.
  - destruct s; try discriminate. intros H p rest. apply store_ok_sound. exact H.
Qed.

(* C16 -- the protocol by which whole-function code generation keeps the MIR function intact:
   _MIR_duplicate_func_insns / _MIR_restore_func_insns (mir.c:2715-2812) around an arbitrary
   sequence of generator edits, and the already-generated early return of generate_func_code
   (mir-gen.c:9277-9305,9487-9503).  Definitions only; proofs in GenProtocolProofs.v.

   Instructions are objects with an identity (their address).  A label operand, and an lref's
   label, is the identity of a LABEL instruction. *)
From Coq Require Import List Arith Bool ZArith Lia.
Import ListNotations.

Record insn : Type := mkinsn {
  iid : nat;            (* identity of the insn object *)
  is_label : bool;      (* MIR_LABEL *)
  payload : Z;          (* opcode and non-label operands, abstractly *)
  refs : list nat;      (* label operands: identities of LABEL insns *)
  idata : bool          (* insn->data != NULL: scratch pointer of whoever is working on the function
                           (label -> func in link_module_lrefs, label -> copy in duplication / inlining,
                           insn -> icode index in the interpreter, insn -> bb_insn in the generator) *)
}.

Record lref : Type := mklref {
  l_label : nat;
  l_label2 : option nat;
  l_orig : option nat;             (* orig_label (NULL outside generation) *)
  l_orig2 : option (option nat)    (* orig_label2: None = field cleared *)
}.

Record func : Type := mkfunc {
  insns : list insn;               (* func->insns *)
  original_insns : list insn;      (* func->original_insns *)
  vars : list Z;                   (* func->vars: names, arguments first *)
  original_vars_num : nat;
  gvars : list Z;                  (* func->global_vars: names of the hard-register-tied variables *)
  regtab : list (Z * nat);         (* func->internal: the live entries of name2rdn/reg2rdn, (name, register number) *)
  lrefs : list lref;               (* first_lref chain *)
  next_id : nat;                   (* every identity handed out so far is < next_id *)
  machine_code : option Z;
  call_addr : option Z;
  faddr : Z                        (* item->addr *)
}.

(* ------------------------------------------------------------------ duplicate *)

(* label->data = new_insn for every LABEL of the original list, in order *)
Fixpoint label_map (l : list insn) (base : nat) : list (nat * nat) :=
  match l with
  | [] => []
  | i :: r => (if is_label i then [(iid i, base)] else []) ++ label_map r (S base)
  end.

Definition map_label (m : list (nat * nat)) (x : nat) : nat :=
  match find (fun p => Nat.eqb (fst p) x) m with
  | Some p => snd p
  | None => x      (* a label of no insn of this function: never the case in a loaded function *)
  end.

(* MIR_copy_insn for every insn, new identities base, base+1, ...; then redirect_duplicated_labels *)
Fixpoint copy_insns (m : list (nat * nat)) (l : list insn) (base : nat) : list insn :=
  match l with
  | [] => []
  | i :: r => mkinsn base (is_label i) (payload i) (map (map_label m) (refs i)) (idata i)   (* memcpy *)
              :: copy_insns m r (S base)
  end.

Definition dup_lref (m : list (nat * nat)) (l : lref) : lref :=
  mklref (map_label m (l_label l)) (option_map (map_label m) (l_label2 l))
         (Some (l_label l)) (Some (l_label2 l)).

(* store_labels_for_duplication sets label->data = copy (mir_assert (insn->data == NULL) first), and
   redirect_duplicated_labels resets it to NULL: whatever a label's data was, it is NULL afterwards *)
Definition clear_label_data (i : insn) : insn :=
  if is_label i then mkinsn (iid i) true (payload i) (refs i) false else i.

Definition dup (f : func) : func :=
  let m := label_map (insns f) (next_id f) in
  mkfunc (copy_insns m (insns f) (next_id f)) (map clear_label_data (insns f)) (vars f) (length (vars f)) (gvars f) (regtab f)
         (map (dup_lref m) (lrefs f)) (next_id f + length (insns f)) (machine_code f) (call_addr f)
         (faddr f).

(* ------------------------------------------------------------------ generator edits *)
(* Everything the generator may do between duplicate and restore, as far as this protocol is
   concerned: it edits the working list func->insns, creates registers, and may retarget the
   *current* label fields of lrefs.  It does not touch original_insns, orig_label(2), the first
   original_vars_num vars or their table entries -- that is the model boundary. *)
Inductive edit : Type :=
| EInsert (pos : nat) (lab : bool) (pl : Z) (rs : list nat)   (* new insn object inserted at pos *)
| ERemove (pos : nat)                                        (* MIR_remove_insn / gen_delete_insn *)
| ERewrite (pos : nat) (pl : Z) (rs : list nat)              (* operands/opcode changed in place *)
| EMove (from to : nat)                                      (* unlink and relink the same object *)
| EData (pos : nat) (b : bool)                               (* insn->data of a working insn set / cleared *)
| EAddVar (name : Z)                                         (* new temp register *)
| ERetarget (k : nat) (lab : nat) (lab2 : option nat).       (* lref k now denotes other labels *)

Fixpoint insert_at {A} (l : list A) (pos : nat) (x : A) : list A :=
  match pos, l with
  | O, _ => x :: l
  | S p, [] => [x]
  | S p, y :: r => y :: insert_at r p x
  end.

Fixpoint remove_at {A} (l : list A) (pos : nat) : list A :=
  match pos, l with
  | _, [] => []
  | O, _ :: r => r
  | S p, y :: r => y :: remove_at r p
  end.

Fixpoint update_at {A} (l : list A) (pos : nat) (g : A -> A) : list A :=
  match pos, l with
  | _, [] => []
  | O, y :: r => g y :: r
  | S p, y :: r => y :: update_at r p g
  end.

Definition with_insns (f : func) (l : list insn) (nid : nat) : func :=
  mkfunc l (original_insns f) (vars f) (original_vars_num f) (gvars f) (regtab f) (lrefs f) nid
         (machine_code f) (call_addr f) (faddr f).

Definition reg_names (f : func) : list Z := map fst (regtab f).
(* new_func_reg: reg = VARR_LENGTH (vars) + 1 + VARR_LENGTH (global_vars)   (0 is reserved) *)
Definition new_reg_num (f : func) : nat := length (vars f) + 1 + length (gvars f).

Definition apply_edit (f : func) (e : edit) : func :=
  match e with
  | EInsert pos lab pl rs =>
    with_insns f (insert_at (insns f) pos (mkinsn (next_id f) lab pl rs false)) (S (next_id f))
  | ERemove pos => with_insns f (remove_at (insns f) pos) (next_id f)
  | ERewrite pos pl rs =>
    with_insns f (update_at (insns f) pos (fun i => mkinsn (iid i) (is_label i) pl rs (idata i))) (next_id f)
  | EData pos b =>
    with_insns f (update_at (insns f) pos (fun i => mkinsn (iid i) (is_label i) (payload i) (refs i) b)) (next_id f)
  | EMove from to =>
    match nth_error (insns f) from with
    | Some i => with_insns f (insert_at (remove_at (insns f) from) to i) (next_id f)
    | None => f
    end
  | EAddVar name =>
    if existsb (Z.eqb name) (reg_names f) then f    (* "Repeated reg declaration": refused *)
    else mkfunc (insns f) (original_insns f) (vars f ++ [name]) (original_vars_num f) (gvars f)
                (regtab f ++ [(name, new_reg_num f)]) (lrefs f) (next_id f) (machine_code f) (call_addr f)
                (faddr f)
  | ERetarget k lab lab2 =>
    mkfunc (insns f) (original_insns f) (vars f) (original_vars_num f) (gvars f) (regtab f)
           (update_at (lrefs f) k (fun l => mklref lab lab2 (l_orig l) (l_orig2 l)))
           (next_id f) (machine_code f) (call_addr f) (faddr f)
  end.

Definition mutate (s : list edit) (f : func) : func := fold_left apply_edit s f.

(* ------------------------------------------------------------------ restore *)

(* rd = find_rd_by_name (var.name); HTAB_DELETE of that descriptor from name2rdn_tab and reg2rdn_tab *)
Fixpoint remove_name (l : list (Z * nat)) (x : Z) : list (Z * nat) :=
  match l with
  | [] => []
  | y :: r => if Z.eqb (fst y) x then r else y :: remove_name r x
  end.

(* while (VARR_LENGTH (vars) > original_vars_num) { var = VARR_POP; delete var.name from tables } *)
Fixpoint pop_vars (fuel : nat) (vs : list Z) (tab : list (Z * nat)) (keep : nat) : list Z * list (Z * nat) :=
  match fuel with
  | O => (vs, tab)
  | S k =>
    if Nat.ltb keep (length vs) then
      pop_vars k (removelast vs) (remove_name tab (last vs 0%Z)) keep
    else (vs, tab)
  end.

Definition restore_lref (l : lref) : lref :=
  mklref (match l_orig l with Some x => x | None => l_label l end)
         (match l_orig2 l with Some x => x | None => l_label2 l end)
         None None.

Definition restore (f : func) : func :=
  let vt := pop_vars (length (vars f)) (vars f) (regtab f) (original_vars_num f) in
  mkfunc (original_insns f) [] (fst vt) (original_vars_num f) (gvars f) (snd vt)
         (map restore_lref (lrefs f)) (next_id f) (machine_code f) (call_addr f) (faddr f).

(* ------------------------------------------------------------------ generate_func_code *)

(* what MIR_output_item, the interpreter and the inliner read of a function *)
Record fview : Type := mkview {
  v_insns : list insn;
  v_vars : list Z;
  v_gvars : list Z;
  v_regtab : list (Z * nat);       (* every declared register keeps its name AND its number *)
  v_lrefs : list (nat * option nat)
}.

Definition view (f : func) : fview :=
  mkview (insns f) (vars f) (gvars f) (regtab f) (map (fun l => (l_label l, l_label2 l)) (lrefs f)).

(* MIR_gen: s = what this run of the generator does to the working copy, code = where the
   machine code gets published.  Returns the new state and the address handed to the caller. *)
Definition gen (s : list edit) (code : Z) (f : func) : func * Z :=
  match machine_code f with
  | Some _ => (f, faddr f)                  (* already generated: thunk re-pointed, nothing else *)
  | None =>
    let f1 := restore (mutate s (dup f)) in
    (mkfunc (insns f1) (original_insns f1) (vars f1) (original_vars_num f1) (gvars f1) (regtab f1) (lrefs f1)
            (next_id f1) (Some code) (Some code) (faddr f1), faddr f)
  end.

(* a program: its functions; generating function k *)
Definition gen_at (p : list func) (k : nat) (s : list edit) (code : Z) : list func :=
  match nth_error p k with
  | Some f => update_at p k (fun _ => fst (gen s code f))
  | None => p
  end.

(* ------------------------------------------------------------------ the interpreter's use of insn->data *)
(* generate_icode (mir-interp.c:176-524): insn->data = index of the insn's code for EVERY insn while the
   code is built (branches and lrefs are patched through label->data), and -- since /repo e40fd49f --
   NULL again for every insn when it is done.  finish_func_interpretation (mir-interp.c:526-534) clears
   them too. *)
Definition set_data (b : bool) (i : insn) : insn := mkinsn (iid i) (is_label i) (payload i) (refs i) b.
Definition with_data (b : bool) (f : func) : func := with_insns f (map (set_data b) (insns f)) (next_id f).
Definition icode_mark (f : func) : func := with_data true f.      (* the loop building the code *)
Definition icode_clear (f : func) : func := with_data false f.    (* the loop at its end *)
Definition icode_prepare (f : func) : func := icode_clear (icode_mark f).
Definition finish_interp (f : func) : func := with_data false f.

Definition clean (l : list insn) : Prop := forall i, In i l -> idata i = false.
Definition clean_b (l : list insn) : bool := forallb (fun i => negb (idata i)) l.

(* MIR_link's inliner: MIR_copy_insn of every insn of the callee (store_labels_for_duplication /
   redirect_duplicated_labels as in dup), appended to the caller with new identities *)
Definition inline_copy (callee : func) (base : nat) : list insn :=
  copy_insns (label_map (insns callee) base) (insns callee) base.

(* ------------------------------------------------------------------ well-formedness *)

Definition label_ids (l : list insn) : list nat := map iid (filter is_label l).

(* a function as MIR_load_module/MIR_link leave it, outside generation *)
Definition wf (f : func) : Prop :=
  original_insns f = []
  /\ NoDup (map iid (insns f))
  /\ (forall i, In i (insns f) -> iid i < next_id f)
  /\ (forall i r, In i (insns f) -> In r (refs i) -> In r (label_ids (insns f)))
  /\ (forall l, In l (lrefs f) ->
        In (l_label l) (label_ids (insns f))
        /\ (forall x, l_label2 l = Some x -> In x (label_ids (insns f)))
        /\ l_orig l = None /\ l_orig2 l = None)
  /\ (forall i, In i (insns f) -> is_label i = true -> idata i = false)   (* mir_assert in store_labels_... *)
  /\ NoDup (reg_names f)
  /\ (forall v, In v (vars f) -> In v (reg_names f))
  /\ NoDup (map snd (regtab f))
  /\ (forall p, In p (regtab f) -> snd p <= length (vars f) + length (gvars f)).

(* boolean version for the extracted driver / examples *)
Definition refs_closed (l : list insn) : bool :=
  forallb (fun i => forallb (fun r => existsb (Nat.eqb r) (label_ids l)) (refs i)) l.

(* C16 -- proofs about the duplicate / edit / restore protocol (GenProtocol.v). *)
From Coq Require Import List Arith Bool ZArith Lia.
From MirV Require Import C16.GenProtocol.
Import ListNotations.

(* ------------------------------------------------------------------ small list facts *)

Lemma update_at_length {A} (l : list A) p g : length (update_at l p g) = length l.
Proof. revert p; induction l as [|x l IH]; intros [|p]; cbn; auto. Qed.

Lemma map_update_at {A B} (h : A -> B) (l : list A) p g :
  (forall x, h (g x) = h x) -> map h (update_at l p g) = map h l.
Proof.
  intros Hg. revert p; induction l as [|x l IH]; intros [|p]; cbn; auto.
  - now rewrite Hg.
  - now rewrite IH.
Qed.

Lemma remove_name_app_last (t : list (Z * nat)) (x : Z) (n : nat) :
  ~ In x (map fst t) -> remove_name (t ++ [(x, n)]) x = t.
Proof.
  induction t as [|y t IH]; intros Hn; cbn.
  - now rewrite Z.eqb_refl.
  - destruct (Z.eqb_spec (fst y) x) as [E|Hne].
    + exfalso. apply Hn. now left.
    + rewrite IH; [reflexivity|]. intros H. apply Hn. now right.
Qed.

Lemma removelast_app_last {A} (l : list A) x : removelast (l ++ [x]) = l.
Proof. apply removelast_last. Qed.

Lemma last_app_last {A} (l : list A) x d : last (l ++ [x]) d = x.
Proof. apply last_last. Qed.

Lemma clear_label_data_id (l : list insn) :
  (forall i, In i l -> is_label i = true -> idata i = false) -> map clear_label_data l = l.
Proof.
  induction l as [|i l IH]; intros H; cbn; [reflexivity|].
  rewrite IH by (intros j Hj; apply H; now right). f_equal.
  unfold clear_label_data. destruct (is_label i) eqn:E; [|reflexivity].
  specialize (H i (or_introl eq_refl) E). destruct i; cbn in *. subst. reflexivity.
Qed.

(* popping exactly the appended names brings both lists back *)
Lemma pop_vars_added (added : list (Z * nat)) : forall fuel vs tab,
  NoDup (map fst (tab ++ added)) -> length added <= fuel ->
  pop_vars fuel (vs ++ map fst added) (tab ++ added) (length vs) = (vs, tab).
Proof.
  induction added as [|[x n] added IH] using rev_ind; intros fuel vs tab Hnd Hf.
  - cbn [map]. rewrite !app_nil_r. destruct fuel; cbn [pop_vars]; [reflexivity|].
    rewrite Nat.ltb_irrefl. reflexivity.
  - rewrite app_length in Hf. cbn in Hf. destruct fuel as [|fuel]; [lia|].
    cbn [pop_vars]. rewrite map_app. cbn [map fst]. rewrite !app_assoc.
    assert (Hlt : (length vs <? length ((vs ++ map fst added) ++ [x])) = true).
    { apply Nat.ltb_lt. rewrite !app_length. cbn. lia. }
    rewrite Hlt, removelast_app_last, last_app_last.
    rewrite app_assoc, map_app in Hnd. cbn [map fst] in Hnd.
    rewrite remove_name_app_last.
    + apply IH; [|lia]. apply NoDup_remove_1 in Hnd. now rewrite app_nil_r in Hnd.
    + apply NoDup_remove_2 in Hnd. now rewrite app_nil_r in Hnd.
Qed.

(* ------------------------------------------------------------------ what edits cannot change *)

Record frame (f0 f : func) : Prop := mk_frame {
  fr_orig : original_insns f = original_insns f0;
  fr_ovn : original_vars_num f = original_vars_num f0;
  fr_gv : gvars f = gvars f0;
  fr_added : exists added, vars f = vars f0 ++ map fst added /\ regtab f = regtab f0 ++ added;
  fr_nodup : NoDup (reg_names f);
  fr_nums : NoDup (map snd (regtab f))
            /\ (forall p, In p (regtab f) -> snd p <= length (vars f) + length (gvars f));
  fr_lorig : map (fun l => (l_orig l, l_orig2 l)) (lrefs f) = map (fun l => (l_orig l, l_orig2 l)) (lrefs f0);
  fr_mc : machine_code f = machine_code f0 /\ call_addr f = call_addr f0 /\ faddr f = faddr f0;
  fr_nid : next_id f0 <= next_id f
}.

Lemma frame_refl f :
  NoDup (reg_names f) -> NoDup (map snd (regtab f)) ->
  (forall p, In p (regtab f) -> snd p <= length (vars f) + length (gvars f)) -> frame f f.
Proof.
  intros H H' H''. constructor; auto. exists []. cbn. now rewrite !app_nil_r.
Qed.

Lemma NoDup_app_last {A} (l : list A) x : NoDup l -> ~ In x l -> NoDup (l ++ [x]).
Proof.
  induction l as [|y t IH]; intros Hnd Hn; cbn.
  - constructor; [intros []|constructor].
  - inversion Hnd; subst. constructor.
    + rewrite in_app_iff. intros [Hin|[->|[]]]; [contradiction|]. apply Hn. now left.
    + apply IH; [assumption|]. intros Hin. apply Hn. now right.
Qed.

Lemma apply_edit_frame f0 f e : frame f0 f -> frame f0 (apply_edit f e).
Proof.
  intros [H1 H2 Hg [added [H3a H3b]] H4 [Hn1 Hn2] H5 H6 H7].
  destruct e as [pos lab pl rs|pos|pos pl rs|from to|pos b|name|k lab lab2]; cbn [apply_edit].
  - constructor; cbn; auto. exists added; auto.
  - constructor; cbn; auto. exists added; auto.
  - constructor; cbn; auto. exists added; auto.
  - destruct (nth_error (insns f) from); [|constructor; auto; exists added; auto].
    constructor; cbn; auto. exists added; auto.
  - constructor; cbn; auto. exists added; auto.
  - destruct (existsb (Z.eqb name) (reg_names f)) eqn:Ex.
    + constructor; auto. exists added; auto.
    + assert (Hn : ~ In name (reg_names f)).
      { intros Hin. assert (existsb (Z.eqb name) (reg_names f) = true).
        { apply existsb_exists. exists name. split; [exact Hin|apply Z.eqb_refl]. }
        congruence. }
      constructor; cbn; auto.
      * exists (added ++ [(name, new_reg_num f)]). rewrite H3a, H3b, map_app, !app_assoc. auto.
      * unfold reg_names in *. cbn. rewrite map_app. cbn. apply NoDup_app_last; assumption.
      * split.
        -- rewrite map_app. cbn. apply NoDup_app_last; [assumption|].
           intros Hin. apply in_map_iff in Hin. destruct Hin as [p [Hp Hin]].
           specialize (Hn2 p Hin). unfold new_reg_num in Hp. lia.
        -- intros p Hin. rewrite in_app_iff in Hin. rewrite app_length. cbn [length].
           destruct Hin as [Hin|[<-|[]]].
           ++ specialize (Hn2 p Hin). lia.
           ++ cbn. unfold new_reg_num. lia.
  - constructor; cbn; auto.
    + exists added; auto.
    + rewrite map_update_at; [exact H5|]. intros l. reflexivity.
Qed.

Lemma mutate_frame s : forall f0 f, frame f0 f -> frame f0 (mutate s f).
Proof.
  induction s as [|e s IH]; intros f0 f H; cbn [mutate fold_left]; [exact H|].
  apply IH. apply apply_edit_frame. exact H.
Qed.

(* ------------------------------------------------------------------ the main theorem *)

Lemma map_restore_dup m (ls : list lref) :
  (forall l, In l ls -> l_orig l = None /\ l_orig2 l = None) ->
  forall ls', map (fun l => (l_orig l, l_orig2 l)) ls'
              = map (fun l => (l_orig l, l_orig2 l)) (map (dup_lref m) ls) ->
  map restore_lref ls' = ls.
Proof.
  induction ls as [|l ls IH]; intros Hwf ls' Heq; destruct ls' as [|l' ls']; cbn in *; try discriminate.
  - reflexivity.
  - inversion Heq as [[Ho Ho2 Hrest]].
    rewrite (IH (fun x Hx => Hwf x (or_intror Hx)) ls' Hrest). f_equal.
    unfold restore_lref. rewrite Ho, Ho2.
    destruct (Hwf l (or_introl eq_refl)) as [A B]. destruct l; cbn in *. subst. reflexivity.
Qed.

(* restore after ANY edit script on the duplicate gives back the function, field by field;
   only the identity allocator has advanced *)
Theorem restore_mutate_dup f s :
  wf f ->
  restore (mutate s (dup f))
  = mkfunc (insns f) [] (vars f) (length (vars f)) (gvars f) (regtab f) (lrefs f)
           (next_id (mutate s (dup f))) (machine_code f) (call_addr f) (faddr f).
Proof.
  intros [Ho [Hnd [Hlt [Hrefs [Hl [Hcl [Hnt [Hv [Hnn Hnb]]]]]]]]].
  assert (Hfr : frame (dup f) (mutate s (dup f))) by (apply mutate_frame, frame_refl; assumption).
  destruct Hfr as [H1 H2 Hg [added [H3a H3b]] H4 Hnums H5 [H6a [H6b H6c]] H7].
  unfold restore. rewrite H1, H2, Hg, H3a, H3b, H6a, H6b, H6c. cbn [dup original_insns original_vars_num vars regtab
    gvars machine_code call_addr faddr].
  rewrite pop_vars_added.
  - cbn [fst snd]. rewrite (clear_label_data_id _ Hcl). f_equal.
    eapply map_restore_dup; [|exact H5]. intros l Hin. destruct (Hl l Hin) as [_ [_ [A B]]]. auto.
  - unfold reg_names in H4. rewrite H3b in H4. exact H4.
  - rewrite app_length, map_length. lia.
Qed.

(* while the generator works, every register -- the function's own, the hard-register-tied globals and
   the generator's temporaries -- has its own number (a temp never aliases an existing register),
   and no name is declared twice *)
Theorem working_regs_distinct f s :
  wf f ->
  NoDup (map snd (regtab (mutate s (dup f)))) /\ NoDup (reg_names (mutate s (dup f)))
  /\ gvars (mutate s (dup f)) = gvars f
  /\ exists added, regtab (mutate s (dup f)) = regtab f ++ added.
Proof.
  intros [Ho [Hnd [Hlt [Hrefs [Hl [Hcl [Hnt [Hv [Hnn Hnb]]]]]]]]].
  assert (Hfr : frame (dup f) (mutate s (dup f))) by (apply mutate_frame, frame_refl; assumption).
  destruct Hfr as [H1 H2 Hg [added [H3a H3b]] H4 [Hn1 Hn2] H5 H6 H7].
  repeat split; auto. exists added. exact H3b.
Qed.

Theorem gen_preserves_view f s : wf f -> view (restore (mutate s (dup f))) = view f.
Proof. intros H. rewrite restore_mutate_dup by exact H. reflexivity. Qed.

(* ------------------------------------------------------------------ the working copy *)

Lemma copy_insns_length m l base : length (copy_insns m l base) = length l.
Proof. revert base; induction l as [|i l IH]; intros base; cbn; auto. Qed.

Lemma copy_insns_ids m l base : map iid (copy_insns m l base) = seq base (length l).
Proof. revert base; induction l as [|i l IH]; intros base; cbn; [reflexivity|]. now rewrite IH. Qed.

Lemma copy_insns_shape m l base :
  map (fun i => (is_label i, payload i)) (copy_insns m l base) = map (fun i => (is_label i, payload i)) l.
Proof. revert base; induction l as [|i l IH]; intros base; cbn; [reflexivity|]. now rewrite IH. Qed.

Lemma label_ids_copy m l base :
  label_ids (copy_insns m l base) = map snd (label_map l base).
Proof.
  revert base; induction l as [|i l IH]; intros base; cbn; [reflexivity|].
  unfold label_ids in *. cbn. destruct (is_label i); cbn; rewrite IH; reflexivity.
Qed.

Lemma label_map_fst l base : map fst (label_map l base) = label_ids l.
Proof.
  revert base; induction l as [|i l IH]; intros base; cbn; [reflexivity|].
  unfold label_ids in *. cbn. destruct (is_label i); cbn; rewrite IH; reflexivity.
Qed.

Lemma map_label_in m x : In x (map fst m) -> In (map_label m x) (map snd m).
Proof.
  unfold map_label. induction m as [|[a b] m IH]; cbn; [intros []|].
  intros [->|Hin].
  - rewrite Nat.eqb_refl. cbn. now left.
  - destruct (Nat.eqb_spec a x); cbn; [now left|]. right. apply IH. exact Hin.
Qed.

(* every label operand of the working copy, and every lref, denotes a label OF THE WORKING COPY,
   whose identities are all new: generator edits on func->insns cannot reach the saved list *)
Theorem dup_working_copy_closed f :
  wf f ->
  (forall i r, In i (insns (dup f)) -> In r (refs i) -> In r (label_ids (insns (dup f))))
  /\ (forall l, In l (lrefs (dup f)) ->
        In (l_label l) (label_ids (insns (dup f)))
        /\ (forall x, l_label2 l = Some x -> In x (label_ids (insns (dup f)))))
  /\ (forall i, In i (insns (dup f)) -> next_id f <= iid i < next_id (dup f))
  /\ map (fun i => (is_label i, payload i)) (insns (dup f)) = map (fun i => (is_label i, payload i)) (insns f)
  /\ original_insns (dup f) = insns f.
Proof.
  intros [Ho [Hnd [Hlt [Hrefs [Hl [Hcl [Hnt [Hv [Hnn Hnb]]]]]]]]].
  set (m := label_map (insns f) (next_id f)).
  assert (Hlab : label_ids (insns (dup f)) = map snd m) by apply label_ids_copy.
  assert (Hfst : map fst m = label_ids (insns f)) by apply label_map_fst.
  split; [|split; [|split; [|split]]].
  - intros i r Hi Hr. rewrite Hlab. cbn [dup insns] in Hi. fold m in Hi.
    assert (G : forall l base, (forall j q, In j l -> In q (refs j) -> In q (map fst m)) ->
              In i (copy_insns m l base) -> In r (map snd m)).
    { induction l as [|j l IH]; intros base Hc Hin; cbn in Hin; [contradiction|].
      destruct Hin as [<-|Hin].
      - cbn in Hr. apply in_map_iff in Hr. destruct Hr as [q [<- Hq]].
        apply map_label_in. eapply Hc; [now left|exact Hq].
      - eapply IH; [|exact Hin]. intros j' q Hj' Hq. eapply Hc; [right; exact Hj'|exact Hq]. }
    eapply G; [|exact Hi]. intros j q Hj Hq. rewrite Hfst. eapply Hrefs; eauto.
  - intros l Hin. cbn [dup lrefs] in Hin. fold m in Hin. apply in_map_iff in Hin.
    destruct Hin as [l0 [<- Hl0]]. destruct (Hl l0 Hl0) as [A [B _]]. rewrite Hlab. cbn. split.
    + apply map_label_in. rewrite Hfst. exact A.
    + intros x Hx. destruct (l_label2 l0) as [y|] eqn:E; cbn in Hx; [|discriminate].
      inversion Hx; subst. apply map_label_in. rewrite Hfst. apply B. reflexivity.
  - intros i Hi. cbn [dup insns next_id] in *. fold m in Hi.
    assert (In (iid i) (map iid (copy_insns m (insns f) (next_id f)))) by (apply in_map; exact Hi).
    rewrite copy_insns_ids in H. apply in_seq in H. lia.
  - apply copy_insns_shape.
  - cbn [dup original_insns]. apply clear_label_data_id. exact Hcl.
Qed.

(* ------------------------------------------------------------------ MIR_gen *)

Lemma restore_wf f s : wf f -> wf (restore (mutate s (dup f))).
Proof.
  intros Hw. rewrite restore_mutate_dup by exact Hw.
  destruct Hw as [Ho [Hnd [Hlt [Hrefs [Hl [Hcl [Hnt [Hv [Hnn Hnb]]]]]]]]].
  assert (Hfr : frame (dup f) (mutate s (dup f))) by (apply mutate_frame, frame_refl; assumption).
  pose proof (fr_nid _ _ Hfr) as Hn. cbn [dup next_id] in Hn.
  unfold wf. cbn. repeat split; auto.
  - intros i Hi. specialize (Hlt i Hi). lia.
  - apply Hl; assumption.
  - apply Hl; assumption.
  - apply Hl; assumption.
  - apply Hl; assumption.
Qed.

Theorem gen_preserves f s code : wf f -> view (fst (gen s code f)) = view f /\ wf (fst (gen s code f)).
Proof.
  intros Hw. unfold gen. destruct (machine_code f); cbn [fst]; [split; [reflexivity|exact Hw]|].
  pose proof (gen_preserves_view f s Hw) as Hv. pose proof (restore_wf f s Hw) as Hw2.
  split; [exact Hv|exact Hw2].
Qed.

(* asking again: nothing changes and the same address comes back, whatever the second run of the
   generator would have done *)
Theorem gen_idempotent f s1 c1 s2 c2 :
  wf f ->
  gen s2 c2 (fst (gen s1 c1 f)) = (fst (gen s1 c1 f), snd (gen s1 c1 f))
  /\ snd (gen s1 c1 f) = faddr f.
Proof.
  intros Hw.
  assert (Hs : snd (gen s1 c1 f) = faddr f) by (unfold gen; destruct (machine_code f); reflexivity).
  split; [|exact Hs].
  assert (Hm : machine_code (fst (gen s1 c1 f)) <> None)
    by (unfold gen; destruct (machine_code f) eqn:E; cbn; congruence).
  assert (Hf : faddr (fst (gen s1 c1 f)) = faddr f).
  { unfold gen; destruct (machine_code f); cbn [fst faddr]; [reflexivity|].
    rewrite restore_mutate_dup by exact Hw. reflexivity. }
  unfold gen at 1. destruct (machine_code (fst (gen s1 c1 f))); [|congruence].
  rewrite Hf, Hs. reflexivity.
Qed.

Lemma nth_error_update_at {A} (l : list A) k g j :
  nth_error (update_at l k g) j = if Nat.eqb k j then option_map g (nth_error l j) else nth_error l j.
Proof.
  revert k j; induction l as [|x l IH]; intros [|k] [|j]; cbn; auto;
    try (destruct (Nat.eqb k j); reflexivity); try (destruct k; reflexivity).
Qed.

Lemma update_at_comm {A} (l : list A) i j g h :
  i <> j -> update_at (update_at l i g) j h = update_at (update_at l j h) i g.
Proof.
  revert i j; induction l as [|x l IH]; intros [|i] [|j] Hne; cbn; auto; try congruence.
  f_equal. apply IH. congruence.
Qed.

(* functions may be generated in any order: the two orders give the very same program state *)
Theorem gen_any_order p i j si ci sj cj :
  i <> j ->
  gen_at (gen_at p i si ci) j sj cj = gen_at (gen_at p j sj cj) i si ci.
Proof.
  intros Hne. unfold gen_at.
  destruct (nth_error p i) as [fi|] eqn:Ei; destruct (nth_error p j) as [fj|] eqn:Ej.
  - rewrite !nth_error_update_at.
    destruct (Nat.eqb_spec i j); [contradiction|]. destruct (Nat.eqb_spec j i); [congruence|].
    rewrite ?Ei, ?Ej. apply update_at_comm. exact Hne.
  - rewrite nth_error_update_at. destruct (Nat.eqb_spec i j); [contradiction|]. rewrite ?Ej, ?Ei. reflexivity.
  - rewrite nth_error_update_at. destruct (Nat.eqb_spec j i); [congruence|]. rewrite ?Ei, ?Ej. reflexivity.
  - rewrite ?Ei, ?Ej. reflexivity.
Qed.

(* generating function i leaves every other function of the program untouched *)
Theorem gen_at_others p i s c j : i <> j -> nth_error (gen_at p i s c) j = nth_error p j.
Proof.
  intros Hne. unfold gen_at. destruct (nth_error p i); [|reflexivity].
  rewrite nth_error_update_at. destruct (Nat.eqb_spec i j); [contradiction|reflexivity].
Qed.

(* ------------------------------------------------------------------ insn->data across the engines *)

Lemma clean_b_spec l : clean_b l = true <-> clean l.
Proof.
  unfold clean_b, clean. rewrite forallb_forall. split; intros H i Hi; specialize (H i Hi).
  - now apply negb_true_iff in H.
  - now rewrite H.
Qed.

Lemma set_data_false_id l : clean l -> map (set_data false) l = l.
Proof.
  induction l as [|i l IH]; intros H; cbn; [reflexivity|].
  rewrite IH by (intros j Hj; apply H; now right). f_equal.
  specialize (H i (or_introl eq_refl)). destruct i; cbn in *. subst. reflexivity.
Qed.

(* preparing a function for interpretation leaves no insn->data behind ... *)
Theorem icode_prepare_clean f : clean (insns (icode_prepare f)).
Proof.
  intros i Hi. cbn in Hi. rewrite map_map in Hi. apply in_map_iff in Hi.
  destruct Hi as [j [<- _]]. reflexivity.
Qed.

Theorem finish_interp_clean f : clean (insns (finish_interp f)).
Proof. intros i Hi. cbn in Hi. apply in_map_iff in Hi. destruct Hi as [j [<- _]]. reflexivity. Qed.

(* ... and changes nothing else: on a clean function it is the identity *)
Theorem icode_prepare_id f : clean (insns f) -> icode_prepare f = f.
Proof.
  intros H. unfold icode_prepare, icode_clear, icode_mark, with_data, with_insns. cbn.
  rewrite map_map. cbn.
  replace (map (fun x => set_data false (set_data true x)) (insns f)) with (map (set_data false) (insns f))
    by (apply map_ext; intros a; reflexivity).
  rewrite set_data_false_id by exact H. destruct f; reflexivity.
Qed.

Lemma finish_interp_id f : clean (insns f) -> finish_interp f = f.
Proof.
  intros H. unfold finish_interp, with_data, with_insns. cbn.
  rewrite set_data_false_id by exact H. destruct f; reflexivity.
Qed.

(* MIR_copy_insn copies the data field: copies of clean insns are clean, and only those *)
Lemma copy_insns_data m l base : map idata (copy_insns m l base) = map idata l.
Proof. revert base; induction l as [|i l IH]; intros base; cbn; [reflexivity|]. now rewrite IH. Qed.

Lemma clean_iff_data l : clean l <-> map idata l = map (fun _ => false) l.
Proof.
  unfold clean. induction l as [|i l IH]; cbn; [split; [reflexivity|intros _ j []]|].
  split.
  - intros H. rewrite (H i (or_introl eq_refl)). f_equal. apply IH. intros j Hj. apply H. now right.
  - intros H j Hj. injection H as H1 H2. destruct Hj as [<-|Hj]; [exact H1|]. apply IH; assumption.
Qed.

Lemma copy_insns_clean m l base : clean l <-> clean (copy_insns m l base).
Proof.
  rewrite !clean_iff_data, copy_insns_data.
  assert (E : forall (A B : Type) (x y : list A) (c : B), length x = length y ->
              map (fun _ => c) x = map (fun _ => c) y).
  { intros A B x. induction x as [|a x IHx]; intros [|b y] c Hl; cbn in *; try discriminate; [reflexivity|].
    f_equal. apply IHx. lia. }
  rewrite (E _ _ (copy_insns m l base) l false) by apply copy_insns_length. reflexivity.
Qed.

(* the generator's working copy, and what the inliner puts into a caller, carry no stale data exactly
   when the function they are copied from is clean *)
Theorem dup_working_copy_clean f : clean (insns f) <-> clean (insns (dup f)).
Proof. cbn [dup insns]. apply copy_insns_clean. Qed.

Theorem inline_copy_clean callee base : clean (insns callee) <-> clean (inline_copy callee base).
Proof. unfold inline_copy. apply copy_insns_clean. Qed.

Theorem gen_keeps_clean f s code : wf f -> clean (insns f) -> clean (insns (fst (gen s code f))).
Proof.
  intros Hw Hc. unfold gen. destruct (machine_code f); cbn [fst]; [exact Hc|].
  rewrite restore_mutate_dup by exact Hw. exact Hc.
Qed.

(* histories of one function: prepared for interpretation, interpreter data dropped, generated *)
Inductive hop : Type := HPrepare | HFinishInterp | HGen (s : list edit) (code : Z).
Definition hstep (f : func) (o : hop) : func :=
  match o with
  | HPrepare => icode_prepare f
  | HFinishInterp => finish_interp f
  | HGen s code => fst (gen s code f)
  end.

Lemma hstep_ok f o : wf f -> clean (insns f) -> wf (hstep f o) /\ clean (insns (hstep f o)).
Proof.
  intros Hw Hc. destruct o as [| |s code]; cbn [hstep].
  - rewrite icode_prepare_id by exact Hc. split; assumption.
  - rewrite finish_interp_id by exact Hc. split; assumption.
  - split; [apply gen_preserves; exact Hw|apply gen_keeps_clean; assumption].
Qed.

(* after ANY history of interpretation and generation of a function, in any order and any number of
   times, the function is intact (its view is the original one), the copy the generator would work on
   is clean, and so is the copy an inlining caller would get *)
Theorem any_history_keeps_function f ops :
  wf f -> clean (insns f) ->
  let f' := fold_left hstep ops f in
  wf f' /\ view f' = view f /\ clean (insns (dup f')) /\ forall base, clean (inline_copy f' base).
Proof.
  intros Hw Hc. cbn zeta.
  assert (G : wf (fold_left hstep ops f) /\ clean (insns (fold_left hstep ops f))
              /\ view (fold_left hstep ops f) = view f).
  { revert f Hw Hc. induction ops as [|o ops IH]; intros f Hw Hc; cbn [fold_left]; [auto|].
    destruct (hstep_ok f o Hw Hc) as [Hw1 Hc1].
    destruct (IH _ Hw1 Hc1) as [A [B C]]. split; [exact A|]. split; [exact B|].
    rewrite C. destruct o as [| |s code]; cbn [hstep].
    - now rewrite icode_prepare_id.
    - now rewrite finish_interp_id.
    - apply gen_preserves. exact Hw. }
  destruct G as [A [B C]]. split; [exact A|]. split; [exact C|]. split.
  - apply (proj1 (dup_working_copy_clean _)). exact B.
  - intros base. apply (proj1 (inline_copy_clean _ base)). exact B.
Qed.

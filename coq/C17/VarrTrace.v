(* C17: the allocator events of the VARR container (mir-varr.h) as modelled in C19/Varr.v, and the
   proof that every operation script emits a trace the contract monitor accepts.
   VARR_CREATE mallocs the descriptor and the buffer; expand / tailor call MIR_realloc with
   (old capacity * sizeof T, new capacity * sizeof T) -- the event [vstep] reports; VARR_DESTROY
   frees both.  The allocator may return the same or any other non-null pointer on realloc. *)
From Coq Require Import List NArith ZArith Bool Lia FMapPositive.
From MirV Require Import C19.Varr C19.VarrProofs C17.Alloc C17.AllocProofs.
Import ListNotations.
Local Open Scope N_scope.

Section VarrTrace.
  Variable esz : N.       (* sizeof (T) *)
  Variable dsz : N.       (* sizeof (VARR (T)) *)
  Variable d : N.         (* the descriptor block *)

  (* events of the ops run from state v with buffer block p; qs supplies the pointers returned by
     the successive reallocs; returns the events and the final buffer block *)
  Fixpoint varr_events (v : varr) (p : N) (ops : list vop) (qs : list N) : list event * N :=
    match ops with
    | [] => ([], p)
    | o :: r =>
        match vstep v o with
        | None => ([], p)            (* rejected op: the C code is undefined there, the script stops *)
        | Some (v', _, None) => varr_events v' p r qs
        | Some (v', _, Some (old, new)) =>
            let q := hd p qs in
            let '(t, pf) := varr_events v' q r (tl qs) in
            (Realloc p (N.of_nat old * esz) (N.of_nat new * esz) q :: t, pf)
        end
    end.

  Definition varr_trace (init : nat) (p : N) (ops : list vop) (qs : list N) : list event :=
    let v := vcreate init in
    let '(t, pf) := varr_events v p ops qs in
    Malloc d dsz :: Malloc p (N.of_nat (cap v) * esz) :: t ++ [Free pf; Free d; Finish].
End VarrTrace.

(* ---------- proofs *)
Lemma run_app : forall a b s, run s (a ++ b) = match run s a with Some s' => run s' b | None => None end.
Proof.
  induction a as [|e a IH]; intros b s; simpl; [reflexivity|].
  destruct (step s e); [apply IH | reflexivity].
Qed.

(* monitor state while a VARR is alive: exactly the descriptor and the buffer are live *)
Definition varr_state (d dsz p sz : N) (s : mstate) : Prop :=
  (forall k, mget k (heap s) = if k =? d then Some dsz else if k =? p then Some sz else None) /\
  (forall k, mget k (pages s) = None).

Lemma step_realloc d dsz p sz new q s :
  d <> 0 -> p <> 0 -> p <> d -> q <> 0 -> q <> d ->
  varr_state d dsz p sz s ->
  exists s', step s (Realloc p sz new q) = Some s' /\ varr_state d dsz q new s'.
Proof.
  intros Hd Hp Hpd Hq Hqd [HH HP].
  unfold step, heap_step, heap_pre, page_step. simpl.
  assert (Ep : mget p (heap s) = Some sz).
  { rewrite HH. destruct (N.eqb_spec p d); [contradiction|]. rewrite N.eqb_refl. reflexivity. }
  rewrite Ep. simpl. rewrite N.eqb_refl, orb_true_r.
  destruct (N.eqb_spec q 0); [contradiction|].
  rewrite mget_del.
  assert (Eq' : (if p =? q then None else mget q (heap s)) = None).
  { destruct (N.eqb_spec p q); [reflexivity|]. rewrite HH.
    destruct (N.eqb_spec q d); [contradiction|]. destruct (N.eqb_spec q p); [congruence | reflexivity]. }
  rewrite Eq'. eexists. split; [reflexivity|]. split; simpl; [|exact HP].
  intros k. rewrite mget_set, mget_del, HH.
  destruct (N.eqb_spec q k) as [->|Hqk].
  - destruct (N.eqb_spec k d); [contradiction|]. rewrite N.eqb_refl. reflexivity.
  - destruct (N.eqb_spec k d) as [->|Hkd].
    + destruct (N.eqb_spec p d); [contradiction | reflexivity].
    + destruct (N.eqb_spec k q); [congruence|]. destruct (N.eqb_spec p k) as [->|Hpk]; [reflexivity|].
      destruct (N.eqb_spec k p); [congruence | reflexivity].
Qed.

Lemma varr_events_run esz d dsz :
  d <> 0 ->
  forall ops v p qs s,
    wf v -> p <> 0 -> p <> d -> Forall (fun q => q <> 0 /\ q <> d) qs ->
    varr_state d dsz p (N.of_nat (cap v) * esz) s ->
    exists s' sz, run s (fst (varr_events esz v p ops qs)) = Some s' /\
                  varr_state d dsz (snd (varr_events esz v p ops qs)) sz s' /\
                  snd (varr_events esz v p ops qs) <> 0 /\ snd (varr_events esz v p ops qs) <> d.
Proof.
  intros Hd. induction ops as [|o r IH]; intros v p qs s Hwf Hp Hpd Hqs Hst; simpl.
  - exists s, (N.of_nat (cap v) * esz). auto.
  - destruct (vstep v o) as [[[v' out] ev]|] eqn:E.
    + pose proof (vstep_wf _ _ _ _ _ Hwf E) as Hwf'.
      destruct ev as [[old new]|].
      * destruct (vstep_realloc_true _ _ _ _ _ _ Hwf E) as (Ho & Hn & _). subst old new.
        assert (Hq : hd p qs <> 0 /\ hd p qs <> d).
        { destruct qs as [|q qs']; simpl; [auto|]. inversion Hqs; auto. }
        assert (Htl : Forall (fun q => q <> 0 /\ q <> d) (tl qs)).
        { destruct qs as [|q qs']; simpl; [constructor|]. inversion Hqs; auto. }
        destruct Hq as [Hq0 Hqd].
        destruct (step_realloc d dsz p (N.of_nat (cap v) * esz) (N.of_nat (cap v') * esz) (hd p qs) s
                    Hd Hp Hpd Hq0 Hqd Hst) as (s1 & Hs1 & Hst1).
        specialize (IH v' (hd p qs) (tl qs) s1 Hwf' Hq0 Hqd Htl Hst1).
        destruct (varr_events esz v' (hd p qs) r (tl qs)) as [t pf] eqn:EV. simpl in *.
        rewrite Hs1. exact IH.
      * pose proof (vstep_noev_cap _ _ _ _ Hwf E) as Hc. rewrite <- Hc in Hst.
        apply IH; auto.
    + exists s, (N.of_nat (cap v) * esz). auto.
Qed.

Lemma varr_state_init d dsz p sz :
  d <> 0 -> p <> 0 -> p <> d ->
  exists s, run st0 [Malloc d dsz; Malloc p sz] = Some s /\ varr_state d dsz p sz s.
Proof.
  intros Hd Hp Hpd. simpl. unfold heap_step. simpl.
  destruct (N.eqb_spec d 0); [contradiction|]. rewrite mget_empty.
  simpl. unfold heap_step. simpl.
  destruct (N.eqb_spec p 0); [contradiction|]. rewrite mget_set, mget_empty.
  destruct (N.eqb_spec d p); [congruence|].
  eexists. split; [reflexivity|]. split; simpl.
  - intros k. rewrite !mget_set, mget_empty.
    destruct (N.eqb_spec p k) as [->|Hpk].
    + destruct (N.eqb_spec k d); [contradiction|]. rewrite N.eqb_refl. reflexivity.
    + destruct (N.eqb_spec d k) as [->|Hdk]; [rewrite N.eqb_refl; reflexivity|].
      destruct (N.eqb_spec k d); [congruence|]. destruct (N.eqb_spec k p); [congruence | reflexivity].
  - intros k. apply mget_empty.
Qed.

Lemma varr_state_finish d dsz p sz s :
  d <> 0 -> p <> 0 -> p <> d -> varr_state d dsz p sz s ->
  exists s', run s [Free p; Free d; Finish] = Some s'.
Proof.
  intros Hd Hp Hpd [HH HP]. simpl. unfold heap_step, heap_pre. simpl.
  assert (Ep : mget p (heap s) = Some sz).
  { rewrite HH. destruct (N.eqb_spec p d); [contradiction|]. rewrite N.eqb_refl. reflexivity. }
  rewrite Ep. simpl. rewrite orb_true_r. simpl.
  unfold heap_step, heap_pre. simpl. rewrite mget_del.
  assert (Ed : (if p =? d then None else mget d (heap s)) = Some dsz).
  { destruct (N.eqb_spec p d); [contradiction|]. rewrite HH, N.eqb_refl. reflexivity. }
  rewrite Ed. simpl. rewrite orb_true_r. simpl.
  assert (EH : PM.is_empty (mdel d (mdel p (heap s))) = true).
  { apply is_empty_spec. intros k. rewrite !mget_del, HH.
    destruct (N.eqb_spec d k) as [->|Hdk]; [reflexivity|].
    destruct (N.eqb_spec p k) as [->|Hpk]; [reflexivity|].
    destruct (N.eqb_spec k d); [congruence|]. destruct (N.eqb_spec k p); [congruence | reflexivity]. }
  assert (EP : PM.is_empty (pages s) = true) by (apply is_empty_spec; exact HP).
  rewrite EH, EP. simpl. eexists. reflexivity.
Qed.

Theorem varr_traces_accepted_lemma :
  forall esz dsz d init p ops qs,
    d <> 0 -> p <> 0 -> p <> d -> Forall (fun q => q <> 0 /\ q <> d) qs ->
    accepts (varr_trace esz dsz d init p ops qs) = true.
Proof.
  intros esz dsz d init p ops qs Hd Hp Hpd Hqs. unfold varr_trace, accepts.
  destruct (varr_state_init d dsz p (N.of_nat (cap (vcreate init)) * esz) Hd Hp Hpd) as (s0 & R0 & S0).
  destruct (varr_events_run esz d dsz Hd ops (vcreate init) p qs s0 (vcreate_wf init) Hp Hpd Hqs S0)
    as (s1 & sz & R1 & S1 & N1 & N2).
  destruct (varr_events esz (vcreate init) p ops qs) as [t pf] eqn:EV. simpl fst in *. simpl snd in *.
  destruct (varr_state_finish d dsz pf sz s1 Hd N1 N2 S1) as (s2 & R2).
  change (Malloc d dsz :: Malloc p (N.of_nat (cap (vcreate init)) * esz) :: t ++ [Free pf; Free d; Finish])
    with ([Malloc d dsz; Malloc p (N.of_nat (cap (vcreate init)) * esz)] ++ t ++ [Free pf; Free d; Finish]).
  rewrite run_app, R0, run_app, R1, R2. reflexivity.
Qed.

(* non-vacuity: a script with two reallocations to different blocks *)
Example varr_trace_example :
  varr_trace 8 32 1 2 2 [VPush 1%Z; VPush 2%Z; VPush 3%Z; VTailor 5; VPop] [3; 2] =
  [Malloc 1 32; Malloc 2 16; Realloc 2 16 32 3; Realloc 3 32 40 2; Free 2; Free 1; Finish].
Proof. vm_compute. reflexivity. Qed.

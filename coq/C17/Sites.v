(* C17: facts about the regenerated call-site lists (coq/gen/C17Sites.v, written by
   tools/tr_c17_sites.py from the current tree on every run). *)
From Coq Require Import List String Bool Arith.
From MirV Require Import gen.C17Sites.
Import ListNotations.
Local Open Scope string_scope.

(* the only places allowed to touch libc / the OS: the default allocators of mir-alloc-default.c and
   mir-code-alloc-default.c (used when MIR_init2 gets NULL) *)
Definition allowed_direct : list (string * string * string) :=
  [ ("mir", "default_malloc", "malloc"); ("mir", "default_calloc", "calloc");
    ("mir", "default_realloc", "realloc"); ("mir", "default_free", "free");
    ("mir", "default_mem_map", "mmap"); ("mir", "default_mem_unmap", "munmap");
    ("mir", "default_mem_protect", "mprotect") ].

Definition site_eqb (x y : string * string * string) : bool :=
  let '(a, b, c) := x in let '(a', b', c') := y in
  String.eqb a a' && String.eqb b b' && String.eqb c c'.
Definition site_allowed (x : string * string * string) : bool := existsb (site_eqb x) allowed_direct.

Definition has_suffix (suf s : string) : bool :=
  Nat.leb (String.length suf) (String.length s)
  && String.eqb (substring (String.length s - String.length suf) (String.length suf) s) suf.
(* VARR_<T>expand / VARR_<T>tailor: the two functions of mir-varr.h modelled in C19/Varr.v *)
Definition is_varr_resize (f : string) : bool :=
  String.prefix "VARR_" f && (has_suffix "expand" f || has_suffix "tailor" f).

Definition wrapper_header (f : string) : bool :=
  String.eqb f "mir-alloc.h" || String.eqb f "mir-code-alloc.h".

Lemma site_eqb_eq x y : site_eqb x y = true -> x = y.
Proof.
  destruct x as [[a b] c], y as [[a' b'] c']. simpl.
  rewrite !andb_true_iff, !String.eqb_eq. intros [[-> ->] ->]. reflexivity.
Qed.

Lemma direct_sites_allowed : forall x, In x direct_sites -> In x allowed_direct.
Proof.
  assert (H : forallb site_allowed direct_sites = true) by (vm_compute; reflexivity).
  rewrite forallb_forall in H. intros x Hx. specialize (H x Hx). unfold site_allowed in H.
  apply existsb_exists in H. destruct H as (y & Hy & E). apply site_eqb_eq in E. subst. exact Hy.
Qed.

Lemma realloc_callers_varr : forall u f, In (u, f) realloc_callers -> is_varr_resize f = true.
Proof.
  assert (H : forallb (fun x => is_varr_resize (snd x)) realloc_callers = true) by (vm_compute; reflexivity).
  rewrite forallb_forall in H. intros u f Hx. apply (H (u, f) Hx).
Qed.

Lemma realloc_callers_nonempty : realloc_callers <> [].
Proof. vm_compute. discriminate. Qed.

Lemma callback_uses_wrappers : forall f c, In (f, c) callback_uses -> f = "mir-alloc.h" \/ f = "mir-code-alloc.h".
Proof.
  assert (H : forallb (fun x => wrapper_header (fst x)) callback_uses = true) by (vm_compute; reflexivity).
  rewrite forallb_forall in H. intros f c Hx. specialize (H (f, c) Hx). unfold wrapper_header in H. simpl in H.
  apply orb_true_iff in H. rewrite !String.eqb_eq in H. exact H.
Qed.

(* the translator is not blind: it sees the seven default callbacks' libc calls, the VARR resize functions and the
   callback uses of the wrapper headers (otherwise the three facts above would hold vacuously) *)
Lemma sites_seen :
  (forall x, In x allowed_direct -> In x direct_sites) /\ realloc_callers <> [] /\
  (forall c, In c ["malloc"; "calloc"; "realloc"; "free"] -> In ("mir-alloc.h", c) callback_uses) /\
  (forall c, In c ["mem_map"; "mem_unmap"; "mem_protect"] -> In ("mir-code-alloc.h", c) callback_uses).
Proof.
  assert (H1 : forallb (fun x => existsb (site_eqb x) direct_sites) allowed_direct = true) by (vm_compute; reflexivity).
  assert (H3 : forallb (fun c => existsb (fun y => String.eqb (fst y) "mir-alloc.h" && String.eqb (snd y) c) callback_uses)
                       ["malloc"; "calloc"; "realloc"; "free"] = true) by (vm_compute; reflexivity).
  assert (H4 : forallb (fun c => existsb (fun y => String.eqb (fst y) "mir-code-alloc.h" && String.eqb (snd y) c) callback_uses)
                       ["mem_map"; "mem_unmap"; "mem_protect"] = true) by (vm_compute; reflexivity).
  rewrite forallb_forall in H1, H3, H4.
  split; [|split; [exact realloc_callers_nonempty|split]].
  - intros x Hx. specialize (H1 x Hx). apply existsb_exists in H1. destruct H1 as (y & Hy & E).
    apply site_eqb_eq in E. subst. exact Hy.
  - intros c Hc. specialize (H3 c Hc). apply existsb_exists in H3. destruct H3 as ([f c'] & Hy & E).
    simpl in E. apply andb_true_iff in E. destruct E as [E1 E2]. apply String.eqb_eq in E1, E2. subst. exact Hy.
  - intros c Hc. specialize (H4 c Hc). apply existsb_exists in H4. destruct H4 as ([f c'] & Hy & E).
    simpl in E. apply andb_true_iff in E. destruct E as [E1 E2]. apply String.eqb_eq in E1, E2. subst. exact Hy.
Qed.

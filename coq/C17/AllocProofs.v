(* C17: proofs about the allocator-contract monitor (Alloc.v). *)
From Coq Require Import List NArith Bool FMapPositive Lia.
From MirV Require Import C17.Alloc.
Import ListNotations.
Local Open Scope N_scope.

(* ---------- N-keyed maps *)
Lemma succ_pos_inj a b : N.succ_pos a = N.succ_pos b -> a = b.
Proof. intros H. rewrite <- (N.pos_pred_succ a), <- (N.pos_pred_succ b), H. reflexivity. Qed.

Lemma mget_empty {V} k : mget k (PM.empty V) = None.
Proof. apply PM.gempty. Qed.

Lemma mget_set {V} k k' (v : V) m : mget k' (mset k v m) = if k =? k' then Some v else mget k' m.
Proof.
  unfold mget, mset. destruct (N.eqb_spec k k') as [->|Hne].
  - apply PM.gss.
  - apply PM.gso. intros H. apply Hne. symmetry. apply succ_pos_inj; exact H.
Qed.

Lemma mget_del {V} k k' (m : PM.t V) : mget k' (mdel k m) = if k =? k' then None else mget k' m.
Proof.
  unfold mget, mdel. destruct (N.eqb_spec k k') as [->|Hne].
  - apply PM.grs.
  - apply PM.gro. intros H. apply Hne. symmetry. apply succ_pos_inj; exact H.
Qed.

Lemma mget_upd {V} k k' (v : option V) m : mget k' (mupd k v m) = if k =? k' then v else mget k' m.
Proof. destruct v; simpl; [apply mget_set | apply mget_del]. Qed.

Lemma is_empty_spec {V} (m : PM.t V) : PM.is_empty m = true <-> forall k, mget k m = None.
Proof.
  split.
  - intros H k. apply PM.is_empty_2 in H. apply PM.Empty_alt. exact H.
  - intros H. apply PM.is_empty_1. apply PM.Empty_alt. intros a.
    specialize (H (Pos.pred_N a)). unfold mget in H.
    assert (E : N.succ_pos (Pos.pred_N a) = a).
    { pose proof (N.succ_pos_spec (Pos.pred_N a)) as S. rewrite N.succ_pos_pred in S.
      injection S; auto. }
    rewrite E in H. exact H.
Qed.

(* ---------- "last effect" *)
Lemma snoc_case {A} (l : list A) : l = [] \/ exists l' a, l = l' ++ [a].
Proof. destruct l using rev_ind; [left; reflexivity | right; eauto]. Qed.

Section LastEffP.
  Context {K V : Type} (eff : event -> K -> option V) (dflt : V).
  Notation LE := (last_eff eff dflt).

  Lemma last_eff_nil k v : LE [] k v <-> v = dflt.
  Proof.
    split.
    - intros [(x & e & y & H & _)|[H _]]; auto. destruct x; discriminate.
    - intros ->. right. split; auto. intros e' [].
  Qed.

  Lemma last_eff_snoc pre e k v :
    LE (pre ++ [e]) k v <-> match eff e k with Some v' => v = v' | None => LE pre k v end.
  Proof.
    split.
    - intros [(x & e0 & y & H & He & Hy)|[Hv Hall]].
      + destruct (snoc_case y) as [->|(y' & l & ->)].
        * apply app_inj_tail in H. destruct H as [-> ->]. rewrite He. reflexivity.
        * change (x ++ e0 :: y' ++ [l]) with (x ++ (e0 :: y') ++ [l]) in H.
          rewrite app_assoc in H. apply app_inj_tail in H. destruct H as [-> ->].
          rewrite (Hy l) by (apply in_or_app; right; left; reflexivity).
          left. exists x, e0, y'. split; auto. split; auto.
          intros e' Hin. apply Hy. apply in_or_app; left; exact Hin.
      + rewrite (Hall e) by (apply in_or_app; right; left; reflexivity).
        right. split; auto. intros e' Hin. apply Hall. apply in_or_app; left; exact Hin.
    - destruct (eff e k) eqn:E.
      + intros ->. left. exists pre, e, []. split; auto. split; auto. intros e' [].
      + intros [(x & e0 & y & -> & He & Hy)|[Hv Hall]].
        * left. exists x, e0, (y ++ [e]). split; [rewrite <- app_assoc; reflexivity|].
          split; auto. intros e' Hin. apply in_app_or in Hin. destruct Hin as [Hin|[<-|[]]]; auto.
        * right. split; auto. intros e' Hin. apply in_app_or in Hin.
          destruct Hin as [Hin|[<-|[]]]; auto.
  Qed.

  Lemma last_eff_fun pre : forall k v1 v2, LE pre k v1 -> LE pre k v2 -> v1 = v2.
  Proof.
    induction pre as [|e pre IH] using rev_ind; intros k v1 v2 H1 H2.
    - apply last_eff_nil in H1, H2. congruence.
    - apply last_eff_snoc in H1, H2. destruct (eff e k); [congruence | eauto].
  Qed.

  Lemma last_eff_total pre : forall k, exists v, LE pre k v.
  Proof.
    induction pre as [|e pre IH] using rev_ind; intros k.
    - exists dflt. apply last_eff_nil. reflexivity.
    - destruct (eff e k) as [v|] eqn:E.
      + exists v. apply last_eff_snoc. rewrite E. reflexivity.
      + destruct (IH k) as [v Hv]. exists v. apply last_eff_snoc. rewrite E. exact Hv.
  Qed.
End LastEffP.

(* ---------- invariant tying the monitor state to the declarative view *)
Definition heap_inv (pre : list event) (h : PM.t N) : Prop :=
  forall p, last_eff heap_eff None pre p (mget p h).
Definition page_inv (pre : list event) (pg : PM.t bool) : Prop :=
  forall k, last_eff page_eff None pre k (mget k pg).
Definition Inv (pre : list event) (s : mstate) : Prop := heap_inv pre (heap s) /\ page_inv pre (pages s).

Lemma heap_view pre h p v : heap_inv pre h -> (last_eff heap_eff None pre p v <-> mget p h = v).
Proof.
  intros HI. split.
  - intros H. symmetry. eapply last_eff_fun; [exact H | apply HI].
  - intros <-. apply HI.
Qed.

Lemma page_view pre pg k v : page_inv pre pg -> (last_eff page_eff None pre k v <-> mget k pg = v).
Proof.
  intros HI. split.
  - intros H. symmetry. eapply last_eff_fun; [exact H | apply HI].
  - intros <-. apply HI.
Qed.

Lemma Inv_init : Inv [] st0.
Proof.
  split; intros k; apply last_eff_nil; simpl; rewrite mget_empty; reflexivity.
Qed.

(* ----- heap step *)
Definition heap_ok (pre : list event) (e : event) : Prop :=
  (forall p, e = Free p -> p = 0 \/ exists n, live pre p n) /\
  (forall p old new q, e = Realloc p old new q -> (p = 0 /\ old = 0) \/ live pre p old) /\
  (forall p, e = Use p -> exists n, live pre p n) /\
  (forall q n, alloc_of e = Some (q, n) -> q <> 0 /\ (dead pre q \/ release_of e = Some q)).

Lemma is_some_live pre h p : heap_inv pre h -> (is_some (mget p h) = true <-> exists n, live pre p n).
Proof.
  intros HI. unfold live. split.
  - destruct (mget p h) as [n|] eqn:E; [|discriminate]. intros _. exists n.
    apply (heap_view _ _ _ _ HI). exact E.
  - intros [n Hn]. apply (heap_view _ _ _ _ HI) in Hn. rewrite Hn. reflexivity.
Qed.

Lemma opt_is_live pre h p n : heap_inv pre h -> (opt_is (mget p h) n = true <-> live pre p n).
Proof.
  intros HI. unfold live. rewrite (heap_view _ _ _ _ HI). unfold opt_is.
  destruct (mget p h) as [m|].
  - rewrite N.eqb_eq. split; congruence.
  - split; discriminate.
Qed.

Lemma heap_pre_spec pre h e : heap_inv pre h ->
  (heap_pre h e = true <->
   (forall p, e = Free p -> p = 0 \/ exists n, live pre p n) /\
   (forall p old new q, e = Realloc p old new q -> (p = 0 /\ old = 0) \/ live pre p old) /\
   (forall p, e = Use p -> exists n, live pre p n)).
Proof.
  intros HI. destruct e; simpl;
    try (split; [intros _; repeat split; intros; discriminate | reflexivity]).
  - (* Realloc *)
    rewrite orb_true_iff, andb_true_iff, !N.eqb_eq, (opt_is_live _ _ _ _ HI). split.
    + intros H. repeat split; try (intros; discriminate).
      intros p' o' n' q' E. injection E as <- <- <- <-. exact H.
    + intros (_ & H & _). apply (H _ _ _ _ eq_refl).
  - (* Free *)
    rewrite orb_true_iff, N.eqb_eq, (is_some_live _ _ _ HI). split.
    + intros H. repeat split; try (intros; discriminate).
      intros p' E. injection E as <-. exact H.
    + intros (H & _). apply (H _ eq_refl).
  - (* Use *)
    rewrite (is_some_live _ _ _ HI). split.
    + intros H. repeat split; try (intros; discriminate).
      intros p' E. injection E as <-. exact H.
    + intros (_ & _ & H). apply (H _ eq_refl).
Qed.

Lemma heap_step_ok pre h e : heap_inv pre h -> (heap_step h e <> None <-> heap_ok pre e).
Proof.
  intros HI. unfold heap_step, heap_ok.
  pose proof (heap_pre_spec pre h e HI) as HP.
  destruct (heap_pre h e).
  - assert (P : forall A B : Prop, B -> (A <-> A /\ B)) by tauto.
    destruct HP as [HP _]. specialize (HP eq_refl). destruct HP as (H1 & H2 & H3).
    destruct (alloc_of e) as [[q n]|] eqn:EA.
    + set (h1 := match release_of e with Some r => mdel r h | None => h end).
      assert (F : mget q h1 = None <-> dead pre q \/ release_of e = Some q).
      { unfold dead. rewrite (heap_view _ _ _ _ HI). unfold h1.
        destruct (release_of e) as [r|].
        - rewrite mget_del. destruct (N.eqb_spec r q) as [->|Hne].
          + split; auto.
          + split; [auto | intros [?|E]; [auto | congruence]].
        - split; [auto | intros [?|?]; [auto | discriminate]]. }
      destruct (N.eqb_spec q 0) as [->|Hq].
      * split; [congruence|]. intros (_ & _ & _ & H). destruct (H _ _ eq_refl) as [H0 _]. congruence.
      * destruct (mget q h1) as [sz|] eqn:EM.
        -- split; [congruence|]. intros (_ & _ & _ & H). destruct (H _ _ eq_refl) as [_ H0].
           apply F in H0. discriminate.
        -- split; [|congruence]. intros _. repeat split; auto.
           ++ injection H as <- _. exact Hq.
           ++ injection H as <- _. apply F. reflexivity.
    + split; [|congruence]. intros _. repeat split; auto; discriminate.
  - split; [congruence|]. intros (H1 & H2 & H3 & _). destruct HP as [_ HP].
    discriminate HP. repeat split; assumption.
Qed.

Lemma heap_step_inv pre h e h' : heap_inv pre h -> heap_step h e = Some h' -> heap_inv (pre ++ [e]) h'.
Proof.
  intros HI HS p. apply last_eff_snoc. unfold heap_step in HS.
  destruct (heap_pre h e); [|discriminate].
  unfold heap_eff.
  set (h1 := match release_of e with Some r => mdel r h | None => h end) in *.
  assert (G : mget p h1 = match release_of e with
                          | Some r => if r =? p then None else mget p h | None => mget p h end).
  { unfold h1. destruct (release_of e); [apply mget_del | reflexivity]. }
  destruct (alloc_of e) as [[q n]|].
  - destruct (q =? 0); [discriminate|]. destruct (mget q h1); [discriminate|].
    injection HS as <-. rewrite mget_set. destruct (q =? p); [reflexivity|].
    rewrite G. destruct (release_of e) as [r|]; [destruct (r =? p); [reflexivity|]|]; apply HI.
  - injection HS as <-. rewrite G.
    destruct (release_of e) as [r|]; [destruct (r =? p); [reflexivity|]|]; apply HI.
Qed.

(* ----- page step *)
Lemma pages_of_spec a n k : In k (pages_of a n) <-> touchesb a n k = true.
Proof.
  unfold pages_of, touchesb. destruct (N.eqb_spec n 0) as [->|Hn]; simpl.
  - split; [intros [] | discriminate].
  - rewrite in_map_iff, andb_true_iff, N.leb_le, N.leb_le. split.
    + intros (i & <- & Hi). apply in_seq in Hi. lia.
    + intros [H1 H2]. exists (N.to_nat (k - page_lo a)). split; [lia|]. apply in_seq. lia.
Qed.

Lemma touches_spec a n k : touches a n k <-> touchesb a n k = true.
Proof.
  unfold touches, touchesb. rewrite !andb_true_iff, negb_true_iff, N.eqb_neq, !N.leb_le. tauto.
Qed.

Lemma set_pages_get ks v : forall pg k,
  mget k (set_pages ks v pg) = if existsb (N.eqb k) ks then v else mget k pg.
Proof.
  unfold set_pages. induction ks as [|x ks IH]; intros pg k; simpl; [reflexivity|].
  rewrite IH, mget_upd. rewrite (N.eqb_sym k x).
  destruct (existsb (N.eqb k) ks); [rewrite orb_true_r; reflexivity|].
  rewrite orb_false_r. reflexivity.
Qed.

Lemma existsb_pages a n k : existsb (N.eqb k) (pages_of a n) = touchesb a n k.
Proof.
  destruct (touchesb a n k) eqn:E.
  - apply existsb_exists. exists k. split; [apply pages_of_spec; exact E | apply N.eqb_refl].
  - apply not_true_is_false. intros H. apply existsb_exists in H. destruct H as (x & Hin & Hx).
    apply N.eqb_eq in Hx. subst x. apply pages_of_spec in Hin. congruence.
Qed.

Lemma all_pages_spec f a n pg :
  all_pages f (pages_of a n) pg = true <-> forall k, touches a n k -> f (mget k pg) = true.
Proof.
  unfold all_pages. rewrite forallb_forall. split; intros H k Hk; apply H.
  - apply pages_of_spec, touches_spec, Hk.
  - apply touches_spec, pages_of_spec, Hk.
Qed.

Definition page_ok (pre : list event) (e : event) : Prop :=
  (forall a n, e = CodeWrite a n -> forall k, touches a n k -> page_is pre k (Some true)) /\
  (forall a n, (e = Unmap a n \/ exists w, e = Protect a n w) ->
               forall k, touches a n k -> exists w, page_is pre k (Some w)) /\
  (forall a n, e = Map a n -> forall k, touches a n k -> page_is pre k None).

Lemma is_writable_view pre pg k : page_inv pre pg ->
  (is_writable (mget k pg) = true <-> page_is pre k (Some true)).
Proof.
  intros HI. unfold page_is. rewrite (page_view _ _ _ _ HI).
  destruct (mget k pg) as [[|]|]; simpl; split; congruence.
Qed.
Lemma is_some_view pre pg k : page_inv pre pg ->
  (is_some (mget k pg) = true <-> exists w, page_is pre k (Some w)).
Proof.
  intros HI. unfold page_is. split.
  - destruct (mget k pg) as [w|] eqn:E; [|discriminate]. intros _. exists w.
    apply (page_view _ _ _ _ HI). exact E.
  - intros [w Hw]. apply (page_view _ _ _ _ HI) in Hw. rewrite Hw. reflexivity.
Qed.
Lemma is_none_view pre pg k : page_inv pre pg -> (is_none (mget k pg) = true <-> page_is pre k None).
Proof.
  intros HI. unfold page_is. rewrite (page_view _ _ _ _ HI).
  destruct (mget k pg); simpl; split; congruence.
Qed.

Lemma page_step_ok pre pg e : page_inv pre pg -> (page_step pg e <> None <-> page_ok pre e).
Proof.
  intros HI. unfold page_ok.
  destruct e; simpl;
    try (split; [intros _; repeat split; intros; try discriminate;
                 match goal with H : _ \/ _ |- _ => destruct H as [H|[? H]]; discriminate end
                | congruence]).
  - (* Map *)
    destruct (all_pages is_none (pages_of a n) pg) eqn:E.
    + split; [|congruence]. intros _. repeat split; intros; try discriminate.
      * match goal with H : _ \/ _ |- _ => destruct H as [H|[? H]]; discriminate end.
      * match goal with H : Map _ _ = Map _ _ |- _ => injection H as <- <- end.
        apply (is_none_view _ _ _ HI). rewrite all_pages_spec in E. auto.
    + split; [congruence|]. intros (_ & _ & H). exfalso.
      assert (all_pages is_none (pages_of a n) pg = true); [|congruence].
      apply all_pages_spec. intros k Hk. apply (is_none_view _ _ _ HI). eapply H; eauto.
  - (* Unmap *)
    destruct (all_pages is_some (pages_of a n) pg) eqn:E.
    + split; [|congruence]. intros _. repeat split; intros; try discriminate.
      match goal with H : _ \/ _ |- _ => destruct H as [H|[? H]]; [|discriminate] end.
      match goal with H : Unmap _ _ = Unmap _ _ |- _ => injection H as <- <- end.
      apply (is_some_view _ _ _ HI). rewrite all_pages_spec in E. auto.
    + split; [congruence|]. intros (_ & H & _). exfalso.
      assert (all_pages is_some (pages_of a n) pg = true); [|congruence].
      apply all_pages_spec. intros k Hk. apply (is_some_view _ _ _ HI). eapply H; eauto.
  - (* Protect *)
    destruct (all_pages is_some (pages_of a n) pg) eqn:E.
    + split; [|congruence]. intros _. repeat split; intros; try discriminate.
      match goal with H : _ \/ _ |- _ => destruct H as [H|[? H]]; [discriminate|] end.
      match goal with H : Protect _ _ _ = Protect _ _ _ |- _ => injection H as <- <- <- end.
      apply (is_some_view _ _ _ HI). rewrite all_pages_spec in E. auto.
    + split; [congruence|]. intros (_ & H & _). exfalso.
      assert (all_pages is_some (pages_of a n) pg = true); [|congruence].
      apply all_pages_spec. intros k Hk. apply (is_some_view _ _ _ HI). eapply H; eauto.
  - (* CodeWrite *)
    destruct (all_pages is_writable (pages_of a n) pg) eqn:E.
    + split; [|congruence]. intros _. repeat split; intros; try discriminate.
      * match goal with H : CodeWrite _ _ = CodeWrite _ _ |- _ => injection H as <- <- end.
        apply (is_writable_view _ _ _ HI). rewrite all_pages_spec in E. auto.
      * match goal with H : _ \/ _ |- _ => destruct H as [H|[? H]]; discriminate end.
    + split; [congruence|]. intros (H & _). exfalso.
      assert (all_pages is_writable (pages_of a n) pg = true); [|congruence].
      apply all_pages_spec. intros k Hk. apply (is_writable_view _ _ _ HI). eapply H; eauto.
Qed.

Lemma page_step_inv pre pg e pg' : page_inv pre pg -> page_step pg e = Some pg' -> page_inv (pre ++ [e]) pg'.
Proof.
  intros HI HS k. apply last_eff_snoc.
  destruct e; simpl in *;
    try (injection HS as <-; apply HI).
  - destruct (all_pages is_none _ _); [|discriminate]. injection HS as <-.
    rewrite set_pages_get, existsb_pages. destruct (touchesb a n k); [reflexivity | apply HI].
  - destruct (all_pages is_some _ _); [|discriminate]. injection HS as <-.
    rewrite set_pages_get, existsb_pages. destruct (touchesb a n k); [reflexivity | apply HI].
  - destruct (all_pages is_some _ _); [|discriminate]. injection HS as <-.
    rewrite set_pages_get, existsb_pages. destruct (touchesb a n k); [reflexivity | apply HI].
  - destruct (all_pages is_writable _ _); [|discriminate]. injection HS as <-. apply HI.
Qed.

(* ----- whole step *)
Definition ok_at (pre : list event) (e : event) : Prop :=
  e <> Direct /\ heap_ok pre e /\ page_ok pre e /\
  (e = Finish -> (forall p, dead pre p) /\ (forall k, page_is pre k None)).

Lemma heap_step_neutral h e : alloc_of e = None -> release_of e = None -> heap_pre h e = true ->
  heap_step h e = Some h.
Proof. intros A R P. unfold heap_step. rewrite P, A, R. reflexivity. Qed.

Lemma heap_eff_neutral e p : alloc_of e = None -> release_of e = None -> heap_eff e p = None.
Proof. intros A R. unfold heap_eff. rewrite A, R. reflexivity. Qed.

Lemma step_general s e : e <> Direct -> e <> Finish ->
  step s e = match heap_step (heap s) e, page_step (pages s) e with
             | Some h, Some pg => Some {| heap := h; pages := pg |}
             | _, _ => None
             end.
Proof. destruct e; try reflexivity; congruence. Qed.

Lemma event_kind e : e = Direct \/ e = Finish \/ (e <> Direct /\ e <> Finish).
Proof. destruct e; auto; right; right; split; discriminate. Qed.

Lemma step_ok pre s e : Inv pre s -> (step s e <> None <-> ok_at pre e).
Proof.
  intros [HH HP]. unfold ok_at.
  pose proof (heap_step_ok pre (heap s) e HH) as H1.
  pose proof (page_step_ok pre (pages s) e HP) as H2.
  destruct (event_kind e) as [->|[->|[ND NF]]].
  - (* Direct *) simpl. split; [intros H; exfalso; apply H; reflexivity
                               | intros (H & _); exfalso; apply H; reflexivity].
  - (* Finish *)
    simpl step. split.
    + intros H. split; [discriminate|]. split; [apply H1; simpl; discriminate|].
      split; [apply H2; simpl; discriminate|]. intros _.
      destruct (PM.is_empty (heap s)) eqn:EH; [|simpl in H; congruence].
      destruct (PM.is_empty (pages s)) eqn:EP; [|simpl in H; congruence].
      pose proof (proj1 (is_empty_spec _) EH) as EH'. pose proof (proj1 (is_empty_spec _) EP) as EP'.
      split.
      * intros p. apply (heap_view _ _ _ _ HH). apply EH'.
      * intros k. apply (page_view _ _ _ _ HP). apply EP'.
    + intros (_ & _ & _ & H). destruct (H eq_refl) as [A B].
      assert (EH : PM.is_empty (heap s) = true).
      { apply is_empty_spec. intros p. apply (heap_view _ _ _ _ HH). apply A. }
      assert (EP : PM.is_empty (pages s) = true).
      { apply is_empty_spec. intros k. apply (page_view _ _ _ _ HP). apply B. }
      rewrite EH, EP. simpl. discriminate.
  - rewrite (step_general s e ND NF).
    destruct (heap_step (heap s) e) eqn:E1; destruct (page_step (pages s) e) eqn:E2.
    + split; [|discriminate]. intros _. split; [exact ND|]. split; [apply H1; discriminate|].
      split; [apply H2; discriminate | intros X; congruence].
    + split; [congruence|]. intros (_ & _ & B & _). apply H2 in B. congruence.
    + split; [congruence|]. intros (_ & A & _ & _). apply H1 in A. congruence.
    + split; [congruence|]. intros (_ & A & _ & _). apply H1 in A. congruence.
Qed.

Lemma step_inv pre s e s' : Inv pre s -> step s e = Some s' -> Inv (pre ++ [e]) s'.
Proof.
  intros [HH HP] HS.
  destruct (event_kind e) as [->|[->|[ND NF]]].
  - discriminate.
  - simpl step in HS. destruct (PM.is_empty (heap s) && PM.is_empty (pages s)); [|discriminate].
    injection HS as <-. split.
    + eapply heap_step_inv; eauto.
    + eapply page_step_inv; eauto.
  - rewrite (step_general s e ND NF) in HS.
    destruct (heap_step (heap s) e) eqn:E1; [|discriminate].
    destruct (page_step (pages s) e) eqn:E2; [|discriminate].
    injection HS as <-. split; simpl; [eapply heap_step_inv; eauto | eapply page_step_inv; eauto].
Qed.

(* ----- traces *)
Lemma run_ok : forall post pre s, Inv pre s ->
  (run s post <> None <-> forall x e y, post = x ++ e :: y -> ok_at (pre ++ x) e).
Proof.
  induction post as [|e post IH]; intros pre s HI; simpl.
  - split; [|discriminate]. intros _ x e y H. destruct x; discriminate.
  - destruct (step s e) as [s'|] eqn:ES.
    + rewrite (IH (pre ++ [e]) s' (step_inv _ _ _ _ HI ES)). split.
      * intros H x e0 y E. destruct x as [|e1 x]; simpl in E; injection E as <- ->.
        -- rewrite app_nil_r. apply (step_ok _ _ _ HI). congruence.
        -- specialize (H x e0 y eq_refl). rewrite <- app_assoc in H. exact H.
      * intros H x e0 y ->. rewrite <- app_assoc. apply (H (e :: x) e0 y). reflexivity.
    + split; [congruence|]. intros H. specialize (H [] e post eq_refl). rewrite app_nil_r in H.
      apply (step_ok _ _ _ HI) in H. congruence.
Qed.

Lemma accepts_iff_ok t : accepts t = true <-> at_each t ok_at.
Proof.
  unfold accepts, at_each. pose proof (run_ok t [] st0 Inv_init) as H. simpl in H.
  destruct (run st0 t); simpl.
  - split; [|reflexivity]. intros _. apply H. discriminate.
  - split; [discriminate|]. intros A. exfalso. apply H in A. congruence.
Qed.

Lemma at_each_and t P Q : at_each t (fun pre e => P pre e /\ Q pre e) <-> at_each t P /\ at_each t Q.
Proof.
  unfold at_each. split.
  - intros H. split; intros pre e post E; apply (H pre e post E).
  - intros [H1 H2] pre e post E. split; eauto.
Qed.

Lemma no_direct_each t : no_direct_calls t <-> at_each t (fun _ e => e <> Direct).
Proof.
  unfold no_direct_calls, at_each. split.
  - intros H pre e post -> ->. apply H. apply in_elt.
  - intros H Hin. apply in_split in Hin. destruct Hin as (l1 & l2 & E). apply (H _ _ _ E). reflexivity.
Qed.

Lemma contract_iff_ok t : contract t <-> at_each t ok_at.
Proof.
  unfold contract, ok_at, heap_ok, page_ok.
  rewrite no_direct_each.
  unfold frees_live, reallocs_true_size, allocs_fresh, uses_live, code_writes_in_window,
    code_calls_on_mapped, maps_fresh, finish_clean, at_each.
  split.
  - intros (H1 & H2 & H3 & H4 & H5 & H6 & H7 & H8 & H9) pre e post E.
    repeat split; try (eapply H1; eauto); try (eapply H2; eauto); try (eapply H3; eauto);
      try (eapply H4; eauto); try (eapply H5; eauto); try (eapply H6; eauto);
      try (eapply H7; eauto); try (eapply H8; eauto); try (eapply H9; eauto).
  - intros H.
    refine (conj _ (conj _ (conj _ (conj _ (conj _ (conj _ (conj _ (conj _ _))))))));
      intros pre e post E; destruct (H pre e post E) as
        (A & (B1 & B2 & B3 & B4) & (C1 & C2 & C3) & D).
    + exact A.
    + exact B1.
    + exact B2.
    + exact B4.
    + exact B3.
    + exact C1.
    + exact C2.
    + exact C3.
    + exact D.
Qed.

Theorem monitor_sound_complete_lemma t : accepts t = true <-> contract t.
Proof. rewrite accepts_iff_ok, contract_iff_ok. reflexivity. Qed.

Lemma first_reject_spec : forall t s i, first_reject s t i = None <-> run s t <> None.
Proof.
  induction t as [|e t IH]; intros s i; simpl.
  - split; [discriminate | reflexivity].
  - destruct (step s e); [apply IH | split; [discriminate | congruence]].
Qed.

Lemma first_reject_accepts t : first_reject st0 t 0 = None <-> accepts t = true.
Proof.
  rewrite first_reject_spec. unfold accepts. destruct (run st0 t); simpl.
  - split; [reflexivity | discriminate].
  - split; [congruence | discriminate].
Qed.

(* non-vacuity: a realistic good trace is accepted, each kind of breach is rejected *)
Example good_trace_accepted :
  accepts [Malloc 1 64; Calloc 2 4 8; Realloc 1 64 96 3; Map 4294967296 8192;
           Protect 4294967296 8192 PW; CodeWrite 4294967300 100; Protect 4294967296 8192 PX;
           Protect 4294971392 50 PW; CodeWrite 4294971400 8; Protect 4294971392 50 PX;
           Free 0; Free 3; Free 2; Unmap 4294967296 8192; Finish] = true.
Proof. vm_compute. reflexivity. Qed.
Example wrong_old_size_rejected : first_reject st0 [Malloc 1 64; Realloc 1 96 96 1] 0 = Some 1.
Proof. vm_compute. reflexivity. Qed.
Example double_free_rejected : first_reject st0 [Malloc 1 64; Free 1; Free 1] 0 = Some 2.
Proof. vm_compute. reflexivity. Qed.
Example leak_rejected : first_reject st0 [Malloc 1 64; Malloc 2 8; Free 1; Finish] 0 = Some 3.
Proof. vm_compute. reflexivity. Qed.
Example unmapped_leak_rejected : first_reject st0 [Map 4096 4096; Finish] 0 = Some 1.
Proof. vm_compute. reflexivity. Qed.
Example write_outside_window_rejected :
  first_reject st0 [Map 4096 8192; Protect 4096 4096 PW; CodeWrite 8190 4] 0 = Some 2.
Proof. vm_compute. reflexivity. Qed.
Example write_after_exec_rejected :
  first_reject st0 [Map 4096 4096; Protect 4096 4096 PW; Protect 4096 4096 PX; CodeWrite 4100 1] 0 = Some 3.
Proof. vm_compute. reflexivity. Qed.
Example direct_rejected : first_reject st0 [Malloc 1 8; Direct] 0 = Some 1.
Proof. vm_compute. reflexivity. Qed.

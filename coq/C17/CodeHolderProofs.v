(* C17: every well-formed script of code-holder operations (CodeHolder.v) emits allocator events
   the contract monitor accepts, and code_finish leaves no page mapped. *)
From Coq Require Import List NArith ZArith Bool Lia ZifyBool FMapPositive.
From MirV Require Import C17.Alloc C17.AllocProofs C17.CodeHolder.
Import ListNotations.
Local Open Scope N_scope.
Ltac Zify.zify_post_hook ::= Z.div_mod_to_equations.

(* ---------- well-formed operations: sizes below 2^31, non-empty code, patches inside published code *)
Definition inside (s : chs) (lo hi : N) : bool :=
  existsb (fun h => (h_start h <=? lo) && (hi <=? h_free h)) (holders s).

Definition op_ok (s : chs) (o : chop) : bool :=
  match o with
  | Publish len => (0 <? len) && (len <? 2147483648)
  | PublishByAddr _ len => 0 <? len
  | NewAddr size => size <? 2147483648
  | Change addr len => (0 <? len) && inside s addr (addr + len)
  | Update base offs => inside s base (base + max_list offs + 8)
  | FinishAll => true
  end.

Fixpoint ops_ok (s : chs) (ops : list chop) : bool :=
  match ops with
  | [] => true
  | o :: r => op_ok s o && ops_ok (fst (fst (chstep s o))) r
  end.

(* ---------- invariants *)
Definition hpages (h : holder) (k : N) : bool := (h_start h / 4096 <=? k) && (k <? h_bound h / 4096).
Definition owned (hs : list holder) (k : N) : bool := existsb (fun h => hpages h k) hs.
Definition PV (hs : list holder) (pg : PM.t bool) : Prop :=
  forall k, mget k pg = if owned hs k then Some false else None.

Definition hwf (n : N) (h : holder) : Prop :=
  exists i q, i < n /\ h_start h = region_base i /\ 0 < q /\ q < 1048576 /\
              h_bound h = h_start h + 4096 * q /\ h_start h <= h_free h /\ h_free h <= h_bound h.
Definition swf (s : chs) : Prop :=
  Forall (hwf (nreg s)) (holders s) /\ NoDup (map h_start (holders s)).

Definition MS (pg : PM.t bool) : mstate := {| heap := PM.empty N; pages := pg |}.

Lemma hwf_mono n m h : n <= m -> hwf n h -> hwf m h.
Proof. intros L (i & q & H & R). exists i, q. split; [lia | exact R]. Qed.

Lemma region_base_pages i : region_base i = 4096 * ((i + 1) * 1048576).
Proof. unfold region_base. lia. Qed.

Lemma range_pages b q k : 0 < q ->
  (negb (4096 * b + 4096 * q - 4096 * b =? 0) && (4096 * b / 4096 <=? k)
   && (k <=? (4096 * b + (4096 * b + 4096 * q - 4096 * b) - 1) / 4096))
  = ((4096 * b / 4096 <=? k) && (k <? (4096 * b + 4096 * q) / 4096)).
Proof.
  intros Hq.
  assert (E1 : 4096 * b + 4096 * q - 4096 * b = 4096 * q) by lia. rewrite E1.
  assert (E2 : 4096 * b / 4096 = b) by lia. rewrite E2.
  assert (E3 : (4096 * b + 4096 * q - 1) / 4096 = b + q - 1) by lia. rewrite E3.
  assert (E4 : (4096 * b + 4096 * q) / 4096 = b + q) by lia. rewrite E4.
  destruct (4096 * q =? 0) eqn:A; [lia|]. simpl.
  destruct (b <=? k) eqn:B; simpl; [|reflexivity].
  destruct (k <=? b + q - 1) eqn:C; destruct (k <? b + q) eqn:D; try reflexivity; lia.
Qed.

(* pages of a holder = pages touched by its whole range *)
Lemma holder_touches n h k : hwf n h -> (touchesb (h_start h) (h_bound h - h_start h) k = hpages h k).
Proof.
  intros (i & q & Hi & Hs & Hq & Hq' & Hb & Hf1 & Hf2).
  unfold touchesb, hpages, page_lo, page_hi, page_size. rewrite Hb, Hs, region_base_pages.
  apply range_pages. exact Hq.
Qed.

(* a page belongs to at most one region *)
Lemma hpages_region n h k : hwf n h -> hpages h k = true -> k / 1048576 = h_start h / 4294967296.
Proof.
  intros (i & q & Hi & Hs & Hq & Hq' & Hb & _) H. unfold hpages, region_base in *. rewrite Hb, Hs in *.
  apply andb_true_iff in H. destruct H as [H1 H2]. lia.
Qed.

Lemma hwf_start_inj n h1 h2 : hwf n h1 -> hwf n h2 ->
  h_start h1 / 4294967296 = h_start h2 / 4294967296 -> h_start h1 = h_start h2.
Proof.
  intros (i & q & _ & Hs & _) (j & r & _ & Hs' & _). unfold region_base in *. rewrite Hs, Hs'. intros. lia.
Qed.

Lemma run_app_ch : forall a b s, run s (a ++ b) = match run s a with Some s' => run s' b | None => None end.
Proof.
  induction a as [|e a IH]; intros b s; simpl; [reflexivity|].
  destruct (step s e); [apply IH | reflexivity].
Qed.

(* ---------- monitor steps on code events, pointwise *)
Lemma step_code pg e pg' :
  alloc_of e = None -> release_of e = None -> heap_pre (PM.empty N) e = true ->
  e <> Direct -> e <> Finish ->
  page_step pg e = Some pg' -> step (MS pg) e = Some (MS pg').
Proof.
  intros A R P ND NF H. rewrite (step_general _ _ ND NF). unfold MS; simpl.
  rewrite (heap_step_neutral _ _ A R P), H. reflexivity.
Qed.

Lemma map_run pg a n :
  (forall k, touches a n k -> mget k pg = None) ->
  exists pg', step (MS pg) (Map a n) = Some (MS pg') /\
              forall k, mget k pg' = if touchesb a n k then Some false else mget k pg.
Proof.
  intros H. assert (E : all_pages is_none (pages_of a n) pg = true).
  { apply all_pages_spec. intros k Hk. rewrite (H k Hk). reflexivity. }
  eexists. split.
  - apply step_code; try reflexivity; try discriminate. simpl. rewrite E. reflexivity.
  - intros k. rewrite set_pages_get, existsb_pages. reflexivity.
Qed.

Lemma unmap_run pg a n :
  (forall k, touches a n k -> exists w, mget k pg = Some w) ->
  exists pg', step (MS pg) (Unmap a n) = Some (MS pg') /\
              forall k, mget k pg' = if touchesb a n k then None else mget k pg.
Proof.
  intros H. assert (E : all_pages is_some (pages_of a n) pg = true).
  { apply all_pages_spec. intros k Hk. destruct (H k Hk) as [w ->]. reflexivity. }
  eexists. split.
  - apply step_code; try reflexivity; try discriminate. simpl. rewrite E. reflexivity.
  - intros k. rewrite set_pages_get, existsb_pages. reflexivity.
Qed.

Lemma protect_run pg a n w :
  (forall k, touches a n k -> exists v, mget k pg = Some v) ->
  exists pg', step (MS pg) (Protect a n w) = Some (MS pg') /\
              forall k, mget k pg' = if touchesb a n k then Some (is_w w) else mget k pg.
Proof.
  intros H. assert (E : all_pages is_some (pages_of a n) pg = true).
  { apply all_pages_spec. intros k Hk. destruct (H k Hk) as [v ->]. reflexivity. }
  eexists. split.
  - apply step_code; try reflexivity; try discriminate. simpl. rewrite E. reflexivity.
  - intros k. rewrite set_pages_get, existsb_pages. reflexivity.
Qed.

Lemma write_run pg a n :
  (forall k, touches a n k -> mget k pg = Some true) -> step (MS pg) (CodeWrite a n) = Some (MS pg).
Proof.
  intros H. apply step_code; try reflexivity; try discriminate. simpl.
  assert (E : all_pages is_writable (pages_of a n) pg = true).
  { apply all_pages_spec. intros k Hk. rewrite (H k Hk). reflexivity. }
  rewrite E. reflexivity.
Qed.

Lemma touches_iff a n k : touches a n k <-> touchesb a n k = true.
Proof. apply touches_spec. Qed.

(* _MIR_set_code: protect W, writes inside the range, protect X: accepted, pages as before *)
Lemma set_code_run pg a n writes :
  (forall k, touches a n k -> mget k pg = Some false) ->
  (forall w l, In (w, l) writes -> forall k, touches w l k -> touches a n k) ->
  exists pg', run (MS pg) (set_code a n writes) = Some (MS pg') /\ forall k, mget k pg' = mget k pg.
Proof.
  intros Hp Hw. unfold set_code.
  destruct (protect_run pg a n PW) as (pg1 & S1 & G1).
  { intros k Hk. exists false. apply Hp, Hk. }
  cbn [run app]. rewrite S1.
  assert (W : run (MS pg1) (map (fun w => CodeWrite (fst w) (snd w)) writes ++ [Protect a n PX]) =
              run (MS pg1) [Protect a n PX]).
  { rewrite run_app_ch. clear S1.
    assert (R : run (MS pg1) (map (fun w => CodeWrite (fst w) (snd w)) writes) = Some (MS pg1)).
    { induction writes as [|[w l] r IH]; [reflexivity|]. cbn [map run fst snd].
      rewrite write_run.
      - apply IH. intros w' l' Hin. apply Hw. right. exact Hin.
      - intros k Hk. rewrite G1. assert (T : touchesb a n k = true).
        { apply touches_iff. eapply Hw; [left; reflexivity | exact Hk]. }
        rewrite T. reflexivity. }
    rewrite R. reflexivity. }
  rewrite W. destruct (protect_run pg1 a n PX) as (pg2 & S2 & G2).
  { intros k Hk. rewrite G1. apply touches_iff in Hk. rewrite Hk. eauto. }
  cbn [run]. rewrite S2. exists pg2. split; [reflexivity|].
  intros k. rewrite G2, G1. destruct (touchesb a n k) eqn:T; [|reflexivity].
  symmetry. apply Hp. apply touches_iff. exact T.
Qed.

(* ---------- holders *)
Lemma owned_cons h hs k : owned (h :: hs) k = hpages h k || owned hs k.
Proof. reflexivity. Qed.

Lemma owned_same_ranges k : forall hs hs',
  map (fun h => (h_start h, h_bound h)) hs = map (fun h => (h_start h, h_bound h)) hs' -> owned hs k = owned hs' k.
Proof.
  induction hs as [|h r IH]; intros [|h' r'] E; try discriminate; [reflexivity|].
  simpl in E. injection E as E1 E2 E3. rewrite !owned_cons.
  assert (Hp : hpages h k = hpages h' k) by (unfold hpages; rewrite E1, E2; reflexivity).
  rewrite Hp, (IH r' E3). reflexivity.
Qed.

Lemma PV_same_ranges hs hs' pg :
  map (fun h => (h_start h, h_bound h)) hs = map (fun h => (h_start h, h_bound h)) hs' -> PV hs pg -> PV hs' pg.
Proof. intros E H k. rewrite (H k), (owned_same_ranges k hs hs' E). reflexivity. Qed.

Lemma align16_spec a : a <= align16 a /\ align16 a < a + 16 /\ align16 a mod 16 = 0.
Proof. unfold align16. split; [lia|]. split; [lia|]. rewrite N.mod_mul; lia. Qed.

(* owned pages lie below the next region *)
Lemma owned_below s k : Forall (hwf (nreg s)) (holders s) -> owned (holders s) k = true ->
  k < (nreg s + 1) * 1048576.
Proof.
  intros F H. unfold owned in H. apply existsb_exists in H. destruct H as (h & Hin & Hk).
  rewrite Forall_forall in F. destruct (F h Hin) as (i & q & Hi & Hs & Hq & Hq' & Hb & _).
  unfold hpages in Hk. rewrite Hb, Hs, region_base_pages in Hk.
  apply andb_true_iff in Hk. destruct Hk as [_ Hk].
  assert (E : (4096 * ((i + 1) * 1048576) + 4096 * q) / 4096 = (i + 1) * 1048576 + q) by lia.
  rewrite E in Hk. lia.
Qed.

Lemma get_last_ok s size pg :
  swf s -> PV (holders s) pg -> size < 2147483648 ->
  let s1 := fst (get_last s size) in
  swf s1 /\
  (exists pg1, run (MS pg) (snd (get_last s size)) = Some (MS pg1) /\ PV (holders s1) pg1) /\
  (exists h r, holders s1 = h :: r /\ h_free h + size <= h_bound h) /\
  (forall lo hi, inside s lo hi = true -> inside s1 lo hi = true).
Proof.
  intros [F ND] P Hsz.
  (* the fresh-region case, shared by both branches *)
  assert (Fresh : forall rest, Forall (hwf (nreg s)) rest -> NoDup (map h_start rest) ->
            PV rest pg -> (forall k, owned rest k = true -> k < (nreg s + 1) * 1048576) ->
            let npages := (size + page_size) / page_size in
            let len := page_size * npages in
            let base := region_base (nreg s) in
            let hn := {| h_start := base; h_free := base; h_bound := base + len |} in
            swf {| holders := hn :: rest; nreg := nreg s + 1 |} /\
            (exists pg1, run (MS pg) [Map base len] = Some (MS pg1) /\ PV (hn :: rest) pg1) /\
            h_free hn + size <= h_bound hn).
  { intros rest Fr NDr Pr Below npages len base hn.
    assert (Hnp : 0 < npages /\ npages < 1048576 /\ size < 4096 * npages).
    { unfold npages, page_size. lia. }
    assert (Hwf : hwf (nreg s + 1) hn).
    { exists (nreg s), npages. unfold hn, len, base, page_size; simpl. repeat split; try lia. }
    split; [|split].
    - split; simpl.
      + constructor; [exact Hwf|]. eapply Forall_impl; [|exact Fr]. intros h. apply hwf_mono. lia.
      + constructor; [|exact NDr]. intros Hin. apply in_map_iff in Hin. destruct Hin as (h & Hs & Hin).
        rewrite Forall_forall in Fr. destruct (Fr h Hin) as (i & q & Hi & Hs' & _).
        rewrite Hs' in Hs. unfold base, region_base in Hs. lia.
    - destruct (map_run pg base len) as (pg1 & S1 & G1).
      { intros k Hk. rewrite (Pr k). destruct (owned rest k) eqn:O; [|reflexivity].
        apply Below in O. apply touches_iff in Hk.
        unfold touchesb, page_lo, page_size in Hk. unfold base in Hk. rewrite region_base_pages in Hk.
        apply andb_true_iff in Hk. destruct Hk as [Hk _]. apply andb_true_iff in Hk. destruct Hk as [_ Hk].
        assert (E : 4096 * ((nreg s + 1) * 1048576) / 4096 = (nreg s + 1) * 1048576) by lia.
        rewrite E in Hk. lia. }
      exists pg1. split; [cbn [run]; rewrite S1; reflexivity|].
      intros k. rewrite G1, owned_cons, <- (holder_touches (nreg s + 1) hn k Hwf). simpl.
      replace (base + len - base) with len by lia.
      destruct (touchesb base len k); simpl; [reflexivity | apply Pr].
    - unfold hn; cbn [h_free h_bound]. unfold len, page_size. destruct Hnp as (_ & _ & Hnp). lia. }
  unfold get_last. destruct (holders s) as [|h r] eqn:EH.
  - (* no holder yet *)
    destruct (Fresh [] (Forall_nil _) (NoDup_nil _)) as (W & R & Fit).
    { intros k. rewrite (P k). reflexivity. }
    { intros k Hk. discriminate. }
    simpl. split; [exact W|]. split; [exact R|]. split; [eauto|].
    intros lo hi Hin. unfold inside in Hin. rewrite EH in Hin. discriminate.
  - inversion F as [|? ? Hh Fr]; subst. inversion ND as [|? ? Hnin NDr]; subst.
    set (h' := {| h_start := h_start h; h_free := align16 (h_free h); h_bound := h_bound h |}).
    assert (Hh' : hwf (nreg s) h').
    { destruct Hh as (i & q & Hi & Hs & Hq & Hq' & Hb & Hf1 & Hf2). exists i, q.
      unfold h'; simpl. pose proof (align16_spec (h_free h)) as (A1 & A2 & A3).
      repeat split; auto; try lia.
      rewrite Hb, Hs, region_base_pages in *. unfold align16 in *. lia. }
    assert (Fr' : Forall (hwf (nreg s)) (h' :: r)) by (constructor; assumption).
    assert (ND' : NoDup (map h_start (h' :: r))) by exact ND.
    assert (P' : PV (h' :: r) pg) by (eapply PV_same_ranges; [|exact P]; reflexivity).
    assert (In' : forall lo hi, inside s lo hi = true ->
                  existsb (fun x => (h_start x <=? lo) && (hi <=? h_free x)) (h' :: r) = true).
    { intros lo hi Hin. unfold inside in Hin. rewrite EH in Hin. simpl in *.
      apply orb_true_iff in Hin. apply orb_true_iff. destruct Hin as [Hin|Hin]; [left | right; exact Hin].
      pose proof (align16_spec (h_free h)) as (A1 & _). lia. }
    fold h'.
    destruct (h_free h' + size <=? h_bound h') eqn:Efit.
    + simpl. split; [split; assumption|]. split; [exists pg; split; [reflexivity | exact P']|].
      split; [exists h', r; split; [reflexivity | lia]|]. exact In'.
    + destruct (Fresh (h' :: r) Fr' ND' P') as (W & R & Fit).
      { intros k Hk. apply (owned_below {| holders := h' :: r; nreg := nreg s |} k Fr' Hk). }
      simpl. split; [exact W|]. split; [exact R|]. split; [eauto|].
      intros lo hi Hin. unfold inside. simpl. apply orb_true_iff. right. apply (In' lo hi Hin).
Qed.

(* pages touched by a sub-range of a holder's range belong to the holder *)
Lemma sub_range_touches a n lo len k :
  a <= lo -> lo + len <= a + n -> touches lo len k -> touches a n k.
Proof.
  unfold touches, page_lo, page_hi, page_size. intros H1 H2 (Hn & H3 & H4). repeat split; try lia.
Qed.

Lemma holder_range_false n hs h pg k :
  PV hs pg -> In h hs -> hwf n h -> touches (h_start h) (h_bound h - h_start h) k -> mget k pg = Some false.
Proof.
  intros P Hin Hw Hk. rewrite (P k). apply touches_iff in Hk. rewrite (holder_touches n h k Hw) in Hk.
  assert (O : owned hs k = true).
  { unfold owned. apply existsb_exists. exists h. auto. }
  rewrite O. reflexivity.
Qed.

Lemma add_code_ok s len pg h r :
  swf s -> PV (holders s) pg -> holders s = h :: r -> 0 < len -> h_free h + len <= h_bound h ->
  let s2 := fst (fst (add_code s len)) in
  swf s2 /\
  (exists pg2, run (MS pg) (snd (add_code s len)) = Some (MS pg2) /\ PV (holders s2) pg2) /\
  (forall lo hi, inside s lo hi = true -> inside s2 lo hi = true).
Proof.
  intros [F ND] P EH Hlen Hfit. unfold add_code. rewrite EH. cbn [fst snd].
  rewrite EH in F, ND, P. inversion F as [|? ? Hh Fr]; subst.
  set (h2 := {| h_start := h_start h; h_free := h_free h + len; h_bound := h_bound h |}).
  assert (Hh2 : hwf (nreg s) h2).
  { destruct Hh as (i & q & Hi & Hs & Hq & Hq' & Hb & Hf1 & Hf2). exists i, q. unfold h2; simpl.
    repeat split; auto; lia. }
  split; [|split].
  - split; simpl; [constructor; assumption | exact ND].
  - destruct (N.eqb_spec len 0) as [->|_]; [lia|].
    destruct (set_code_run pg (h_start h) (h_bound h - h_start h) [(h_free h, len)]) as (pg2 & R & G).
    + intros k Hk. apply (holder_range_false (nreg s) (h :: r) h pg k P (or_introl eq_refl) Hh Hk).
    + intros w l [E|[]] k Hk. injection E as <- <-.
      destruct Hh as (i & q & Hi & Hs & Hq & Hq' & Hb & Hf1 & Hf2).
      eapply sub_range_touches; [| |exact Hk]; lia.
    + exists pg2. split; [exact R|]. simpl.
      apply (PV_same_ranges (h :: r)); [reflexivity|]. intros k. rewrite G. apply P.
  - intros lo hi Hin. unfold inside in *. rewrite EH in Hin. simpl in *.
    apply orb_true_iff in Hin. apply orb_true_iff. destruct Hin as [Hin|Hin]; [left; lia | right; exact Hin].
Qed.

Lemma fold_max_ge_acc : forall l acc, acc <= fold_left N.max l acc.
Proof.
  induction l as [|y l IH]; intros acc; simpl; [lia|].
  etransitivity; [|apply IH]. lia.
Qed.

Lemma max_list_ge : forall l x acc, In x l -> x <= fold_left N.max l acc.
Proof.
  induction l as [|y l IH]; intros x acc Hin; [destruct Hin|]. simpl. destruct Hin as [->|Hin].
  - etransitivity; [|apply fold_max_ge_acc]. lia.
  - apply IH. exact Hin.
Qed.

(* patching published code: _MIR_change_code / _MIR_update_code_arr *)
Lemma patch_ok s pg lo hi writes :
  swf s -> PV (holders s) pg -> inside s lo hi = true -> lo < hi ->
  (forall w l, In (w, l) writes -> lo <= w /\ w + l <= hi) ->
  exists pg', run (MS pg) (set_code (page_floor lo) (hi - page_floor lo) writes) = Some (MS pg') /\
              PV (holders s) pg'.
Proof.
  intros [F ND] P Hin Hlt Hw. unfold inside in Hin. apply existsb_exists in Hin.
  destruct Hin as (h & Hh & Hr). rewrite Forall_forall in F. pose proof (F h Hh) as Hwf.
  destruct Hwf as (i & q & Hi & Hs & Hq & Hq' & Hb & Hf1 & Hf2).
  assert (Hpf : h_start h <= page_floor lo /\ page_floor lo <= lo).
  { unfold page_floor, page_size. rewrite Hs, region_base_pages in *. lia. }
  assert (Sub : forall k, touches (page_floor lo) (hi - page_floor lo) k ->
                          touches (h_start h) (h_bound h - h_start h) k).
  { intros k Hk. eapply sub_range_touches; [| |exact Hk]; lia. }
  destruct (set_code_run pg (page_floor lo) (hi - page_floor lo) writes) as (pg' & R & G).
  - intros k Hk. apply (holder_range_false (nreg s) (holders s) h pg k P Hh); [|apply Sub; exact Hk].
    exists i, q. repeat split; auto.
  - intros w l Hwl k Hk. destruct (Hw w l Hwl) as [A B].
    eapply sub_range_touches; [| |exact Hk]; lia.
  - exists pg'. split; [exact R|]. intros k. rewrite G. apply P.
Qed.

(* code_finish *)
Lemma unmap_all_ok n : forall hs pg,
  Forall (hwf n) hs -> NoDup (map h_start hs) -> PV hs pg ->
  exists pg', run (MS pg) (map (fun h => Unmap (h_start h) (h_bound h - h_start h)) hs) = Some (MS pg') /\
              forall k, mget k pg' = None.
Proof.
  induction hs as [|h r IH]; intros pg F ND P.
  - exists pg. split; [reflexivity|]. intros k. rewrite (P k). reflexivity.
  - inversion F as [|? ? Hh Fr]; subst. inversion ND as [|? ? Hnin NDr]; subst.
    destruct (unmap_run pg (h_start h) (h_bound h - h_start h)) as (pg1 & S1 & G1).
    { intros k Hk. exists false. apply (holder_range_false n (h :: r) h pg k P (or_introl eq_refl) Hh Hk). }
    destruct (IH pg1 Fr NDr) as (pg' & R & G).
    { intros k. rewrite G1, (holder_touches n h k Hh), (P k), owned_cons.
      destruct (hpages h k) eqn:E; simpl; [|reflexivity].
      destruct (owned r k) eqn:O; [|reflexivity]. exfalso.
      unfold owned in O. apply existsb_exists in O. destruct O as (h2 & Hin2 & Hk2).
      rewrite Forall_forall in Fr. pose proof (Fr h2 Hin2) as Hh2.
      apply Hnin. apply in_map_iff. exists h2. split; [|exact Hin2].
      apply (hwf_start_inj n h2 h Hh2 Hh).
      rewrite <- (hpages_region n h2 k Hh2 Hk2), <- (hpages_region n h k Hh E). reflexivity. }
    exists pg'. split; [|exact G]. cbn [map run]. rewrite S1. exact R.
Qed.

(* ---------- one operation *)
Lemma chstep_ok s o pg :
  swf s -> PV (holders s) pg -> op_ok s o = true ->
  let s' := fst (fst (chstep s o)) in
  swf s' /\ exists pg', run (MS pg) (snd (chstep s o)) = Some (MS pg') /\ PV (holders s') pg'.
Proof.
  intros W P Hok. destruct o as [len|addr len|size|addr len|base offs|]; simpl in Hok.
  - (* Publish *)
    apply andb_true_iff in Hok. destruct Hok as [H0 H1].
    destruct (get_last_ok s len pg W P ltac:(lia)) as (W1 & (pg1 & R1 & P1) & (h & r & EH & Fit) & _).
    unfold chstep. destruct (get_last s len) as [s1 ev1] eqn:EG. cbn [fst snd] in *.
    destruct (add_code_ok s1 len pg1 h r W1 P1 EH ltac:(lia) Fit) as (W2 & (pg2 & R2 & P2) & _).
    destruct (add_code s1 len) as [[s2 mem] ev2] eqn:EA. cbn [fst snd] in *.
    split; [exact W2|]. exists pg2. split; [|exact P2]. rewrite run_app_ch, R1. exact R2.
  - (* PublishByAddr *)
    destruct (get_last_ok s 0 pg W P ltac:(lia)) as (W1 & (pg1 & R1 & P1) & (h & r & EH & Fit) & _).
    unfold chstep. destruct (get_last s 0) as [s1 ev1] eqn:EG. cbn [fst snd] in *. rewrite EH.
    destruct ((h_free h =? addr) && (h_free h + len <=? h_bound h)) eqn:EC.
    + apply andb_true_iff in EC. destruct EC as [_ EC].
      destruct (add_code_ok s1 len pg1 h r W1 P1 EH ltac:(lia) ltac:(lia)) as (W2 & (pg2 & R2 & P2) & _).
      destruct (add_code s1 len) as [[s2 mem] ev2] eqn:EA. cbn [fst snd] in *.
      split; [exact W2|]. exists pg2. split; [|exact P2]. rewrite run_app_ch, R1. exact R2.
    + cbn [fst snd]. split; [exact W1|]. exists pg1. auto.
  - (* NewAddr *)
    destruct (get_last_ok s size pg W P ltac:(lia)) as (W1 & (pg1 & R1 & P1) & _).
    unfold chstep. destruct (get_last s size) as [s1 ev1] eqn:EG. cbn [fst snd] in *.
    split; [exact W1|]. exists pg1. auto.
  - (* Change *)
    apply andb_true_iff in Hok. destruct Hok as [H0 H1].
    unfold chstep. cbn [fst snd]. split; [exact W|].
    destruct (N.eqb_spec len 0) as [->|_]; [lia|].
    apply (patch_ok s pg addr (addr + len) [(addr, len)] W P H1); [lia|].
    intros w l [E|[]]. injection E as <- <-. lia.
  - (* Update *)
    unfold chstep. cbn [fst snd]. split; [exact W|].
    apply (patch_ok s pg base (base + max_list offs + 8) (map (fun o => (base + o, 8)) offs) W P Hok); [lia|].
    intros w l Hin. apply in_map_iff in Hin. destruct Hin as (o & E & Ho). injection E as <- <-.
    pose proof (max_list_ge offs o 0 Ho) as M. unfold max_list. lia.
  - (* FinishAll *)
    unfold chstep. cbn [fst snd holders]. destruct W as [F ND].
    split; [split; [constructor | constructor]|].
    destruct (unmap_all_ok (nreg s) (holders s) pg F ND P) as (pg' & R & G).
    exists pg'. split; [exact R|]. intros k. rewrite G. reflexivity.
Qed.

(* ---------- scripts *)
Lemma chtrace_ok : forall ops s pg,
  swf s -> PV (holders s) pg -> ops_ok s ops = true ->
  exists s' pg', run (MS pg) (chtrace s ops) = Some (MS pg') /\ swf s' /\ PV (holders s') pg' /\
                 s' = fold_left (fun st o => fst (fst (chstep st o))) ops s.
Proof.
  induction ops as [|o r IH]; intros s pg W P Hok.
  - exists s, pg. auto.
  - simpl in Hok. apply andb_true_iff in Hok. destruct Hok as [H1 H2].
    destruct (chstep_ok s o pg W P H1) as (W1 & pg1 & R1 & P1).
    cbn [chtrace fold_left]. destruct (chstep s o) as [[s1 res] ev] eqn:E. cbn [fst snd] in *.
    destruct (IH s1 pg1 W1 P1 H2) as (s' & pg' & R & W' & P' & Es).
    exists s', pg'. split; [rewrite run_app_ch, R1; exact R|]. auto.
Qed.

Lemma swf0 : swf chs0.
Proof. split; constructor. Qed.

Theorem code_holder_traces_accepted_lemma : forall ops,
  ops_ok chs0 (ops ++ [FinishAll]) = true ->
  accepts (chtrace chs0 (ops ++ [FinishAll]) ++ [Finish]) = true.
Proof.
  intros ops Hok. unfold accepts.
  destruct (chtrace_ok (ops ++ [FinishAll]) chs0 (PM.empty bool) swf0) as (s' & pg' & R & W' & P' & Es); auto.
  { intros k. rewrite mget_empty. reflexivity. }
  rewrite fold_left_app in Es. simpl in Es. rewrite Es in P'. simpl in P'.
  change st0 with (MS (PM.empty bool)). rewrite run_app_ch, R. simpl.
  assert (EP : PM.is_empty pg' = true).
  { apply is_empty_spec. intros k. rewrite (P' k). reflexivity. }
  rewrite EP. reflexivity.
Qed.

(* the bracket shape of every operation's events: maps first, then at most one
   protect-W ... writes ... protect-X group on one range *)
Definition bracketed (ev : list event) : Prop :=
  exists maps body, ev = maps ++ body /\
    Forall (fun e => exists a n, e = Map a n \/ e = Unmap a n) maps /\
    (body = [] \/ exists a n ws, body = Protect a n PW :: map (fun w => CodeWrite (fst w) (snd w)) ws ++ [Protect a n PX]).

Theorem code_holder_ops_bracketed_lemma : forall s o, bracketed (snd (chstep s o)).
Proof.
  intros s o.
  assert (GL : forall size, exists maps, snd (get_last s size) = maps /\
                 Forall (fun e => exists a n, e = Map a n \/ e = Unmap a n) maps).
  { intros size. unfold get_last. destruct (holders s) as [|h r].
    - eexists. split; [reflexivity|]. constructor; [eauto | constructor].
    - match goal with |- context [if ?c then _ else _] => destruct c end; simpl;
        eexists; (split; [reflexivity|]); [constructor | constructor; [eauto | constructor]]. }
  assert (AC : forall s1 len, snd (add_code s1 len) = [] \/
                 exists a n ws, snd (add_code s1 len) =
                   Protect a n PW :: map (fun w => CodeWrite (fst w) (snd w)) ws ++ [Protect a n PX]).
  { intros s1 len. unfold add_code. destruct (holders s1) as [|h r]; [left; reflexivity|].
    right. simpl. unfold set_code. eauto. }
  destruct o as [len|addr len|size|addr len|base offs|]; unfold chstep.
  - destruct (GL len) as (maps & E & FM). destruct (get_last s len) as [s1 ev1]. simpl in E. subst ev1.
    destruct (AC s1 len) as [B|B]; destruct (add_code s1 len) as [[s2 mem] ev2]; simpl in *;
      exists maps, ev2; auto.
  - destruct (GL 0) as (maps & E & FM). destruct (get_last s 0) as [s1 ev1]. simpl in E. subst ev1.
    destruct (holders s1) as [|h r]; [exists maps, []; rewrite app_nil_r; auto|].
    destruct ((h_free h =? addr) && (h_free h + len <=? h_bound h)).
    + destruct (AC s1 len) as [B|B]; destruct (add_code s1 len) as [[s2 mem] ev2]; simpl in *;
        exists maps, ev2; auto.
    + exists maps, []. rewrite app_nil_r. auto.
  - destruct (GL size) as (maps & E & FM). destruct (get_last s size) as [s1 ev1]. simpl in E. subst ev1.
    exists maps, []. rewrite app_nil_r. auto.
  - exists [], (set_code (page_floor addr) (addr + len - page_floor addr) [(addr, if len =? 0 then 8 else len)]).
    simpl. split; [reflexivity|]. split; [constructor|]. right. unfold set_code. eauto.
  - exists [], (set_code (page_floor base) (base + max_list offs + 8 - page_floor base) (map (fun o => (base + o, 8)) offs)).
    simpl. split; [reflexivity|]. split; [constructor|]. right. unfold set_code. eauto.
  - exists (map (fun h => Unmap (h_start h) (h_bound h - h_start h)) (holders s)), []. simpl.
    rewrite app_nil_r. split; [reflexivity|]. split; [|left; reflexivity].
    apply Forall_forall. intros e He. apply in_map_iff in He. destruct He as (h & <- & _). eauto.
Qed.

(* non-vacuity: a script with region overflow, in-place publication, patches and finish *)
Example code_holder_script_ok :
  ops_ok chs0 [Publish 37; Publish 4000; NewAddr 100; PublishByAddr 8589934592 150; Change 4294967299 6;
               Update 8589934592 [0; 8; 100]; Publish 9000; FinishAll] = true.
Proof. vm_compute. reflexivity. Qed.

(* C17: the allocator contract of MIR_alloc_t / MIR_code_alloc_t (mir-alloc.h, mir-code-alloc.h,
   CUSTOM-ALLOCATORS.md) as an executable trace monitor, and the same contract stated
   declaratively over the trace.  Definitions only; proofs are in AllocProofs.v.

   Events are what a checking allocator installed through MIR_init2 sees (harness/c17_alloc.c):
   pointers are canonical block ids (0 = NULL), sizes in bytes, code addresses canonical byte
   addresses.  [Use p] = the harness found a block written after it was freed; [Direct] = the
   library called libc/OS memory management directly (link-time interposition); [Finish] = MIR_finish
   returned. *)
From Coq Require Import List NArith Bool FMapPositive.
Import ListNotations.
Local Open Scope N_scope.

Module PM := PositiveMap.

Inductive prot := PW | PX.

Inductive event :=
| Malloc (p n : N)
| Calloc (p k n : N)
| Realloc (p old new q : N)
| Free (p : N)
| Use (p : N)
| Map (a n : N)
| Unmap (a n : N)
| Protect (a n : N) (w : prot)
| CodeWrite (a n : N)
| Direct
| Finish.

(* ---------- finite maps keyed by N (PositiveMap through the bijection N.succ_pos) *)
Definition mget {V} (k : N) (m : PM.t V) : option V := PM.find (N.succ_pos k) m.
Definition mset {V} (k : N) (v : V) (m : PM.t V) : PM.t V := PM.add (N.succ_pos k) v m.
Definition mdel {V} (k : N) (m : PM.t V) : PM.t V := PM.remove (N.succ_pos k) m.
Definition mupd {V} (k : N) (v : option V) (m : PM.t V) : PM.t V :=
  match v with Some x => mset k x m | None => mdel k m end.

(* ---------- heap part *)
Definition alloc_of (e : event) : option (N * N) :=      (* (block, size) the event creates *)
  match e with
  | Malloc p n => Some (p, n)
  | Calloc p k n => Some (p, k * n)
  | Realloc _ _ new q => Some (q, new)
  | _ => None
  end.

Definition release_of (e : event) : option N :=           (* block the event destroys *)
  match e with
  | Free p => Some p
  | Realloc p _ _ _ => Some p
  | _ => None
  end.

Definition is_some {V} (o : option V) : bool := match o with Some _ => true | None => false end.
Definition is_none {V} (o : option V) : bool := match o with Some _ => false | None => true end.
Definition opt_is (o : option N) (n : N) : bool := match o with Some m => m =? n | None => false end.

Definition heap_pre (h : PM.t N) (e : event) : bool :=
  match e with
  | Free p => (p =? 0) || is_some (mget p h)
  | Realloc p old _ _ => ((p =? 0) && (old =? 0)) || opt_is (mget p h) old
  | Use p => is_some (mget p h)
  | _ => true
  end.

Definition heap_step (h : PM.t N) (e : event) : option (PM.t N) :=
  if heap_pre h e then
    let h1 := match release_of e with Some r => mdel r h | None => h end in
    match alloc_of e with
    | Some (q, n) => if q =? 0 then None
                     else match mget q h1 with Some _ => None | None => Some (mset q n h1) end
    | None => Some h1
    end
  else None.

(* ---------- code-page part; protection is per page as with mprotect *)
Definition page_size : N := 4096.
Definition page_lo (a : N) : N := a / page_size.
Definition page_hi (a n : N) : N := (a + n - 1) / page_size.

Definition touchesb (a n k : N) : bool :=
  negb (n =? 0) && (page_lo a <=? k) && (k <=? page_hi a n).

Definition pages_of (a n : N) : list N :=
  if n =? 0 then []
  else map (fun i => page_lo a + N.of_nat i) (seq 0 (N.to_nat (page_hi a n + 1 - page_lo a))).

Definition is_w (w : prot) : bool := match w with PW => true | PX => false end.
Definition is_writable (o : option bool) : bool := match o with Some true => true | _ => false end.

Definition all_pages (f : option bool -> bool) (ks : list N) (pg : PM.t bool) : bool :=
  forallb (fun k => f (mget k pg)) ks.
Definition set_pages (ks : list N) (v : option bool) (pg : PM.t bool) : PM.t bool :=
  fold_left (fun m k => mupd k v m) ks pg.

Definition page_step (pg : PM.t bool) (e : event) : option (PM.t bool) :=
  match e with
  | Map a n => if all_pages is_none (pages_of a n) pg
               then Some (set_pages (pages_of a n) (Some false) pg) else None
  | Unmap a n => if all_pages is_some (pages_of a n) pg
                 then Some (set_pages (pages_of a n) None pg) else None
  | Protect a n w => if all_pages is_some (pages_of a n) pg
                     then Some (set_pages (pages_of a n) (Some (is_w w)) pg) else None
  | CodeWrite a n => if all_pages is_writable (pages_of a n) pg then Some pg else None
  | _ => Some pg
  end.

(* ---------- the monitor *)
Record mstate := { heap : PM.t N; pages : PM.t bool }.
Definition st0 : mstate := {| heap := PM.empty N; pages := PM.empty bool |}.

Definition step (s : mstate) (e : event) : option mstate :=
  match e with
  | Direct => None
  | Finish => if PM.is_empty (heap s) && PM.is_empty (pages s) then Some s else None
  | _ => match heap_step (heap s) e, page_step (pages s) e with
         | Some h, Some pg => Some {| heap := h; pages := pg |}
         | _, _ => None
         end
  end.

Fixpoint run (s : mstate) (t : list event) : option mstate :=
  match t with
  | [] => Some s
  | e :: r => match step s e with Some s' => run s' r | None => None end
  end.

Definition accepts (t : list event) : bool := is_some (run st0 t).

(* index of the first rejected event (diagnostics for the replay) *)
Fixpoint first_reject (s : mstate) (t : list event) (i : N) : option N :=
  match t with
  | [] => None
  | e :: r => match step s e with Some s' => first_reject s' r (i + 1) | None => Some i end
  end.

(* ================= the contract, stated declaratively over the trace ================= *)

(* "the last event of [pre] that has an effect on key k gives it value v" (default when none) *)
Section LastEff.
  Context {K V : Type} (eff : event -> K -> option V) (dflt : V).
  Definition last_eff (pre : list event) (k : K) (v : V) : Prop :=
    (exists x e y, pre = x ++ e :: y /\ eff e k = Some v /\ forall e', In e' y -> eff e' k = None)
    \/ (v = dflt /\ forall e', In e' pre -> eff e' k = None).
End LastEff.

(* effect of an event on block p: Some (Some n) = creates it with size n, Some None = destroys it *)
Definition heap_eff (e : event) (p : N) : option (option N) :=
  match alloc_of e with
  | Some (q, n) =>
      if q =? p then Some (Some n)
      else match release_of e with Some r => if r =? p then Some None else None | None => None end
  | None => match release_of e with Some r => if r =? p then Some None else None | None => None end
  end.

(* effect on code page k: Some (Some w) = mapped with writability w, Some None = unmapped *)
Definition page_eff (e : event) (k : N) : option (option bool) :=
  match e with
  | Map a n => if touchesb a n k then Some (Some false) else None
  | Unmap a n => if touchesb a n k then Some None else None
  | Protect a n w => if touchesb a n k then Some (Some (is_w w)) else None
  | _ => None
  end.

(* block p is live with size n after the events [pre]: its last creation is not followed by its
   destruction *)
Definition live (pre : list event) (p n : N) : Prop := last_eff heap_eff None pre p (Some n).
Definition dead (pre : list event) (p : N) : Prop := last_eff heap_eff None pre p None.
Definition page_is (pre : list event) (k : N) (v : option bool) : Prop := last_eff page_eff None pre k v.
Definition touches (a n k : N) : Prop := n <> 0 /\ page_lo a <= k <= page_hi a n.

Definition at_each (t : list event) (P : list event -> event -> Prop) : Prop :=
  forall pre e post, t = pre ++ e :: post -> P pre e.

(* every block comes from the user allocators: no direct libc / OS call was observed *)
Definition no_direct_calls (t : list event) : Prop := ~ In Direct t.
(* no double free, no free of an unknown block (free(NULL) is allowed as in C) *)
Definition frees_live (t : list event) : Prop :=
  at_each t (fun pre e => forall p, e = Free p -> p = 0 \/ exists n, live pre p n).
(* realloc is applied to a live block and reports its true size (realloc(NULL,0,n) = malloc) *)
Definition reallocs_true_size (t : list event) : Prop :=
  at_each t (fun pre e => forall p old new q, e = Realloc p old new q ->
                                              (p = 0 /\ old = 0) \/ live pre p old).
(* allocator sanity: a new block is non-null and not one that is still live *)
Definition allocs_fresh (t : list event) : Prop :=
  at_each t (fun pre e => forall q n, alloc_of e = Some (q, n) ->
                                      q <> 0 /\ (dead pre q \/ release_of e = Some q)).
(* no use after free (as far as the harness observes uses) *)
Definition uses_live (t : list event) : Prop :=
  at_each t (fun pre e => forall p, e = Use p -> exists n, live pre p n).
(* code memory is written only inside a window: every page written is mapped and its last
   protection request asked for write access *)
Definition code_writes_in_window (t : list event) : Prop :=
  at_each t (fun pre e => forall a n, e = CodeWrite a n ->
                                      forall k, touches a n k -> page_is pre k (Some true)).
(* unmap / protect only on mapped pages; map returns unmapped pages *)
Definition code_calls_on_mapped (t : list event) : Prop :=
  at_each t (fun pre e => forall a n,
      (e = Unmap a n \/ exists w, e = Protect a n w) ->
      forall k, touches a n k -> exists w, page_is pre k (Some w)).
Definition maps_fresh (t : list event) : Prop :=
  at_each t (fun pre e => forall a n, e = Map a n -> forall k, touches a n k -> page_is pre k None).
(* after the finish calls nothing is live and nothing is mapped *)
Definition finish_clean (t : list event) : Prop :=
  at_each t (fun pre e => e = Finish -> (forall p, dead pre p) /\ (forall k, page_is pre k None)).

Definition contract (t : list event) : Prop :=
  no_direct_calls t /\ frees_live t /\ reallocs_true_size t /\ allocs_fresh t /\ uses_live t /\
  code_writes_in_window t /\ code_calls_on_mapped t /\ maps_fresh t /\ finish_clean t.

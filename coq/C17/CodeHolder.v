(* C17: model of the code holders of mir.c (get_last_code_holder, add_code, _MIR_publish_code,
   _MIR_publish_code_by_addr, _MIR_get_new_code_addr, _MIR_change_code, _MIR_update_code_arr,
   _MIR_set_code, code_finish; mir.c:4353-4507) as functions that return the allocator events
   they cause.  Definitions only.  Addresses are the canonical addresses the harness prints:
   the i-th region handed out by mem_map starts at (i+1) * 2^32. *)
From Coq Require Import List NArith Bool.
From MirV Require Import C17.Alloc.
Import ListNotations.
Local Open Scope N_scope.

Record holder := { h_start : N; h_free : N; h_bound : N }.
(* holders: most recently created first (the C VARR's last element) *)
Record chs := { holders : list holder; nreg : N }.
Definition chs0 : chs := {| holders := []; nreg := 0 |}.

Inductive chop :=
| Publish (len : N)                       (* _MIR_publish_code *)
| PublishByAddr (addr len : N)            (* _MIR_publish_code_by_addr *)
| NewAddr (size : N)                      (* _MIR_get_new_code_addr *)
| Change (addr len : N)                   (* _MIR_change_code *)
| Update (base : N) (offs : list N)       (* _MIR_update_code_arr / _MIR_update_code *)
| FinishAll.                              (* code_finish *)

Definition region_base (i : N) : N := (i + 1) * 4294967296.
Definition align16 (a : N) : N := (a + 15) / 16 * 16.

(* get_last_code_holder: the (possibly new) current holder is the head of the result *)
Definition get_last (s : chs) (size : N) : chs * list event :=
  let fresh (rest : list holder) :=
    let npages := (size + page_size) / page_size in
    let len := page_size * npages in
    let base := region_base (nreg s) in
    ({| holders := {| h_start := base; h_free := base; h_bound := base + len |} :: rest; nreg := nreg s + 1 |},
     [Map base len]) in
  match holders s with
  | h :: r =>
      let h' := {| h_start := h_start h; h_free := align16 (h_free h); h_bound := h_bound h |} in
      if h_free h' + size <=? h_bound h' then ({| holders := h' :: r; nreg := nreg s |}, [])
      else fresh (h' :: r)
  | [] => fresh []
  end.

(* _MIR_set_code with one block: protect W, copy, protect X *)
Definition set_code (pstart plen : N) (writes : list (N * N)) : list event :=
  Protect pstart plen PW :: map (fun w => CodeWrite (fst w) (snd w)) writes ++ [Protect pstart plen PX].

(* add_code on the head holder *)
Definition add_code (s : chs) (len : N) : chs * N * list event :=
  match holders s with
  | h :: r =>
      let mem := h_free h in
      ({| holders := {| h_start := h_start h; h_free := mem + len; h_bound := h_bound h |} :: r; nreg := nreg s |},
       (* _MIR_set_code's reloc_size = len; reloc_size 0 means "store the 8-byte pointer value itself" *)
       mem, set_code (h_start h) (h_bound h - h_start h) [(mem, if len =? 0 then 8 else len)])
  | [] => (s, 0, [])
  end.

Definition page_floor (a : N) : N := a / page_size * page_size.
Definition max_list (l : list N) : N := fold_left N.max l 0.

(* one operation: new state, returned address (0 = NULL / none), events *)
Definition chstep (s : chs) (o : chop) : chs * N * list event :=
  match o with
  | Publish len =>
      let '(s1, ev1) := get_last s len in
      let '(s2, mem, ev2) := add_code s1 len in (s2, mem, ev1 ++ ev2)
  | PublishByAddr addr len =>
      let '(s1, ev1) := get_last s 0 in
      match holders s1 with
      | h :: _ => if (h_free h =? addr) && (h_free h + len <=? h_bound h)
                  then let '(s2, mem, ev2) := add_code s1 len in (s2, mem, ev1 ++ ev2)
                  else (s1, 0, ev1)
      | [] => (s1, 0, ev1)
      end
  | NewAddr size =>
      let '(s1, ev1) := get_last s size in
      (s1, match holders s1 with h :: _ => h_free h | [] => 0 end, ev1)
  | Change addr len =>
      let start := page_floor addr in
      (s, 0, set_code start (addr + len - start) [(addr, if len =? 0 then 8 else len)])
  | Update base offs =>
      let start := page_floor base in
      (s, 0, set_code start (base + max_list offs + 8 - start) (map (fun o => (base + o, 8)) offs))
  | FinishAll =>
      ({| holders := []; nreg := nreg s |}, 0, map (fun h => Unmap (h_start h) (h_bound h - h_start h)) (holders s))
  end.

Fixpoint chrun (s : chs) (ops : list chop) : list (N * list event) :=
  match ops with
  | [] => []
  | o :: r => let '(s', res, ev) := chstep s o in (res, ev) :: chrun s' r
  end.

Fixpoint chtrace (s : chs) (ops : list chop) : list event :=
  match ops with
  | [] => []
  | o :: r => let '(s', _, ev) := chstep s o in ev ++ chtrace s' r
  end.

(* C17: the allocator trace of the hash table container (mir-htab.h) and of the bitmap container
   (mir-bitmap.h), obtained by composition.

   HTAB_CREATE mallocs the table descriptor and creates two VARRs ([els], [entries]); every later
   allocator call of a table is a VARR expand / tailor on one of the two (HTAB_DO doubles both when
   the element array is full); HTAB_DESTROY destroys the two VARRs and frees the descriptor.  So the
   trace of one table is  Malloc h :: (some interleaving of the traces of two VARRs) ++ [Free h].
   A bitmap IS a VARR (bitmap_t is a pointer to VARR (bitmap_el_t)).

   The theorem below is for EVERY pair of VARR operation scripts and EVERY interleaving of their
   events, hence in particular for the ones mir-htab.h produces; it combines the container result
   (VarrTrace.v, which rests on C19's "realloc reports the true old capacity") with the frame rule
   (Frame.v). *)
From Coq Require Import List NArith ZArith Bool Lia FMapPositive.
From MirV Require Import C19.Varr C19.VarrProofs C17.Alloc C17.AllocProofs C17.VarrTrace C17.Frame.
Import ListNotations.
Local Open Scope N_scope.

(* a VARR's trace without the closing Finish *)
Definition varr_body (esz dsz d : N) (init : nat) (p : N) (ops : list vop) (qs : list N) : list event :=
  let v := vcreate init in
  let '(t, pf) := varr_events esz v p ops qs in
  Malloc d dsz :: Malloc p (N.of_nat (cap v) * esz) :: t ++ [Free pf; Free d].

Lemma varr_trace_body esz dsz d init p ops qs :
  varr_trace esz dsz d init p ops qs = varr_body esz dsz d init p ops qs ++ [Finish].
Proof.
  unfold varr_trace, varr_body.
  destruct (varr_events esz (vcreate init) p ops qs) as [t pf].
  simpl. rewrite <- app_assoc. reflexivity.
Qed.

(* every block a VARR's realloc events name is the current buffer or one of the supplied pointers *)
Lemma varr_events_ptrs esz : forall ops v p qs,
  (forall e x, In e (fst (varr_events esz v p ops qs)) -> In x (hptrs e) -> x = p \/ In x qs) /\
  (snd (varr_events esz v p ops qs) = p \/ In (snd (varr_events esz v p ops qs)) qs).
Proof.
  induction ops as [|o r IH]; intros v p qs; simpl.
  - split; [intros e x [] | left; reflexivity].
  - destruct (vstep v o) as [[[v' out] ev]|]; [|split; [intros e x [] | left; reflexivity]].
    destruct ev as [[old new]|]; [|apply IH].
    specialize (IH v' (hd p qs) (tl qs)).
    destruct (varr_events esz v' (hd p qs) r (tl qs)) as [t pf]. simpl in *.
    destruct IH as [IH1 IH2].
    assert (Hhd : hd p qs = p \/ In (hd p qs) qs) by (destruct qs; simpl; auto).
    assert (Htl : forall y, In y (tl qs) -> In y qs) by (destruct qs; simpl; auto).
    split.
    + intros e x [<-|He] Hx.
      * simpl in Hx. destruct Hx as [<-|[<-|[]]]; [left; reflexivity | exact Hhd].
      * destruct (IH1 e x He Hx) as [->|H]; [exact Hhd | right; apply Htl; exact H].
    + destruct IH2 as [->|H]; [exact Hhd | right; apply Htl; exact H].
Qed.

Lemma varr_events_kind esz : forall ops v p qs e,
  In e (fst (varr_events esz v p ops qs)) -> exists a b c d, e = Realloc a b c d.
Proof.
  induction ops as [|o r IH]; intros v p qs e; simpl; [intros []|].
  destruct (vstep v o) as [[[v' out] ev]|]; [|intros []].
  destruct ev as [[old new]|]; [|apply IH].
  specialize (IH v' (hd p qs) (tl qs) e).
  destruct (varr_events esz v' (hd p qs) r (tl qs)) as [t pf]. simpl in *.
  intros [<-|H]; [repeat eexists | apply IH; exact H].
Qed.

(* the blocks of a VARR: descriptor, first buffer, supplied realloc results *)
Definition varr_ptrs (d p : N) (qs : list N) : list N := d :: p :: qs.

Lemma varr_body_events esz dsz d init p ops qs e :
  In e (varr_body esz dsz d init p ops qs) ->
  ptouch e = (fun _ => false) /\ e <> Finish /\ e <> Direct /\
  forall x, In x (hptrs e) -> In x (varr_ptrs d p qs).
Proof.
  unfold varr_body, varr_ptrs.
  pose proof (varr_events_ptrs esz ops (vcreate init) p qs) as [P1 P2].
  pose proof (varr_events_kind esz ops (vcreate init) p qs) as K.
  destruct (varr_events esz (vcreate init) p ops qs) as [t pf]. simpl in *.
  intros [<-|[<-|H]].
  - repeat split; try discriminate. intros x [<-|[]]. left; reflexivity.
  - repeat split; try discriminate. intros x [<-|[]]. right; left; reflexivity.
  - apply in_app_or in H. destruct H as [H|[<-|[<-|[]]]].
    + destruct (K e H) as (a & b & c & q & ->). repeat split; try discriminate.
      intros x Hx. destruct (P1 _ x H Hx) as [->|Hq]; [right; left; reflexivity | right; right; exact Hq].
    + repeat split; try discriminate. intros x [<-|[]].
      destruct P2 as [->|Hq]; [right; left; reflexivity | right; right; exact Hq].
    + repeat split; try discriminate. intros x [<-|[]]. left; reflexivity.
Qed.

Lemma varr_body_local esz dsz d init p ops qs :
  ~ In 0 (varr_ptrs d p qs) -> Forall local_event (varr_body esz dsz d init p ops qs).
Proof.
  intros H0. apply Forall_forall. intros e He.
  destruct (varr_body_events _ _ _ _ _ _ _ e He) as (_ & F & D & P).
  split; [exact F|]. split; [exact D|]. intros Hz. apply H0. apply P. exact Hz.
Qed.

Lemma varr_bodies_separate eA dzA dA iA pA oA qA eB dzB dB iB pB oB qB :
  (forall x, In x (varr_ptrs dA pA qA) -> ~ In x (varr_ptrs dB pB qB)) ->
  separate (varr_body eA dzA dA iA pA oA qA) (varr_body eB dzB dB iB pB oB qB).
Proof.
  intros Hd e1 e2 H1 H2.
  destruct (varr_body_events _ _ _ _ _ _ _ e1 H1) as (T1 & _ & _ & P1).
  destruct (varr_body_events _ _ _ _ _ _ _ e2 H2) as (T2 & _ & _ & P2).
  split.
  - intros x Hx Hx2. exact (Hd x (P1 x Hx) (P2 x Hx2)).
  - intros k. rewrite T1. discriminate.
Qed.

(* ---------- merging *)
Lemma merge_in a b t : merge a b t -> forall e, In e t -> In e a \/ In e b.
Proof.
  induction 1 as [|e a b t M IH|e a b t M IH]; intros x Hx; simpl in *.
  - destruct Hx.
  - destruct Hx as [<-|Hx]; [left; left; reflexivity|]. destruct (IH x Hx); [left; right; assumption | right; assumption].
  - destruct Hx as [<-|Hx]; [right; left; reflexivity|]. destruct (IH x Hx); [left; assumption | right; right; assumption].
Qed.

Lemma merge_nil_l : forall t, merge [] t t.
Proof. induction t as [|e t IH]; constructor; exact IH. Qed.

Lemma merge_nil_r : forall t, merge t [] t.
Proof. induction t as [|e t IH]; constructor; exact IH. Qed.

Lemma merge_snoc_l : forall a b t e, merge a b t -> merge (a ++ [e]) b (t ++ [e]).
Proof.
  intros a b t e M. induction M as [|x a b t M IH|x a b t M IH]; simpl.
  - constructor. constructor.
  - constructor. exact IH.
  - constructor. exact IH.
Qed.

(* a descriptor block allocated before and freed after everything in t *)
Lemma merge_wrap h hsz t : merge [Malloc h hsz; Free h] t (Malloc h hsz :: t ++ [Free h]).
Proof.
  constructor. change [Free h] with ([] ++ [Free h]) at 1. apply merge_snoc_l. apply merge_nil_l.
Qed.

Lemma descriptor_accepted h hsz : h <> 0 -> accepts ([Malloc h hsz; Free h] ++ [Finish]) = true.
Proof.
  intros Hh. unfold accepts. simpl. unfold heap_step. simpl.
  destruct (N.eqb_spec h 0); [contradiction|]. rewrite mget_empty. simpl.
  unfold heap_step, heap_pre. simpl. rewrite mget_set, N.eqb_refl. simpl.
  assert (E : PM.is_empty (mdel h (mset h hsz (PM.empty N))) = true).
  { apply is_empty_spec. intros k. rewrite mget_del, mget_set, mget_empty. destruct (h =? k); reflexivity. }
  rewrite E. reflexivity.
Qed.

(* ---------- the hash table *)
Theorem htab_traces_accepted_lemma :
  forall hsz h eA dzA dA iA pA oA qA eB dzB dB iB pB oB qB t,
    h <> 0 -> ~ In h (varr_ptrs dA pA qA) -> ~ In h (varr_ptrs dB pB qB) ->
    (forall x, In x (varr_ptrs dA pA qA) -> ~ In x (varr_ptrs dB pB qB)) ->
    dA <> 0 -> pA <> 0 -> pA <> dA -> Forall (fun q => q <> 0 /\ q <> dA) qA ->
    dB <> 0 -> pB <> 0 -> pB <> dB -> Forall (fun q => q <> 0 /\ q <> dB) qB ->
    merge (varr_body eA dzA dA iA pA oA qA) (varr_body eB dzB dB iB pB oB qB) t ->
    accepts (Malloc h hsz :: t ++ [Free h; Finish]) = true.
Proof.
  intros hsz h eA dzA dA iA pA oA qA eB dzB dB iB pB oB qB t
         Hh HhA HhB Hdisj HdA HpA HpdA HqA HdB HpB HpdB HqB M.
  assert (ZA : ~ In 0 (varr_ptrs dA pA qA)).
  { unfold varr_ptrs. intros [E|[E|E]]; [congruence | congruence |].
    rewrite Forall_forall in HqA. destruct (HqA 0 E) as [X _]. apply X; reflexivity. }
  assert (ZB : ~ In 0 (varr_ptrs dB pB qB)).
  { unfold varr_ptrs. intros [E|[E|E]]; [congruence | congruence |].
    rewrite Forall_forall in HqB. destruct (HqB 0 E) as [X _]. apply X; reflexivity. }
  pose proof (varr_body_local eA dzA dA iA pA oA qA ZA) as LA.
  pose proof (varr_body_local eB dzB dB iB pB oB qB ZB) as LB.
  pose proof (varr_bodies_separate eA dzA dA iA pA oA qA eB dzB dB iB pB oB qB Hdisj) as S.
  assert (AA : accepts (varr_body eA dzA dA iA pA oA qA ++ [Finish]) = true).
  { rewrite <- varr_trace_body. apply varr_traces_accepted_lemma; assumption. }
  assert (AB : accepts (varr_body eB dzB dB iB pB oB qB ++ [Finish]) = true).
  { rewrite <- varr_trace_body. apply varr_traces_accepted_lemma; assumption. }
  pose proof (interleaving_finish_accepted_lemma _ _ _ M LA LB S AA AB) as AT.
  (* wrap the descriptor *)
  assert (LT : Forall local_event t).
  { apply Forall_forall. intros e He. rewrite Forall_forall in LA, LB.
    destruct (merge_in _ _ _ M e He); auto. }
  assert (LC : Forall local_event [Malloc h hsz; Free h]).
  { repeat constructor; try discriminate; simpl; intros [E|[]]; congruence. }
  assert (SC : separate [Malloc h hsz; Free h] t).
  { intros e1 e2 H1 H2. split.
    - intros x Hx Hx2.
      assert (x = h) by (destruct H1 as [<-|[<-|[]]]; simpl in Hx; destruct Hx as [<-|[]]; reflexivity). subst x.
      destruct (merge_in _ _ _ M e2 H2) as [I|I].
      + destruct (varr_body_events _ _ _ _ _ _ _ e2 I) as (_ & _ & _ & P). exact (HhA (P h Hx2)).
      + destruct (varr_body_events _ _ _ _ _ _ _ e2 I) as (_ & _ & _ & P). exact (HhB (P h Hx2)).
    - intros k Hk. destruct H1 as [<-|[<-|[]]]; simpl in Hk; discriminate. }
  pose proof (interleaving_finish_accepted_lemma _ _ _ (merge_wrap h hsz t) LC LT SC
                (descriptor_accepted h hsz Hh) AT) as R.
  simpl in R. rewrite <- app_assoc in R. exact R.
Qed.

(* ---------- the bitmap: bitmap_t points to a VARR (bitmap_el_t), 8-byte elements; bitmap_create2 = VARR_CREATE,
   bitmap_destroy = VARR_DESTROY, growth through VARR_PUSH / VARR_EXPAND *)
Definition bitmap_trace := varr_trace 8.

Theorem bitmap_traces_accepted_lemma :
  forall dsz d init p ops qs,
    d <> 0 -> p <> 0 -> p <> d -> Forall (fun q => q <> 0 /\ q <> d) qs ->
    accepts (bitmap_trace dsz d init p ops qs) = true.
Proof. intros. apply varr_traces_accepted_lemma; assumption. Qed.

(* non-vacuity: a table created with 2 element slots (els tailored from capacity 2 to 2: no realloc; 4 index
   slots pushed), one expansion (entries tailored to 8, els tailored to 4), destroy -- in the order mir-htab.h
   issues the calls *)
Example htab_trace_example :
  let els := varr_body 24 32 2 2 3 [VTailor 2; VTailor 4] [6] in
  let ent := varr_body 4 32 4 4 5 [VPush 0%Z; VPush 0%Z; VPush 0%Z; VPush 0%Z; VTailor 8] [7] in
  els = [Malloc 2 32; Malloc 3 48; Realloc 3 48 96 6; Free 6; Free 2] /\
  ent = [Malloc 4 32; Malloc 5 16; Realloc 5 16 32 7; Free 7; Free 4] /\
  accepts (Malloc 1 64 :: [Malloc 2 32; Malloc 3 48; Malloc 4 32; Malloc 5 16; Realloc 5 16 32 7; Realloc 3 48 96 6;
                           Free 6; Free 2; Free 7; Free 4] ++ [Free 1; Finish]) = true.
Proof. vm_compute. repeat split. Qed.

(* C17: a frame / interleaving theorem for the contract monitor.  Two accepted traces that talk about
   disjoint blocks and disjoint code pages can be interleaved arbitrarily and stay accepted: the
   verdict on an event depends only on the blocks / pages the event names.  This is what lets the
   per-container result (VarrTrace.v) and the code-holder result (CodeHolderProofs.v) be combined: a
   context that uses several VARRs (HTAB = two VARRs + a descriptor, bitmap = one VARR, ...) and its
   code holders emits an interleaving of their individual traces. *)
From Coq Require Import List NArith Bool Lia FMapPositive.
From MirV Require Import C17.Alloc C17.AllocProofs.
Import ListNotations.
Local Open Scope N_scope.

(* blocks an event names *)
Definition hptrs (e : event) : list N :=
  match e with
  | Malloc p _ | Calloc p _ _ | Free p | Use p => [p]
  | Realloc p _ _ q => [p; q]
  | _ => []
  end.
(* does the event touch code page k *)
Definition ptouch (e : event) (k : N) : bool :=
  match e with
  | Map a n | Unmap a n | Protect a n _ | CodeWrite a n => touchesb a n k
  | _ => false
  end.

Definition local_event (e : event) : Prop := e <> Finish /\ e <> Direct /\ ~ In 0 (hptrs e).

Definition separate (a b : list event) : Prop :=
  forall e1 e2, In e1 a -> In e2 b ->
    (forall p, In p (hptrs e1) -> ~ In p (hptrs e2)) /\
    (forall k, ptouch e1 k = true -> ptouch e2 k = false).

Inductive merge : list event -> list event -> list event -> Prop :=
| merge_nil : merge [] [] []
| merge_l e a b t : merge a b t -> merge (e :: a) b (e :: t)
| merge_r e a b t : merge a b t -> merge a (e :: b) (e :: t).

(* ---------- pointwise description of one monitor step *)
Definition orelse {V} (x y : option V) : option V := match x with Some _ => x | None => y end.

Lemma heap_step_get h e h' : heap_step h e = Some h' ->
  forall k, mget k h' =
            match alloc_of e with
            | Some (q, n) => if q =? k then Some n
                             else match release_of e with Some r => if r =? k then None else mget k h | None => mget k h end
            | None => match release_of e with Some r => if r =? k then None else mget k h | None => mget k h end
            end.
Proof.
  unfold heap_step. intros H k. destruct (heap_pre h e); [|discriminate].
  set (h1 := match release_of e with Some r => mdel r h | None => h end) in *.
  assert (G : mget k h1 = match release_of e with Some r => if r =? k then None else mget k h | None => mget k h end).
  { unfold h1. destruct (release_of e); [apply mget_del | reflexivity]. }
  destruct (alloc_of e) as [[q n]|].
  - destruct (q =? 0); [discriminate|]. destruct (mget q h1); [discriminate|]. injection H as <-.
    rewrite mget_set, G. reflexivity.
  - injection H as <-. exact G.
Qed.

(* the heap verdict only reads the blocks the event names *)
Lemma heap_step_agree h g e h' :
  (forall p, In p (hptrs e) -> mget p g = mget p h) -> heap_step h e = Some h' -> exists g', heap_step g e = Some g'.
Proof.
  intros A H. unfold heap_step in *.
  assert (P : heap_pre g e = heap_pre h e).
  { destruct e; simpl in *; try reflexivity; rewrite ?(A p) by auto; reflexivity. }
  rewrite P. destruct (heap_pre h e); [|discriminate].
  destruct e; simpl in *; try (eexists; reflexivity).
  - (* Malloc *) rewrite (A p) by auto. destruct (p =? 0); [discriminate|]. destruct (mget p h); [discriminate | eauto].
  - (* Calloc *) rewrite (A p) by auto. destruct (p =? 0); [discriminate|]. destruct (mget p h); [discriminate | eauto].
  - (* Realloc *) destruct (q =? 0); [discriminate|]. rewrite mget_del in *. rewrite (A q) by auto.
    destruct (p =? q); [eauto|]. destruct (mget q h); [discriminate | eauto].
Qed.

Lemma page_step_get pg e pg' : page_step pg e = Some pg' ->
  forall k, mget k pg' = if ptouch e k
                         then match e with
                              | Map _ _ => Some false | Unmap _ _ => None | Protect _ _ w => Some (is_w w)
                              | _ => mget k pg end
                         else mget k pg.
Proof.
  intros H k. destruct e; simpl in *; try (injection H as <-; reflexivity).
  - destruct (all_pages is_none _ _); [|discriminate]. injection H as <-.
    rewrite set_pages_get, existsb_pages. reflexivity.
  - destruct (all_pages is_some _ _); [|discriminate]. injection H as <-.
    rewrite set_pages_get, existsb_pages. reflexivity.
  - destruct (all_pages is_some _ _); [|discriminate]. injection H as <-.
    rewrite set_pages_get, existsb_pages. reflexivity.
  - destruct (all_pages is_writable _ _); [|discriminate]. injection H as <-.
    destruct (touchesb a n k); reflexivity.
Qed.

Lemma forallb_ext_in' {A} (f g : A -> bool) : forall l, (forall x, In x l -> f x = g x) -> forallb f l = forallb g l.
Proof.
  induction l as [|x l IH]; intros H; simpl; [reflexivity|].
  rewrite (H x) by (left; reflexivity). rewrite IH; [reflexivity|]. intros y Hy. apply H. right. exact Hy.
Qed.

Lemma all_pages_agree f a n pg qg :
  (forall k, touchesb a n k = true -> mget k qg = mget k pg) -> all_pages f (pages_of a n) qg = all_pages f (pages_of a n) pg.
Proof.
  intros A. unfold all_pages. apply forallb_ext_in'. intros k Hk. apply pages_of_spec in Hk. rewrite (A k Hk). reflexivity.
Qed.

Lemma page_step_agree pg qg e pg' :
  (forall k, ptouch e k = true -> mget k qg = mget k pg) -> page_step pg e = Some pg' -> exists qg', page_step qg e = Some qg'.
Proof.
  intros A H. destruct e; simpl in *; try (eexists; reflexivity);
    rewrite (all_pages_agree _ a n pg qg A);
    match goal with |- context [if ?c then _ else _] => destruct c end; try discriminate; eauto.
Qed.

(* ---------- supports and the union invariant *)
Definition hsup (t : list event) (p : N) : Prop := exists e, In e t /\ In p (hptrs e).
Definition psup (t : list event) (k : N) : Prop := exists e, In e t /\ ptouch e k = true.

Definition Sup (t : list event) (s : mstate) : Prop :=
  (forall k, mget k (heap s) <> None -> hsup t k) /\ (forall k, mget k (pages s) <> None -> psup t k).

Definition U (sa sb st : mstate) : Prop :=
  (forall k, mget k (heap st) = orelse (mget k (heap sa)) (mget k (heap sb))) /\
  (forall k, mget k (pages st) = orelse (mget k (pages sa)) (mget k (pages sb))).

Definition disj (A B : list event) : Prop :=
  (forall k, hsup A k -> hsup B k -> False) /\ (forall k, psup A k -> psup B k -> False).

Lemma separate_disj A B : separate A B -> disj A B.
Proof.
  intros S. split.
  - intros k (e1 & H1 & K1) (e2 & H2 & K2). destruct (S e1 e2 H1 H2) as [D _]. exact (D k K1 K2).
  - intros k (e1 & H1 & K1) (e2 & H2 & K2). destruct (S e1 e2 H1 H2) as [_ D]. rewrite (D k K1) in K2. discriminate.
Qed.

Lemma disj_sym A B : disj A B -> disj B A.
Proof. intros [H1 H2]. split; intros k X Y; eauto. Qed.

Lemma U_sym A B sa sb st : disj A B -> Sup A sa -> Sup B sb -> U sa sb st -> U sb sa st.
Proof.
  intros [D1 D2] [SA1 SA2] [SB1 SB2] [U1 U2]. split; intros k.
  - rewrite U1. destruct (mget k (heap sa)) eqn:Ea, (mget k (heap sb)) eqn:Eb; simpl; try reflexivity.
    exfalso. apply (D1 k); [apply SA1 | apply SB1]; congruence.
  - rewrite U2. destruct (mget k (pages sa)) eqn:Ea, (mget k (pages sb)) eqn:Eb; simpl; try reflexivity.
    exfalso. apply (D2 k); [apply SA2 | apply SB2]; congruence.
Qed.

Lemma release_in_hptrs e r : release_of e = Some r -> In r (hptrs e).
Proof. destruct e; simpl; intros H; try discriminate; injection H as <-; auto. Qed.
Lemma alloc_in_hptrs e q n : alloc_of e = Some (q, n) -> In q (hptrs e).
Proof. destruct e; simpl; intros H; try discriminate; injection H as <- _; auto. Qed.

(* one step of the left trace, seen in the union state *)
Lemma step_union A B sa sb st e sa1 :
  disj A B -> Sup A sa -> Sup B sb -> U sa sb st -> In e A -> local_event e ->
  step sa e = Some sa1 ->
  exists st1, step st e = Some st1 /\ U sa1 sb st1 /\ Sup A sa1.
Proof.
  intros [D1 D2] [SA1 SA2] [SB1 SB2] [U1 U2] Hin (NF & ND & N0) HS.
  rewrite (step_general _ _ ND NF) in HS.
  destruct (heap_step (heap sa) e) as [ha|] eqn:EH; [|discriminate].
  destruct (page_step (pages sa) e) as [pa|] eqn:EP; [|discriminate]. injection HS as <-.
  (* blocks / pages named by e are absent from sb *)
  assert (NB : forall p, In p (hptrs e) -> mget p (heap sb) = None).
  { intros p Hp. destruct (mget p (heap sb)) eqn:E; [|reflexivity]. exfalso.
    apply (D1 p); [exists e; auto | apply SB1; congruence]. }
  assert (NP : forall k, ptouch e k = true -> mget k (pages sb) = None).
  { intros k Hk. destruct (mget k (pages sb)) eqn:E; [|reflexivity]. exfalso.
    apply (D2 k); [exists e; auto | apply SB2; congruence]. }
  destruct (heap_step_agree (heap sa) (heap st) e ha) as [ht EHt]; auto.
  { intros p Hp. rewrite U1, (NB p Hp). destruct (mget p (heap sa)); reflexivity. }
  destruct (page_step_agree (pages sa) (pages st) e pa) as [pt EPt]; auto.
  { intros k Hk. rewrite U2, (NP k Hk). destruct (mget k (pages sa)); reflexivity. }
  exists {| heap := ht; pages := pt |}. split; [|split].
  - rewrite (step_general _ _ ND NF), EHt, EPt. reflexivity.
  - split; intros k; simpl.
    + rewrite (heap_step_get _ _ _ EHt k), (heap_step_get _ _ _ EH k), U1.
      destruct (alloc_of e) as [[q n]|] eqn:EA.
      * destruct (N.eqb_spec q k) as [->|_]; [reflexivity|].
        destruct (release_of e) as [r|] eqn:ER; [|reflexivity].
        destruct (N.eqb_spec r k) as [->|_]; [|reflexivity].
        rewrite (NB k (release_in_hptrs _ _ ER)). reflexivity.
      * destruct (release_of e) as [r|] eqn:ER; [|reflexivity].
        destruct (N.eqb_spec r k) as [->|_]; [|reflexivity].
        rewrite (NB k (release_in_hptrs _ _ ER)). reflexivity.
    + rewrite (page_step_get _ _ _ EPt k), (page_step_get _ _ _ EP k), U2.
      destruct (ptouch e k) eqn:T; [|reflexivity]. rewrite (NP k T).
      destruct e; simpl; try reflexivity; destruct (mget k (pages sa)); reflexivity.
  - split; intros k Hk; simpl in Hk.
    + rewrite (heap_step_get _ _ _ EH k) in Hk.
      destruct (alloc_of e) as [[q n]|] eqn:EA.
      * destruct (N.eqb_spec q k) as [->|_]; [exists e; split; [auto | eapply alloc_in_hptrs; eauto]|].
        destruct (release_of e) as [r|]; [destruct (r =? k); [congruence|]|]; apply SA1; exact Hk.
      * destruct (release_of e) as [r|]; [destruct (r =? k); [congruence|]|]; apply SA1; exact Hk.
    + rewrite (page_step_get _ _ _ EP k) in Hk.
      destruct (ptouch e k) eqn:T; [exists e; auto | apply SA2; exact Hk].
Qed.

(* ---------- interleavings *)
Lemma merge_accepted_gen A B : separate A B ->
  forall a b t, merge a b t -> incl a A -> incl b B -> Forall local_event a -> Forall local_event b ->
  forall sa sb st sa' sb', U sa sb st -> Sup A sa -> Sup B sb ->
    run sa a = Some sa' -> run sb b = Some sb' ->
    exists st', run st t = Some st' /\ U sa' sb' st' /\ Sup A sa' /\ Sup B sb'.
Proof.
  intros S. pose proof (separate_disj A B S) as D.
  induction 1 as [|e a b t M IH|e a b t M IH]; intros Ia Ib La Lb sa sb st sa' sb' HU SA SB Ra Rb.
  - simpl in *. injection Ra as <-. injection Rb as <-. exists st. auto.
  - simpl in Ra. destruct (step sa e) as [sa1|] eqn:ES; [|discriminate].
    inversion La as [|? ? Le La']; subst.
    destruct (step_union A B sa sb st e sa1 D SA SB HU (Ia e (or_introl eq_refl)) Le ES) as (st1 & S1 & U1 & SA1).
    destruct (IH (fun x Hx => Ia x (or_intror Hx)) Ib La' Lb sa1 sb st1 sa' sb' U1 SA1 SB Ra Rb) as (st' & R & Rest).
    exists st'. split; [simpl; rewrite S1; exact R | exact Rest].
  - simpl in Rb. destruct (step sb e) as [sb1|] eqn:ES; [|discriminate].
    inversion Lb as [|? ? Le Lb']; subst.
    pose proof (U_sym A B sa sb st D SA SB HU) as HU'.
    destruct (step_union B A sb sa st e sb1 (disj_sym _ _ D) SB SA HU' (Ib e (or_introl eq_refl)) Le ES)
      as (st1 & S1 & U1 & SB1).
    pose proof (U_sym B A sb1 sa st1 (disj_sym _ _ D) SB1 SA U1) as U1'.
    destruct (IH Ia (fun x Hx => Ib x (or_intror Hx)) La Lb' sa sb1 st1 sa' sb' U1' SA SB1 Ra Rb) as (st' & R & Rest).
    exists st'. split; [simpl; rewrite S1; exact R | exact Rest].
Qed.

Lemma U_init : U st0 st0 st0.
Proof. split; intros k; simpl; rewrite mget_empty; reflexivity. Qed.
Lemma Sup_init t : Sup t st0.
Proof. split; intros k H; simpl in H; rewrite mget_empty in H; congruence. Qed.

Lemma accepts_run t : accepts t = true <-> exists s, run st0 t = Some s.
Proof. unfold accepts. destruct (run st0 t); simpl; split; eauto; try discriminate. intros [s H]; discriminate. Qed.

Theorem interleaving_accepted_lemma : forall a b t,
  merge a b t -> Forall local_event a -> Forall local_event b -> separate a b ->
  accepts a = true -> accepts b = true -> accepts t = true.
Proof.
  intros a b t M La Lb S Ha Hb. apply accepts_run in Ha, Hb. destruct Ha as [sa Ra], Hb as [sb Rb].
  destruct (merge_accepted_gen a b S a b t M (incl_refl _) (incl_refl _) La Lb st0 st0 st0 sa sb
              U_init (Sup_init a) (Sup_init b) Ra Rb) as (st' & R & _).
  apply accepts_run. eauto.
Qed.

Lemma run_snoc t e s : run st0 t = Some s -> run st0 (t ++ [e]) = match step s e with Some s' => Some s' | None => None end.
Proof.
  intros R. assert (G : forall t s0, run s0 t = Some s -> run s0 (t ++ [e]) = match step s e with Some s' => Some s' | None => None end).
  { clear. induction t as [|x t IH]; intros s0 R; simpl in *.
    - injection R as ->. destruct (step s e); reflexivity.
    - destruct (step s0 x); [apply IH; exact R | discriminate]. }
  apply G. exact R.
Qed.

(* ... and if both parts end clean, so does the interleaving: nothing live, nothing mapped at Finish *)
Theorem interleaving_finish_accepted_lemma : forall a b t,
  merge a b t -> Forall local_event a -> Forall local_event b -> separate a b ->
  accepts (a ++ [Finish]) = true -> accepts (b ++ [Finish]) = true -> accepts (t ++ [Finish]) = true.
Proof.
  intros a b t M La Lb S Ha Hb.
  assert (Clean : forall x, accepts (x ++ [Finish]) = true ->
            exists s, run st0 x = Some s /\ PM.is_empty (heap s) = true /\ PM.is_empty (pages s) = true).
  { intros x Hx. apply accepts_run in Hx. destruct Hx as [s' Hs'].
    destruct (run st0 x) as [s|] eqn:R.
    - rewrite (run_snoc x Finish s R) in Hs'. simpl in Hs'.
      destruct (PM.is_empty (heap s)) eqn:E1; [|discriminate]. destruct (PM.is_empty (pages s)) eqn:E2; [|discriminate].
      eauto.
    - exfalso. assert (G : forall t s0, run s0 t = None -> run s0 (t ++ [Finish]) = None).
      { clear. induction t as [|y t IH]; intros s0 R; simpl in *; [discriminate|].
        destruct (step s0 y); [apply IH; exact R | reflexivity]. }
      rewrite (G x st0 R) in Hs'. discriminate. }
  destruct (Clean a Ha) as (sa & Ra & EA1 & EA2). destruct (Clean b Hb) as (sb & Rb & EB1 & EB2).
  destruct (merge_accepted_gen a b S a b t M (incl_refl _) (incl_refl _) La Lb st0 st0 st0 sa sb
              U_init (Sup_init a) (Sup_init b) Ra Rb) as (st' & R & [U1 U2] & _).
  apply accepts_run. rewrite (run_snoc t Finish st' R). simpl.
  assert (E1 : PM.is_empty (heap st') = true).
  { apply is_empty_spec. intros k. rewrite U1, (proj1 (is_empty_spec _) EA1 k), (proj1 (is_empty_spec _) EB1 k). reflexivity. }
  assert (E2 : PM.is_empty (pages st') = true).
  { apply is_empty_spec. intros k. rewrite U2, (proj1 (is_empty_spec _) EA2 k), (proj1 (is_empty_spec _) EB2 k). reflexivity. }
  rewrite E1, E2. simpl. eauto.
Qed.

(* non-vacuity: two containers used alternately *)
Example interleaving_example :
  merge [Malloc 1 8; Realloc 1 8 16 3; Free 3] [Malloc 2 4; Map 4096 4096; Free 2; Unmap 4096 4096]
        [Malloc 1 8; Malloc 2 4; Map 4096 4096; Realloc 1 8 16 3; Free 2; Free 3; Unmap 4096 4096].
Proof. repeat constructor. Qed.

From Coq Require Import ZArith List Lia.
From MirV Require Import C03.CodePatch.
Import ListNotations.
Local Open Scope Z_scope.

Lemma page_down_le : forall page a, 0 < page -> page_down page a <= a < page_down page a + page.
Proof.
  intros page a Hp. unfold page_down.
  pose proof (Z.div_mod a page ltac:(lia)) as E.
  pose proof (Z.mod_pos_bound a page Hp) as B.
  rewrite Z.mul_comm. lia.
Qed.

Lemma page_down_aligned : forall page a, 0 < page -> page_down page a mod page = 0.
Proof. intros. unfold page_down. apply Z.mod_mul. lia. Qed.

Lemma page_down_idem : forall page a, 0 < page -> page_down page (page_down page a) = page_down page a.
Proof.
  intros page a Hp. unfold page_down. rewrite Z.div_mul by lia. reflexivity.
Qed.

Lemma page_up_ge : forall page a, 0 < page -> a <= page_up page a < a + page.
Proof.
  intros page a Hp. unfold page_up.
  pose proof (Z.div_mod (a + page - 1) page ltac:(lia)) as E.
  pose proof (Z.mod_pos_bound (a + page - 1) page Hp) as B.
  rewrite Z.mul_comm. lia.
Qed.

(* the request of _MIR_change_code: page-aligned start, and exactly the pages the patched bytes touch *)
Lemma change_code_exact : forall page addr n, 0 < page ->
  fst (change_code_region page addr n) mod page = 0
  /\ protected page (change_code_region page addr n) = (page_down page addr, page_up page (addr + n)).
Proof.
  intros page addr n Hp. unfold change_code_region, protected. cbn [fst snd]. split.
  - apply Z.mod_mul. lia.
  - f_equal.
    + apply (page_down_idem page addr Hp).
    + f_equal. lia.
Qed.

Lemma change_code_covers : forall page addr n, 0 < page -> 0 <= n ->
  writable page (change_code_region page addr n) addr n.
Proof.
  intros page addr n Hp Hn. unfold writable.
  destruct (change_code_exact page addr n Hp) as [_ E]. rewrite E. cbn [fst snd].
  pose proof (page_down_le page addr Hp). pose proof (page_up_ge page (addr + n) Hp). lia.
Qed.

(* no page is made writable that the patch does not touch *)
Lemma change_code_tight : forall page addr n, 0 < page -> 0 < n ->
  addr < fst (protected page (change_code_region page addr n)) + page
  /\ snd (protected page (change_code_region page addr n)) - page < addr + n.
Proof.
  intros page addr n Hp Hn.
  destruct (change_code_exact page addr n Hp) as [_ E]. rewrite E. cbn [fst snd].
  pose proof (page_down_le page addr Hp). pose proof (page_up_ge page (addr + n) Hp). lia.
Qed.

Lemma fold_max_ge_acc : forall l acc, acc <= fold_left Z.max l acc.
Proof.
  induction l as [|x l IH]; intros acc; cbn.
  - lia.
  - specialize (IH (Z.max acc x)). lia.
Qed.

Lemma fold_max_ge_in : forall l acc x, In x l -> x <= fold_left Z.max l acc.
Proof.
  induction l as [|y l IH]; intros acc x Hin; cbn.
  - destruct Hin.
  - destruct Hin as [->|Hin].
    + pose proof (fold_max_ge_acc l (Z.max acc x)). lia.
    + apply IH. exact Hin.
Qed.

(* _MIR_update_code_arr: every relocated word [base + off, base + off + 8) is writable *)
Lemma update_code_covers : forall page base offs off, 0 < page -> In off offs -> 0 <= off ->
  writable page (update_code_region page base offs) (base + off) 8.
Proof.
  intros page base offs off Hp Hin Hoff. unfold writable, update_code_region, protected. cbn [fst snd].
  pose proof (fold_max_ge_in offs 0 off Hin) as Hm. fold (max_offset offs) in Hm.
  replace (base / page * page) with (page_down page base) by reflexivity.
  rewrite (page_down_idem page base Hp).
  pose proof (page_down_le page base Hp).
  pose proof (page_up_ge page (page_down page base + (base + max_offset offs + 8 - page_down page base)) Hp).
  lia.
Qed.

(* "protection works on whole pages, so the length of the patch is enough" is wrong: a patch that straddles a page
   boundary needs the second page too *)
Lemma short_request_refuted : exists page addr n,
  0 < page /\ 0 < n /\ ~ writable page (page_down page addr, n) addr n.
Proof.
  exists 4096, 8189, 6. split; [lia|]. split; [lia|].
  unfold writable, protected, page_down, page_up. cbn. lia.
Qed.
